#!/bin/sh
# rewrites corpus/C06/sites_baseline.json (decoder package -> hash of its fault-site list) from /repo's working tree;
# run after reviewing why `./check C06` reported `sites_changed:<package>` in evidence/C06.json harness_stats.
set -e
export GOFLAGS=-mod=mod GOPROXY=off GOSUMDB=off GOTOOLCHAIN=local
here="$(cd "$(dirname "$0")" && pwd)"
cd "$here/../../extract"
go run ./c06sites "${VERIF_REPO:-/repo}" -json | python3 -c '
import json,sys
rows=json.load(sys.stdin)
json.dump({r["pkg"]: r["closure_hash"] for r in rows if r["formats"]}, open(sys.argv[1],"w"), indent=1, sort_keys=True)
open(sys.argv[1],"a").write("\n")
' "$here/sites_baseline.json"
echo "wrote $here/sites_baseline.json"
