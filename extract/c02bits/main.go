// c02bits: regenerated fact for C02.  Translates two straight-line uint64 bit functions of /repo to
// Lean `BitVec 64` definitions (lean/FqModel/Gen/BitFns.lean):
//
//	pkg/bitio/reversebytes64.go  ReverseBytes64   (switch over nBits, one mask/shift/or expression per case)
//	pkg/decode/read.go           trySEndian       (the sign test and the two's complement expression)
//
// Props.C02 proves `Gen.f = Model.f` by `rfl`: the hand-written model in FqModel/Scalar.lean is the
// code that is in the repository now.
//
// usage: go run ./c02bits /repo
package main

import (
	"fmt"
	"go/ast"
	"go/parser"
	"go/token"
	"os"
	"path/filepath"
	"strings"
)

// dieErr: the source is not in the translatable fragment (caught per function: the tie of that
// function then falls back to the correspondence run, see harness/cmd/c02 `fn` cases)
type dieErr string

func die(format string, a ...any) {
	panic(dieErr(fmt.Sprintf(format, a...)))
}

// natExpr: an int-typed expression (shift counts, widths) as a Lean Nat expression
func natExpr(e ast.Expr) string {
	switch x := e.(type) {
	case *ast.ParenExpr:
		return "(" + natExpr(x.X) + ")"
	case *ast.Ident:
		return x.Name
	case *ast.BasicLit:
		if x.Kind == token.INT {
			return x.Value
		}
	case *ast.BinaryExpr:
		switch x.Op {
		case token.ADD, token.SUB, token.MUL, token.QUO, token.REM:
			return "(" + natExpr(x.X) + " " + x.Op.String() + " " + natExpr(x.Y) + ")"
		}
	case *ast.CallExpr:
		if id, ok := x.Fun.(*ast.Ident); ok && len(x.Args) == 1 {
			switch id.Name {
			case "uint", "int", "int64", "uint64": // non-negative widths / counts
				return natExpr(x.Args[0])
			case "BitsByteCount":
				return "((" + natExpr(x.Args[0]) + " + 7) / 8)"
			}
		}
	}
	die("unsupported int expression %T", e)
	return ""
}

// bvExpr: a uint64-typed expression as a Lean BitVec 64 expression
func bvExpr(e ast.Expr) string {
	switch x := e.(type) {
	case *ast.ParenExpr:
		return "(" + bvExpr(x.X) + ")"
	case *ast.Ident:
		return x.Name
	case *ast.BasicLit:
		if x.Kind == token.INT {
			return x.Value + "#64"
		}
	case *ast.UnaryExpr:
		switch x.Op {
		case token.XOR:
			return "(~~~" + bvExpr(x.X) + ")"
		case token.SUB:
			return "(-" + bvExpr(x.X) + ")"
		}
	case *ast.CallExpr:
		// conversions int64(x) / uint64(x): same bits
		if id, ok := x.Fun.(*ast.Ident); ok && (id.Name == "int64" || id.Name == "uint64") && len(x.Args) == 1 {
			return bvExpr(x.Args[0])
		}
		// math/bits on uint64
		if se, ok := x.Fun.(*ast.SelectorExpr); ok && len(x.Args) == 1 {
			if id, ok := se.X.(*ast.Ident); ok && id.Name == "bits" {
				switch se.Sel.Name {
				case "ReverseBytes64":
					return "(bswap64 " + bvExpr(x.Args[0]) + ")"
				case "Reverse64":
					return "(" + bvExpr(x.Args[0]) + ").reverse"
				}
			}
		}
	case *ast.BinaryExpr:
		switch x.Op {
		case token.AND:
			return "(" + bvExpr(x.X) + " &&& " + bvExpr(x.Y) + ")"
		case token.OR:
			return "(" + bvExpr(x.X) + " ||| " + bvExpr(x.Y) + ")"
		case token.XOR:
			return "(" + bvExpr(x.X) + " ^^^ " + bvExpr(x.Y) + ")"
		case token.ADD:
			return "(" + bvExpr(x.X) + " + " + bvExpr(x.Y) + ")"
		case token.SUB:
			return "(" + bvExpr(x.X) + " - " + bvExpr(x.Y) + ")"
		case token.SHL:
			return "(" + bvExpr(x.X) + " <<< " + natExpr(x.Y) + ")"
		case token.SHR:
			return "(" + bvExpr(x.X) + " >>> " + natExpr(x.Y) + ")"
		}
	}
	die("unsupported uint64 expression %T", e)
	return ""
}

func findFunc(f *ast.File, name string) *ast.FuncDecl {
	for _, d := range f.Decls {
		if fd, ok := d.(*ast.FuncDecl); ok && fd.Name.Name == name {
			return fd
		}
	}
	die("function %s not found", name)
	return nil
}

// ---------------------------------------------------------------------------------------------
// a small translator for straight-line unsigned integer code with `if` (no else), early `return`
// and condition-only `for` loops: every variable is a Nat, wrap-around is explicit (`u32` / `u64`
// after <<, +, ++, --), an `if` without else duplicates the continuation, a loop becomes a
// fuel-bounded recursive helper.  Used for mathx.expandF16ToF32 and mathx.Float80.Float64.

type tr struct {
	wrap    string            // "u32" | "u64"
	mod     string            // "2 ^ 32" | "2 ^ 64"
	consts  map[string]string // package constants (literal values)
	rename  map[string]string
	bigMant map[string]string // x := new(big.Float).SetPrec(64).SetUint64(m)
	bigExp  map[string]string // x.SetMantExp(x, e)
	helpers []string
	fn      string
	fuel    int
}

func (t *tr) isConst(e ast.Expr) bool {
	switch x := e.(type) {
	case *ast.BasicLit:
		return true
	case *ast.Ident:
		_, ok := t.consts[x.Name]
		return ok
	case *ast.ParenExpr:
		return t.isConst(x.X)
	case *ast.BinaryExpr:
		return t.isConst(x.X) && t.isConst(x.Y)
	}
	return false
}

func (t *tr) expr(e ast.Expr) string {
	switch x := e.(type) {
	case *ast.ParenExpr:
		return t.expr(x.X)
	case *ast.BasicLit:
		if x.Kind == token.INT {
			return x.Value
		}
	case *ast.Ident:
		if v, ok := t.consts[x.Name]; ok {
			return v
		}
		if r, ok := t.rename[x.Name]; ok {
			return r
		}
		return x.Name
	case *ast.SelectorExpr:
		if id, ok := x.X.(*ast.Ident); ok {
			return id.Name + "_" + x.Sel.Name
		}
	case *ast.CallExpr:
		if id, ok := x.Fun.(*ast.Ident); ok && len(x.Args) == 1 {
			switch id.Name {
			case "uint32", "uint64", "uint16", "Float16":
				return t.expr(x.Args[0]) // widening / same-width conversions of values that fit
			}
		}
	case *ast.BinaryExpr:
		a, b := t.expr(x.X), t.expr(x.Y)
		switch x.Op {
		case token.AND:
			return "(" + a + " &&& " + b + ")"
		case token.OR:
			return "(" + a + " ||| " + b + ")"
		case token.SHL:
			return "(" + t.wrap + " (" + a + " <<< " + b + "))"
		case token.SHR:
			return "(" + a + " >>> " + b + ")"
		case token.ADD:
			return "(" + t.wrap + " (" + a + " + " + b + "))"
		case token.SUB:
			if t.isConst(x) {
				return "(" + a + " - " + b + ")"
			}
			return "(" + t.wrap + " (" + a + " + " + t.mod + " - " + b + "))"
		}
	}
	die("%s: unsupported expression %T", t.fn, e)
	return ""
}

// intExpr: a Go `int` expression (the exponent handed to SetMantExp) as a Lean Int
func (t *tr) intExpr(e ast.Expr) string {
	switch x := e.(type) {
	case *ast.ParenExpr:
		return "(" + t.intExpr(x.X) + ")"
	case *ast.BasicLit:
		return x.Value
	case *ast.CallExpr:
		if id, ok := x.Fun.(*ast.Ident); ok && id.Name == "int" && len(x.Args) == 1 {
			return "((" + t.expr(x.Args[0]) + " : Nat) : Int)"
		}
	case *ast.BinaryExpr:
		if x.Op == token.SUB || x.Op == token.ADD {
			return "(" + t.intExpr(x.X) + " " + x.Op.String() + " " + t.intExpr(x.Y) + ")"
		}
	}
	die("%s: unsupported int expression %T", t.fn, e)
	return ""
}

func (t *tr) cond(e ast.Expr) string {
	be, ok := e.(*ast.BinaryExpr)
	if !ok {
		die("%s: unsupported condition", t.fn)
	}
	switch be.Op {
	case token.EQL:
		return t.expr(be.X) + " = " + t.expr(be.Y)
	case token.NEQ:
		return t.expr(be.X) + " ≠ " + t.expr(be.Y)
	}
	die("%s: unsupported condition operator %s", t.fn, be.Op)
	return ""
}

func isCall(e ast.Expr, recv, method string) (*ast.CallExpr, bool) {
	ce, ok := e.(*ast.CallExpr)
	if !ok {
		return nil, false
	}
	se, ok := ce.Fun.(*ast.SelectorExpr)
	if !ok || se.Sel.Name != method {
		return nil, false
	}
	if recv != "" {
		id, ok := se.X.(*ast.Ident)
		if !ok || id.Name != recv {
			return nil, false
		}
	}
	return ce, true
}

// one simple (non-branching) statement as a `let`; "" if it only records something
func (t *tr) simple(st ast.Stmt) (string, bool) {
	switch x := st.(type) {
	case *ast.AssignStmt:
		if len(x.Lhs) == 2 && len(x.Rhs) == 1 {
			// v, _ := x.Float64()
			v, ok1 := x.Lhs[0].(*ast.Ident)
			u, ok2 := x.Lhs[1].(*ast.Ident)
			if ce, ok := x.Rhs[0].(*ast.CallExpr); ok && ok1 && ok2 && u.Name == "_" {
				if se, ok := ce.Fun.(*ast.SelectorExpr); ok && se.Sel.Name == "Float64" {
					bx := se.X.(*ast.Ident).Name
					m, okm := t.bigMant[bx]
					e, oke := t.bigExp[bx]
					if !okm || !oke {
						die("%s: big.Float %s without SetUint64/SetMantExp", t.fn, bx)
					}
					// a 64-bit-precision big.Float holds m·2^e exactly; (*Float).Float64 rounds to nearest even
					return fmt.Sprintf("let %s := roundF64 false %s %s", v.Name, m, e), true
				}
			}
			die("%s: unsupported two-value assignment", t.fn)
		}
		if len(x.Lhs) != 1 || len(x.Rhs) != 1 {
			die("%s: unsupported assignment", t.fn)
		}
		lhs, ok := x.Lhs[0].(*ast.Ident)
		if !ok {
			die("%s: unsupported assignment target", t.fn)
		}
		switch x.Tok {
		case token.DEFINE, token.ASSIGN:
			// x := new(big.Float).SetPrec(64).SetUint64(m)
			if c1, ok := isCall(x.Rhs[0], "", "SetUint64"); ok {
				c2, ok2 := isCall(c1.Fun.(*ast.SelectorExpr).X, "", "SetPrec")
				if !ok2 || len(c2.Args) != 1 || len(c1.Args) != 1 {
					die("%s: unsupported big.Float construction", t.fn)
				}
				if bl, ok := c2.Args[0].(*ast.BasicLit); !ok || bl.Value != "64" {
					die("%s: big.Float precision must be 64 (the whole significand)", t.fn)
				}
				t.bigMant[lhs.Name] = t.expr(c1.Args[0])
				return "", true
			}
			// v = -v on a float64 bit pattern
			if ue, ok := x.Rhs[0].(*ast.UnaryExpr); ok && ue.Op == token.SUB {
				return fmt.Sprintf("let %s := negF64 %s", lhs.Name, t.expr(ue.X)), true
			}
			return fmt.Sprintf("let %s := %s", lhs.Name, t.expr(x.Rhs[0])), true
		case token.SHL_ASSIGN:
			return fmt.Sprintf("let %s := (%s (%s <<< %s))", lhs.Name, t.wrap, lhs.Name, t.expr(x.Rhs[0])), true
		case token.AND_ASSIGN:
			return fmt.Sprintf("let %s := (%s &&& %s)", lhs.Name, lhs.Name, t.expr(x.Rhs[0])), true
		case token.ADD_ASSIGN:
			return fmt.Sprintf("let %s := (%s (%s + %s))", lhs.Name, t.wrap, lhs.Name, t.expr(x.Rhs[0])), true
		}
		die("%s: unsupported assignment operator %s", t.fn, x.Tok)
	case *ast.IncDecStmt:
		id := x.X.(*ast.Ident).Name
		if x.Tok == token.INC {
			return fmt.Sprintf("let %s := (%s (%s + 1))", id, t.wrap, id), true
		}
		return fmt.Sprintf("let %s := (%s (%s + %s - 1))", id, t.wrap, id, t.mod), true
	case *ast.ExprStmt:
		// x.SetMantExp(x, e)
		if ce, ok := x.X.(*ast.CallExpr); ok {
			if se, ok := ce.Fun.(*ast.SelectorExpr); ok && se.Sel.Name == "SetMantExp" && len(ce.Args) == 2 {
				bx := se.X.(*ast.Ident).Name
				if a0, ok := ce.Args[0].(*ast.Ident); !ok || a0.Name != bx {
					die("%s: SetMantExp must scale the value itself", t.fn)
				}
				t.bigExp[bx] = t.intExpr(ce.Args[1])
				return "", true
			}
		}
	}
	return "", false
}

func assignedVars(b *ast.BlockStmt) []string {
	var vs []string
	seen := map[string]bool{}
	for _, st := range b.List {
		var n string
		switch x := st.(type) {
		case *ast.AssignStmt:
			n = x.Lhs[0].(*ast.Ident).Name
		case *ast.IncDecStmt:
			n = x.X.(*ast.Ident).Name
		default:
			die("loop body: unsupported statement %T", st)
		}
		if !seen[n] {
			seen[n] = true
			vs = append(vs, n)
		}
	}
	return vs
}

// block translates a statement list to one Lean expression (the function's result)
func (t *tr) block(sts []ast.Stmt, ind string) string {
	if len(sts) == 0 {
		die("%s: control reaches the end of the function without return", t.fn)
	}
	st, rest := sts[0], sts[1:]
	if s, ok := t.simple(st); ok {
		if s == "" {
			return t.block(rest, ind)
		}
		return ind + s + "\n" + t.block(rest, ind)
	}
	switch x := st.(type) {
	case *ast.ReturnStmt:
		if len(x.Results) != 1 {
			die("%s: unsupported return", t.fn)
		}
		if ce, ok := x.Results[0].(*ast.CallExpr); ok {
			if se, ok := ce.Fun.(*ast.SelectorExpr); ok {
				if id, ok := se.X.(*ast.Ident); ok && id.Name == "math" {
					switch se.Sel.Name {
					case "NaN":
						return ind + "0x7FF8000000000001" // math.NaN()
					case "Inf":
						if ue, ok := ce.Args[0].(*ast.UnaryExpr); ok && ue.Op == token.SUB {
							return ind + "0xFFF0000000000000"
						}
						return ind + "0x7FF0000000000000"
					}
				}
			}
		}
		return ind + t.expr(x.Results[0])
	case *ast.IfStmt:
		if x.Else != nil || x.Init != nil {
			die("%s: if with else/init is not supported", t.fn)
		}
		body := append(append([]ast.Stmt{}, x.Body.List...), rest...)
		return ind + "if " + t.cond(x.Cond) + " then\n" + t.block(body, ind+"  ") + "\n" + ind + "else\n" + t.block(rest, ind+"  ")
	case *ast.ForStmt:
		if x.Init != nil || x.Post != nil || x.Cond == nil {
			die("%s: only condition-only loops are supported", t.fn)
		}
		vs := assignedVars(x.Body)
		name := fmt.Sprintf("%s_loop%d", t.fn, len(t.helpers))
		var hb strings.Builder
		fmt.Fprintf(&hb, "def %s : Nat → %s%s\n", name, strings.Repeat("Nat → ", len(vs)), strings.Join(repeat("Nat", len(vs)), " × "))
		fmt.Fprintf(&hb, "  | 0, %s => (%s)\n", strings.Join(vs, ", "), strings.Join(vs, ", "))
		fmt.Fprintf(&hb, "  | fuel+1, %s =>\n    if %s then\n", strings.Join(vs, ", "), t.cond(x.Cond))
		for _, bst := range x.Body.List {
			s, ok := t.simple(bst)
			if !ok || s == "" {
				die("%s: unsupported loop body", t.fn)
			}
			hb.WriteString("      " + s + "\n")
		}
		fmt.Fprintf(&hb, "      %s fuel %s\n    else (%s)\n", name, strings.Join(vs, " "), strings.Join(vs, ", "))
		t.helpers = append(t.helpers, hb.String())
		return ind + fmt.Sprintf("let (%s) := %s %d %s", strings.Join(vs, ", "), name, t.fuel, strings.Join(vs, " ")) + "\n" + t.block(rest, ind)
	}
	die("%s: unsupported statement %T", t.fn, st)
	return ""
}

func repeat(s string, n int) []string {
	r := make([]string, n)
	for i := range r {
		r[i] = s
	}
	return r
}

func packageConsts(f *ast.File) map[string]string {
	m := map[string]string{}
	for _, d := range f.Decls {
		gd, ok := d.(*ast.GenDecl)
		if !ok || gd.Tok != token.CONST {
			continue
		}
		for _, sp := range gd.Specs {
			vs := sp.(*ast.ValueSpec)
			for i, n := range vs.Names {
				if i < len(vs.Values) {
					if bl, ok := vs.Values[i].(*ast.BasicLit); ok && bl.Kind == token.INT {
						m[n.Name] = bl.Value
					}
				}
			}
		}
	}
	return m
}

// ---- the four translated functions

func trReverseBytes64(repo string) string {
	fset := token.NewFileSet()
	f, err := parser.ParseFile(fset, filepath.Join(repo, "pkg/bitio/reversebytes64.go"), nil, 0)
	if err != nil {
		die("%v", err)
	}
	fd := findFunc(f, "ReverseBytes64")
	if len(fd.Type.Params.List) != 2 || fd.Type.Params.List[0].Names[0].Name != "nBits" || fd.Type.Params.List[1].Names[0].Name != "n" {
		die("ReverseBytes64: unexpected parameters")
	}
	if len(fd.Body.List) != 1 {
		die("ReverseBytes64: expected a single switch")
	}
	sw, ok := fd.Body.List[0].(*ast.SwitchStmt)
	if !ok || sw.Tag != nil {
		die("ReverseBytes64: expected a tagless switch")
	}
	var sb strings.Builder
	sb.WriteString("def reverseBytes64 (nBits : Nat) (n : BitVec 64) : Option (BitVec 64) :=\n")
	sawDefault := false
	for i, st := range sw.Body.List {
		cc := st.(*ast.CaseClause)
		if cc.List == nil {
			if i != len(sw.Body.List)-1 {
				die("ReverseBytes64: default must be last")
			}
			sawDefault = true
			sb.WriteString("  else none\n")
			continue
		}
		if len(cc.List) != 1 || len(cc.Body) < 1 {
			die("ReverseBytes64: unexpected case shape")
		}
		cond, ok := cc.List[0].(*ast.BinaryExpr)
		if !ok || cond.Op != token.LEQ {
			die("ReverseBytes64: case condition must be nBits <= K")
		}
		// body: local definitions `x := e` (int typed) followed by a return
		lets := ""
		for _, bst := range cc.Body[:len(cc.Body)-1] {
			as, ok := bst.(*ast.AssignStmt)
			if !ok || as.Tok != token.DEFINE || len(as.Lhs) != 1 || len(as.Rhs) != 1 {
				die("ReverseBytes64: unexpected statement in case body")
			}
			lets += "let " + as.Lhs[0].(*ast.Ident).Name + " := " + natExpr(as.Rhs[0]) + "; "
		}
		ret, ok := cc.Body[len(cc.Body)-1].(*ast.ReturnStmt)
		if !ok || len(ret.Results) != 1 {
			die("ReverseBytes64: case body must end in a return")
		}
		kw := "  else if"
		if i == 0 {
			kw = "  if"
		}
		val := bvExpr(ret.Results[0])
		if lets != "" {
			val = "(" + lets + val + ")"
		}
		fmt.Fprintf(&sb, "%s %s ≤ %s then some %s\n", kw, natExpr(cond.X), natExpr(cond.Y), val)
	}
	if !sawDefault {
		die("ReverseBytes64: no default branch")
	}
	return sb.String()
}

// the sign test and the two's complement expression: in trySEndian itself, or in the function it
// returns the result of (mathx.TwosComplement)
func trTwosComplement(repo string) string {
	fset := token.NewFileSet()
	f2, err := parser.ParseFile(fset, filepath.Join(repo, "pkg/decode/read.go"), nil, 0)
	if err != nil {
		die("%v", err)
	}
	fn := findFunc(f2, "trySEndian")
	// follow `return mathx.TwosComplement(nBits, n), nil`
	for _, st := range fn.Body.List {
		if rs, ok := st.(*ast.ReturnStmt); ok && len(rs.Results) == 2 {
			if ce, ok := rs.Results[0].(*ast.CallExpr); ok {
				if se, ok := ce.Fun.(*ast.SelectorExpr); ok && se.Sel.Name == "TwosComplement" && len(ce.Args) == 2 {
					a0, ok0 := ce.Args[0].(*ast.Ident)
					a1, ok1 := ce.Args[1].(*ast.Ident)
					if !ok0 || !ok1 || a0.Name != "nBits" || a1.Name != "n" {
						die("trySEndian: unexpected arguments to TwosComplement")
					}
					f3, err := parser.ParseFile(fset, filepath.Join(repo, "internal/mathx/num.go"), nil, 0)
					if err != nil {
						die("%v", err)
					}
					fn = findFunc(f3, "TwosComplement")
					ps := fn.Type.Params.List
					if len(ps) != 2 || ps[0].Names[0].Name != "nBits" || ps[1].Names[0].Name != "n" {
						die("TwosComplement: unexpected parameters")
					}
				}
			}
		}
	}
	var ifs *ast.IfStmt
	var after []ast.Stmt
	for i, st := range fn.Body.List {
		if s, ok := st.(*ast.IfStmt); ok {
			if be, ok := s.Cond.(*ast.BinaryExpr); ok && be.Op == token.GTR {
				ifs = s
				after = fn.Body.List[i+1:]
			}
		}
	}
	if ifs == nil {
		die("%s: sign test `if … > 0` not found", fn.Name.Name)
	}
	cond := ifs.Cond.(*ast.BinaryExpr)
	if bl, ok := cond.Y.(*ast.BasicLit); !ok || bl.Value != "0" {
		die("%s: sign test must compare with 0", fn.Name.Name)
	}
	// a branch is `s = e` or `return e`
	branch := func(sts []ast.Stmt) ast.Expr {
		if len(sts) < 1 {
			die("%s: empty branch", fn.Name.Name)
		}
		switch x := sts[0].(type) {
		case *ast.AssignStmt:
			if len(x.Lhs) == 1 && len(x.Rhs) == 1 && x.Tok == token.ASSIGN {
				if id, ok := x.Lhs[0].(*ast.Ident); ok && id.Name == "s" {
					return x.Rhs[0]
				}
			}
		case *ast.ReturnStmt:
			if len(x.Results) == 1 {
				return x.Results[0]
			}
		}
		die("%s: branch must assign s or return", fn.Name.Name)
		return nil
	}
	thenE := branch(ifs.Body.List)
	var elseE ast.Expr
	if ifs.Else != nil {
		eb, ok := ifs.Else.(*ast.BlockStmt)
		if !ok {
			die("%s: else must be a block", fn.Name.Name)
		}
		elseE = branch(eb.List)
	} else {
		elseE = branch(after)
	}
	return "def twosComplement (nBits : Nat) (n : BitVec 64) : Int :=\n" +
		fmt.Sprintf("  if %s ≠ 0#64 then %s.toInt else %s.toInt\n", bvExpr(cond.X), bvExpr(thenE), bvExpr(elseE))
}

func trExpandF16(repo string) string {
	fset := token.NewFileSet()
	f3, err := parser.ParseFile(fset, filepath.Join(repo, "internal/mathx/float16.go"), nil, 0)
	if err != nil {
		die("%v", err)
	}
	fe := findFunc(f3, "expandF16ToF32")
	t16 := &tr{wrap: "u32", mod: "2 ^ 32", consts: packageConsts(f3), rename: map[string]string{"in": "in_"},
		bigMant: map[string]string{}, bigExp: map[string]string{}, fn: "expandF16ToF32", fuel: 32}
	body16 := t16.block(fe.Body.List, "  ")
	var sb strings.Builder
	for _, h := range t16.helpers {
		sb.WriteString(h + "\n")
	}
	sb.WriteString("def expandF16ToF32 (in_ : Nat) : Nat :=\n" + body16 + "\n")
	return sb.String()
}

func trF80to64(repo string) string {
	fset := token.NewFileSet()
	f4, err := parser.ParseFile(fset, filepath.Join(repo, "internal/mathx/float80.go"), nil, 0)
	if err != nil {
		die("%v", err)
	}
	var f64fn *ast.FuncDecl
	for _, d := range f4.Decls {
		if fd, ok := d.(*ast.FuncDecl); ok && fd.Name.Name == "Float64" && fd.Recv != nil {
			f64fn = fd
		}
	}
	if f64fn == nil {
		die("Float80.Float64 not found")
	}
	t80 := &tr{wrap: "u64", mod: "2 ^ 64", consts: packageConsts(f4), rename: map[string]string{},
		bigMant: map[string]string{}, bigExp: map[string]string{}, fn: "f80to64", fuel: 0}
	body80 := t80.block(f64fn.Body.List, "  ")
	var sb strings.Builder
	for _, h := range t80.helpers {
		sb.WriteString(h + "\n")
	}
	sb.WriteString("def f80to64 (f_se f_m : Nat) : Nat :=\n" + body80 + "\n")
	return sb.String()
}

// defBlocks: name -> whitespace-normalised text of every `def name …` block (up to the next blank line)
func defBlocks(text string) map[string]string {
	m := map[string]string{}
	lines := strings.Split(text, "\n")
	for i := 0; i < len(lines); i++ {
		if strings.HasPrefix(lines[i], "def ") {
			name := strings.Fields(lines[i])[1]
			var blk []string
			for j := i; j < len(lines) && strings.TrimSpace(lines[j]) != ""; j++ {
				l := lines[j]
				if k := strings.Index(l, "--"); k >= 0 {
					l = l[:k]
				}
				blk = append(blk, l)
			}
			m[name] = strings.Join(strings.Fields(strings.Join(blk, " ")), " ")
		}
	}
	return m
}

func main() {
	if len(os.Args) < 2 {
		fmt.Fprintln(os.Stderr, "usage: c02bits <repo>")
		os.Exit(2)
	}
	repo := os.Args[1]
	// the hand-written model, to say whether the translation IS the model text
	modelPath := filepath.Join("..", "lean", "FqModel", "Scalar.lean")
	if d := os.Getenv("VERIF_DIR"); d != "" {
		modelPath = filepath.Join(d, "lean", "FqModel", "Scalar.lean")
	}
	modelSrc, _ := os.ReadFile(modelPath)
	model := defBlocks(string(modelSrc))

	type fnT struct {
		name    string
		helpers []string // helper defs the proofs mention: aliased to the model when not generated
		doc     string
		run     func(string) string
	}
	fns := []fnT{
		{"reverseBytes64", nil, "bitio.ReverseBytes64 (reversebytes64.go); `none` = the default branch (panic)", trReverseBytes64},
		{"twosComplement", nil, "read.go trySEndian (or mathx.TwosComplement it returns): `if <cond> > 0 { <then> } else { <else> }` on uint64/int64", trTwosComplement},
		{"expandF16ToF32", []string{"expandF16ToF32_loop0"}, "mathx.expandF16ToF32 (float16.go), statement by statement; an `if` without else duplicates the rest", trExpandF16},
		{"f80to64", nil, "mathx.Float80.Float64 (float80.go): `roundF64 false m e` = the exact big.Float m·2^e (precision 64) rounded by (*big.Float).Float64; `negF64` = `v = -v`", trF80to64},
	}

	var sb strings.Builder
	sb.WriteString("import FqModel.Scalar\n")
	sb.WriteString("/-! GENERATED by /verif/extract/c02bits from pkg/bitio/reversebytes64.go, pkg/decode/read.go,\n")
	sb.WriteString("    internal/mathx/num.go, float16.go and float80.go — do not edit.\n")
	sb.WriteString("    For every function f:  f_translated  — the source is in the translatable fragment (else f is an\n")
	sb.WriteString("    alias of the model and the tie of f is the correspondence run `fn` of harness/cmd/c02);\n")
	sb.WriteString("    f_same_as_model — the translation is, token for token, the text of the model in FqModel/Scalar.lean\n")
	sb.WriteString("    (then Props.C02 proves Gen.f = Model.f by definitional unfolding). -/\n")
	sb.WriteString("namespace FqModel.Gen.BitFns\nopen FqModel.Scalar (roundF64 negF64 bswap64 u32 u64)\n")

	for _, fn := range fns {
		var text string
		reason := ""
		func() {
			defer func() {
				if r := recover(); r != nil {
					if de, ok := r.(dieErr); ok {
						reason = string(de)
						return
					}
					reason = fmt.Sprintf("translator fault: %v", r)
				}
			}()
			text = fn.run(repo)
		}()
		translated := reason == ""
		same := false
		if translated {
			gen := defBlocks(text)
			same = true
			for name, blk := range gen {
				if model[name] != blk {
					same = false
				}
			}
			if _, ok := gen[fn.name]; !ok {
				translated, same, reason = false, false, "no definition produced"
			}
		}
		sb.WriteString("\n/-- " + fn.doc + " -/\n")
		if translated {
			sb.WriteString(text)
			gen := defBlocks(text)
			for _, h := range fn.helpers {
				if _, ok := gen[h]; !ok {
					fmt.Fprintf(&sb, "\ndef %s := @FqModel.Scalar.%s\n", h, h)
				}
			}
		} else {
			reason = strings.ReplaceAll(reason, "\n", " ")
			fmt.Fprintf(&sb, "-- NOT TRANSLATED: %s\n", reason)
			fmt.Fprintf(&sb, "def %s := @FqModel.Scalar.%s\n", fn.name, fn.name)
			for _, h := range fn.helpers {
				fmt.Fprintf(&sb, "\ndef %s := @FqModel.Scalar.%s\n", h, h)
			}
		}
		fmt.Fprintf(&sb, "\ndef %s_translated : Bool := %v\n", fn.name, translated)
		fmt.Fprintf(&sb, "def %s_same_as_model : Bool := %v\n", fn.name, same)
	}
	sb.WriteString("\nend FqModel.Gen.BitFns\n")
	fmt.Print(sb.String())
}
