// c06sites: regenerated fault-site table for C06 (DESIGN §8).
//
//	go run ./c06sites /repo         >  lean/FqModel/Gen/DecoderSites.lean
//	go run ./c06sites /repo -json      the same table as JSON (read by harness/cmd/c06 for the directed search)
//
// Type-checks the decoder packages below <repo>/format and every package of the module they import (go/parser +
// go/types; imports resolved by this program: module packages from the tree, std from GOROOT/src, third-party
// modules from the module cache; dependencies with IgnoreFuncBodies) and lists, per package, the places OUTSIDE
// the decode API where Go code can raise a runtime fault:
//
//	index     x[i] on a slice / string / pointer-to-array, or on an array with a non-constant index (map reads never fault)
//	slice     x[i:j], x[i:j:k]
//	div       integer / or % (also /=, %=) by a non-constant divisor
//	shift     << or >> (also <<=, >>=) by a non-constant count of SIGNED integer type
//	assert    x.(T) without comma-ok (type switches are not faults)
//	make      make(T, n[, m]) with a non-constant size
//	call      calls known to panic on bad arguments: strings.Repeat, bytes.Repeat, (binary.ByteOrder).UintNN / PutUintNN /
//	          AppendUintNN on BigEndian / LittleEndian, regexp.MustCompile and friends with a non-constant pattern,
//	          any function of package reflect, (*big.Int) Div/Mod/Quo/Rem/DivMod/QuoRem/Exp… is NOT listed (see below)
//	panic     panic(v) where v is not a decode.IOError / DecoderError / FormatsError value
//	mapwrite  m[k] = v, m[k] op= v, m[k]++ (faults when m is nil)
//	nilvar    a use (x.f, *x, x(...), x.M(...)) of a LOCAL variable declared `var x T` without initialiser where T is a
//	          pointer, func or interface type (starts nil, assigned only on some paths)
//
// NOT listed (stated in the trusted base of C06): nil dereference through struct FIELDS or function results,
// conversions that cannot fault, integer overflow (wraps, no fault), calls into the standard library or third-party
// modules other than the ones above, stack exhaustion by recursion, and goroutine/channel misuse.
//
// A site is (file, enclosing function, kind, expression text): no line numbers, so moving code does not change the
// table. Per package: count per kind, sha256 of the sorted site list. `closure` = the other packages below format/ and internal/
// with functions reachable by name from the package (helper code that runs inside the decoder; a named type reaches all
// its methods), `total` / `closureHash` cover own sites + the sites of those reachable helper functions: the harness compares it with corpus/C06/sites_baseline.json and runs a directed search on the
// formats of a package whose hash changed. Only the standard library is used.
package main

import (
	"bufio"
	"crypto/sha256"
	"encoding/hex"
	"encoding/json"
	"fmt"
	"go/ast"
	"go/build"
	"go/constant"
	"go/parser"
	"go/token"
	"go/types"
	"os"
	"path/filepath"
	"runtime"
	"sort"
	"strings"
	"unicode"
)

type loader struct {
	fset     *token.FileSet
	ctx      build.Context
	repo     string
	modpath  string
	goroot   string
	modcache string
	reqs     map[string]string // module path -> version
	pkgs     map[string]*types.Package
	loading  map[string]bool
	infos    map[string]*types.Info // module packages only, by dir
	files    map[string][]*ast.File
	depErrs  int
	modErrs  []string
}

func escapeMod(p string) string {
	var b strings.Builder
	for _, r := range p {
		if unicode.IsUpper(r) {
			b.WriteByte('!')
			b.WriteRune(unicode.ToLower(r))
		} else {
			b.WriteRune(r)
		}
	}
	return b.String()
}

func (l *loader) readGoMod() {
	f, err := os.Open(filepath.Join(l.repo, "go.mod"))
	if err != nil {
		fatal("go.mod: %v", err)
	}
	defer f.Close()
	sc := bufio.NewScanner(f)
	inReq := false
	for sc.Scan() {
		line := strings.TrimSpace(sc.Text())
		if i := strings.Index(line, "//"); i >= 0 {
			line = strings.TrimSpace(line[:i])
		}
		if line == "" {
			continue
		}
		fs := strings.Fields(line)
		switch {
		case fs[0] == "module" && len(fs) >= 2:
			l.modpath = strings.Trim(fs[1], `"`)
		case fs[0] == "require" && len(fs) == 2 && fs[1] == "(":
			inReq = true
		case fs[0] == "require" && len(fs) >= 3:
			l.reqs[fs[1]] = fs[2]
		case fs[0] == ")":
			inReq = false
		case fs[0] == "replace":
			fatal("go.mod: replace directives are not supported by this extractor: %s", line)
		case inReq && len(fs) >= 2:
			l.reqs[fs[0]] = fs[1]
		}
	}
	if l.modpath == "" {
		fatal("go.mod: no module line")
	}
}

func isDir(p string) bool {
	st, err := os.Stat(p)
	return err == nil && st.IsDir()
}

func (l *loader) resolve(path, srcDir string) (string, error) {
	if path == l.modpath {
		return l.repo, nil
	}
	if strings.HasPrefix(path, l.modpath+"/") {
		return filepath.Join(l.repo, path[len(l.modpath)+1:]), nil
	}
	first := path
	if i := strings.Index(path, "/"); i >= 0 {
		first = path[:i]
	}
	fromStd := strings.HasPrefix(srcDir, l.goroot+string(filepath.Separator))
	if fromStd {
		if d := filepath.Join(l.goroot, "src", "vendor", path); isDir(d) {
			return d, nil
		}
	}
	if !strings.Contains(first, ".") {
		d := filepath.Join(l.goroot, "src", path)
		if isDir(d) {
			return d, nil
		}
		return "", fmt.Errorf("std package %q not found", path)
	}
	best := ""
	for m := range l.reqs {
		if (path == m || strings.HasPrefix(path, m+"/")) && len(m) > len(best) {
			best = m
		}
	}
	if best == "" {
		return "", fmt.Errorf("import %q: no module in go.mod provides it", path)
	}
	d := filepath.Join(l.modcache, escapeMod(best)+"@"+l.reqs[best], escapeMod(strings.TrimPrefix(path, best)))
	if !isDir(d) {
		return "", fmt.Errorf("import %q: %s missing from module cache", path, d)
	}
	return d, nil
}

func (l *loader) Import(path string) (*types.Package, error) { return l.ImportFrom(path, l.repo, 0) }

func (l *loader) ImportFrom(path, srcDir string, _ types.ImportMode) (*types.Package, error) {
	if path == "unsafe" {
		return types.Unsafe, nil
	}
	if path == "C" {
		return nil, fmt.Errorf("cgo not supported")
	}
	dir, err := l.resolve(path, srcDir)
	if err != nil {
		return nil, err
	}
	return l.load(dir, path)
}

func (l *loader) inModule(dir string) bool {
	return dir == l.repo || strings.HasPrefix(dir, l.repo+string(filepath.Separator))
}

func (l *loader) load(dir, path string) (*types.Package, error) {
	if p, ok := l.pkgs[dir]; ok {
		if p == nil {
			return nil, fmt.Errorf("package %s failed earlier", path)
		}
		return p, nil
	}
	if l.loading[dir] {
		return nil, fmt.Errorf("import cycle through %s", path)
	}
	l.loading[dir] = true
	defer delete(l.loading, dir)

	bp, err := l.ctx.ImportDir(dir, 0)
	if err != nil {
		if _, ok := err.(*build.NoGoError); !ok || bp == nil {
			l.pkgs[dir] = nil
			return nil, err
		}
	}
	mod := l.inModule(dir)
	var files []*ast.File
	names := append([]string{}, bp.GoFiles...)
	sort.Strings(names)
	for _, fn := range names {
		mode := parser.SkipObjectResolution
		if mod {
			mode |= parser.ParseComments
		}
		f, err := parser.ParseFile(l.fset, filepath.Join(dir, fn), nil, mode)
		if err != nil {
			l.pkgs[dir] = nil
			return nil, err
		}
		files = append(files, f)
	}
	if len(files) == 0 {
		l.pkgs[dir] = nil
		return nil, fmt.Errorf("no Go files in %s", dir)
	}
	cfg := types.Config{
		Importer:         l,
		IgnoreFuncBodies: !mod,
		FakeImportC:      true,
		Sizes:            types.SizesFor("gc", "amd64"),
		Error: func(err error) {
			if mod {
				l.modErrs = append(l.modErrs, err.Error())
			} else {
				l.depErrs++
			}
		},
	}
	var info *types.Info
	if mod {
		info = &types.Info{
			Types:      map[ast.Expr]types.TypeAndValue{},
			Defs:       map[*ast.Ident]types.Object{},
			Uses:       map[*ast.Ident]types.Object{},
			Selections: map[*ast.SelectorExpr]*types.Selection{},
		}
	}
	p, _ := cfg.Check(path, l.fset, files, info)
	l.pkgs[dir] = p
	if mod {
		l.infos[dir] = info
		l.files[dir] = files
	}
	return p, nil
}

func fatal(f string, a ...any) {
	fmt.Fprintf(os.Stderr, "c06sites: "+f+"\n", a...)
	os.Exit(2)
}

// ---------------------------------------------------------------- scan

var kinds = []string{"index", "slice", "div", "shift", "assert", "make", "call", "panic", "mapwrite", "nilvar"}

type site struct {
	file, fn, kind, expr string
	owner                types.Object // the declared function the site is in (nil: a package-level initialiser)
}

type pkgInfo struct {
	rel     string
	formats []string
	sites   []site
	imports []string                               // rel of imported module packages
	pkgRefs map[types.Object]bool                  // every module function / named type the package mentions
	fnRefs  map[types.Object]map[types.Object]bool // declared function -> module functions / named types it mentions
	readers     []string        // io.Reader implementations: methods `T.Read` with signature ([]byte) (int, error)
	readerBytes map[string]bool // integer / character constants <= 255 in their bodies (2 hex digits)
}

// isReaderMethod: a method named Read with the signature of io.Reader
func isReaderMethod(info *types.Info, fd *ast.FuncDecl) bool {
	if fd.Recv == nil || fd.Name.Name != "Read" {
		return false
	}
	fn, ok := info.Defs[fd.Name].(*types.Func)
	if !ok {
		return false
	}
	sig, ok := fn.Type().(*types.Signature)
	if !ok || sig.Params().Len() != 1 || sig.Results().Len() != 2 {
		return false
	}
	sl, ok := under(sig.Params().At(0).Type()).(*types.Slice)
	if !ok {
		return false
	}
	if b, ok := under(sl.Elem()).(*types.Basic); !ok || b.Kind() != types.Uint8 {
		return false
	}
	if b, ok := under(sig.Results().At(0).Type()).(*types.Basic); !ok || b.Kind() != types.Int {
		return false
	}
	return types.TypeString(sig.Results().At(1).Type(), nil) == "error"
}

func under(t types.Type) types.Type {
	if t == nil {
		return nil
	}
	return types.Unalias(t).Underlying()
}

func isInteger(t types.Type) bool {
	b, ok := under(t).(*types.Basic)
	return ok && b.Info()&types.IsInteger != 0
}

func isSignedInt(t types.Type) bool {
	b, ok := under(t).(*types.Basic)
	return ok && b.Info()&types.IsInteger != 0 && b.Info()&types.IsUnsigned == 0
}

type scanner struct {
	l        *loader
	info     *types.Info
	file     string
	sites    []site
	okAssert map[*ast.TypeAssertExpr]bool
	nilVars  map[*types.Var]bool
	owner    types.Object
}

func (s *scanner) isConst(e ast.Expr) bool {
	tv, ok := s.info.Types[e]
	return ok && tv.Value != nil
}

func (s *scanner) add(fn, kind string, e ast.Node) {
	txt := ""
	switch n := e.(type) {
	case ast.Expr:
		txt = types.ExprString(n)
	default:
		txt = fmt.Sprintf("%T", e)
	}
	if len(txt) > 160 {
		txt = txt[:160]
	}
	txt = strings.Join(strings.Fields(txt), " ")
	s.sites = append(s.sites, site{s.file, fn, kind, txt, s.owner})
}

func (s *scanner) isRecoverableErrType(t types.Type) bool {
	if p, ok := types.Unalias(t).(*types.Pointer); ok {
		t = p.Elem()
	}
	nt, ok := types.Unalias(t).(*types.Named)
	if !ok || nt.Obj().Pkg() == nil || nt.Obj().Pkg().Path() != s.l.modpath+"/pkg/decode" {
		return false
	}
	switch nt.Obj().Name() {
	case "IOError", "DecoderError", "FormatsError":
		return true
	}
	return false
}

func (s *scanner) calleeObj(c *ast.CallExpr) types.Object {
	switch f := ast.Unparen(c.Fun).(type) {
	case *ast.Ident:
		return s.info.Uses[f]
	case *ast.SelectorExpr:
		return s.info.Uses[f.Sel]
	}
	return nil
}

func (s *scanner) panickyCall(c *ast.CallExpr) bool {
	obj := s.calleeObj(c)
	fn, ok := obj.(*types.Func)
	if !ok || fn.Pkg() == nil {
		return false
	}
	pkg, name := fn.Pkg().Path(), fn.Name()
	sig, _ := fn.Type().(*types.Signature)
	recv := ""
	if sig != nil && sig.Recv() != nil {
		recv = types.TypeString(sig.Recv().Type(), func(p *types.Package) string { return p.Path() })
	}
	switch {
	case pkg == "reflect":
		return true
	case (pkg == "strings" || pkg == "bytes") && name == "Repeat" && recv == "":
		return true
	case pkg == "encoding/binary" && recv != "" && (strings.HasPrefix(name, "Uint") || strings.HasPrefix(name, "PutUint")):
		return true
	case pkg == "regexp" && strings.HasPrefix(name, "MustCompile") && len(c.Args) > 0 && !s.isConst(c.Args[0]):
		return true
	}
	return false
}

func (s *scanner) scanFunc(fn string, body ast.Node) {
	var lits []*ast.FuncLit
	ast.Inspect(body, func(n ast.Node) bool {
		switch x := n.(type) {
		case *ast.FuncLit:
			if n != body {
				lits = append(lits, x)
				return false
			}
		case *ast.AssignStmt:
			if len(x.Lhs) == 2 && len(x.Rhs) == 1 {
				if ta, ok := ast.Unparen(x.Rhs[0]).(*ast.TypeAssertExpr); ok {
					s.okAssert[ta] = true
				}
			}
			for _, lhs := range x.Lhs {
				if ix, ok := ast.Unparen(lhs).(*ast.IndexExpr); ok {
					if _, isMap := under(s.info.TypeOf(ix.X)).(*types.Map); isMap {
						s.add(fn, "mapwrite", ix)
					}
				}
			}
			switch x.Tok {
			case token.QUO_ASSIGN, token.REM_ASSIGN:
				if len(x.Lhs) == 1 && isInteger(s.info.TypeOf(x.Lhs[0])) && !s.isConst(x.Rhs[0]) {
					s.add(fn, "div", x.Rhs[0])
				}
			case token.SHL_ASSIGN, token.SHR_ASSIGN:
				if !s.isConst(x.Rhs[0]) && isSignedInt(s.info.TypeOf(x.Rhs[0])) {
					s.add(fn, "shift", x.Rhs[0])
				}
			}
		case *ast.IncDecStmt:
			if ix, ok := ast.Unparen(x.X).(*ast.IndexExpr); ok {
				if _, isMap := under(s.info.TypeOf(ix.X)).(*types.Map); isMap {
					s.add(fn, "mapwrite", ix)
				}
			}
		case *ast.ValueSpec:
			if len(x.Names) == 2 && len(x.Values) == 1 {
				if ta, ok := ast.Unparen(x.Values[0]).(*ast.TypeAssertExpr); ok {
					s.okAssert[ta] = true
				}
			}
			if len(x.Values) == 0 {
				for _, nm := range x.Names {
					if v, ok := s.info.Defs[nm].(*types.Var); ok && !v.IsField() && v.Parent() != nil && v.Parent() != v.Pkg().Scope() {
						switch under(v.Type()).(type) {
						case *types.Pointer, *types.Signature, *types.Interface:
							s.nilVars[v] = true
						}
					}
				}
			}
		case *ast.IndexExpr:
			tv, ok := s.info.Types[x.X]
			if !ok || tv.IsType() {
				return true // generic instantiation
			}
			if _, isFn := under(tv.Type).(*types.Signature); isFn {
				return true
			}
			switch t := under(tv.Type).(type) {
			case *types.Map:
			case *types.Array:
				if !s.isConst(x.Index) {
					s.add(fn, "index", x)
				}
			case *types.Pointer:
				if _, isArr := under(t.Elem()).(*types.Array); isArr && s.isConst(x.Index) {
					break
				}
				s.add(fn, "index", x)
			case *types.TypeParam:
				s.add(fn, "index", x)
			default:
				s.add(fn, "index", x)
			}
		case *ast.SliceExpr:
			s.add(fn, "slice", x)
		case *ast.BinaryExpr:
			switch x.Op {
			case token.QUO, token.REM:
				if isInteger(s.info.TypeOf(x)) && !s.isConst(x.Y) {
					s.add(fn, "div", x)
				}
			case token.SHL, token.SHR:
				if !s.isConst(x.Y) && isSignedInt(s.info.TypeOf(x.Y)) {
					s.add(fn, "shift", x)
				}
			}
		case *ast.TypeAssertExpr:
			if x.Type != nil && !s.okAssert[x] {
				s.add(fn, "assert", x)
			}
		case *ast.StarExpr:
			if id, ok := ast.Unparen(x.X).(*ast.Ident); ok {
				if v, ok := s.info.Uses[id].(*types.Var); ok && s.nilVars[v] {
					s.add(fn, "nilvar", x)
				}
			}
		case *ast.SelectorExpr:
			if id, ok := ast.Unparen(x.X).(*ast.Ident); ok {
				if v, ok := s.info.Uses[id].(*types.Var); ok && s.nilVars[v] {
					s.add(fn, "nilvar", x)
				}
			}
		case *ast.CallExpr:
			if id, ok := ast.Unparen(x.Fun).(*ast.Ident); ok {
				if v, ok := s.info.Uses[id].(*types.Var); ok && s.nilVars[v] {
					s.add(fn, "nilvar", x.Fun)
				}
				if b, ok := s.info.Uses[id].(*types.Builtin); ok {
					switch b.Name() {
					case "make":
						for _, a := range x.Args[1:] {
							if !s.isConst(a) {
								s.add(fn, "make", x)
								break
							}
						}
					case "panic":
						if len(x.Args) == 1 && !s.isRecoverableErrType(s.info.TypeOf(x.Args[0])) {
							s.add(fn, "panic", x)
						}
					}
				}
			}
			if s.panickyCall(x) {
				s.add(fn, "call", x.Fun)
			}
		}
		return true
	})
	for i, l := range lits {
		s.scanFunc(fmt.Sprintf("%s.func%d", fn, i+1), l)
	}
}

// collectRefs: the functions (origin of instantiated generics) and named types of the module mentioned below n
func collectRefs(l *loader, info *types.Info, n ast.Node, out map[types.Object]bool) {
	ast.Inspect(n, func(n ast.Node) bool {
		id, ok := n.(*ast.Ident)
		if !ok {
			return true
		}
		obj := info.Uses[id]
		if obj == nil || obj.Pkg() == nil || !strings.HasPrefix(obj.Pkg().Path(), l.modpath+"/") {
			return true
		}
		switch o := obj.(type) {
		case *types.Func:
			out[o.Origin()] = true
		case *types.TypeName:
			out[o] = true
		case *types.Var:
			// a package-level variable of a named module type (tables of decoders, mappers): its type's methods
			if !o.IsField() {
				if nt, ok := types.Unalias(o.Type()).(*types.Named); ok && nt.Obj().Pkg() != nil {
					out[nt.Obj()] = true
				}
			}
		}
		return true
	})
}

func recvName(fd *ast.FuncDecl) string {
	if fd.Recv == nil || len(fd.Recv.List) == 0 {
		return fd.Name.Name
	}
	t := fd.Recv.List[0].Type
	for {
		switch x := t.(type) {
		case *ast.StarExpr:
			t = x.X
			continue
		case *ast.IndexExpr:
			t = x.X
			continue
		case *ast.IndexListExpr:
			t = x.X
			continue
		case *ast.ParenExpr:
			t = x.X
			continue
		}
		break
	}
	if id, ok := t.(*ast.Ident); ok {
		return id.Name + "." + fd.Name.Name
	}
	return fd.Name.Name
}

func hashSites(ss []site) string {
	var lines []string
	for _, s := range ss {
		lines = append(lines, s.file+"|"+s.fn+"|"+s.kind+"|"+s.expr)
	}
	sort.Strings(lines)
	h := sha256.Sum256([]byte(strings.Join(lines, "\n")))
	return hex.EncodeToString(h[:8])
}

func leanStr(s string) string {
	return `"` + strings.NewReplacer(`\`, `\\`, `"`, `\"`).Replace(s) + `"`
}

func main() {
	if len(os.Args) < 2 {
		fatal("usage: c06sites <repo> [-json]")
	}
	asJSON := len(os.Args) > 2 && os.Args[2] == "-json"
	repo, err := filepath.Abs(os.Args[1])
	if err != nil {
		fatal("%v", err)
	}
	if r, err := filepath.EvalSymlinks(repo); err == nil {
		repo = r
	}
	ctx := build.Default
	ctx.CgoEnabled = false
	ctx.GOOS, ctx.GOARCH = "linux", "amd64"
	ctx.BuildTags = nil
	goroot := runtime.GOROOT()
	if e := os.Getenv("GOROOT"); e != "" {
		goroot = e
	}
	if r, err := filepath.EvalSymlinks(goroot); err == nil {
		goroot = r
	}
	ctx.GOROOT = goroot
	modcache := os.Getenv("GOMODCACHE")
	if modcache == "" {
		gp := ctx.GOPATH
		if i := strings.IndexByte(gp, filepath.ListSeparator); i >= 0 {
			gp = gp[:i]
		}
		modcache = filepath.Join(gp, "pkg", "mod")
	}
	l := &loader{fset: token.NewFileSet(), ctx: ctx, repo: repo, goroot: goroot, modcache: modcache,
		reqs: map[string]string{}, pkgs: map[string]*types.Package{}, loading: map[string]bool{},
		infos: map[string]*types.Info{}, files: map[string][]*ast.File{}}
	l.readGoMod()

	// every package directory below format/ (the decoders and their helpers); what they import is loaded on demand
	var dirs []string
	_ = filepath.WalkDir(filepath.Join(repo, "format"), func(p string, d os.DirEntry, err error) error {
		if err != nil || !d.IsDir() {
			return nil
		}
		b := d.Name()
		if strings.HasPrefix(b, ".") || strings.HasPrefix(b, "_") || b == "testdata" || b == "vendor" {
			return filepath.SkipDir
		}
		if bp, _ := ctx.ImportDir(p, 0); bp != nil && len(bp.GoFiles) > 0 && bp.Name != "main" {
			dirs = append(dirs, p)
		}
		return nil
	})
	sort.Strings(dirs)
	for _, dir := range dirs {
		rel, _ := filepath.Rel(repo, dir)
		if _, err := l.load(dir, l.modpath+"/"+filepath.ToSlash(rel)); err != nil {
			fatal("package %s: %v", rel, err)
		}
	}
	if len(l.modErrs) > 0 {
		fmt.Fprintf(os.Stderr, "c06sites: %d type errors in module packages, first: %s\n", len(l.modErrs), l.modErrs[0])
	}

	// format variable -> format name: `X = &decode.Group{Name: "x"}` in package format
	fmtName := map[types.Object]string{}
	if info := l.infos[filepath.Join(repo, "format")]; info != nil {
		for _, f := range l.files[filepath.Join(repo, "format")] {
			ast.Inspect(f, func(n ast.Node) bool {
				vs, ok := n.(*ast.ValueSpec)
				if !ok || len(vs.Names) != len(vs.Values) {
					return true
				}
				for i, v := range vs.Values {
					if u, ok := v.(*ast.UnaryExpr); ok && u.Op == token.AND {
						v = u.X
					}
					cl, ok := v.(*ast.CompositeLit)
					if !ok {
						continue
					}
					for _, el := range cl.Elts {
						if kv, ok := el.(*ast.KeyValueExpr); ok {
							if k, ok := kv.Key.(*ast.Ident); ok && k.Name == "Name" {
								if tv, ok := info.Types[kv.Value]; ok && tv.Value != nil && tv.Value.Kind() == constant.String {
									fmtName[info.Defs[vs.Names[i]]] = constant.StringVal(tv.Value)
								}
							}
						}
					}
				}
				return true
			})
		}
	}

	pkgs := map[string]*pkgInfo{}
	var rels []string
	for dir, info := range l.infos {
		rel, _ := filepath.Rel(repo, dir)
		rel = filepath.ToSlash(rel)
		if !(strings.HasPrefix(rel, "format") || strings.HasPrefix(rel, "internal/")) || strings.HasPrefix(rel, "internal/verifharness") {
			continue
		}
		pi := &pkgInfo{rel: rel, pkgRefs: map[types.Object]bool{}, fnRefs: map[types.Object]map[types.Object]bool{}, readerBytes: map[string]bool{}}
		for _, f := range l.files[dir] {
			collectRefs(l, info, f, pi.pkgRefs)
		}
		sc := &scanner{l: l, info: info, okAssert: map[*ast.TypeAssertExpr]bool{}, nilVars: map[*types.Var]bool{}}
		for _, f := range l.files[dir] {
			sc.file = filepath.Base(l.fset.Position(f.Pos()).Filename)
			if strings.HasPrefix(sc.file, "zz_verif_") {
				continue
			}
			for _, imp := range f.Imports {
				p := strings.Trim(imp.Path.Value, `"`)
				if strings.HasPrefix(p, l.modpath+"/") {
					pi.imports = append(pi.imports, strings.TrimPrefix(p, l.modpath+"/"))
				}
			}
			nlit := 0
			for _, d := range f.Decls {
				switch x := d.(type) {
				case *ast.FuncDecl:
					if x.Body != nil {
						if isReaderMethod(info, x) {
							pi.readers = append(pi.readers, recvName(x))
							ast.Inspect(x.Body, func(n ast.Node) bool {
								if e, ok := n.(ast.Expr); ok {
									if _, isLit := e.(*ast.BasicLit); isLit {
										if tv, ok := info.Types[e]; ok && tv.Value != nil && tv.Value.Kind() == constant.Int {
											if v, ok := constant.Uint64Val(tv.Value); ok && v <= 255 {
												pi.readerBytes[fmt.Sprintf("%02x", v)] = true
											}
										}
									}
								}
								return true
							})
						}
						sc.owner = info.Defs[x.Name]
						sc.scanFunc(recvName(x), x.Body)
						refs := map[types.Object]bool{}
						collectRefs(l, info, x, refs)
						pi.fnRefs[sc.owner] = refs
						sc.owner = nil
					}
				case *ast.GenDecl:
					// function literals in package-level initialisers (tables of decode functions)
					ast.Inspect(x, func(n ast.Node) bool {
						if fl, ok := n.(*ast.FuncLit); ok {
							nlit++
							sc.scanFunc(fmt.Sprintf("<pkg>.func%d", nlit), fl)
							return false
						}
						return true
					})
				}
			}
			// interp.RegisterFormat(format.X, …)
			ast.Inspect(f, func(n ast.Node) bool {
				c, ok := n.(*ast.CallExpr)
				if !ok || len(c.Args) < 1 {
					return true
				}
				if se, ok := c.Fun.(*ast.SelectorExpr); ok && se.Sel.Name == "RegisterFormat" {
					var id *ast.Ident
					switch a := c.Args[0].(type) {
					case *ast.SelectorExpr:
						id = a.Sel
					case *ast.Ident:
						id = a
					}
					if id != nil {
						if nm, ok := fmtName[info.Uses[id]]; ok {
							pi.formats = append(pi.formats, nm)
						} else {
							fmt.Fprintf(os.Stderr, "c06sites: %s: RegisterFormat(%s): format name not resolved\n", rel, id.Name)
						}
					}
				}
				return true
			})
		}
		pi.sites = sc.sites
		sort.Strings(pi.formats)
		pkgs[rel] = pi
		rels = append(rels, rel)
	}
	sort.Strings(rels)

	// helper code that runs inside a decoder: functions of OTHER packages below format/ and internal/ reachable by
	// name from the decoder package — a mentioned function reaches what its body mentions; a mentioned named type (or
	// a package variable / function result of that type) reaches all its methods (covers calls through interfaces).
	// Function literals in package-level initialisers of an imported helper package always count.
	ownerPkg := map[types.Object]string{}
	for rel, pi := range pkgs {
		for o := range pi.fnRefs {
			ownerPkg[o] = rel
		}
	}
	reach := func(rel string) (map[types.Object]bool, []string) {
		seen := map[types.Object]bool{}
		var todo []types.Object
		push := func(o types.Object) {
			if !seen[o] {
				seen[o] = true
				todo = append(todo, o)
			}
		}
		for o := range pkgs[rel].pkgRefs {
			push(o)
		}
		pkgSeen := map[string]bool{}
		for len(todo) > 0 {
			o := todo[0]
			todo = todo[1:]
			if o.Pkg() != nil {
				r := strings.TrimPrefix(o.Pkg().Path(), l.modpath+"/")
				if pkgs[r] != nil && r != rel {
					pkgSeen[r] = true
				}
			}
			switch x := o.(type) {
			case *types.Func:
				if r, ok := ownerPkg[x]; ok {
					for d := range pkgs[r].fnRefs[x] {
						push(d)
					}
				}
				if sig, ok := x.Type().(*types.Signature); ok {
					for i := 0; i < sig.Results().Len(); i++ {
						t := sig.Results().At(i).Type()
						if p, ok := types.Unalias(t).(*types.Pointer); ok {
							t = p.Elem()
						}
						if nt, ok := types.Unalias(t).(*types.Named); ok && nt.Obj().Pkg() != nil && strings.HasPrefix(nt.Obj().Pkg().Path(), l.modpath+"/") {
							push(nt.Obj())
						}
					}
				}
			case *types.TypeName:
				if nt, ok := types.Unalias(x.Type()).(*types.Named); ok {
					nt = nt.Origin()
					for i := 0; i < nt.NumMethods(); i++ {
						push(nt.Method(i).Origin())
					}
				}
			}
		}
		var ps []string
		for r := range pkgSeen {
			ps = append(ps, r)
		}
		sort.Strings(ps)
		return seen, ps
	}

	type row struct {
		Pkg         string         `json:"pkg"`
		Formats     []string       `json:"formats"`
		Counts      map[string]int `json:"counts"`
		Own         int            `json:"own"`
		Closure     []string       `json:"closure"`
		Total       int            `json:"total"`
		Hash        string         `json:"hash"`
		ClosureHash string         `json:"closure_hash"`
		Readers     []string       `json:"readers"`
		ReaderSites int            `json:"reader_sites"`
		ReaderHash  string         `json:"reader_hash"`
		ReaderBytes []string       `json:"reader_bytes"`
	}
	var rows []row
	for _, rel := range rels {
		pi := pkgs[rel]
		seen, helperPkgs := reach(rel)
		r := row{Pkg: rel, Formats: pi.formats, Counts: map[string]int{}, Own: len(pi.sites), Closure: helperPkgs, Hash: hashSites(pi.sites)}
		if r.Formats == nil {
			r.Formats = []string{}
		}
		if r.Closure == nil {
			r.Closure = []string{}
		}
		for _, s := range pi.sites {
			r.Counts[s.kind]++
		}
		all := append([]site(nil), pi.sites...)
		for _, c := range helperPkgs {
			for _, s := range pkgs[c].sites {
				if s.owner == nil || seen[s.owner] {
					s.file = c + "/" + s.file
					all = append(all, s)
				}
			}
		}
		r.Total = len(all)
		r.ClosureHash = hashSites(all)
		// the io.Reader implementations of the package and the sites inside them (closures included)
		r.Readers = append([]string{}, pi.readers...)
		sort.Strings(r.Readers)
		var rs []site
		for _, s := range pi.sites {
			for _, rd := range pi.readers {
				if s.fn == rd || strings.HasPrefix(s.fn, rd+".func") {
					rs = append(rs, s)
				}
			}
		}
		r.ReaderSites = len(rs)
		r.ReaderBytes = []string{}
		for b := range pi.readerBytes {
			r.ReaderBytes = append(r.ReaderBytes, b)
		}
		sort.Strings(r.ReaderBytes)
		if len(r.Readers) > 0 {
			r.ReaderHash = hashSites(append(rs, site{fn: strings.Join(r.Readers, ",")}))
		}
		rows = append(rows, r)
	}

	if asJSON {
		enc := json.NewEncoder(os.Stdout)
		enc.SetIndent("", " ")
		_ = enc.Encode(rows)
		return
	}

	w := bufio.NewWriter(os.Stdout)
	defer w.Flush()
	fmt.Fprintln(w, "/- GENERATED by /verif/extract/c06sites from the working tree of the repository — do not edit.")
	fmt.Fprintln(w, "   Fault-capable sites outside the decode API, per package below format/ and internal/ (kinds and what is")
	fmt.Fprintln(w, "   NOT listed: see the extractor's header). No line numbers: moving code does not change this file. -/")
	fmt.Fprintln(w, "namespace FqModel.Gen.DecoderSites")
	fmt.Fprintln(w)
	fmt.Fprintln(w, "structure PkgSites where")
	fmt.Fprintln(w, "  pkg : String")
	fmt.Fprintln(w, "  formats : List String          -- formats registered by this package")
	fmt.Fprintln(w, "  counts : List Nat              -- sites per kind, in the order of `kinds`")
	fmt.Fprintln(w, "  closure : List String          -- other packages below format/ and internal/ with functions reachable from this one")
	fmt.Fprintln(w, "  total : Nat                    -- own sites + sites in the reachable helper functions")
	fmt.Fprintln(w, "  hash : String                  -- sha256/64 of the sorted own site list")
	fmt.Fprintln(w, "  closureHash : String           -- … of own + closure site lists")
	fmt.Fprintln(w)
	var ks []string
	for _, k := range kinds {
		ks = append(ks, leanStr(k))
	}
	fmt.Fprintf(w, "def kinds : List String := [%s]\n\n", strings.Join(ks, ", "))
	fmt.Fprintln(w, "def table : List PkgSites := [")
	for i, r := range rows {
		var cs, fs, cl []string
		for _, k := range kinds {
			cs = append(cs, fmt.Sprint(r.Counts[k]))
		}
		for _, f := range r.Formats {
			fs = append(fs, leanStr(f))
		}
		for _, c := range r.Closure {
			cl = append(cl, leanStr(c))
		}
		sep := ","
		if i == len(rows)-1 {
			sep = ""
		}
		fmt.Fprintf(w, "  ⟨%s, [%s], [%s], [%s], %d, %s, %s⟩%s\n", leanStr(r.Pkg), strings.Join(fs, ", "), strings.Join(cs, ", "),
			strings.Join(cl, ", "), r.Total, leanStr(r.Hash), leanStr(r.ClosureHash), sep)
	}
	fmt.Fprintln(w, "]")
	fmt.Fprintln(w)
	var free []string
	nf, ns := 0, 0
	for _, r := range rows {
		nf += len(r.Formats)
		ns += r.Own
		if r.Total == 0 {
			for _, f := range r.Formats {
				free = append(free, leanStr(f))
			}
		}
	}
	fmt.Fprintf(w, "/-- formats whose package and helper closure have no site at all (%d of %d formats; %d sites in %d packages) -/\n", len(free), nf, ns, len(rows))
	fmt.Fprintf(w, "def siteFreeFormats : List String := [%s]\n\n", strings.Join(free, ", "))
	fmt.Fprintln(w, "/-- io.Reader implementations below format/ and internal/ (`T.Read([]byte) (int, error)`): package, method, fault-capable")
	fmt.Fprintln(w, "    sites inside it. A decoder that reads through one of them sees its input in CHUNKS (FqModel/ReadChunks.lean). -/")
	fmt.Fprintln(w, "def readerMethods : List (String × String × Nat) := [")
	var rls []string
	for _, r := range rows {
		for _, rd := range r.Readers {
			n := 0
			for _, s := range pkgs[r.Pkg].sites {
				if s.fn == rd || strings.HasPrefix(s.fn, rd+".func") {
					n++
				}
			}
			rls = append(rls, fmt.Sprintf("  (%s, %s, %d)", leanStr(r.Pkg), leanStr(rd), n))
		}
	}
	fmt.Fprintln(w, strings.Join(rls, ",\n"))
	fmt.Fprintln(w, "]")
	fmt.Fprintln(w)
	fmt.Fprintln(w, "end FqModel.Gen.DecoderSites")
}
