// c07overrides: regenerated fact for C07 (DESIGN §9).
//
//	go run ./c07overrides /repo  >  lean/FqModel/Gen/Overrides.lean
//
// Lists every top-level `def name/arity` of fq's embedded .jq sources whose name/arity also exists
// among the builtins of the gojq module fq is built with, and classifies the body:
//
//	guarded  `_binary_or_orig(BFN; _orig_NAME(P…))` or `_bytes_or_orig(BFN; _orig_NAME(P…))` where the second
//	         argument is exactly the call of `_orig_NAME` with the definition's own parameters, identical
//	         and in order (no call parentheses for arity 0), AND an earlier top-level
//	         `def _orig_NAME(P…): NAME(P…);` exists with no fq definition of NAME/arity before it
//	         (so that, by lexical scoping, it captures the builtin);
//	other    anything else.
//
// Sources read (working tree of the repository given as argument):
//   - go.mod -> version of github.com/wader/gojq -> module directory (`go list -m`, falling back to
//     GOMODCACHE); builtins = keys/arity of builtin.go's builtinFuncDefs (the generated form of
//     builtin.jq that is compiled in) + func.go's internalFuncs table (arity from the constructor:
//     argFunc0..3, mathFunc, mathFunc2, mathFunc3, or a literal `{argcountA | argcountB, …}`) +
//     compiler.go's `appendBuiltin("name", n)` special forms (_assign, _modify, last/1) +
//     the functions gojq's own CLI adds with gojq.WithFunction (cli/cli.go: debug/0, stderr/0,
//     input_filename/0) — the library has no debug/0, a standard jq program expects one;
//   - pkg/interp/interp.go's //go:embed list and the include graph from init.jq (depth first, a file is
//     loaded once: interp.go includeSeen), `registry_include` standing for all format/*/*.jq files that a
//     //go:embed directive of their package names (in path order — the real order is the package
//     initialisation order; the harness cross-checks the table with the real order and the gojq parser).
//
// The .jq files are read by a tokenizer, not a parser. It understands comments, strings with nested
// \( … ) interpolation, identifiers/keywords (a::b), $variables, .fields, @formats, numbers and
// punctuation, and finds the end of a definition by bracket depth with a pending-definition counter per
// bracket level (a `;` closes the innermost open `def` of its own bracket level, otherwise it separates
// arguments). It FAILS (exit 1, no output) on: an unterminated string or interpolation, unbalanced
// brackets, `def` not followed by `name` `(`params`)`? `:`, a parameter that is not an identifier or
// $variable, a definition without its terminating `;`, an include that cannot be resolved, an unknown
// constructor in internalFuncs. A file with a root expression after its definitions is a *dynamic include*
// (its output is the source): listed in Gen.dynamicIncludes, its generated definitions are only seen by
// the harness cross-check. `def` used as an object key (`{def: …}`) or field (`.def`) is recognised.
//
// Also regenerated: the character class of `_re_quote_meta` (Gen.quoteMetaClass), the shapes of the two
// guard helpers (Gen.binaryOrOrigOk / Gen.bytesOrOrigOk) and, for each guarded name, the position facts the
// Lean lookup theorem is instantiated with (Gen.envSlice: every top-level definition, in load order, whose
// name is an override or an `_orig_` capture or a guard helper).
//
// Only the standard library is used.
package main

import (
	"bytes"
	"fmt"
	"go/ast"
	"go/parser"
	"go/printer"
	"go/token"
	"os"
	"os/exec"
	"path/filepath"
	"regexp"
	"sort"
	"strconv"
	"strings"
)

func fail(format string, a ...any) {
	fmt.Fprintf(os.Stderr, "c07overrides: "+format+"\n", a...)
	os.Exit(1)
}

// ---------------------------------------------------------------- jq tokenizer

type tok struct {
	kind string // ident var field str num format punct
	text string
}

func isIdentStart(c byte) bool { return c == '_' || c >= 'a' && c <= 'z' || c >= 'A' && c <= 'Z' }
func isIdentChar(c byte) bool  { return isIdentStart(c) || c >= '0' && c <= '9' }

// scanString: s[i] == '"'; returns index after the closing quote. Interpolations are scanned recursively.
func scanString(file, s string, i int) int {
	j := i + 1
	for j < len(s) {
		switch s[j] {
		case '\\':
			if j+1 < len(s) && s[j+1] == '(' {
				// interpolation: balanced tokens until the matching ')'
				depth := 1
				j += 2
				for j < len(s) && depth > 0 {
					switch s[j] {
					case '"':
						j = scanString(file, s, j)
						continue
					case '(':
						depth++
					case ')':
						depth--
					case '#':
						for j < len(s) && s[j] != '\n' {
							j++
						}
						continue
					}
					j++
				}
				if depth != 0 {
					fail("%s: unterminated string interpolation", file)
				}
				continue
			}
			j += 2
			continue
		case '"':
			return j + 1
		}
		j++
	}
	fail("%s: unterminated string starting at byte %d", file, i)
	return 0
}

var puncts = []string{"?//", "|=", "+=", "-=", "*=", "/=", "%=", "//=", "==", "!=", "<=", ">=", "//", "..", "and", "or",
	"(", ")", "[", "]", "{", "}", ";", ":", ",", "|", ".", "?", "<", ">", "+", "-", "*", "/", "%", "="}

func tokenize(file, s string) []tok {
	var ts []tok
	i := 0
	for i < len(s) {
		c := s[i]
		switch {
		case c == ' ' || c == '\t' || c == '\n' || c == '\r':
			i++
		case c == '#':
			for i < len(s) && s[i] != '\n' {
				i++
			}
		case c == '"':
			j := scanString(file, s, i)
			ts = append(ts, tok{"str", s[i:j]})
			i = j
		case c == '$':
			j := i + 1
			for j < len(s) && (isIdentChar(s[j]) || s[j] == ':') {
				j++
			}
			if j == i+1 {
				fail("%s: `$` without a name at byte %d", file, i)
			}
			ts = append(ts, tok{"var", s[i:j]})
			i = j
		case c == '@':
			j := i + 1
			for j < len(s) && isIdentChar(s[j]) {
				j++
			}
			ts = append(ts, tok{"format", s[i:j]})
			i = j
		case c == '.' && i+1 < len(s) && isIdentStart(s[i+1]):
			j := i + 1
			for j < len(s) && isIdentChar(s[j]) {
				j++
			}
			ts = append(ts, tok{"field", s[i:j]})
			i = j
		case c >= '0' && c <= '9' || c == '.' && i+1 < len(s) && s[i+1] >= '0' && s[i+1] <= '9':
			j := i
			for j < len(s) && (s[j] >= '0' && s[j] <= '9' || s[j] == '.' || s[j] == 'e' || s[j] == 'E' ||
				(s[j] == '+' || s[j] == '-') && (s[j-1] == 'e' || s[j-1] == 'E')) {
				j++
			}
			ts = append(ts, tok{"num", s[i:j]})
			i = j
		case isIdentStart(c):
			j := i
			for j < len(s) && (isIdentChar(s[j]) || s[j] == ':' && j+1 < len(s) && s[j+1] == ':') {
				if s[j] == ':' {
					j++
				}
				j++
			}
			ts = append(ts, tok{"ident", s[i:j]})
			i = j
		default:
			matched := false
			for _, p := range puncts {
				if isIdentStart(p[0]) {
					continue
				}
				if strings.HasPrefix(s[i:], p) {
					ts = append(ts, tok{"punct", p})
					i += len(p)
					matched = true
					break
				}
			}
			if !matched {
				fail("%s: unexpected character %q at byte %d", file, c, i)
			}
		}
	}
	return ts
}

// ---------------------------------------------------------------- top-level structure of a .jq file

type def struct {
	file   string
	name   string
	params []string
	body   []tok
}

func (d def) arity() int { return len(d.params) }

type jqFile struct {
	path     string
	includes []string
	defs     []def
	hasRoot  bool
}

func isOpen(t tok) bool  { return t.kind == "punct" && (t.text == "(" || t.text == "[" || t.text == "{") }
func isClose(t tok) bool { return t.kind == "punct" && (t.text == ")" || t.text == "]" || t.text == "}") }
func isP(t tok, p string) bool {
	return t.kind == "punct" && t.text == p
}

func parseFile(path, src string) jqFile {
	ts := tokenize(path, src)
	f := jqFile{path: path}
	i := 0
	// imports / includes
	for i < len(ts) && ts[i].kind == "ident" && (ts[i].text == "include" || ts[i].text == "import") {
		if i+1 >= len(ts) || ts[i+1].kind != "str" {
			fail("%s: include without a string", path)
		}
		name, err := strconv.Unquote(ts[i+1].text)
		if err != nil {
			fail("%s: include path %s: %v", path, ts[i+1].text, err)
		}
		j := i + 2
		for j < len(ts) && !isP(ts[j], ";") {
			j++
		}
		if j >= len(ts) {
			fail("%s: include without `;`", path)
		}
		f.includes = append(f.includes, name)
		i = j + 1
	}
	// definitions
	for i < len(ts) && ts[i].kind == "ident" && ts[i].text == "def" {
		d, next := parseDef(path, ts, i)
		f.defs = append(f.defs, d)
		i = next
	}
	f.hasRoot = i < len(ts)
	// a later top-level `def` after a root expression cannot occur in jq's grammar; make sure none hides there
	depth := 0
	for j := i; j < len(ts); j++ {
		if isOpen(ts[j]) {
			depth++
		} else if isClose(ts[j]) {
			depth--
		}
	}
	if depth != 0 {
		fail("%s: unbalanced brackets in root expression", path)
	}
	return f
}

// parseDef: ts[i] is `def`; returns the definition and the index after its terminating `;`.
func parseDef(path string, ts []tok, i int) (def, int) {
	d := def{file: path}
	if i+1 >= len(ts) || ts[i+1].kind != "ident" {
		fail("%s: `def` not followed by a name", path)
	}
	d.name = ts[i+1].text
	j := i + 2
	if j < len(ts) && isP(ts[j], "(") {
		j++
		for {
			if j >= len(ts) || (ts[j].kind != "ident" && ts[j].kind != "var") {
				fail("%s: def %s: parameter is not an identifier or $variable", path, d.name)
			}
			d.params = append(d.params, ts[j].text)
			j++
			if j < len(ts) && isP(ts[j], ";") {
				j++
				continue
			}
			if j < len(ts) && isP(ts[j], ")") {
				j++
				break
			}
			fail("%s: def %s: malformed parameter list", path, d.name)
		}
	}
	if j >= len(ts) || !isP(ts[j], ":") {
		fail("%s: def %s: missing `:`", path, d.name)
	}
	j++
	start := j
	// body: until the `;` of bracket level 0 with no pending nested def
	pending := []int{0}
	for j < len(ts) {
		t := ts[j]
		switch {
		case t.kind == "ident" && t.text == "def":
			// `def` as an object key ({def: 1}) is followed by `:`; a field is tokenised as `.def`
			if j+1 < len(ts) && isP(ts[j+1], ":") {
				break
			}
			if j+1 >= len(ts) || ts[j+1].kind != "ident" {
				fail("%s: def %s: nested `def` not followed by a name", path, d.name)
			}
			pending[len(pending)-1]++
		case isOpen(t):
			pending = append(pending, 0)
		case isClose(t):
			if len(pending) == 1 {
				fail("%s: def %s: unbalanced closing bracket", path, d.name)
			}
			if pending[len(pending)-1] != 0 {
				fail("%s: def %s: nested def without `;` before closing bracket", path, d.name)
			}
			pending = pending[:len(pending)-1]
		case isP(t, ";"):
			if pending[len(pending)-1] > 0 {
				pending[len(pending)-1]--
			} else if len(pending) == 1 {
				d.body = ts[start:j]
				return d, j + 1
			}
		}
		j++
	}
	fail("%s: def %s: no terminating `;`", path, d.name)
	return d, 0
}

// ---------------------------------------------------------------- gojq builtins

type fnKey struct {
	name  string
	arity int
}

func gojqDir(repo string) (string, string) {
	gomod, err := os.ReadFile(filepath.Join(repo, "go.mod"))
	if err != nil {
		fail("%v", err)
	}
	m := regexp.MustCompile(`(?m)^\s*(?:require\s+)?github\.com/wader/gojq\s+(\S+)`).FindSubmatch(gomod)
	if m == nil {
		fail("go.mod: no requirement on github.com/wader/gojq")
	}
	version := string(m[1])
	cmd := exec.Command("go", "list", "-m", "-f", "{{.Dir}}", "github.com/wader/gojq")
	cmd.Dir = repo
	if out, err := cmd.Output(); err == nil && strings.TrimSpace(string(out)) != "" {
		return strings.TrimSpace(string(out)), version
	}
	cache := os.Getenv("GOMODCACHE")
	if cache == "" {
		if out, err := exec.Command("go", "env", "GOMODCACHE").Output(); err == nil {
			cache = strings.TrimSpace(string(out))
		}
	}
	dir := filepath.Join(cache, "github.com/wader/gojq@"+version)
	if _, err := os.Stat(dir); err != nil {
		fail("cannot locate the gojq module: %v", err)
	}
	return dir, version
}

func strLit(e ast.Expr) (string, bool) {
	if b, ok := e.(*ast.BasicLit); ok && b.Kind == token.STRING {
		s, err := strconv.Unquote(b.Value)
		return s, err == nil
	}
	return "", false
}

func intLit(e ast.Expr) (int, bool) {
	if b, ok := e.(*ast.BasicLit); ok && b.Kind == token.INT {
		n, err := strconv.Atoi(b.Value)
		return n, err == nil
	}
	return 0, false
}

func builtins(dir string) map[fnKey]string {
	res := map[fnKey]string{}
	fset := token.NewFileSet()
	parse := func(name string) *ast.File {
		f, err := parser.ParseFile(fset, filepath.Join(dir, name), nil, 0)
		if err != nil {
			fail("%v", err)
		}
		return f
	}
	// builtin.go: builtinFuncDefs = map[string][]*FuncDef{ "name": {{Name: …, Args: []string{…}, …}, …}, … }
	found := false
	ast.Inspect(parse("builtin.go"), func(n ast.Node) bool {
		as, ok := n.(*ast.AssignStmt)
		if !ok || len(as.Lhs) != 1 {
			return true
		}
		if id, ok := as.Lhs[0].(*ast.Ident); !ok || id.Name != "builtinFuncDefs" {
			return true
		}
		cl, ok := as.Rhs[0].(*ast.CompositeLit)
		if !ok {
			fail("builtin.go: builtinFuncDefs is not a composite literal")
		}
		found = true
		for _, el := range cl.Elts {
			kv := el.(*ast.KeyValueExpr)
			name, ok := strLit(kv.Key)
			if !ok {
				fail("builtin.go: non-string key")
			}
			for _, fd := range kv.Value.(*ast.CompositeLit).Elts {
				arity := 0
				fname := ""
				for _, fe := range fd.(*ast.CompositeLit).Elts {
					fkv := fe.(*ast.KeyValueExpr)
					switch fkv.Key.(*ast.Ident).Name {
					case "Name":
						fname, _ = strLit(fkv.Value)
					case "Args":
						arity = len(fkv.Value.(*ast.CompositeLit).Elts)
					}
				}
				if fname != name {
					fail("builtin.go: entry %q holds a definition named %q", name, fname)
				}
				res[fnKey{name, arity}] = "builtin.jq"
			}
		}
		return false
	})
	if !found {
		fail("builtin.go: builtinFuncDefs not found")
	}
	// func.go: internalFuncs = map[string]function{ "name": ctor(…) | {argcountN | …, iter, f} }
	ctorArity := map[string][]int{"argFunc0": {0}, "argFunc1": {1}, "argFunc2": {2}, "argFunc3": {3}, "mathFunc": {0}, "mathFunc2": {2}, "mathFunc3": {3}}
	found = false
	ast.Inspect(parse("func.go"), func(n ast.Node) bool {
		as, ok := n.(*ast.AssignStmt)
		if !ok || len(as.Lhs) != 1 {
			return true
		}
		if id, ok := as.Lhs[0].(*ast.Ident); !ok || id.Name != "internalFuncs" {
			return true
		}
		cl, ok := as.Rhs[0].(*ast.CompositeLit)
		if !ok {
			return true
		}
		found = true
		for _, el := range cl.Elts {
			kv := el.(*ast.KeyValueExpr)
			name, _ := strLit(kv.Key)
			var arities []int
			switch v := kv.Value.(type) {
			case *ast.CallExpr:
				id, ok := v.Fun.(*ast.Ident)
				if !ok || ctorArity[id.Name] == nil {
					fail("func.go: internalFuncs[%q]: unknown constructor", name)
				}
				arities = ctorArity[id.Name]
			case *ast.CompositeLit:
				var walk func(e ast.Expr)
				walk = func(e ast.Expr) {
					switch e := e.(type) {
					case *ast.BinaryExpr:
						if e.Op != token.OR {
							fail("func.go: internalFuncs[%q]: argcount is not an `|` of argcountN", name)
						}
						walk(e.X)
						walk(e.Y)
					case *ast.Ident:
						if !strings.HasPrefix(e.Name, "argcount") {
							fail("func.go: internalFuncs[%q]: unexpected %s", name, e.Name)
						}
						n, err := strconv.Atoi(strings.TrimPrefix(e.Name, "argcount"))
						if err != nil {
							fail("func.go: internalFuncs[%q]: %s", name, e.Name)
						}
						arities = append(arities, n)
					default:
						fail("func.go: internalFuncs[%q]: unexpected argcount expression", name)
					}
				}
				walk(v.Elts[0])
			default:
				fail("func.go: internalFuncs[%q]: unexpected value", name)
			}
			for _, a := range arities {
				res[fnKey{name, a}] = "func.go"
			}
		}
		return false
	})
	if !found {
		fail("func.go: internalFuncs not found")
	}
	// compiler.go: appendBuiltin("name", n); cli/cli.go: gojq.WithFunction("name", min, max, …)
	ast.Inspect(parse("compiler.go"), func(n ast.Node) bool {
		if c, ok := n.(*ast.CallExpr); ok {
			if se, ok := c.Fun.(*ast.SelectorExpr); ok && se.Sel.Name == "appendBuiltin" && len(c.Args) == 2 {
				name, ok1 := strLit(c.Args[0])
				ar, ok2 := intLit(c.Args[1])
				if !ok1 || !ok2 {
					fail("compiler.go: appendBuiltin with non-literal arguments")
				}
				res[fnKey{name, ar}] = "compiler.go"
			}
		}
		return true
	})
	ast.Inspect(parse("cli/cli.go"), func(n ast.Node) bool {
		if c, ok := n.(*ast.CallExpr); ok {
			if se, ok := c.Fun.(*ast.SelectorExpr); ok && (se.Sel.Name == "WithFunction" || se.Sel.Name == "WithIterFunction") && len(c.Args) >= 3 {
				name, ok1 := strLit(c.Args[0])
				lo, ok2 := intLit(c.Args[1])
				hi, ok3 := intLit(c.Args[2])
				if !ok1 || !ok2 || !ok3 {
					fail("cli/cli.go: WithFunction with non-literal arguments")
				}
				for a := lo; a <= hi; a++ {
					if _, dup := res[fnKey{name, a}]; !dup {
						res[fnKey{name, a}] = "cli.go"
					}
				}
			}
		}
		return true
	})
	return res
}

// ---------------------------------------------------------------- fq sources in load order

func embeddedJQ(dir string) map[string]bool {
	res := map[string]bool{}
	gos, _ := filepath.Glob(filepath.Join(dir, "*.go"))
	re := regexp.MustCompile(`(?m)^//go:embed\s+(.+)$`)
	for _, g := range gos {
		if strings.HasSuffix(g, "_test.go") {
			continue
		}
		b, err := os.ReadFile(g)
		if err != nil {
			fail("%v", err)
		}
		for _, m := range re.FindAllSubmatch(b, -1) {
			for _, w := range strings.Fields(string(m[1])) {
				if strings.HasSuffix(w, ".jq") {
					if strings.ContainsAny(w, "*?[") {
						ms, _ := filepath.Glob(filepath.Join(dir, w))
						for _, x := range ms {
							res[filepath.Base(x)] = true
						}
					} else {
						res[w] = true
					}
				}
			}
		}
	}
	return res
}

func loadOrder(repo string) []jqFile {
	interpDir := filepath.Join(repo, "pkg/interp")
	emb := embeddedJQ(interpDir)
	if !emb["init.jq"] {
		fail("pkg/interp: init.jq is not embedded")
	}
	var order []jqFile
	seen := map[string]bool{}
	var formatFiles []string
	fdirs, _ := filepath.Glob(filepath.Join(repo, "format/*"))
	sort.Strings(fdirs)
	for _, d := range fdirs {
		e := embeddedJQ(d)
		var names []string
		for n := range e {
			names = append(names, n)
		}
		sort.Strings(names)
		for _, n := range names {
			formatFiles = append(formatFiles, filepath.Join(d, n))
		}
	}
	read := func(p string) jqFile {
		b, err := os.ReadFile(p)
		if err != nil {
			fail("%v", err)
		}
		rel, _ := filepath.Rel(repo, p)
		return parseFile(rel, string(b))
	}
	var load func(name string)
	load = func(name string) {
		if strings.HasPrefix(name, "@config/") {
			return // the user's optional init file: not part of fq
		}
		name = strings.TrimPrefix(name, "@builtin/")
		fn := name + ".jq"
		if seen[fn] {
			return
		}
		seen[fn] = true
		if !emb[fn] {
			fail("include %q: %s is not embedded in pkg/interp", name, fn)
		}
		f := read(filepath.Join(interpDir, fn))
		for _, inc := range f.includes {
			load(inc)
		}
		order = append(order, f)
		if name == "registry_include" {
			for _, p := range formatFiles {
				ff := read(p)
				if len(ff.includes) != 0 {
					fail("%s: a registry file with includes is not supported", p)
				}
				order = append(order, ff)
			}
		}
	}
	load("init")
	return order
}

// ---------------------------------------------------------------- classification

func sameToks(a, b []tok) bool {
	if len(a) != len(b) {
		return false
	}
	for i := range a {
		if a[i] != b[i] {
			return false
		}
	}
	return true
}

// callToks: tokens of `name(p1; p2; …)` (no parentheses for no parameters)
func callToks(name string, params []string) []tok {
	ts := []tok{{"ident", name}}
	if len(params) == 0 {
		return ts
	}
	ts = append(ts, tok{"punct", "("})
	for i, p := range params {
		if i > 0 {
			ts = append(ts, tok{"punct", ";"})
		}
		k := "ident"
		if strings.HasPrefix(p, "$") {
			k = "var"
		}
		ts = append(ts, tok{k, p})
	}
	return append(ts, tok{"punct", ")"})
}

// splitArgs: ts = `f ( a ; b ; … )` -> f, [a, b, …] (top-level `;` only, pending defs respected)
func splitArgs(ts []tok) (string, [][]tok, bool) {
	if len(ts) < 3 || ts[0].kind != "ident" || !isP(ts[1], "(") || !isP(ts[len(ts)-1], ")") {
		return "", nil, false
	}
	var args [][]tok
	pending := []int{0}
	start := 2
	for j := 2; j < len(ts)-1; j++ {
		t := ts[j]
		switch {
		case t.kind == "ident" && t.text == "def" && !(j+1 < len(ts) && isP(ts[j+1], ":")):
			pending[len(pending)-1]++
		case isOpen(t):
			pending = append(pending, 0)
		case isClose(t):
			if len(pending) == 1 {
				return "", nil, false // the first `(` closed before the end: not a single call
			}
			pending = pending[:len(pending)-1]
		case isP(t, ";"):
			if pending[len(pending)-1] > 0 {
				pending[len(pending)-1]--
			} else if len(pending) == 1 {
				args = append(args, ts[start:j])
				start = j + 1
			}
		}
	}
	if len(pending) != 1 {
		return "", nil, false
	}
	args = append(args, ts[start:len(ts)-1])
	return ts[0].text, args, true
}

func lean(s string) string { return strconv.Quote(s) }

func main() {
	if len(os.Args) < 2 {
		fail("usage: c07overrides <repo>")
	}
	repo := os.Args[1]
	dir, version := gojqDir(repo)
	bi := builtins(dir)
	files := loadOrder(repo)

	type placed struct {
		def
		seq int
	}
	var all []placed
	var dynamic []string
	for _, f := range files {
		if f.hasRoot {
			dynamic = append(dynamic, f.path)
			if len(f.defs) != 0 {
				fail("%s: definitions followed by a root expression", f.path)
			}
		}
		for _, d := range f.defs {
			all = append(all, placed{d, len(all)})
		}
	}
	firstDef := map[fnKey]int{}
	for _, p := range all {
		k := fnKey{p.name, p.arity()}
		if _, ok := firstDef[k]; !ok {
			firstDef[k] = p.seq
		}
	}
	// guard helpers
	helperOK := func(name string, check func(d def) bool) bool {
		n := 0
		ok := false
		for _, p := range all {
			if p.name == name && p.arity() == 2 {
				n++
				ok = check(p.def)
			}
		}
		return n == 1 && ok
	}
	id := func(s string) tok { return tok{"ident", s} }
	pu := func(s string) tok { return tok{"punct", s} }
	binOK := helperOK("_binary_or_orig", func(d def) bool {
		if len(d.params) != 2 || strings.HasPrefix(d.params[0], "$") || strings.HasPrefix(d.params[1], "$") || d.params[0] == d.params[1] {
			return false
		}
		want := []tok{id("if"), id("_exttype"), pu("=="), {"str", `"binary"`}, id("then"), id(d.params[0]), id("else"), id(d.params[1]), id("end")}
		return sameToks(d.body, want)
	})
	bytesOK := helperOK("_bytes_or_orig", func(d def) bool {
		if len(d.params) != 2 || strings.HasPrefix(d.params[0], "$") || strings.HasPrefix(d.params[1], "$") || d.params[0] == d.params[1] {
			return false
		}
		f, args, ok := splitArgs(d.body)
		if !ok || f != "_binary_or_orig" || len(args) != 2 {
			return false
		}
		// the fallback arm is the second parameter, untouched, and does not occur in the binary arm
		if !sameToks(args[1], []tok{id(d.params[1])}) {
			return false
		}
		for _, t := range args[0] {
			if t.kind == "ident" && t.text == d.params[1] {
				return false
			}
		}
		return true
	})
	// no definition may shadow the helpers or _exttype later (they would change every guard after them)
	for _, h := range []fnKey{{"_exttype", 0}} {
		if _, ok := firstDef[h]; ok {
			binOK = false
		}
	}

	type override struct {
		placed
		shape   string
		helper  string
		origSeq int
		why     string
	}
	var ovs []override
	for _, p := range all {
		k := fnKey{p.name, p.arity()}
		if _, isBuiltin := bi[k]; !isBuiltin {
			continue
		}
		o := override{placed: p, shape: "other", origSeq: -1}
		f, args, ok := splitArgs(p.body)
		switch {
		case !ok || (f != "_binary_or_orig" && f != "_bytes_or_orig"):
			o.why = "body is not a call of a guard helper"
		case len(args) != 2:
			o.why = "guard helper not called with two arguments"
		case !sameToks(args[1], callToks("_orig_"+p.name, p.params)):
			o.why = "second argument is not `_orig_" + p.name + "` applied to the definition's own parameters"
		default:
			// the capture: an earlier `def _orig_NAME(P…): NAME(P…);` before which fq does not define NAME/arity,
			// and the only definition of _orig_NAME/arity before the override
			cnt := 0
			for _, q := range all[:p.seq] {
				if q.name == "_orig_"+p.name && q.arity() == p.arity() {
					cnt++
					if sameToks(q.body, callToks(p.name, q.params)) && firstDef[k] > q.seq {
						o.origSeq = q.seq
					}
				}
			}
			switch {
			case cnt != 1 || o.origSeq < 0:
				o.why = "no unique earlier capture `def _orig_" + p.name + "…: " + p.name + "…;` that precedes every fq definition of " + p.name
				o.origSeq = -1
			case firstDef[k] != p.seq:
				o.why = "an earlier fq definition of the same name/arity exists"
				o.origSeq = -1
			default:
				o.shape = "guarded"
				o.helper = f
			}
		}
		ovs = append(ovs, o)
	}

	// _re_quote_meta character class
	var quoteClass []rune
	quoteOK := false
	for _, p := range all {
		if p.name == "_re_quote_meta" && p.arity() == 0 {
			f, args, ok := splitArgs(p.body)
			if ok && f == "gsub" && len(args) == 2 && len(args[0]) == 1 && args[0][0].kind == "str" && len(args[1]) == 1 && args[1][0].kind == "str" {
				re, err := strconv.Unquote(args[0][0].text) // jq string escapes of this literal are a subset of Go's
				m := regexp.MustCompile(`^\(\?<(\w+)>\[(.*)\]\)$`).FindStringSubmatch(re)
				if err == nil && m != nil && args[1][0].text == `"\\\(.`+m[1]+`)"` {
					quoteOK = true
					cls := []rune(m[2])
					for i := 0; i < len(cls); i++ {
						if cls[i] == '\\' && i+1 < len(cls) {
							i++
							quoteClass = append(quoteClass, cls[i])
						} else if cls[i] == '-' || cls[i] == '^' && i == 0 {
							quoteOK = false // a range or a negated class: not a plain enumeration
						} else {
							quoteClass = append(quoteClass, cls[i])
						}
					}
				}
			}
		}
	}

	// ---- output
	var sb strings.Builder
	w := func(format string, a ...any) { fmt.Fprintf(&sb, format, a...) }
	w("/- GENERATED by /verif/extract/c07overrides from the working tree — do not edit.\n")
	w("   gojq module: github.com/wader/gojq %s  (%d builtin name/arity pairs)\n", version, len(bi))
	w("   fq .jq files in load order: %d, top-level definitions: %d -/\n", len(files), len(all))
	w("namespace FqModel.Gen.Overrides\n\n")
	w("inductive Shape where\n  | guarded (helper : String)\n  | other\n  deriving DecidableEq, Repr\n\n")
	w("structure Override where\n  name : String\n  arity : Nat\n  file : String\n  seq : Nat\n  shape : Shape\n  /-- load-order position of the `_orig_` capture (guarded only) -/\n  origSeq : Option Nat\n  deriving DecidableEq, Repr\n\n")
	w("/-- every top-level fq definition whose name/arity is also a gojq builtin, in load order -/\n")
	w("def overrides : List Override := [\n")
	for i, o := range ovs {
		shape := ".other"
		if o.shape == "guarded" {
			shape = ".guarded " + lean(o.helper)
		}
		orig := "none"
		if o.origSeq >= 0 {
			orig = "some " + strconv.Itoa(o.origSeq)
		}
		comma := ","
		if i == len(ovs)-1 {
			comma = ""
		}
		why := ""
		if o.why != "" {
			why = "  -- " + o.why
		}
		w("  { name := %s, arity := %d, file := %s, seq := %d, shape := %s, origSeq := %s }%s%s\n", lean(o.name), o.arity(), lean(o.file), o.seq, shape, orig, comma, why)
	}
	w("]\n\n")
	// environment slice for the lookup theorem
	rel := map[string]bool{"_binary_or_orig": true, "_bytes_or_orig": true, "_exttype": true, "_re_quote_meta": true}
	for _, o := range ovs {
		rel[o.name] = true
		rel["_orig_"+o.name] = true
	}
	w("inductive SliceKind where\n  | capture (target : String)   -- `def _orig_T(P…): T(P…);`\n  | guardedOverride            -- a guarded entry of `overrides`\n  | plain\n  deriving DecidableEq, Repr\n\n")
	w("structure SliceDef where\n  name : String\n  arity : Nat\n  seq : Nat\n  kind : SliceKind\n  deriving DecidableEq, Repr\n\n")
	w("/-- every top-level definition, in load order, named like an override, an `_orig_` capture or a guard\n    helper — the slice of the definition environment the lookup theorems are instantiated with -/\n")
	w("def envSlice : List SliceDef := [\n")
	guardedSeq := map[int]bool{}
	for _, o := range ovs {
		if o.shape == "guarded" {
			guardedSeq[o.seq] = true
		}
	}
	var rows []string
	for _, p := range all {
		if !rel[p.name] {
			continue
		}
		kind := ".plain"
		if guardedSeq[p.seq] {
			kind = ".guardedOverride"
		} else if strings.HasPrefix(p.name, "_orig_") && sameToks(p.body, callToks(strings.TrimPrefix(p.name, "_orig_"), p.params)) {
			kind = ".capture " + lean(strings.TrimPrefix(p.name, "_orig_"))
		}
		rows = append(rows, fmt.Sprintf("  { name := %s, arity := %d, seq := %d, kind := %s }", lean(p.name), p.arity(), p.seq, kind))
	}
	w("%s\n]\n\n", strings.Join(rows, ",\n"))
	w("/-- `def _binary_or_orig(bfn; fn): if _exttype == \"binary\" then bfn else fn end;` (exactly one such definition) and no fq definition of `_exttype` -/\n")
	w("def binaryOrOrigOk : Bool := %v\n", binOK)
	w("/-- `def _bytes_or_orig(bfn; fn): _binary_or_orig(<no fn>; fn);` (exactly one such definition) -/\n")
	w("def bytesOrOrigOk : Bool := %v\n\n", bytesOK)
	w("/-- `_re_quote_meta` is `gsub(\"(?<c>[CLASS])\"; \"\\\\\\(.c)\")` with CLASS a plain enumeration -/\n")
	w("def quoteMetaShapeOk : Bool := %v\n", quoteOK)
	var qs []string
	for _, r := range quoteClass {
		qs = append(qs, strconv.Itoa(int(r)))
	}
	w("/-- code points of CLASS: %s -/\n", strconv.Quote(string(quoteClass)))
	w("def quoteMetaClass : List Nat := [%s]\n\n", strings.Join(qs, ", "))
	var ds []string
	for _, d := range dynamic {
		ds = append(ds, lean(d))
	}
	w("/-- files whose root expression generates the source at run time (their definitions are seen by the harness only) -/\n")
	w("def dynamicIncludes : List String := [%s]\n\n", strings.Join(ds, ", "))
	w("def builtinCount : Nat := %d\ndef defCount : Nat := %d\n\n", len(bi), len(all))
	w("end FqModel.Gen.Overrides\n\nnamespace FqModel.Gen\nabbrev overrides := Overrides.overrides\nend FqModel.Gen\n\n")
	w("%s", encodersLean(filepath.Join(repo, "internal/colorjson/encoder.go"), filepath.Join(dir, "encoder.go")))
	fmt.Print(sb.String())
}

// ---------------------------------------------------------------- the string escaping of the two JSON encoders

// escTable is what encodeString of an encoder does, read off its AST (fails closed on any other shape):
//
//	for i := 0; i < len(s); {
//		if b := s[i]; b < utf8.RuneSelf {
//			if <LO> <= b && b <= <HI> && b != <X1> && b != <X2> … { i++; continue }     -> passLo, passHi, passExcl
//			if start < i { e.w.WriteString(s[start:i]) }
//			switch b { case <C>: e.w.WriteString(<LIT>) … default: \u00 + hex[b>>4] + hex[b&0xF] }   -> cases, defaultU00
//			i++; start = i; continue
//		}
//		c, size := utf8.DecodeRuneInString(s[i:])
//		if <COND> { … e.w.WriteString(<LIT>) … }  (any number of them)                  -> nonASCII
//		i += size
//	}
type escTable struct {
	passLo, passHi int
	passExcl       []int
	cases          [][2]string // byte (decimal), written literal (unquoted)
	defaultU00     bool
	nonASCII       [][2]string // printed condition, written literals joined by \x00
	loop           string
}

func charLit(e ast.Expr) (int, bool) {
	b, ok := e.(*ast.BasicLit)
	if !ok || b.Kind != token.CHAR {
		return 0, false
	}
	s, err := strconv.Unquote(b.Value)
	if err != nil || len([]rune(s)) != 1 {
		return 0, false
	}
	return int([]rune(s)[0]), true
}

func printNode(fset *token.FileSet, n any) string {
	var buf bytes.Buffer
	if err := (&printer.Config{Mode: printer.RawFormat}).Fprint(&buf, fset, n); err != nil {
		fail("printer: %v", err)
	}
	return buf.String()
}

func isIdent(e ast.Expr, name string) bool {
	id, ok := e.(*ast.Ident)
	return ok && id.Name == name
}

// writeLits: the string literals passed to e.w.WriteString in a statement list (other statements printed into `rest`)
func writeLits(fset *token.FileSet, stmts []ast.Stmt) (lits []string, rest []string) {
	for _, st := range stmts {
		if es, ok := st.(*ast.ExprStmt); ok {
			if c, ok := es.X.(*ast.CallExpr); ok {
				if se, ok := c.Fun.(*ast.SelectorExpr); ok && se.Sel.Name == "WriteString" && len(c.Args) == 1 {
					if s, ok := strLit(c.Args[0]); ok {
						lits = append(lits, s)
						continue
					}
				}
			}
		}
		rest = append(rest, printNode(fset, st))
	}
	return lits, rest
}

func readEncoder(path string) escTable {
	fset := token.NewFileSet()
	f, err := parser.ParseFile(fset, path, nil, 0)
	if err != nil {
		fail("%v", err)
	}
	var fn *ast.FuncDecl
	for _, d := range f.Decls {
		if fd, ok := d.(*ast.FuncDecl); ok && fd.Name.Name == "encodeString" {
			if fn != nil {
				fail("%s: two encodeString functions", path)
			}
			fn = fd
		}
	}
	if fn == nil {
		fail("%s: no encodeString", path)
	}
	var loop *ast.ForStmt
	for _, st := range fn.Body.List {
		if fs, ok := st.(*ast.ForStmt); ok {
			if loop != nil {
				fail("%s: encodeString has two loops", path)
			}
			loop = fs
		}
	}
	if loop == nil {
		fail("%s: encodeString has no loop", path)
	}
	t := escTable{loop: printNode(fset, loop)}
	body := loop.Body.List
	if len(body) < 3 {
		fail("%s: encodeString loop body too short", path)
	}
	// 1. the ASCII branch
	first, ok := body[0].(*ast.IfStmt)
	if !ok || first.Init == nil || printNode(fset, first.Init) != "b := s[i]" || printNode(fset, first.Cond) != "b < utf8.RuneSelf" || first.Else != nil {
		fail("%s: encodeString: the loop does not start with `if b := s[i]; b < utf8.RuneSelf`", path)
	}
	ab := first.Body.List
	if len(ab) != 6 {
		fail("%s: encodeString: ASCII branch has %d statements, want 6", path, len(ab))
	}
	pass, ok := ab[0].(*ast.IfStmt)
	if !ok || printNode(fset, pass.Body) != "{\n\ti++\n\tcontinue\n}" {
		fail("%s: encodeString: ASCII branch does not start with the pass-through test: %q", path, printNode(fset, ab[0]))
	}
	t.passLo, t.passHi = -1, -1
	var conj func(e ast.Expr)
	conj = func(e ast.Expr) {
		be, ok := e.(*ast.BinaryExpr)
		if !ok {
			fail("%s: encodeString: pass-through condition: unexpected %s", path, printNode(fset, e))
		}
		if be.Op == token.LAND {
			conj(be.X)
			conj(be.Y)
			return
		}
		if v, ok := charLit(be.X); ok && isIdent(be.Y, "b") && be.Op == token.LEQ && t.passLo < 0 {
			t.passLo = v
		} else if v, ok := charLit(be.Y); ok && isIdent(be.X, "b") && be.Op == token.LEQ && t.passHi < 0 {
			t.passHi = v
		} else if v, ok := charLit(be.Y); ok && isIdent(be.X, "b") && be.Op == token.NEQ {
			t.passExcl = append(t.passExcl, v)
		} else {
			fail("%s: encodeString: pass-through condition: unexpected %s", path, printNode(fset, e))
		}
	}
	conj(pass.Cond)
	if t.passLo < 0 || t.passHi < 0 {
		fail("%s: encodeString: pass-through condition has no bounds", path)
	}
	if printNode(fset, ab[1]) != "if start < i {\n\te.w.WriteString(s[start:i])\n}" {
		fail("%s: encodeString: ASCII branch: unexpected flush %q", path, printNode(fset, ab[1]))
	}
	sw, ok := ab[2].(*ast.SwitchStmt)
	if !ok || sw.Init != nil || !isIdent(sw.Tag, "b") {
		fail("%s: encodeString: ASCII branch: no `switch b`", path)
	}
	sawDefault := false
	for _, cc := range sw.Body.List {
		cl := cc.(*ast.CaseClause)
		if cl.List == nil {
			sawDefault = true
			want := "const hex = \"0123456789abcdef\"\ne.w.WriteString(`\\u00`)\ne.w.WriteByte(hex[b>>4])\ne.w.WriteByte(hex[b&0xF])"
			var ps []string
			for _, st := range cl.Body {
				ps = append(ps, printNode(fset, st))
			}
			got := strings.Join(ps, "\n")
			// the constant may live outside the function
			t.defaultU00 = got == want || got == strings.TrimPrefix(want, "const hex = \"0123456789abcdef\"\n") && strings.Contains(printNode(fset, f), "hex = \"0123456789abcdef\"")
			continue
		}
		lits, rest := writeLits(fset, cl.Body)
		if len(lits) != 1 || len(rest) != 0 {
			fail("%s: encodeString: a case of `switch b` is not one WriteString of a literal", path)
		}
		for _, e := range cl.List {
			v, ok := charLit(e)
			if !ok {
				fail("%s: encodeString: non-character case label", path)
			}
			t.cases = append(t.cases, [2]string{strconv.Itoa(v), lits[0]})
		}
	}
	if !sawDefault {
		fail("%s: encodeString: `switch b` without default", path)
	}
	if printNode(fset, ab[3]) != "i++" || printNode(fset, ab[4]) != "start = i" || printNode(fset, ab[5]) != "continue" {
		fail("%s: encodeString: ASCII branch does not end with i++; start = i; continue", path)
	}
	// 2. the non-ASCII part
	if printNode(fset, body[1]) != "c, size := utf8.DecodeRuneInString(s[i:])" {
		fail("%s: encodeString: expected DecodeRuneInString, got %q", path, printNode(fset, body[1]))
	}
	for _, st := range body[2 : len(body)-1] {
		is, ok := st.(*ast.IfStmt)
		if !ok || is.Init != nil || is.Else != nil {
			fail("%s: encodeString: unexpected statement in the non-ASCII part: %q", path, printNode(fset, st))
		}
		lits, _ := writeLits(fset, is.Body.List)
		t.nonASCII = append(t.nonASCII, [2]string{printNode(fset, is.Cond), strings.Join(lits, "\x00")})
	}
	if printNode(fset, body[len(body)-1]) != "i += size" {
		fail("%s: encodeString: loop does not end with i += size", path)
	}
	return t
}

func leanNatList(xs []int) string {
	var ps []string
	for _, x := range xs {
		ps = append(ps, strconv.Itoa(x))
	}
	return "[" + strings.Join(ps, ", ") + "]"
}

func leanCodePoints(s string) string {
	var xs []int
	for _, r := range s {
		xs = append(xs, int(r))
	}
	return leanNatList(xs)
}

func (t escTable) lean(name, src string) string {
	var sb strings.Builder
	fmt.Fprintf(&sb, "/-- %s -/\ndef %s : Esc := {\n  passLo := %d, passHi := %d, passExcl := %s,\n  cases := [", src, name, t.passLo, t.passHi, leanNatList(t.passExcl))
	for i, c := range t.cases {
		if i > 0 {
			sb.WriteString(", ")
		}
		fmt.Fprintf(&sb, "(%s, %s)", c[0], leanCodePoints(c[1]))
	}
	fmt.Fprintf(&sb, "],\n  defaultU00 := %v,\n  nonAscii := [", t.defaultU00)
	for i, c := range t.nonASCII {
		if i > 0 {
			sb.WriteString(", ")
		}
		fmt.Fprintf(&sb, "(%s, %s)", strconv.Quote(c[0]), strconv.Quote(c[1]))
	}
	sb.WriteString("],\n  loop := [\n")
	lines := strings.Split(t.loop, "\n")
	for i, l := range lines {
		comma := ","
		if i == len(lines)-1 {
			comma = ""
		}
		fmt.Fprintf(&sb, "    %s%s\n", strconv.Quote(strings.TrimLeft(l, "\t")), comma)
	}
	sb.WriteString("  ] }\n\n")
	return sb.String()
}

func encodersLean(fqPath, gojqPath string) string {
	var sb strings.Builder
	sb.WriteString("/- the string escaping of fq's JSON encoder (internal/colorjson/encoder.go encodeString) and of the reference's\n   (gojq encoder.go encodeString), read off the two ASTs; `loop` is the printed `for` statement -/\n")
	sb.WriteString("namespace FqModel.Gen.Encoder\n\n")
	sb.WriteString("structure Esc where\n  passLo : Nat\n  passHi : Nat\n  passExcl : List Nat\n  /-- byte ↦ code points written instead -/\n  cases : List (Nat × List Nat)\n  /-- the default case writes `\\u00` and the two lower-case hex digits of the byte -/\n  defaultU00 : Bool\n  /-- (condition, written literals) of every `if` after utf8.DecodeRuneInString -/\n  nonAscii : List (String × String)\n  /-- the printed `for` statement, line by line (indentation dropped) -/\n  loop : List String\n  deriving DecidableEq, Repr\n\n")
	sb.WriteString(readEncoder(fqPath).lean("fq", "/repo/internal/colorjson/encoder.go"))
	sb.WriteString(readEncoder(gojqPath).lean("gojq", "gojq encoder.go (module version of /repo/go.mod)"))
	sb.WriteString("end FqModel.Gen.Encoder\n")
	return sb.String()
}
