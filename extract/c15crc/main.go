// c15crc regenerates lean/FqModel/Gen/Crc.lean from /repo/pkg/checksum/crc.go.
//
// What is obtained, and how (standard library go/ast, go/parser, go/token only):
//
//  1. The tables fq actually uses: every package level `var X = MakeTable(<poly>, <bits>)` is
//     STATICALLY EVALUATED by a small interpreter for the subset of Go that the body of
//     `MakeTable` is written in (:=, =, op=, ++/--, for-range over an integer, 3-clause for, if/else,
//     array composite literal, index, conversions uint/int/Table, integer literals, the binary
//     operators + - * / % & | ^ &^ << >> == != < <= > >=, unary - ^ !, return). Values are
//     Go `uint`/`int` modelled as uint64 with wrap-around. Anything outside the subset makes the
//     extractor FAIL (the check then reports a broken obligation) — nothing is guessed.
//  2. The update step of `(*CRC).Write`: for every `case <bits>:` of the switch, the right hand
//     side of `c.Current = <expr>` inside `for _, b := range p` is translated, fully
//     parenthesised, into a Lean expression over Nat (`cur`, `tbl`, `b`); Go's uint is 64 bit,
//     the Lean value is exact as long as cur < 2^56, which the driver's callers respect.
//  3. The big-endian byte order of `(*CRC).Sum` as the list of shift amounts per case.
//
// usage: go run ./c15crc /repo   (prints the Lean file)
package main

import (
	"fmt"
	"go/ast"
	"go/parser"
	"go/token"
	"os"
	"path/filepath"
	"sort"
	"strconv"
	"strings"
)

func fail(f string, a ...any) {
	fmt.Fprintf(os.Stderr, "c15crc: "+f+"\n", a...)
	os.Exit(1)
}

// ---------------------------------------------------------------- interpreter

type value struct {
	arr []uint64 // non-nil: array
	n   uint64
	b   bool
	isB bool
}

type env struct {
	vars   []map[string]*value
	ret    *value
	hasRet bool
}

func (e *env) push() { e.vars = append(e.vars, map[string]*value{}) }
func (e *env) pop()  { e.vars = e.vars[:len(e.vars)-1] }
func (e *env) lookup(n string) *value {
	for i := len(e.vars) - 1; i >= 0; i-- {
		if v, ok := e.vars[i][n]; ok {
			return v
		}
	}
	fail("interpreter: unknown identifier %s", n)
	return nil
}
func (e *env) define(n string, v value) {
	if n == "_" {
		return
	}
	e.vars[len(e.vars)-1][n] = &v
}

func intLit(s string) uint64 {
	v, err := strconv.ParseUint(strings.ReplaceAll(s, "_", ""), 0, 64)
	if err != nil {
		fail("interpreter: literal %s: %v", s, err)
	}
	return v
}

func (e *env) eval(x ast.Expr) value {
	switch x := x.(type) {
	case *ast.BasicLit:
		if x.Kind != token.INT {
			fail("interpreter: unsupported literal %s", x.Value)
		}
		return value{n: intLit(x.Value)}
	case *ast.Ident:
		return *e.lookup(x.Name)
	case *ast.ParenExpr:
		return e.eval(x.X)
	case *ast.UnaryExpr:
		v := e.eval(x.X)
		switch x.Op {
		case token.SUB:
			return value{n: -v.n}
		case token.XOR:
			return value{n: ^v.n}
		case token.NOT:
			return value{b: !v.b, isB: true}
		}
		fail("interpreter: unsupported unary %s", x.Op)
	case *ast.BinaryExpr:
		a, b := e.eval(x.X), e.eval(x.Y)
		bo := func(v bool) value { return value{b: v, isB: true} }
		switch x.Op {
		case token.ADD:
			return value{n: a.n + b.n}
		case token.SUB:
			return value{n: a.n - b.n}
		case token.MUL:
			return value{n: a.n * b.n}
		case token.QUO:
			if b.n == 0 {
				fail("interpreter: division by zero")
			}
			return value{n: a.n / b.n}
		case token.REM:
			if b.n == 0 {
				fail("interpreter: division by zero")
			}
			return value{n: a.n % b.n}
		case token.AND:
			return value{n: a.n & b.n}
		case token.OR:
			return value{n: a.n | b.n}
		case token.XOR:
			return value{n: a.n ^ b.n}
		case token.AND_NOT:
			return value{n: a.n &^ b.n}
		case token.SHL:
			if int64(b.n) < 0 {
				fail("interpreter: negative shift count")
			}
			if b.n >= 64 {
				return value{n: 0}
			}
			return value{n: a.n << b.n}
		case token.SHR:
			if int64(b.n) < 0 {
				fail("interpreter: negative shift count")
			}
			if b.n >= 64 {
				return value{n: 0}
			}
			return value{n: a.n >> b.n}
		case token.EQL:
			return bo(a.n == b.n)
		case token.NEQ:
			return bo(a.n != b.n)
		case token.LSS:
			return bo(a.n < b.n)
		case token.LEQ:
			return bo(a.n <= b.n)
		case token.GTR:
			return bo(a.n > b.n)
		case token.GEQ:
			return bo(a.n >= b.n)
		case token.LAND:
			return bo(a.b && b.b)
		case token.LOR:
			return bo(a.b || b.b)
		}
		fail("interpreter: unsupported binary %s", x.Op)
	case *ast.CallExpr:
		if id, ok := x.Fun.(*ast.Ident); ok && len(x.Args) == 1 {
			switch id.Name {
			case "uint", "int", "uint64", "int64", "Table":
				return e.eval(x.Args[0])
			case "uint32":
				v := e.eval(x.Args[0])
				return value{n: v.n & 0xffffffff}
			}
		}
		fail("interpreter: unsupported call")
	case *ast.IndexExpr:
		a, i := e.eval(x.X), e.eval(x.Index)
		if a.arr == nil || i.n >= uint64(len(a.arr)) {
			fail("interpreter: index out of range")
		}
		return value{n: a.arr[i.n]}
	case *ast.CompositeLit:
		at, ok := x.Type.(*ast.ArrayType)
		if !ok || at.Len == nil || len(x.Elts) != 0 {
			fail("interpreter: unsupported composite literal")
		}
		n := e.eval(at.Len).n
		if n > 1<<16 {
			fail("interpreter: array too large")
		}
		return value{arr: make([]uint64, n)}
	}
	fail("interpreter: unsupported expression %T", x)
	return value{}
}

func (e *env) assign(lhs ast.Expr, tok token.Token, v value) {
	combine := func(old uint64) uint64 {
		switch tok {
		case token.ASSIGN, token.DEFINE:
			return v.n
		case token.ADD_ASSIGN:
			return old + v.n
		case token.SUB_ASSIGN:
			return old - v.n
		case token.XOR_ASSIGN:
			return old ^ v.n
		case token.AND_ASSIGN:
			return old & v.n
		case token.OR_ASSIGN:
			return old | v.n
		case token.SHL_ASSIGN:
			if v.n >= 64 {
				return 0
			}
			return old << v.n
		case token.SHR_ASSIGN:
			if v.n >= 64 {
				return 0
			}
			return old >> v.n
		}
		fail("interpreter: unsupported assignment %s", tok)
		return 0
	}
	switch l := lhs.(type) {
	case *ast.Ident:
		if tok == token.DEFINE {
			if v.arr != nil {
				v.arr = append([]uint64{}, v.arr...)
			}
			e.define(l.Name, v)
			return
		}
		p := e.lookup(l.Name)
		if v.arr != nil || p.arr != nil {
			if tok != token.ASSIGN {
				fail("interpreter: unsupported array assignment")
			}
			p.arr = append([]uint64{}, v.arr...)
			return
		}
		p.n = combine(p.n)
	case *ast.IndexExpr:
		id, ok := l.X.(*ast.Ident)
		if !ok {
			fail("interpreter: unsupported index assignment")
		}
		a := e.lookup(id.Name)
		i := e.eval(l.Index).n
		if a.arr == nil || i >= uint64(len(a.arr)) {
			fail("interpreter: index out of range in assignment")
		}
		a.arr[i] = combine(a.arr[i])
	default:
		fail("interpreter: unsupported assignment target %T", lhs)
	}
}

var steps int

func (e *env) block(b *ast.BlockStmt) {
	e.push()
	defer e.pop()
	for _, s := range b.List {
		if e.hasRet {
			return
		}
		e.stmt(s)
	}
}

func (e *env) stmt(s ast.Stmt) {
	steps++
	if steps > 10_000_000 {
		fail("interpreter: step limit")
	}
	switch s := s.(type) {
	case *ast.AssignStmt:
		if len(s.Lhs) != 1 || len(s.Rhs) != 1 {
			fail("interpreter: unsupported multi-assignment")
		}
		e.assign(s.Lhs[0], s.Tok, e.eval(s.Rhs[0]))
	case *ast.IncDecStmt:
		tok := token.ADD_ASSIGN
		if s.Tok == token.DEC {
			tok = token.SUB_ASSIGN
		}
		e.assign(s.X, tok, value{n: 1})
	case *ast.ExprStmt:
		e.eval(s.X)
	case *ast.BlockStmt:
		e.block(s)
	case *ast.IfStmt:
		e.push()
		defer e.pop()
		if s.Init != nil {
			e.stmt(s.Init)
		}
		c := e.eval(s.Cond)
		if !c.isB {
			fail("interpreter: non boolean condition")
		}
		if c.b {
			e.block(s.Body)
		} else if s.Else != nil {
			e.stmt(s.Else)
		}
	case *ast.RangeStmt: // for [i :=] range <int expr>
		n := e.eval(s.X)
		if n.arr != nil || s.Value != nil {
			fail("interpreter: only range over an integer is supported")
		}
		for i := uint64(0); i < n.n && !e.hasRet; i++ {
			e.push()
			if s.Key != nil {
				id, ok := s.Key.(*ast.Ident)
				if !ok || s.Tok != token.DEFINE {
					fail("interpreter: unsupported range key")
				}
				e.define(id.Name, value{n: i})
			}
			e.block(s.Body)
			e.pop()
		}
	case *ast.ForStmt:
		e.push()
		defer e.pop()
		if s.Init != nil {
			e.stmt(s.Init)
		}
		for !e.hasRet {
			if s.Cond != nil {
				c := e.eval(s.Cond)
				if !c.isB {
					fail("interpreter: non boolean condition")
				}
				if !c.b {
					break
				}
			}
			e.block(s.Body)
			if s.Post != nil {
				e.stmt(s.Post)
			}
		}
	case *ast.ReturnStmt:
		if len(s.Results) != 1 {
			fail("interpreter: unsupported return")
		}
		v := e.eval(s.Results[0])
		e.ret, e.hasRet = &v, true
	default:
		fail("interpreter: unsupported statement %T", s)
	}
}

func call(fn *ast.FuncDecl, args []uint64) value {
	e := &env{}
	e.push()
	i := 0
	for _, f := range fn.Type.Params.List {
		for _, n := range f.Names {
			if i >= len(args) {
				fail("MakeTable: parameter count")
			}
			e.define(n.Name, value{n: args[i]})
			i++
		}
	}
	if i != len(args) {
		fail("MakeTable: parameter count")
	}
	e.block(fn.Body)
	if !e.hasRet || e.ret.arr == nil {
		fail("MakeTable did not return an array")
	}
	return *e.ret
}

// ---------------------------------------------------------------- expression -> Lean

func lean(x ast.Expr) string {
	switch x := x.(type) {
	case *ast.BasicLit:
		if x.Kind == token.INT {
			return strconv.FormatUint(intLit(x.Value), 10)
		}
	case *ast.ParenExpr:
		return lean(x.X)
	case *ast.Ident:
		if x.Name == "b" {
			return "b"
		}
	case *ast.SelectorExpr:
		if id, ok := x.X.(*ast.Ident); ok && id.Name == "c" && x.Sel.Name == "Current" {
			return "cur"
		}
	case *ast.IndexExpr:
		if se, ok := x.X.(*ast.SelectorExpr); ok {
			if id, ok := se.X.(*ast.Ident); ok && id.Name == "c" && se.Sel.Name == "Table" {
				return "(tbl " + lean(x.Index) + ")"
			}
		}
	case *ast.CallExpr:
		if id, ok := x.Fun.(*ast.Ident); ok && id.Name == "uint" && len(x.Args) == 1 {
			return lean(x.Args[0])
		}
	case *ast.BinaryExpr:
		op := map[token.Token]string{token.SHL: "<<<", token.SHR: ">>>", token.XOR: "^^^", token.AND: "&&&", token.OR: "|||", token.ADD: "+"}[x.Op]
		if op != "" {
			return "(" + lean(x.X) + " " + op + " " + lean(x.Y) + ")"
		}
	}
	fail("Write step: expression outside the translated subset (%T)", x)
	return ""
}

func main() {
	if len(os.Args) < 2 {
		fail("usage: c15crc <repo>")
	}
	path := filepath.Join(os.Args[1], "pkg/checksum/crc.go")
	fset := token.NewFileSet()
	f, err := parser.ParseFile(fset, path, nil, 0)
	if err != nil {
		fail("%v", err)
	}
	var makeTable, write, sum *ast.FuncDecl
	type tbl struct {
		name       string
		poly, bits uint64
	}
	var tbls []tbl
	for _, d := range f.Decls {
		switch d := d.(type) {
		case *ast.FuncDecl:
			switch {
			case d.Recv == nil && d.Name.Name == "MakeTable":
				makeTable = d
			case d.Recv != nil && d.Name.Name == "Write":
				write = d
			case d.Recv != nil && d.Name.Name == "Sum":
				sum = d
			}
		case *ast.GenDecl:
			if d.Tok != token.VAR {
				continue
			}
			for _, s := range d.Specs {
				vs := s.(*ast.ValueSpec)
				if len(vs.Names) != 1 || len(vs.Values) != 1 {
					continue
				}
				ce, ok := vs.Values[0].(*ast.CallExpr)
				if !ok {
					continue
				}
				if id, ok := ce.Fun.(*ast.Ident); !ok || id.Name != "MakeTable" || len(ce.Args) != 2 {
					continue
				}
				e := &env{}
				e.push()
				tbls = append(tbls, tbl{vs.Names[0].Name, e.eval(ce.Args[0]).n, e.eval(ce.Args[1]).n})
			}
		}
	}
	if makeTable == nil || write == nil || sum == nil {
		fail("MakeTable / (*CRC).Write / (*CRC).Sum not found in %s", path)
	}
	if len(tbls) == 0 {
		fail("no `var X = MakeTable(poly, bits)` found")
	}
	sort.Slice(tbls, func(i, j int) bool { return tbls[i].name < tbls[j].name })

	var sb strings.Builder
	sb.WriteString("/- GENERATED by /verif/extract/c15crc from pkg/checksum/crc.go — do not edit.\n")
	sb.WriteString("   tables: static evaluation of MakeTable's body (AST interpreter) on the arguments of every\n")
	sb.WriteString("   `var X = MakeTable(poly, bits)`; write<bits>: the update expression of (*CRC).Write; sumShifts<bits>:\n")
	sb.WriteString("   the shift amounts of (*CRC).Sum. -/\n")
	sb.WriteString("namespace FqModel.Gen.Crc\n\n")
	for _, t := range tbls {
		v := call(makeTable, []uint64{t.poly, t.bits})
		if len(v.arr) != 256 {
			fail("table %s has %d entries", t.name, len(v.arr))
		}
		fmt.Fprintf(&sb, "def %sPoly : Nat := %d\ndef %sBits : Nat := %d\ndef %s : Array Nat := #[", t.name, t.poly, t.name, t.bits, t.name)
		for i, x := range v.arr {
			if i > 0 {
				sb.WriteString(",")
			}
			if i%8 == 0 {
				sb.WriteString("\n  ")
			}
			fmt.Fprintf(&sb, " %d", x)
		}
		sb.WriteString("]\n\n")
	}
	sb.WriteString("def tableNames : List String := [")
	for i, t := range tbls {
		if i > 0 {
			sb.WriteString(", ")
		}
		fmt.Fprintf(&sb, "%q", t.name)
	}
	sb.WriteString("]\n\n")

	// Write: switch c.Bits { case N: for _, b := range p { c.Current = <expr> } … }
	var sw *ast.SwitchStmt
	for _, s := range write.Body.List {
		if x, ok := s.(*ast.SwitchStmt); ok {
			sw = x
		}
	}
	if sw == nil {
		fail("(*CRC).Write: switch not found")
	}
	if se, ok := sw.Tag.(*ast.SelectorExpr); !ok || se.Sel.Name != "Bits" {
		fail("(*CRC).Write: switch is not over c.Bits")
	}
	var wbits []uint64
	for _, cc := range sw.Body.List {
		c := cc.(*ast.CaseClause)
		if c.List == nil {
			continue // default: panic
		}
		if len(c.List) != 1 || len(c.Body) != 1 {
			fail("(*CRC).Write: unexpected case shape")
		}
		bits := intLit(c.List[0].(*ast.BasicLit).Value)
		rs, ok := c.Body[0].(*ast.RangeStmt)
		if !ok || len(rs.Body.List) != 1 {
			fail("(*CRC).Write: case %d is not a single range loop", bits)
		}
		if v, ok := rs.Value.(*ast.Ident); !ok || v.Name != "b" {
			fail("(*CRC).Write: loop variable is not b")
		}
		as, ok := rs.Body.List[0].(*ast.AssignStmt)
		if !ok || as.Tok != token.ASSIGN || len(as.Lhs) != 1 || lean(as.Lhs[0]) != "cur" {
			fail("(*CRC).Write: case %d body is not `c.Current = …`", bits)
		}
		fmt.Fprintf(&sb, "def write%d (tbl : Nat → Nat) (cur b : Nat) : Nat := %s\n", bits, lean(as.Rhs[0]))
		wbits = append(wbits, bits)
	}
	sb.WriteString("\ndef writeBits : List Nat := [")
	for i, b := range wbits {
		if i > 0 {
			sb.WriteString(", ")
		}
		fmt.Fprintf(&sb, "%d", b)
	}
	sb.WriteString("]\n\n")

	// Sum: switch c.Bits { case N: return append(b, byte(s>>k)…, byte(s)) }
	sw = nil
	for _, s := range sum.Body.List {
		if x, ok := s.(*ast.SwitchStmt); ok {
			sw = x
		}
	}
	if sw == nil {
		fail("(*CRC).Sum: switch not found")
	}
	for _, cc := range sw.Body.List {
		c := cc.(*ast.CaseClause)
		if c.List == nil {
			continue
		}
		bits := intLit(c.List[0].(*ast.BasicLit).Value)
		rs, ok := c.Body[0].(*ast.ReturnStmt)
		if !ok || len(rs.Results) != 1 {
			fail("(*CRC).Sum: case %d is not a return", bits)
		}
		ce, ok := rs.Results[0].(*ast.CallExpr)
		if !ok || len(ce.Args) < 2 {
			fail("(*CRC).Sum: case %d is not append(b, …)", bits)
		}
		var sh []string
		for _, a := range ce.Args[1:] {
			bc, ok := a.(*ast.CallExpr)
			if !ok || len(bc.Args) != 1 {
				fail("(*CRC).Sum: case %d: not byte(…)", bits)
			}
			switch x := bc.Args[0].(type) {
			case *ast.Ident:
				sh = append(sh, "0")
			case *ast.BinaryExpr:
				if x.Op != token.SHR {
					fail("(*CRC).Sum: case %d: not a right shift", bits)
				}
				sh = append(sh, strconv.FormatUint(intLit(x.Y.(*ast.BasicLit).Value), 10))
			default:
				fail("(*CRC).Sum: case %d: unexpected byte argument", bits)
			}
		}
		fmt.Fprintf(&sb, "def sumShifts%d : List Nat := [%s]\n", bits, strings.Join(sh, ", "))
	}
	sb.WriteString("\nend FqModel.Gen.Crc\n")
	fmt.Print(sb.String())
}
