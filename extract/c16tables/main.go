// c16tables: regenerates lean/FqModel/Gen/SerialTables.lean from /repo's working tree.
//
//   - format/msgpack/msgpack.go: the rows of the `formatEntries` composite literal (byte range, symbol,
//     source text of the row's decode function), the helper closures arrayFn/mapFn/extFn, the `lookup`
//     method and the dispatch statements of decodeMsgPackValue;
//   - format/cbor/cbor.go: the integer constants, the rows of the `majorTypeEntries` literal (key constant,
//     symbol, source text of the decode function) and the statements of decodeCBORValue around it;
//   - format/bencode/bencode.go: decodeStrIntUntil and decodeBencodeValue;
//   - format/bson/bson.go: decodeBSONDocument, decodeBSON, the element type constants;
//   - format/json/json.go: decodeJSONEx;
//   - format/asn1/asn1_ber.go: decodeLength, decodeTagNumber, decodeASN1BERValue;
//   - the jq reducers (*.jq) verbatim.
//
// Source text is printed with go/printer and whitespace-normalised, so reformatting does not change it.
// Standard library only.
package main

import (
	"bytes"
	"fmt"
	"go/ast"
	"go/parser"
	"go/printer"
	"go/token"
	"os"
	"path/filepath"
	"strconv"
	"strings"
)

var fset = token.NewFileSet()

// die aborts the current section (see `section`): a component that cannot be extracted any more (the source
// was restructured) is emitted as its empty fallback, it never makes the extractor fail
type extractErr string

func die(f string, a ...any) {
	panic(extractErr(fmt.Sprintf(f, a...)))
}

// section runs fn and appends its output; if fn gives up, the fallback definitions are emitted instead
func section(out *strings.Builder, name string, fallback string, fn func(w func(string, ...any))) {
	var b strings.Builder
	ok := func() (ok bool) {
		defer func() {
			if r := recover(); r != nil {
				if e, isE := r.(extractErr); isE {
					fmt.Fprintf(os.Stderr, "c16tables: %s: not extractable: %s\n", name, string(e))
					ok = false
					return
				}
				panic(r)
			}
		}()
		fn(func(f string, a ...any) { fmt.Fprintf(&b, f, a...) })
		return true
	}()
	if ok {
		out.WriteString(b.String())
	} else {
		fmt.Fprintf(out, "-- %s: not extractable from the current source\n%s\n", name, fallback)
	}
}

// ---- normalised description of a decode function: the sequence of decoder calls with their literal
// arguments; error message texts are dropped (`Fatalf()`), conversions int(x)/int64(x) are transparent

func normExpr(e ast.Expr) string {
	switch e := e.(type) {
	case *ast.BasicLit:
		if e.Kind == token.STRING {
			if s, err := strconv.Unquote(e.Value); err == nil {
				return s
			}
			return e.Value
		}
		if v, err := strconv.ParseUint(e.Value, 0, 64); err == nil {
			return strconv.FormatUint(v, 10)
		}
		return e.Value
	case *ast.Ident:
		return e.Name
	case *ast.ParenExpr:
		return normExpr(e.X)
	case *ast.UnaryExpr:
		return e.Op.String() + normExpr(e.X)
	case *ast.BinaryExpr:
		return normExpr(e.X) + e.Op.String() + normExpr(e.Y)
	case *ast.SelectorExpr:
		return e.Sel.Name
	case *ast.CallExpr:
		name := normExpr(e.Fun)
		if (name == "int" || name == "int64" || name == "uint64" || name == "byte") && len(e.Args) == 1 {
			return normExpr(e.Args[0])
		}
		if name == "Fatalf" || name == "Errorf" {
			return "Fatalf()"
		}
		as := make([]string, len(e.Args))
		for i, a := range e.Args {
			as[i] = normExpr(a)
		}
		return name + "(" + strings.Join(as, ",") + ")"
	}
	return "?" + strings.Join(strings.Fields(src(e)), "")
}

func descOf(e ast.Expr) []string {
	fl, ok := e.(*ast.FuncLit)
	if !ok {
		return []string{normExpr(e)}
	}
	var out []string
	for _, st := range fl.Body.List {
		switch st := st.(type) {
		case *ast.ExprStmt:
			out = append(out, normExpr(st.X))
		case *ast.AssignStmt:
			if len(st.Lhs) == 1 && len(st.Rhs) == 1 {
				out = append(out, normExpr(st.Lhs[0])+"="+normExpr(st.Rhs[0]))
			} else {
				out = append(out, "?"+strings.Join(strings.Fields(src(st)), ""))
			}
		default:
			out = append(out, "?"+strings.Join(strings.Fields(src(st)), ""))
		}
	}
	return out
}

func leanList(ss []string) string {
	qs := make([]string, len(ss))
	for i, s := range ss {
		qs[i] = leanStr(s)
	}
	return "[" + strings.Join(qs, ", ") + "]"
}

func src(n ast.Node) string {
	var b bytes.Buffer
	if err := printer.Fprint(&b, fset, n); err != nil {
		die("print: %v", err)
	}
	return strings.Join(strings.Fields(b.String()), " ")
}

func leanStr(s string) string {
	var b strings.Builder
	b.WriteByte('"')
	for _, r := range s {
		switch r {
		case '"':
			b.WriteString("\\\"")
		case '\\':
			b.WriteString("\\\\")
		case '\n':
			b.WriteString("\\n")
		case '\t':
			b.WriteString("\\t")
		case '\r':
			b.WriteString("\\r")
		default:
			b.WriteRune(r)
		}
	}
	b.WriteByte('"')
	return b.String()
}

// toks renders a normalised source text as a Lean `List String` of its whitespace-separated tokens
// (the kernel compares short strings quickly, long ones slowly)
func toks(s string) string {
	fs := strings.Fields(s)
	for i := range fs {
		fs[i] = leanStr(fs[i])
	}
	return "[" + strings.Join(fs, ", ") + "]"
}

func parse(path string) *ast.File {
	f, err := parser.ParseFile(fset, path, nil, parser.ParseComments)
	if err != nil {
		die("%v", err)
	}
	return f
}

func funcDecl(f *ast.File, name string) *ast.FuncDecl {
	for _, d := range f.Decls {
		if fd, ok := d.(*ast.FuncDecl); ok && fd.Name.Name == name {
			return fd
		}
	}
	die("function %s not found", name)
	return nil
}

func intLit(e ast.Expr) uint64 {
	bl, ok := e.(*ast.BasicLit)
	if !ok {
		die("not an integer literal: %s", src(e))
	}
	v, err := strconv.ParseUint(bl.Value, 0, 64)
	if err != nil {
		die("integer literal %s: %v", bl.Value, err)
	}
	return v
}

func field(cl *ast.CompositeLit, name string) ast.Expr {
	for _, el := range cl.Elts {
		if kv, ok := el.(*ast.KeyValueExpr); ok {
			if id, ok := kv.Key.(*ast.Ident); ok && id.Name == name {
				return kv.Value
			}
		}
	}
	return nil
}

func symOf(e ast.Expr) string {
	cl, ok := e.(*ast.CompositeLit)
	if !ok {
		die("s: not a composite literal: %s", src(e))
	}
	v := field(cl, "Sym")
	bl, ok := v.(*ast.BasicLit)
	if !ok {
		die("Sym: not a string literal: %s", src(e))
	}
	s, err := strconv.Unquote(bl.Value)
	if err != nil {
		die("%v", err)
	}
	return s
}

// the composite literal of the named type inside fn, and the statements around it
func findLit(fn *ast.FuncDecl, typeName string) (lit *ast.CompositeLit, stmtIdx int) {
	stmtIdx = -1
	for i, st := range fn.Body.List {
		as, ok := st.(*ast.AssignStmt)
		if !ok || len(as.Rhs) != 1 {
			continue
		}
		if cl, ok := as.Rhs[0].(*ast.CompositeLit); ok {
			if id, ok := cl.Type.(*ast.Ident); ok && id.Name == typeName {
				return cl, i
			}
		}
	}
	die("composite literal of type %s not found in %s", typeName, fn.Name.Name)
	return nil, -1
}

// integer constants of a file, by identifier
func constTable(f *ast.File) ([]string, map[string]uint64) {
	var names []string
	vals := map[string]uint64{}
	for _, d := range f.Decls {
		gd, ok := d.(*ast.GenDecl)
		if !ok || gd.Tok != token.CONST {
			continue
		}
		for _, sp := range gd.Specs {
			vs := sp.(*ast.ValueSpec)
			for i, n := range vs.Names {
				if i >= len(vs.Values) {
					continue
				}
				bl, ok := vs.Values[i].(*ast.BasicLit)
				if !ok {
					continue
				}
				v, err := strconv.ParseUint(bl.Value, 0, 64)
				if err != nil {
					continue
				}
				names = append(names, n.Name)
				vals[n.Name] = v
			}
		}
	}
	return names, vals
}

func constVal(e ast.Expr, vals map[string]uint64) (uint64, bool) {
	switch e := e.(type) {
	case *ast.BasicLit:
		v, err := strconv.ParseUint(e.Value, 0, 64)
		return v, err == nil
	case *ast.Ident:
		v, ok := vals[e.Name]
		return v, ok
	}
	return 0, false
}

// a package-level `var name = T{ key: "sym", … }` map literal: (sym, key value)
func symMap(f *ast.File, name string, vals map[string]uint64) [][2]string {
	var out [][2]string
	for _, d := range f.Decls {
		gd, ok := d.(*ast.GenDecl)
		if !ok || gd.Tok != token.VAR {
			continue
		}
		for _, sp := range gd.Specs {
			vs := sp.(*ast.ValueSpec)
			if len(vs.Names) != 1 || vs.Names[0].Name != name || len(vs.Values) != 1 {
				continue
			}
			cl, ok := vs.Values[0].(*ast.CompositeLit)
			if !ok {
				die("%s is not a composite literal", name)
			}
			for _, el := range cl.Elts {
				kv, ok := el.(*ast.KeyValueExpr)
				if !ok {
					die("%s: element without key", name)
				}
				v, ok := constVal(kv.Key, vals)
				if !ok {
					die("%s: key %s is not a constant", name, src(kv.Key))
				}
				bl, ok := kv.Value.(*ast.BasicLit)
				if !ok {
					die("%s: value %s is not a string literal", name, src(kv.Value))
				}
				sym, _ := strconv.Unquote(bl.Value)
				out = append(out, [2]string{sym, strconv.FormatUint(v, 10)})
			}
			return out
		}
	}
	die("var %s not found", name)
	return nil
}

func main() {
	if len(os.Args) < 2 {
		fmt.Fprintln(os.Stderr, "usage: c16tables /repo")
		os.Exit(1)
	}
	repo := os.Args[1]
	var out strings.Builder
	fmt.Fprintf(&out, "/- generated by /verif/extract/c16tables from format/{msgpack,cbor,bencode,bson,json,asn1} of the repository — do not edit.\n")
	fmt.Fprintf(&out, "   Semantic facts (msgpack rows with normalised decode functions, constants by role) and the source texts the models were\n")
	fmt.Fprintf(&out, "   transliterated from (token lists).  A component that can no longer be extracted is emitted empty. -/\n")
	fmt.Fprintf(&out, "namespace FqModel.Gen.SerialTables\n\n")

	pairs := func(w func(string, ...any), ps [][2]string) {
		for i, p := range ps {
			sep := ","
			if i == len(ps)-1 {
				sep = ""
			}
			w("  (%s, %s)%s\n", leanStr(p[0]), p[1], sep)
		}
	}
	textDef := func(name string, get func() string) {
		section(&out, name, fmt.Sprintf("def %s : List String := []\n", name), func(w func(string, ...any)) {
			w("def %s : List String := %s\n\n", name, toks(get()))
		})
	}

	// ---- msgpack
	var mp *ast.File
	mpFile := func() *ast.File {
		if mp == nil {
			mp = parse(filepath.Join(repo, "format/msgpack/msgpack.go"))
		}
		return mp
	}
	section(&out, "msgpackRows", "def msgpackRows : List (Nat × Nat × String × List String) := []\n", func(w func(string, ...any)) {
		fn := funcDecl(mpFile(), "decodeMsgPackValue")
		lit, _ := findLit(fn, "formatEntries")
		w("/-- rows of the `formatEntries` literal: (lo, hi, symbol, normalised decode function) -/\ndef msgpackRows : List (Nat × Nat × String × List String) := [\n")
		for i, el := range lit.Elts {
			row, ok := el.(*ast.CompositeLit)
			if !ok {
				die("row %d is not a composite literal", i)
			}
			r, ok := field(row, "r").(*ast.CompositeLit)
			if !ok || len(r.Elts) != 2 {
				die("row %d: r is not a 2-element literal", i)
			}
			sep := ","
			if i == len(lit.Elts)-1 {
				sep = ""
			}
			w("  (%d, %d, %s, %s)%s\n", intLit(r.Elts[0]), intLit(r.Elts[1]), leanStr(symOf(field(row, "s"))), leanList(descOf(field(row, "d"))), sep)
		}
		w("]\n\n")
	})
	section(&out, "msgpackHelpers", "def msgpackHelpers : List (String × List String) := []\n", func(w func(string, ...any)) {
		fn := funcDecl(mpFile(), "decodeMsgPackValue")
		_, idx := findLit(fn, "formatEntries")
		w("/-- the closures defined before the table -/\ndef msgpackHelpers : List (String × List String) := [\n")
		first := true
		for _, st := range fn.Body.List[:idx] {
			as, ok := st.(*ast.AssignStmt)
			if !ok || len(as.Lhs) != 1 || len(as.Rhs) != 1 {
				die("unexpected statement before the table: %s", src(st))
			}
			if !first {
				w(",\n")
			}
			first = false
			w("  (%s, %s)", leanStr(src(as.Lhs[0])), toks(src(as.Rhs[0])))
		}
		w("\n]\n\n")
	})
	textDef("msgpackDispatch", func() string {
		fn := funcDecl(mpFile(), "decodeMsgPackValue")
		_, idx := findLit(fn, "formatEntries")
		var disp []string
		for _, st := range fn.Body.List[idx+1:] {
			disp = append(disp, src(st))
		}
		return strings.Join(disp, " ; ")
	})
	textDef("msgpackLookup", func() string { return src(funcDecl(mpFile(), "lookup").Body) })

	// ---- cbor
	var cb *ast.File
	cbFile := func() *ast.File {
		if cb == nil {
			cb = parse(filepath.Join(repo, "format/cbor/cbor.go"))
		}
		return cb
	}
	section(&out, "cborConsts", "def cborConsts : List (String × Nat) := []\n", func(w func(string, ...any)) {
		names, vals := constTable(cbFile())
		w("/-- integer constants of cbor.go, by identifier -/\ndef cborConsts : List (String × Nat) := [\n")
		var ps [][2]string
		for _, n := range names {
			ps = append(ps, [2]string{n, strconv.FormatUint(vals[n], 10)})
		}
		pairs(w, ps)
		w("]\n\n")
	})
	section(&out, "cborMajorBySym", "def cborMajorBySym : List (String × Nat) := []\n", func(w func(string, ...any)) {
		_, vals := constTable(cbFile())
		fn := funcDecl(cbFile(), "decodeCBORValue")
		lit, _ := findLit(fn, "majorTypeEntries")
		var ps [][2]string
		for i, el := range lit.Elts {
			kv, ok := el.(*ast.KeyValueExpr)
			if !ok {
				die("cbor row %d: not key: value", i)
			}
			row, ok := kv.Value.(*ast.CompositeLit)
			if !ok {
				die("cbor row %d: not a composite literal", i)
			}
			v, ok := constVal(kv.Key, vals)
			if !ok {
				die("cbor row %d: key is not a constant", i)
			}
			ps = append(ps, [2]string{symOf(field(row, "s")), strconv.FormatUint(v, 10)})
		}
		w("/-- major types by ROLE: (type symbol of the majorTypeEntries row, value of its key) -/\ndef cborMajorBySym : List (String × Nat) := [\n")
		pairs(w, ps)
		w("]\n\n")
	})
	section(&out, "cborShortCountBySym", "def cborShortCountBySym : List (String × Nat) := []\n", func(w func(string, ...any)) {
		_, vals := constTable(cbFile())
		w("/-- short counts by ROLE: (symbol in shortCountMap, value) -/\ndef cborShortCountBySym : List (String × Nat) := [\n")
		pairs(w, symMap(cbFile(), "shortCountMap", vals))
		w("]\n\n")
	})
	section(&out, "cborMajorTypes", "def cborMajorTypes : List (String × String × List String) := []\n", func(w func(string, ...any)) {
		fn := funcDecl(cbFile(), "decodeCBORValue")
		lit, _ := findLit(fn, "majorTypeEntries")
		w("/-- rows of the `majorTypeEntries` literal: (key constant, symbol, decode function text) -/\ndef cborMajorTypes : List (String × String × List String) := [\n")
		for i, el := range lit.Elts {
			kv, ok := el.(*ast.KeyValueExpr)
			if !ok {
				die("cbor row %d: not key: value", i)
			}
			row, ok := kv.Value.(*ast.CompositeLit)
			if !ok {
				die("cbor row %d: not a composite literal", i)
			}
			sep := ","
			if i == len(lit.Elts)-1 {
				sep = ""
			}
			w("  (%s, %s, %s)%s\n", leanStr(src(kv.Key)), leanStr(symOf(field(row, "s"))), toks(src(field(row, "d"))), sep)
		}
		w("]\n\n")
	})
	textDef("cborDispatch", func() string {
		fn := funcDecl(cbFile(), "decodeCBORValue")
		_, idx := findLit(fn, "majorTypeEntries")
		var disp []string
		for _, st := range fn.Body.List[idx+1:] {
			disp = append(disp, src(st))
		}
		return strings.Join(disp, " ; ")
	})

	// ---- bencode, bson, json, asn1_ber: function bodies
	body := func(file, fn string) func() string {
		return func() string { return src(funcDecl(parse(filepath.Join(repo, file)), fn).Body) }
	}
	textDef("bencodeStrIntUntil", body("format/bencode/bencode.go", "decodeStrIntUntil"))
	textDef("bencodeValue", body("format/bencode/bencode.go", "decodeBencodeValue"))
	textDef("bsonDocument", body("format/bson/bson.go", "decodeBSONDocument"))
	textDef("bsonDecode", body("format/bson/bson.go", "decodeBSON"))
	section(&out, "bsonConsts", "def bsonConsts : List (String × Nat) := []\n", func(w func(string, ...any)) {
		names, vals := constTable(parse(filepath.Join(repo, "format/bson/bson.go")))
		w("/-- element type constants of bson.go -/\ndef bsonConsts : List (String × Nat) := [\n")
		var ps [][2]string
		for _, n := range names {
			ps = append(ps, [2]string{n, strconv.FormatUint(vals[n], 10)})
		}
		pairs(w, ps)
		w("]\n\n")
	})
	textDef("jsonDecodeEx", body("format/json/json.go", "decodeJSONEx"))
	textDef("berDecodeLength", body("format/asn1/asn1_ber.go", "decodeLength"))
	textDef("berDecodeTagNumber", body("format/asn1/asn1_ber.go", "decodeTagNumber"))
	textDef("berValue", body("format/asn1/asn1_ber.go", "decodeASN1BERValue"))

	// ---- jq reducers, verbatim
	for _, j := range [][2]string{{"msgpackJq", "format/msgpack/msgpack.jq"}, {"cborJq", "format/cbor/cbor.jq"}, {"bencodeJq", "format/bencode/bencode.jq"}, {"bsonJq", "format/bson/bson.jq"}, {"berJq", "format/asn1/asn1_ber.jq"}} {
		j := j
		textDef(j[0], func() string {
			b, err := os.ReadFile(filepath.Join(repo, j[1]))
			if err != nil {
				die("%v", err)
			}
			return string(b)
		})
	}
	fmt.Fprintf(&out, "end FqModel.Gen.SerialTables\n")
	fmt.Print(out.String())
}
