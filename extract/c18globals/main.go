// c18globals: regenerated fact for C18 (DESIGN §20).
//
//	go run ./c18globals /repo  >  lean/FqModel/Gen/Globals.lean
//
// Type-checks EVERY package of the module rooted at the argument from source (go/parser +
// go/types; imports are resolved by this program itself: module packages from the tree,
// the standard library from GOROOT/src, third-party modules from the module cache at the
// versions of go.mod; dependencies are checked with IgnoreFuncBodies) and lists every
// place where a PACKAGE-LEVEL VARIABLE of the module is written inside a function body
// that is not the straight-line body of a package `init`:
//
//	assign   g = v / g, x = …            opassign  g += v           incdec   g++ / g--
//	index    g[k] = v (also g[k] op= v, g[k]++, nested g.f[k].h = v …: any l-value rooted in g
//	         that goes through an index)
//	field    g.f = v, *g = v, g.f.h++ …  (any other l-value rooted in g)
//	range    for g = range … / for g[k], g.f = range …
//	delete / clear / copy   builtin with an expression rooted in g as first argument
//	append   append(g…, …) whose result is NOT assigned back to an l-value rooted in the same
//	         variable (appending to spare capacity of a shared backing array)
//	addr     &g, &g.f, &g[i]  (address escapes; summarised per variable TYPE, see Gen.addrTaken)
//	ptrcall  g.M(…) / g.f.M(…) where M has a pointer receiver (may mutate g); the method is named
//
// `once` = the site is lexically inside a function literal passed directly to
// (sync.Once).Do.  Function literals are functions of their own: a literal inside `init`
// or inside a package-level initialiser is NOT exempt (it may run later, e.g. a DecodeFn).
//
// A second table closes the `addr` escape at type level: for every named struct type T such
// that the address of a package-level variable of type T is taken outside init
// (`&mp3FrameGroup` passed to d.FieldFormat …), EVERY assignment in the module to a field of
// a value of type T or *T — through any expression, not only through the global — is listed
// (Gen.typeWrites).  So "nobody writes a decode.Group after init" is a checked fact about all
// code of the module, not about the syntactic uses of the variable.
//
// Output is sorted and contains no line numbers in compared fields (they are in comments).
// Only the standard library is used.
package main

import (
	"bufio"
	"fmt"
	"go/ast"
	"go/build"
	"go/parser"
	"go/token"
	"go/types"
	"os"
	"path/filepath"
	"runtime"
	"sort"
	"strings"
	"unicode"
)

type loader struct {
	fset     *token.FileSet
	ctx      build.Context
	repo     string
	modpath  string
	goroot   string
	modcache string
	reqs     map[string]string // module path -> version
	pkgs     map[string]*types.Package
	loading  map[string]bool
	infos    map[string]*types.Info // module packages only, by dir
	files    map[string][]*ast.File
	depErrs  int
	modErrs  []string
	guarded  map[string]bool // named struct types of the module with a sync.Once/Mutex/RWMutex field
}

func escapeMod(p string) string {
	var b strings.Builder
	for _, r := range p {
		if unicode.IsUpper(r) {
			b.WriteByte('!')
			b.WriteRune(unicode.ToLower(r))
		} else {
			b.WriteRune(r)
		}
	}
	return b.String()
}

func (l *loader) readGoMod() {
	f, err := os.Open(filepath.Join(l.repo, "go.mod"))
	if err != nil {
		fatal("go.mod: %v", err)
	}
	defer f.Close()
	sc := bufio.NewScanner(f)
	inReq := false
	for sc.Scan() {
		line := strings.TrimSpace(sc.Text())
		if i := strings.Index(line, "//"); i >= 0 {
			line = strings.TrimSpace(line[:i])
		}
		if line == "" {
			continue
		}
		fs := strings.Fields(line)
		switch {
		case fs[0] == "module" && len(fs) >= 2:
			l.modpath = strings.Trim(fs[1], `"`)
		case fs[0] == "require" && len(fs) == 2 && fs[1] == "(":
			inReq = true
		case fs[0] == "require" && len(fs) >= 3:
			l.reqs[fs[1]] = fs[2]
		case fs[0] == ")":
			inReq = false
		case fs[0] == "replace":
			fatal("go.mod: replace directives are not supported by this extractor: %s", line)
		case inReq && len(fs) >= 2:
			l.reqs[fs[0]] = fs[1]
		}
	}
	if l.modpath == "" {
		fatal("go.mod: no module line")
	}
}

func isDir(p string) bool {
	st, err := os.Stat(p)
	return err == nil && st.IsDir()
}

func (l *loader) resolve(path, srcDir string) (string, error) {
	if path == l.modpath {
		return l.repo, nil
	}
	if strings.HasPrefix(path, l.modpath+"/") {
		return filepath.Join(l.repo, path[len(l.modpath)+1:]), nil
	}
	first := path
	if i := strings.Index(path, "/"); i >= 0 {
		first = path[:i]
	}
	fromStd := strings.HasPrefix(srcDir, l.goroot+string(filepath.Separator))
	if fromStd {
		if d := filepath.Join(l.goroot, "src", "vendor", path); isDir(d) {
			return d, nil
		}
	}
	if !strings.Contains(first, ".") {
		d := filepath.Join(l.goroot, "src", path)
		if isDir(d) {
			return d, nil
		}
		return "", fmt.Errorf("std package %q not found", path)
	}
	best := ""
	for m := range l.reqs {
		if (path == m || strings.HasPrefix(path, m+"/")) && len(m) > len(best) {
			best = m
		}
	}
	if best == "" {
		return "", fmt.Errorf("import %q: no module in go.mod provides it", path)
	}
	d := filepath.Join(l.modcache, escapeMod(best)+"@"+l.reqs[best], escapeMod(strings.TrimPrefix(path, best)))
	if !isDir(d) {
		return "", fmt.Errorf("import %q: %s missing from module cache", path, d)
	}
	return d, nil
}

func (l *loader) Import(path string) (*types.Package, error) { return l.ImportFrom(path, l.repo, 0) }

func (l *loader) ImportFrom(path, srcDir string, _ types.ImportMode) (*types.Package, error) {
	if path == "unsafe" {
		return types.Unsafe, nil
	}
	if path == "C" {
		return nil, fmt.Errorf("cgo not supported")
	}
	dir, err := l.resolve(path, srcDir)
	if err != nil {
		return nil, err
	}
	return l.load(dir, path)
}

func (l *loader) inModule(dir string) bool {
	return dir == l.repo || strings.HasPrefix(dir, l.repo+string(filepath.Separator))
}

func (l *loader) load(dir, path string) (*types.Package, error) {
	if p, ok := l.pkgs[dir]; ok {
		if p == nil {
			return nil, fmt.Errorf("package %s failed earlier", path)
		}
		return p, nil
	}
	if l.loading[dir] {
		return nil, fmt.Errorf("import cycle through %s", path)
	}
	l.loading[dir] = true
	defer delete(l.loading, dir)

	bp, err := l.ctx.ImportDir(dir, 0)
	if err != nil {
		if _, ok := err.(*build.NoGoError); !ok || bp == nil {
			l.pkgs[dir] = nil
			return nil, err
		}
	}
	mod := l.inModule(dir)
	var files []*ast.File
	names := append([]string{}, bp.GoFiles...)
	sort.Strings(names)
	for _, fn := range names {
		mode := parser.SkipObjectResolution
		if mod {
			mode |= parser.ParseComments
		}
		f, err := parser.ParseFile(l.fset, filepath.Join(dir, fn), nil, mode)
		if err != nil {
			l.pkgs[dir] = nil
			return nil, err
		}
		files = append(files, f)
	}
	if len(files) == 0 {
		l.pkgs[dir] = nil
		return nil, fmt.Errorf("no Go files in %s", dir)
	}
	cfg := types.Config{
		Importer:         l,
		IgnoreFuncBodies: !mod,
		FakeImportC:      true,
		Sizes:            types.SizesFor("gc", "amd64"),
		Error: func(err error) {
			if mod {
				l.modErrs = append(l.modErrs, err.Error())
			} else {
				l.depErrs++
			}
		},
	}
	var info *types.Info
	if mod {
		info = &types.Info{
			Types:      map[ast.Expr]types.TypeAndValue{},
			Defs:       map[*ast.Ident]types.Object{},
			Uses:       map[*ast.Ident]types.Object{},
			Selections: map[*ast.SelectorExpr]*types.Selection{},
		}
	}
	p, _ := cfg.Check(path, l.fset, files, info)
	l.pkgs[dir] = p
	if mod {
		l.infos[dir] = info
		l.files[dir] = files
	}
	return p, nil
}

func fatal(f string, a ...any) {
	fmt.Fprintf(os.Stderr, "c18globals: "+f+"\n", a...)
	os.Exit(2)
}

// ---------------------------------------------------------------- scan

type site struct {
	pkg, v, fn, kind string
	once             string // identity of the enclosing Once literal, "" if none
	loc              string
}

type addrSite struct {
	typ, use string // type of the variable, function in which the address is taken
	usePkg   string
	pkg, v   string
	loc      string
}

type typeWrite struct {
	typ, field, pkg, fn string
	once                string
	loc                 string
}

type scanner struct {
	l       *loader
	pkg     *types.Package
	info    *types.Info
	rel     string
	sites   []site
	addrs   []addrSite
	fwrites []typeWrite // all field writes (filtered later by addr-taken types)
	pcalls  []ptrCall
	refs    []funcRef
	ocalls  []otherCall
	cinits  []callInit
	guses   []guardedUse
	used    map[*types.Var]bool
	callPos map[*ast.Ident]string // identifiers in call position ("call") or passed to Once.Do (the Once identity)
	decls   []string              // declared functions "<pkg>.<fn>"
}

// otherCall: a method selected on an expression rooted in a package-level variable where the method
// does NOT have a pointer receiver: interface method (dynamic: may mutate whatever the interface
// holds) or value-receiver method (may mutate through maps/slices/pointers inside the value)
type otherCall struct {
	pkg, v, method, kind string // kind = iface | value
	once                 string
	fn, loc              string
}

// callInit: a package-level variable whose initialiser is a function call (not a literal/constant)
type callInit struct {
	pkg, v, typ, init string
	obj               *types.Var
	loc               string
}

// guardedUse: access (read or write, outside a Once literal, outside init) to a field of a struct type
// that owns a sync.Once / sync.Mutex / sync.RWMutex field
type guardedUse struct {
	typ, field, pkg, fn string
	loc                 string
}

// ptrCall: g.M(…) with a pointer-receiver method M on an expression rooted in the global g
type ptrCall struct {
	pkg, v, method string
	modType        bool // receiver type is declared in the module
	fn             string
	once           string
	loc            string
}

// funcRef: a reference (call or function value) to a function or method of the module
type funcRef struct {
	callee  string // "<pkg>.<fn>" in the naming of the tables
	pkg, fn string // where the reference is
	initCtx bool   // straight-line body of init / package-level initialiser
	once    string // inside this Once literal
	call    bool   // in call position (or the argument of Once.Do); false = the function value escapes
	loc     string
}

type fctx struct {
	name   string
	exempt bool   // straight-line body of init / package initialiser
	once   string // identity of the enclosing Once literal ("" = none)
}

func (s *scanner) relpkg(p *types.Package) string {
	if p == nil {
		return "?"
	}
	path := p.Path()
	if path == s.l.modpath {
		return "."
	}
	return strings.TrimPrefix(path, s.l.modpath+"/") // dependencies keep their full import path
}

func (s *scanner) loc(n ast.Node) string {
	p := s.l.fset.Position(n.Pos())
	r, _ := filepath.Rel(s.l.repo, p.Filename)
	return fmt.Sprintf("%s:%d", r, p.Line)
}

// globalOf returns the package-level variable (of a module package) an identifier or a
// qualified identifier denotes.
func (s *scanner) globalOf(e ast.Expr) *types.Var {
	var id *ast.Ident
	switch x := e.(type) {
	case *ast.Ident:
		id = x
	case *ast.SelectorExpr:
		if xi, ok := x.X.(*ast.Ident); ok {
			if _, isPkg := s.info.Uses[xi].(*types.PkgName); isPkg {
				id = x.Sel
			}
		}
	}
	if id == nil {
		return nil
	}
	v, ok := s.info.Uses[id].(*types.Var)
	if !ok || v.Pkg() == nil || v.IsField() {
		return nil
	}
	if v.Parent() != v.Pkg().Scope() {
		return nil
	}
	return v // also variables of dependencies (os.Args, …): process-wide state all the same
}

// root walks an l-value / operand down to the variable it is rooted in.
// viaIndex reports whether an index/slice step was passed.
func (s *scanner) root(e ast.Expr) (v *types.Var, viaIndex bool, direct bool) {
	direct = true
	for {
		if g := s.globalOf(e); g != nil {
			return g, viaIndex, direct
		}
		switch x := e.(type) {
		case *ast.ParenExpr:
			e = x.X
		case *ast.IndexExpr:
			e, viaIndex, direct = x.X, true, false
		case *ast.IndexListExpr:
			e, viaIndex, direct = x.X, true, false
		case *ast.SliceExpr:
			e, viaIndex, direct = x.X, true, false
		case *ast.StarExpr:
			e, direct = x.X, false
		case *ast.SelectorExpr:
			e, direct = x.X, false
		case *ast.TypeAssertExpr:
			e, direct = x.X, false
		default:
			return nil, false, false
		}
	}
}

func (s *scanner) varName(v *types.Var) (pkg, name string) {
	return s.relpkg(v.Pkg()), v.Name()
}

func (s *scanner) add(c fctx, v *types.Var, kind string, n ast.Node) {
	if c.exempt {
		return
	}
	vp, vn := s.varName(v)
	name := vn
	if vp != s.rel {
		name = vp + "." + vn // written from another package
	}
	s.sites = append(s.sites, site{pkg: s.rel, v: name, fn: c.name, kind: kind, once: c.once, loc: s.loc(n)})
}

func (l *loader) isModPath(p string) bool {
	return p == l.modpath || strings.HasPrefix(p, l.modpath+"/")
}

// funcName names a function object the way scanFile names declarations: F, (T).M, (*T).M
func funcName(f *types.Func) string {
	f = f.Origin()
	sig, _ := f.Type().(*types.Signature)
	if sig == nil || sig.Recv() == nil {
		return f.Name()
	}
	t := sig.Recv().Type()
	star := ""
	if p, ok := t.(*types.Pointer); ok {
		t, star = p.Elem(), "*"
	}
	if nt := namedOf(t); nt != nil {
		return "(" + star + nt.Obj().Name() + ")." + f.Name()
	}
	return "(?)." + f.Name()
}

func namedOf(t types.Type) *types.Named {
	for {
		switch x := t.(type) {
		case *types.Pointer:
			t = x.Elem()
		case *types.Named:
			return x
		case *types.Alias:
			t = types.Unalias(x)
		default:
			return nil
		}
	}
}

func typeString(t types.Type) string {
	return types.TypeString(t, func(p *types.Package) string { return p.Path() })
}

// typeLvalue feeds the type-level table: every field selection `x.f` on the path of an l-value
// (`x.f = v`, `x.f[k] = v`, `x.f.g++`, `*x.f = v` …) is a write to field f of x's named type.
func (s *scanner) typeLvalue(c fctx, e ast.Expr, n ast.Node) {
	if c.exempt {
		return
	}
	for {
		switch x := e.(type) {
		case *ast.ParenExpr:
			e = x.X
		case *ast.IndexExpr:
			e = x.X
		case *ast.IndexListExpr:
			e = x.X
		case *ast.SliceExpr:
			e = x.X
		case *ast.StarExpr:
			e = x.X
		case *ast.TypeAssertExpr:
			e = x.X
		case *ast.SelectorExpr:
			if se := s.info.Selections[x]; se != nil && se.Kind() == types.FieldVal {
				if nt := namedOf(se.Recv()); nt != nil {
					s.fwrites = append(s.fwrites, typeWrite{typ: typeString(nt), field: x.Sel.Name, pkg: s.rel, fn: c.name, once: c.once, loc: s.loc(n)})
				}
			}
			e = x.X
		default:
			return
		}
	}
}

func (s *scanner) lvalue(c fctx, e ast.Expr, simple string, n ast.Node) {
	s.typeLvalue(c, e, n)
	v, viaIndex, direct := s.root(e)
	if v == nil {
		return
	}
	kind := simple
	if !direct {
		kind = "field"
		if viaIndex {
			kind = "index"
		}
	}
	s.add(c, v, kind, n)
}

func (s *scanner) isBuiltin(f ast.Expr, name string) bool {
	id, ok := ast.Unparen(f).(*ast.Ident)
	if !ok || id.Name != name {
		return false
	}
	_, ok = s.info.Uses[id].(*types.Builtin)
	return ok
}

// calleeIdent: the identifier that names the function in `f(…)`, `p.f(…)`, `x.m(…)`, `f[T](…)`
func calleeIdent(e ast.Expr) *ast.Ident {
	switch x := ast.Unparen(e).(type) {
	case *ast.Ident:
		return x
	case *ast.SelectorExpr:
		return x.Sel
	case *ast.IndexExpr:
		return calleeIdent(x.X)
	case *ast.IndexListExpr:
		return calleeIdent(x.X)
	}
	return nil
}

// onceID names the sync.Once of `X.Do(…)`: "<pkg>.<var>" for a package-level Once, "<type>.<field>" for a
// Once that is a struct field, "?" otherwise
func (s *scanner) onceID(call *ast.CallExpr) string {
	sel := call.Fun.(*ast.SelectorExpr)
	if g := s.globalOf(sel.X); g != nil {
		vp, vn := s.varName(g)
		return vp + "." + vn
	}
	if fs, ok := ast.Unparen(sel.X).(*ast.SelectorExpr); ok {
		if se := s.info.Selections[fs]; se != nil && se.Kind() == types.FieldVal {
			if nt := namedOf(se.Recv()); nt != nil {
				return typeString(nt) + "." + fs.Sel.Name
			}
		}
	}
	return "?"
}

func (s *scanner) isOnceDo(call *ast.CallExpr) bool {
	sel, ok := call.Fun.(*ast.SelectorExpr)
	if !ok || sel.Sel.Name != "Do" {
		return false
	}
	se := s.info.Selections[sel]
	if se == nil {
		return false
	}
	nt := namedOf(se.Recv())
	return nt != nil && nt.Obj().Pkg() != nil && nt.Obj().Pkg().Path() == "sync" && nt.Obj().Name() == "Once"
}

func (s *scanner) walk(c fctx, n ast.Node, assignedRoots map[*ast.CallExpr]*types.Var) {
	if n == nil {
		return
	}
	ast.Inspect(n, func(n ast.Node) bool {
		switch x := n.(type) {
		case *ast.Ident:
			if v, ok := s.info.Uses[x].(*types.Var); ok && !c.exempt && v.Pkg() != nil && !v.IsField() && v.Parent() == v.Pkg().Scope() {
				s.used[v] = true
			}
			if f, ok := s.info.Uses[x].(*types.Func); ok && f.Pkg() != nil && s.l.isModPath(f.Pkg().Path()) {
				r := funcRef{callee: s.relpkg(f.Pkg()) + "." + funcName(f), pkg: s.rel, fn: c.name, initCtx: c.exempt, once: c.once, loc: s.loc(x)}
				switch cp := s.callPos[x]; cp {
				case "":
				case "call":
					r.call = true
				default: // argument of Once.Do
					r.call, r.once, r.initCtx = true, cp, false
				}
				s.refs = append(s.refs, r)
			}
		case *ast.SelectorExpr:
			s.selector(c, x)
		case *ast.FuncLit:
			s.walk(fctx{name: c.name + ".func", exempt: false, once: c.once}, x.Body, assignedRoots)
			return false
		case *ast.AssignStmt:
			if x.Tok != token.DEFINE {
				simple := "assign"
				if x.Tok != token.ASSIGN {
					simple = "opassign"
				}
				for i, lhs := range x.Lhs {
					s.lvalue(c, lhs, simple, x)
					// g = append(g, …): the append itself is covered by the assignment
					if len(x.Lhs) == len(x.Rhs) {
						if call, ok := ast.Unparen(x.Rhs[i]).(*ast.CallExpr); ok && s.isBuiltin(call.Fun, "append") {
							if v, _, _ := s.root(lhs); v != nil {
								assignedRoots[call] = v
							}
						}
					}
				}
			}
		case *ast.IncDecStmt:
			s.lvalue(c, x.X, "incdec", x)
		case *ast.RangeStmt:
			if x.Tok == token.ASSIGN {
				if x.Key != nil {
					s.lvalue(c, x.Key, "range", x)
				}
				if x.Value != nil {
					s.lvalue(c, x.Value, "range", x)
				}
			}
		case *ast.UnaryExpr:
			if x.Op == token.AND {
				if v, _, _ := s.root(x.X); v != nil && !c.exempt {
					vp, vn := s.varName(v)
					s.addrs = append(s.addrs, addrSite{typ: typeString(v.Type()), usePkg: s.rel, pkg: vp, v: vn, loc: s.loc(x), use: c.name})
				}
			}
		case *ast.CallExpr:
			if id := calleeIdent(x.Fun); id != nil {
				s.callPos[id] = "call"
			}
			if s.isOnceDo(x) && len(x.Args) == 1 {
				id := s.onceID(x)
				if fl, ok := x.Args[0].(*ast.FuncLit); ok {
					// receiver expression is still scanned (ptrcall on a global Once is not a data write)
					s.walk(fctx{name: c.name + ".func", exempt: false, once: id}, fl.Body, assignedRoots)
					return false
				}
				if ai := calleeIdent(x.Args[0]); ai != nil {
					s.callPos[ai] = id // Once.Do(namedFunction)
				}
			}
			for _, b := range []string{"delete", "clear", "copy"} {
				if s.isBuiltin(x.Fun, b) && len(x.Args) > 0 {
					s.typeLvalue(c, x.Args[0], x)
					if v, _, _ := s.root(x.Args[0]); v != nil {
						s.add(c, v, b, x)
					}
				}
			}
			if s.isBuiltin(x.Fun, "append") && len(x.Args) > 0 {
				if v, _, _ := s.root(x.Args[0]); v != nil && assignedRoots[x] != v {
					s.add(c, v, "append", x)
				}
			}
		}
		return true
	})
}

// selector: method selections (called or taken as a method value) on expressions rooted in a
// package-level variable, and accesses to fields of lock-owning struct types
func (s *scanner) selector(c fctx, sel *ast.SelectorExpr) {
	se := s.info.Selections[sel]
	if se == nil || c.exempt {
		return
	}
	switch se.Kind() {
	case types.FieldVal:
		if nt := namedOf(se.Recv()); nt != nil && s.l.guarded[typeString(nt)] && c.once == "" {
			s.guses = append(s.guses, guardedUse{typ: typeString(nt), field: sel.Sel.Name, pkg: s.rel, fn: c.name, loc: s.loc(sel)})
		}
	case types.MethodVal:
		fn, ok := se.Obj().(*types.Func)
		if !ok {
			return
		}
		v, _, _ := s.root(sel.X)
		if v == nil {
			return
		}
		vp, vn := s.varName(v)
		name := vn
		if vp != s.rel {
			name = vp + "." + vn
		}
		sig := fn.Type().(*types.Signature)
		if sig.Recv() == nil {
			return
		}
		rt := sig.Recv().Type()
		if _, isPtr := rt.(*types.Pointer); isPtr {
			nt := namedOf(rt)
			mod := nt != nil && nt.Obj().Pkg() != nil && s.l.isModPath(nt.Obj().Pkg().Path())
			s.pcalls = append(s.pcalls, ptrCall{pkg: s.rel, v: name, method: typeString(rt) + "." + fn.Name(),
				modType: mod, fn: c.name, once: c.once, loc: s.loc(sel)})
			return
		}
		kind := "value"
		recv := typeString(rt)
		if types.IsInterface(se.Recv()) || types.IsInterface(rt) {
			kind = "iface"
			recv = typeString(se.Recv())
		}
		s.ocalls = append(s.ocalls, otherCall{pkg: s.rel, v: name, method: recv + "." + fn.Name(), kind: kind, once: c.once, fn: c.name, loc: s.loc(sel)})
	}
}

func (s *scanner) scanFile(f *ast.File) {
	for _, d := range f.Decls {
		switch x := d.(type) {
		case *ast.FuncDecl:
			if x.Body == nil {
				continue
			}
			name := x.Name.Name
			if x.Recv != nil && len(x.Recv.List) == 1 {
				t := x.Recv.List[0].Type
				star := ""
				if st, ok := t.(*ast.StarExpr); ok {
					t, star = st.X, "*"
				}
				if ix, ok := t.(*ast.IndexExpr); ok {
					t = ix.X
				}
				if ix, ok := t.(*ast.IndexListExpr); ok {
					t = ix.X
				}
				if id, ok := t.(*ast.Ident); ok {
					name = "(" + star + id.Name + ")." + name
				}
			}
			exempt := x.Recv == nil && x.Name.Name == "init"
			s.decls = append(s.decls, s.rel+"."+name)
			s.walk(fctx{name: name, exempt: exempt}, x.Body, map[*ast.CallExpr]*types.Var{})
		case *ast.GenDecl:
			if x.Tok != token.VAR {
				continue
			}
			for _, sp := range x.Specs {
				vs := sp.(*ast.ValueSpec)
				nm := "_"
				if len(vs.Names) > 0 {
					nm = vs.Names[0].Name
				}
				for _, val := range vs.Values {
					s.walk(fctx{name: "var " + nm, exempt: true}, val, map[*ast.CallExpr]*types.Var{})
				}
				for i, id := range vs.Names {
					if id.Name == "_" || len(vs.Values) == 0 {
						continue
					}
					val := vs.Values[0]
					if len(vs.Values) == len(vs.Names) {
						val = vs.Values[i]
					}
					call, ok := ast.Unparen(val).(*ast.CallExpr)
					if !ok {
						continue
					}
					if tv, ok := s.info.Types[call.Fun]; ok && tv.IsType() {
						continue // conversion T(x)
					}
					obj, _ := s.info.Defs[id].(*types.Var)
					if obj == nil {
						continue
					}
					s.cinits = append(s.cinits, callInit{pkg: s.rel, v: id.Name, typ: typeString(obj.Type()), init: exprString(call.Fun), obj: obj, loc: s.loc(id)})
				}
			}
		}
	}
}

func exprString(e ast.Expr) string {
	switch x := e.(type) {
	case *ast.Ident:
		return x.Name
	case *ast.SelectorExpr:
		return exprString(x.X) + "." + x.Sel.Name
	case *ast.ParenExpr:
		return exprString(x.X)
	case *ast.IndexExpr:
		return exprString(x.X) + "[…]"
	case *ast.IndexListExpr:
		return exprString(x.X) + "[…]"
	case *ast.CallExpr:
		return exprString(x.Fun) + "(…)"
	case *ast.FuncLit:
		return "func"
	}
	return "?"
}

func q(s string) string {
	return `"` + strings.NewReplacer(`\`, `\\`, `"`, `\"`).Replace(s) + `"`
}

func main() {
	if len(os.Args) < 2 {
		fatal("usage: c18globals <repo>")
	}
	repo, err := filepath.Abs(os.Args[1])
	if err != nil {
		fatal("%v", err)
	}
	if r, err := filepath.EvalSymlinks(repo); err == nil {
		repo = r
	}
	ctx := build.Default
	ctx.CgoEnabled = false
	ctx.GOOS, ctx.GOARCH = "linux", "amd64"
	ctx.BuildTags = nil
	goroot := runtime.GOROOT()
	if e := os.Getenv("GOROOT"); e != "" {
		goroot = e
	}
	if r, err := filepath.EvalSymlinks(goroot); err == nil {
		goroot = r
	}
	ctx.GOROOT = goroot
	modcache := os.Getenv("GOMODCACHE")
	if modcache == "" {
		gp := ctx.GOPATH
		if i := strings.IndexByte(gp, filepath.ListSeparator); i >= 0 {
			gp = gp[:i]
		}
		modcache = filepath.Join(gp, "pkg", "mod")
	}
	l := &loader{fset: token.NewFileSet(), ctx: ctx, repo: repo, goroot: goroot, modcache: modcache,
		reqs: map[string]string{}, pkgs: map[string]*types.Package{}, loading: map[string]bool{},
		infos: map[string]*types.Info{}, files: map[string][]*ast.File{}}
	l.readGoMod()

	// every package directory of the module
	var dirs []string
	var skippedFiles []string
	err = filepath.WalkDir(repo, func(p string, d os.DirEntry, err error) error {
		if err != nil {
			return err
		}
		if !d.IsDir() {
			return nil
		}
		b := d.Name()
		if p != repo && (strings.HasPrefix(b, ".") || strings.HasPrefix(b, "_") || b == "testdata" || b == "vendor") {
			return filepath.SkipDir
		}
		if p != repo {
			if _, err := os.Stat(filepath.Join(p, "go.mod")); err == nil {
				return filepath.SkipDir
			}
		}
		bp, err := ctx.ImportDir(p, 0)
		if bp != nil {
			for _, f := range bp.IgnoredGoFiles {
				if !strings.HasSuffix(f, "_test.go") {
					r, _ := filepath.Rel(repo, filepath.Join(p, f))
					skippedFiles = append(skippedFiles, r)
				}
			}
		}
		if err != nil {
			if _, ok := err.(*build.NoGoError); ok {
				return nil
			}
			if _, ok := err.(*build.MultiplePackageError); !ok {
				return nil
			}
		}
		if bp != nil && len(bp.GoFiles) > 0 {
			dirs = append(dirs, p)
		}
		return nil
	})
	if err != nil {
		fatal("walk: %v", err)
	}
	sort.Strings(dirs)
	var all []site
	var addrs []addrSite
	var fwrites []typeWrite
	var pcalls []ptrCall
	var refs []funcRef
	imports := map[string][]string{} // rel -> rel of imported module packages
	npk, nfiles, nfuncs := 0, 0, 0
	var rels []string
	type lp struct {
		dir, rel string
		p        *types.Package
	}
	var loaded []lp
	for _, dir := range dirs {
		rel, _ := filepath.Rel(repo, dir)
		rel = filepath.ToSlash(rel)
		if strings.HasPrefix(rel, "internal/verifharness") {
			continue // the harness overlay never exists on disk; a stale scratch copy must not be scanned
		}
		path := l.modpath
		if rel != "." {
			path += "/" + rel
		}
		p, err := l.load(dir, path)
		if err != nil || p == nil {
			fatal("package %s: %v", path, err)
		}
		loaded = append(loaded, lp{dir, rel, p})
	}
	// lock-owning struct types
	l.guarded = map[string]bool{}
	isSync := func(t types.Type) bool {
		nt, ok := types.Unalias(t).(*types.Named)
		if !ok || nt.Obj().Pkg() == nil || nt.Obj().Pkg().Path() != "sync" {
			return false
		}
		switch nt.Obj().Name() {
		case "Once", "Mutex", "RWMutex":
			return true
		}
		return false
	}
	for _, x := range loaded {
		sc := x.p.Scope()
		for _, n := range sc.Names() {
			tn, ok := sc.Lookup(n).(*types.TypeName)
			if !ok {
				continue
			}
			st, ok := tn.Type().Underlying().(*types.Struct)
			if !ok {
				continue
			}
			for i := 0; i < st.NumFields(); i++ {
				if isSync(st.Field(i).Type()) {
					l.guarded[typeString(tn.Type())] = true
				}
			}
		}
	}
	var ocalls []otherCall
	var cinits []callInit
	var guses []guardedUse
	var decls []string
	used := map[*types.Var]bool{}
	for _, x := range loaded {
		dir, rel, p := x.dir, x.rel, x.p
		npk++
		rels = append(rels, rel)
		s := &scanner{l: l, pkg: p, info: l.infos[dir], rel: rel, used: used, callPos: map[*ast.Ident]string{}}
		for _, imp := range p.Imports() {
			if l.isModPath(imp.Path()) {
				imports[rel] = append(imports[rel], s.relpkg(imp))
			}
		}
		for _, f := range l.files[dir] {
			nfiles++
			for _, d := range f.Decls {
				if _, ok := d.(*ast.FuncDecl); ok {
					nfuncs++
				}
			}
			s.scanFile(f)
		}
		all = append(all, s.sites...)
		addrs = append(addrs, s.addrs...)
		fwrites = append(fwrites, s.fwrites...)
		pcalls = append(pcalls, s.pcalls...)
		refs = append(refs, s.refs...)
		ocalls = append(ocalls, s.ocalls...)
		cinits = append(cinits, s.cinits...)
		guses = append(guses, s.guses...)
		decls = append(decls, s.decls...)
	}
	if len(l.modErrs) > 0 {
		for i, e := range l.modErrs {
			if i < 20 {
				fmt.Fprintln(os.Stderr, e)
			}
		}
		fatal("%d type errors in module packages: the scan would be unsound", len(l.modErrs))
	}

	// packages linked into the fq binary = reachable from the module's root package (fq.go)
	linked := map[string]bool{}
	var visit func(string)
	visit = func(r string) {
		if linked[r] {
			return
		}
		linked[r] = true
		for _, i := range imports[r] {
			visit(i)
		}
	}
	if _, ok := l.pkgs[repo]; !ok {
		fatal("module root %s is not a package", repo)
	}
	if l.pkgs[repo].Name() != "main" {
		fatal("module root package is %q, expected main", l.pkgs[repo].Name())
	}
	visit(".")
	var unlinked []string
	for _, r := range rels {
		if !linked[r] {
			unlinked = append(unlinked, r)
		}
	}
	sort.Strings(unlinked)

	// ---- when can a function run?  (one call graph over the type-checked module)
	//
	// guard(F) = set of guards under which F can be entered:
	//   "init"       a call from the straight-line body of an init function / a package-level initialiser
	//   "once:<id>"  a call from inside the literal passed to <id>.Do, or `<id>.Do(F)`
	//   guards of G  a call from the straight-line body of a function G (not from a function literal in G)
	//   "run"        anything else: F has no caller in the module (entry point, exported API, method reached
	//                through an interface), F is used as a function VALUE anywhere (it escapes and may be
	//                called later, e.g. `DecodeFn: mp3Decode` in an init), or it is called from a function
	//                literal that is not a Once argument (the literal may be stored and run later)
	// "run" absorbs everything.  Greatest fixed point, so that mutually recursive helpers inherit the guards
	// of their entries.
	top := func(fn string) string {
		for strings.HasSuffix(fn, ".func") {
			fn = strings.TrimSuffix(fn, ".func")
		}
		return fn
	}
	const RUN = "run"
	type gs map[string]bool
	callersOf := map[string][]funcRef{}
	escaped := map[string]bool{}
	for _, r := range refs {
		if !linked[r.pkg] {
			continue
		}
		if r.call {
			callersOf[r.callee] = append(callersOf[r.callee], r)
		} else {
			escaped[r.callee] = true
		}
	}
	state := map[string]gs{} // absent = not yet known
	// a plain function (no receiver) that nothing in the linked module refers to cannot run in the fq
	// binary at all ("unref": exported API without a user); a method may still be reached through an interface
	for _, d := range decls {
		name := d[strings.LastIndex(d, "/")+1:]
		isMethod := strings.Contains(name, ").")
		isEntry := strings.HasSuffix(d, ".main") || strings.HasSuffix(d, ".init")
		switch {
		case escaped[d]:
			state[d] = gs{RUN: true}
		case len(callersOf[d]) == 0 && !isMethod && !isEntry:
			state[d] = gs{"unref": true}
		case len(callersOf[d]) == 0:
			state[d] = gs{RUN: true}
		}
	}
	for changed := true; changed; {
		changed = false
		for _, d := range decls {
			if state[d][RUN] || len(callersOf[d]) == 0 {
				continue
			}
			g := gs{}
			for _, r := range callersOf[d] {
				switch {
				case r.once != "":
					g["once:"+r.once] = true
				case r.initCtx:
					g["init"] = true
				case strings.HasSuffix(r.fn, ".func"):
					g[RUN] = true
				default:
					for k := range state[r.pkg+"."+r.fn] {
						g[k] = true
					}
				}
			}
			if g[RUN] {
				g = gs{RUN: true}
			}
			if len(g) != len(state[d]) {
				state[d] = g
				changed = true
			}
		}
	}
	guardOf := func(pkg, fn, once string) string {
		if once != "" {
			return "once:" + once
		}
		if strings.HasSuffix(fn, ".func") {
			return RUN
		}
		g := state[pkg+"."+top(fn)]
		if len(g) == 0 || g[RUN] {
			return RUN
		}
		var ks []string
		for k := range g {
			if k != "unref" || len(g) == 1 {
				ks = append(ks, k)
			}
		}
		sort.Strings(ks)
		return strings.Join(ks, "+")
	}
	// a guarded site is compared without the function it stands in: helper extraction, renaming and
	// reordering of init-time / Once-time code do not change the fact
	fnOf := func(guard, fn string) string {
		if guard == RUN {
			return fn
		}
		return ""
	}

	w := bufio.NewWriter(os.Stdout)
	defer w.Flush()
	sep := func(i, n int) string {
		if i == n-1 {
			return ""
		}
		return ","
	}
	trunc := func(ls []string) string {
		sort.Strings(ls)
		if len(ls) > 6 {
			return strings.Join(ls[:6], " ") + fmt.Sprintf(" … (%d sites)", len(ls))
		}
		return strings.Join(ls, " ")
	}
	// generic table writer: rows = tuples of strings, comment per row
	table := func(rows map[string][]string, fields int) {
		var ks []string
		for k := range rows {
			ks = append(ks, k)
		}
		sort.Strings(ks)
		for i, k := range ks {
			fs := strings.Split(k, "\x00")
			var qs []string
			for _, f := range fs[:fields] {
				qs = append(qs, q(f))
			}
			fmt.Fprintf(w, "  ⟨%s⟩%s  -- %s\n", strings.Join(qs, ", "), sep(i, len(ks)), trunc(rows[k]))
		}
	}
	key := func(fs ...string) string { return strings.Join(fs, "\x00") }

	fmt.Fprintf(w, "/-! GENERATED by /verif/extract/c18globals from the working tree of the repository — do not edit.\n")
	fmt.Fprintf(w, "    module %s: %d packages (%d linked into the fq binary), %d files, %d function declarations,\n", l.modpath, npk, len(linked), nfiles, nfuncs)
	fmt.Fprintf(w, "    type-checked from source (default build configuration linux/amd64, no tags, no cgo;\n")
	fmt.Fprintf(w, "    %d type errors tolerated in dependencies, none in the module).\n", l.depErrs)
	sort.Strings(skippedFiles)
	fmt.Fprintf(w, "    Non-test files excluded by build constraints (NOT scanned): %s\n", strings.Join(skippedFiles, " "))
	fmt.Fprintf(w, "    Line numbers and the functions of guarded sites appear in comments only.\n\n")
	fmt.Fprintf(w, "    `guard` = when the site can execute, from the call graph of the type-checked module:\n")
	fmt.Fprintf(w, "      init        only from straight-line init bodies / package-level initialisers (before main)\n")
	fmt.Fprintf(w, "      once:<id>   only inside the literal passed to <id>.Do or in functions called only from there\n")
	fmt.Fprintf(w, "      a+b         either\n")
	fmt.Fprintf(w, "      unref       never: a plain function that nothing in the linked module refers to\n")
	fmt.Fprintf(w, "      run         at any time (the function is an entry point, escapes as a value, or is called from a\n")
	fmt.Fprintf(w, "                  function literal that is not a Once argument); only then `fn` names the function -/\n")
	fmt.Fprintf(w, "namespace FqModel.Gen\n\n")

	// ---- writes
	rows := map[string][]string{}
	for _, x := range all {
		if linked[x.pkg] {
			g := guardOf(x.pkg, x.fn, x.once)
			k := key(x.pkg, x.v, fnOf(g, x.fn), x.kind, g)
			rows[k] = append(rows[k], x.fn+"@"+x.loc)
		}
	}
	fmt.Fprintf(w, "/-- a write to a package-level variable inside a function body other than the straight-line body of `init` -/\n")
	fmt.Fprintf(w, "structure GlobalWrite where\n  pkg : String\n  var : String\n  fn : String\n  kind : String\n  guard : String\nderiving DecidableEq, Repr\n\n")
	fmt.Fprintf(w, "def writes : List GlobalWrite := [\n")
	table(rows, 5)
	fmt.Fprintf(w, "]\n\n")

	// ---- pointer-receiver method selections
	rows = map[string][]string{}
	for _, c := range pcalls {
		if linked[c.pkg] {
			g := guardOf(c.pkg, c.fn, c.once)
			k := key(c.pkg, c.v, c.method, g)
			rows[k] = append(rows[k], c.fn+"@"+c.loc)
		}
	}
	fmt.Fprintf(w, "/-- `g.M` / `g.f.M` / `g[i].M` (called or taken as a value) on a package-level variable g where M has a pointer receiver -/\n")
	fmt.Fprintf(w, "structure PtrCall where\n  pkg : String\n  var : String\n  method : String\n  guard : String\nderiving DecidableEq, Repr\n\n")
	fmt.Fprintf(w, "def ptrCalls : List PtrCall := [\n")
	table(rows, 4)
	fmt.Fprintf(w, "]\n\n")

	// ---- interface / value-receiver method selections
	rows = map[string][]string{}
	for _, c := range ocalls {
		if linked[c.pkg] {
			g := guardOf(c.pkg, c.fn, c.once)
			k := key(c.pkg, c.v, c.method, c.kind, g)
			rows[k] = append(rows[k], c.fn+"@"+c.loc)
		}
	}
	fmt.Fprintf(w, "/-- a method selected (called or taken as a value) on an expression rooted in a package-level variable where\n    the method has NO pointer receiver: `iface` = interface method (dynamic dispatch: may mutate what the interface\n    holds), `value` = value-receiver method (may mutate through maps/slices/pointers inside the value) -/\n")
	fmt.Fprintf(w, "structure OtherCall where\n  pkg : String\n  var : String\n  method : String\n  kind : String\n  guard : String\nderiving DecidableEq, Repr\n\n")
	fmt.Fprintf(w, "def otherCalls : List OtherCall := [\n")
	table(rows, 5)
	fmt.Fprintf(w, "]\n\n")

	// ---- call-initialised package-level variables used in function bodies
	rows = map[string][]string{}
	for _, c := range cinits {
		if linked[c.pkg] && used[c.obj] {
			rows[key(c.pkg, c.v, c.typ, c.init)] = []string{c.loc}
		}
	}
	fmt.Fprintf(w, "/-- package-level variables of the linked packages whose initialiser is a function call (not a literal or a\n    constant) and that are used inside a function body other than init: possibly stateful objects -/\n")
	fmt.Fprintf(w, "structure CallInit where\n  pkg : String\n  var : String\n  typ : String\n  init : String\nderiving DecidableEq, Repr\n\n")
	fmt.Fprintf(w, "def callInitVars : List CallInit := [\n")
	table(rows, 4)
	fmt.Fprintf(w, "]\n\n")

	// ---- address-taken: per variable type
	acount := map[string]int{}
	aex := map[string][]string{}
	avars := map[string]map[string]bool{}
	for _, a := range addrs {
		if !linked[a.usePkg] {
			continue
		}
		acount[a.typ]++
		if len(aex[a.typ]) < 3 {
			aex[a.typ] = append(aex[a.typ], a.pkg+"."+a.v+" @"+a.loc)
		}
		if avars[a.typ] == nil {
			avars[a.typ] = map[string]bool{}
		}
		avars[a.typ][a.pkg+"."+a.v] = true
	}
	atyps := make([]string, 0, len(acount))
	for t := range acount {
		atyps = append(atyps, t)
	}
	sort.Strings(atyps)
	fmt.Fprintf(w, "/-- types of the package-level variables whose address is taken outside init (`&g`, `&g.f`, `&g[i]`) -/\n")
	fmt.Fprintf(w, "def addrTakenTypes : List String := [\n")
	for i, t := range atyps {
		fmt.Fprintf(w, "  %s%s  -- %d sites, %d variables, e.g. %s\n", q(t), sep(i, len(atyps)), acount[t], len(avars[t]), strings.Join(aex[t], " "))
	}
	fmt.Fprintf(w, "]\n\n")

	// ---- field writes to the address-taken types and the types named on the command line
	isShared := map[string]bool{}
	for _, t := range atyps {
		isShared[strings.TrimLeft(t, "*")] = true
	}
	extraTypes := os.Args[2:]
	for _, t := range extraTypes {
		isShared[t] = true
	}
	fmt.Fprintf(w, "/-- further types shared through the registry (arguments of the extractor) -/\n")
	fmt.Fprintf(w, "def extraSharedTypes : List String := [")
	for i, t := range extraTypes {
		if i > 0 {
			fmt.Fprintf(w, ", ")
		}
		fmt.Fprintf(w, "%s", q(t))
	}
	fmt.Fprintf(w, "]\n\n")
	rows = map[string][]string{}
	for _, x := range fwrites {
		if isShared[x.typ] && linked[x.pkg] {
			g := guardOf(x.pkg, x.fn, x.once)
			pk := x.pkg
			if g != RUN {
				pk = ""
			}
			k := key(x.typ, x.field, pk, fnOf(g, x.fn), g)
			rows[k] = append(rows[k], x.pkg+"."+x.fn+"@"+x.loc)
		}
	}
	fmt.Fprintf(w, "/-- an assignment (or delete/clear/copy), anywhere in the linked module code outside init, through a field\n    of a value whose (pointer-stripped) named type is one of `addrTakenTypes` or `extraSharedTypes`;\n    `pkg`/`fn` are filled in only when the guard is `run` -/\n")
	fmt.Fprintf(w, "structure TypeWrite where\n  typ : String\n  field : String\n  pkg : String\n  fn : String\n  guard : String\nderiving DecidableEq, Repr\n\n")
	fmt.Fprintf(w, "def typeWrites : List TypeWrite := [\n")
	table(rows, 5)
	fmt.Fprintf(w, "]\n\n")

	// ---- accesses to fields of lock-owning types outside Once literals
	rows = map[string][]string{}
	for _, x := range guses {
		if linked[x.pkg] {
			g := guardOf(x.pkg, x.fn, "")
			pk := x.pkg
			if g != RUN {
				pk = ""
			}
			k := key(x.typ, x.field, pk, fnOf(g, x.fn), g)
			rows[k] = append(rows[k], x.pkg+"."+x.fn+"@"+x.loc)
		}
	}
	var gts []string
	for t := range l.guarded {
		gts = append(gts, t)
	}
	sort.Strings(gts)
	fmt.Fprintf(w, "/-- struct types of the module that own a sync.Once / sync.Mutex / sync.RWMutex field -/\n")
	fmt.Fprintf(w, "def guardedTypes : List String := [")
	for i, t := range gts {
		if i > 0 {
			fmt.Fprintf(w, ", ")
		}
		fmt.Fprintf(w, "%s", q(t))
	}
	fmt.Fprintf(w, "]\n\n")
	fmt.Fprintf(w, "/-- every access (read or write) to a field of a `guardedTypes` value outside init bodies and lexically OUTSIDE\n    a literal passed to Once.Do; `pkg`/`fn` are filled in only when the guard is `run` — those are the accesses\n    that need another justification (lock held, or after the accessor's own Do) -/\n")
	fmt.Fprintf(w, "structure GuardedUse where\n  typ : String\n  field : String\n  pkg : String\n  fn : String\n  guard : String\nderiving DecidableEq, Repr\n\n")
	fmt.Fprintf(w, "def guardedUses : List GuardedUse := [\n")
	table(rows, 5)
	fmt.Fprintf(w, "]\n\n")

	sort.Strings(unlinked)
	fmt.Fprintf(w, "/-- module packages NOT reachable from the root package main (fq.go): tools, generators, test support -/\n")
	fmt.Fprintf(w, "def unlinkedPackages : List String := [\n")
	for i, u := range unlinked {
		fmt.Fprintf(w, "  %s%s\n", q(u), sep(i, len(unlinked)))
	}
	fmt.Fprintf(w, "]\n\n")
	fmt.Fprintf(w, "def scannedPackages : Nat := %d\n", npk)
	fmt.Fprintf(w, "def linkedPackages : Nat := %d\n", len(linked))
	fmt.Fprintf(w, "\nend FqModel.Gen\n")
}
