//go:build verif

// C01 harness, internal/bitiox helpers: bitiox.Range (`bxr`), bitiox.CopyBits / CopyBitsBuffer (`bxc`) on compositions
// built with the real constructors, and bit->byte->bit adapter towers (histories, kind `h`).
//
//	bxr <term> | <off> <n> | op ; op ; …   TAB  <ok|negn|outside|eof|off|oth|panic> <cursor of the argument after the call|-> | obs;obs;…
//	bxc <term> | <w|b> <len(buf)|-1>       TAB  <n> <hex> <error class> | panic
//
// (`w`: dst is a plain io.Writer, `b`: dst is a *bytes.Buffer, whose ReadFrom io.CopyBuffer uses; -1: nil buffer = bitiox.CopyBits)
package main

import (
	"bytes"
	"fmt"
	"io"
	"strconv"
	"strings"

	"github.com/wader/fq/internal/bitiox"
	"github.com/wader/fq/internal/verifharness/hlib"
	"github.com/wader/fq/pkg/bitio"
)

func opsString(ops []op) string {
	ss := make([]string, len(ops))
	for i, o := range ops {
		ss[i] = o.String()
	}
	return strings.Join(ss, " ; ")
}

// the two errors bitiox.Range makes itself (bitiox.go:42,45) as an enum; everything else by errClass
func rangeErrClass(err error) string {
	if err == nil {
		return "ok"
	}
	switch err.Error() {
	case "negative nBits":
		return "negn"
	case "outside buffer":
		return "outside"
	}
	return errClass(err)
}

// towerDepth: the largest number of NewIOBitReadSeeker(NewIOReadSeeker(…)) adapter pairs (byte wrappers between the
// two allowed) on one path from the root
func towerDepth(t *node) int {
	best := 0
	for _, k := range t.kids {
		if d := towerDepth(k); d > best {
			best = d
		}
	}
	if t.kind == "I" {
		k := t.kids[0].real()
		for strings.Contains("APC", k.kind) {
			k = k.kids[0].real()
		}
		if k.kind == "Y" {
			return 1 + towerDepth(k)
		}
	}
	return best
}

// ---------------------------------------------------------------- bitiox.Range

func (rn *runner) rangeCase(t *node, off, n int64, ops []op) {
	text := fmt.Sprintf("bxr %s | %d %d | %s", t.term(), off, n, opsString(ops))
	wd := rn.watchdog(text)
	defer wd.Stop()
	rt := &node{kind: "S", a: off, b: n, kids: []*node{t}}
	b := &built{tmpDir: rn.tmpDir}
	head := ""
	var obs []string
	func() {
		defer b.close()
		var arg any
		if s, p := hlib.Catch(func() string { arg = b.build(t); return "" }); p {
			panic("harness: cannot build " + t.term() + ": " + s)
		}
		br := arg.(bitio.ReadAtSeeker)
		var res bitio.ReaderAtSeeker
		var err error
		if _, p := hlib.Catch(func() string { res, err = bitiox.Range(br, off, n); return "" }); p {
			head = "panic -"
			return
		}
		cur := "-"
		if s, p := hlib.Catch(func() string {
			c, e := br.SeekBits(0, io.SeekCurrent)
			if e != nil {
				return "-"
			}
			return strconv.FormatInt(c, 10)
		}); !p {
			cur = s
		}
		head = rangeErrClass(err) + " " + cur
		if err == nil && off >= 0 {
			rt.obj = res
			obs = runOps(rt, res, ops)
		}
	}()
	rn.o.Case(text, head+" | "+strings.Join(obs, ";"))
	// non-trivial: the range itself or a read on the returned reader is not byte aligned
	if off%8 != 0 || n%8 != 0 {
		rn.o.Class(fmt.Sprintf("bxr|%s|%d|%d", t.shape(), ((off%8)+8)%8, ((n%8)+8)%8))
	}
	rn.classes("bxr"+rt.shape(), ops)
	rn.o.Stat("bitiox_range_cases", 1)
	rn.o.Stat("ops", len(obs))
}

// the argument of Range: any bitio.ReadAtSeeker fq passes (sections, multi readers, zero readers, a bare
// IOBitReadSeeker over a byte stack like Binary.br, the interp._open stack), possibly with a moved cursor
func (g *gen) rangeArg() *node {
	var t *node
	switch g.r.Intn(8) {
	case 0:
		gb := &gen{r: g.r}
		b := gb.byteSrc(g.r.Range(0, 2))
		for strings.Contains(b.shape(), "Y") {
			b = gb.byteSrc(0)
		}
		t = &node{kind: "I", kids: []*node{b}}
	case 1:
		t = &node{kind: "O", kids: []*node{{kind: "F", data: g.r.Bytes(g.r.Range(0, 40))}}}
	default:
		t = g.bitSrc(g.r.Range(0, 3), false)
	}
	if g.r.Intn(2) == 0 {
		return t
	}
	// move the cursor first (W: the reader after these operations)
	w := &node{kind: "W", kids: []*node{t}}
	l := t.length()
	for k := g.r.Range(1, 3); k > 0; k-- {
		switch {
		case t.kind == "S" && g.r.Intn(4) == 0:
			// a SectionReader accepts a cursor beyond its end
			w.pre = append(w.pre, op{kind: "sk", off: l + int64(g.r.Range(1, 20)), w: "s"})
		case t.kind == "Z" || g.r.Intn(3) == 0:
			w.pre = append(w.pre, op{kind: "sk", off: int64(g.r.Intn(int(l) + 1)), w: "s"})
		case g.r.Intn(4) == 0:
			w.pre = append(w.pre, op{kind: "sk", off: 0, w: "e"})
		default:
			w.pre = append(w.pre, op{kind: "rd", n: int64(g.r.Range(0, 30))})
		}
	}
	return w
}

func (rn *runner) rangeCases(r *hlib.Rand, count int) {
	g := &gen{r: r}
	for i := 0; i < count; i++ {
		t := g.rangeArg()
		l := t.length()
		var off, n int64
		switch r.Intn(12) {
		case 0:
			off, n = 0, l
		case 1:
			off = int64(r.Intn(int(l) + 1))
			n = l - off
		case 2:
			off = int64(r.Intn(int(l) + 1))
			n = l - off + 1 // one bit beyond the end
		case 3:
			off, n = l, 0
		case 4:
			off, n = l+1, 0
		case 5:
			off, n = int64(r.Range(-2, int(l)+2)), -int64(r.Range(1, 3))
		case 6:
			// QUIRK: a negative offset is accepted when off+n <= len (the reader returned is not used)
			off = -int64(r.Range(1, 9))
			n = int64(r.Intn(int(l) + 12))
		default:
			off, n = g.sub(l)
		}
		var ops []op
		if off >= 0 && n >= 0 && off+n <= l {
			ops = g.ops(&node{kind: "S", a: off, b: n, kids: []*node{t}})
			if len(ops) > 16 {
				ops = ops[:16]
			}
		}
		rn.rangeCase(t, off, n, ops)
		if i < 2 {
			rn.o.Sample(fmt.Sprintf("bxr %s | %d %d | …", t.term(), off, n))
		}
	}
}

func (rn *runner) replayRange(l string) {
	parts := strings.Split(l, "|")
	if len(parts) != 3 {
		panic("bxr: syntax")
	}
	t, rest := parseTerm(strings.Fields(parts[0])[1:])
	if len(rest) != 0 {
		panic("term: trailing tokens")
	}
	ws := strings.Fields(parts[1])
	off, err1 := strconv.ParseInt(ws[0], 10, 64)
	n, err2 := strconv.ParseInt(ws[1], 10, 64)
	if err1 != nil || err2 != nil {
		panic("bxr: numbers")
	}
	var ops []op
	for _, s := range strings.Split(parts[2], ";") {
		if strings.TrimSpace(s) != "" {
			ops = append(ops, parseOp(s))
		}
	}
	rn.rangeCase(t, off, n, ops)
}

// ---------------------------------------------------------------- bitiox.CopyBits / CopyBitsBuffer

// plainWriter hides bytes.Buffer's ReadFrom, so that io.CopyBuffer runs its own loop with the caller's buffer
type plainWriter struct{ b bytes.Buffer }

func (w *plainWriter) Write(p []byte) (int, error) { return w.b.Write(p) }

func (rn *runner) copyCase(t *node, mode string, k int64) {
	text := fmt.Sprintf("bxc %s | %s %d", t.term(), mode, k)
	wd := rn.watchdog(text)
	defer wd.Stop()
	b := &built{tmpDir: rn.tmpDir}
	obs := ""
	func() {
		defer b.close()
		var arg any
		if s, p := hlib.Catch(func() string { arg = b.build(t); return "" }); p {
			panic("harness: cannot build " + t.term() + ": " + s)
		}
		src := arg.(bitio.Reader)
		var bb bytes.Buffer
		pw := &plainWriter{}
		var dst io.Writer = &bb
		if mode == "w" {
			dst = pw
		}
		s, p := hlib.Catch(func() string {
			var n int64
			var err error
			if k < 0 {
				n, err = bitiox.CopyBits(dst, src)
			} else {
				buf := make([]byte, k)
				for i := range buf {
					buf[i] = 0xa5
				}
				n, err = bitiox.CopyBitsBuffer(dst, src, buf)
			}
			out := bb.Bytes()
			if mode == "w" {
				out = pw.b.Bytes()
			}
			return fmt.Sprintf("%d %s %s", n, hlib.Hex(out), errClass(err))
		})
		if p {
			s = "panic"
		}
		obs = s
	}()
	rn.o.Case(text, obs)
	// non-trivial: the source's length is not a byte multiple (the last byte is padded) or it starts unaligned
	tr := t.real()
	if t.length()%8 != 0 || (tr.kind == "S" && tr.a%8 != 0) {
		rn.o.Class(fmt.Sprintf("bxc|%s|%s|%d|%d", t.shape(), mode, t.length()%8, k))
	}
	rn.o.Stat("bitiox_copy_cases", 1)
}

func (rn *runner) copyCases(r *hlib.Rand, count int) {
	g := &gen{r: r}
	ks := []int64{1, 2, 3, 7, 8, 64, -1, -1}
	for i := 0; i < count; i++ {
		var t *node
		switch r.Intn(8) {
		case 0:
			// interp.go:1130: CopyBits(b, bitio.NewLimitReader(br, …))
			t = &node{kind: "L", a: int64(r.Range(0, 300)), kids: []*node{g.bitSrc(r.Range(0, 3), true)}}
		case 1:
			// a source that was read before (the copy starts at its cursor)
			t = g.used(g.bitSrc(r.Range(0, 3), true))
		case 2:
			// a bare IOBitReadSeeker over a byte stack (Binary.br; interp.go:290): its last read returns data AND io.EOF
			gb := &gen{r: r}
			b := gb.byteSrc(r.Range(0, 2))
			for strings.Contains(b.shape(), "Y") {
				b = gb.byteSrc(0)
			}
			t = &node{kind: "I", kids: []*node{b}}
			if r.Bool() {
				t = g.used(t)
			}
		default:
			t = g.bitSrc(r.Range(0, 4), true)
		}
		k := ks[r.Intn(len(ks))]
		if r.Intn(40) == 0 {
			k = 0 // io.CopyBuffer panics on an empty non-nil buffer
		}
		mode := []string{"w", "b"}[r.Intn(2)]
		rn.copyCase(t, mode, k)
		if i < 2 {
			rn.o.Sample(fmt.Sprintf("bxc %s | %s %d", t.term(), mode, k))
		}
	}
}

func (rn *runner) replayCopy(l string) {
	parts := strings.Split(l, "|")
	if len(parts) != 2 {
		panic("bxc: syntax")
	}
	t, rest := parseTerm(strings.Fields(parts[0])[1:])
	if len(rest) != 0 {
		panic("term: trailing tokens")
	}
	ws := strings.Fields(parts[1])
	k, err := strconv.ParseInt(ws[1], 10, 64)
	if err != nil || (ws[0] != "w" && ws[0] != "b") {
		panic("bxc: syntax")
	}
	rn.copyCase(t, ws[0], k)
}

// ---------------------------------------------------------------- adapter towers

// byte-regular bit source over which an IOReadSeeker is a faithful byte view: lengths and read boundaries are byte
// multiples.  tower(k) = k nested NewIOBitReadSeeker(NewIOReadSeeker(x)) pairs; the IOReadSeeker stands directly over
// the inner IOBitReadSeeker, or over an aligned section / multi reader of it; byte wrappers (ahead cache, ctx,
// progress) may sit between the two adapters
func (g *gen) tower(k int) *node {
	if k <= 0 {
		if g.r.Intn(3) == 0 {
			return &node{kind: "I", kids: []*node{{kind: "R", data: g.data(48)}}}
		}
		return g.alignedBitSrc(g.r.Range(0, 1))
	}
	var by *node = &node{kind: "Y", kids: []*node{g.tower(k - 1)}}
	switch g.r.Intn(5) {
	case 0:
		by = &node{kind: "A", a: []int64{1, 3, 8, 64}[g.r.Intn(4)], kids: []*node{by}}
	case 1:
		by = &node{kind: "C", kids: []*node{by}}
	case 2:
		if by.length() > 0 {
			by = &node{kind: "P", a: []int64{1, 3, 1024}[g.r.Intn(3)], b: by.length(), kids: []*node{by}}
		}
	}
	i := &node{kind: "I", kids: []*node{by}}
	switch g.r.Intn(4) {
	case 0:
		return i // NewIOReadSeeker directly over the IOBitReadSeeker on the next level
	case 1:
		return &node{kind: "M", kids: []*node{i, g.alignedBitSrc(0)}}
	default:
		off, n := g.sub(i.length() / 8)
		return &node{kind: "S", a: off * 8, b: n * 8, kids: []*node{i}}
	}
}

func (rn *runner) towerCases(r *hlib.Rand, count int) {
	g := &gen{r: r}
	for i := 0; i < count; i++ {
		inner := g.tower(r.Range(2, 3))
		var t *node
		switch r.Intn(4) {
		case 0:
			t = &node{kind: "Y", kids: []*node{inner}} // the byte view on top
		case 1:
			// an unaligned section of the tower (what fq hands out)
			off, n := g.sub(inner.length())
			t = &node{kind: "S", a: off, b: n, kids: []*node{inner}}
		default:
			t = inner
			if t.kind == "I" {
				off, n := g.sub(t.length())
				t = &node{kind: "S", a: off, b: n, kids: []*node{t}}
			}
		}
		ops := g.ops(t)
		rn.history(t, ops)
		if i < 2 {
			rn.o.Sample("h " + t.term() + " | " + ops[0].String() + " ; …")
		}
	}
	rn.o.Stat("adapter_tower_generated", count)
}

// pinned cases
func (rn *runner) bitioxQuirks() {
	for _, l := range []string{
		// the negative-offset quirk of bitiox.Range (accepted, no error); negative nBits; outside; cursor kept
		"bxr B abcd -1 | -3 8 | ",
		"bxr W 1 rd,5 B abcd -1 | -3 20 | ",
		"bxr W 1 rd,5 B abcd -1 | 3 -1 | ",
		"bxr W 1 rd,5 B abcd -1 | 3 14 | ",
		"bxr W 1 rd,5 B abcd -1 | 3 13 | rd 5 ; rd 9 ; sk 0 c ; ra 3 12",
		"bxr W 1 sk,30,s S 2 10 B abcd -1 | 1 9 | rf 9",
		"bxr W 1 rd,11 I R 010203 | 5 19 | rd 7 ; rf 12 ; rd 1",
		// unaligned tails through every copy path; the empty-buffer panic of io.CopyBuffer
		"bxc B abcd 13 | w 1", "bxc B abcd 13 | b 1", "bxc B abcd 13 | w -1", "bxc B abcd 13 | b -1",
		"bxc S 3 7 B abcd -1 | w 64", "bxc B abcd 13 | w 0", "bxc B abcd 13 | b 0", "bxc B - -1 | w 3",
		"bxc L 11 B abcdef -1 | b 2", "bxc W 1 rd,3 B abcdef -1 | w 2",
		// adapter towers: IOReadSeeker directly over an IOBitReadSeeker, twice
		"h I Y I Y I R 0102030405 | ra 13 3 ; rd 7 ; sk -9 e ; rd 20 ; cl ; rf 11",
		"h S 3 29 I A 3 Y S 8 32 I Y B 0102030405 -1 | ra 13 3 ; rd 7 ; sk -9 e ; rd 20 ; raf 11 15",
	} {
		rn.replayLine(l)
	}
}
