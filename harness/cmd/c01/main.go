//go:build verif

// C01 harness: builds reader compositions with the REAL constructors of pkg/bitio, internal/bitiox,
// internal/aheadreadseeker, internal/progressreadseeker, internal/ctxreadseeker and runs op histories
// on them; one case line per history: `h <term> | op ; op ; … TAB obs;obs;…` (see lean/Drv/C01.lean).
package main

import (
	"bytes"
	"context"
	"errors"
	"fmt"
	"io"
	"os"
	"path/filepath"
	"regexp"
	"strconv"
	"strings"
	"time"

	"github.com/wader/fq/internal/aheadreadseeker"
	"github.com/wader/fq/internal/bitiox"
	"github.com/wader/fq/internal/ctxreadseeker"
	"github.com/wader/fq/internal/progressreadseeker"
	"github.com/wader/fq/internal/verifharness/hlib"
	"github.com/wader/fq/pkg/bitio"
)

// ---------------------------------------------------------------- terms

type node struct {
	kind string // B S M Z L I O R F G A P C Y y, W = kids[0] after the operations `pre` (used before being composed)
	data []byte
	a, b int64 // parameters (B: nbits or -1; S: off,n; Z: n; L: n; A: minRead; P: precision,total; G: size,seed)
	kids []*node
	pre  []op
	obj  any // the Go object built for this node (shared: a part stays reachable after it was composed)
}

func (n *node) isByte() bool { return strings.Contains("RFGAPCYy", n.real().kind) }

// real skips W wrappers (W is not a reader of its own: it is its kid, used)
func (n *node) real() *node {
	for n.kind == "W" {
		n = n.kids[0]
	}
	return n
}

// at follows a child path (indices of the model's sub-readers)
func (n *node) at(path []int) *node {
	c := n.real()
	for _, i := range path {
		c = c.kids[i].real()
	}
	return c
}

func genByte(seed, i int64) byte { return byte((i*7 + i/256*13 + seed) % 256) }

func genData(size, seed int64) []byte {
	b := make([]byte, size)
	for i := range b {
		b[i] = genByte(seed, int64(i))
	}
	return b
}

// bits (bit nodes) or bytes (byte nodes) the node stands for
func (n *node) length() int64 {
	switch n.kind {
	case "W":
		return n.kids[0].length()
	case "B":
		if n.a < 0 {
			return int64(len(n.data)) * 8
		}
		return min(n.a, int64(len(n.data))*8)
	case "S":
		return max(0, min(n.b, n.kids[0].length()-n.a))
	case "M":
		var s int64
		for _, k := range n.kids {
			s += k.length()
		}
		return s
	case "Z":
		return n.a
	case "L":
		return min(n.a, n.kids[0].length())
	case "I", "O":
		return n.kids[0].length() * 8
	case "R", "F":
		return int64(len(n.data))
	case "G":
		return n.a
	case "A", "P", "C":
		return n.kids[0].length()
	case "Y", "y":
		return (n.kids[0].length() + 7) / 8
	}
	panic("kind")
}

func (n *node) term() string {
	var sb strings.Builder
	n.write(&sb, true)
	return strings.TrimSpace(sb.String())
}

// shape: the term without data and numbers (class key)
func (n *node) shape() string {
	var sb strings.Builder
	n.write(&sb, false)
	return strings.ReplaceAll(sb.String(), " ", "")
}

func (n *node) write(sb *strings.Builder, full bool) {
	sb.WriteString(n.kind)
	sb.WriteByte(' ')
	if n.kind == "W" {
		if full {
			fmt.Fprintf(sb, "%d ", len(n.pre))
			for _, o := range n.pre {
				sb.WriteString(strings.ReplaceAll(o.String(), " ", ","))
				sb.WriteByte(' ')
			}
		}
	}
	if full {
		switch n.kind {
		case "B":
			fmt.Fprintf(sb, "%s %d ", hlib.Hex(n.data), n.a)
		case "S", "P", "G":
			fmt.Fprintf(sb, "%d %d ", n.a, n.b)
		case "Z", "L", "A":
			fmt.Fprintf(sb, "%d ", n.a)
		case "R", "F":
			fmt.Fprintf(sb, "%s ", hlib.Hex(n.data))
		}
	}
	if n.kind == "M" {
		fmt.Fprintf(sb, "%d ", len(n.kids))
	}
	for _, k := range n.kids {
		k.write(sb, full)
	}
}

type built struct {
	cleanup []func()
	tmpDir  string
	nFiles  int
}

func (b *built) close() {
	for i := len(b.cleanup) - 1; i >= 0; i-- {
		b.cleanup[i]()
	}
}

func (b *built) file(data []byte) *os.File {
	b.nFiles++
	p := filepath.Join(b.tmpDir, fmt.Sprintf("c01_%d_%d.bin", os.Getpid(), b.nFiles))
	if err := os.WriteFile(p, data, 0o600); err != nil {
		panic(err)
	}
	f, err := os.Open(p)
	if err != nil {
		panic(err)
	}
	b.cleanup = append(b.cleanup, func() { f.Close(); os.Remove(p) })
	return f
}

// build constructs the real Go object for a term and remembers it in the node
func (b *built) build(n *node) any {
	n.obj = b.build1(n)
	return n.obj
}

func (b *built) build1(n *node) any {
	switch n.kind {
	case "W":
		o := b.build(n.kids[0])
		for _, p := range n.pre {
			cur := o
			runOp(&cur, p)
		}
		return o
	case "B":
		return bitio.NewBitReader(n.data, n.a)
	case "S":
		return bitio.NewSectionReader(b.build(n.kids[0]).(bitio.ReaderAt), n.a, n.b)
	case "M":
		var rs []bitio.ReadAtSeeker
		for _, k := range n.kids {
			rs = append(rs, b.build(k).(bitio.ReadAtSeeker))
		}
		m, err := bitio.NewMultiReader(rs...)
		if err != nil {
			panic("NewMultiReader: " + err.Error())
		}
		return m
	case "Z":
		return bitiox.NewZeroAtSeeker(n.a)
	case "L":
		return bitio.NewLimitReader(b.build(n.kids[0]).(bitio.Reader), n.a)
	case "I":
		return bitio.NewIOBitReadSeeker(b.build(n.kids[0]).(io.ReadSeeker))
	case "O":
		// the reader stack of interp._open (pkg/interp/binary.go:247-289) over a regular file, constructor for
		// constructor; the Lean driver builds the same term from the constants REGENERATED from the source
		// (extract/c01consts), so a changed constant shows up as a divergence
		var fRS io.ReadSeeker = b.build(n.kids[0]).(io.ReadSeeker)
		bEnd := n.kids[0].length()
		ctx, cancel := context.WithCancel(context.Background())
		b.cleanup = append(b.cleanup, cancel)
		fRS = ctxreadseeker.New(ctx, fRS)
		const progressPrecision = 1024
		fRS = progressreadseeker.New(fRS, progressPrecision, bEnd, func(approxReadBytes int64, totalSize int64) {})
		const cacheReadAheadSize = 512 * 1024
		aheadRs := aheadreadseeker.New(fRS, cacheReadAheadSize)
		return bitio.NewIOBitReadSeeker(aheadRs)
	case "R":
		return bytes.NewReader(n.data)
	case "F":
		return b.file(n.data)
	case "G":
		return b.file(genData(n.a, n.b))
	case "A":
		return aheadreadseeker.New(b.build(n.kids[0]).(io.ReadSeeker), int(n.a))
	case "P":
		return progressreadseeker.New(b.build(n.kids[0]).(io.ReadSeeker), n.a, n.b, func(approxReadBytes int64, totalSize int64) {})
	case "C":
		ctx, cancel := context.WithCancel(context.Background())
		b.cleanup = append(b.cleanup, cancel)
		return ctxreadseeker.New(ctx, b.build(n.kids[0]).(io.ReadSeeker))
	case "Y":
		return bitio.NewIOReadSeeker(b.build(n.kids[0]).(bitio.ReadSeeker))
	case "y":
		return bitio.NewIOReader(b.build(n.kids[0]).(bitio.Reader))
	}
	panic("kind " + n.kind)
}

func parseTerm(ws []string) (*node, []string) {
	if len(ws) == 0 {
		panic("term: unexpected end")
	}
	k := ws[0]
	ws = ws[1:]
	num := func() int64 {
		v, err := strconv.ParseInt(ws[0], 10, 64)
		if err != nil {
			panic(err)
		}
		ws = ws[1:]
		return v
	}
	n := &node{kind: k}
	sub := func() {
		var c *node
		c, ws = parseTerm(ws)
		n.kids = append(n.kids, c)
	}
	switch k {
	case "B":
		n.data = hlib.UnHex(ws[0])
		ws = ws[1:]
		n.a = num()
	case "S", "P":
		n.a = num()
		n.b = num()
		sub()
	case "G":
		n.a = num()
		n.b = num()
	case "M":
		c := num()
		for i := int64(0); i < c; i++ {
			sub()
		}
	case "Z":
		n.a = num()
	case "L", "A":
		n.a = num()
		sub()
	case "I", "C", "Y", "y", "O":
		sub()
	case "W":
		c := num()
		for i := int64(0); i < c; i++ {
			n.pre = append(n.pre, parseOp(strings.ReplaceAll(ws[0], ",", " ")))
			ws = ws[1:]
		}
		sub()
	case "R", "F":
		n.data = hlib.UnHex(ws[0])
		ws = ws[1:]
	default:
		panic("term: unknown kind " + k)
	}
	return n, ws
}

// ---------------------------------------------------------------- ops

type op struct {
	kind string // ra rd sk cl rf raf ird isk
	n    int64
	off  int64
	w    string // s c e
	path []int  // non-nil: the op is performed on the sub-reader at this child path (an aliased part)
	on   int    // > 0: 1 + the member of the family {original, clones…} the op is performed on; 0: the current member
}

func (o op) String() string {
	if o.on > 0 {
		q := o
		q.on = 0
		return fmt.Sprintf("#%d %s", o.on-1, q.String())
	}
	if o.path != nil {
		ss := make([]string, len(o.path))
		for i, x := range o.path {
			ss[i] = strconv.Itoa(x)
		}
		q := o
		q.path = nil
		return "@" + strings.Join(ss, ".") + " " + q.String()
	}
	switch o.kind {
	case "ra", "raf":
		return fmt.Sprintf("%s %d %d", o.kind, o.n, o.off)
	case "rd", "rf", "ird":
		return fmt.Sprintf("%s %d", o.kind, o.n)
	case "sk", "isk":
		return fmt.Sprintf("%s %d %s", o.kind, o.off, o.w)
	}
	return o.kind
}

func parseOp(s string) op {
	ws := strings.Fields(s)
	if strings.HasPrefix(ws[0], "#") {
		o := parseOp(strings.Join(ws[1:], " "))
		k, err := strconv.Atoi(ws[0][1:])
		if err != nil {
			panic(err)
		}
		o.on = k + 1
		return o
	}
	if strings.HasPrefix(ws[0], "@") {
		o := parseOp(strings.Join(ws[1:], " "))
		o.path = []int{}
		for _, x := range strings.Split(ws[0][1:], ".") {
			v, err := strconv.Atoi(x)
			if err != nil {
				panic(err)
			}
			o.path = append(o.path, v)
		}
		return o
	}
	num := func(i int) int64 {
		v, err := strconv.ParseInt(ws[i], 10, 64)
		if err != nil {
			panic(err)
		}
		return v
	}
	switch ws[0] {
	case "ra", "raf":
		return op{kind: ws[0], n: num(1), off: num(2)}
	case "rd", "rf", "ird":
		return op{kind: ws[0], n: num(1)}
	case "sk", "isk":
		return op{kind: ws[0], off: num(1), w: ws[2]}
	case "cl":
		return op{kind: "cl"}
	}
	panic("op: " + s)
}

func whence(w string) int {
	switch w {
	case "s":
		return io.SeekStart
	case "c":
		return io.SeekCurrent
	case "e":
		return io.SeekEnd
	}
	panic("whence")
}

func errClass(err error) string {
	switch {
	case err == nil:
		return "ok"
	case errors.Is(err, io.EOF):
		return "eof"
	case errors.Is(err, bitio.ErrOffset):
		return "off"
	case errors.Is(err, bitio.ErrNegativeNBits):
		return "neg"
	case errors.Is(err, io.ErrUnexpectedEOF):
		return "ueof"
	}
	return "oth"
}

// hex of the first n bits of p, pad bits of the last byte zeroed
func bitsHex(p []byte, n int64) string {
	if n <= 0 {
		return "-"
	}
	nb := (n + 7) / 8
	if nb > int64(len(p)) {
		nb = int64(len(p))
	}
	q := append([]byte(nil), p[:nb]...)
	if r := n % 8; r != 0 && int64(len(q)) == (n+7)/8 {
		q[len(q)-1] &= byte(0xff) << (8 - r)
	}
	return hlib.Hex(q)
}

func scratch(nBits int64) []byte {
	p := make([]byte, (nBits+7)/8+2)
	for i := range p {
		p[i] = 0xa5
	}
	return p
}

// runOp executes one op on *cur (clone replaces *cur) and returns the observation
func runOp(cur *any, o op) string {
	r := *cur
	switch o.kind {
	case "ra":
		p := scratch(o.n)
		n, err := r.(bitio.ReaderAt).ReadBitsAt(p, o.n, o.off)
		return fmt.Sprintf("%d %s %s", n, bitsHex(p, n), errClass(err))
	case "rd":
		p := scratch(o.n)
		n, err := r.(bitio.Reader).ReadBits(p, o.n)
		return fmt.Sprintf("%d %s %s", n, bitsHex(p, n), errClass(err))
	case "sk":
		n, err := r.(bitio.Seeker).SeekBits(o.off, whence(o.w))
		return fmt.Sprintf("%d - %s", n, errClass(err))
	case "cl":
		var c any
		var err error
		switch x := r.(type) {
		case bitio.ReaderAtSeekerCloner:
			c, err = x.CloneReaderAtSeeker()
		case bitio.ReadAtSeekerCloner:
			c, err = x.CloneReadAtSeeker()
		case bitio.ReadCloner:
			c, err = x.CloneReader()
		default:
			panic("harness: not cloneable")
		}
		if err == nil {
			*cur = c
		}
		return fmt.Sprintf("0 - %s", errClass(err))
	case "rf", "raf":
		p := make([]byte, (o.n+7)/8) // exactly what callers of ReadFull allocate
		var n int64
		var err error
		if o.kind == "rf" {
			n, err = bitio.ReadFull(r.(bitio.Reader), p, o.n)
		} else {
			n, err = bitio.ReadAtFull(r.(bitio.ReaderAt), p, o.n, o.off)
		}
		got := o.n
		if err != nil {
			got = o.n - n
		}
		if got < 0 || got > o.n {
			got = 0
		}
		return fmt.Sprintf("%d %s %s", n, bitsHex(p, got), errClass(err))
	case "ird":
		p := make([]byte, o.n)
		for i := range p {
			p[i] = 0xa5 // the pad bits of a last partial byte must be zeroed by the reader, not by the caller
		}
		n, err := r.(io.Reader).Read(p)
		if n < 0 || n > len(p) {
			return fmt.Sprintf("%d - %s", n, errClass(err))
		}
		return fmt.Sprintf("%d %s %s", n, hlib.Hex(p[:n]), errClass(err))
	case "isk":
		n, err := r.(io.Seeker).Seek(o.off, whence(o.w))
		return fmt.Sprintf("%d - %s", n, errClass(err))
	}
	panic("op kind " + o.kind)
}

type runner struct {
	o      *hlib.Out
	tmpDir string
}

// a call that never returns (e.g. ReadFull over a reader that keeps answering 0 bits without error) must not
// take the whole run down silently: report the history as a property failure and stop
func (rn *runner) watchdog(text string) *time.Timer {
	return time.AfterFunc(20*time.Second, func() {
		// the text after PROPFAIL is the replayable history (a call in it did not return within 20s)
		rn.o.Verdict("PROPFAIL", text)
		rn.o.Close()
		os.Exit(3)
	})
}

// runOps runs an op history on the reader `cur` (built for term t: `@path` ops address t's parts) and returns the
// observations; the family {original, clones…}: a clone is a new member, the others stay usable
func runOps(t *node, cur any, ops []op) []string {
	var obs []string
	fam := []any{cur}
	curIdx := 0
	for _, o := range ops {
		s, panicked := hlib.Catch(func() string {
			if o.path != nil {
				tgt := t.at(o.path).obj
				return runOp(&tgt, o)
			}
			k := curIdx
			if o.on > 0 {
				k = o.on - 1
			}
			if k >= len(fam) {
				panic("harness: no such family member")
			}
			tgt := fam[k]
			r := runOp(&tgt, o)
			if o.kind == "cl" && tgt != fam[k] {
				fam = append(fam, tgt)
				if o.on == 0 {
					curIdx = len(fam) - 1
				}
			}
			return r
		})
		if panicked {
			if strings.HasPrefix(s, "panic: harness:") || strings.Contains(s, "interface conversion") {
				panic(s + " in " + t.term() + " | " + o.String())
			}
			obs = append(obs, "panic")
			break
		}
		obs = append(obs, s)
	}
	return obs
}

func (rn *runner) history(t *node, ops []op) {
	b := &built{tmpDir: rn.tmpDir}
	var obs []string
	{
		ss := make([]string, len(ops))
		for i, o := range ops {
			ss[i] = o.String()
		}
		wd := rn.watchdog("h " + t.term() + " | " + strings.Join(ss, " ; "))
		defer wd.Stop()
	}
	func() {
		defer b.close()
		var cur any
		if s, p := hlib.Catch(func() string { cur = b.build(t); return "" }); p {
			panic("harness: cannot build " + t.term() + ": " + s)
		}
		obs = runOps(t, cur, ops)
	}()
	ss := make([]string, len(ops))
	for i, o := range ops {
		ss[i] = o.String()
	}
	rn.o.Case("h "+t.term()+" | "+strings.Join(ss, " ; "), strings.Join(obs, ";"))
	rn.classes(t.shape(), ops)
	if towerDepth(t) >= 2 {
		rn.o.Stat("adapter_tower_histories", 1)
	}
	rn.o.Stat("ops", len(obs))
	rn.o.Stat("histories", 1)
}

// classes: non-trivial = a read that is not byte aligned
func (rn *runner) classes(sh string, ops []op) {
	for _, o := range ops {
		switch o.kind {
		case "ra", "raf":
			if o.off%8 != 0 || o.n%8 != 0 {
				rn.o.Class(fmt.Sprintf("%s|%s|%d|%d", sh, o.kind, ((o.off%8)+8)%8, o.n%8))
			}
		case "rd", "rf":
			if o.n%8 != 0 {
				rn.o.Class(fmt.Sprintf("%s|%s|%d", sh, o.kind, o.n%8))
			}
		}
	}
}

// ---------------------------------------------------------------- generators

type gen struct {
	r    *hlib.Rand
	bare bool // allow IOBitReadSeeker outside an in-bounds SectionReader and other API-level quirk territory
}

func (g *gen) data(maxLen int) []byte {
	n := g.r.Range(0, maxLen)
	switch g.r.Intn(6) {
	case 0:
		return bytes.Repeat([]byte{0xff}, n)
	case 1:
		return make([]byte, n)
	default:
		return g.r.Bytes(n)
	}
}

// subrange of [0,l]
func (g *gen) sub(l int64) (int64, int64) {
	if l == 0 {
		return 0, 0
	}
	off := int64(g.r.Intn(int(l) + 1))
	if g.r.Intn(3) == 0 {
		off = off / 8 * 8
	}
	n := int64(g.r.Intn(int(l-off) + 1))
	if g.r.Intn(3) == 0 {
		n = l - off
	}
	return off, n
}

// byteSrc generates an io.ReadSeeker term
func (g *gen) byteSrc(depth int) *node {
	if depth <= 0 {
		if g.r.Intn(5) == 0 {
			return &node{kind: "F", data: g.data(96)}
		}
		return &node{kind: "R", data: g.data(96)}
	}
	switch g.r.Intn(8) {
	case 0, 1, 2:
		mins := []int64{1, 3, 8, 64}
		return &node{kind: "A", a: mins[g.r.Intn(4)], kids: []*node{g.byteSrc(depth - 1)}}
	case 3:
		k := g.byteSrc(depth - 1)
		prec := []int64{1, 3, 1024}[g.r.Intn(3)]
		if k.length() == 0 && !g.bare {
			return k // progressreadseeker divides by zero on an empty source
		}
		return &node{kind: "P", a: prec, b: k.length(), kids: []*node{k}}
	case 4:
		return &node{kind: "C", kids: []*node{g.byteSrc(depth - 1)}}
	case 5:
		// a byte view INSIDE a composition is built over a byte-regular bit source only: IOReadSeeker.Seek
		// from current/end on a source whose reads are not byte multiples is the known finding
		// ioreadseeker-unaligned-seek, which the driver can attribute only when the view is the top reader
		return &node{kind: "Y", kids: []*node{g.alignedBitSrc(depth - 1)}}
	default:
		return g.byteSrc(0)
	}
}

// alignedBitSrc generates a bitio.ReadSeeker whose length and internal read boundaries are byte multiples
func (g *gen) alignedBitSrc(depth int) *node {
	if depth <= 0 {
		return &node{kind: "B", data: g.data(96), a: -1}
	}
	switch g.r.Intn(4) {
	case 0:
		k := g.alignedBitSrc(depth - 1)
		off, n := g.sub(k.length() / 8)
		return &node{kind: "S", a: off * 8, b: n * 8, kids: []*node{k}}
	case 1:
		m := &node{kind: "M"}
		for i := g.r.Range(1, 3); i > 0; i-- {
			m.kids = append(m.kids, g.alignedBitSrc(depth-1))
		}
		return m
	case 2:
		i := &node{kind: "I", kids: []*node{g.byteSrc(depth - 1)}}
		off, n := g.sub(i.length() / 8)
		return &node{kind: "S", a: off * 8, b: n * 8, kids: []*node{i}}
	default:
		return g.alignedBitSrc(0)
	}
}

// bitSrc generates a bitio.ReadAtSeeker term (needReader: must also implement ReadBits, i.e. not the zero reader)
func (g *gen) bitSrc(depth int, needReader bool) *node {
	if depth <= 0 {
		switch g.r.Intn(6) {
		case 0:
			if !needReader {
				return &node{kind: "Z", a: int64(g.r.Range(0, 100))}
			}
		case 1:
			d := g.data(96)
			return &node{kind: "B", data: d, a: int64(g.r.Intn(len(d)*8 + 1))}
		}
		return &node{kind: "B", data: g.data(96), a: -1}
	}
	switch g.r.Intn(7) {
	case 0, 1:
		k := g.bitSrc(depth-1, false)
		off, n := g.sub(k.length())
		return &node{kind: "S", a: off, b: n, kids: []*node{k}}
	case 2, 3:
		cnt := g.r.Range(0, 4)
		if cnt == 0 && g.r.Intn(4) != 0 {
			cnt = 2
		}
		m := &node{kind: "M"}
		for i := 0; i < cnt; i++ {
			m.kids = append(m.kids, g.bitSrc(depth-1, false))
		}
		return m
	case 4:
		b := g.byteSrc(depth - 1)
		i := &node{kind: "I", kids: []*node{b}}
		if g.bare && g.r.Intn(2) == 0 {
			return i
		}
		// as fq does (NewBitReader, bitiox.Range): an in-bounds SectionReader on top of the IOBitReadSeeker
		off, n := g.sub(i.length())
		return &node{kind: "S", a: off, b: n, kids: []*node{i}}
	default:
		return g.bitSrc(0, needReader)
	}
}

// top-level composition
func (g *gen) top() *node {
	depth := g.r.Range(0, 4)
	switch g.r.Intn(10) {
	case 0:
		return &node{kind: "L", a: int64(g.r.Range(0, 300)), kids: []*node{g.bitSrc(depth, true)}}
	case 1:
		return &node{kind: "Y", kids: []*node{g.bitSrc(depth, true)}}
	case 2:
		if g.r.Bool() {
			return &node{kind: "y", kids: []*node{&node{kind: "L", a: int64(g.r.Range(0, 300)), kids: []*node{g.bitSrc(depth, true)}}}}
		}
		return &node{kind: "y", kids: []*node{g.bitSrc(depth, true)}}
	case 3:
		return g.byteSrc(max(depth, 1))
	default:
		return g.bitSrc(depth, false)
	}
}

// interesting bit positions of a term (boundaries of its parts, in the term's own coordinates where cheap)
func boundaries(t *node) []int64 {
	l := t.length()
	bs := []int64{0, l}
	switch t.kind {
	case "M":
		var s int64
		for _, k := range t.kids {
			s += k.length()
			bs = append(bs, s)
		}
	case "W":
		return boundaries(t.kids[0])
	case "S", "L", "Y", "y", "A", "P", "C", "I", "O":
		for _, b := range boundaries(t.kids[0]) {
			switch t.kind {
			case "S":
				b -= t.a
			case "I", "O":
				b *= 8
			case "Y", "y":
				b /= 8
			}
			if b > 0 && b < l {
				bs = append(bs, b)
			}
		}
	}
	if t.kind == "A" {
		for b := t.a; b < l && len(bs) < 24; b += t.a {
			bs = append(bs, b)
		}
	}
	return bs
}

func (g *gen) pos(bs []int64, l int64, neg bool) int64 {
	var p int64
	switch g.r.Intn(4) {
	case 0:
		p = int64(g.r.Intn(int(l) + 20))
	default:
		p = bs[g.r.Intn(len(bs))] + int64(g.r.Range(-17, 17))
	}
	// negative readAt offsets are outside the property's quantifier (API misuse: only SectionReader checks them)
	_ = neg
	if p < 0 {
		p = -p
	}
	return p
}

func (g *gen) size() int64 {
	switch g.r.Intn(8) {
	case 0:
		return 0
	case 1:
		return int64(g.r.Range(65, 300))
	case 2:
		return int64(g.r.Range(1, 8))
	default:
		return int64(g.r.Range(0, 80))
	}
}

// seeks may aim before the start (they must be rejected) unless a bare IOBitReadSeeker is exposed
// (bare mode), which accepts negative positions: API misuse, outside the property's quantifier
func (g *gen) seekOp(kind string, bs []int64, l int64, cur *int64) op {
	switch g.r.Intn(3) {
	case 0:
		off := g.pos(bs, l, true)
		if !g.bare && g.r.Intn(8) == 0 {
			off = -off
		}
		return op{kind: kind, off: off, w: "s"}
	case 1:
		if g.bare {
			return op{kind: kind, off: int64(g.r.Range(0, 40)), w: "c"}
		}
		return op{kind: kind, off: int64(g.r.Range(-40, 40)), w: "c"}
	default:
		off := g.pos(bs, l, true) - l
		if g.bare && off < -l {
			off = -l
		}
		return op{kind: kind, off: off, w: "e"}
	}
}

func (g *gen) ops(t *node) []op {
	n := g.r.Range(1, 40)
	l := t.length()
	bs := boundaries(t)
	var cur int64
	var ops []op
	members := 1
	// negative readAt offsets: sections answer EOF; a bare IOBitReadSeeker panics (bare mode only)
	neg := true
	for i := 0; i < n; i++ {
		var o op
		switch {
		case t.isByte():
			canSeek := t.kind != "y"
			hangs := strings.Contains(t.shape(), "Y") || t.kind == "y" // IOReader.Read(p) with len(p)==0 never returns before EOF
			if canSeek && g.r.Intn(3) == 0 {
				o = g.seekOp("isk", bs, l, &cur)
			} else {
				sz := int64(g.r.Range(0, 24))
				if g.r.Intn(6) == 0 {
					sz = int64(g.r.Range(25, 130))
				}
				if sz == 0 && hangs {
					sz = 1
				}
				o = op{kind: "ird", n: sz}
			}
		case t.kind == "L":
			switch g.r.Intn(8) {
			case 0:
				o = op{kind: "cl"}
			case 1:
				o = op{kind: "rf", n: g.size()}
			default:
				o = op{kind: "rd", n: g.size()}
			}
		case t.kind == "Z":
			switch g.r.Intn(6) {
			case 0:
				o = op{kind: "cl"}
			case 1:
				o = g.seekOp("sk", bs, l, &cur)
			case 2:
				o = op{kind: "raf", n: g.size(), off: g.pos(bs, l, false)} // a negative offset makes MultiReader answer (0,nil) for ever: ReadAtFull never returns
			default:
				o = op{kind: "ra", n: g.size(), off: g.pos(bs, l, neg)}
			}
		default:
			switch g.r.Intn(12) {
			case 0:
				o = op{kind: "cl"}
			case 1, 2, 3:
				o = g.seekOp("sk", bs, l, &cur)
			case 4:
				o = op{kind: "rf", n: g.size()}
			case 5:
				o = op{kind: "raf", n: g.size(), off: g.pos(bs, l, false)} // a negative offset makes MultiReader answer (0,nil) for ever: ReadAtFull never returns
			case 6, 7, 8:
				o = op{kind: "ra", n: g.size(), off: g.pos(bs, l, neg)}
			default:
				o = op{kind: "rd", n: g.size()}
			}
		}
		// interleave the members of the family {original, clones}: at most 3 members
		if !t.isByte() {
			if o.kind == "cl" {
				if members >= 3 {
					o = op{kind: "rd", n: g.size()}
					if t.real().kind == "Z" {
						o = op{kind: "ra", n: g.size(), off: g.pos(bs, l, false)}
					}
				} else {
					if g.r.Bool() {
						o.on = 1 + g.r.Intn(members)
					}
					members++
				}
			}
			if o.kind != "cl" && members > 1 && g.r.Intn(2) == 0 {
				o.on = 1 + g.r.Intn(members)
			}
		}
		ops = append(ops, o)
	}
	return ops
}

// aliasing: readers that are used (read, seeked) BEFORE they are handed to a constructor and are read again,
// directly, AFTER they were composed, interleaved with operations on the composition
func (g *gen) used(n *node) *node {
	if g.r.Intn(3) == 0 {
		return n
	}
	w := &node{kind: "W", kids: []*node{n}}
	l := n.length()
	for k := g.r.Range(1, 3); k > 0; k-- {
		switch {
		case n.kind == "Z" || g.r.Intn(3) == 0:
			w.pre = append(w.pre, op{kind: "sk", off: int64(g.r.Intn(int(l) + 1)), w: "s"})
		default:
			w.pre = append(w.pre, op{kind: "rd", n: int64(g.r.Range(0, 30))})
		}
	}
	return w
}

func (g *gen) part(allowZero bool) *node {
	switch g.r.Intn(6) {
	case 0:
		if allowZero {
			return g.used(&node{kind: "Z", a: int64(g.r.Range(0, 40))})
		}
	case 1:
		k := g.used(&node{kind: "B", data: g.data(12), a: -1})
		off, n := g.sub(k.length())
		return g.used(&node{kind: "S", a: off, b: n, kids: []*node{k}})
	case 2:
		return g.used(&node{kind: "M", kids: []*node{g.part(true), g.part(true)}})
	}
	d := g.data(12)
	nb := int64(-1)
	if g.r.Bool() {
		nb = int64(g.r.Intn(len(d)*8 + 1))
	}
	return g.used(&node{kind: "B", data: d, a: nb})
}

// paths of the bit readers inside t that a history may address directly
func partPaths(t *node, prefix []int, out *[][]int) {
	r := t.real()
	for i, k := range r.kids {
		kr := k.real()
		if !strings.Contains("BSMZ", kr.kind) {
			continue
		}
		p := append(append([]int{}, prefix...), i)
		*out = append(*out, p)
		partPaths(k, p, out)
	}
}

func (g *gen) aliasHistory() (*node, []op) {
	var t *node
	switch g.r.Intn(6) {
	case 0:
		k := g.part(true)
		off, n := g.sub(k.length())
		t = &node{kind: "S", a: off, b: n, kids: []*node{k}}
	case 1:
		t = &node{kind: "L", a: int64(g.r.Range(0, 120)), kids: []*node{g.part(false)}}
	case 2:
		t = &node{kind: []string{"Y", "y"}[g.r.Intn(2)], kids: []*node{g.part(false)}}
	default:
		t = &node{kind: "M"}
		for i := g.r.Range(1, 3); i > 0; i-- {
			t.kids = append(t.kids, g.part(true))
		}
		if g.r.Intn(3) == 0 {
			off, n := g.sub(t.length())
			t = &node{kind: "S", a: off, b: n, kids: []*node{t}}
		}
	}
	var paths [][]int
	partPaths(t, nil, &paths)
	var ops []op
	for _, o := range g.ops(t) {
		if o.kind == "cl" {
			continue // a clone is a new object: the parts named by the paths belong to the original
		}
		o.on = 0
		if len(paths) > 0 && g.r.Intn(3) == 0 {
			p := paths[g.r.Intn(len(paths))]
			pn := t.at(p)
			l := pn.length()
			bs := boundaries(pn)
			var q op
			switch {
			case pn.kind == "Z" && g.r.Bool(), g.r.Intn(4) == 0:
				q = g.seekOp("sk", bs, l, nil)
				if q.w != "c" && g.r.Bool() {
					q = op{kind: "sk", off: 0, w: "c"} // where does the part stand?
				}
			case pn.kind == "Z":
				q = op{kind: "ra", n: g.size(), off: g.pos(bs, l, false)}
			case g.r.Intn(5) == 0:
				q = op{kind: "rf", n: int64(g.r.Range(0, 40))}
			case g.r.Intn(4) == 0:
				q = op{kind: "ra", n: g.size(), off: g.pos(bs, l, false)}
			default:
				q = op{kind: "rd", n: int64(g.r.Range(0, 40))}
			}
			q.path = p
			ops = append(ops, q)
		}
		ops = append(ops, o)
	}
	return t, ops
}

// clone families: an IOBitReadSeeker (bare, under a SectionReader, under a LimitReader, the interp._open stack) and
// its clones share one io.ReadSeeker; mostly SEQUENTIAL reads on the members, interleaved, so that a member
// continues exactly where its own previous read ended after another member moved the shared reader
func (g *gen) cloneFamily() (*node, []op) {
	var leaf *node
	switch g.r.Intn(4) {
	case 0:
		leaf = &node{kind: "O", kids: []*node{{kind: "F", data: g.r.Bytes(g.r.Range(1, 40))}}}
	default:
		gb := &gen{r: g.r}
		b := gb.byteSrc(g.r.Range(0, 2))
		for strings.Contains(b.shape(), "Y") || b.length() == 0 {
			b = gb.byteSrc(0)
		}
		leaf = &node{kind: "I", kids: []*node{b}}
	}
	t := leaf
	switch g.r.Intn(4) {
	case 0:
		off, n := g.sub(leaf.length())
		t = &node{kind: "S", a: off, b: n, kids: []*node{leaf}}
	case 1:
		t = &node{kind: "L", a: int64(g.r.Range(8, 400)), kids: []*node{leaf}}
	}
	l := t.length()
	members := 1
	var ops []op
	for i := g.r.Range(4, 30); i > 0; i-- {
		var o op
		switch x := g.r.Intn(12); {
		case x == 0 && members < 3:
			o = op{kind: "cl", on: 1 + g.r.Intn(members)}
			if g.r.Intn(3) == 0 {
				o.on = 0
			}
			members++
			ops = append(ops, o)
			continue
		case x == 1 && t.kind != "L":
			o = op{kind: "sk", off: int64(g.r.Intn(int(l) + 1)), w: "s"}
		case x == 2 && t.kind != "L":
			o = op{kind: "sk", off: 0, w: "c"}
		case x == 3 && t.kind != "L":
			o = op{kind: "ra", n: int64(g.r.Range(0, 40)), off: int64(g.r.Intn(int(l) + 1))}
		case x == 4:
			o = op{kind: "rf", n: int64(g.r.Range(0, 40))}
		default:
			o = op{kind: "rd", n: int64([]int{8, 8, 16, 3, 5, 24, 1, 13}[g.r.Intn(8)])}
		}
		if members > 1 {
			o.on = 1 + g.r.Intn(members)
		}
		ops = append(ops, o)
	}
	return t, ops
}

// ---------------------------------------------------------------- sub-suites

var patterns = [][]byte{
	bytes.Repeat([]byte{0x00}, 12),
	bytes.Repeat([]byte{0xff}, 12),
	{0x80, 0x40, 0x20, 0x10, 0x08, 0x04, 0x02, 0x01, 0x80, 0x40, 0x20, 0x10},
	bytes.Repeat([]byte{0xaa, 0x55}, 6),
}

func (rn *runner) readWrite64(r *hlib.Rand) {
	pats := append([][]byte{}, patterns...)
	pats = append(pats, r.Bytes(12), r.Bytes(12))
	for _, pat := range pats {
		for fb := int64(0); fb <= 15; fb++ {
			for nb := int64(0); nb <= 64; nb++ {
				buf := pat[:10] // firstBit+nBits <= 79 < 80
				obs, _ := hlib.Catch(func() string { return strconv.FormatUint(bitio.Read64(buf, fb, nb), 10) })
				if strings.HasPrefix(obs, "panic") {
					obs = "panic"
				}
				rn.o.Case(fmt.Sprintf("r64 %s %d %d", hlib.Hex(buf), fb, nb), obs)
				if fb%8 != 0 || nb%8 != 0 {
					rn.o.Class(fmt.Sprintf("r64|%d|%d", fb, nb))
				}
				v := r.U64()
				if nb < 64 {
					v &= (uint64(1) << nb) - 1
				}
				if r.Intn(4) == 0 && nb > 0 {
					v = ^uint64(0) >> (64 - nb)
				}
				w := append([]byte(nil), buf...)
				obs, _ = hlib.Catch(func() string { bitio.Write64(v, nb, w, fb); return hlib.Hex(w) })
				if strings.HasPrefix(obs, "panic") {
					obs = "panic"
				}
				rn.o.Case(fmt.Sprintf("w64 %d %d %s %d", v, nb, hlib.Hex(buf), fb), obs)
				if fb%8 != 0 || nb%8 != 0 {
					rn.o.Class(fmt.Sprintf("w64|%d|%d", fb, nb))
				}
			}
		}
	}
	// out of range: the buffer ends inside the requested bits (Go panics; the model must say so too)
	for _, c := range [][3]int64{{2, 0, 17}, {2, 3, 14}, {1, 7, 2}, {0, 0, 1}, {3, 8, 24}, {8, 1, 64}, {4, 0, 65}} {
		buf := make([]byte, c[0], c[0]) // cap == len: Read64's three-index slice is checked against cap
		copy(buf, patterns[3])
		obs, _ := hlib.Catch(func() string { return strconv.FormatUint(bitio.Read64(buf, c[1], c[2]), 10) })
		if strings.HasPrefix(obs, "panic") {
			obs = "panic"
		}
		rn.o.Case(fmt.Sprintf("r64 %s %d %d", hlib.Hex(buf), c[1], c[2]), obs)
		w := make([]byte, c[0], c[0])
		copy(w, buf)
		obs, _ = hlib.Catch(func() string { bitio.Write64(1, c[2], w, c[1]); return hlib.Hex(w) })
		if strings.HasPrefix(obs, "panic") {
			obs = "panic"
		}
		rn.o.Case(fmt.Sprintf("w64 1 %d %s %d", c[2], hlib.Hex(buf), c[1]), obs)
	}
	rn.o.Stat("readwrite64_exhaustive_firstbit_0_15_nbits_0_64_patterns", len(pats))
}

func (rn *runner) bitWriter(r *hlib.Rand, count int) {
	for i := 0; i < count; i++ {
		var bb bytes.Buffer
		w := bitio.NewIOBitWriter(&bb)
		var chunks []string
		k := r.Range(0, 8)
		for j := 0; j < k; j++ {
			nb := int64(r.Range(0, 70))
			if r.Intn(5) == 0 {
				nb = int64(r.Range(0, 400))
			}
			p := r.Bytes(int((nb + 7) / 8))
			chunks = append(chunks, fmt.Sprintf("%d:%s", nb, hlib.Hex(p)))
			if _, err := w.WriteBits(p, nb); err != nil {
				panic(err)
			}
		}
		if err := w.Flush(); err != nil {
			panic(err)
		}
		rn.o.Case("bw "+strings.Join(chunks, " "), hlib.Hex(bb.Bytes()))
	}
	rn.o.Stat("bitwriter_cases", count)
}

func bnode(data []byte, nbits int64) *node { return &node{kind: "B", data: data, a: nbits} }

// the exact reader stack of interp._open (pkg/interp/binary.go:247-289) over a file with this content
func interpStack(leaf *node) *node {
	return &node{kind: "O", kids: []*node{leaf}}
}

// for every leaf and one-level wrapper: readAt(off, n) for all off within 2 bytes of every boundary, n in 0..80
func (rn *runner) boundarySweep(r *hlib.Rand) {
	d1 := r.Bytes(7)
	d2 := r.Bytes(5)
	d3 := r.Bytes(9)
	leafs := []*node{
		bnode(d1, -1), bnode(d1, 51), {kind: "Z", a: 37},
	}
	var comps []*node
	comps = append(comps, leafs...)
	for _, l := range leafs {
		comps = append(comps, &node{kind: "S", a: 5, b: 29, kids: []*node{l}})
		comps = append(comps, &node{kind: "S", a: 8, b: 24, kids: []*node{l}})
	}
	comps = append(comps,
		&node{kind: "M", kids: []*node{bnode(d1, 51), bnode(d2, -1)}},
		&node{kind: "M", kids: []*node{bnode(d2, 13), {kind: "Z", a: 11}, bnode(d1, -1)}},
		&node{kind: "M", kids: []*node{bnode(d2, -1), bnode(nil, -1), bnode(d3, 3)}},
		&node{kind: "M", kids: []*node{{kind: "Z", a: 3}, bnode(d1, -1)}}, // Binary.toReader: pad + bits (binary.go:496)
		&node{kind: "M"},
	)
	for _, m := range []int64{1, 3, 8, 64} {
		comps = append(comps, &node{kind: "S", a: 0, b: 72, kids: []*node{{kind: "I", kids: []*node{{kind: "A", a: m, kids: []*node{{kind: "R", data: d3}}}}}}})
	}
	comps = append(comps,
		&node{kind: "S", a: 3, b: 60, kids: []*node{{kind: "I", kids: []*node{{kind: "P", a: 3, b: 9, kids: []*node{{kind: "R", data: d3}}}}}}},
		&node{kind: "S", a: 0, b: 72, kids: []*node{{kind: "I", kids: []*node{{kind: "C", kids: []*node{{kind: "F", data: d3}}}}}}},
		&node{kind: "S", a: 0, b: 56, kids: []*node{{kind: "I", kids: []*node{{kind: "Y", kids: []*node{bnode(d1, 51)}}}}}},
		&node{kind: "S", a: 0, b: 72, kids: []*node{interpStack(&node{kind: "F", data: d3})}},
	)
	for _, c := range comps {
		l := c.length()
		seen := map[int64]bool{}
		for _, b := range boundaries(c) {
			for off := b - 16; off <= b+16; off++ {
				if off < 0 || off > l+17 || seen[off] {
					continue
				}
				seen[off] = true
				var ops []op
				for n := int64(0); n <= 80; n++ {
					ops = append(ops, op{kind: "ra", n: n, off: off})
				}
				rn.history(c, ops)
			}
		}
		// sequential reads of every size from every start offset near the boundaries
		if c.kind != "Z" {
			for n := int64(1); n <= 20; n++ {
				var ops []op
				for k := int64(0); k*n <= l+n; k++ {
					ops = append(ops, op{kind: "rd", n: n})
				}
				rn.history(c, ops)
			}
		}
	}
	// byte views: IOReadSeeker / IOReader over aligned and unaligned sources, every chunk size
	views := []*node{bnode(d1, -1), bnode(d1, 51), {kind: "M", kids: []*node{bnode(d2, 13), bnode(d1, 51)}}, bnode(nil, -1), bnode(d1, 3)}
	for _, v := range views {
		for _, k := range []string{"Y", "y"} {
			for n := int64(1); n <= 12; n++ {
				var ops []op
				for i := int64(0); i*n <= v.length()/8+2*n; i++ {
					ops = append(ops, op{kind: "ird", n: n})
				}
				rn.history(&node{kind: k, kids: []*node{v}}, ops)
			}
		}
	}
	rn.o.Stat("boundary_sweep_compositions", len(comps))
}

// aheadreadseeker directly (byte level; the predicate is the bytes.Reader cursor), and fq's real cache block size
func (rn *runner) aheadDirect(r *hlib.Rand, small, large int) {
	g := &gen{r: r}
	for i := 0; i < small; i++ {
		data := r.Bytes(r.Range(0, 96))
		m := []int64{1, 3, 8, 64}[r.Intn(4)]
		leaf := &node{kind: "R", data: data}
		if r.Intn(4) == 0 {
			leaf.kind = "F"
		}
		t := &node{kind: "A", a: m, kids: []*node{leaf}}
		rn.history(t, g.ops(t))
	}
	// the history of known finding ahead-seekend-cached (fixed by 328451e9)
	d32 := []byte("0123456789abcdefghijklmnopqrstuv")
	rn.history(&node{kind: "A", a: 8, kids: []*node{{kind: "R", data: d32}}},
		[]op{{kind: "ird", n: 4}, {kind: "isk", off: -28, w: "e"}, {kind: "ird", n: 4}, {kind: "ird", n: 4}})
	const block = 512 * 1024
	for i := 0; i < large; i++ {
		size := int64(block + r.Range(1, 2*block))
		if r.Intn(4) == 0 {
			size = int64(block + r.Range(-3, 3))
		}
		leaf := &node{kind: "G", a: size, b: int64(r.Intn(256))}
		var t *node
		byteLevel := r.Bool()
		if byteLevel {
			t = &node{kind: "A", a: block, kids: []*node{leaf}}
		} else {
			st := interpStack(leaf)
			off, n := int64(0), st.length()
			if r.Bool() {
				off = int64(r.Range(0, 64))
				n = st.length() - off - int64(r.Range(0, 64))
			}
			t = &node{kind: "S", a: off, b: n, kids: []*node{st}}
		}
		l := t.length()
		unit := int64(8)
		if byteLevel {
			unit = 1
		}
		bs := []int64{0, l, block * unit, 2 * block * unit, block*unit - 64*unit, l - block*unit}
		var ops []op
		for k := r.Range(4, 14); k > 0; k-- {
			p := bs[r.Intn(len(bs))] + int64(r.Range(-70, 70))
			if p < 0 {
				p = 0
			}
			if byteLevel {
				switch r.Intn(3) {
				case 0:
					ops = append(ops, op{kind: "isk", off: p, w: "s"})
				case 1:
					ops = append(ops, op{kind: "isk", off: p - l, w: "e"})
				default:
					ops = append(ops, op{kind: "isk", off: int64(r.Range(-100, 100)), w: "c"})
				}
				ops = append(ops, op{kind: "ird", n: int64(r.Range(1, 100))})
				if r.Bool() {
					ops = append(ops, op{kind: "ird", n: int64(r.Range(1, 100))})
				}
			} else {
				switch r.Intn(3) {
				case 0:
					ops = append(ops, op{kind: "ra", n: int64(r.Range(0, 200)), off: p})
				case 1:
					ops = append(ops, op{kind: "sk", off: p - l, w: "e"}, op{kind: "rd", n: int64(r.Range(0, 200))})
				default:
					ops = append(ops, op{kind: "sk", off: p, w: "s"}, op{kind: "rf", n: int64(r.Range(0, 200))}, op{kind: "rd", n: int64(r.Range(0, 90))})
				}
			}
		}
		rn.history(t, ops)
	}
	rn.o.Stat("ahead_direct_small", small)
	rn.o.Stat("ahead_large_file_real_block_size", large)
}

// the constants of interp._open that interpStack replicates must still be in the source
func (rn *runner) interpConstants() {
	repo := os.Getenv("VERIF_REPO")
	if repo == "" {
		repo = "/repo"
	}
	src, err := os.ReadFile(filepath.Join(repo, "pkg/interp/binary.go"))
	if err != nil {
		rn.o.Verdict("DIVERGE", "cannot read pkg/interp/binary.go: "+err.Error())
		return
	}
	for _, re := range []string{
		`const cacheReadAheadSize = 512 \* 1024`,
		`const progressPrecision = 1024`,
		`fRS = ctxreadseeker\.New\(i\.EvalInstance\.Ctx, rs\)`,
		`fRS = progressreadseeker\.New\(fRS, progressPrecision, bEnd,`,
		`aheadRs := aheadreadseeker\.New\(fRS, cacheReadAheadSize\)`,
		`bbf\.br = bitio\.NewIOBitReadSeeker\(aheadRs\)`,
	} {
		if !regexp.MustCompile(re).Match(src) {
			rn.o.Verdict("DIVERGE", "interp._open no longer contains `"+re+"`: the replicated reader stack of the harness is stale")
			return
		}
	}
	rn.o.Verdict("OK", "interp._open reader stack constants")
}

// regression histories of the fixed findings (known_findings.json: iobits-eof-unaligned, iobits-seek-current,
// progress-zero-total, ahead-seekend-cached) and the pinned known finding ioreadseeker-unaligned-seek
func (rn *runner) quirks() {
	for _, l := range []string{
		"h I R ffff | ra 20 3",
		"h M 2 I R ffff B ffff -1 | ra 20 3",
		"h M 2 I R ffff B ffff -1 | ra 20 3 ; ra 13 3 ; ra 14 3 ; sk 3 s ; rd 40 ; rd 40",
		"h I R 01020304 | rd 3 ; sk 0 c ; rd 8",
		"h I R 01020304 | rd 3 ; sk 2 c ; rd 8 ; sk -13 c ; rd 5 ; sk 0 c",
		"h I P 1024 0 R - | ra 8 0",
		"h I A 8 P 1024 0 C F - | ra 8 0 ; sk 0 e ; rd 1",
		"h Y B 123456 13 | ird 1 ; isk 0 c ; ird 1",
		"h Y B 123456 13 | isk -1 e ; ird 1",
		// aliasing: a part keeps its own cursor when it is composed (NewMultiReader restores it) and afterwards
		"h M 2 W 1 rd,4 B 1234 -1 B 56 -1 | raf 24 0 ; @0 sk 0 c ; @0 rd 4 ; @1 rd 8 ; rd 24",
		"h M 2 B ab -1 B cd -1 | @0 rd 8 ; @1 sk 0 c ; ra 16 0",
		"h L 12 W 1 rd,3 B abcd -1 | rd 5 ; @0 sk 0 c ; @0 rd 2 ; rd 8",
		// clone families: members are independent cursors over the shared source
		"h I R 11223344 | rd 8 ; #0 cl ; #1 rd 24 ; #0 rd 8 ; #1 sk 0 c ; #0 sk 0 c",
		"h L 32 I R 11223344 | rd 8 ; #0 cl ; #1 rd 16 ; #0 rd 8 ; #1 rd 8",
		"h O F 1122334455 | rd 8 ; cl ; rd 16 ; #0 rd 8 ; #1 rd 8 ; #0 cl ; #2 rd 24 ; #0 rd 8",
	} {
		rn.replayLine(l)
	}
}

func (rn *runner) replayLine(l string) {
	l = strings.TrimPrefix(l, "PROPFAIL ")
	ws := strings.Fields(l)
	switch ws[0] {
	case "r64":
		buf := hlib.UnHex(ws[1])
		fb, _ := strconv.ParseInt(ws[2], 10, 64)
		nb, _ := strconv.ParseInt(ws[3], 10, 64)
		obs, _ := hlib.Catch(func() string { return strconv.FormatUint(bitio.Read64(buf, fb, nb), 10) })
		if strings.HasPrefix(obs, "panic") {
			obs = "panic"
		}
		rn.o.Case(l, obs)
	case "w64":
		v, _ := strconv.ParseUint(ws[1], 10, 64)
		nb, _ := strconv.ParseInt(ws[2], 10, 64)
		buf := hlib.UnHex(ws[3])
		fb, _ := strconv.ParseInt(ws[4], 10, 64)
		obs, _ := hlib.Catch(func() string { bitio.Write64(v, nb, buf, fb); return hlib.Hex(buf) })
		if strings.HasPrefix(obs, "panic") {
			obs = "panic"
		}
		rn.o.Case(l, obs)
	case "bw":
		var bb bytes.Buffer
		w := bitio.NewIOBitWriter(&bb)
		for _, c := range ws[1:] {
			i := strings.IndexByte(c, ':')
			nb, _ := strconv.ParseInt(c[:i], 10, 64)
			if _, err := w.WriteBits(hlib.UnHex(c[i+1:]), nb); err != nil {
				panic(err)
			}
		}
		if err := w.Flush(); err != nil {
			panic(err)
		}
		rn.o.Case(l, hlib.Hex(bb.Bytes()))
	case "lg":
		rn.largeCase(l)
	case "bxr":
		rn.replayRange(l)
	case "bxc":
		rn.replayCopy(l)
	case "h":
		i := strings.IndexByte(l, '|')
		t, rest := parseTerm(strings.Fields(l[1:i]))
		if len(rest) != 0 {
			panic("term: trailing tokens")
		}
		var ops []op
		for _, s := range strings.Split(l[i+1:], ";") {
			if strings.TrimSpace(s) != "" {
				ops = append(ops, parseOp(s))
			}
		}
		rn.history(t, ops)
	}
}

func main() {
	cfg := hlib.ParseFlags()
	o := hlib.NewOut(cfg.Out)
	defer o.Close()
	r := hlib.NewRand(cfg.Seed)
	tmp := os.Getenv("VERIF_WORK")
	if tmp == "" {
		tmp = os.TempDir()
	}
	rn := &runner{o: o, tmpDir: tmp}

	if cfg.Replay != "" {
		for _, l := range hlib.ReplayLines(cfg.Replay) {
			rn.replayLine(l)
		}
		return
	}

	rn.interpConstants()
	rn.readWrite64(r.Fork())
	rn.quirks()
	rn.boundarySweep(r.Fork())
	o.Stat("exhaustive_small_domain", 1)

	nHist, nBare, nBW, nAheadS, nAheadL := 6000, 400, 1000, 1500, 16
	if cfg.Thorough() {
		nHist, nBare, nBW, nAheadS, nAheadL = 90000, 6000, 12000, 20000, 100
	}
	rn.bitWriter(r.Fork(), nBW)
	rn.aheadDirect(r.Fork(), nAheadS, nAheadL)
	g := &gen{r: r.Fork()}
	for i := 0; i < nHist; i++ {
		t := g.top()
		ops := g.ops(t)
		rn.history(t, ops)
		if i < 4 {
			o.Sample("h " + t.term() + " | " + ops[0].String() + " ; …")
		}
	}
	gb := &gen{r: r.Fork(), bare: true}
	for i := 0; i < nBare; i++ {
		t := gb.top()
		rn.history(t, gb.ops(t))
	}
	ga := &gen{r: r.Fork()}
	nAlias := nHist / 3
	for i := 0; i < nAlias; i++ {
		t, ops := ga.aliasHistory()
		rn.history(t, ops)
		if i < 2 {
			o.Sample("h " + t.term() + " | " + ops[0].String() + " ; …")
		}
	}
	gc := &gen{r: r.Fork()}
	nClone := nHist / 4
	for i := 0; i < nClone; i++ {
		t, ops := gc.cloneFamily()
		rn.history(t, ops)
		if i < 2 {
			o.Sample("h " + t.term() + " | " + ops[0].String() + " ; …")
		}
	}
	nRange, nCopy, nTower := 500, 500, 300
	if cfg.Thorough() {
		nRange, nCopy, nTower = 8000, 8000, 4000
	}
	rn.bitioxQuirks()
	rn.rangeCases(r.Fork(), nRange)
	rn.copyCases(r.Fork(), nCopy)
	rn.towerCases(r.Fork(), nTower)
	rn.largeCases(r.Fork(), cfg.Thorough())
	// ill-fitting sections (overhang.go): exhaustive small sweep + random histories; forked LAST so that the streams of
	// the older generators are unchanged
	rn.overhangSweep()
	nIll := 4000
	if cfg.Thorough() {
		nIll = 40000
	}
	rn.illHistories(r.Fork(), nIll)
	// MultiReaders with many parts (wide.go); forked after everything else for the same reason
	rn.wideCases(r.Fork(), cfg.Thorough())
	o.Stat("clone_family_histories", nClone)
	o.Stat("random_histories", nHist)
	o.Stat("random_histories_api_level", nBare)
	o.Stat("aliasing_histories", nAlias)
}
