//go:build verif

// C01 harness, ill-fitting sections (round 6, after the missed seeded change S6-C01-1): bitio.NewSectionReader checks
// nothing, so a section may reach past the end of the reader below it (by bits, by bytes, "until the end" with an
// oversize length), start exactly at / beyond that end, or be empty — at every level of a nest of sections, over a
// SectionReader, a NewBitReader(buf, nBits) with nBits < 8*len(buf) (so that there ARE bits below the parent's end
// that could leak), a MultiReader, a ZeroReadAtSeeker, an IOBitReadSeeker.  What such a section returns is defined by
// the code (reads stop at the parent's end) and by the property (never a bit outside the logical range of the reader
// the section was made of); the driver checks every observation against the CLAMPED denotation.
package main

import (
	"strings"

	"github.com/wader/fq/internal/verifharness/hlib"
)

const hugeBits = int64(1) << 40

// hasIll: some section in t does not fit the reader below it
func hasIll(t *node) bool {
	if t.kind == "S" {
		if t.a+t.b > t.kids[0].length() {
			return true
		}
	}
	if t.kind == "B" && t.a > int64(len(t.data))*8 {
		return true
	}
	for _, k := range t.kids {
		if hasIll(k) {
			return true
		}
	}
	return false
}

// illWindow: a window over a reader of l bits; mode 0 fits, the others do not
func (g *gen) illWindow(l int64) (int64, int64, string) {
	inOff := func() int64 {
		off := int64(g.r.Intn(int(l) + 1))
		if g.r.Intn(3) == 0 {
			off = off / 8 * 8
		}
		return off
	}
	switch g.r.Intn(9) {
	case 0:
		off, n := g.sub(l)
		return off, n, "fit"
	case 1, 2:
		off := inOff()
		return off, l - off + int64(g.r.Range(1, 16)), "overbits"
	case 3:
		off := inOff()
		return off, l - off + 8*int64(g.r.Range(1, 4)), "overbytes"
	case 4:
		return l, []int64{0, 1, 8, 13, hugeBits}[g.r.Intn(5)], "atend"
	case 5:
		return l + int64(g.r.Range(1, 20)), int64(g.r.Range(0, 20)), "beyond"
	case 6:
		return int64(g.r.Intn(int(l) + 4)), 0, "empty"
	case 7:
		return inOff(), hugeBits, "toend"
	default:
		// the whole reader and a bit / a byte more (io.SectionReader style "n larger than the rest")
		return 0, l + []int64{1, 7, 8, 16}[g.r.Intn(4)], "wholeplus"
	}
}

// illBase: a reader with bits BELOW its logical end where possible
func (g *gen) illBase() *node {
	switch g.r.Intn(8) {
	case 0, 1, 2:
		// NewBitReader(buf, nBits) with nBits < 8*len(buf) (sometimes > : itself overhanging)
		d := g.data(12)
		if len(d) == 0 {
			d = []byte{0xa5}
		}
		nb := int64(g.r.Intn(len(d)*8 + 1))
		if g.r.Intn(8) == 0 {
			nb = int64(len(d))*8 + int64(g.r.Range(1, 16))
		}
		return &node{kind: "B", data: d, a: nb}
	case 3:
		// a strict sub-window of a larger buffer
		d := g.data(12)
		b := &node{kind: "B", data: d, a: -1}
		off, n := g.sub(b.length())
		return &node{kind: "S", a: off, b: n, kids: []*node{b}}
	case 4:
		return &node{kind: "I", kids: []*node{g.byteSrc(g.r.Range(0, 2))}}
	case 5:
		return &node{kind: "Z", a: int64(g.r.Range(0, 40))}
	case 6:
		m := &node{kind: "M"}
		for i := g.r.Range(1, 3); i > 0; i-- {
			m.kids = append(m.kids, g.bitSrc(g.r.Range(0, 2), false))
		}
		return m
	default:
		return g.bitSrc(g.r.Range(0, 2), false)
	}
}

// illTerm: 1..3 levels of sections with arbitrary windows over illBase, optionally under a LimitReader / byte view
func (g *gen) illTerm() (*node, []string) {
	t := g.illBase()
	var modes []string
	for lv := g.r.Range(1, 3); lv > 0; lv-- {
		off, n, mode := g.illWindow(t.length())
		t = &node{kind: "S", a: off, b: n, kids: []*node{t}}
		modes = append(modes, mode)
	}
	switch g.r.Intn(8) {
	case 0:
		t = &node{kind: "L", a: int64(g.r.Range(0, 120)), kids: []*node{t}}
	case 1:
		t = &node{kind: "y", kids: []*node{t}}
	case 2:
		t = &node{kind: "Y", kids: []*node{t}}
	}
	return t, modes
}

// illOps: the usual histories; a byte view over an overhanging section is not seeked from the end (SeekBits(…, end) of
// a SectionReader is relative to its NOMINAL end: a statement about positions, not about the bits delivered)
func (g *gen) illOps(t *node) []op {
	ops := g.ops(t)
	if t.kind == "Y" {
		for i := range ops {
			if ops[i].kind == "isk" && ops[i].w == "e" {
				ops[i].w = "s"
				if ops[i].off < 0 {
					ops[i].off = -ops[i].off
				}
			}
		}
	}
	return ops
}

func (rn *runner) illHistories(r *hlib.Rand, count int) {
	g := &gen{r: r}
	for i := 0; i < count; i++ {
		t, modes := g.illTerm()
		ops := g.illOps(t)
		rn.history(t, ops)
		if hasIll(t) {
			rn.o.Stat("overhang_histories", 1)
			top := t.kind
			if top == "S" {
				top = "-"
			}
			rn.o.Class("overhang|" + top + "|" + strings.Join(modes, ","))
		}
		if i < 2 {
			rn.o.Sample("h " + t.term() + " | " + ops[0].String() + " ; …")
		}
	}
}

// overhangSweep: EXHAUSTIVE for small sizes — every base below, every first-level window from the grid, every
// second-level window from the grid; per term one ReadBitsAt history over all interesting offsets and sizes, one
// ReadBits/SeekBits/clone history, and the IOReader byte view
func (rn *runner) overhangSweep() {
	d3 := []byte{0x45, 0x67, 0x8f}
	d4 := []byte{0x12, 0xa4, 0x56, 0xf8}
	var bases []*node
	for _, nb := range []int64{0, 1, 7, 8, 12, 16, 23, 24, -1, 30} {
		bases = append(bases, &node{kind: "B", data: d3, a: nb})
	}
	for _, w := range [][2]int64{{8, 16}, {3, 10}, {0, 5}, {16, 16}, {13, 30}} {
		bases = append(bases, &node{kind: "S", a: w[0], b: w[1], kids: []*node{{kind: "B", data: d4, a: -1}}})
	}
	bases = append(bases,
		&node{kind: "Z", a: 5},
		&node{kind: "I", kids: []*node{{kind: "R", data: d3}}},
		&node{kind: "I", kids: []*node{{kind: "A", a: 3, kids: []*node{{kind: "R", data: d4}}}}},
		&node{kind: "M", kids: []*node{{kind: "B", data: d3, a: 13}, {kind: "Z", a: 3}}},
		&node{kind: "M", kids: []*node{{kind: "S", a: 4, b: 9, kids: []*node{{kind: "B", data: d4, a: 20}}}, {kind: "B", data: d3, a: 12}}},
	)
	uniq := func(xs []int64) []int64 {
		var out []int64
		seen := map[int64]bool{}
		for _, x := range xs {
			if x >= 0 && !seen[x] {
				seen[x] = true
				out = append(out, x)
			}
		}
		return out
	}
	windows := func(l int64, offs, extra []int64) [][2]int64 {
		var ws [][2]int64
		for _, off := range uniq(offs) {
			var ns []int64
			for _, e := range extra {
				ns = append(ns, l-off+e)
			}
			ns = append(ns, 0, 1, hugeBits)
			for _, n := range uniq(ns) {
				ws = append(ws, [2]int64{off, n})
			}
		}
		return ws
	}
	emit := func(t *node) {
		l := t.length()
		nominal := t.b
		if nominal > 64 {
			nominal = l + 9
		}
		var ra []op
		for _, off := range uniq([]int64{0, 1, l - 1, l, l + 1, l + 8, nominal - 1, nominal}) {
			for _, n := range []int64{0, 1, 7, 8, 17, 40} {
				ra = append(ra, op{kind: "ra", n: n, off: off})
			}
		}
		rn.history(t, ra)
		rn.history(t, []op{{kind: "rd", n: 3}, {kind: "rd", n: 8}, {kind: "cl"}, {kind: "rd", n: 40}, {kind: "rd", n: 1},
			{kind: "sk", off: 1, w: "s"}, {kind: "rf", n: 4}, {kind: "rd", n: 64}, {kind: "sk", off: l, w: "s"}, {kind: "rd", n: 8},
			{kind: "sk", off: 0, w: "s"}, {kind: "raf", n: l + 1, off: 0}, {kind: "rf", n: l}, {kind: "rd", n: 1}})
		rn.history(&node{kind: "y", kids: []*node{t}}, []op{{kind: "ird", n: 1}, {kind: "ird", n: 2}, {kind: "ird", n: 8}, {kind: "ird", n: 1}})
		rn.o.Stat("overhang_sweep_terms", 1)
		if hasIll(t) {
			rn.o.Stat("overhang_sweep_ill_terms", 1)
		}
	}
	for _, b := range bases {
		l0 := b.length()
		for _, w1 := range windows(l0, []int64{0, 3, l0 - 1, l0, l0 + 1, l0 + 9}, []int64{0, 1, 8, 16}) {
			t1 := &node{kind: "S", a: w1[0], b: w1[1], kids: []*node{b}}
			emit(t1)
			l1 := t1.length()
			for _, w2 := range windows(l1, []int64{0, 2, l1, l1 + 1}, []int64{1, 8}) {
				emit(&node{kind: "S", a: w2[0], b: w2[1], kids: []*node{t1}})
			}
		}
	}
	rn.o.Stat("exhaustive_small_domain", 1)
}
