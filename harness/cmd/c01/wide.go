//go:build verif

// C01 harness, MultiReaders with MANY parts (round 6): every other generator composes at most four parts, so a
// part lookup that changes its algorithm with the number of parts (a binary search above some count, a cached
// index, a fixed-size table) was never exercised.  Parts are short (0..9 bits, whole bytes, a zero reader, a
// section), counts sit around powers of two; every history reads AT and ACROSS part boundaries (ReadBitsAt at
// boundary-1 / boundary / boundary+1 of a sample of parts incl. the first and last ones), then sequentially, then
// through the IOReader byte view.
package main

import "github.com/wader/fq/internal/verifharness/hlib"

func (g *gen) widePart() *node {
	switch g.r.Intn(8) {
	case 0:
		return &node{kind: "B", data: g.r.Bytes(1), a: 0} // empty part
	case 1:
		return &node{kind: "Z", a: int64(g.r.Range(0, 5))}
	case 2:
		d := g.r.Bytes(2)
		return &node{kind: "S", a: int64(g.r.Range(0, 5)), b: int64(g.r.Range(0, 9)), kids: []*node{{kind: "B", data: d, a: -1}}}
	case 3, 4:
		return &node{kind: "B", data: g.r.Bytes(1), a: -1}
	default:
		d := g.r.Bytes(2)
		return &node{kind: "B", data: d, a: int64(g.r.Range(1, 15))}
	}
}

func (rn *runner) wideCases(r *hlib.Rand, thorough bool) {
	g := &gen{r: r}
	counts := []int{5, 8, 15, 16, 17, 31, 32, 33, 63, 64, 65, 100, 127, 128, 129, 255, 256, 257, 300, 301, 511, 513, 1023, 1025}
	if thorough {
		counts = append(counts, 2047, 2049, 4095, 4097, 16385)
	}
	for _, cnt := range counts {
		reps := 3
		if cnt > 1100 {
			reps = 1
		}
		for rep := 0; rep < reps; rep++ {
			m := &node{kind: "M"}
			for i := 0; i < cnt; i++ {
				m.kids = append(m.kids, g.widePart())
			}
			var bounds []int64
			var acc int64
			for _, k := range m.kids {
				acc += k.length()
				bounds = append(bounds, acc)
			}
			l := acc
			// boundaries of the first parts, the last parts, powers of two and a random sample
			pick := map[int]bool{}
			for i := 0; i < cnt && i < 4; i++ {
				pick[i] = true
				pick[cnt-1-i] = true
			}
			for p := 1; p < cnt; p *= 2 {
				pick[p-1] = true
				pick[p] = true
				if p+1 < cnt {
					pick[p+1] = true
				}
			}
			for i := 0; i < 24; i++ {
				pick[g.r.Intn(cnt)] = true
			}
			var ra []op
			for i := 0; i < cnt; i++ {
				if !pick[i] {
					continue
				}
				b := bounds[i]
				for _, off := range []int64{b - 1, b, b + 1} {
					if off < 0 || off > l+1 {
						continue
					}
					for _, n := range []int64{1, 9, 64} {
						ra = append(ra, op{kind: "ra", n: n, off: off})
					}
				}
			}
			rn.history(m, ra)
			// sequential: the whole content in reads of 1..64 bits, a seek to a boundary, a ReadFull across the rest
			var seq []op
			for i, left := 0, l; left > 0 && i < 400; i++ {
				n := int64(g.r.Range(1, 64))
				seq = append(seq, op{kind: "rd", n: n})
				left -= n
			}
			mid := bounds[cnt/2]
			seq = append(seq, op{kind: "sk", off: mid, w: "s"}, op{kind: "rd", n: 17}, op{kind: "sk", off: 0, w: "s"}, op{kind: "raf", n: l, off: 0})
			rn.history(m, seq)
			// a section over it that starts and ends inside parts, and the byte view
			if l > 4 {
				s := &node{kind: "S", a: 1, b: l - 3, kids: []*node{m}}
				rn.history(s, []op{{kind: "rd", n: 64}, {kind: "ra", n: 40, off: mid}, {kind: "sk", off: mid, w: "s"}, {kind: "rd", n: 33}, {kind: "raf", n: l - 3, off: 0}})
			}
			rn.history(&node{kind: "y", kids: []*node{m}}, []op{{kind: "ird", n: 1}, {kind: "ird", n: 7}, {kind: "ird", n: 64}, {kind: "ird", n: int64(l/8 + 2)}})
			rn.o.Stat("wide_multireaders", 1)
			rn.o.Class("wide|" + bucket(cnt))
		}
	}
}

func bucket(n int) string {
	switch {
	case n <= 16:
		return "<=16"
	case n <= 64:
		return "<=64"
	case n <= 256:
		return "<=256"
	case n <= 1024:
		return "<=1024"
	}
	return ">1024"
}
