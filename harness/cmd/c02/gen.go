//go:build verif

package main

import (
	"fmt"
	"sort"
	"regexp"
	"strconv"
	"strings"
	"unicode/utf16"

	"github.com/wader/fq/internal/verifharness/hlib"
	"github.com/wader/fq/pkg/bitio"
)

type gen struct {
	shape    func(pos, n, L int) string // nil: plain reader
	lite     bool                       // reduced pattern counts (the shaped re-runs of the families)
	o        *hlib.Out
	r        *hlib.Rand
	thorough bool
	used     map[string]bool // reader methods exercised
	n        int
}

func randBits(r *hlib.Rand, n int) string {
	var sb strings.Builder
	for n > 0 {
		v := r.U64()
		for i := 0; i < 64 && n > 0; i++ {
			sb.WriteByte('0' + byte(v&1))
			v >>= 1
			n--
		}
	}
	return sb.String()
}

func bitsOfBytes(bs []byte) string {
	return bitio.BitStringFromBytes(bs, int64(len(bs))*8)
}

func bitsOfUint(v uint64, n int) string {
	var sb strings.Builder
	for i := n - 1; i >= 0; i-- {
		sb.WriteByte('0' + byte((v>>uint(i))&1))
	}
	return sb.String()
}

// emit places payload at bit position pos behind a random prefix, followed by tail, and runs the call.
// trunc >= 0 cuts the buffer to that many bits (end-of-input cases).
func (g *gen) emit(kind string, pos int, payload string, tail string, trunc int, endian string, method string, args ...string) string {
	all := randBits(g.r, pos) + payload + tail
	if trunc >= 0 && trunc < pos {
		trunc = pos // seeking past the end of the input is an error of its own (D.SeekAbs)
	}
	if trunc >= 0 && trunc < len(all) {
		all = all[:trunc]
	}
	buf, L := bitio.BytesFromBitString(all)
	shape := ""
	if g.shape != nil {
		shape = g.shape(pos, len(payload), int(L))
	}
	obs := runCase(g.o, shape, L, buf, int64(pos), endian, method, args)
	g.used[method] = true
	g.n++
	if len(payload) > 0 {
		sk := ""
		if shape != "" {
			sk = shape[:1]
		}
		g.o.Class(fmt.Sprintf("%s|%s|%d|%s|%s|%s", method, strings.Join(args, ","), pos%8, kind, endian, sk))
	}
	if g.n%9973 == 1 {
		g.o.Sample(fmt.Sprintf("rd %d %s %d %s %s %s -> %s", L, hlib.Hex(buf), pos, endian, method, strings.Join(args, " "), obs))
	}
	return obs
}

// patterns of n bits: zero, ones, first bit only, top bit of the last byte only (the sign bit of a
// little-endian value), alternating 01 / 10, + nRandom random ones
func patterns(r *hlib.Rand, n int, nRandom int) (kinds []string, ps []string) {
	add := func(k, p string) { kinds = append(kinds, k); ps = append(ps, p) }
	add("zero", strings.Repeat("0", n))
	add("ones", strings.Repeat("1", n))
	if n >= 1 {
		add("first", "1"+strings.Repeat("0", n-1))
		add("nfirst", "0"+strings.Repeat("1", n-1))
	}
	if n >= 9 {
		lb := ((n - 1) / 8) * 8 // first bit of the last (possibly partial) byte
		add("lesign", strings.Repeat("0", lb)+"1"+strings.Repeat("0", n-lb-1))
		add("nlesign", strings.Repeat("1", lb)+"0"+strings.Repeat("1", n-lb-1))
	}
	if n >= 2 {
		add("alt01", strings.Repeat("01", n)[:n])
		add("alt10", strings.Repeat("10", n)[:n])
	}
	for i := 0; i < nRandom; i++ {
		add("rand", randBits(r, n))
	}
	return
}

var fixedNumRE = regexp.MustCompile(`^(Try)?(Field)?(Scalar)?(U|S)([0-9]+)(LE|BE)?$`)

func (g *gen) tail() string { return randBits(g.r, g.r.Intn(13)) }

func (g *gen) endians(suffix string) []string {
	if suffix == "" {
		return []string{"be", "le"}
	}
	// the decoder's current endian must not matter: set it to the opposite
	if suffix == "LE" {
		return []string{"be"}
	}
	return []string{"le"}
}

// 1. fixed width integer readers U1..U64, S1..S64 (+LE/BE), all six layers
func (g *gen) fixedInts(methods []string) {
	nRand := 1
	if g.thorough {
		nRand = 6
	}
	for mi, m := range methods {
		sm := fixedNumRE.FindStringSubmatch(m)
		if sm == nil {
			continue
		}
		w, _ := strconv.Atoi(sm[5])
		layerTry := sm[1] == "Try" && sm[2] == ""
		var aligns []int
		if layerTry || g.thorough {
			aligns = []int{0, 1, 2, 3, 4, 5, 6, 7}
		} else {
			aligns = []int{(mi*3 + 1) % 8, (mi*5 + 4) % 8}
		}
		for _, e := range g.endians(sm[6]) {
			for _, a := range aligns {
				kinds, ps := patterns(g.r, w, nRand)
				for i, p := range ps {
					pos := a + 8*g.r.Intn(2)
					g.emit(kinds[i], pos, p, g.tail(), -1, e, m)
				}
			}
			// end of input: one bit short, half of it, nothing at all
			a := g.r.Intn(8)
			g.emit("eof", a, randBits(g.r, w), "", a+w-1, e, m)
			if w > 2 {
				g.emit("eof", a, randBits(g.r, w), "", a+w/2, e, m)
			}
		}
	}
	g.emit("eof", 3, "", "", -1, "be", "TryU8")
	g.emit("eof", 0, "", "", -1, "be", "U16LE")
}

var layers = []string{"Try", "", "TryFieldScalar", "FieldScalar", "TryField", "Field"}

// 2. readers with the width as an argument: U(n) S(n) UE(n,e) SE(n,e)
func (g *gen) genericInts() {
	widths := []int{-1, 0, 65, 66, 100}
	for n := 1; n <= 64; n++ {
		widths = append(widths, n)
	}
	for _, base := range []string{"U", "S"} {
		for wi, w := range widths {
			wn := w
			if wn < 0 || wn > 64 {
				wn = 8
			}
			kinds, ps := patterns(g.r, wn, 1)
			for i, p := range ps {
				layer := layers[(wi+i)%len(layers)]
				a := (wi*3 + i) % 8
				e := []string{"be", "le"}[(wi+i/2)%2]
				g.emit(kinds[i], a, p, g.tail(), -1, e, layer+base, strconv.Itoa(w))
				oe := []string{"le", "be"}[i%2]
				g.emit(kinds[i], a, p, g.tail(), -1, e, layer+base+"E", strconv.Itoa(w), oe)
			}
			if w >= 1 && w <= 64 {
				g.emit("eof", 5, randBits(g.r, w), "", 5+w-1, "be", layers[wi%len(layers)]+base, strconv.Itoa(w))
				g.emit("eof", 2, randBits(g.r, w), "", 2+w/2, "le", layers[(wi+1)%len(layers)]+base+"E", strconv.Itoa(w), "le")
			}
		}
	}
	// raw primitives
	for n := -1; n <= 66; n++ {
		a := (n + 9) % 8
		wn := n
		if wn < 0 {
			wn = 0
		}
		g.emit("rand", a, randBits(g.r, wn), g.tail(), -1, "be", "TryUintBits", strconv.Itoa(n))
		g.emit("rand", a, randBits(g.r, wn), g.tail(), -1, "be", "TryBits", strconv.Itoa(n))
		if n > 0 {
			g.emit("eof", a, randBits(g.r, wn), "", a+wn-1, "be", "TryUintBits", strconv.Itoa(n))
			g.emit("eof", a, randBits(g.r, wn), "", a+wn-1, "be", "TryBits", strconv.Itoa(n))
		}
	}
	for _, n := range []int{100, 200, 513} {
		g.emit("rand", 3, randBits(g.r, n), g.tail(), -1, "be", "TryBits", strconv.Itoa(n))
	}
}

// 3. big integers
func (g *gen) bigInts() {
	var widths []int
	for n := 0; n <= 72; n++ {
		widths = append(widths, n)
	}
	widths = append(widths, 127, 128, 129, 255, 256, 511, 512)
	nRand := 1
	if g.thorough {
		nRand = 5
	}
	ci := 0
	for _, base := range []string{"UBigInt", "SBigInt"} {
		for _, suf := range []string{"", "E", "LE", "BE"} {
			for _, w := range widths {
				kinds, ps := patterns(g.r, w, nRand)
				for i, p := range ps {
					ci++
					var aligns []int
					if g.thorough {
						aligns = []int{0, 1, 2, 3, 4, 5, 6, 7}
					} else {
						aligns = []int{ci % 8, (ci*3 + 5) % 8}
					}
					for _, a := range aligns {
						layer := layers[(ci+a)%len(layers)]
						e := []string{"be", "le"}[(ci+a/2)%2]
						args := []string{strconv.Itoa(w)}
						if suf == "E" {
							args = append(args, []string{"le", "be"}[(ci+a)%2])
						}
						g.emit(kinds[i], a+8*(ci%2), p, g.tail(), -1, e, layer+base+suf, args...)
					}
				}
				if w > 0 {
					args := []string{strconv.Itoa(w)}
					if suf == "E" {
						args = append(args, "le")
					}
					g.emit("eof", w%8, randBits(g.r, w), "", w%8+w-1, "be", layers[w%len(layers)]+base+suf, args...)
				}
			}
			args := []string{"-1"}
			if suf == "E" {
				args = append(args, "be")
			}
			g.emit("neg", 0, "", g.tail(), -1, "be", "Try"+base+suf, args...)
		}
	}
}

func f80Bits(se uint16, m uint64) string { return bitsOfUint(uint64(se), 16) + bitsOfUint(m, 64) }

func reverseByteString(bits string) string {
	var sb strings.Builder
	for i := len(bits) - 8; i >= 0; i -= 8 {
		sb.WriteString(bits[i : i+8])
	}
	return sb.String()
}

// 4. floats: every float16 pattern; float32/64/80 boundary sets + random
func (g *gen) floats() {
	sufs := []string{"", "LE", "BE"}
	// payload is given most significant byte first; for an LE read the bytes are reversed
	run := func(kind string, ci int, width int, msbFirst string) {
		suf := sufs[ci%3]
		layer := layers[(ci/3)%len(layers)]
		e := []string{"be", "le"}[(ci/18)%2]
		isLE := suf == "LE" || (suf == "" && e == "le")
		p := msbFirst
		if isLE {
			p = reverseByteString(p)
		}
		a := (ci / 7) % 8
		g.emit(kind, a, p, g.tail(), -1, e, layer+"F"+strconv.Itoa(width)+suf)
	}
	ci := 0
	step16 := 1
	if g.lite {
		step16 = 61
	}
	for h := 0; h < 65536; h += step16 {
		run("f16", ci, 16, bitsOfUint(uint64(h), 16))
		ci++
	}
	if !g.lite {
		g.o.Stat("float16_patterns_all", 1)
	}

	var b32 []uint64
	for _, s := range []uint64{0, 1 << 31} {
		for _, v := range []uint64{0, 1, 2, 0x7fffff, 0x400000, 0x800000, 0x800001, 0x7f7fffff, 0x7f800000, 0x7f800001,
			0x7fc00000, 0x7fffffff, 0x7fa00000, 0x3f800000, 0x3f800001, 0x3effffff, 0x00ffffff, 0x4b000000, 0x4b800000, 0x34000000} {
			b32 = append(b32, s|v)
		}
	}
	nr := 300
	if g.thorough {
		nr = 20000
	}
	if g.lite {
		nr = nr / 10
	}
	for i := 0; i < nr; i++ {
		v := g.r.U64() & 0xffffffff
		switch i % 4 {
		case 1: // small exponents (subnormal neighbourhood)
			v = v&0x80ffffff | uint64(g.r.Intn(3))<<23
		case 2: // large exponents
			v = v&0x80ffffff | uint64(253+g.r.Intn(3))<<23
		}
		b32 = append(b32, v)
	}
	for _, v := range b32 {
		for k := 0; k < 3; k++ {
			run("f32", ci, 32, bitsOfUint(v, 32))
			ci++
		}
	}

	var b64 []uint64
	for _, s := range []uint64{0, 1 << 63} {
		for _, v := range []uint64{0, 1, 2, 0xfffffffffffff, 0x8000000000000, 0x10000000000000, 0x10000000000001,
			0x7fefffffffffffff, 0x7ff0000000000000, 0x7ff0000000000001, 0x7ff8000000000000, 0x7fffffffffffffff,
			0x7ff4000000000000, 0x3ff0000000000000, 0x3ff0000000000001, 0x3fefffffffffffff, 0x4330000000000000, 0x4340000000000000} {
			b64 = append(b64, s|v)
		}
	}
	for i := 0; i < nr; i++ {
		v := g.r.U64()
		switch i % 4 {
		case 1:
			v = v&0x800fffffffffffff | uint64(g.r.Intn(3))<<52
		case 2:
			v = v&0x800fffffffffffff | uint64(2045+g.r.Intn(3))<<52
		}
		b64 = append(b64, v)
	}
	for _, v := range b64 {
		for k := 0; k < 3; k++ {
			run("f64", ci, 64, bitsOfUint(v, 64))
			ci++
		}
	}

	// float80: (se, m). exponent boundary set around the binary64 range, zero/denormal/pseudo-denormal,
	// unnormal (integer bit clear with exp != 0), infinities, NaNs, rounding ties at 53 bits.
	type f80 struct {
		se uint16
		m  uint64
	}
	var b80 []f80
	exps := []uint16{0, 1, 2, 0x3fff, 0x3ffe, 0x4000, 0x403e, 0x403f, 0x4040,
		0x3c00, 0x3c01, 0x3c02, 0x3bff, 0x3bfe, 0x3bcd, 0x3bcc, 0x3bcb, 0x3bca, 0x3bc9, 0x3b00, 0x3000, 0x0400,
		0x43fe, 0x43ff, 0x4400, 0x4401, 0x47cf, 0x5000, 0x7ffe, 0x7fff, 0x37cf /* 2^-2000 */}
	mants := []uint64{0, 1, 0x8000000000000000, 0x8000000000000001, 0xffffffffffffffff, 0xfffffffffffff800, 0xfffffffffffffc00,
		0xfffffffffffffbff, 0xfffffffffffffc01, 0x8000000000000400, 0x8000000000000c00, 0x8000000000000bff, 0x8000000000000401,
		0x4000000000000000, 0x7fffffffffffffff, 0xc000000000000000, 0x00000000000007ff, 0x0000000000000800,
		0x8000000000000800, 0x8000000000001800, 0x80000000000017ff, 0x8000000000001801, 0xaaaaaaaaaaaaaaaa, 0x5555555555555555}
	for _, e := range exps {
		for _, m := range mants {
			b80 = append(b80, f80{e, m}, f80{e | 0x8000, m})
		}
	}
	nr80 := 1500
	if g.thorough {
		nr80 = 40000
	}
	if g.lite {
		nr80 = nr80 / 10
	}
	for i := 0; i < nr80; i++ {
		m := g.r.U64()
		var e uint16
		switch i % 6 {
		case 0:
			e = uint16(g.r.Intn(0x8000))
		case 1: // binary64 normal range
			e = uint16(16383 - 1022 + g.r.Intn(2046))
		case 2: // binary64 subnormal range
			e = uint16(16383 - 1022 - 70 + g.r.Intn(75))
		case 3: // overflow boundary
			e = uint16(16383 + 1020 + g.r.Intn(8))
		case 4: // subnormal range, ties after the first rounding
			e = uint16(16383 - 1022 - 60 + g.r.Intn(62))
			m = m&^0x7ff | []uint64{0x400, 0x3ff, 0x401, 0, 0x7ff, 1}[g.r.Intn(6)]
			m |= 1 << 63
		default:
			e = uint16(g.r.Intn(0x8000))
			m |= 1 << 63
		}
		if g.r.Bool() {
			e |= 0x8000
		}
		b80 = append(b80, f80{e, m})
	}
	for _, v := range b80 {
		run("f80", ci, 80, f80Bits(v.se, v.m))
		ci += 5
	}

	// generic F(n) / FE(n,e) incl. unsupported sizes, end of input
	for i, n := range []int{16, 32, 64, 80, 0, 8, 24, 17, 128, -1} {
		wn := n
		if wn < 0 {
			wn = 0
		}
		for k := 0; k < 4; k++ {
			layer := layers[(i+k)%len(layers)]
			e := []string{"be", "le"}[k%2]
			g.emit("fgen", (i+k)%8, randBits(g.r, wn), g.tail(), -1, e, layer+"F", strconv.Itoa(n))
			g.emit("fgen", (i+k+3)%8, randBits(g.r, wn), g.tail(), -1, e, layer+"FE", strconv.Itoa(n), []string{"le", "be"}[k%2])
		}
		if n > 0 {
			g.emit("eof", 1, randBits(g.r, wn), "", wn, "be", layers[i%len(layers)]+"F", strconv.Itoa(n))
		}
	}
	for i, w := range []int{16, 32, 64, 80} {
		for li, layer := range layers {
			for si, suf := range sufs {
				g.emit("eof", (i+li+si)%8, randBits(g.r, w), "", (i+li+si)%8+w-1-si*7, "le", layer+"F"+strconv.Itoa(w)+suf)
			}
		}
	}
}

// 5. fixed point
func (g *gen) fixedPoint() {
	sufs := []string{"", "LE", "BE"}
	ci := 0
	nRand := 4
	if g.thorough {
		nRand = 40
	}
	for _, w := range []int{16, 32, 64} {
		kinds, ps := patterns(g.r, w, nRand)
		// rounding: values that do not fit 53 bits
		if w == 64 {
			for _, v := range []uint64{1<<53 + 1, 1<<54 + 2, 1<<54 + 3, 1<<54 + 1, 0xfffffffffffffbff, 0xfffffffffffffc00, 0xfffffffffffff800, 0xfffffffffffff7ff, 0x8000000000000400, 0x8000000000000c00} {
				kinds = append(kinds, "round")
				ps = append(ps, bitsOfUint(v, 64))
			}
		}
		for i, p := range ps {
			for _, suf := range sufs {
				for _, e := range g.endians(suf) {
					// all six layers on the boundary patterns, one (rotating) layer on the others
					ls := layers
					if i >= 8 && !g.thorough {
						ls = []string{layers[(ci+i)%len(layers)]}
					}
					for _, layer := range ls {
						ci++
						pl := p
						if suf == "LE" || (suf == "" && e == "le") {
							pl = reverseByteString(p)
						}
						g.emit(kinds[i], ci%8, pl, g.tail(), -1, e, layer+"FP"+strconv.Itoa(w)+suf)
					}
				}
			}
		}
		for li, layer := range layers {
			g.emit("eof", li, randBits(g.r, w), "", li+w-3, "be", layer+"FP"+strconv.Itoa(w)+sufs[li%3])
		}
	}
	// generic FP(n,f), FPE(n,f,e)
	for n := 0; n <= 65; n++ {
		for _, f := range []int{0, 1, 7, 8, 31, 32, 52, 53, 63, 64, 65, 70} {
			if (n+f)%3 != 0 && !g.thorough {
				continue
			}
			ci++
			wn := n
			if wn > 64 {
				wn = 8
			}
			p := randBits(g.r, wn)
			if ci%5 == 0 {
				p = strings.Repeat("0", wn)
			}
			e := []string{"be", "le"}[ci%2]
			g.emit("fpgen", ci%8, p, g.tail(), -1, e, layers[ci%len(layers)]+"FP", strconv.Itoa(n), strconv.Itoa(f))
			g.emit("fpgen", (ci+3)%8, p, g.tail(), -1, e, layers[(ci+1)%len(layers)]+"FPE", strconv.Itoa(n), strconv.Itoa(f), []string{"le", "be"}[(ci/2)%2])
		}
	}
}

func ulebEnc(v uint64, minLen int) string {
	var bs []byte
	for {
		b := byte(v & 0x7f)
		v >>= 7
		if v == 0 && len(bs)+1 >= minLen {
			bs = append(bs, b)
			break
		}
		bs = append(bs, b|0x80)
	}
	return bitsOfBytes(bs)
}

func slebEnc(v int64, minLen int) string {
	var bs []byte
	for {
		b := byte(v & 0x7f)
		v >>= 7
		done := (v == 0 && b&0x40 == 0) || (v == -1 && b&0x40 != 0)
		if done && len(bs)+1 >= minLen {
			bs = append(bs, b)
			break
		}
		bs = append(bs, b|0x80)
	}
	return bitsOfBytes(bs)
}

// 6. LEB128, unary, bool
func (g *gen) leb128() {
	ci := 0
	emit := func(kind string, base string, payload string, trunc bool) {
		ci++
		a := ci % 8
		layer := layers[(ci/8)%len(layers)]
		t := -1
		if trunc {
			t = a + len(payload)
		}
		tail := g.tail()
		if trunc {
			tail = ""
		}
		g.emit(kind, a, payload, tail, t, []string{"be", "le"}[ci%2], layer+base)
	}
	nRand := 6
	if g.thorough {
		nRand = 120
	}
	for l := 1; l <= 11; l++ {
		// raw byte strings of exactly l bytes: l-1 continuation bytes + a final byte
		finals := []byte{0x00, 0x01, 0x3f, 0x40, 0x7f, 0x7e, 0x02}
		conts := []byte{0x80, 0xff, 0x81, 0xc0, 0xbf}
		for _, c := range conts {
			for _, f := range finals {
				bs := make([]byte, l)
				for i := 0; i < l-1; i++ {
					bs[i] = c
				}
				bs[l-1] = f
				for _, base := range []string{"ULEB128", "SLEB128"} {
					emit("raw", base, bitsOfBytes(bs), false)
				}
			}
			// all continuation bytes, then end of input
			bs := make([]byte, l)
			for i := range bs {
				bs[i] = c
			}
			for _, base := range []string{"ULEB128", "SLEB128"} {
				emit("eof", base, bitsOfBytes(bs), true)
				emit("eof", base, bitsOfBytes(bs)+"101", true)
			}
		}
		for i := 0; i < nRand; i++ {
			bs := g.r.Bytes(l)
			for j := 0; j < l-1; j++ {
				bs[j] |= 0x80
			}
			bs[l-1] &= 0x7f
			if l >= 10 && i%2 == 0 {
				bs[9] = []byte{0, 0x7f, 1, 0x80, 0xff}[g.r.Intn(5)]
			}
			for _, base := range []string{"ULEB128", "SLEB128"} {
				emit("rand", base, bitsOfBytes(bs), false)
			}
		}
	}
	// canonical and over-long encodings of boundary values
	uvals := []uint64{0, 1, 127, 128, 16383, 16384, 1<<32 - 1, 1 << 32, 1<<56 - 1, 1 << 56, 1<<62 - 1, 1 << 62, 1<<63 - 1, 1 << 63, 1<<64 - 1}
	for i := 0; i < nRand*4; i++ {
		uvals = append(uvals, g.r.U64()>>uint(g.r.Intn(64)))
	}
	for _, v := range uvals {
		for _, ml := range []int{0, 3, 10} {
			emit("enc", "ULEB128", ulebEnc(v, ml), false)
		}
	}
	svals := []int64{0, 1, -1, 63, 64, -64, -65, 8191, 8192, -8192, -8193, 1<<62 - 1, 1 << 62, -(1 << 62), -(1 << 62) - 1, 1<<63 - 1, -(1 << 63), -(1 << 63) + 1}
	for i := 0; i < nRand*4; i++ {
		svals = append(svals, int64(g.r.U64())>>uint(g.r.Intn(64)))
	}
	for _, v := range svals {
		for _, ml := range []int{0, 3, 10} {
			emit("enc", "SLEB128", slebEnc(v, ml), false)
		}
	}
}

func (g *gen) unaryBool() {
	ci := 0
	for run := 0; run <= 130; run++ {
		for _, ov := range []int{0, 1} {
			ci++
			a := ci % 8
			layer := layers[ci%len(layers)]
			ones := strings.Repeat(strconv.Itoa(ov), run)
			term := strconv.Itoa(1 - ov)
			g.emit("run", a, ones+term, g.tail(), -1, "be", layer+"Unary", strconv.Itoa(ov))
			// to end of input without terminator
			g.emit("eof", a, ones, "", a+run, "be", layer+"Unary", strconv.Itoa(ov))
		}
	}
	for _, ov := range []string{"2", "255", "18446744073709551615"} {
		g.emit("run", 3, "0011", g.tail(), -1, "be", "TryUnary", ov)
		g.emit("run", 4, "1100", g.tail(), -1, "be", "Unary", ov)
	}
	for li, layer := range layers {
		for a := 0; a < 8; a++ {
			g.emit("bool", a, strconv.Itoa((a+li)%2), g.tail(), -1, "be", layer+"Bool")
		}
		g.emit("eof", li, "", "", -1, "be", layer+"Bool")
	}
}

var codePoints = []rune{'a', 'Z', '0', ' ', '~', 0x7f, 0x80, 0xe9, 0x7ff, 0x800, 0x20ac, 0xd7ff, 0xe000, 0xfffd, 0xffff,
	0x10000, 0x1f600, 0x10ffff, 0x1, 0x100, 0x0101, 0x4e2d}

func (g *gen) randString(maxLen int) []rune {
	n := g.r.Intn(maxLen + 1)
	rs := make([]rune, n)
	for i := range rs {
		if g.r.Intn(3) == 0 {
			rs[i] = rune('a' + g.r.Intn(26))
		} else {
			rs[i] = codePoints[g.r.Intn(len(codePoints))]
		}
	}
	return rs
}

func utf16Bytes(rs []rune, le bool) []byte {
	var bs []byte
	for _, u := range utf16.Encode(rs) {
		if le {
			bs = append(bs, byte(u), byte(u>>8))
		} else {
			bs = append(bs, byte(u>>8), byte(u))
		}
	}
	return bs
}

// 7. text readers over valid strings
func (g *gen) text() {
	n := 250
	if g.thorough {
		n = 6000
	}
	ci := 0
	for i := 0; i < n; i++ {
		rs := g.randString(12)
		if i < 8 {
			rs = rs[:0]
		}
		ci++
		a := ci % 8
		layer := func() string { return layers[g.r.Intn(len(layers))] }

		// UTF-8, optionally with BOM
		u8 := []byte(string(rs))
		if i%5 == 0 {
			u8 = append([]byte{0xef, 0xbb, 0xbf}, u8...)
		}
		u8b := bitsOfBytes(u8)
		g.emit("utf8", a, u8b, g.tail(), -1, "be", layer()+"UTF8", strconv.Itoa(len(u8)))
		g.emit("utf8", a, u8b, g.tail(), -1, "le", layer()+"Str", strconv.Itoa(len(u8)), "utf8")
		g.emit("utf8-eof", a, u8b, "", -1, "le", layer()+"Str", strconv.Itoa(len(u8)+1), []string{"utf8", "utf16be"}[i%2])
		// length beyond the end
		g.emit("utf8-eof", a, u8b, "101", -1, "be", layer()+"UTF8", strconv.Itoa(len(u8)+1))
		// null terminated (the generator never puts U+0000 into a string)
		g.emit("utf8null", a, u8b+"00000000", g.tail(), -1, "be", layer()+"UTF8Null")
		g.emit("utf8null-eof", a, u8b, "", a+len(u8b), "be", layer()+"UTF8Null")
		g.emit("utf8null-eof", a, u8b, "0000000", a+len(u8b)+7, "be", layer()+"UTF8Null")
		// fixed length with optional null
		pad := g.r.Intn(4)
		g.emit("utf8nullfixed", a, u8b+strings.Repeat("00000000", pad), g.tail(), -1, "be", layer()+"UTF8NullFixedLen", strconv.Itoa(len(u8)+pad))
		g.emit("utf8nullfixed", a, u8b+"00000000"+u8b, g.tail(), -1, "be", layer()+"UTF8NullFixedLen", strconv.Itoa(2*len(u8)+1))
		g.emit("utf8nullfixed-eof", a, u8b, "", -1, "be", layer()+"UTF8NullFixedLen", strconv.Itoa(len(u8)+1))
		// length prefixed
		if len(u8) < 256 {
			lp := bitsOfUint(uint64(len(u8)), 8)
			g.emit("short", a, lp+u8b, g.tail(), -1, "le", layer()+"UTF8ShortString")
			g.emit("short-eof", a, lp+u8b, "", a+8+len(u8b)-1-8*(i%2), "be", layer()+"UTF8ShortString")
			extra := g.r.Intn(4)
			fixed := 1 + len(u8) + extra
			g.emit("shortfixed", a, lp+u8b+randBits(g.r, 8*extra), g.tail(), -1, "be", layer()+"UTF8ShortStringFixedLen", strconv.Itoa(fixed))
			// the prefix says more than the fixed field holds: the string is cut to the field
			lp2 := bitsOfUint(uint64(len(u8)+extra+1+g.r.Intn(3)), 8)
			g.emit("shortfixed-clamp", a, lp2+bitsOfBytes([]byte(strings.Repeat("x", len(u8)+extra))), g.tail(), -1, "be", layer()+"UTF8ShortStringFixedLen", strconv.Itoa(fixed))
			g.emit("shortfixed-eof", a, lp+u8b, "", -1, "be", layer()+"UTF8ShortStringFixedLen", strconv.Itoa(len(u8)+2))
		}

		// UTF-16
		for _, le := range []bool{false, true} {
			bs := utf16Bytes(rs, le)
			name := "UTF16BE"
			if le {
				name = "UTF16LE"
			}
			bb := bitsOfBytes(bs)
			g.emit("utf16", a, bb, g.tail(), -1, "be", layer()+name, strconv.Itoa(len(bs)))
			g.emit("utf16null", a, bb+strings.Repeat("0", 16), g.tail(), -1, []string{"be", "le"}[i%2], layer()+name+"Null")
			g.emit("utf16null-eof", a, bb, []string{"", "00000000", "000000000000000"}[i%3], -1, "be", layer()+name+"Null")
			// BOM-selecting decoder: no BOM (little endian is the default), or a BOM of either order
			var bom []byte
			switch i % 3 {
			case 1:
				bom = utf16Bytes([]rune{0xfeff}, le)
			case 2:
				// BOM as text for the fixed-order decoders (kept as U+FEFF)
				g.emit("utf16-bomtext", a, bitsOfBytes(utf16Bytes([]rune{0xfeff}, le))+bb, g.tail(), -1, "be", layer()+name, strconv.Itoa(len(bs)+2))
			}
			if len(bom) > 0 || le {
				g.emit("utf16bom", a, bitsOfBytes(bom)+bb, g.tail(), -1, "be", layer()+"UTF16", strconv.Itoa(len(bom)+len(bs)))
				g.emit("utf16bomnull", a, bitsOfBytes(bom)+bb+strings.Repeat("0", 16), g.tail(), -1, "be", layer()+"UTF16Null")
				g.emit("utf16bom", a, bitsOfBytes(bom)+bb, g.tail(), -1, "be", layer()+"Str", strconv.Itoa(len(bom)+len(bs)), "utf16")
				g.emit("utf16", a, bb, g.tail(), -1, "be", layer()+"Str", strconv.Itoa(len(bs)), strings.ToLower(name))
			}
		}
	}
	// every layer of every text reader at least once
	for li, l := range layers {
		hello := bitsOfBytes([]byte("h\xc3\xa9llo"))
		h16le := bitsOfBytes(utf16Bytes([]rune("h\u00e9\U0001f600"), true))
		h16be := bitsOfBytes(utf16Bytes([]rune("h\u00e9\U0001f600"), false))
		g.emit("utf8", li, hello, g.tail(), -1, "be", l+"UTF8", "6")
		g.emit("utf8", li, hello, g.tail(), -1, "be", l+"Str", "6", "utf8")
		g.emit("utf8null", li, hello+"00000000", g.tail(), -1, "be", l+"UTF8Null")
		g.emit("utf8nullfixed", li, hello+"0000000000000000", g.tail(), -1, "be", l+"UTF8NullFixedLen", "8")
		g.emit("short", li, "00000110"+hello, g.tail(), -1, "be", l+"UTF8ShortString")
		g.emit("shortfixed", li, "00000110"+hello+"01010101", g.tail(), -1, "be", l+"UTF8ShortStringFixedLen", "8")
		g.emit("utf16", li, h16le, g.tail(), -1, "be", l+"UTF16", "8")
		g.emit("utf16", li, h16le, g.tail(), -1, "be", l+"UTF16LE", "8")
		g.emit("utf16", li, h16be, g.tail(), -1, "be", l+"UTF16BE", "8")
		g.emit("utf16null", li, h16le+strings.Repeat("0", 16), g.tail(), -1, "be", l+"UTF16Null")
		g.emit("utf16null", li, h16le+strings.Repeat("0", 16), g.tail(), -1, "be", l+"UTF16LENull")
		g.emit("utf16null", li, h16be+strings.Repeat("0", 16), g.tail(), -1, "be", l+"UTF16BENull")
	}
	// malformed text: arbitrary bytes (surrogate halves biased in)
	for i := 0; i < n/2; i++ {
		bs := g.r.Bytes(g.r.Intn(10))
		for j := range bs {
			if g.r.Intn(4) == 0 {
				bs[j] = byte(0xd8 + g.r.Intn(8))
			}
		}
		ci++
		a := ci % 8
		bb := bitsOfBytes(bs)
		for _, nm := range []string{"UTF8", "UTF16", "UTF16LE", "UTF16BE"} {
			g.emit("malformed", a, bb, g.tail(), -1, "be", layers[(ci+len(nm))%len(layers)]+nm, strconv.Itoa(len(bs)))
		}
	}
	// malformed UTF-8 built from ill-formed pieces (x/text replaces every maximal ill-formed subpart by
	// U+FFFD); long strings so that transform.String's 128-byte chunks cut sequences in the middle
	pieces := [][]byte{
		[]byte("a"), []byte("xyz"), {0xc3, 0xa9}, {0xe2, 0x82, 0xac}, {0xf0, 0x9f, 0x98, 0x80}, {0xef, 0xbb, 0xbf},
		{0xc3}, {0xe2}, {0xe2, 0x82}, {0xf0}, {0xf0, 0x9f}, {0xf0, 0x9f, 0x98}, // truncated
		{0xc0, 0x80}, {0xc1, 0xbf}, {0xe0, 0x80, 0x80}, {0xe0, 0x9f, 0xbf}, {0xf0, 0x80, 0x80, 0x80}, {0xf0, 0x8f, 0xbf, 0xbf}, // over-long
		{0xed, 0xa0, 0x80}, {0xed, 0xbf, 0xbf}, {0xed, 0x9f, 0xbf}, // surrogates (and the last scalar before them)
		{0xf4, 0x8f, 0xbf, 0xbf}, {0xf4, 0x90, 0x80, 0x80}, {0xf5, 0x80, 0x80, 0x80}, {0xff}, {0xfe}, {0xf8, 0x88, 0x80, 0x80, 0x80},
		{0x80}, {0xbf}, {0x80, 0x80, 0x80}, {0xe0, 0xa0}, {0xe0, 0xa0, 0x41}, {0xf0, 0x90, 0x41}, {0xf0, 0x90, 0x80, 0x41}, {0xc2, 0x41},
		{0xe1, 0x80, 0xc0}, {0xf1, 0x80, 0x80, 0xc0}, {0xf4, 0x8f}, {0xed, 0x9f}, {0xe0, 0xbf}, {0xf0, 0xbf, 0xbf},
	}
	nm := n
	for i := 0; i < nm; i++ {
		var bs []byte
		np := g.r.Intn(6)
		if i%7 == 0 {
			np = 40 + g.r.Intn(200) // long: several transform chunks
		}
		for j := 0; j < np; j++ {
			if g.r.Intn(5) == 0 {
				bs = append(bs, byte(0x80+g.r.Intn(0x80)))
			} else {
				bs = append(bs, pieces[g.r.Intn(len(pieces))]...)
			}
		}
		if i%7 == 0 && i%2 == 0 {
			// filler so that a multi-byte piece straddles offset 128 / 256
			bs = append(append([]byte(strings.Repeat("f", 125+g.r.Intn(4))), pieces[g.r.Intn(len(pieces))]...), bs...)
		}
		ci++
		a := ci % 8
		bb := bitsOfBytes(bs)
		l := func() string { return layers[g.r.Intn(len(layers))] }
		g.emit("mal8", a, bb, g.tail(), -1, "be", l()+"UTF8", strconv.Itoa(len(bs)))
		g.emit("mal8", a, bb+"00000000", g.tail(), -1, "be", l()+"UTF8Null")
		g.emit("mal8", a, bb+"00000000"+bb, g.tail(), -1, "be", l()+"UTF8NullFixedLen", strconv.Itoa(2*len(bs)+1))
		if len(bs) < 256 {
			g.emit("mal8", a, bitsOfUint(uint64(len(bs)), 8)+bb, g.tail(), -1, "be", l()+"UTF8ShortString")
		}
		// the same bytes as UTF-16 (odd lengths, unpaired and swapped surrogates)
		var ws []byte
		nu := g.r.Intn(8)
		if i%7 == 0 {
			nu = 60 + g.r.Intn(140)
		}
		for j := 0; j < nu; j++ {
			var u uint16
			switch g.r.Intn(5) {
			case 0:
				u = uint16(0xd800 + g.r.Intn(0x400))
			case 1:
				u = uint16(0xdc00 + g.r.Intn(0x400))
			case 2:
				u = []uint16{0xfeff, 0xfffe, 0xffff, 0xfffd, 0x0041}[g.r.Intn(5)]
			default:
				u = uint16(1 + g.r.Intn(0xffff))
			}
			ws = append(ws, byte(u>>8), byte(u))
		}
		if g.r.Intn(3) == 0 {
			ws = append(ws, byte(1+g.r.Intn(255)))
		}
		wb := bitsOfBytes(ws)
		for _, nm := range []string{"UTF16", "UTF16LE", "UTF16BE"} {
			g.emit("mal16", a, wb, g.tail(), -1, "be", l()+nm, strconv.Itoa(len(ws)))
		}
	}
	g.emit("neg", 0, "", g.tail(), -1, "be", "TryUTF8", "-1")
	g.emit("neg", 0, "", g.tail(), -1, "be", "TryUTF8NullFixedLen", "-1")
}

func joinInts(vs []int) string {
	ss := make([]string, len(vs))
	for i, v := range vs {
		ss[i] = strconv.Itoa(v)
	}
	return strings.Join(ss, ",")
}

// randomShape: how the input is delivered — part boundaries in and around the read [pos, pos+n)
func (g *gen) randomShape(pos, n, L int) string {
	if L == 0 {
		return ""
	}
	lo, hi := pos-2, pos+n+2
	if lo < 0 {
		lo = 0
	}
	if hi > L {
		hi = L
	}
	pick := func() int { return g.r.Range(lo, hi) }
	sorted := func(k int) []int {
		vs := make([]int, k)
		for i := range vs {
			vs[i] = pick()
		}
		for i := range vs {
			for j := i + 1; j < len(vs); j++ {
				if vs[j] < vs[i] {
					vs[i], vs[j] = vs[j], vs[i]
				}
			}
		}
		return vs
	}
	switch g.r.Intn(8) {
	case 0, 1:
		return "m:" + joinInts(sorted(1))
	case 2:
		return "m:" + joinInts(sorted(2))
	case 3:
		return "m:" + joinInts(sorted(3)) // repeated offsets: empty parts
	case 4: // a one-bit part (and an empty one)
		b := pick()
		if b+1 <= L {
			return "m:" + joinInts([]int{b, b, b + 1})
		}
		return "m:" + joinInts([]int{b})
	case 5:
		return fmt.Sprintf("s:%d:%s", 1+g.r.Intn(13), joinInts(sorted(1+g.r.Intn(2))))
	default:
		return fmt.Sprintf("k:%d", []int{1, 2, 3, 5, 7, 8, 9, 13, 16, 17, 64}[g.r.Intn(11)])
	}
}

// shapedSweep: every width x every part boundary from 2 bits before the read to 2 bits after it
func (g *gen) shapedSweep() {
	var b int
	g.shape = func(pos, n, L int) string { return fmt.Sprintf("m:%d", b) }
	for w := 1; w <= 64; w++ {
		aligns := []int{(w * 3) % 8}
		if g.thorough {
			aligns = []int{0, 1, 2, 3, 4, 5, 6, 7}
		}
		for _, a := range aligns {
			for b = 0; b <= a+w+10; b++ {
				tail := randBits(g.r, 10)
				switch b % 3 {
				case 0:
					g.emit("sweep", a, randBits(g.r, w), tail, -1, "be", "TryU", strconv.Itoa(w))
				case 1:
					g.emit("sweep", a, randBits(g.r, w), tail, -1, "le", "S", strconv.Itoa(w))
				default:
					g.emit("sweep", a, randBits(g.r, w), tail, -1, "be", fmt.Sprintf("FieldU%d", w))
				}
				if w%8 == 0 {
					g.emit("sweep", a, randBits(g.r, w), tail, -1, "be", fmt.Sprintf("TryU%dLE", w))
				}
			}
		}
	}
	// short reads of every size against every width
	for k := 1; k <= 17; k++ {
		kk := k
		g.shape = func(pos, n, L int) string { return fmt.Sprintf("k:%d", kk) }
		for w := 1; w <= 64; w++ {
			g.emit("short", (w+k)%8, randBits(g.r, w), randBits(g.r, 10), -1, "be", "TryU", strconv.Itoa(w))
		}
		for _, w := range []int{65, 72, 127, 128, 129, 255} {
			g.emit("short", (w+k)%8, randBits(g.r, w), randBits(g.r, 10), -1, "be", "TrySBigInt", strconv.Itoa(w))
		}
	}
	g.shape = nil
}

// fileCases: the readers on a regular file opened through the interpreter's `open` reader stack, the
// read placed so that it straddles the end of a read-ahead window (512 KiB after the first byte read)
// and other round offsets, at every bit alignment
func (g *gen) fileCases() {
	type target struct {
		at     int64 // byte offset the read straddles
		primes []int
	}
	const w = 512 * 1024
	targets := []target{
		{w, []int{0}},            // sequential decode from the start: first window [0, 512Ki)
		{2 * w, []int{0, w}},     // second window
		{w + 100, []int{100}},    // a decode that starts at byte 100
		{32768, []int{0}}, {65536, []int{0}}, {w - 32768, []int{0}}, {w + 32768, []int{0, w}},
	}
	if g.thorough {
		targets = append(targets, target{3 * w, []int{0, w, 2 * w}}, target{w + 1, []int{1}}, target{w + 4096, []int{4096}},
			target{1024, []int{0}}, target{4096, []int{0}})
	}
	type rd struct {
		method string
		args   []string
		bits   int // bits consumed (0: data dependent, window only)
		endian string
	}
	rds := []rd{
		{"TryU", []string{"64"}, 64, "be"}, {"TryU", []string{"13"}, 13, "be"}, {"U64LE", nil, 64, "be"}, {"TryS", []string{"37"}, 37, "le"},
		{"FieldU32", nil, 32, "be"}, {"TryF64", nil, 64, "be"}, {"F80LE", nil, 80, "be"}, {"TryFP32", nil, 32, "le"},
		{"TryUBigInt", []string{"129"}, 129, "be"}, {"TrySBigIntLE", []string{"128"}, 128, "be"},
		{"TryUTF8", []string{"12"}, 96, "be"}, {"FieldUTF16LE", []string{"10"}, 80, "be"}, {"TryUTF8NullFixedLen", []string{"9"}, 72, "be"},
		{"TryULEB128", nil, 0, "be"}, {"TrySLEB128", nil, 0, "be"}, {"TryUnary", []string{"0"}, 0, "be"}, {"TryBits", []string{"100"}, 100, "be"},
		{"TryUTF8Null", nil, 0, "be"}, {"TryUTF8ShortString", nil, 0, "be"},
	}
	fileBytes := int64(2*w + 70000)
	if g.thorough {
		fileBytes = 3*w + 70000
	}
	n := 0
	for ti, t := range targets {
		for ri, r := range rds {
			aligns := []int{0, 1, 2, 3, 4, 5, 6, 7}
			if ti > 0 && !g.thorough {
				if (ti+ri)%2 == 1 {
					continue
				}
				aligns = []int{(ti*3 + ri + 4) % 8}
			}
			for _, a := range aligns {
				// the read starts 1..k bytes before the target offset so that it crosses it
				span := r.bits
				if span == 0 {
					span = 16
				}
				back := int64(1 + g.r.Intn((span+7)/8))
				if span <= 8 {
					back = 1
				}
				startBit := (t.at-back)*8 + int64(a)
				if a > 0 && span <= 8 {
					startBit = t.at*8 - int64(a) // a short read that still crosses the byte offset
				}
				winOff := startBit/8 - 2
				if winOff < 0 {
					winOff = 0
				}
				winLen := int64(600) // long enough for the data dependent readers and the following read
				buf := make([]byte, winLen)
				for i := range buf {
					buf[i] = fillerByte(winOff + int64(i))
				}
				shape := fmt.Sprintf("f:%d:%d:%s", winOff, fileBytes, joinInts(t.primes))
				runCase(g.o, shape, winLen*8, buf, startBit-winOff*8, r.endian, r.method, r.args)
				g.used[r.method] = true
				g.o.Class(fmt.Sprintf("file|%s|%d|%d", r.method, t.at, a))
				n++
			}
		}
	}
	g.o.Stat("file_stack_cases", n)
}

// longText: text readers at and beyond internal sizes (65535 / 65536 / 65537 bytes, 32768 UTF-16 units,
// 200000 bytes): value AND position after AND the following read.  The input is run-length coded on
// the case line: one prefix byte, n repetitions of a unit, a zero terminator, tail bytes; read from
// bit offset a of the prefix byte, so the text is the bit-shifted stream.
func (g *gen) longText() {
	run := func(unitHex string, unit []byte, n int, a int, method string, args ...string) {
		var buf []byte
		buf = append(buf, 0xa5)
		for i := 0; i < n; i++ {
			buf = append(buf, unit...)
		}
		buf = append(buf, 0, 0, 0, 0, 0x77, 0x88, 0x99)
		hexText := fmt.Sprintf("a5.%dx%s.00000000778899", n, unitHex)
		runCaseHex(g.o, "", int64(len(buf))*8, buf, hexText, int64(a), "be", method, args)
		g.used[method] = true
		g.o.Class(fmt.Sprintf("long|%s|%d|%d", method, n, a))
	}
	ci := 0
	lay := func() string { ci++; return layers[ci%len(layers)] }
	lens8 := []int{65534, 65535, 65536, 65537}
	if g.thorough {
		lens8 = append(lens8, 65533, 65538, 131072, 200000)
	} else {
		lens8 = append(lens8, 200000)
	}
	for _, n := range lens8 {
		for _, a := range []int{0, 5} {
			run("61", []byte{0x61}, n, a, lay()+"UTF8Null")
		}
	}
	for _, n := range []int{32767, 32768, 32769} {
		for _, a := range []int{0, 3} {
			if a != 0 && n != 32768 && !g.thorough {
				continue
			}
			run("6100", []byte{0x61, 0x00}, n, a, lay()+"UTF16LENull")
			run("0061", []byte{0x00, 0x61}, n, a, lay()+"UTF16BENull")
			run("6100", []byte{0x61, 0x00}, n, a, lay()+"UTF16Null")
		}
	}
	// fixed length / fixed with null / length given beyond 64Ki
	run("c3a9", []byte{0xc3, 0xa9}, 33000, 0, lay()+"UTF8", "65536")
	run("c3a9", []byte{0xc3, 0xa9}, 33000, 4, lay()+"UTF8", "66001")
	run("61", []byte{0x61}, 65600, 2, lay()+"UTF8NullFixedLen", "65604")
	run("4100", []byte{0x41, 0x00}, 32800, 0, lay()+"UTF16LE", "65600")
	run("61", []byte{0x61}, 70000, 1, "TryBits", "524289")
	run("61", []byte{0x61}, 70000, 7, lay()+"UBigInt", "524291")
	g.o.Stat("long_text_cases", ci)
}

// fnCases: the bit functions themselves (bitio.ReverseBytes64, mathx.TwosComplement, expandF16ToF32
// through Float16.Float32, Float80.Float64) over all widths x boundary patterns x random values
func (g *gen) fnCases() {
	nRand := 24
	if g.thorough {
		nRand = 300
	}
	n := 0
	fn := func(ws ...string) { runFn(g.o, ws); n++ }
	for nb := 0; nb <= 65; nb++ {
		vals := []uint64{0, ^uint64(0), 0x0102030405060708, 0x8000000000000000, 0xf0e0d0c0b0a09080, 0x00ff00ff00ff00ff}
		for b := 0; b < 8; b++ {
			vals = append(vals, uint64(0xff)<<(8*uint(b)), uint64(0x81)<<(8*uint(b)))
		}
		for i := 0; i < nRand; i++ {
			vals = append(vals, g.r.U64())
		}
		for _, v := range vals {
			fn("rev64", strconv.Itoa(nb), strconv.FormatUint(v, 16))
			if nb < 64 {
				fn("rev64", strconv.Itoa(nb), strconv.FormatUint(v&(uint64(1)<<uint(nb)-1), 16))
			}
			if nb >= 1 && nb <= 64 {
				m := v
				if nb < 64 {
					m = v & (uint64(1)<<uint(nb) - 1)
				}
				fn("twos", strconv.Itoa(nb), strconv.FormatUint(m, 16))
			}
		}
		if nb >= 1 && nb <= 64 {
			fn("twos", strconv.Itoa(nb), strconv.FormatUint(uint64(1)<<uint(nb-1), 16))
			fn("twos", strconv.Itoa(nb), strconv.FormatUint(uint64(1)<<uint(nb-1)-1, 16))
		}
	}
	for h := 0; h < 65536; h++ {
		fn("f16", strconv.FormatUint(uint64(h), 16))
	}
	for _, e := range []uint16{0, 1, 2, 0x3fff, 0x4000, 0x403e, 0x3c00, 0x3c01, 0x3bff, 0x3bcd, 0x3bcc, 0x3bcb, 0x43fe, 0x43ff, 0x4400, 0x47cf, 0x37cf, 0x7ffe, 0x7fff} {
		for _, m := range []uint64{0, 1, 0x8000000000000000, 0x8000000000000001, 0xffffffffffffffff, 0xfffffffffffff800, 0xfffffffffffffc00, 0xfffffffffffffbff,
			0x8000000000000400, 0x8000000000000c00, 0x8000000000000bff, 0x4000000000000000, 0x7fffffffffffffff, 0x00000000000007ff} {
			fn("f80", strconv.FormatUint(uint64(e), 16), strconv.FormatUint(m, 16))
			fn("f80", strconv.FormatUint(uint64(e|0x8000), 16), strconv.FormatUint(m, 16))
		}
	}
	for i := 0; i < nRand*100; i++ {
		e := uint16(g.r.Intn(0x10000))
		if i%3 == 0 {
			e = uint16(16383-1100+g.r.Intn(2200)) | uint16(g.r.Intn(2))<<15
		}
		m := g.r.U64()
		if i%2 == 0 {
			m |= 1 << 63
		}
		fn("f80", strconv.FormatUint(uint64(e), 16), strconv.FormatUint(m, 16))
	}
	g.o.Stat("bit_function_cases", n)
	tieStats(g.o)
}

func generate(o *hlib.Out, cfg hlib.Config) {
	g := &gen{o: o, r: hlib.NewRand(cfg.Seed), thorough: cfg.Thorough(), used: map[string]bool{}}
	methods := readerMethods()
	g.fixedInts(methods)
	g.genericInts()
	g.bigInts()
	g.floats()
	g.fixedPoint()
	g.leb128()
	g.unaryBool()
	g.text()

	// the same families on inputs delivered as MultiReader concatenations (2-4 parts incl. empty and
	// one-bit parts, boundaries in and around the read), SectionReader-of-MultiReader, short-reading readers
	g.shapedSweep()
	g.lite = true
	g.shape = g.randomShape
	g.genericInts()
	g.bigInts()
	g.floats()
	g.fixedPoint()
	g.leb128()
	g.unaryBool()
	g.text()
	g.shape = nil
	g.lite = false

	g.longText()
	g.fileCases()
	g.fnCases()

	// every scalar reader method of *decode.D (by name) must have been exercised
	missing := 0
	for _, m := range methods {
		if !g.used[m] {
			missing++
			o.Verdict("BADOP", "reader method not exercised by the generator: "+m)
		}
	}
	// reader families of *decode.D (a base name with all six layer variants) that this check does not
	// know: not covered, listed in the evidence — not a violation (e.g. a new text encoding)
	layerRE := regexp.MustCompile(`^(Try)?(Field)?(Scalar)?(.+)$`)
	variants := map[string]int{}
	for i := 0; i < dType.NumMethod(); i++ {
		n := dType.Method(i).Name
		if m := layerRE.FindStringSubmatch(n); m != nil && !(m[3] == "Scalar" && m[2] == "") {
			variants[m[4]]++
		}
	}
	var unknown []string
	for base, c := range variants {
		if c >= 6 && !readerNameRE.MatchString(base) && !strings.HasSuffix(base, "Fn") {
			unknown = append(unknown, base)
		}
	}
	sort.Strings(unknown)
	o.Stat("reader_families_not_covered", len(unknown))
	for _, u := range unknown {
		o.Stat("not_covered_family_"+u, 1)
	}
	o.Stat("reader_methods", len(methods))
	o.Stat("reader_methods_exercised", len(methods)-missing)
	o.Stat("exhaustive_small_domain", 1)
}
