//go:build verif

// C02 harness, `histories` run: READ HISTORIES on ONE decoder.
//
//	hist [<shape>] <L> <hex> <step>;<step>;…  TAB  <obs>;<obs>;…
//
// shape / L / hex as for `rd` lines (main.go).  Every step first moves the decoder (d.SeekAbs), then:
//
//	r <P> <be|le> <M> <args…>        reader M at P                                   -> <outcome> <pos'> [c…]
//	sr <P> <n> <be|le> <M> <args…>   SeekAbs(P+n); SeekRel(-n); reader M             -> <outcome> <pos'> [c…]
//	pk <P> <n>                       TryPeekBits(n)                                  -> u:<v>|err:<k> <pos'>
//	pf <P> <be|le> <nBits> <maxLen> <t>  TryPeekFind(nBits, nBits, maxLen, v == t)   -> pf:<count>:<v>|pf:none|err:<k> <pos'>
//	bl <P>                           BitsLeft()                                      -> n:<v> <pos'>
//	ps <P>                           Pos()                                           -> n:<v> <pos'>
//	ch <kind> <P> <be|le> <M> <args…>  reader M inside a child decoder               -> <outcome> <pos' in the child> [c…] pp:<parent pos'>
//	      kind: st FieldStruct | ar FieldArray | fr:<n> FramedFn(n) | li:<n> LimitedFn(n) | ra:<n> RangeFn(P, n)
//	            sk:<Q> the decoder is at Q and calls SeekAbs(P, fn)
//
// an IOPanic of the seek itself -> `seekerr`, of BitBufRange -> `rangeerr`.
// The decoder's endian is set before each reader step.  One history = one case line.
package main

import (
	"context"
	"fmt"
	"reflect"
	"strconv"
	"strings"

	"github.com/wader/fq/internal/verifharness/hlib"
	"github.com/wader/fq/pkg/bitio"
	"github.com/wader/fq/pkg/decode"
)

// readObs: one reader call on d (already positioned): `<outcome> <pos'> [c…]`, positions relative to base
func readObs(d *decode.D, base int64, endian string, method string, args []string, name string) string {
	m, ok := dType.MethodByName(method)
	if !ok {
		return "nomethod"
	}
	curFieldName = name
	in, isField, err := buildArgs(m, args)
	curFieldName = "x"
	if err != nil {
		return "badargs"
	}
	if endian == "le" {
		d.Endian = decode.LittleEndian
	} else {
		d.Endian = decode.BigEndian
	}
	nBefore := -1
	if c, _ := d.Value.V.(*decode.Compound); c != nil {
		nBefore = len(c.Children)
	}
	var outcome string
	func() {
		defer func() {
			if r := recover(); r != nil {
				switch e := r.(type) {
				case decode.IOError:
					outcome = "ioerr:" + errClass(e.Err)
				case decode.DecoderError:
					outcome = "decerr"
				default:
					s := fmt.Sprint(r)
					switch {
					case strings.Contains(s, "nil pointer dereference"):
						outcome = "panic:nilderef"
					case strings.Contains(s, "makeslice"):
						outcome = "panic:makeslice"
					default:
						outcome = "panic:other"
					}
				}
			}
		}()
		out := reflectCall(d, m.Index, in)
		if len(out) == 0 {
			outcome = "novalue"
			return
		}
		last := out[len(out)-1]
		if last.Type() == errorType {
			if !last.IsNil() {
				outcome = "err:" + errClass(last.Interface().(error))
				return
			}
			out = out[:len(out)-1]
		}
		if len(out) != 1 {
			outcome = "unsupported-results"
			return
		}
		if method == "TryBits" || method == "Bits" {
			nb, _ := strconv.Atoi(args[0])
			// copy: the slice is the decoder's shared read buffer
			// the n bits read: the slice is the decoder's shared read buffer, and the bits of its last byte
			// beyond n are whatever an earlier read left there (bitio.ReadFull writes n bits) - not observed
			b := append([]byte{}, out[0].Bytes()...)[:bitio.BitsByteCount(int64(nb))]
			if nb%8 != 0 && len(b) > 0 {
				b[len(b)-1] &= byte(0xff) << uint(8-nb%8)
			}
			outcome = fmt.Sprintf("bits:%d:%s", nb, hlib.Hex(b))
			return
		}
		outcome = fmtValue(out[0])
	}()
	obs := fmt.Sprintf("%s %d", outcome, d.Pos()-base)
	if isField {
		c, _ := d.Value.V.(*decode.Compound)
		switch {
		case c == nil || nBefore < 0:
			obs += " c?"
		case len(c.Children) == nBefore:
			obs += " c-"
		case len(c.Children) == nBefore+1:
			ch := c.Children[len(c.Children)-1]
			obs += fmt.Sprintf(" c%d:%d", ch.Range.Start-base, ch.Range.Len)
			if ch.Name != name {
				obs += "!name"
			}
		default:
			obs += " cmany"
		}
	}
	return obs
}

// outer: a step's calls on the parent decoder; IOPanics of the seek / range primitives are observations
func outer(fn func() string) (obs string) {
	defer func() {
		if r := recover(); r != nil {
			if e, ok := r.(decode.IOError); ok {
				switch e.Op {
				case "SeekAbs", "SeekRel":
					obs = "seekerr"
				case "BitBufRange":
					obs = "rangeerr"
				default:
					obs = "ioerr-outer:" + e.Op
				}
				return
			}
			obs = "panic-outer"
		}
	}()
	return fn()
}

func histStep(d *decode.D, base int64, idx int, step string) string {
	ws := strings.Fields(step)
	if len(ws) < 2 {
		return "badstep"
	}
	num := func(s string) int64 { v, _ := strconv.ParseInt(s, 10, 64); return v }
	name := fmt.Sprintf("x%d", idx)
	switch {
	case ws[0] == "r" && len(ws) >= 4:
		return outer(func() string {
			d.SeekAbs(base + num(ws[1]))
			return readObs(d, base, ws[2], ws[3], ws[4:], name)
		})
	case ws[0] == "sr" && len(ws) >= 5:
		return outer(func() string {
			d.SeekAbs(base + num(ws[1]) + num(ws[2]))
			d.SeekRel(-num(ws[2]))
			return readObs(d, base, ws[3], ws[4], ws[5:], name)
		})
	case ws[0] == "pk" && len(ws) == 3:
		return outer(func() string {
			d.SeekAbs(base + num(ws[1]))
			v, err := d.TryPeekBits(int(num(ws[2])))
			if err != nil {
				return fmt.Sprintf("err:%s %d", errClass(err), d.Pos()-base)
			}
			return fmt.Sprintf("u:%d %d", v, d.Pos()-base)
		})
	case ws[0] == "pf" && len(ws) == 6:
		return outer(func() string {
			d.SeekAbs(base + num(ws[1]))
			if ws[2] == "le" {
				d.Endian = decode.LittleEndian
			} else {
				d.Endian = decode.BigEndian
			}
			nb := int(num(ws[3]))
			t, _ := strconv.ParseUint(ws[5], 10, 64)
			c, v, err := d.TryPeekFind(nb, int64(nb), num(ws[4]), func(v uint64) bool { return v == t })
			switch {
			case err != nil:
				return fmt.Sprintf("err:%s %d", errClass(err), d.Pos()-base)
			case c < 0:
				return fmt.Sprintf("pf:none %d", d.Pos()-base)
			}
			return fmt.Sprintf("pf:%d:%d %d", c, v, d.Pos()-base)
		})
	case ws[0] == "bl" && len(ws) == 2:
		return outer(func() string {
			d.SeekAbs(base + num(ws[1]))
			return fmt.Sprintf("n:%d %d", d.BitsLeft(), d.Pos()-base)
		})
	case ws[0] == "ps" && len(ws) == 2:
		return outer(func() string {
			d.SeekAbs(base + num(ws[1]))
			return fmt.Sprintf("n:%d %d", d.Pos()-base, d.Pos()-base)
		})
	case ws[0] == "ch" && len(ws) >= 5:
		kf := strings.Split(ws[1], ":")
		var kn int64
		if len(kf) == 2 {
			kn = num(kf[1])
		}
		p := base + num(ws[2])
		return outer(func() string {
			inner := "notcalled"
			fn := func(cd *decode.D) { inner = readObs(cd, base, ws[3], ws[4], ws[5:], name) }
			switch kf[0] {
			case "st":
				d.SeekAbs(p)
				d.FieldStruct(fmt.Sprintf("s%d", idx), fn)
			case "ar":
				d.SeekAbs(p)
				d.FieldArray(fmt.Sprintf("s%d", idx), fn)
			case "fr":
				d.SeekAbs(p)
				d.FramedFn(kn, fn)
			case "li":
				d.SeekAbs(p)
				d.LimitedFn(kn, fn)
			case "ra":
				d.SeekAbs(p)
				d.RangeFn(d.Pos(), kn, fn)
			case "sk":
				d.SeekAbs(base + kn)
				d.SeekAbs(p, fn)
			default:
				return "badstep"
			}
			return fmt.Sprintf("%s pp:%d", inner, d.Pos()-base)
		})
	}
	return "badstep"
}

// runHist runs the steps on ONE decoder over the input delivered in `shape`.
func runHist(o *hlib.Out, shape string, L int64, buf []byte, hexText string, steps []string) string {
	op := "hist "
	if shape != "" {
		op += shape + " "
	}
	op += fmt.Sprintf("%d %s %s", L, hexText, strings.Join(steps, ";"))
	var obss []string
	body := func(d *decode.D, base int64, primes []int64) {
		for _, p := range primes {
			d.SeekAbs(p * 8)
			d.U8()
		}
		for i, st := range steps {
			obss = append(obss, histStep(d, base, i, st))
		}
	}
	res := ""
	if strings.HasPrefix(shape, "f:") {
		sf := strings.Split(shape, ":")
		res = "badshape"
		if len(sf) == 4 {
			w, err := strconv.ParseInt(sf[1], 10, 64)
			ps, err2 := parseInts(sf[3])
			if err == nil && err2 == nil {
				base := w * 8
				ok := true
				for i, b := range buf {
					if fillerByte(w+int64(i)) != b {
						ok = false
					}
				}
				var primes []int64
				for _, p := range ps {
					primes = append(primes, int64(p))
				}
				if !ok {
					res = "window-is-not-the-file-content"
				} else {
					res = runFileCase(shape, func(d *decode.D) { body(d, base, primes) })
				}
			}
		}
	} else {
		f := &decode.Format{
			Name:     "verif_c02",
			RootName: "verif_c02",
			DecodeFn: func(d *decode.D) any {
				body(d, 0, nil)
				return nil
			},
		}
		g := &decode.Group{Name: "verif_c02", Formats: []*decode.Format{f}}
		r, panicked := hlib.Catch(func() string {
			br, err := buildReader(shape, L, buf)
			if err != nil {
				return "badshape"
			}
			_, _, err = decode.Decode(context.Background(), br, g, decode.Options{IsRoot: true})
			if err != nil {
				return "decode-error"
			}
			return ""
		})
		if panicked {
			res = "outer-" + strings.Fields(r)[0]
		} else {
			res = r
		}
	}
	obs := strings.Join(obss, ";")
	if res != "" {
		obs = res + " " + obs
	}
	o.Case(op, obs)
	return obs
}

func replayHist(o *hlib.Out, line string) {
	ws := strings.Fields(line)
	ws = ws[1:]
	shape := ""
	if _, err := strconv.ParseInt(ws[0], 10, 64); err != nil {
		shape = ws[0]
		ws = ws[1:]
	}
	if len(ws) < 3 {
		return
	}
	L, err := strconv.ParseInt(ws[0], 10, 64)
	buf, ok := expandHex(ws[1])
	if err != nil || !ok {
		return
	}
	runHist(o, shape, L, buf, ws[1], strings.Split(strings.Join(ws[2:], " "), ";"))
}

func reflectCall(d *decode.D, idx int, in []reflect.Value) []reflect.Value {
	return reflect.ValueOf(d).Method(idx).Call(in)
}
