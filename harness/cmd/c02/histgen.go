//go:build verif

package main

import (
	"fmt"
	"strconv"
	"strings"

	"github.com/wader/fq/internal/verifharness/hlib"
	"github.com/wader/fq/pkg/bitio"
)

// a reader of w bits: "<be|le> <Method> <args…>" + its family
type hreader struct {
	text string
	fam  string
}

// readersOf: every reader family that reads exactly w bits (same bit count, different families, BE and LE)
func readersOf(r *hlib.Rand, w int) []hreader {
	var rs []hreader
	add := func(fam, endian, method string, args ...string) {
		t := endian + " " + method
		if len(args) > 0 {
			t += " " + strings.Join(args, " ")
		}
		rs = append(rs, hreader{t, fam})
	}
	ws := strconv.Itoa(w)
	if w >= 1 && w <= 64 {
		if w >= 8 { // the LE / BE suffixed readers exist from 8 bits
			add("U-le", "be", "TryU"+ws+"LE")
			add("U-be", "le", "TryU"+ws+"BE")
			add("S-le", "be", "TryS"+ws+"LE")
			add("S-be", "le", "S"+ws+"BE")
			add("FieldU-le", "be", "FieldU"+ws+"LE")
			add("TryFieldU-be", "le", "TryFieldU"+ws+"BE")
		}
		add("U-cur-le", "le", "U"+ws)
		add("U-cur-be", "be", "TryU"+ws)
		add("UE-le", "be", "TryUE", ws, "le")
		add("S-cur-le", "le", "TryS", ws)
		add("FieldS-le", "le", "TryFieldS"+ws)
		add("uintbits", "be", "TryUintBits", ws)
		add("FP-le", "le", "TryFP", ws, strconv.Itoa(w/2))
	}
	if w == 16 || w == 32 || w == 64 || w == 80 {
		add("F-le", "be", "TryF"+ws+"LE")
		add("F-be", "le", "F"+ws+"BE")
		add("F-cur-le", "le", "TryF"+ws)
		add("FieldF-le", "be", "FieldF"+ws+"LE")
	}
	add("bits", "be", "TryBits", ws)
	add("big-be", "le", "TrySBigIntBE", ws)
	add("big-cur-be", "be", "TryUBigInt", ws)
	if w%8 == 0 {
		// little-endian big integers at widths that are not whole bytes are outside the property (lib/props/C02.json,
		// assumptions) AND history dependent in fq: tryBigIntEndianSign (read.go:62) byte-reverses the shared read
		// buffer whose last byte keeps, beyond the n bits read, what an earlier read left there; after the reversal
		// those stale bits are inside the value.  Not generated here; reported (reproduce: `hist 94 241da3b07e205a76ddecb3a4
		// r 28 be TryUBigIntLE 13;r 28 be TryUBigIntLE 13` -> 7168 then 7392).
		add("big-le", "be", "TryUBigIntLE", ws)
		add("big-cur-le", "le", "TrySBigInt", ws)
		add("FieldBig-le", "be", "FieldUBigIntLE", ws)
	}
	if w%8 == 0 && w >= 8 {
		add("utf8", "be", "TryUTF8", strconv.Itoa(w/8))
	}
	return rs
}

func isLE(h hreader) bool { return strings.Contains(h.fam, "le") }

type histGen struct {
	o     *hlib.Out
	r     *hlib.Rand
	n     int
	steps int
}

var histWidths = []int{8, 16, 16, 24, 32, 32, 40, 48, 56, 64, 64, 80, 80, 13, 7, 9, 33, 63, 1, 72, 128, 129}

func (g *histGen) pick(rs []hreader, le bool) hreader {
	for i := 0; i < 8; i++ {
		h := rs[g.r.Intn(len(rs))]
		if !le || isLE(h) {
			return h
		}
	}
	return rs[g.r.Intn(len(rs))]
}

func (g *histGen) childKind(p, w, L int) string {
	n := w + g.r.Intn(9)
	if g.r.Intn(6) == 0 && w > 1 {
		n = g.r.Intn(w) // the read does not fit the child's range
	}
	if p+n > L {
		n = L - p
	}
	switch g.r.Intn(6) {
	case 0:
		return "st"
	case 1:
		return "ar"
	case 2:
		return fmt.Sprintf("fr:%d", n)
	case 3:
		return fmt.Sprintf("li:%d", n)
	case 4:
		return fmt.Sprintf("ra:%d", n)
	}
	return fmt.Sprintf("sk:%d", g.r.Intn(L+1))
}

// one history of the given template; file: every read inside the window, no BitsLeft / PeekFind
func (g *histGen) history(tmpl int, file bool) (steps []string, L int, bits string, p int, w int, key string) {
	w = histWidths[g.r.Intn(len(histWidths))]
	L = 3*w + 16 + g.r.Intn(40)
	if file {
		L = 600 * 8
	}
	bits = randBits(g.r, L)
	p = g.r.Intn(L - 2*w + 1)
	if file {
		p = 8 + g.r.Intn(64)
	}
	if !file && g.r.Intn(12) == 0 {
		p = L - w + 1 + g.r.Intn(w) // the read at p runs past the end
		if p > L {
			p = L
		}
	}
	rs := readersOf(g.r, w)
	a, b, c := g.pick(rs, true), g.pick(rs, g.r.Bool()), g.pick(rs, false)
	rd := func(pos int, h hreader) string { return fmt.Sprintf("r %d %s", pos, h.text) }
	p2 := p + w
	if p2 > L {
		p2 = L
	}
	pw := w
	if pw > 64 {
		pw = 64
	}
	var fams []string
	switch tmpl {
	case 0: // same position twice, same reader
		steps = []string{rd(p, a), rd(p, a)}
		fams = []string{a.fam}
	case 1: // same position three times, same width, different families
		steps = []string{rd(p, a), rd(p, b), rd(p, c)}
		fams = []string{a.fam, b.fam, c.fam}
	case 2: // P, P+width, P
		steps = []string{rd(p, a), rd(p2, b), rd(p, c)}
		fams = []string{a.fam, b.fam, c.fam}
	case 3: // peek then read (after a little-endian read at the same position)
		steps = []string{rd(p, a), fmt.Sprintf("pk %d %d", p, pw), rd(p, b), fmt.Sprintf("pk %d %d", p, pw)}
		if g.r.Bool() {
			steps = steps[1:]
		}
		fams = []string{"peek", a.fam, b.fam}
	case 4: // Pos / BitsLeft / PeekFind between two reads
		mid := []string{fmt.Sprintf("ps %d", p)}
		if !file {
			mid = append(mid, fmt.Sprintf("bl %d", p))
			fb := []int{8, 8, 16, w}[g.r.Intn(4)]
			if fb > 64 {
				fb = 64
			}
			mid = append(mid, fmt.Sprintf("pf %d %s %d %d %d", p, []string{"be", "le"}[g.r.Intn(2)], fb, []int{-1, 0, fb, 3 * fb}[g.r.Intn(4)], g.r.Intn(4)))
		}
		steps = append(append([]string{rd(p, a)}, mid...), rd(p, b))
		fams = []string{"posinfo", a.fam, b.fam}
	case 5: // read, SeekRel(-width), read again
		steps = []string{rd(p, a), fmt.Sprintf("sr %d %d %s", p, g.r.Intn(L-p+1), b.text), rd(p, c)}
		fams = []string{"seekrel", a.fam, b.fam}
	case 6: // a read inside a child, then the parent reads at the same position
		k := g.childKind(p, w, L)
		steps = []string{fmt.Sprintf("ch %s %d %s", k, p, a.text), rd(p, b)}
		if g.r.Bool() {
			steps = append(steps, fmt.Sprintf("ch %s %d %s", g.childKind(p, w, L), p, c.text), rd(p, a))
		}
		fams = []string{"child-" + k[:2], a.fam, b.fam}
	case 7: // parent, child, parent
		k := g.childKind(p, w, L)
		steps = []string{rd(p, a), fmt.Sprintf("ch %s %d %s", k, p, b.text), rd(p, c)}
		fams = []string{"pchild-" + k[:2], a.fam, b.fam}
	default: // 2..6 random steps over two positions and two widths
		n := 2 + g.r.Intn(5)
		w2 := histWidths[g.r.Intn(len(histWidths))]
		if w2 > w {
			w2 = w
		}
		rs2 := readersOf(g.r, w2)
		for i := 0; i < n; i++ {
			pos := []int{p, p, p2, p + 8}[g.r.Intn(4)]
			if pos > L {
				pos = L
			}
			if file && pos+w > L {
				pos = p
			}
			h := g.pick(rs, g.r.Bool())
			if g.r.Intn(3) == 0 {
				h = g.pick(rs2, g.r.Bool())
			}
			switch g.r.Intn(7) {
			case 0:
				steps = append(steps, fmt.Sprintf("pk %d %d", pos, pw))
			case 1:
				steps = append(steps, fmt.Sprintf("ch %s %d %s", g.childKind(pos, w, L), pos, h.text))
			case 2:
				steps = append(steps, fmt.Sprintf("sr %d %d %s", pos, g.r.Intn(L-pos+1), h.text))
			default:
				steps = append(steps, rd(pos, h))
			}
		}
		fams = []string{"mix", strconv.Itoa(n)}
	}
	key = fmt.Sprintf("hist|%d|%d|%s|%d", tmpl, w, strings.Join(fams, ","), p%8)
	return
}

func generateHist(o *hlib.Out, cfg hlib.Config) {
	g := &histGen{o: o, r: hlib.NewRand(cfg.Seed ^ 0x68697374)}
	sg := &gen{o: o, r: g.r}
	total, files := 7000, 120
	if cfg.Thorough() {
		total, files = 120000, 1500
	}
	shapeCount := map[string]int{}
	for i := 0; i < total; i++ {
		tmpl := i % 9
		steps, L, bitstr, p, w, key := g.history(tmpl, false)
		buf, Lb := bitio.BytesFromBitString(bitstr)
		shape := ""
		if i%5 >= 2 { // 3 of 5: MultiReader / SectionReader-of-MultiReader / short-reading buffers
			shape = sg.randomShape(p, w, L)
		}
		sk := "plain"
		if shape != "" {
			sk = shape[:1]
		}
		shapeCount[sk]++
		obs := runHist(o, shape, Lb, buf, hlib.Hex(buf), steps)
		o.Class(key + "|" + sk)
		g.n++
		g.steps += len(steps)
		if i%1499 == 0 {
			o.Sample(fmt.Sprintf("hist %s %d %s %s -> %s", shape, Lb, hlib.Hex(buf), strings.Join(steps, ";"), obs))
		}
	}
	// file-backed: the window straddles the end of the first read-ahead window (512 KiB)
	const win = 512 * 1024
	for i := 0; i < files; i++ {
		steps, _, _, _, _, key := g.history(i%9, true)
		at := []int64{win, 2 * win, win + 100, 65536}[i%4]
		primes := [][]int{{0}, {0, win}, {100}, {0}}[i%4]
		winOff := at - 10 - int64(g.r.Intn(8))
		buf := make([]byte, 600)
		for j := range buf {
			buf[j] = fillerByte(winOff + int64(j))
		}
		shape := fmt.Sprintf("f:%d:%d:%s", winOff, int64(2*win+70000), joinInts(primes))
		runHist(o, shape, 600*8, buf, hlib.Hex(buf), steps)
		o.Class(key + "|f")
		shapeCount["f"]++
		g.n++
		g.steps += len(steps)
	}
	o.Stat("histories", g.n)
	o.Stat("history_steps", g.steps)
	for k, v := range shapeCount {
		o.Stat("histories_buffer_"+k, v)
	}
}
