//go:build verif

// C02 harness: calls the scalar reader methods of *decode.D (pkg/decode/decode_gen.go, read.go)
// by reflection from inside a DecodeFn that is run through the public decode.Decode entry point,
// and writes one case line per call for the Lean driver:
//
//	rd [<shape>] <L> <hex> <pos> <be|le> <Method> <args…> TAB <outcome> <pos'> [c<start>:<len>|c-] nx:<k>:<v>
//
// shape  how the L input bits are delivered to decode.Decode (default: one plain bit reader)
//          m:<b1>,<b2>,…      bitio.MultiReader of the parts [0,b1) [b1,b2) … [bk,L), each its own re-packed buffer
//                             (what fq builds for `[a,b]|tobits`); equal offsets give empty parts
//          s:<off>:<b1>,…     bitio.SectionReader [off, off+L) of a MultiReader over off junk bits + the input + junk
//          k:<k>              a reader that delivers at most k bits per ReadBitsAt call
//          f:<w>:<n>:<p1>,…   a REGULAR FILE of n filler bytes (fillerByte) on disk, opened by the real interpreter
//                             (`fq -d verif_c02 . file`: interp._open's aheadreadseeker → progressreadseeker →
//                             ctxreadseeker → os.File stack under bitio.IOBitReadSeeker); the case line's <hex> is
//                             the window of the file that starts at byte w, <pos> is relative to it; before the
//                             call one byte is read at each absolute byte offset p1,… (a sequential decode's
//                             read-ahead windows)
// hex    segments joined by `.`, each `<hexbytes>` or `<n>x<hexbytes>` (the bytes repeated n times)
//        the expected result does not depend on the shape: the driver ignores it
// nx     after the call a further TryUintBits(k), k = min(16, bits left) is made at the position the
//        call left: its value v (nx:0:0 at the end of the input, nx:e if it failed)
// L      length of the input in bits (the hex string is padded with zero bits to a byte)
// pos    bit position the decoder is moved to before the call (d.SeekAbs)
// be|le  d.Endian before the call ("current endian" readers)
// Method the Go method name on *decode.D; args: integers, be|le for Endian, utf8|utf16|utf16le|utf16be
// outcome  u:<dec> s:<dec> big:<dec> f:<Float64bits, 16 hex digits> b:0|1 t:<hex of the Go string>
//          bits:<n>:<hex>                 (TryBits)
//          err:eof|err:other               (the method returned a non-nil error)
//          ioerr:eof|ioerr:other|decerr    (the method panicked with the decode package's recoverable IOError / DecoderError)
//          panic:nilderef|panic:makeslice|panic:other   (Go runtime fault)
// pos'   d.Pos() after the call (also after a failure)
// c…     only for Field* methods: range of the field that was added, or c- if none was added
package main

import (
	"bytes"
	"context"
	"io/fs"
	"os"
	"path/filepath"

	"errors"
	"fmt"
	"io"
	"math"
	"math/big"
	"reflect"
	"regexp"
	"strconv"
	"strings"

	_ "github.com/wader/fq/format/all"
	"github.com/wader/fq/internal/mathx"
	"github.com/wader/fq/internal/verifharness/hlib"
	"github.com/wader/fq/pkg/interp"
	"github.com/wader/fq/pkg/bitio"
	"github.com/wader/fq/pkg/decode"
	"golang.org/x/text/encoding"
)

var dType = reflect.TypeOf(&decode.D{})
var endianType = reflect.TypeOf(decode.Endian(0))
var encodingType = reflect.TypeOf((*encoding.Encoding)(nil)).Elem()
var errorType = reflect.TypeOf((*error)(nil)).Elem()

func errClass(err error) string {
	if errors.Is(err, io.EOF) || errors.Is(err, io.ErrUnexpectedEOF) {
		return "eof"
	}
	return "other"
}

func encodingByName(s string) (encoding.Encoding, bool) {
	switch s {
	case "utf8":
		return decode.UTF8BOM, true
	case "utf16":
		return decode.UTF16BOM, true
	case "utf16le":
		return decode.UTF16LE, true
	case "utf16be":
		return decode.UTF16BE, true
	}
	return nil, false
}

// name given to the field a Field* method adds (histories: one name per step)
var curFieldName = "x"

// buildArgs converts the textual args to reflect values according to the method's signature.
// Field* methods get the field name "x"; variadic mappers get nothing.
func buildArgs(m reflect.Method, args []string) ([]reflect.Value, bool, error) {
	t := m.Type
	n := t.NumIn()
	if t.IsVariadic() {
		n--
	}
	var in []reflect.Value
	ai := 0
	isField := false
	for i := 1; i < n; i++ { // 0 is the receiver
		pt := t.In(i)
		if i == 1 && pt.Kind() == reflect.String && strings.Contains(m.Name, "Field") {
			in = append(in, reflect.ValueOf(curFieldName))
			isField = true
			continue
		}
		if ai >= len(args) {
			return nil, false, fmt.Errorf("too few args")
		}
		a := args[ai]
		ai++
		switch {
		case pt == endianType:
			switch a {
			case "be":
				in = append(in, reflect.ValueOf(decode.Endian(decode.BigEndian)))
			case "le":
				in = append(in, reflect.ValueOf(decode.Endian(decode.LittleEndian)))
			default:
				return nil, false, fmt.Errorf("bad endian %q", a)
			}
		case pt == encodingType:
			e, ok := encodingByName(a)
			if !ok {
				return nil, false, fmt.Errorf("bad encoding %q", a)
			}
			in = append(in, reflect.ValueOf(e))
		case pt.Kind() == reflect.Int || pt.Kind() == reflect.Int64:
			v, err := strconv.ParseInt(a, 10, 64)
			if err != nil {
				return nil, false, err
			}
			in = append(in, reflect.ValueOf(v).Convert(pt))
		case pt.Kind() == reflect.Uint64:
			v, err := strconv.ParseUint(a, 10, 64)
			if err != nil {
				return nil, false, err
			}
			in = append(in, reflect.ValueOf(v).Convert(pt))
		default:
			return nil, false, fmt.Errorf("unsupported parameter type %s", pt)
		}
	}
	if ai != len(args) {
		return nil, false, fmt.Errorf("too many args")
	}
	return in, isField, nil
}

func fmtValue(v reflect.Value) string {
	if v.Kind() == reflect.Ptr && !v.IsNil() && v.Elem().Kind() == reflect.Struct && v.Type() != reflect.TypeOf(&big.Int{}) {
		// *scalar.Uint etc: the value is .Actual
		f := v.Elem().FieldByName("Actual")
		if f.IsValid() {
			return fmtValue(f)
		}
	}
	switch x := v.Interface().(type) {
	case uint64:
		return "u:" + strconv.FormatUint(x, 10)
	case int64:
		return "s:" + strconv.FormatInt(x, 10)
	case float64:
		return fmt.Sprintf("f:%016x", math.Float64bits(x))
	case bool:
		if x {
			return "b:1"
		}
		return "b:0"
	case string:
		return "t:" + hlib.Hex([]byte(x))
	case *big.Int:
		if x == nil {
			return "nil"
		}
		return "big:" + x.String()
	case []byte:
		return "bytes:" + hlib.Hex(x)
	}
	if v.Kind() == reflect.Ptr && v.IsNil() {
		return "nil"
	}
	return "unsupported:" + v.Type().String()
}

// callReader performs one reader call on d and returns the observation.
func callReader(d *decode.D, base int64, primes []int64, pos int64, endian string, method string, args []string) string {
	for _, p := range primes {
		d.SeekAbs(p * 8)
		d.U8()
	}
	pos += base
	m, ok := dType.MethodByName(method)
	if !ok {
		return "nomethod"
	}
	in, isField, err := buildArgs(m, args)
	if err != nil {
		return "badargs:" + err.Error()
	}
	if endian == "le" {
		d.Endian = decode.LittleEndian
	} else {
		d.Endian = decode.BigEndian
	}
	d.SeekAbs(pos)

	var outcome string
	func() {
		defer func() {
			if r := recover(); r != nil {
				switch e := r.(type) {
				case decode.IOError:
					outcome = "ioerr:" + errClass(e.Err)
				case decode.DecoderError:
					outcome = "decerr"
				default:
					s := fmt.Sprint(r)
					switch {
					case strings.Contains(s, "nil pointer dereference"):
						outcome = "panic:nilderef"
					case strings.Contains(s, "makeslice"):
						outcome = "panic:makeslice"
					default:
						outcome = "panic:other"
					}
				}
			}
		}()
		out := reflect.ValueOf(d).Method(m.Index).Call(in)
		if len(out) == 0 {
			outcome = "novalue"
			return
		}
		last := out[len(out)-1]
		if last.Type() == errorType {
			if !last.IsNil() {
				outcome = "err:" + errClass(last.Interface().(error))
				return
			}
			out = out[:len(out)-1]
		}
		if len(out) != 1 {
			outcome = "unsupported-results"
			return
		}
		if method == "TryBits" || method == "Bits" {
			nb, _ := strconv.Atoi(args[0])
			outcome = fmt.Sprintf("bits:%d:%s", nb, hlib.Hex(out[0].Bytes()))
			return
		}
		outcome = fmtValue(out[0])
	}()

	obs := fmt.Sprintf("%s %d", outcome, d.Pos()-base)
	if isField {
		c, _ := d.Value.V.(*decode.Compound)
		switch {
		case c == nil:
			obs += " c?"
		case len(c.Children) == 0:
			obs += " c-"
		case len(c.Children) == 1:
			ch := c.Children[0]
			obs += fmt.Sprintf(" c%d:%d", ch.Range.Start-base, ch.Range.Len)
			if ch.Name != "x" {
				obs += "!name"
			}
		default:
			obs += " cmany"
		}
	}
	// a following read from where the call left the decoder
	func() {
		defer func() {
			if r := recover(); r != nil {
				obs += " nx:e"
			}
		}()
		k := d.BitsLeft()
		if k > 16 {
			k = 16
		}
		if k <= 0 {
			obs += " nx:0:0"
			return
		}
		v, err := d.TryUintBits(int(k))
		if err != nil {
			obs += " nx:e"
			return
		}
		obs += fmt.Sprintf(" nx:%d:%d", k, v)
	}()
	return obs
}

// shortReader delivers at most k bits per ReadBitsAt call (a legal short read: no error).
type shortReader struct {
	r   bitio.ReaderAtSeeker
	k   int64
	pos int64
}

func (s *shortReader) ReadBitsAt(p []byte, nBits int64, bitOff int64) (int64, error) {
	if nBits > s.k {
		nBits = s.k
	}
	return s.r.ReadBitsAt(p, nBits, bitOff)
}

func (s *shortReader) ReadBits(p []byte, nBits int64) (int64, error) {
	n, err := s.ReadBitsAt(p, nBits, s.pos)
	s.pos += n
	return n, err
}

func (s *shortReader) SeekBits(bitOff int64, whence int) (int64, error) {
	if whence == io.SeekCurrent {
		bitOff += s.pos
		whence = io.SeekStart
	}
	n, err := s.r.SeekBits(bitOff, whence)
	if err != nil {
		return 0, err
	}
	s.pos = n
	return n, nil
}

func multiOf(bits string, bounds []int) (bitio.ReaderAtSeeker, error) {
	var parts []bitio.ReadAtSeeker
	prev := 0
	for _, b := range append(append([]int{}, bounds...), len(bits)) {
		if b < prev || b > len(bits) {
			return nil, fmt.Errorf("bad part boundary %d", b)
		}
		pb, pn := bitio.BytesFromBitString(bits[prev:b])
		parts = append(parts, bitio.NewBitReader(pb, pn))
		prev = b
	}
	return bitio.NewMultiReader(parts...)
}

func parseInts(s string) ([]int, error) {
	if s == "" {
		return nil, nil
	}
	var r []int
	for _, w := range strings.Split(s, ",") {
		v, err := strconv.Atoi(w)
		if err != nil {
			return nil, err
		}
		r = append(r, v)
	}
	return r, nil
}

// buildReader delivers the L input bits in the given shape.
func buildReader(shape string, L int64, buf []byte) (bitio.ReaderAtSeeker, error) {
	if shape == "" {
		return bitio.NewBitReader(buf, L), nil
	}
	bits := bitio.BitStringFromBytes(buf, L)
	f := strings.Split(shape, ":")
	switch {
	case f[0] == "m" && len(f) == 2:
		bs, err := parseInts(f[1])
		if err != nil {
			return nil, err
		}
		return multiOf(bits, bs)
	case f[0] == "s" && len(f) == 3:
		off, err := strconv.Atoi(f[1])
		if err != nil || off < 0 {
			return nil, fmt.Errorf("bad section offset")
		}
		bs, err := parseInts(f[2])
		if err != nil {
			return nil, err
		}
		// deterministic junk around the input
		junk := func(n int, seed byte) string {
			var sb strings.Builder
			for i := 0; i < n; i++ {
				sb.WriteByte('0' + ((seed>>uint(i%7))^byte(i))&1)
			}
			return sb.String()
		}
		for i := range bs {
			bs[i] += off
		}
		all := junk(off, 0x5a) + bits + junk(11, 0xc3)
		mr, err := multiOf(all, append([]int{off / 2}, bs...))
		if err != nil {
			return nil, err
		}
		return bitio.NewSectionReader(mr, int64(off), L), nil
	case f[0] == "k" && len(f) == 2:
		k, err := strconv.Atoi(f[1])
		if err != nil || k < 1 {
			return nil, fmt.Errorf("bad k")
		}
		return &shortReader{r: bitio.NewBitReader(buf, L), k: int64(k)}, nil
	}
	return nil, fmt.Errorf("bad shape %q", shape)
}

// runCase decodes `buf` (L bits, delivered in `shape`) with a one-off format whose DecodeFn performs the call.
func runCase(o *hlib.Out, shape string, L int64, buf []byte, pos int64, endian string, method string, args []string) string {
	return runCaseHex(o, shape, L, buf, hlib.Hex(buf), pos, endian, method, args)
}

// fillerByte: the content of the files of the f: shape
func fillerByte(i int64) byte { return byte(i*131 + (i>>8)*17 + (i>>16)*29 + 0x5b) }

var fileCache = map[int64]string{}

func fillerFile(n int64) (dir string, name string, err error) {
	name = fmt.Sprintf("c02_%d.bin", n)
	dir = os.Getenv("VERIF_WORK")
	if dir == "" {
		dir = os.TempDir()
	}
	if _, ok := fileCache[n]; ok {
		return dir, name, nil
	}
	b := make([]byte, n)
	for i := range b {
		b[i] = fillerByte(int64(i))
	}
	if err := os.WriteFile(filepath.Join(dir, name), b, 0o644); err != nil {
		return "", "", err
	}
	fileCache[n] = name
	return dir, name, nil
}

// the pending call of the registered format verif_c02 (the interpreter runs the DecodeFn)
var pending func(d *decode.D)

var verifGroup = &decode.Group{Name: "verif_c02"}

func init() {
	interp.RegisterFormat(verifGroup, &decode.Format{
		Description: "C02 harness: performs the pending reader call",
		DecodeFn: func(d *decode.D) any {
			if pending != nil {
				pending(d)
			}
			return nil
		},
	})
}

type vout struct{ buf *bytes.Buffer }

func (o vout) Write(p []byte) (int, error) { return o.buf.Write(p) }
func (vout) Size() (int, int)              { return 120, 25 }
func (vout) IsTerminal() bool              { return false }

type vin struct{ interp.FileReader }

func (vin) Size() (int, int) { return 120, 25 }
func (vin) IsTerminal() bool { return false }

type vos struct {
	args []string
	fsys fs.FS
	out  *bytes.Buffer
}

func (o *vos) Platform() interp.Platform                    { return interp.Platform{OS: "verif", Arch: "verif"} }
func (o *vos) Stdin() interp.Input                          { return vin{interp.FileReader{R: bytes.NewReader(nil)}} }
func (o *vos) Stdout() interp.Output                        { return vout{o.out} }
func (o *vos) Stderr() interp.Output                        { return vout{o.out} }
func (o *vos) InterruptChan() chan struct{}                 { return nil }
func (o *vos) Args() []string                               { return o.args }
func (o *vos) Environ() []string                            { return nil }
func (o *vos) ConfigDir() (string, error)                   { return "/config", nil }
func (o *vos) FS() fs.FS                                    { return o.fsys }
func (o *vos) Readline(interp.ReadlineOpts) (string, error) { return "", io.EOF }
func (o *vos) History() ([]string, error)                   { return nil, nil }

// runFileCase: the call on a regular file opened by the real interpreter
func runFileCase(shape string, fn func(d *decode.D)) string {
	f := strings.Split(shape, ":")
	if len(f) != 4 {
		return "badshape"
	}
	n, err := strconv.ParseInt(f[2], 10, 64)
	if err != nil || n <= 0 || n > 64<<20 {
		return "badshape"
	}
	dir, name, err := fillerFile(n)
	if err != nil {
		return "nofile"
	}
	pending = fn
	defer func() { pending = nil }()
	vo := &vos{args: []string{"fq", "-d", "verif_c02", "empty", name}, fsys: os.DirFS(dir), out: &bytes.Buffer{}}
	res, panicked := hlib.Catch(func() string {
		i, err := interp.New(vo, interp.DefaultRegistry)
		if err != nil {
			return "interp-new-error"
		}
		ctx, cancel := context.WithCancel(context.Background())
		defer cancel()
		err = i.Main(ctx, vo.Stdout(), "verif")
		i.Stop()
		if err != nil {
			return "main-error"
		}
		return ""
	})
	if panicked {
		return "outer-panic"
	}
	return res
}

func runCaseHex(o *hlib.Out, shape string, L int64, buf []byte, hexText string, pos int64, endian string, method string, args []string) string {
	op := "rd "
	if shape != "" {
		op += shape + " "
	}
	op += fmt.Sprintf("%d %s %d %s %s", L, hexText, pos, endian, method)
	if len(args) > 0 {
		op += " " + strings.Join(args, " ")
	}
	obs := "nodecode"
	if strings.HasPrefix(shape, "f:") {
		sf := strings.Split(shape, ":")
		var base int64
		var primes []int64
		ok := len(sf) == 4
		if ok {
			w, err := strconv.ParseInt(sf[1], 10, 64)
			ps, err2 := parseInts(sf[3])
			ok = err == nil && err2 == nil
			base = w * 8
			for _, p := range ps {
				primes = append(primes, int64(p))
			}
		}
		res := "badshape"
		if ok {
			// the window given on the case line must be what the file holds there
			for i, b := range buf {
				if fillerByte(base/8+int64(i)) != b {
					ok = false
				}
			}
			if !ok {
				res = "window-is-not-the-file-content"
			} else {
				res = runFileCase(shape, func(d *decode.D) {
					obs = callReader(d, base, primes, pos, endian, method, args)
				})
			}
		}
		if res != "" {
			obs = res + " " + obs
		}
		o.Case(op, obs)
		return obs
	}
	f := &decode.Format{
		Name:     "verif_c02",
		RootName: "verif_c02",
		DecodeFn: func(d *decode.D) any {
			obs = callReader(d, 0, nil, pos, endian, method, args)
			return nil
		},
	}
	g := &decode.Group{Name: "verif_c02", Formats: []*decode.Format{f}}
	res, panicked := hlib.Catch(func() string {
		br, err := buildReader(shape, L, buf)
		if err != nil {
			return "badshape"
		}
		_, _, err = decode.Decode(context.Background(), br, g, decode.Options{IsRoot: true})
		if err != nil {
			return "decode-error"
		}
		return ""
	})
	if panicked {
		obs = "outer-" + strings.Fields(res)[0] + " " + obs
	} else if res != "" {
		obs = res + " " + obs
	}
	o.Case(op, obs)
	return obs
}

// ---- direct calls of the bit functions the model translates (their tie when the source is not in
// the translator's fragment, and an additional check when it is):
//
//	fn rev64 <nBits> <n hex>   bitio.ReverseBytes64            -> u:<dec> | panic
//	fn twos <nBits> <n hex>    mathx.TwosComplement            -> s:<dec>
//	fn f16 <h hex>             mathx.Float16(h).Float32() bits -> u:<dec>   (expandF16ToF32)
//	fn f80 <se hex> <m hex>    NewFloat80FromBytes(..).Float64 -> f:<Float64bits>
func runFn(o *hlib.Out, ws []string) {
	op := "fn " + strings.Join(ws, " ")
	hexv := func(s string) uint64 { v, _ := strconv.ParseUint(s, 16, 64); return v }
	obs, _ := hlib.Catch(func() string {
		switch {
		case ws[0] == "rev64" && len(ws) == 3:
			nb, _ := strconv.Atoi(ws[1])
			return "u:" + strconv.FormatUint(bitio.ReverseBytes64(nb, hexv(ws[2])), 10)
		case ws[0] == "twos" && len(ws) == 3:
			nb, _ := strconv.Atoi(ws[1])
			return "s:" + strconv.FormatInt(mathx.TwosComplement(nb, hexv(ws[2])), 10)
		case ws[0] == "f16" && len(ws) == 2:
			return "u:" + strconv.FormatUint(uint64(math.Float32bits(mathx.Float16(hexv(ws[1])).Float32())), 10)
		case ws[0] == "f80" && len(ws) == 3:
			se, m := hexv(ws[1]), hexv(ws[2])
			b := []byte{byte(se >> 8), byte(se), byte(m >> 56), byte(m >> 48), byte(m >> 40), byte(m >> 32), byte(m >> 24), byte(m >> 16), byte(m >> 8), byte(m)}
			return fmt.Sprintf("f:%016x", math.Float64bits(mathx.NewFloat80FromBytes(b).Float64()))
		}
		return "badfn"
	})
	if strings.HasPrefix(obs, "panic:") {
		obs = "panic"
	}
	o.Case(op, obs)
}

// tieStats reports, per translated bit function, whether this run's tie is the regenerated definition
// (the generator's <fn>_same_as_model marker in lean/FqModel/Gen/BitFns.lean) or the correspondence run
func tieStats(o *hlib.Out) {
	src, err := os.ReadFile(filepath.Join(os.Getenv("VERIF_DIR"), "lean", "FqModel", "Gen", "BitFns.lean"))
	if err != nil {
		return
	}
	for _, fn := range []string{"reverseBytes64", "twosComplement", "expandF16ToF32", "f80to64"} {
		if strings.Contains(string(src), "def "+fn+"_same_as_model : Bool := true") {
			o.Stat("tie_regenerated_"+fn, 1)
		} else {
			o.Stat("tie_correspondence_only_"+fn, 1)
		}
		if strings.Contains(string(src), "def "+fn+"_translated : Bool := false") {
			o.Stat("not_translatable_"+fn, 1)
		}
	}
}

// expandHex: `.`-joined segments, each `<hex>` or `<n>x<hex>`
func expandHex(s string) ([]byte, bool) {
	if s == "-" {
		return nil, true
	}
	var out []byte
	for _, seg := range strings.Split(s, ".") {
		n := 1
		if i := strings.IndexByte(seg, 'x'); i >= 0 {
			v, err := strconv.Atoi(seg[:i])
			if err != nil || v < 0 || v > 1<<24 {
				return nil, false
			}
			n, seg = v, seg[i+1:]
		}
		b, err := hexDecode(seg)
		if err != nil {
			return nil, false
		}
		for i := 0; i < n; i++ {
			out = append(out, b...)
		}
	}
	return out, true
}

func hexDecode(s string) ([]byte, error) {
	if len(s)%2 != 0 {
		return nil, fmt.Errorf("odd hex")
	}
	b := make([]byte, len(s)/2)
	for i := range b {
		v, err := strconv.ParseUint(s[2*i:2*i+2], 16, 8)
		if err != nil {
			return nil, err
		}
		b[i] = byte(v)
	}
	return b, nil
}

var readerNameRE = regexp.MustCompile(`^(Try)?(Field)?(Scalar)?(U|S|F|FP)([0-9]+)?(E|LE|BE)?$|^(Try)?(Field)?(Scalar)?([US]BigInt(E|LE|BE)?|Bool|Unary|ULEB128|SLEB128|UTF8|UTF16|UTF16LE|UTF16BE|UTF8Null|UTF16Null|UTF16LENull|UTF16BENull|UTF8NullFixedLen|UTF8ShortString|UTF8ShortStringFixedLen|Str)$`)

// readerMethods lists the methods of *decode.D that are scalar readers by their name.
func readerMethods() []string {
	var ns []string
	for i := 0; i < dType.NumMethod(); i++ {
		n := dType.Method(i).Name
		if readerNameRE.MatchString(n) {
			ns = append(ns, n)
		}
	}
	return ns
}

func main() {
	cfg := hlib.ParseFlags()
	o := hlib.NewOut(cfg.Out)
	defer o.Close()

	if cfg.Replay != "" {
		for _, l := range hlib.ReplayLines(cfg.Replay) {
			ws := strings.Fields(l)
			if len(ws) >= 2 && ws[0] == "fn" {
				runFn(o, ws[1:])
				continue
			}
			if len(ws) >= 4 && ws[0] == "hist" {
				replayHist(o, l)
				continue
			}
			if len(ws) < 6 || ws[0] != "rd" {
				continue
			}
			shape := ""
			if _, err := strconv.ParseInt(ws[1], 10, 64); err != nil {
				shape = ws[1]
				ws = append(ws[:1], ws[2:]...)
				if len(ws) < 6 {
					continue
				}
			}
			L, err1 := strconv.ParseInt(ws[1], 10, 64)
			pos, err2 := strconv.ParseInt(ws[3], 10, 64)
			if err1 != nil || err2 != nil {
				continue
			}
			buf, ok := expandHex(ws[2])
			if !ok {
				continue
			}
			runCaseHex(o, shape, L, buf, ws[2], pos, ws[4], ws[5], ws[6:])
		}
		return
	}
	for _, a := range cfg.Args {
		if a == "hist" {
			generateHist(o, cfg)
			return
		}
	}
	generate(o, cfg)
}
