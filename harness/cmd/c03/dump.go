//go:build verif

package main

// canonical dump of a real *decode.Value tree:
//   ( name kind start len index R|- buflen err val link child* )
// kind: s struct, a array, u unsigned scalar, r bit buffer scalar, y synthetic scalar, g gap scalar, o other scalar
// buflen: bit length of v.RootReader for buffer roots (IsRoot), else 0
// err: - | de (DecoderError) | io (IOError) | xx (anything else)
// val: Actual of a non-synthetic *scalar.Uint (prog mode only), else 0
// link: v.Parent == parent && (parent is a struct => ByName[v.Name] == v)

import (
	"errors"
	"fmt"
	"os"
	"strconv"
	"strings"

	"github.com/wader/fq/internal/bitiox"
	"github.com/wader/fq/pkg/decode"
	"github.com/wader/fq/pkg/scalar"
)

func errKind(err error) string {
	if err == nil {
		return "-"
	}
	var fe decode.FormatError
	if errors.As(err, &fe) {
		err = fe.Err
	}
	switch err.(type) {
	case decode.DecoderError:
		return "de"
	case decode.IOError:
		return "io"
	}
	var de decode.DecoderError
	if errors.As(err, &de) {
		return "de"
	}
	var ie decode.IOError
	if errors.As(err, &ie) {
		return "io"
	}
	return "xx"
}

func panicKind(r any) string {
	switch r.(type) {
	case decode.DecoderError:
		return "de"
	case decode.IOError:
		return "io"
	}
	return "xx"
}

func kindOf(v *decode.Value) (kind string, val uint64) {
	switch vv := v.V.(type) {
	case *decode.Compound:
		if vv.IsArray {
			return "a", 0
		}
		return "s", 0
	case scalar.Scalarable:
		fl := vv.ScalarFlags()
		if fl.IsSynthetic() {
			return "y", 0
		}
		if fl.IsGap() {
			return "g", 0
		}
		switch s := vv.(type) {
		case *scalar.Uint:
			return "u", s.Actual
		case *scalar.BitBuf:
			return "r", 0
		}
		return "o", 0
	}
	return "o", 0
}

func linkOK(v, parent *decode.Value) bool {
	if v.Parent != parent {
		return false
	}
	if parent == nil {
		return true
	}
	if c, ok := parent.V.(*decode.Compound); ok && !c.IsArray {
		return c.ByName[v.Name] == v
	}
	return true
}

func size(v *decode.Value, memo map[*decode.Value]int) int {
	n := 1
	if c, ok := v.V.(*decode.Compound); ok {
		for _, k := range c.Children {
			n += size(k, memo)
		}
	}
	memo[v] = n
	return n
}

var realNames = os.Getenv("VERIF_C03_REALNAMES") != ""

type pending struct {
	v      *decode.Value
	parent *decode.Value
	where  string
}

type dumper struct {
	progMode bool            // names verbatim and values, never split
	names    map[string]int  // monitor mode: per-line injective renaming name -> f<id>
	memo     map[*decode.Value]int
	maxLine  int // nodes per line before big sub-trees are cut out (monitor mode)
	cutMin   int
	queue    []pending
	maxKids  int
}

func (du *dumper) name(s string) string {
	if du.progMode {
		return s
	}
	if realNames {
		// debugging aid (VERIF_C03_REALNAMES=1): not parsable by the driver
		return "n:" + strings.ReplaceAll(s, " ", "_")
	}
	id, ok := du.names[s]
	if !ok {
		id = len(du.names)
		du.names[s] = id
	}
	return "f" + strconv.Itoa(id)
}

// bufLen: length of the buffer v's CHILDREN live in if v is not a root (i.e. the enclosing buffer)
func (du *dumper) node(sb *strings.Builder, v, parent *decode.Value, enclosing int64, isLineRoot bool) {
	kind, val := kindOf(v)
	if !du.progMode {
		val = 0
	}
	var bl int64
	if v.IsRoot {
		l, err := bitiox.Len(v.RootReader)
		if err != nil {
			l = -1
		}
		bl = l
	}
	r := "-"
	if v.IsRoot {
		r = "R"
	}
	lk := "0"
	if linkOK(v, parent) {
		lk = "1"
	}
	fmt.Fprintf(sb, "( %s %s %d %d %d %s %d %s %d %s", du.name(v.Name), kind, v.Range.Start, v.Range.Len, v.Index, r, bl, errKind(v.Err), val, lk)
	if c, ok := v.V.(*decode.Compound); ok {
		if len(c.Children) > du.maxKids {
			du.maxKids = len(c.Children)
		}
		inner := enclosing
		if v.IsRoot {
			inner = bl
		}
		for _, k := range c.Children {
			if !du.progMode && du.memo[k] > du.cutMin && du.memo[v] > du.maxLine {
				// big sub-tree: a stub (no children) here, its own line later
				w := "in" + strconv.FormatInt(inner, 10)
				if k.IsRoot {
					w = "nested"
				}
				du.queue = append(du.queue, pending{k, v, w})
				sb.WriteByte(' ')
				du.stub(sb, k, v)
				continue
			}
			sb.WriteByte(' ')
			du.node(sb, k, v, inner, false)
		}
	}
	sb.WriteString(" )")
}

func (du *dumper) stub(sb *strings.Builder, v, parent *decode.Value) {
	kind, _ := kindOf(v)
	var bl int64
	r := "-"
	if v.IsRoot {
		r = "R"
		bl, _ = bitiox.Len(v.RootReader)
	}
	lk := "0"
	if linkOK(v, parent) {
		lk = "1"
	}
	fmt.Fprintf(sb, "( %s %s %d %d %d %s %d %s 0 %s )", du.name(v.Name), kind, v.Range.Start, v.Range.Len, v.Index, r, bl, errKind(v.Err), lk)
}

func dumpProg(v *decode.Value) string {
	du := &dumper{progMode: true}
	var sb strings.Builder
	du.node(&sb, v, nil, 0, true)
	return sb.String()
}

// a line longer than this is not emitted (the tree is counted as skipped)
const hardLineLimit = 400 << 10

type monLine struct {
	where string
	text  string
	nodes int
}

// dumpMonitor splits a real tree into lines of bounded size; returns nil if a single compound has too many
// direct children to fit (the caller counts it as skipped).
func dumpMonitor(root *decode.Value, maxLine int, maxTotal int) (lines []monLine, total int, maxKids int) {
	du := &dumper{memo: map[*decode.Value]int{}, maxLine: maxLine, cutMin: maxLine / 8}
	total = size(root, du.memo)
	if total > maxTotal {
		return nil, total, 0
	}
	du.queue = []pending{{root, nil, "top"}}
	for len(du.queue) > 0 {
		p := du.queue[0]
		du.queue = du.queue[1:]
		du.names = map[string]int{}
		var sb strings.Builder
		var enclosing int64
		if strings.HasPrefix(p.where, "in") {
			enclosing, _ = strconv.ParseInt(p.where[2:], 10, 64)
		}
		du.node(&sb, p.v, p.parent, enclosing, true)
		if sb.Len() > hardLineLimit {
			return nil, total, du.maxKids
		}
		lines = append(lines, monLine{where: p.where, text: sb.String()})
	}
	return lines, total, du.maxKids
}
