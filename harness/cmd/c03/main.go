//go:build verif

// C03 harness.
//
//	c03 prog     random decoder programs (prog.go) interpreted with the real decode.D API; observation =
//	             canonical dump of the real *decode.Value tree.  The Lean driver runs the model on the same
//	             program and evaluates WF on the implementation's tree.
//	c03 monitor  real formats on real sample files (intact / truncated / overwritten, force on/off);
//	             observation = dump of the real tree; the Lean driver evaluates WF on it (evidence, not proof).
package main

import (
	"bufio"
	"context"
	"crypto/sha1"
	"fmt"
	"os"
	exec2 "os/exec"
	"path/filepath"
	"runtime/debug"
	"sort"
	"strconv"
	"strings"
	"syscall"
	"time"

	_ "github.com/wader/fq/format/all"
	"github.com/wader/fq/internal/verifharness/hlib"
	"github.com/wader/fq/pkg/bitio"
	"github.com/wader/fq/pkg/decode"
	"github.com/wader/fq/pkg/interp"
	"github.com/wader/fq/pkg/ranges"
)

// ---------------------------------------------------------------- prog mode

var curBody []*Node

var progGroup = &decode.Group{Name: "verif_c03_prog"}

func init() {
	// registered like every format of the repository (format/*/: interp.RegisterFormat in init)
	interp.RegisterFormat(progGroup, &decode.Format{
		Description: "verification harness: Prog interpreter",
		RootName:    "f0",
		DecodeFn: func(d *decode.D) any {
			execList(d, curBody)
			return nil
		},
	})
}

func runCase(o *hlib.Out, c *Case) {
	g := interp.DefaultRegistry.MustGroup("verif_c03_prog")
	g.Formats[0].RootArray = c.Arr
	curBody = c.Body
	br := bitio.NewBitReader(c.Input, c.NBits)
	obs := func() (obs string) {
		defer func() {
			if r := recover(); r != nil {
				obs = "P " + panicKind(r)
				if panicKind(r) == "xx" {
					obs += fmt.Sprintf(" %v", r)
				}
			}
		}()
		dv, _, err := decode.Decode(context.Background(), br, g, decode.Options{
			IsRoot:   true,
			FillGaps: c.Gaps,
			Force:    c.Force,
			Range:    ranges.Range{Start: c.Off, Len: c.Len},
		})
		if dv == nil {
			_ = err
			return "N"
		}
		return "T " + dumpProg(dv)
	}()
	op := c.Text()
	o.Case(op, obs)
	n, depth := countNodes(c.Body)
	switch {
	case strings.HasPrefix(obs, "T") && !strings.Contains(obs[:min(len(obs), 80)], " de ") && !strings.Contains(obs[:min(len(obs), 80)], " io "):
		o.Stat("prog_ok", 1)
	case strings.HasPrefix(obs, "T"):
		o.Stat("prog_partial_tree", 1)
	case obs == "N":
		o.Stat("prog_no_value", 1)
	default:
		o.Stat("prog_panic_escaped", 1)
	}
	if n >= 3 && depth >= 2 {
		// non-trivial: at least 3 API calls and one level of nesting; distinct by program text and flags
		i := strings.Index(op, "[")
		o.Class(fmt.Sprintf("%s %s %d %d %d %s", b01(c.Force), b01(c.Gaps), c.Off, c.Len, c.NBits, op[i:]))
	}
}

func progMode(cfg hlib.Config, o *hlib.Out) {
	r := hlib.NewRand(cfg.Seed)
	n := 6000
	if cfg.Thorough() {
		n = 120000
	}
	for i := 0; i < n; i++ {
		c := genCase(r.Fork())
		runCase(o, c)
		if i < 4 {
			o.Sample(c.Text())
		}
	}
	keys := make([]string, 0, len(execCount))
	for k := range execCount {
		keys = append(keys, k)
	}
	sort.Strings(keys)
	for _, k := range keys {
		o.Stat("api_call_returned_"+k, execCount[k])
	}
	o.Stat("programs", n)
}

// ---------------------------------------------------------------- monitor mode

type sample struct {
	rel  string
	path string
}

func sampleFiles(repo string) []sample {
	var fs []sample
	root := filepath.Join(repo, "format")
	_ = filepath.Walk(root, func(path string, info os.FileInfo, err error) error {
		if err != nil || info.IsDir() {
			return nil
		}
		if !strings.Contains(path, "/testdata/") || strings.HasSuffix(path, ".fqtest") || strings.HasSuffix(path, ".md") ||
			strings.HasSuffix(path, ".jq") || strings.HasSuffix(path, ".sh") || strings.HasSuffix(path, ".go") {
			return nil
		}
		if info.Size() == 0 || info.Size() > 64<<10 || !info.Mode().IsRegular() {
			return nil
		}
		rel, _ := filepath.Rel(repo, path)
		if strings.ContainsAny(rel, " \t") {
			return nil
		}
		fs = append(fs, sample{rel: rel, path: path})
		return nil
	})
	sort.Slice(fs, func(i, j int) bool { return fs[i].rel < fs[j].rel })
	return fs
}

// sink is what monitorOne writes to: hlib.Out in the parent / replay, a streaming stdout writer in a worker
type sink interface {
	Case(op, obs string)
	Stat(key string, n int)
}

type stdoutSink struct {
	w     *bufio.Writer
	stats map[string]int
}

func (s *stdoutSink) Case(op, obs string) {
	s.w.WriteString(hlib.San(op))
	s.w.WriteByte('\t')
	s.w.WriteString(hlib.San(obs))
	s.w.WriteByte('\n')
}
func (s *stdoutSink) Stat(key string, n int) { s.stats[key] += n }
func (s *stdoutSink) Flush() {
	for k, v := range s.stats {
		fmt.Fprintf(s.w, "#stat %s %d\n", k, v)
		delete(s.stats, k)
	}
	s.w.Flush()
}

type monCfg struct {
	maxLine  int
	maxTotal int
	timeout  time.Duration
}

type decodeResult struct {
	dv       *decode.Value
	err      error
	panicked string
}

func decodeWith(group *decode.Group, data []byte, force bool, timeout time.Duration) (decodeResult, bool) {
	ch := make(chan decodeResult, 1)
	go func() {
		var res decodeResult
		defer func() {
			if r := recover(); r != nil {
				res = decodeResult{panicked: fmt.Sprintf("%v", r)}
			}
			ch <- res
		}()
		br := bitio.NewBitReader(data, -1)
		// the options interp `_decode` uses (pkg/interp/decode.go:235)
		dv, _, err := decode.Decode(context.Background(), br, group, decode.Options{IsRoot: true, FillGaps: true, Force: force})
		res = decodeResult{dv: dv, err: err}
	}()
	select {
	case r := <-ch:
		return r, true
	case <-time.After(timeout):
		return decodeResult{}, false
	}
}

func applyVariant(data []byte, variant string) []byte {
	switch {
	case variant == "intact":
		return data
	case strings.HasPrefix(variant, "trunc:"):
		n, _ := strconv.Atoi(variant[6:])
		if n > len(data) {
			n = len(data)
		}
		return data[:n]
	case strings.HasPrefix(variant, "ow:"):
		out := append([]byte(nil), data...)
		for _, e := range strings.Split(variant[3:], ",") {
			ps := strings.Split(e, "=")
			off, _ := strconv.Atoi(ps[0])
			b, _ := strconv.ParseUint(ps[1], 16, 8)
			if off < len(out) {
				out[off] = byte(b)
			}
		}
		return out
	}
	panic("unknown variant " + variant)
}

var seenLines = map[[20]byte]struct{}{}

func monitorOne(o sink, mc monCfg, formatName string, s sample, data []byte, variant string, force bool) (detected string) {
	g, err := interp.DefaultRegistry.Group(formatName)
	if err != nil {
		o.Stat("mon_unknown_format", 1)
		return ""
	}
	res, done := decodeWith(g, applyVariant(data, variant), force, mc.timeout)
	o.Stat("mon_decodes", 1)
	if !done {
		o.Stat("mon_timeout", 1)
		fmt.Fprintf(os.Stderr, "timeout: %s %s %s\n", formatName, s.rel, variant)
		return ""
	}
	if res.panicked != "" {
		// a non-recoverable panic is C06's subject, not C03's
		o.Stat("mon_go_panic", 1)
		return ""
	}
	if res.dv == nil {
		o.Stat("mon_no_value", 1)
		return ""
	}
	if res.dv.Format != nil {
		detected = res.dv.Format.Name
	}
	// a partial tree: the format function of the returned root failed (a probe's FormatsError for the
	// formats tried before the successful one does not make the tree partial)
	partial := res.dv.Err != nil
	// marker for the known finding `tls-late-fields`: the tree contains a value decoded by format/tls
	tls := "-"
	_ = res.dv.WalkPreOrder(func(v *decode.Value, _ *decode.Value, _ int, _ int) error {
		if v.Format != nil && v.Format.Name == "tls" {
			tls = "tls"
			return decode.ErrWalkStop
		}
		return nil
	})
	if partial {
		o.Stat("mon_partial_trees", 1)
	} else {
		o.Stat("mon_complete_trees", 1)
	}
	lines, total, _ := dumpMonitor(res.dv, mc.maxLine, mc.maxTotal)
	if lines == nil {
		o.Stat("mon_skipped_huge", 1)
		return detected
	}
	o.Stat("mon_nodes", total)
	for _, l := range lines {
		o.Case(fmt.Sprintf("mon %s %s %s %s %s %s %s", l.where, b01(partial), formatName, s.rel, variant, b01(force), tls), "T "+l.text)
	}
	return detected
}

// ---- per-file routine, run in a worker sub-process (a decoder may hang or allocate without bound on a
// mutated file; that is C06's subject — here the worker is killed and the routine resumed after that decode)

type fileJob struct {
	o      sink
	mc     monCfg
	k      int // index of the next decode
	skipTo int // decodes below this index are not run (resume after a hang)
	mark   func(k int)
}

func (j *fileJob) one(formatName string, s sample, data []byte, variant string, force bool) string {
	k := j.k
	j.k++
	if k < j.skipTo && k != 0 {
		return ""
	}
	if k >= j.skipTo {
		j.mark(k)
		return monitorOne(j.o, j.mc, formatName, s, data, variant, force)
	}
	// k == 0 below skipTo: the probe result is needed again, nothing is emitted
	g, _ := interp.DefaultRegistry.Group(formatName)
	res, done := decodeWith(g, applyVariant(data, variant), force, j.mc.timeout)
	if done && res.dv != nil && res.dv.Format != nil {
		return res.dv.Format.Name
	}
	return ""
}

func allFormats() []string {
	var all []string
	for _, f := range interp.DefaultRegistry.MustAll().Formats {
		if !strings.HasPrefix(f.Name, "verif_") {
			all = append(all, f.Name)
		}
	}
	sort.Strings(all)
	return all
}

func fileRoutine(j *fileJob, thorough bool, seed uint64, s sample) {
	data, err := os.ReadFile(s.path)
	if err != nil {
		return
	}
	all := allFormats()
	fr := hlib.NewRand(seed)
	// own format: what probe detects, and the format named like the directory if there is one
	det := j.one("probe", s, data, "intact", false)
	own := []string{"probe"}
	if det != "" {
		own = append(own, det)
	}
	dir := strings.Split(s.rel, "/")[1]
	if _, err := interp.DefaultRegistry.Group(dir); err == nil && dir != det {
		own = append(own, dir)
	}
	var variants []string
	nT, nO := 4, 3
	if thorough {
		nT, nO = 8, 5
	}
	for t := 0; t < nT; t++ {
		var n int
		switch t {
		case 0:
			n = len(data) - 1
		case 1:
			n = len(data) / 2
		default:
			n = fr.Intn(len(data))
		}
		variants = append(variants, fmt.Sprintf("trunc:%d", n))
	}
	for t := 0; t < nO; t++ {
		k := fr.Range(1, 3)
		var es []string
		for x := 0; x < k; x++ {
			off := fr.Intn(len(data))
			if x == 0 && t == 0 {
				off = fr.Intn(min(len(data), 64)) // header area
			}
			b := byte(fr.U64())
			switch fr.Intn(4) {
			case 0:
				b = 0xff
			case 1:
				b = 0
			}
			es = append(es, fmt.Sprintf("%d=%02x", off, b))
		}
		variants = append(variants, "ow:"+strings.Join(es, ","))
	}
	for _, f := range own {
		for _, force := range []bool{false, true} {
			if !(f == "probe" && !force) {
				j.one(f, s, data, "intact", force)
			}
			for _, v := range variants {
				j.one(f, s, data, v, force)
			}
		}
	}
	// a few unrelated formats: mostly tiny partial trees
	for k := 0; k < 3; k++ {
		f := all[fr.Intn(len(all))]
		v := variants[fr.Intn(len(variants))]
		for _, force := range []bool{false, true} {
			j.one(f, s, data, "intact", force)
			j.one(f, s, data, v, force)
		}
	}
}

// worker: `c03 -seed S -tier T fileworker <rel> <skipTo>`; stdout = `@k` before decode k, then hlib lines
func fileWorker(cfg hlib.Config) {
	// fail (and be restarted past this decode) rather than exhaust the machine
	var lim syscall.Rlimit
	lim.Cur, lim.Max = 6<<30, 6<<30
	_ = syscall.Setrlimit(syscall.RLIMIT_AS, &lim)
	debug.SetMemoryLimit(2 << 30)
	repo := os.Getenv("VERIF_REPO")
	if repo == "" {
		repo = "/repo"
	}
	rel := cfg.Args[1]
	skipTo, _ := strconv.Atoi(cfg.Args[2])
	o := &stdoutSink{w: bufio.NewWriterSize(os.Stdout, 1<<20), stats: map[string]int{}}
	j := &fileJob{o: o, mc: monCfg{maxLine: 3000, maxTotal: 60000, timeout: time.Hour}, skipTo: skipTo}
	j.mark = func(k int) {
		fmt.Fprintf(o.w, "@%d\n", k)
		o.Flush()
	}
	fileRoutine(j, cfg.Thorough(), cfg.Seed, sample{rel: rel, path: filepath.Join(repo, rel)})
	fmt.Fprintln(o.w, "@done")
	o.Flush()
}

type fileResult struct {
	lines []string // case lines `op TAB obs`
	stats map[string]int
}

// a file whose mutated variants keep killing the worker is given up after this many restarts
const maxRestarts = 3

func runFile(self string, cfg hlib.Config, seed uint64, rel string, timeout time.Duration) fileResult {
	res := fileResult{stats: map[string]int{}}
	skipTo := 0
	for {
		cmd := exec2.Command(self, "-tier", cfg.Tier, "-seed", strconv.FormatUint(seed, 10), "fileworker", rel, strconv.Itoa(skipTo))
		cmd.Env = append(os.Environ(), "GOMEMLIMIT=2GiB", "GOMAXPROCS=2")
		stdout, err := cmd.StdoutPipe()
		if err != nil {
			panic(err)
		}
		var stderr strings.Builder
		cmd.Stderr = &stderr
		if err := cmd.Start(); err != nil {
			panic(err)
		}
		type ev struct {
			line string
			eof  bool
		}
		ch := make(chan ev, 256)
		go func() {
			sc := bufio.NewScanner(stdout)
			sc.Buffer(make([]byte, 1<<20), 1<<26)
			for sc.Scan() {
				ch <- ev{line: sc.Text()}
			}
			ch <- ev{eof: true}
		}()
		cur := -1
		finished := false
		timer := time.NewTimer(timeout)
	loop:
		for {
			select {
			case e := <-ch:
				if e.eof {
					break loop
				}
				switch {
				case e.line == "@done":
					finished = true
				case strings.HasPrefix(e.line, "@"):
					cur, _ = strconv.Atoi(e.line[1:])
					if !timer.Stop() {
						select {
						case <-timer.C:
						default:
						}
					}
					timer.Reset(timeout)
				case strings.HasPrefix(e.line, "#stat "):
					ws := strings.Fields(e.line)
					n, _ := strconv.Atoi(ws[2])
					if ws[1] != "cases" && ws[1] != "distinct_nontrivial" {
						res.stats[ws[1]] += n
					}
				case strings.HasPrefix(e.line, "#") || e.line == "":
				default:
					res.lines = append(res.lines, e.line)
				}
			case <-timer.C:
				_ = cmd.Process.Kill()
				res.stats["mon_worker_killed_timeout"]++
				break loop
			}
		}
		_ = cmd.Process.Kill()
		_ = cmd.Wait()
		if finished {
			return res
		}
		// hang, out of memory or a fatal error in decode `cur`: resume after it
		res.stats["mon_worker_restarts"]++
		why := strings.SplitN(stderr.String(), "\n", 2)[0]
		if len(why) > 120 {
			why = why[:120]
		}
		if strings.Contains(why, "out of memory") || strings.Contains(why, "cannot allocate") {
			res.stats["mon_worker_died_out_of_memory"]++
		} else if why != "" {
			res.stats["mon_worker_died_fatal"]++
		}
		fmt.Fprintf(os.Stderr, "worker for %s died/hung at decode %d: %s\n", rel, cur, why)
		if cur < 0 {
			return res
		}
		if cur == 0 {
			res.stats["mon_files_abandoned"]++
			return res
		}
		skipTo = cur + 1
		if res.stats["mon_worker_restarts"] >= maxRestarts {
			res.stats["mon_files_abandoned"]++
			return res
		}
	}
	return res
}

func monitorMode(cfg hlib.Config, o *hlib.Out) {
	repo := os.Getenv("VERIF_REPO")
	if repo == "" {
		repo = "/repo"
	}
	self, err := os.Executable()
	if err != nil {
		panic(err)
	}
	r := hlib.NewRand(cfg.Seed)
	files := sampleFiles(repo)
	o.Stat("mon_sample_files_available", len(files))
	o.Stat("mon_formats_registered", len(allFormats()))
	nFiles := 70
	if cfg.Thorough() {
		nFiles = 300
	}
	if len(files) == 0 {
		panic("no sample files under " + repo)
	}
	type job struct {
		rel  string
		seed uint64
	}
	jobs := make([]job, nFiles)
	for i := range jobs {
		jobs[i] = job{rel: files[r.Intn(len(files))].rel, seed: r.U64()}
	}
	results := make([]chan fileResult, nFiles)
	for i := range results {
		results[i] = make(chan fileResult, 1)
	}
	workers := 3
	if w, err := strconv.Atoi(os.Getenv("VERIF_C03_WORKERS")); err == nil && w > 0 {
		workers = w
	}
	next := make(chan int, nFiles)
	for i := range jobs {
		next <- i
	}
	close(next)
	// overall budget: on a loaded machine hanging decoders (each costs a timeout) must not make the run overlong
	budget := 70 * time.Second
	if cfg.Thorough() {
		budget = 14 * time.Minute
	}
	deadline := time.Now().Add(budget)
	for w := 0; w < workers; w++ {
		go func() {
			for i := range next {
				if time.Now().After(deadline) {
					results[i] <- fileResult{stats: map[string]int{"mon_files_not_run_budget": 1}}
					continue
				}
				results[i] <- runFile(self, cfg, jobs[i].seed, jobs[i].rel, 2500*time.Millisecond)
			}
		}()
	}
	for i := range jobs {
		res := <-results[i]
		if res.stats["mon_files_not_run_budget"] == 0 {
			o.Stat("mon_files", 1)
		}
		keys := make([]string, 0, len(res.stats))
		for k := range res.stats {
			keys = append(keys, k)
		}
		sort.Strings(keys)
		for _, k := range keys {
			o.Stat(k, res.stats[k])
		}
		for _, l := range res.lines {
			h := sha1.Sum([]byte(dedupKey(l)))
			if _, ok := seenLines[h]; ok {
				o.Stat("mon_duplicate_lines", 1)
				continue
			}
			seenLines[h] = struct{}{}
			t := strings.IndexByte(l, '\t')
			o.Case(l[:t], l[t+1:])
			if strings.Count(l[t+1:], "(") >= 5 {
				// non-trivial: a tree line with at least 5 values; distinct by content
				o.Class(string(h[:]))
			}
		}
	}
}

// two lines with the same `where`, partial flag and tree are the same case
func dedupKey(l string) string {
	t := strings.IndexByte(l, '\t')
	ws := strings.SplitN(l[:t], " ", 4)
	return ws[1] + " " + ws[2] + l[t:]
}

func main() {
	cfg := hlib.ParseFlags()
	if len(cfg.Args) > 0 && cfg.Args[0] == "fileworker" {
		fileWorker(cfg)
		return
	}
	o := hlib.NewOut(cfg.Out)
	defer o.Close()

	if cfg.Replay != "" {
		repo := os.Getenv("VERIF_REPO")
		if repo == "" {
			repo = "/repo"
		}
		mc := monCfg{maxLine: 3000, maxTotal: 60000, timeout: 20 * time.Second}
		for _, l := range hlib.ReplayLines(cfg.Replay) {
			ws := strings.Fields(l)
			switch {
			case len(ws) > 0 && ws[0] == "prog":
				runCase(o, parseCase(l))
			case len(ws) == 8 && ws[0] == "mon":
				// mon <where> <partial> <format> <file> <variant> <force> <tls|->: the whole decode is re-run, all its lines re-emitted
				s := sample{rel: ws[4], path: filepath.Join(repo, ws[4])}
				data, err := os.ReadFile(s.path)
				if err != nil {
					panic(err)
				}
				monitorOne(o, mc, ws[3], s, data, ws[5], ws[6] == "1")
			}
		}
		return
	}

	mode := "prog"
	if len(cfg.Args) > 0 {
		mode = cfg.Args[0]
	}
	switch mode {
	case "prog":
		progMode(cfg, o)
	case "monitor":
		monitorMode(cfg, o)
	default:
		panic("unknown mode " + mode)
	}
}
