//go:build verif

package main

// Prog: decoder programs over the public decode.D API. The same text is interpreted by the Lean
// model (lean/FqModel/Tree.lean `exec`) and here, with the real API.
//
//  u <name> <n>            d.FieldU(name, n)
//  raw <name> <n>          d.FieldRawLen(name, n)
//  syn <name>              d.FieldValueUint(name, 0)
//  st|ar <name> [ … ]      d.FieldStruct / d.FieldArray
//  fr|li <n> [ … ]         d.FramedFn / d.LimitedFn
//  rg <off> <n> [ … ]      d.RangeFn
//  sa|sr <x> -             d.SeekAbs(x) / d.SeekRel(x)
//  sa|sr <x> [ … ]         d.SeekAbs(x, fn) / d.SeekRel(x, fn)  (position restored)
//  ff <orRaw> <name> <arr> [ … ]        d.FieldFormat / d.FieldFormatOrRaw
//  fl <n> <orRaw> <name> <arr> [ … ]    d.FieldFormatLen / d.FieldFormatOrRawLen
//  fg <off> <n> <name> <arr> [ … ]      d.FieldFormatRange
//  in <arr> [ … ]                       d.Format: nested format, its root's children inlined into the current value
//  fb <name> <nbits> <arr> [ … ]        d.FieldFormatBitBuf on a fresh zero buffer
//  sb|ab <name> <nbits> [ … ]           d.FieldStructRootBitBufFn / d.FieldArrayRootBitBufFn
//  rb <name> <nbits>                    d.FieldRootBitBuf
//  fail | errf                          d.Fatalf / d.Errorf
//  lp <nbits> <mod> [ … ]               c := d.U(nbits) % mod; body c times

import (
	"fmt"
	"strconv"
	"strings"

	"github.com/wader/fq/internal/verifharness/hlib"
	"github.com/wader/fq/pkg/bitio"
	"github.com/wader/fq/pkg/decode"
)

type Node struct {
	Op      string
	Name    string
	N       int64 // width / length / nbits
	X       int64 // offset / position / delta
	Mod     int64
	Arr     bool
	OrRaw   bool
	Restore bool
	Body    []*Node
}

func b01(b bool) string {
	if b {
		return "1"
	}
	return "0"
}

func writeBody(sb *strings.Builder, body []*Node) {
	sb.WriteString(" [")
	for _, n := range body {
		sb.WriteByte(' ')
		n.write(sb)
	}
	sb.WriteString(" ]")
}

func (n *Node) write(sb *strings.Builder) {
	switch n.Op {
	case "u", "raw":
		fmt.Fprintf(sb, "%s %s %d", n.Op, n.Name, n.N)
	case "syn":
		fmt.Fprintf(sb, "syn %s", n.Name)
	case "st", "ar":
		fmt.Fprintf(sb, "%s %s", n.Op, n.Name)
		writeBody(sb, n.Body)
	case "fr", "li":
		fmt.Fprintf(sb, "%s %d", n.Op, n.N)
		writeBody(sb, n.Body)
	case "rg":
		fmt.Fprintf(sb, "rg %d %d", n.X, n.N)
		writeBody(sb, n.Body)
	case "sa", "sr":
		fmt.Fprintf(sb, "%s %d", n.Op, n.X)
		if n.Restore {
			writeBody(sb, n.Body)
		} else {
			sb.WriteString(" -")
		}
	case "ff":
		fmt.Fprintf(sb, "ff %s %s %s", b01(n.OrRaw), n.Name, b01(n.Arr))
		writeBody(sb, n.Body)
	case "fl":
		fmt.Fprintf(sb, "fl %d %s %s %s", n.N, b01(n.OrRaw), n.Name, b01(n.Arr))
		writeBody(sb, n.Body)
	case "fg":
		fmt.Fprintf(sb, "fg %d %d %s %s", n.X, n.N, n.Name, b01(n.Arr))
		writeBody(sb, n.Body)
	case "in":
		fmt.Fprintf(sb, "in %s", b01(n.Arr))
		writeBody(sb, n.Body)
	case "fb":
		fmt.Fprintf(sb, "fb %s %d %s", n.Name, n.N, b01(n.Arr))
		writeBody(sb, n.Body)
	case "sb", "ab":
		fmt.Fprintf(sb, "%s %s %d", n.Op, n.Name, n.N)
		writeBody(sb, n.Body)
	case "rb":
		fmt.Fprintf(sb, "rb %s %d", n.Name, n.N)
	case "fail", "errf":
		sb.WriteString(n.Op)
	case "lp":
		fmt.Fprintf(sb, "lp %d %d", n.N, n.Mod)
		writeBody(sb, n.Body)
	default:
		panic("unknown op " + n.Op)
	}
}

// ---------------------------------------------------------------- parser (for -replay / corpus)

type parser struct {
	ts  []string
	pos int
}

func (p *parser) next() string {
	if p.pos >= len(p.ts) {
		panic("unexpected end of program")
	}
	t := p.ts[p.pos]
	p.pos++
	return t
}

func (p *parser) peek() string {
	if p.pos >= len(p.ts) {
		return ""
	}
	return p.ts[p.pos]
}

func (p *parser) i64() int64 {
	v, err := strconv.ParseInt(p.next(), 10, 64)
	if err != nil {
		panic(err)
	}
	return v
}

func (p *parser) b() bool {
	switch p.next() {
	case "0":
		return false
	case "1":
		return true
	}
	panic("bool expected")
}

func (p *parser) body() []*Node {
	if p.next() != "[" {
		panic("[ expected")
	}
	var ns []*Node
	for p.peek() != "]" {
		ns = append(ns, p.item())
	}
	p.next()
	return ns
}

func (p *parser) item() *Node {
	n := &Node{Op: p.next()}
	switch n.Op {
	case "u", "raw":
		n.Name = p.next()
		n.N = p.i64()
	case "syn":
		n.Name = p.next()
	case "st", "ar":
		n.Name = p.next()
		n.Body = p.body()
	case "fr", "li":
		n.N = p.i64()
		n.Body = p.body()
	case "rg":
		n.X = p.i64()
		n.N = p.i64()
		n.Body = p.body()
	case "sa", "sr":
		n.X = p.i64()
		if p.peek() == "-" {
			p.next()
		} else {
			n.Restore = true
			n.Body = p.body()
		}
	case "ff":
		n.OrRaw = p.b()
		n.Name = p.next()
		n.Arr = p.b()
		n.Body = p.body()
	case "fl":
		n.N = p.i64()
		n.OrRaw = p.b()
		n.Name = p.next()
		n.Arr = p.b()
		n.Body = p.body()
	case "fg":
		n.X = p.i64()
		n.N = p.i64()
		n.Name = p.next()
		n.Arr = p.b()
		n.Body = p.body()
	case "in":
		n.Arr = p.b()
		n.Body = p.body()
	case "fb":
		n.Name = p.next()
		n.N = p.i64()
		n.Arr = p.b()
		n.Body = p.body()
	case "sb", "ab":
		n.Name = p.next()
		n.N = p.i64()
		n.Body = p.body()
	case "rb":
		n.Name = p.next()
		n.N = p.i64()
	case "fail", "errf":
	case "lp":
		n.N = p.i64()
		n.Mod = p.i64()
		n.Body = p.body()
	default:
		panic("unknown op " + n.Op)
	}
	return n
}

// ---------------------------------------------------------------- interpreter on the real API

var execCount = map[string]int{}

func zeroBuf(nbits int64) bitio.ReaderAtSeeker {
	return bitio.NewBitReader(make([]byte, (nbits+7)/8), nbits)
}

func subGroup(arr bool, body []*Node) *decode.Group {
	f := &decode.Format{
		Name:      "c03sub",
		RootArray: arr,
		RootName:  "unused",
		DecodeFn: func(d *decode.D) any {
			execList(d, body)
			return nil
		},
	}
	return &decode.Group{Name: "c03sub", Formats: []*decode.Format{f}}
}

func execList(d *decode.D, body []*Node) {
	for _, n := range body {
		exec(d, n)
	}
}

func exec(d *decode.D, n *Node) {
	fn := func(d *decode.D) { execList(d, n.Body) }
	switch n.Op {
	case "u":
		d.FieldU(n.Name, int(n.N))
	case "raw":
		d.FieldRawLen(n.Name, n.N)
	case "syn":
		d.FieldValueUint(n.Name, 0)
	case "st":
		d.FieldStruct(n.Name, fn)
	case "ar":
		d.FieldArray(n.Name, fn)
	case "fr":
		d.FramedFn(n.N, fn)
	case "li":
		d.LimitedFn(n.N, fn)
	case "rg":
		d.RangeFn(n.X, n.N, fn)
	case "sa":
		if n.Restore {
			d.SeekAbs(n.X, fn)
		} else {
			d.SeekAbs(n.X)
		}
	case "sr":
		if n.Restore {
			d.SeekRel(n.X, fn)
		} else {
			d.SeekRel(n.X)
		}
	case "ff":
		if n.OrRaw {
			d.FieldFormatOrRaw(n.Name, subGroup(n.Arr, n.Body), nil)
		} else {
			d.FieldFormat(n.Name, subGroup(n.Arr, n.Body), nil)
		}
	case "fl":
		if n.OrRaw {
			d.FieldFormatOrRawLen(n.Name, n.N, subGroup(n.Arr, n.Body), nil)
		} else {
			d.FieldFormatLen(n.Name, n.N, subGroup(n.Arr, n.Body), nil)
		}
	case "fg":
		d.FieldFormatRange(n.Name, n.X, n.N, subGroup(n.Arr, n.Body), nil)
	case "in":
		d.Format(subGroup(n.Arr, n.Body), nil)
	case "fb":
		d.FieldFormatBitBuf(n.Name, zeroBuf(n.N), subGroup(n.Arr, n.Body), nil)
	case "sb":
		d.FieldStructRootBitBufFn(n.Name, zeroBuf(n.N), fn)
	case "ab":
		d.FieldArrayRootBitBufFn(n.Name, zeroBuf(n.N), fn)
	case "rb":
		d.FieldRootBitBuf(n.Name, zeroBuf(n.N))
	case "fail":
		d.Fatalf("c03 fail")
	case "errf":
		d.Errorf("c03 errf")
	case "lp":
		c := d.U(int(n.N))
		if n.Mod > 0 {
			c %= uint64(n.Mod)
		} else {
			c = 0
		}
		for i := uint64(0); i < c; i++ {
			execList(d, n.Body)
		}
	default:
		panic("unknown op " + n.Op)
	}
	// reached only when the call returned normally
	execCount[n.Op]++
}

// ---------------------------------------------------------------- random programs

type gen struct {
	r       *hlib.Rand
	size    int // nodes left
	nameCtr int
	fail    bool // this program gets a deliberate failure
	over    bool // this program may seek past the end
	failed  bool
	loops   int
}

// what the generator knows about the decoder it generates for (approximate after loops)
type gctx struct {
	pos, len int64
	arr      bool
	names    []string
	depth    int
}

func (g *gen) width() int64 {
	switch g.r.Intn(10) {
	case 0:
		return 0
	case 1:
		return 8
	case 2:
		return int64(g.r.Range(33, 64))
	default:
		return int64(g.r.Range(1, 17))
	}
}

func (g *gen) name(c *gctx) string {
	// a struct refuses duplicates: reuse a name there only deliberately
	if len(c.names) > 0 && (c.arr && g.r.Intn(3) == 0 || !c.arr && g.fail && !g.failed && g.r.Intn(6) == 0) {
		if !c.arr {
			g.failed = true
		}
		return c.names[g.r.Intn(len(c.names))]
	}
	g.nameCtr++
	var n string
	if g.r.Intn(40) == 0 {
		n = fmt.Sprintf("gap%d", g.r.Intn(3)) // may collide with FillGaps' own names
	} else {
		n = fmt.Sprintf("f%d", g.nameCtr)
	}
	for _, o := range c.names {
		if o == n && !c.arr {
			g.nameCtr++
			n = fmt.Sprintf("f%d", g.nameCtr)
		}
	}
	c.names = append(c.names, n)
	return n
}

func (g *gen) left(c *gctx) int64 {
	if c.len-c.pos < 0 {
		return 0
	}
	return c.len - c.pos
}

func (g *gen) body(c *gctx, maxItems int) []*Node {
	var ns []*Node
	k := g.r.Range(0, maxItems)
	for i := 0; i < k && g.size > 0; i++ {
		ns = append(ns, g.item(c))
	}
	return ns
}

func (g *gen) sub(c *gctx, pos, ln int64, arr bool, sameValue bool) *gctx {
	s := &gctx{pos: pos, len: ln, arr: arr, depth: c.depth + 1}
	if sameValue {
		s.arr = c.arr
		s.names = c.names
	}
	return s
}

func (g *gen) item(c *gctx) *Node {
	g.size--
	left := g.left(c)
	deep := c.depth >= 5
	// deliberate failure somewhere in the program
	if g.fail && !g.failed && g.r.Intn(12) == 0 {
		g.failed = true
		switch g.r.Intn(9) {
		case 0:
			return &Node{Op: "fail"}
		case 1:
			return &Node{Op: "errf"}
		case 2:
			return &Node{Op: "u", Name: g.name(c), N: 65}
		case 3:
			return &Node{Op: "raw", Name: g.name(c), N: -int64(g.r.Range(1, 9))}
		case 4:
			return &Node{Op: "u", Name: g.name(c), N: min(64, left+int64(g.r.Range(1, 9)))}
		case 5:
			return &Node{Op: "sr", X: -(c.pos + int64(g.r.Range(1, 5)))}
		case 6:
			return &Node{Op: "fr", N: -int64(g.r.Range(1, 5))}
		case 7:
			return &Node{Op: "raw", Name: g.name(c), N: left + int64(g.r.Range(1, 20))}
		default:
			return &Node{Op: "fg", X: c.len, N: int64(g.r.Range(1, 9)), Name: g.name(c), Arr: g.r.Bool()}
		}
	}
	for {
		switch op := g.r.Intn(30); {
		case op < 6:
			w := g.width()
			if w > left {
				w = left
			}
			if w > 64 {
				w = 64
			}
			n := &Node{Op: "u", Name: g.name(c), N: w}
			c.pos += w
			return n
		case op < 9:
			w := g.width() * int64(g.r.Range(1, 3))
			if w > left {
				w = left
			}
			n := &Node{Op: "raw", Name: g.name(c), N: w}
			c.pos += w
			return n
		case op == 9:
			return &Node{Op: "syn", Name: g.name(c)}
		case op < 13:
			if deep {
				continue
			}
			arr := op == 12 || g.r.Intn(3) == 0
			n := &Node{Op: "st", Name: g.name(c)}
			if arr {
				n.Op = "ar"
			}
			s := g.sub(c, c.pos, c.len, arr, false)
			n.Body = g.body(s, 5)
			c.pos = s.pos
			return n
		case op < 16:
			if deep {
				continue
			}
			n := &Node{Op: "fr", N: int64(g.r.Intn(int(left) + 1))}
			if g.r.Bool() {
				n.Op = "li"
			}
			if g.r.Intn(3) == 0 {
				n.N = min(left, g.width()*2)
			}
			s := g.sub(c, c.pos, c.pos+n.N, false, true)
			n.Body = g.body(s, 4)
			c.names = s.names
			if n.Op == "fr" {
				c.pos += n.N
			} else {
				c.pos = s.pos
			}
			return n
		case op == 16:
			if deep {
				continue
			}
			off := int64(g.r.Intn(int(c.len) + 1))
			n := &Node{Op: "rg", X: off, N: int64(g.r.Intn(int(c.len-off) + 1))}
			if g.over && g.r.Intn(4) == 0 && off > 0 {
				n.N = -int64(g.r.Intn(int(off) + 1)) // section shorter than the cursor
			}
			s := g.sub(c, off, off+n.N, false, true)
			n.Body = g.body(s, 3)
			c.names = s.names
			return n
		case op < 20:
			if deep && op == 19 {
				continue
			}
			n := &Node{Op: "sa"}
			rel := g.r.Bool()
			target := int64(g.r.Intn(int(c.len) + 1))
			if g.over && g.r.Intn(3) == 0 {
				target = c.len + int64(g.r.Range(1, 12))
			}
			if rel {
				n.Op = "sr"
				n.X = target - c.pos
			} else {
				n.X = target
			}
			if op == 19 || g.r.Intn(3) == 0 {
				n.Restore = true
				s := g.sub(c, target, c.len, false, true)
				n.Body = g.body(s, 3)
				c.names = s.names
			} else {
				c.pos = target
			}
			return n
		case op < 24:
			if deep {
				continue
			}
			arr := g.r.Intn(3) == 0
			n := &Node{Name: g.name(c), Arr: arr}
			switch g.r.Intn(3) {
			case 0:
				n.Op = "ff"
				n.OrRaw = g.r.Intn(3) == 0
				s := g.sub(c, 0, left, arr, false)
				n.Body = g.body(s, 4)
				c.pos += s.pos // advances by the extent decoded (approximately: max stop)
			case 1:
				n.Op = "fl"
				n.OrRaw = g.r.Intn(3) == 0
				n.N = int64(g.r.Intn(int(left) + 1))
				s := g.sub(c, 0, n.N, arr, false)
				n.Body = g.body(s, 4)
				c.pos += n.N
			default:
				n.Op = "fg"
				n.X = int64(g.r.Intn(int(c.len) + 1))
				n.N = int64(g.r.Intn(int(c.len-n.X) + 1))
				s := g.sub(c, 0, n.N, arr, false)
				n.Body = g.body(s, 4)
			}
			return n
		case op >= 28:
			if deep {
				continue
			}
			// d.Format: the nested root's children become children of the current value. An array root
			// repeats names freely (which a struct must refuse), a struct root may collide with earlier fields.
			n := &Node{Op: "in", Arr: g.r.Bool()}
			s := g.sub(c, 0, left, n.Arr, false)
			if g.r.Intn(3) == 0 {
				s.names = append([]string(nil), c.names...) // let the inner format reuse outer names
			}
			n.Body = g.body(s, 4)
			c.pos += s.pos
			if !(n.Arr && !c.arr) {
				c.names = append(c.names, s.names...)
			}
			return n
		case op == 24:
			if deep {
				continue
			}
			n := &Node{Op: "fb", Name: g.name(c), N: int64(g.r.Range(0, 120)), Arr: g.r.Intn(3) == 0}
			s := g.sub(c, 0, n.N, n.Arr, false)
			n.Body = g.body(s, 4)
			return n
		case op == 25:
			if deep {
				continue
			}
			n := &Node{Op: "sb", Name: g.name(c), N: int64(g.r.Range(0, 120))}
			if g.r.Intn(3) == 0 {
				n.Op = "ab"
			}
			s := g.sub(c, 0, n.N, n.Op == "ab", false)
			n.Body = g.body(s, 4)
			return n
		case op == 26:
			return &Node{Op: "rb", Name: g.name(c), N: int64(g.r.Range(0, 100))}
		default:
			if deep || g.loops >= 2 || !c.arr && g.r.Intn(4) != 0 {
				continue
			}
			g.loops++
			w := int64(g.r.Range(0, 6))
			if w > left {
				w = left
			}
			n := &Node{Op: "lp", N: w, Mod: int64(g.r.Range(0, 4))}
			c.pos += w
			s := g.sub(c, c.pos, c.len, false, true)
			saved := g.size
			if g.size > 6 {
				g.size = 6 // the body is repeated: keep the tree small
			}
			budget := g.size
			n.Body = g.body(s, 3)
			g.size = saved - (budget - g.size)
			c.names = s.names
			// assume the maximum repeat count for what follows
			c.pos += (s.pos - c.pos) * max(n.Mod-1, 1)
			return n
		}
	}
}

type Case struct {
	Force, Gaps bool
	Off, Len    int64
	Arr         bool
	NBits       int64
	Input       []byte
	Body        []*Node
}

func (c *Case) Text() string {
	var sb strings.Builder
	fmt.Fprintf(&sb, "prog %s %s %d %d %s %d %s", b01(c.Force), b01(c.Gaps), c.Off, c.Len, b01(c.Arr), c.NBits, hlib.Hex(c.Input))
	writeBody(&sb, c.Body)
	return sb.String()
}

func parseCase(text string) *Case {
	ts := strings.Fields(text)
	p := &parser{ts: ts}
	if p.next() != "prog" {
		panic("prog expected")
	}
	c := &Case{}
	c.Force = p.b()
	c.Gaps = p.b()
	c.Off = p.i64()
	c.Len = p.i64()
	c.Arr = p.b()
	c.NBits = p.i64()
	c.Input = hlib.UnHex(p.next())
	c.Body = p.body()
	if p.pos != len(ts) {
		panic("trailing tokens")
	}
	return c
}

func countNodes(ns []*Node) (n int, depth int) {
	for _, x := range ns {
		k, d := countNodes(x.Body)
		n += 1 + k
		depth = max(depth, d+1)
	}
	return
}

func genCase(r *hlib.Rand) *Case {
	c := &Case{Force: r.Intn(3) == 0, Gaps: r.Intn(4) != 0, Arr: r.Intn(4) == 0}
	switch r.Intn(8) {
	case 0:
		c.NBits = int64(r.Range(0, 16))
	case 1:
		c.NBits = int64(r.Range(600, 1500))
	default:
		c.NBits = int64(r.Range(16, 600))
	}
	c.Input = r.Bytes(int((c.NBits + 7) / 8))
	secLen := c.NBits
	if r.Intn(5) == 0 && c.NBits > 0 {
		// Options.Range: decode a sub-range of the buffer
		c.Off = int64(r.Intn(int(c.NBits)))
		c.Len = int64(r.Intn(int(c.NBits-c.Off) + 1))
		secLen = c.Len
		if c.Off == 0 && c.Len == 0 {
			secLen = c.NBits
		}
		if r.Intn(30) == 0 {
			c.Len = c.NBits - c.Off + int64(r.Range(1, 8)) // outside the buffer: no value
		}
	}
	g := &gen{r: r, size: r.Range(1, 40), fail: r.Intn(100) < 15, over: r.Intn(100) < 6}
	gc := &gctx{pos: 0, len: secLen, arr: c.Arr}
	for g.size > 0 {
		c.Body = append(c.Body, g.item(gc))
		if r.Intn(8) == 0 {
			break
		}
	}
	return c
}
