//go:build verif

package main

// run "big" (args: big): decoder programs with LARGE compounds — arrays and structs with N leaf children for N around
// the powers of two (31..4097, 65535+), with holes between elements — run through the real decode.D API on a
// registered synthetic format with gap filling.  Class it exists for: ELEMENT-COUNT THRESHOLDS in D.FillGaps (e.g.
// "an array of >= 256 scalars is one range first.start..last.stop": the undecoded bits between elements get no gap).
//
// Per case:
//   N <= modelCap:  one `prog …` line (C03's line format; the driver runs FqModel.Tree.run on the same program, compares
//                   leaves and gap fields and evaluates the tree-level theorem statements on fq's tree), and
//   every N:        per gap-filled value ("site": the root; nested FieldFormatLen/Range values with a gap child; nested
//                   FieldFormatBitBuf roots) `gaps 0:<len> @big:<spec>#<site> <leaves by the harness' own walk> TAB <gap fields>`
//                   and for buffer roots `coverall …` (as run tree).
// A spec `shape:N:holes:seed` rebuilds the program deterministically (replay of `gaps @big:…` lines).

import (
	"context"
	"fmt"
	"strconv"
	"strings"

	"github.com/wader/fq/internal/bitiox"
	"github.com/wader/fq/internal/verifharness/hlib"
	"github.com/wader/fq/pkg/bitio"
	"github.com/wader/fq/pkg/decode"
	"github.com/wader/fq/pkg/interp"
	"github.com/wader/fq/pkg/ranges"
	"github.com/wader/fq/pkg/scalar"
)

// the Lean tree model appends children with `++` and measures the section with List.length: quadratic in the
// number of children / bits; above this many leaves only the flat lines are emitted
const modelCap = 4097

var bigBody []*Node

var bigGroup = &decode.Group{Name: "verif_c04_big"}

func init() {
	interp.RegisterFormat(bigGroup, &decode.Format{
		Description: "verification harness: C04 large compounds",
		RootName:    "f0",
		DecodeFn: func(d *decode.D) any {
			execList(d, bigBody)
			return nil
		},
	})
}

var bigShapes = []string{
	"arr",     // ar f1 [ N leaves ]
	"struct",  // st f1 [ N leaves, unique names ]
	"root",    // the root array itself has the N leaves
	"abs",     // array, every element placed by d.SeekAbs
	"back",    // array, elements decoded in descending position order (seek back), blocks of 1..9
	"nested",  // array of arrays of leaves
	"aos",     // array of structs of 2..3 scalars
	"framed",  // FramedFn / LimitedFn around the array, frame longer than the array
	"fmtlen",  // FieldFormatLen (gap filled itself) whose root array has the N leaves
	"fmtbuf",  // FieldFormatBitBuf (nested buffer, gap filled) whose root array has the N leaves
	"loop",    // ar f1 [ lp w m [ u f2 a; sr d ] ]  (count read from the input; compact text)
	"loopaos", // ar f1 [ lp w m [ st f2 [ u f3 a; sr d; raw f4 b ] sr e ] ]
	"mixed",   // struct: leaves, then an array of N leaves, then leaves; a second small array
}

type bigSpec struct {
	shape string
	n     int
	holes int // 0 none, 1 after every element, 2 after ~1/4 of the elements, 3 exactly one hole (>= 2 bits) somewhere
	seed  uint64
}

func (s bigSpec) String() string { return fmt.Sprintf("%s:%d:%d:%d", s.shape, s.n, s.holes, s.seed) }

func parseBigSpec(t string) (bigSpec, bool) {
	ws := strings.Split(t, ":")
	if len(ws) != 4 {
		return bigSpec{}, false
	}
	n, e1 := strconv.Atoi(ws[1])
	h, e2 := strconv.Atoi(ws[2])
	sd, e3 := strconv.ParseUint(ws[3], 10, 64)
	if e1 != nil || e2 != nil || e3 != nil {
		return bigSpec{}, false
	}
	return bigSpec{ws[0], n, h, sd}, true
}

type bigBuilder struct {
	r     *hlib.Rand
	ctr   int
	holes int
	n     int // total number of leaves planned (for hole mode 3)
	k     int // leaves made so far
	one   int // index of the leaf followed by the single hole (mode 3)
}

func (b *bigBuilder) name(unique bool, dflt string) string {
	if !unique {
		return dflt
	}
	b.ctr++
	return "f" + strconv.Itoa(1000+b.ctr)
}

// the hole after the k-th leaf (0 = none)
func (b *bigBuilder) hole() int64 {
	k := b.k
	switch b.holes {
	case 1:
		return int64(b.r.Range(1, 17))
	case 2:
		if b.r.Intn(4) == 0 {
			return int64(b.r.Range(1, 17))
		}
	case 3:
		if k == b.one {
			return int64(b.r.Range(2, 17))
		}
	}
	return 0
}

func (b *bigBuilder) leaf(unique bool, dflt string) (*Node, int64) {
	w := int64(b.r.Range(1, 9))
	op := "u"
	if b.r.Intn(4) == 0 {
		op = "raw"
	}
	b.k++
	return &Node{Op: op, Name: b.name(unique, dflt), N: w}, w
}

// n leaves front to back with relative seeks over the holes; returns the extent in bits
func (b *bigBuilder) seq(n int, unique bool, dflt string) (ns []*Node, ext int64) {
	for i := 0; i < n; i++ {
		l, w := b.leaf(unique, dflt)
		ns = append(ns, l)
		ext += w
		if h := b.hole(); h > 0 {
			ns = append(ns, &Node{Op: "sr", X: h})
			ext += h
		}
	}
	return
}

func buildBig(s bigSpec) (*Case, bool) {
	r := hlib.NewRand(s.seed*0x9e3779b97f4a7c15 + uint64(s.n)*131 + uint64(s.holes))
	b := &bigBuilder{r: r, holes: s.holes, n: s.n}
	b.one = 1 + r.Intn(max(s.n-1, 1))
	c := &Case{Force: false, Gaps: true}
	var body []*Node
	var ext int64
	var prefix []byte // loop shapes: the count is read from the first bits
	var prefixBits int64
	n := s.n
	switch s.shape {
	case "arr", "struct":
		ns, e := b.seq(n, s.shape == "struct", "f2")
		op := "ar"
		if s.shape == "struct" {
			op = "st"
		}
		lead := int64(r.Range(0, 9))
		body = []*Node{{Op: "sr", X: lead}, {Op: op, Name: "f1", Body: ns}}
		ext = lead + e
	case "root":
		c.Arr = true
		body, ext = b.seq(n, false, "f2")
	case "abs":
		var ns []*Node
		pos := int64(r.Range(0, 5))
		for i := 0; i < n; i++ {
			l, w := b.leaf(false, "f2")
			ns = append(ns, &Node{Op: "sa", X: pos}, l)
			pos += w + b.hole()
		}
		body = []*Node{{Op: "ar", Name: "f1", Body: ns}}
		ext = pos
	case "back":
		// layout first, then decode in blocks of descending position
		type el struct {
			pos int64
			l   *Node
		}
		var els []el
		pos := int64(0)
		for i := 0; i < n; i++ {
			l, w := b.leaf(false, "f2")
			els = append(els, el{pos, l})
			pos += w + b.hole()
		}
		var ns []*Node
		for i := 0; i < len(els); {
			k := min(r.Range(1, 9), len(els)-i)
			for j := i + k - 1; j >= i; j-- {
				ns = append(ns, &Node{Op: "sa", X: els[j].pos}, els[j].l)
			}
			i += k
		}
		ns = append(ns, &Node{Op: "sa", X: pos})
		body = []*Node{{Op: "ar", Name: "f1", Body: ns}}
		ext = pos
	case "nested":
		var outer []*Node
		left := n
		for left > 0 {
			k := min(left, r.Range(1, max(2, n/8)))
			if r.Intn(3) == 0 {
				k = min(left, 300) // an inner array above the 256 threshold too
			}
			ns, e := b.seq(k, false, "f3")
			outer = append(outer, &Node{Op: "ar", Name: "f2", Body: ns})
			ext += e
			left -= k
			if h := int64(r.Intn(4)) * 3; h > 0 && s.holes != 0 && s.holes != 3 {
				outer = append(outer, &Node{Op: "sr", X: h})
				ext += h
			}
		}
		body = []*Node{{Op: "ar", Name: "f1", Body: outer}}
	case "aos":
		var outer []*Node
		left := n
		for left > 0 {
			k := min(left, r.Range(2, 3))
			b.ctr = 0
			ns, e := b.seq(k, true, "")
			outer = append(outer, &Node{Op: "st", Name: "f2", Body: ns})
			ext += e
			left -= k
		}
		body = []*Node{{Op: "ar", Name: "f1", Body: outer}}
	case "framed":
		ns, e := b.seq(n, false, "f2")
		tail := int64(r.Range(0, 20))
		op := "fr"
		if r.Bool() {
			op = "li"
		}
		body = []*Node{{Op: op, N: e + tail, Body: []*Node{{Op: "ar", Name: "f1", Body: ns}}}}
		ext = e + tail
	case "fmtlen":
		ns, e := b.seq(n, false, "f2")
		lead, tail := int64(r.Range(0, 9)), int64(r.Range(0, 20))
		body = []*Node{{Op: "sr", X: lead}, {Op: "fl", N: e + tail, Name: "f1", Arr: true, Body: ns}}
		ext = lead + e + tail
	case "fmtbuf":
		ns, e := b.seq(n, false, "f2")
		tail := int64(r.Range(0, 20))
		body = []*Node{{Op: "u", Name: "f5", N: 7}, {Op: "fb", Name: "f1", N: e + tail, Arr: true, Body: ns}, {Op: "sr", X: 3}, {Op: "u", Name: "f6", N: 2}}
		ext = 12
	case "loop", "loopaos":
		w := int64(8)
		for (int64(1) << w) <= int64(n) {
			w++
		}
		prefixBits = w
		prefix = make([]byte, 8)
		v := uint64(n) << (64 - w)
		for i := 0; i < 8; i++ {
			prefix[i] = byte(v >> (56 - 8*i))
		}
		var lb []*Node
		var per int64
		if s.shape == "loop" {
			a := int64(r.Range(1, 9))
			lb = []*Node{{Op: "u", Name: "f2", N: a}}
			per = a
			if s.holes != 0 {
				d := int64(r.Range(1, 17))
				if s.holes == 3 {
					d = int64(r.Range(2, 17))
				}
				lb = append(lb, &Node{Op: "sr", X: d})
				per += d
			}
		} else {
			a, bb := int64(r.Range(1, 9)), int64(r.Range(1, 9))
			in := []*Node{{Op: "u", Name: "f3", N: a}}
			per = a + bb
			if s.holes != 0 {
				d := int64(r.Range(2, 17))
				in = append(in, &Node{Op: "sr", X: d})
				per += d
			}
			in = append(in, &Node{Op: "raw", Name: "f4", N: bb})
			lb = []*Node{{Op: "st", Name: "f2", Body: in}}
			if s.holes == 1 {
				e := int64(r.Range(1, 5))
				lb = append(lb, &Node{Op: "sr", X: e})
				per += e
			}
			n = (n + 1) / 2 // two leaves per iteration
			v = uint64(n) << (64 - w)
			for i := 0; i < 8; i++ {
				prefix[i] = byte(v >> (56 - 8*i))
			}
		}
		body = []*Node{{Op: "ar", Name: "f1", Body: []*Node{{Op: "lp", N: w, Mod: int64(1) << w, Body: lb}}}}
		ext = w + per*int64(n)
	case "mixed":
		pre, e1 := b.seq(r.Range(1, 5), true, "")
		ns, e2 := b.seq(n, false, "f2")
		post, e3 := b.seq(r.Range(1, 5), true, "")
		small, e4 := b.seq(r.Range(2, 40), false, "f4")
		var all []*Node
		all = append(all, pre...)
		all = append(all, &Node{Op: "ar", Name: "f1", Body: ns}, &Node{Op: "sr", X: 5})
		all = append(all, post...)
		all = append(all, &Node{Op: "ar", Name: "f3", Body: small})
		body = []*Node{{Op: "st", Name: "f7", Body: all}}
		ext = e1 + e2 + 5 + e3 + e4
	default:
		return nil, false
	}
	tail := int64(0)
	switch r.Intn(3) {
	case 0:
		tail = int64(r.Range(1, 30))
	case 1:
		tail = 1
	}
	c.NBits = ext + tail
	c.Input = r.Bytes(int((c.NBits + 7) / 8))
	if prefixBits > 0 {
		// overwrite the first prefixBits bits with the count
		for i := int64(0); i < prefixBits; i++ {
			bit := (prefix[i/8] >> (7 - i%8)) & 1
			c.Input[i/8] = c.Input[i/8]&^(1<<(7-i%8)) | bit<<(7-i%8)
		}
	}
	c.Body = body
	return c, true
}

func isGapVal(v *decode.Value) bool {
	s, ok := v.V.(scalar.Scalarable)
	return ok && s.ScalarFlags().IsGap()
}

// the harness' own walk (independent of Value.Walk and of whatever D.FillGaps uses to collect ranges): non-compound
// values below the site, nested buffer roots skipped; the site's gap fields are its gap-flagged direct children
func bigCollect(site *decode.Value) (fields, gaps []ranges.Range, maxKids int) {
	var rec func(v *decode.Value, depth int)
	rec = func(v *decode.Value, depth int) {
		if v != site && v.IsRoot {
			return
		}
		switch vv := v.V.(type) {
		case *decode.Compound:
			nl := 0
			for _, c := range vv.Children {
				if _, ok := c.V.(*decode.Compound); !ok {
					nl++
				}
				rec(c, depth+1)
			}
			maxKids = max(maxKids, nl)
		default:
			if depth == 1 && isGapVal(v) {
				gaps = append(gaps, v.Range)
			} else {
				fields = append(fields, v.Range)
			}
		}
	}
	rec(site, 0)
	return
}

func bigFmt(rs []ranges.Range, base int64) string {
	if len(rs) == 0 {
		return "-"
	}
	var sb strings.Builder
	sb.Grow(len(rs) * 10)
	for i, r := range rs {
		if i > 0 {
			sb.WriteByte(' ')
		}
		sb.WriteString(strconv.FormatInt(r.Start-base, 10))
		sb.WriteByte(':')
		sb.WriteString(strconv.FormatInt(r.Len, 10))
	}
	return sb.String()
}

// every gap-filled value of the tree
func bigSites(o *hlib.Out, note string, root *decode.Value) {
	id := 0
	var rec func(v *decode.Value)
	rec = func(v *decode.Value) {
		c, ok := v.V.(*decode.Compound)
		if !ok {
			return
		}
		site := false
		var total int64
		switch {
		case v.IsRoot && v.Format != nil:
			site = true
			l, err := bitiox.Len(v.RootReader)
			if err != nil {
				panic(err)
			}
			total = l
		case !v.IsRoot && v.Format != nil:
			for _, k := range c.Children {
				if isGapVal(k) {
					site = true
				}
			}
			total = v.Range.Len
		}
		if site {
			base := int64(0)
			if !v.IsRoot {
				base = v.Range.Start
			}
			fields, gaps, maxKids := bigCollect(v)
			op := fmt.Sprintf("gaps 0:%d @big:%s#%d %s", total, note, id, bigFmt(fields, base))
			o.Case(op, bigFmt(gaps, base))
			if len(fields) >= 2 {
				o.Class(fmt.Sprintf("%s#%d", note, id))
			}
			if v.IsRoot {
				af, ag := bigCollectAll(v)
				o.Case(fmt.Sprintf("coverall 0:%d @big:%s#%d %s", total, note, id, bigFmt(af, 0)), bigFmt(ag, 0))
			}
			o.Stat("big_sites", 1)
			switch {
			case maxKids >= 65535:
				o.Stat("big_sites_compound_ge_65535_leaf_children", 1)
			case maxKids >= 4096:
				o.Stat("big_sites_compound_ge_4096_leaf_children", 1)
			case maxKids >= 256:
				o.Stat("big_sites_compound_ge_256_leaf_children", 1)
			default:
				o.Stat("big_sites_compound_lt_256_leaf_children", 1)
			}
			if len(gaps) >= 256 {
				o.Stat("big_sites_ge_256_gap_fields", 1)
			}
			id++
		}
		for _, k := range c.Children {
			rec(k)
		}
	}
	rec(root)
}

func bigCollectAll(site *decode.Value) (fields, gaps []ranges.Range) {
	var rec func(v *decode.Value)
	rec = func(v *decode.Value) {
		if v != site && v.IsRoot {
			return
		}
		switch vv := v.V.(type) {
		case *decode.Compound:
			for _, c := range vv.Children {
				rec(c)
			}
		default:
			if isGapVal(v) {
				gaps = append(gaps, v.Range)
			} else {
				fields = append(fields, v.Range)
			}
		}
	}
	rec(site)
	return
}

// runProg: one Case through the real decode.Decode; emits the prog line (if wanted) and the site lines
func runProg(o *hlib.Out, c *Case, note string, progLine bool) {
	g := interp.DefaultRegistry.MustGroup("verif_c04_big")
	g.Formats[0].RootArray = c.Arr
	bigBody = c.Body
	br := bitio.NewBitReader(c.Input, c.NBits)
	var dv *decode.Value
	obs := func() (obs string) {
		defer func() {
			if r := recover(); r != nil {
				obs = "P " + panicKind(r)
				if panicKind(r) == "xx" {
					obs += fmt.Sprintf(" %v", r)
				}
				dv = nil
			}
		}()
		v, _, _ := decode.Decode(context.Background(), br, g, decode.Options{
			IsRoot:   true,
			FillGaps: c.Gaps,
			Force:    c.Force,
			Range:    ranges.Range{Start: c.Off, Len: c.Len},
		})
		if v == nil {
			return "N"
		}
		dv = v
		if !progLine {
			return "T"
		}
		return "T " + dumpProg(v)
	}()
	if progLine {
		op := c.Text()
		o.Case(op, obs)
		o.Class(op[:min(len(op), 200)] + fmt.Sprintf("#%d", len(op)))
		o.Stat("big_prog_lines", 1)
	}
	switch {
	case dv == nil:
		o.Stat("big_decode_no_tree_"+obs[:1], 1)
		if note != "" {
			// a big program is built to decode completely: not getting a tree is a harness error, not a finding
			o.Verdict("BADOP", "big program gave no tree: "+note+" obs="+obs)
		}
	case dv.Err != nil:
		o.Stat("big_decode_partial_tree", 1)
		if note != "" {
			o.Verdict("BADOP", "big program failed: "+note+" err="+errKind(dv.Err))
		}
	default:
		o.Stat("big_decode_ok", 1)
	}
	if dv != nil && c.Gaps && c.Off == 0 && c.Len == 0 {
		if note == "" {
			note = "replayed-prog"
		}
		bigSites(o, note, dv)
	}
}

func runBig(o *hlib.Out, s bigSpec, withModel bool) {
	c, ok := buildBig(s)
	if !ok {
		o.Verdict("BADOP", "unknown big spec "+s.String())
		return
	}
	runProg(o, c, s.String(), withModel && s.n <= modelCap)
	o.Stat("big_programs", 1)
	o.Stat("big_shape_"+s.shape, 1)
	o.Stat("big_holes_mode_"+strconv.Itoa(s.holes), 1)
}

func bigMode(cfg hlib.Config, o *hlib.Out) {
	r := hlib.NewRand(cfg.Seed)
	sizes := []int{31, 32, 33, 255, 256, 257, 511, 512, 1023, 1024, 1025, 4095, 4096, 4097}
	huge := []int{65535, 65536, 65537}
	reps := 1
	if cfg.Thorough() {
		huge = append(huge, 100003, 262145)
		reps = 3
	}
	maxN := 0
	for rep := 0; rep < reps; rep++ {
		for _, shape := range bigShapes {
			for _, n := range sizes {
				// every (shape, size): holes everywhere and one sparse mode (some / a single hole); 1 in 6 also contiguous
				modes := []int{1, 2 + r.Intn(2)}
				if n >= 4095 && !cfg.Thorough() {
					modes = []int{1 + r.Intn(3)}
				}
				if r.Intn(6) == 0 {
					modes = append(modes, 0)
				}
				for _, m := range modes {
					// the Lean tree model needs ~1.4 s for a 4096-leaf program: quick tier takes the `prog` line for
					// 1 in 6 of them (flat lines always), thorough for all
					withModel := n <= 1025 || cfg.Thorough() || r.Intn(6) == 0
					runBig(o, bigSpec{shape, n, m, r.U64() >> 1}, withModel)
					maxN = max(maxN, n)
				}
			}
		}
		// above the model cap: flat lines only
		for _, shape := range []string{"arr", "struct", "root", "back", "nested", "fmtlen", "fmtbuf", "loop", "loopaos"} {
			for _, n := range huge {
				if !cfg.Thorough() && n != huge[int(r.Intn(len(huge)))] && shape != "loop" && shape != "arr" {
					continue
				}
				runBig(o, bigSpec{shape, n, 1 + r.Intn(3), r.U64() >> 1}, false)
				maxN = max(maxN, n)
			}
		}
	}
	o.Stat("big_max_leaf_children", maxN)
	o.Stat("big_model_cap_leaves", modelCap)
}
