//go:build verif

package main

// canonical dump of a real *decode.Value tree:
//   ( name kind start len index R|- buflen err val link child* )
// kind: s struct, a array, u unsigned scalar, r bit buffer scalar, y synthetic scalar, g gap scalar, o other scalar
// buflen: bit length of v.RootReader for buffer roots (IsRoot), else 0
// err: - | de (DecoderError) | io (IOError) | xx (anything else)
// val: Actual of a non-synthetic *scalar.Uint (prog mode only), else 0
// link: v.Parent == parent && (parent is a struct => ByName[v.Name] == v)
// COPY of the prog-mode part of harness/cmd/c03/dump.go (same line format).

import (
	"errors"
	"fmt"
	"strings"

	"github.com/wader/fq/internal/bitiox"
	"github.com/wader/fq/pkg/decode"
	"github.com/wader/fq/pkg/scalar"
)

func errKind(err error) string {
	if err == nil {
		return "-"
	}
	var fe decode.FormatError
	if errors.As(err, &fe) {
		err = fe.Err
	}
	switch err.(type) {
	case decode.DecoderError:
		return "de"
	case decode.IOError:
		return "io"
	}
	var de decode.DecoderError
	if errors.As(err, &de) {
		return "de"
	}
	var ie decode.IOError
	if errors.As(err, &ie) {
		return "io"
	}
	return "xx"
}

func panicKind(r any) string {
	switch r.(type) {
	case decode.DecoderError:
		return "de"
	case decode.IOError:
		return "io"
	}
	return "xx"
}

func kindOf(v *decode.Value) (kind string, val uint64) {
	switch vv := v.V.(type) {
	case *decode.Compound:
		if vv.IsArray {
			return "a", 0
		}
		return "s", 0
	case scalar.Scalarable:
		fl := vv.ScalarFlags()
		if fl.IsSynthetic() {
			return "y", 0
		}
		if fl.IsGap() {
			return "g", 0
		}
		switch s := vv.(type) {
		case *scalar.Uint:
			return "u", s.Actual
		case *scalar.BitBuf:
			return "r", 0
		}
		return "o", 0
	}
	return "o", 0
}

func linkOK(v, parent *decode.Value) bool {
	if v.Parent != parent {
		return false
	}
	if parent == nil {
		return true
	}
	if c, ok := parent.V.(*decode.Compound); ok && !c.IsArray {
		return c.ByName[v.Name] == v
	}
	return true
}

func dumpNode(sb *strings.Builder, v, parent *decode.Value) {
	kind, val := kindOf(v)
	var bl int64
	if v.IsRoot {
		l, err := bitiox.Len(v.RootReader)
		if err != nil {
			l = -1
		}
		bl = l
	}
	r := "-"
	if v.IsRoot {
		r = "R"
	}
	lk := "0"
	if linkOK(v, parent) {
		lk = "1"
	}
	fmt.Fprintf(sb, "( %s %s %d %d %d %s %d %s %d %s", v.Name, kind, v.Range.Start, v.Range.Len, v.Index, r, bl, errKind(v.Err), val, lk)
	if c, ok := v.V.(*decode.Compound); ok {
		for _, k := range c.Children {
			sb.WriteByte(' ')
			dumpNode(sb, k, v)
		}
	}
	sb.WriteString(" )")
}

func dumpProg(v *decode.Value) string {
	var sb strings.Builder
	dumpNode(&sb, v, nil)
	return sb.String()
}
