//go:build verif

// C04 harness: drives the real ranges.Gaps (and, system level, decode trees with gap
// filling) and writes `gaps <total> <ranges…> TAB <gaps…>` lines for the Lean driver.
package main

import (
	"fmt"
	"strings"

	"github.com/wader/fq/internal/verifharness/hlib"
	"github.com/wader/fq/pkg/ranges"
)

func fmtRanges(rs []ranges.Range) string {
	if len(rs) == 0 {
		return "-"
	}
	ss := make([]string, len(rs))
	for i, r := range rs {
		ss[i] = r.String()
	}
	return strings.Join(ss, " ")
}

func runCase(o *hlib.Out, total ranges.Range, rs []ranges.Range) {
	op := fmt.Sprintf("gaps %s %s", total, fmtRanges(rs))
	in := append([]ranges.Range(nil), rs...) // Gaps sorts in place
	obs, _ := hlib.Catch(func() string { return fmtRanges(ranges.Gaps(total, in)) })
	o.Case(op, obs)
	// class: (number of ranges, has empty, has overlap/adjacency) — non-trivial if >= 2 ranges
	if len(rs) >= 2 {
		o.Class(op)
	}
}

// all multisets (as sorted-by-index sequences with repetition) of k ranges within [0,total]
func enumerate(o *hlib.Out, total int64, k int, stride int, r *hlib.Rand) {
	var all []ranges.Range
	for s := int64(0); s <= total; s++ {
		for l := int64(0); s+l <= total; l++ {
			all = append(all, ranges.Range{Start: s, Len: l})
		}
	}
	idx := make([]int, k)
	var rec func(pos, from int)
	rec = func(pos, from int) {
		if pos == k {
			if stride > 1 && r.Intn(stride) != 0 {
				return
			}
			rs := make([]ranges.Range, k)
			for i, ix := range idx {
				rs[i] = all[ix]
			}
			// the order given to Gaps matters only through the (unstable) sort: shuffle
			for i := len(rs) - 1; i > 0; i-- {
				j := r.Intn(i + 1)
				rs[i], rs[j] = rs[j], rs[i]
			}
			runCase(o, ranges.Range{Start: 0, Len: total}, rs)
			return
		}
		for i := from; i < len(all); i++ {
			idx[pos] = i
			rec(pos+1, i)
		}
	}
	rec(0, 0)
}

func main() {
	cfg := hlib.ParseFlags()
	o := hlib.NewOut(cfg.Out)
	defer o.Close()
	r := hlib.NewRand(cfg.Seed)

	big := len(cfg.Args) > 0 && cfg.Args[0] == "big"
	if cfg.Replay != "" {
		for _, l := range hlib.ReplayLines(cfg.Replay) {
			ws := strings.Fields(l)
			// run big: a `prog` line replays alone; a `gaps`/`coverall` line of a big program carries the spec that
			// rebuilds the program (`@big:<shape>:<N>:<holes>:<seed>#<site>`): all lines of that program are re-emitted
			if len(ws) > 0 && ws[0] == "prog" {
				runProg(o, parseCase(l), "", true)
				continue
			}
			if len(ws) > 2 && strings.HasPrefix(ws[2], "@big:") {
				t := strings.TrimPrefix(ws[2], "@big:")
				if i := strings.Index(t, "#"); i >= 0 {
					t = t[:i]
				}
				if sp, ok := parseBigSpec(t); ok {
					runBig(o, sp, true)
					continue
				}
			}
			if len(ws) < 2 || ws[0] != "gaps" {
				continue
			}
			rs := []ranges.Range{}
			for _, w := range ws[2:] {
				// "@…" words are annotations of the tree run (which decode produced the case)
				if w != "-" && !strings.HasPrefix(w, "@") {
					rs = append(rs, ranges.RangeFromString(w))
				}
			}
			runCase(o, ranges.RangeFromString(ws[1]), rs)
		}
		return
	}

	if big {
		bigMode(cfg, o)
		return
	}

	// 1. the pinned cases of TestRangeGaps and the design's witness
	for _, c := range [][2]string{
		{"0:0", ""}, {"0:10", ""}, {"0:10", "0:10"}, {"0:10", "0:0"}, {"0:10", "1:9"}, {"0:10", "0:9"},
		{"0:10", "1:1 8:1"}, {"0:10", "1:1 2:5 8:1"}, {"0:10", "1:1 2:8 8:2"}, {"0:10", "0:4 2:8 8:2"},
		{"0:12", "4:4 8:0"}, {"0:12", "0:0 4:4"}, {"0:12", "0:0 4:4 8:0"}, {"0:12", "0:0 0:0 4:4 8:0 8:0"}, {"0:12", "8:0"},
		{"0:10", "0:3 4:0"},
	} {
		runCase(o, ranges.RangeFromString(c[0]), ranges.SliceFromString(c[1]))
	}

	// 2. exhaustive small domain: all multisets of <= K ranges over buffers of length <= L
	maxLen, maxK, stride4 := int64(6), 3, 0
	if cfg.Thorough() {
		maxLen, maxK, stride4 = 9, 4, 1
	}
	exh := true
	for total := int64(0); total <= maxLen; total++ {
		for k := 0; k <= maxK; k++ {
			if k == 4 && total > 7 {
				// 55^4/24 ~ 400k per length; sample 1/4 for lengths 8,9
				enumerate(o, total, k, 4, r)
				exh = false
				continue
			}
			enumerate(o, total, k, 1, r)
		}
	}
	_ = stride4
	if exh {
		o.Stat("exhaustive_small_domain", 1)
	}
	o.Stat("small_domain_max_len", int(maxLen))
	o.Stat("small_domain_max_ranges", maxK)

	// 3. random larger sets
	nRandom := 3000
	if cfg.Thorough() {
		nRandom = 60000
	}
	for i := 0; i < nRandom; i++ {
		total := int64(r.Range(0, 2000))
		if r.Intn(4) == 0 {
			total = int64(r.Range(0, 40))
		}
		n := r.Range(0, 30)
		rs := make([]ranges.Range, 0, n)
		for j := 0; j < n; j++ {
			s := int64(r.Intn(int(total) + 1))
			maxl := total - s
			var l int64
			switch r.Intn(4) {
			case 0:
				l = 0
			case 1:
				l = int64(r.Intn(int(min(maxl, 8)) + 1))
			default:
				l = int64(r.Intn(int(maxl) + 1))
			}
			// bias towards adjacency / one-bit distances to previous ranges
			if j > 0 && r.Intn(3) == 0 {
				p := rs[r.Intn(len(rs))]
				s2 := p.Stop() + int64(r.Range(-1, 2))
				if s2 >= 0 && s2 <= total {
					s = s2
					if s+l > total {
						l = total - s
					}
				}
			}
			rs = append(rs, ranges.Range{Start: s, Len: l})
		}
		runCase(o, ranges.Range{Start: 0, Len: total}, rs)
		if i < 3 {
			o.Sample(fmt.Sprintf("gaps 0:%d %s", total, fmtRanges(rs)))
		}
	}
	o.Stat("random_sets", nRandom)

	// 4. long range lists (element-count thresholds: sizes around the powers of two up to 65 k and beyond): disjoint
	// fields with holes, many empty ranges, adjacent and duplicate ranges, overlapping ranges; given in random order
	sizes := []int{31, 32, 33, 255, 256, 257, 511, 512, 1023, 1024, 1025, 4095, 4096, 4097, 65535, 65536, 70001}
	reps := 1
	if cfg.Thorough() {
		sizes = append(sizes, 131071, 262145)
		reps = 8
	}
	nLong := 0
	for rep := 0; rep < reps; rep++ {
		for _, n := range sizes {
			for variant := 0; variant < 4; variant++ {
				if n > 4097 && !cfg.Thorough() && variant != int(r.Intn(4)) && variant != 1 {
					continue
				}
				rs := make([]ranges.Range, 0, n)
				pos := int64(r.Range(0, 3))
				for len(rs) < n {
					w := int64(r.Range(1, 9))
					switch variant {
					case 0: // disjoint, holes of 0..17 bits (one-bit holes included: the known class)
						rs = append(rs, ranges.Range{Start: pos, Len: w})
						pos += w + int64(r.Intn(3))*int64(r.Range(1, 17))/2
					case 1: // many empty ranges: at field starts, stops, inside fields, inside holes
						rs = append(rs, ranges.Range{Start: pos, Len: w})
						for k := r.Intn(4); k > 0 && len(rs) < n; k-- {
							rs = append(rs, ranges.Range{Start: pos + int64(r.Range(-2, int(w)+3)), Len: 0})
						}
						pos += w + int64(r.Intn(2))*int64(r.Range(2, 9))
					case 2: // adjacent runs and duplicates
						rs = append(rs, ranges.Range{Start: pos, Len: w})
						for k := r.Intn(3); k > 0 && len(rs) < n; k-- {
							rs = append(rs, ranges.Range{Start: pos, Len: w})
						}
						pos += w
						if r.Intn(5) == 0 {
							pos += int64(r.Range(2, 30))
						}
					default: // overlapping: long ranges over short ones
						l := w
						if r.Intn(8) == 0 {
							l = int64(r.Range(10, 400))
						}
						rs = append(rs, ranges.Range{Start: pos, Len: l})
						pos += int64(r.Range(0, 14))
					}
				}
				total := int64(0)
				for i := range rs {
					if rs[i].Start < 0 {
						rs[i].Start = 0
					}
					total = max(total, rs[i].Stop())
				}
				total += int64(r.Intn(3)) * int64(r.Range(1, 9))
				if r.Intn(4) != 0 {
					for i := len(rs) - 1; i > 0; i-- {
						j := r.Intn(i + 1)
						rs[i], rs[j] = rs[j], rs[i]
					}
				}
				runCase(o, ranges.Range{Start: 0, Len: total}, rs)
				nLong++
			}
		}
	}
	o.Stat("long_lists", nLong)
	o.Stat("long_lists_max_ranges", sizes[len(sizes)-1])
}
