//go:build verif

package main

// COPY of harness/cmd/c03/prog.go (Node, text form, parser, interpreter on the real decode.D API, Case) without the
// random generator: the line format `prog …` belongs to C03 (Drv/C04Tree.lean parses it); harness c04 builds its own
// LARGE programs (big.go) in that format.  Keep in sync with c03/prog.go — a drift shows as BADOP/DIVERGE in run big.
// Prog: decoder programs over the public decode.D API. The same text is interpreted by the Lean
// model (lean/FqModel/Tree.lean `exec`) and here, with the real API.
//
//  u <name> <n>            d.FieldU(name, n)
//  raw <name> <n>          d.FieldRawLen(name, n)
//  syn <name>              d.FieldValueUint(name, 0)
//  st|ar <name> [ … ]      d.FieldStruct / d.FieldArray
//  fr|li <n> [ … ]         d.FramedFn / d.LimitedFn
//  rg <off> <n> [ … ]      d.RangeFn
//  sa|sr <x> -             d.SeekAbs(x) / d.SeekRel(x)
//  sa|sr <x> [ … ]         d.SeekAbs(x, fn) / d.SeekRel(x, fn)  (position restored)
//  ff <orRaw> <name> <arr> [ … ]        d.FieldFormat / d.FieldFormatOrRaw
//  fl <n> <orRaw> <name> <arr> [ … ]    d.FieldFormatLen / d.FieldFormatOrRawLen
//  fg <off> <n> <name> <arr> [ … ]      d.FieldFormatRange
//  in <arr> [ … ]                       d.Format: nested format, its root's children inlined into the current value
//  fb <name> <nbits> <arr> [ … ]        d.FieldFormatBitBuf on a fresh zero buffer
//  sb|ab <name> <nbits> [ … ]           d.FieldStructRootBitBufFn / d.FieldArrayRootBitBufFn
//  rb <name> <nbits>                    d.FieldRootBitBuf
//  fail | errf                          d.Fatalf / d.Errorf
//  lp <nbits> <mod> [ … ]               c := d.U(nbits) % mod; body c times

import (
	"fmt"
	"strconv"
	"strings"

	"github.com/wader/fq/internal/verifharness/hlib"
	"github.com/wader/fq/pkg/bitio"
	"github.com/wader/fq/pkg/decode"
)

type Node struct {
	Op      string
	Name    string
	N       int64 // width / length / nbits
	X       int64 // offset / position / delta
	Mod     int64
	Arr     bool
	OrRaw   bool
	Restore bool
	Body    []*Node
}

func b01(b bool) string {
	if b {
		return "1"
	}
	return "0"
}

func writeBody(sb *strings.Builder, body []*Node) {
	sb.WriteString(" [")
	for _, n := range body {
		sb.WriteByte(' ')
		n.write(sb)
	}
	sb.WriteString(" ]")
}

func (n *Node) write(sb *strings.Builder) {
	switch n.Op {
	case "u", "raw":
		fmt.Fprintf(sb, "%s %s %d", n.Op, n.Name, n.N)
	case "syn":
		fmt.Fprintf(sb, "syn %s", n.Name)
	case "st", "ar":
		fmt.Fprintf(sb, "%s %s", n.Op, n.Name)
		writeBody(sb, n.Body)
	case "fr", "li":
		fmt.Fprintf(sb, "%s %d", n.Op, n.N)
		writeBody(sb, n.Body)
	case "rg":
		fmt.Fprintf(sb, "rg %d %d", n.X, n.N)
		writeBody(sb, n.Body)
	case "sa", "sr":
		fmt.Fprintf(sb, "%s %d", n.Op, n.X)
		if n.Restore {
			writeBody(sb, n.Body)
		} else {
			sb.WriteString(" -")
		}
	case "ff":
		fmt.Fprintf(sb, "ff %s %s %s", b01(n.OrRaw), n.Name, b01(n.Arr))
		writeBody(sb, n.Body)
	case "fl":
		fmt.Fprintf(sb, "fl %d %s %s %s", n.N, b01(n.OrRaw), n.Name, b01(n.Arr))
		writeBody(sb, n.Body)
	case "fg":
		fmt.Fprintf(sb, "fg %d %d %s %s", n.X, n.N, n.Name, b01(n.Arr))
		writeBody(sb, n.Body)
	case "in":
		fmt.Fprintf(sb, "in %s", b01(n.Arr))
		writeBody(sb, n.Body)
	case "fb":
		fmt.Fprintf(sb, "fb %s %d %s", n.Name, n.N, b01(n.Arr))
		writeBody(sb, n.Body)
	case "sb", "ab":
		fmt.Fprintf(sb, "%s %s %d", n.Op, n.Name, n.N)
		writeBody(sb, n.Body)
	case "rb":
		fmt.Fprintf(sb, "rb %s %d", n.Name, n.N)
	case "fail", "errf":
		sb.WriteString(n.Op)
	case "lp":
		fmt.Fprintf(sb, "lp %d %d", n.N, n.Mod)
		writeBody(sb, n.Body)
	default:
		panic("unknown op " + n.Op)
	}
}

// ---------------------------------------------------------------- parser (for -replay / corpus)

type parser struct {
	ts  []string
	pos int
}

func (p *parser) next() string {
	if p.pos >= len(p.ts) {
		panic("unexpected end of program")
	}
	t := p.ts[p.pos]
	p.pos++
	return t
}

func (p *parser) peek() string {
	if p.pos >= len(p.ts) {
		return ""
	}
	return p.ts[p.pos]
}

func (p *parser) i64() int64 {
	v, err := strconv.ParseInt(p.next(), 10, 64)
	if err != nil {
		panic(err)
	}
	return v
}

func (p *parser) b() bool {
	switch p.next() {
	case "0":
		return false
	case "1":
		return true
	}
	panic("bool expected")
}

func (p *parser) body() []*Node {
	if p.next() != "[" {
		panic("[ expected")
	}
	var ns []*Node
	for p.peek() != "]" {
		ns = append(ns, p.item())
	}
	p.next()
	return ns
}

func (p *parser) item() *Node {
	n := &Node{Op: p.next()}
	switch n.Op {
	case "u", "raw":
		n.Name = p.next()
		n.N = p.i64()
	case "syn":
		n.Name = p.next()
	case "st", "ar":
		n.Name = p.next()
		n.Body = p.body()
	case "fr", "li":
		n.N = p.i64()
		n.Body = p.body()
	case "rg":
		n.X = p.i64()
		n.N = p.i64()
		n.Body = p.body()
	case "sa", "sr":
		n.X = p.i64()
		if p.peek() == "-" {
			p.next()
		} else {
			n.Restore = true
			n.Body = p.body()
		}
	case "ff":
		n.OrRaw = p.b()
		n.Name = p.next()
		n.Arr = p.b()
		n.Body = p.body()
	case "fl":
		n.N = p.i64()
		n.OrRaw = p.b()
		n.Name = p.next()
		n.Arr = p.b()
		n.Body = p.body()
	case "fg":
		n.X = p.i64()
		n.N = p.i64()
		n.Name = p.next()
		n.Arr = p.b()
		n.Body = p.body()
	case "in":
		n.Arr = p.b()
		n.Body = p.body()
	case "fb":
		n.Name = p.next()
		n.N = p.i64()
		n.Arr = p.b()
		n.Body = p.body()
	case "sb", "ab":
		n.Name = p.next()
		n.N = p.i64()
		n.Body = p.body()
	case "rb":
		n.Name = p.next()
		n.N = p.i64()
	case "fail", "errf":
	case "lp":
		n.N = p.i64()
		n.Mod = p.i64()
		n.Body = p.body()
	default:
		panic("unknown op " + n.Op)
	}
	return n
}

// ---------------------------------------------------------------- interpreter on the real API

var execCount = map[string]int{}

func zeroBuf(nbits int64) bitio.ReaderAtSeeker {
	return bitio.NewBitReader(make([]byte, (nbits+7)/8), nbits)
}

func subGroup(arr bool, body []*Node) *decode.Group {
	f := &decode.Format{
		Name:      "c04sub",
		RootArray: arr,
		RootName:  "unused",
		DecodeFn: func(d *decode.D) any {
			execList(d, body)
			return nil
		},
	}
	return &decode.Group{Name: "c04sub", Formats: []*decode.Format{f}}
}

func execList(d *decode.D, body []*Node) {
	for _, n := range body {
		exec(d, n)
	}
}

func exec(d *decode.D, n *Node) {
	fn := func(d *decode.D) { execList(d, n.Body) }
	switch n.Op {
	case "u":
		d.FieldU(n.Name, int(n.N))
	case "raw":
		d.FieldRawLen(n.Name, n.N)
	case "syn":
		d.FieldValueUint(n.Name, 0)
	case "st":
		d.FieldStruct(n.Name, fn)
	case "ar":
		d.FieldArray(n.Name, fn)
	case "fr":
		d.FramedFn(n.N, fn)
	case "li":
		d.LimitedFn(n.N, fn)
	case "rg":
		d.RangeFn(n.X, n.N, fn)
	case "sa":
		if n.Restore {
			d.SeekAbs(n.X, fn)
		} else {
			d.SeekAbs(n.X)
		}
	case "sr":
		if n.Restore {
			d.SeekRel(n.X, fn)
		} else {
			d.SeekRel(n.X)
		}
	case "ff":
		if n.OrRaw {
			d.FieldFormatOrRaw(n.Name, subGroup(n.Arr, n.Body), nil)
		} else {
			d.FieldFormat(n.Name, subGroup(n.Arr, n.Body), nil)
		}
	case "fl":
		if n.OrRaw {
			d.FieldFormatOrRawLen(n.Name, n.N, subGroup(n.Arr, n.Body), nil)
		} else {
			d.FieldFormatLen(n.Name, n.N, subGroup(n.Arr, n.Body), nil)
		}
	case "fg":
		d.FieldFormatRange(n.Name, n.X, n.N, subGroup(n.Arr, n.Body), nil)
	case "in":
		d.Format(subGroup(n.Arr, n.Body), nil)
	case "fb":
		d.FieldFormatBitBuf(n.Name, zeroBuf(n.N), subGroup(n.Arr, n.Body), nil)
	case "sb":
		d.FieldStructRootBitBufFn(n.Name, zeroBuf(n.N), fn)
	case "ab":
		d.FieldArrayRootBitBufFn(n.Name, zeroBuf(n.N), fn)
	case "rb":
		d.FieldRootBitBuf(n.Name, zeroBuf(n.N))
	case "fail":
		d.Fatalf("c04 fail")
	case "errf":
		d.Errorf("c04 errf")
	case "lp":
		c := d.U(int(n.N))
		if n.Mod > 0 {
			c %= uint64(n.Mod)
		} else {
			c = 0
		}
		for i := uint64(0); i < c; i++ {
			execList(d, n.Body)
		}
	default:
		panic("unknown op " + n.Op)
	}
	// reached only when the call returned normally
	execCount[n.Op]++
}

type Case struct {
	Force, Gaps bool
	Off, Len    int64
	Arr         bool
	NBits       int64
	Input       []byte
	Body        []*Node
}

func (c *Case) Text() string {
	var sb strings.Builder
	fmt.Fprintf(&sb, "prog %s %s %d %d %s %d %s", b01(c.Force), b01(c.Gaps), c.Off, c.Len, b01(c.Arr), c.NBits, hlib.Hex(c.Input))
	writeBody(&sb, c.Body)
	return sb.String()
}

func parseCase(text string) *Case {
	ts := strings.Fields(text)
	p := &parser{ts: ts}
	if p.next() != "prog" {
		panic("prog expected")
	}
	c := &Case{}
	c.Force = p.b()
	c.Gaps = p.b()
	c.Off = p.i64()
	c.Len = p.i64()
	c.Arr = p.b()
	c.NBits = p.i64()
	c.Input = hlib.UnHex(p.next())
	c.Body = p.body()
	if p.pos != len(ts) {
		panic("trailing tokens")
	}
	return c
}

func countNodes(ns []*Node) (n int, depth int) {
	for _, x := range ns {
		k, d := countNodes(x.Body)
		n += 1 + k
		depth = max(depth, d+1)
	}
	return
}
