//go:build verif

// C04 harness, system level ("tree" run): decodes real inputs with the real decoders and,
// for every value that D.FillGaps was applied to, writes the same case line as the "gaps"
// run, so that the Lean driver compares fq's actual gap FIELDS with the model of
// ranges.Gaps and evaluates the coverage predicate on them:
//
//	gaps 0:<buffer len> @<job>#<site> <leaf ranges FillGaps collected…> TAB <ranges of the gap fields it added…>
//	gapbits @<job>#<site>.<k> <hex window of the buffer> <bit offset in window> <nbits> <gap len> TAB <gap reader len> <hex of bits read from the gap field's own reader>
//
// Which values are gap filled (decode.go, the only places that set Options.FillGaps/IsRoot):
//   - a value with IsRoot && Format != nil was made by decode() with IsRoot:true — only
//     interp's top-level decode (interp/decode.go:235) and D.TryFieldFormatBitBuf
//     (decode.go:1108) do that, both with FillGaps:true -> whole buffer is gap filled.
//   - IsRoot && Format == nil: FieldRootBitBuf / Field{Array,Struct}RootBitBufFn — never gap filled.
//   - !IsRoot && Format != nil: TryFieldFormat (FillGaps:false) or TryFieldFormatLen/Range
//     (FillGaps:true, over Range 0:dv.Range.Len relative to dv.Range.Start). The two cannot be
//     told apart in general; such a value is checked only when it has a gap-flagged direct
//     child (then FillGaps certainly ran on it).
//
// The leaves FillGaps considers (decode.go:326, Value.WalkRootPreOrder): every non-compound
// value below the site that is not inside a nested IsRoot value (nested roots are skipped
// entirely, including IsRoot leaves) — this includes gap fields of nested sites.
// Gap fields of the site itself are its gap-flagged DIRECT children (d.AddChild on d.Value).
//
// Crash-prone bulk work runs in worker sub-processes (memory limit, watchdog).
package main

import (
	"bufio"
	"bytes"
	"context"
	"encoding/hex"
	"flag"
	"fmt"
	"hash/fnv"
	"os"
	"os/exec"
	"path/filepath"
	"runtime"
	"runtime/debug"
	"sort"
	"strconv"
	"strings"
	"sync"
	"syscall"
	"time"

	_ "github.com/wader/fq/format/all"
	"github.com/wader/fq/internal/bitiox"
	"github.com/wader/fq/internal/verifharness/hlib"
	"github.com/wader/fq/pkg/bitio"
	"github.com/wader/fq/pkg/decode"
	"github.com/wader/fq/pkg/interp"
	"github.com/wader/fq/pkg/ranges"
	"github.com/wader/fq/pkg/scalar"
)

const (
	maxFileSize   = 64 << 10
	maxLeaves     = 7000  // keeps a `gaps` line below ~100 KB
	maxWindowBits = 16384 // a gap longer than this is checked at its first and last 8192 bits
	maxGapbits    = 6     // gap fields content-checked per site
	jobTimeout    = 8 * time.Second
	memLimit      = 2 << 30 // a job whose heap grows beyond this is abandoned (C06's concern)
)

// ---------------------------------------------------------------- synthetic format

// synthItem: one step of the synthetic decoder (format verif_c04). Kinds:
//
//	'r' a:b      SeekAbs(a); raw leaf of b bits
//	'+' +b       raw leaf of b bits at the current position
//	'>' >n       SeekRel(n): bits that no field references (a hole, unless something else covers them)
//	'^' ^a       SeekAbs(a)
//	'z' z        zero-length synthetic value at the current position (FieldValueUint)
//	'L' a:b{…}   SeekAbs(a); FieldFormatLen of b bits (FillGaps:true on the sub-range, IsRoot:false)
//	'F' F{…}     FieldFormat at the current position (sub-format WITHOUT own gap filling; its
//	             Range is [start, max field stop) and may contain holes); position advances by Range.Len
//	'T' T{…}     TryFieldFormat, error ignored
//	'S' S{…}     FieldStruct (plain compound, same decoder)   'A' A{…}  FieldArray
//	'B' B<n>{…}  FieldFormatBitBuf: a NESTED BUFFER of n bits of constant bytes (as after inflate,
//	             base64 …), decoded by verif_c04 with the items inside; a new buffer root (IsRoot,
//	             FillGaps:true whatever the context — also inside F/T where FillGaps is false)
//	'I' I<n>{…}  the same with the nested buffer copied from the next n bits of the input, which
//	             become a raw leaf (like FieldFormatReaderLen)
//	'R' R<n>     FieldRootBitBuf: nested buffer of n bits as one root leaf (never gap filled)
//	'N' N<n>{…}  FieldStructRootBitBufFn, 'M' M<n>{…} FieldArrayRootBitBufFn: nested buffer of n bits
//	             decoded by a CALLBACK of the same decode (never gap filled; stays in the partial
//	             tree when the callback fails)
//	'!' !        d.Fatalf: a decode error at this point   'd' d<b>  raw leaf named "dup" (a second
//	             one in the same struct raises the duplicate-name decode error)
//	             (reading past the end: +<huge>)
//
// Positions inside L/F/T are relative to the sub-decode's own buffer.
type synthItem struct {
	Kind       byte
	Start, Len int64
	Sub        []synthItem
}

// synthIn: the program of one (sub-)decode plus where it runs: Buf = id of the buffer it reads,
// Off = offset of this decoder's position 0 in that buffer.
type synthIn struct {
	Items []synthItem
	Buf   int
	Off   int64
}

var synthGroup, synthProbeGroup *decode.Group

// ground truth, written by the synthetic decoder itself: which leaf was decoded from which
// buffer at which range. A leaf is logged after the Field call returned; the leaves of a
// decode()-based sub-decode that fails are rolled back (fq drops such a sub-tree), the leaves
// of callback based compounds (struct, array, nested root callbacks) stay, as they stay in
// the partial tree of a failed decode.
type logLeaf struct {
	buf        int
	start, len int64
}

var synthLog struct {
	leaves []logLeaf
	nbuf   int
}

func logLeafAt(in synthIn, pos, n int64) {
	synthLog.leaves = append(synthLog.leaves, logLeaf{in.Buf, in.Off + pos, n})
}

func constBits(n int64, salt uint64) bitio.ReaderAtSeeker {
	return bitio.NewBitReader(hlib.NewRand(uint64(n)+salt).Bytes(int((n+7)/8)), n)
}

func synthDecode(d *decode.D, in synthIn) {
	for i, it := range in.Items {
		name := "f" + strconv.Itoa(i)
		sub := func(buf int, off int64) synthIn { return synthIn{Items: it.Sub, Buf: buf, Off: off} }
		newBuf := func() (int, string) {
			synthLog.nbuf++
			return synthLog.nbuf, fmt.Sprintf("f%d_b%d", i, synthLog.nbuf)
		}
		mark := len(synthLog.leaves)
		// a decode()-based sub-decode that failed: fq keeps nothing of it
		failed := func(err error, op string) {
			synthLog.leaves = synthLog.leaves[:mark]
			if it.Kind != 'T' {
				d.IOPanic(err, name, op)
			}
		}
		switch it.Kind {
		case 'r', '+', 'd':
			if it.Kind == 'r' {
				d.SeekAbs(it.Start)
			}
			if it.Kind == 'd' {
				name = "dup" // twice in one struct: `"dup" already exist in struct`
			}
			p := d.Pos()
			d.FieldRawLen(name, it.Len)
			logLeafAt(in, p, it.Len)
		case '>':
			d.SeekRel(it.Len)
		case '^':
			d.SeekAbs(it.Start)
		case 'z':
			p := d.Pos()
			d.FieldValueUint(name, uint64(i))
			logLeafAt(in, p, 0)
		case '!':
			d.Fatalf("synthetic decode error")
		case 'L':
			d.SeekAbs(it.Start)
			if dv, _, err := d.TryFieldFormatLen(name, it.Len, synthGroup, sub(in.Buf, in.Off+d.Pos())); dv == nil {
				failed(err, "FieldFormatLen")
			}
		case 'F', 'T':
			if dv, _, err := d.TryFieldFormat(name, synthGroup, sub(in.Buf, in.Off+d.Pos())); dv == nil {
				failed(err, "FieldFormat")
			}
		case 'B':
			id, bname := newBuf()
			if dv, _, err := d.TryFieldFormatBitBuf(bname, constBits(it.Len, 99), synthGroup, sub(id, 0)); dv == nil {
				failed(err, "FieldFormatBitBuf")
			}
		case 'I':
			p := d.Pos()
			raw := d.FieldRawLen(name+"raw", it.Len)
			logLeafAt(in, p, it.Len)
			mark = len(synthLog.leaves)
			id, bname := newBuf()
			br := bitio.NewBitReader(d.ReadAllBits(raw), it.Len)
			if dv, _, err := d.TryFieldFormatBitBuf(bname, br, synthGroup, sub(id, 0)); dv == nil {
				failed(err, "FieldFormatBitBuf")
			}
		case 'R':
			d.FieldRootBitBuf(name, constBits(it.Len, 5))
		case 'N':
			id, bname := newBuf()
			d.FieldStructRootBitBufFn(bname, constBits(it.Len, 17), func(d *decode.D) { synthDecode(d, sub(id, 0)) })
		case 'M':
			id, bname := newBuf()
			d.FieldArrayRootBitBufFn(bname, constBits(it.Len, 23), func(d *decode.D) { synthDecode(d, sub(id, 0)) })
		case 'S':
			d.FieldStruct(name, func(d *decode.D) { synthDecode(d, sub(in.Buf, in.Off)) })
		case 'A':
			d.FieldArray(name, func(d *decode.D) { synthDecode(d, sub(in.Buf, in.Off)) })
		}
	}
}

func init() {
	f := &decode.Format{Name: "verif_c04", RootArray: true, RootName: "synth", DefaultInArg: synthIn{}}
	synthGroup = &decode.Group{Name: "verif_c04", Formats: []*decode.Format{f}}
	f.DecodeFn = func(d *decode.D) any {
		var in synthIn
		d.ArgAs(&in)
		synthDecode(d, in)
		return nil
	}
	// a group of two formats (like probing): a failed decode is discarded, not kept as partial tree
	never := &decode.Format{Name: "verif_c04_never", RootArray: true, RootName: "never",
		DecodeFn: func(d *decode.D) any { d.Fatalf("never"); return nil }}
	synthProbeGroup = &decode.Group{Name: "verif_c04_probe", Formats: []*decode.Format{f, never}}
}

func parseNum(s string) (int64, string, bool) {
	i := 0
	for i < len(s) && s[i] >= '0' && s[i] <= '9' {
		i++
	}
	if i == 0 {
		return 0, s, false
	}
	n, err := strconv.ParseInt(s[:i], 10, 64)
	return n, s[i:], err == nil
}

// items separated by ',' (grammar above); returns the unparsed rest
func parseSynth(s string) ([]synthItem, string, error) {
	var items []synthItem
	bad := func() ([]synthItem, string, error) { return nil, "", fmt.Errorf("bad item at %q", s) }
	parseSub := func() ([]synthItem, bool) {
		if len(s) == 0 || s[0] != '{' {
			return nil, false
		}
		sub, rest, err := parseSynth(s[1:])
		if err != nil || len(rest) == 0 || rest[0] != '}' {
			return nil, false
		}
		s = rest[1:]
		return sub, true
	}
	for len(s) > 0 && s[0] != '}' {
		var it synthItem
		var ok bool
		switch c := s[0]; {
		case c == '+' || c == '>':
			it.Kind = c
			if it.Len, s, ok = parseNum(s[1:]); !ok {
				return bad()
			}
		case c == '^':
			it.Kind = c
			if it.Start, s, ok = parseNum(s[1:]); !ok {
				return bad()
			}
		case c == 'z':
			it.Kind, s = c, s[1:]
		case c == '!':
			it.Kind, s = c, s[1:]
		case c == 'd':
			it.Kind = c
			if it.Len, s, ok = parseNum(s[1:]); !ok {
				return bad()
			}
		case c == 'B' || c == 'I' || c == 'N' || c == 'M':
			it.Kind = c
			if it.Len, s, ok = parseNum(s[1:]); !ok {
				return bad()
			}
			if it.Sub, ok = parseSub(); !ok {
				return bad()
			}
		case c == 'R':
			it.Kind = c
			if it.Len, s, ok = parseNum(s[1:]); !ok {
				return bad()
			}
		case c == 'F' || c == 'T' || c == 'S' || c == 'A':
			it.Kind, s = c, s[1:]
			if it.Sub, ok = parseSub(); !ok {
				return bad()
			}
		case c >= '0' && c <= '9':
			it.Kind = 'r'
			if it.Start, s, ok = parseNum(s); !ok || len(s) == 0 || s[0] != ':' {
				return bad()
			}
			if it.Len, s, ok = parseNum(s[1:]); !ok {
				return bad()
			}
			if len(s) > 0 && s[0] == '{' {
				it.Kind = 'L'
				if it.Sub, ok = parseSub(); !ok {
					return bad()
				}
			}
		default:
			return bad()
		}
		items = append(items, it)
		if len(s) > 0 && s[0] == ',' {
			s = s[1:]
		}
	}
	return items, s, nil
}

// ---------------------------------------------------------------- jobs

// job spec (no whitespace): <path relative to repo, or "synth">|<format>|<variant>|<f|n>
// variants: id | t<n> truncate to n bytes | o<off>:<hh>,… overwrite bytes | s<bit> decode the
// sub-range that starts at bit <bit> (Options.Range) | p<n> n junk bytes in front and decode from
// bit 8n (Options.Range) | for synth: <nbits>;<items>
type job struct {
	path, format, variant string
	force                 bool
}

func (j job) String() string {
	f := "n"
	if j.force {
		f = "f"
	}
	return j.path + "|" + j.format + "|" + j.variant + "|" + f
}

func parseJob(s string) (job, error) {
	ps := strings.Split(s, "|")
	if len(ps) != 4 {
		return job{}, fmt.Errorf("bad job %q", s)
	}
	return job{path: ps[0], format: ps[1], variant: ps[2], force: ps[3] == "f"}, nil
}

// inputPath: "corpus/…" are inputs kept in /verif/corpus (minimal files that are not part of
// the repository's testdata), everything else is relative to the repository
func inputPath(p string) string {
	if strings.HasPrefix(p, "corpus/") {
		d := os.Getenv("VERIF_DIR")
		if d == "" {
			d = "/verif"
		}
		return filepath.Join(d, p)
	}
	return filepath.Join(repoDir(), p)
}

func repoDir() string {
	if d := os.Getenv("VERIF_REPO"); d != "" {
		return d
	}
	return "/repo"
}

// ---------------------------------------------------------------- worker side: one job

type emitter struct {
	w *bufio.Writer
}

func (e *emitter) Case(op, obs string) { fmt.Fprintf(e.w, "C\t%s\t%s\n", hlib.San(op), hlib.San(obs)) }
func (e *emitter) Stat(k string, n int) { fmt.Fprintf(e.w, "S\t%s\t%d\n", k, n) }
func (e *emitter) Class(k string)       { fmt.Fprintf(e.w, "K\t%s\n", k) }
func (e *emitter) Sample(s string)      { fmt.Fprintf(e.w, "M\t%s\n", hlib.San(s)) }

func fmtRanges(rs []ranges.Range, base int64) string {
	if len(rs) == 0 {
		return "-"
	}
	var sb strings.Builder
	for i, r := range rs {
		if i > 0 {
			sb.WriteByte(' ')
		}
		sb.WriteString(strconv.FormatInt(r.Start-base, 10))
		sb.WriteByte(':')
		sb.WriteString(strconv.FormatInt(r.Len, 10))
	}
	return sb.String()
}

func isGap(v *decode.Value) bool {
	s, ok := v.V.(scalar.Scalarable)
	return ok && s.ScalarFlags().IsGap()
}

// collect re-implements the walk of D.FillGaps independently of Value.Walk
func collect(site *decode.Value) (fields []ranges.Range, gapVals []*decode.Value) {
	var rec func(v *decode.Value, depth int)
	rec = func(v *decode.Value, depth int) {
		if v != site && v.IsRoot {
			return
		}
		switch vv := v.V.(type) {
		case *decode.Compound:
			for _, c := range vv.Children {
				rec(c, depth+1)
			}
		default:
			if depth == 1 && isGap(v) {
				gapVals = append(gapVals, v)
			} else {
				fields = append(fields, v.Range)
			}
		}
	}
	rec(site, 0)
	return fields, gapVals
}

// collectAll: every leaf reachable in the site's buffer, split only by the gap flag — no
// matter below which value fq attached a gap field or how FillGaps grouped the leaves
func collectAll(site *decode.Value) (fields, gaps []ranges.Range) {
	var rec func(v *decode.Value)
	rec = func(v *decode.Value) {
		if v != site && v.IsRoot {
			return
		}
		switch vv := v.V.(type) {
		case *decode.Compound:
			for _, c := range vv.Children {
				rec(c)
			}
		default:
			if isGap(v) {
				gaps = append(gaps, v.Range)
			} else {
				fields = append(fields, v.Range)
			}
		}
	}
	rec(site)
	return fields, gaps
}

func bitLen(br bitio.ReadAtSeeker) (int64, error) { return bitiox.Len(br) }

// readBits reads bits [off,off+n) through ReadBitsAt, left aligned, zero padded
func readBits(br bitio.ReaderAt, off, n int64) ([]byte, error) {
	buf := make([]byte, (n+7)/8)
	if n == 0 {
		return buf, nil
	}
	_, err := bitio.ReadAtFull(br, buf, n, off)
	if err != nil {
		return nil, err
	}
	if r := n % 8; r != 0 { // do not trust the reader to leave the padding zero
		buf[len(buf)-1] &= byte(0xff << (8 - r))
	}
	return buf, nil
}

// bytesWindow returns the bytes that contain bits [s,s+n) of the buffer and s's offset in them
func bytesWindow(input []byte, root *decode.Value, s, n int64) ([]byte, int64, error) {
	b0, b1 := s/8, (s+n+7)/8
	if input != nil {
		if b0 < 0 || b1 > int64(len(input)) {
			return nil, 0, fmt.Errorf("outside")
		}
		return input[b0:b1], s % 8, nil
	}
	l, err := bitLen(root.RootReader)
	if err != nil {
		return nil, 0, err
	}
	end := b1 * 8
	if end > l {
		end = l
	}
	w, err := readBits(root.RootReader, b0*8, end-b0*8)
	return w, s % 8, err
}

func runJob(j job, e *emitter) {
	var input []byte
	var inArg any
	group := synthGroup
	synthLog.leaves, synthLog.nbuf = nil, 0
	dr := ranges.Range{}
	if j.path == "synth" {
		ps := strings.SplitN(j.variant, ";", 2)
		nbits, err := strconv.ParseInt(ps[0], 10, 64)
		if err != nil || len(ps) != 2 || nbits < 0 || nbits > 1<<24 {
			e.Stat("bad_jobs", 1)
			return
		}
		items, rest, err := parseSynth(ps[1])
		if err != nil || rest != "" {
			e.Stat("bad_jobs", 1)
			return
		}
		// content: a fixed pseudo random pattern so that gap content is distinguishable
		input = hlib.NewRand(uint64(nbits)*2654435761 + 7).Bytes(int((nbits + 7) / 8))
		inArg = synthIn{Items: items}
		if j.format == "verif_c04_probe" {
			group = synthProbeGroup
		}
		if nbits%8 != 0 || nbits == 0 {
			dr = ranges.Range{Start: 0, Len: nbits}
		}
		if nbits == 0 {
			input = []byte{}
		}
	} else {
		b, err := os.ReadFile(inputPath(j.path))
		if err != nil {
			e.Stat("bad_jobs", 1)
			return
		}
		input = b
		g, err := interp.DefaultRegistry.Group(j.format)
		if err != nil {
			e.Stat("bad_jobs", 1)
			return
		}
		group = g
		v := j.variant
		switch {
		case v == "id":
		case v[0] == 't':
			n, _ := strconv.Atoi(v[1:])
			if n >= 0 && n <= len(input) {
				input = input[:n]
			}
		case v[0] == 'o':
			input = append([]byte(nil), input...)
			for _, p := range strings.Split(v[1:], ",") {
				kv := strings.Split(p, ":")
				off, _ := strconv.Atoi(kv[0])
				hb, err := hex.DecodeString(kv[1])
				if err == nil && len(hb) == 1 && off >= 0 && off < len(input) {
					input[off] = hb[0]
				}
			}
		case v[0] == 'p':
			// n junk bytes in front, decode the rest (Options.Range.Start = 8n): a decode that
			// succeeds at a non-zero offset of its reader
			n, _ := strconv.Atoi(v[1:])
			if n > 0 && n <= 64 {
				input = append(bytes.Repeat([]byte{0xa5}, n), input...)
				dr = ranges.Range{Start: int64(n) * 8, Len: int64(len(input)-n) * 8}
			}
		case v[0] == 's':
			s, _ := strconv.ParseInt(v[1:], 10, 64)
			if s > 0 && s < int64(len(input))*8 {
				dr = ranges.Range{Start: s, Len: int64(len(input))*8 - s}
			}
		}
	}
	totalLen := int64(len(input)) * 8
	base := int64(0)
	if !dr.IsZero() {
		totalLen, base = dr.Len, dr.Start
	}

	ctx, cancel := context.WithTimeout(context.Background(), jobTimeout-3*time.Second)
	defer cancel()
	var dv *decode.Value
	var derr error
	_, panicked := hlib.Catch(func() string {
		dv, _, derr = decode.Decode(ctx, bitio.NewBitReader(input, -1), group, decode.Options{
			IsRoot: true, FillGaps: true, Force: j.force, Range: dr, InArg: inArg,
		})
		return ""
	})
	e.Stat("decodes", 1)
	if panicked {
		e.Stat("decodes_panicked", 1) // C06's concern; nothing to check here
		return
	}
	if dv == nil {
		e.Stat("decodes_no_value", 1)
		return
	}
	failed := derr != nil
	if failed {
		e.Stat("decodes_failed_with_partial_tree", 1)
	} else {
		e.Stat("decodes_ok", 1)
	}

	// all sites, in an order independent of fq's Walk
	type site struct {
		v     *decode.Value
		total int64
		base  int64
		top   bool
		root  bool
	}
	var sites []site
	var find func(v *decode.Value, depth int)
	find = func(v *decode.Value, depth int) {
		c, isC := v.V.(*decode.Compound)
		switch {
		case v == dv:
			sites = append(sites, site{v: v, total: totalLen, base: base, top: true, root: true})
		case v.IsRoot && v.Format != nil:
			// made by decode() with IsRoot:true. A format may have replaced the root compound by
			// a scalar that spans the buffer (json, xml, …): then the root itself is the only leaf
			// (and FillGaps' AddChild on a non-compound drops the gap fields).
			l, err := bitLen(v.RootReader)
			b := int64(0)
			if !isC {
				b = v.Range.Start // TryFieldFormatBitBuf sets dv.Range.Start = d.Pos() of the parent
			}
			if err != nil {
				e.Stat("roots_len_error", 1)
			} else {
				sites = append(sites, site{v: v, total: l, base: b, root: true})
			}
		case v.IsRoot && isC:
			e.Stat("roots_not_gap_filled_compound", 1)
		case v.IsRoot:
			e.Stat("roots_not_gap_filled_leaf", 1)
		case v.Format != nil && isC:
			has := false
			for _, ch := range c.Children {
				if isGap(ch) {
					has = true
					break
				}
			}
			if has {
				sites = append(sites, site{v: v, total: v.Range.Len, base: v.Range.Start})
			} else {
				e.Stat("subdecodes_without_gap_child_unchecked", 1)
			}
		}
		if isC {
			for _, ch := range c.Children {
				find(ch, depth+1)
			}
		}
	}
	if _, isC := dv.V.(*decode.Compound); !isC {
		e.Stat("top_level_scalar_roots", 1)
	}
	find(dv, 0)

	if j.path == "synth" {
		// the leaves fq accounts to each buffer against the leaves the decoder really decoded from it
		bufVals := map[int]*decode.Value{0: dv}
		var walkAll func(v *decode.Value)
		walkAll = func(v *decode.Value) {
			if i := strings.LastIndex(v.Name, "_b"); i >= 0 {
				if id, err := strconv.Atoi(v.Name[i+2:]); err == nil {
					bufVals[id] = v
				}
			}
			if c, ok := v.V.(*decode.Compound); ok {
				for _, ch := range c.Children {
					walkAll(ch)
				}
			}
		}
		walkAll(dv)
		ids := map[int]bool{}
		for id := range bufVals {
			ids[id] = true
		}
		for _, l := range synthLog.leaves {
			ids[l.buf] = true
		}
		var idl []int
		for id := range ids {
			idl = append(idl, id)
		}
		sort.Ints(idl)
		sortRs := func(rs []ranges.Range) {
			sort.Slice(rs, func(a, b int) bool {
				if rs[a].Start != rs[b].Start {
					return rs[a].Start < rs[b].Start
				}
				return rs[a].Len < rs[b].Len
			})
		}
		for _, id := range idl {
			var exp, obs []ranges.Range
			for _, l := range synthLog.leaves {
				if l.buf == id {
					exp = append(exp, ranges.Range{Start: l.start, Len: l.len})
				}
			}
			b := int64(0)
			if v, ok := bufVals[id]; ok {
				obs, _ = collectAll(v)
				if id == 0 {
					b = base
				}
			}
			sortRs(exp)
			sortRs(obs)
			op := fmt.Sprintf("bufleaves @%s#b%d", j, id)
			if x := fmtRanges(exp, 0); x != "-" {
				op += " " + x
			}
			e.Case(op, fmtRanges(obs, b))
			e.Stat("synth_buffers_leafset_checked", 1)
			// the C04 statement on the decoder's own account of the buffer: the leaves really
			// decoded from it and the gap fields fq attached in it leave no bit of it out
			if v, ok := bufVals[id]; ok {
				if _, isC := v.V.(*decode.Compound); isC && (id == 0 || (v.IsRoot && v.Format != nil)) {
					total := totalLen
					if id != 0 {
						l, err := bitLen(v.RootReader)
						if err != nil {
							continue
						}
						total = l
					}
					_, ag := collectAll(v)
					cop := fmt.Sprintf("coverall 0:%d @%s#t%d", total, j, id)
					if x := fmtRanges(exp, 0); x != "-" {
						cop += " " + x
					}
					e.Case(cop, fmtRanges(ag, b))
				}
			}
		}
	}

	for si, s := range sites {
		fields, gapVals := collect(s.v)
		kind := "sub"
		if s.root {
			kind = "root"
		}
		e.Stat(kind+"_sites", 1)
		if failed {
			e.Stat(kind+"_sites_of_failed_decodes", 1)
		}
		if len(gapVals) > 0 {
			e.Stat(kind+"_sites_with_gaps", 1)
		}
		outsideH := false
		for _, r := range fields {
			if r.Len < 0 || r.Start-s.base < 0 || r.Start-s.base+r.Len > s.total {
				outsideH = true
			}
		}
		if outsideH {
			e.Stat(kind+"_sites_with_leaf_outside_buffer", 1)
		}
		note := fmt.Sprintf("@%s#%d", j, si)
		if len(fields)+len(gapVals) > maxLeaves {
			e.Stat(kind+"_sites_skipped_too_many_leaves", 1)
		} else {
			gaps := make([]ranges.Range, len(gapVals))
			for i, g := range gapVals {
				gaps[i] = g.Range
			}
			rs := fmtRanges(fields, s.base)
			opName := "gaps"
			if _, isC := s.v.V.(*decode.Compound); !isC {
				// scalar root: FillGaps' AddChild cannot attach gap fields, nothing to compare with
				// the model; the predicate alone says whether the single leaf covers the buffer
				opName = "cover"
				e.Stat("scalar_root_sites", 1)
			}
			op := fmt.Sprintf("%s 0:%d %s", opName, s.total, note)
			key := fmt.Sprintf("gaps 0:%d", s.total)
			if rs != "-" {
				op += " " + rs
				key += " " + rs
			}
			e.Case(op, fmtRanges(gaps, s.base))
			if s.root && opName == "gaps" {
				// the property itself on the whole buffer, independent of how fq groups leaves:
				// all non-gap leaves reachable in this buffer against all gap fields in it
				af, ag := collectAll(s.v)
				cop := fmt.Sprintf("coverall 0:%d %s", s.total, note)
				if x := fmtRanges(af, s.base); x != "-" {
					cop += " " + x
				}
				e.Case(cop, fmtRanges(ag, s.base))
				e.Stat("root_buffers_cover_checked", 1)
			}
			if len(fields) >= 2 {
				h := fnv.New64a()
				h.Write([]byte(key))
				e.Class(strconv.FormatUint(h.Sum64(), 16))
				if len(gaps) > 0 && j.path != "synth" {
					e.Sample(fmt.Sprintf("gaps 0:%d %s … (%d leaves) -> %d gap fields", s.total, note, len(fields), len(gaps)))
				}
			}
		}
		// content of the gap fields
		var in []byte
		if s.v.BufferRoot() == dv {
			in = input
		}
		step := 1
		if len(gapVals) > maxGapbits {
			step = (len(gapVals) + maxGapbits - 1) / maxGapbits
		}
		for gi := 0; gi < len(gapVals); gi += step {
			g := gapVals[gi]
			bb, ok := g.V.(*scalar.BitBuf)
			if !ok || bb.Actual == nil {
				e.Case(fmt.Sprintf("gapbits %s.%d - 0 0 %d", note, gi, g.Range.Len), "err:not-bitbuf")
				continue
			}
			rl, err := bitLen(bb.Actual)
			if err != nil {
				e.Case(fmt.Sprintf("gapbits %s.%d - 0 0 %d", note, gi, g.Range.Len), "err:len")
				continue
			}
			type win struct{ off, n int64 }
			wins := []win{{0, g.Range.Len}}
			if g.Range.Len > maxWindowBits {
				wins = []win{{0, maxWindowBits / 2}, {g.Range.Len - maxWindowBits/2, maxWindowBits / 2}}
			}
			for _, w := range wins {
				if w.n < 0 {
					continue
				}
				window, rel, err := bytesWindow(in, s.v.BufferRoot(), g.Range.Start+w.off, w.n)
				if err != nil {
					e.Stat("gapbits_window_unreadable", 1)
					continue
				}
				op := fmt.Sprintf("gapbits %s.%d %s %d %d %d", note, gi, hlib.Hex(window), rel, w.n, g.Range.Len)
				got, err := readBits(bb.Actual, w.off, w.n)
				if err != nil {
					e.Case(op, "err:read")
					continue
				}
				e.Case(op, fmt.Sprintf("%d %s", rl, hlib.Hex(got)))
				e.Stat("gapbits_cases", 1)
			}
		}
	}
}

// ---------------------------------------------------------------- worker process

func workerMain(jobFile, outFile string, from int) {
	debug.SetMemoryLimit(3 * memLimit)
	_ = syscall.Setrlimit(syscall.RLIMIT_AS, &syscall.Rlimit{Cur: 24 << 30, Max: 24 << 30})
	jobs := readLines(jobFile)
	f, err := os.OpenFile(outFile, os.O_APPEND|os.O_CREATE|os.O_WRONLY, 0o644)
	if err != nil {
		panic(err)
	}
	w := bufio.NewWriterSize(f, 1<<20)
	fmt.Fprintf(w, "X\n") // discard whatever an earlier worker left of an unfinished job
	e := &emitter{w: w}
	var mu sync.Mutex
	started := time.Now()
	go func() { // watchdog: time and memory per job
		var ms runtime.MemStats
		for {
			time.Sleep(200 * time.Millisecond)
			mu.Lock()
			t := started
			mu.Unlock()
			if time.Since(t) > jobTimeout {
				os.Exit(3)
			}
			runtime.ReadMemStats(&ms)
			if ms.HeapAlloc > memLimit {
				os.Exit(4)
			}
		}
	}()
	for i := from; i < len(jobs); i++ {
		j, err := parseJob(jobs[i])
		mu.Lock()
		started = time.Now()
		mu.Unlock()
		if err == nil {
			runJob(j, e)
		}
		if ms := time.Since(started).Milliseconds(); ms > 1500 {
			fmt.Fprintf(w, "T\t%d\t%s\n", ms, jobs[i])
		}
		fmt.Fprintf(w, "D\t%d\n", i)
		w.Flush()
	}
	f.Close()
}

func readLines(p string) []string {
	b, err := os.ReadFile(p)
	if err != nil {
		panic(err)
	}
	var ls []string
	for _, l := range strings.Split(string(b), "\n") {
		if l != "" {
			ls = append(ls, l)
		}
	}
	return ls
}

// ---------------------------------------------------------------- parent: run jobs in workers, merge in order

func runJobs(o *hlib.Out, jobs []job, workDir string) {
	nw := runtime.NumCPU() / 2
	if nw > 8 {
		nw = 8
	}
	if nw < 1 {
		nw = 1
	}
	if len(jobs) < 4*nw {
		nw = 1
	}
	exe, err := os.Executable()
	if err != nil {
		panic(err)
	}
	type chunk struct {
		jobs    []job
		out     string
		crashed []string
		skipped int
	}
	chunks := make([]*chunk, nw)
	per := (len(jobs) + nw - 1) / nw
	var wg sync.WaitGroup
	for c := 0; c < nw; c++ {
		lo, hi := c*per, (c+1)*per
		if lo > len(jobs) {
			lo = len(jobs)
		}
		if hi > len(jobs) {
			hi = len(jobs)
		}
		ch := &chunk{jobs: jobs[lo:hi], out: filepath.Join(workDir, fmt.Sprintf("part_%d.txt", c))}
		chunks[c] = ch
		jf := filepath.Join(workDir, fmt.Sprintf("jobs_%d.txt", c))
		var sb strings.Builder
		for _, j := range ch.jobs {
			sb.WriteString(j.String() + "\n")
		}
		if err := os.WriteFile(jf, []byte(sb.String()), 0o644); err != nil {
			panic(err)
		}
		os.Remove(ch.out)
		wg.Add(1)
		go func() {
			defer wg.Done()
			from := 0
			for from < len(ch.jobs) {
				cmd := exec.Command(exe, "-worker", jf, "-wout", ch.out, "-wfrom", strconv.Itoa(from))
				err := cmd.Run()
				done := lastDone(ch.out)
				if err == nil && done >= len(ch.jobs)-1 {
					break
				}
				// the worker died in the job after the last completed one: skip it, go on after it
				bad := done + 1
				if bad < from {
					bad = from
				}
				from = bad + 1
				if bad < len(ch.jobs) {
					ch.crashed = append(ch.crashed, ch.jobs[bad].String())
					// the other variants of the same (input, format) mostly die the same way: skip them
					for from < len(ch.jobs) && ch.jobs[from].path == ch.jobs[bad].path && ch.jobs[from].format == ch.jobs[bad].format {
						ch.skipped++
						from++
					}
				}
			}
		}()
	}
	wg.Wait()
	for _, ch := range chunks {
		mergePart(o, ch.out)
		o.Stat("jobs_skipped_after_worker_died", ch.skipped)
		for _, c := range ch.crashed {
			o.Stat("jobs_worker_died_skipped", 1)
			fmt.Fprintf(os.Stderr, "worker died (timeout/memory/fatal) in job %s\n", c)
		}
	}
}

func lastDone(p string) int {
	f, err := os.Open(p)
	if err != nil {
		return -1
	}
	defer f.Close()
	last := -1
	sc := bufio.NewScanner(f)
	sc.Buffer(make([]byte, 1<<20), 1<<28)
	for sc.Scan() {
		l := sc.Text()
		if strings.HasPrefix(l, "D\t") {
			if n, err := strconv.Atoi(l[2:]); err == nil {
				last = n
			}
		}
	}
	return last
}

// mergePart copies the complete jobs of a part file (lines up to the last D marker)
func mergePart(o *hlib.Out, p string) {
	f, err := os.Open(p)
	if err != nil {
		return
	}
	defer f.Close()
	var pending []string
	sc := bufio.NewScanner(f)
	sc.Buffer(make([]byte, 1<<20), 1<<28)
	flush := func() {
		for _, l := range pending {
			ps := strings.Split(l, "\t")
			switch {
			case ps[0] == "C" && len(ps) == 3:
				o.Case(ps[1], ps[2])
			case ps[0] == "S" && len(ps) == 3:
				n, _ := strconv.Atoi(ps[2])
				o.Stat(ps[1], n)
			case ps[0] == "K" && len(ps) == 2:
				o.Class(ps[1])
			case ps[0] == "M" && len(ps) == 2:
				o.Sample(ps[1])
			case ps[0] == "T" && len(ps) == 3:
				o.Stat("jobs_slower_than_1500ms", 1)
				fmt.Fprintf(os.Stderr, "slow job %s ms: %s\n", ps[1], ps[2])
			}
		}
		pending = pending[:0]
	}
	for sc.Scan() {
		l := sc.Text()
		if strings.HasPrefix(l, "D\t") {
			flush()
			continue
		}
		if l == "X" {
			pending = pending[:0]
			continue
		}
		pending = append(pending, l)
	}
}

// ---------------------------------------------------------------- job generation

const corpusDir = "~corpus"

var extFormat = map[string]string{".mkv": "matroska", ".cmo3": "caff", ".vorbis_packet": "vorbis_packet"}

func listFiles() map[string][]string {
	root := filepath.Join(repoDir(), "format")
	byDir := map[string][]string{}
	_ = filepath.Walk(root, func(p string, info os.FileInfo, err error) error {
		if err != nil || info.IsDir() {
			return nil
		}
		rel, _ := filepath.Rel(repoDir(), p)
		if !strings.Contains(rel, "/testdata/") || strings.HasSuffix(rel, ".fqtest") || strings.HasSuffix(rel, ".md") ||
			strings.ContainsAny(rel, " \t|@#") || info.Size() == 0 || info.Size() > maxFileSize {
			return nil
		}
		dir := strings.Split(rel, "/")[1]
		byDir[dir] = append(byDir[dir], rel)
		return nil
	})
	// minimal inputs kept in /verif/corpus/C04/inputs (shapes no testdata file has); always used
	vd := os.Getenv("VERIF_DIR")
	if vd == "" {
		vd = "/verif"
	}
	if es, err := os.ReadDir(filepath.Join(vd, "corpus/C04/inputs")); err == nil {
		for _, en := range es {
			if !en.IsDir() && !strings.ContainsAny(en.Name(), " \t|@#") {
				byDir[corpusDir] = append(byDir[corpusDir], "corpus/C04/inputs/"+en.Name())
			}
		}
	}
	for _, fs := range byDir {
		sort.Strings(fs)
	}
	return byDir
}

func genJobs(r *hlib.Rand, thorough bool) []job {
	byDir := listFiles()
	dirs := make([]string, 0, len(byDir))
	for d := range byDir {
		dirs = append(dirs, d)
	}
	sort.Strings(dirs)
	all := interp.DefaultRegistry.MustAll().Formats
	var names []string
	for _, f := range all {
		names = append(names, f.Name)
	}
	sort.Strings(names)
	probe := interp.DefaultRegistry.MustGroup("probe")

	perDir, nTrunc, nOver, nOther := 4, 3, 2, 2
	if thorough {
		perDir, nTrunc, nOver, nOther = 40, 5, 4, 3
	}
	var jobs []job
	for _, d := range dirs {
		fs := append([]string(nil), byDir[d]...)
		for i := len(fs) - 1; i > 0; i-- { // seeded choice of files
			k := r.Intn(i + 1)
			fs[i], fs[k] = fs[k], fs[i]
		}
		if len(fs) > perDir && d != corpusDir {
			fs = fs[:perDir]
		}
		sort.Strings(fs)
		for _, p := range fs {
			b, err := os.ReadFile(inputPath(p))
			if err != nil {
				continue
			}
			// formats: what probing says, formats named after the directory, a few unrelated ones
			fmts := []string{}
			add := func(n string) {
				for _, x := range fmts {
					if x == n {
						return
					}
				}
				fmts = append(fmts, n)
			}
			hlib.Catch(func() string {
				ctx, cancel := context.WithTimeout(context.Background(), 5*time.Second)
				defer cancel()
				dv, _, _ := decode.Decode(ctx, bitio.NewBitReader(b, -1), probe, decode.Options{IsRoot: true, FillGaps: true})
				if dv != nil && dv.Format != nil {
					add(dv.Format.Name)
				}
				return ""
			})
			if f, ok := extFormat[filepath.Ext(p)]; ok && d == corpusDir {
				add(f)
			}
			var own []string
			for _, n := range names {
				if n == d || strings.HasPrefix(n, d+"_") {
					own = append(own, n)
				}
			}
			for k := 0; k < 2 && len(own) > 0; k++ {
				add(own[r.Intn(len(own))])
			}
			nOwn := len(fmts)
			for k := 0; k < nOther; k++ {
				add(names[r.Intn(len(names))])
			}
			for fi, f := range fmts {
				if f == "verif_c04" {
					continue
				}
				jobs = append(jobs, job{path: p, format: f, variant: "id", force: false})
				nt, no := nTrunc, nOver
				if fi >= nOwn { // unrelated format: mostly fails at once, fewer variants
					nt, no = 1, 1
				}
				for k := 0; k < nt; k++ {
					n := r.Intn(len(b))
					switch k {
					case 0:
						n = len(b) - 1 - r.Intn(min(len(b), 8))
					case 1:
						n = len(b) / 2
					}
					if n < 0 {
						n = 0
					}
					jobs = append(jobs, job{path: p, format: f, variant: "t" + strconv.Itoa(n), force: r.Intn(4) == 0})
				}
				for k := 0; k < no; k++ {
					var ps []string
					for m := r.Range(1, 3); m > 0; m-- {
						off := r.Intn(len(b))
						if r.Intn(2) == 0 {
							off = r.Intn(min(len(b), 64))
						}
						ps = append(ps, fmt.Sprintf("%d:%02x", off, byte(r.U64())))
					}
					jobs = append(jobs, job{path: p, format: f, variant: "o" + strings.Join(ps, ","), force: r.Intn(4) == 0})
				}
				if fi < nOwn && r.Intn(3) == 0 && len(b) > 4 {
					// decode of a sub-range of the input (Options.Range with Start != 0)
					s := int64(r.Range(1, 3)) * 8
					if r.Intn(3) == 0 {
						s = int64(r.Range(1, 7))
					}
					jobs = append(jobs, job{path: p, format: f, variant: "s" + strconv.FormatInt(s, 10), force: false})
					jobs = append(jobs, job{path: p, format: f, variant: "p" + strconv.Itoa(r.Range(1, 9)), force: false})
				}
			}
		}
	}
	return jobs
}

func fmtSynth(items []synthItem) string {
	var ps []string
	for _, it := range items {
		var s string
		switch it.Kind {
		case 'r':
			s = fmt.Sprintf("%d:%d", it.Start, it.Len)
		case 'L':
			s = fmt.Sprintf("%d:%d{%s}", it.Start, it.Len, fmtSynth(it.Sub))
		case '+', '>':
			s = fmt.Sprintf("%c%d", it.Kind, it.Len)
		case '^':
			s = fmt.Sprintf("^%d", it.Start)
		case 'z':
			s = "z"
		case 'B', 'I', 'N', 'M':
			s = fmt.Sprintf("%c%d{%s}", it.Kind, it.Len, fmtSynth(it.Sub))
		case '!':
			s = "!"
		case 'd':
			s = fmt.Sprintf("d%d", it.Len)
		case 'R':
			s = fmt.Sprintf("R%d", it.Len)
		default:
			s = fmt.Sprintf("%c{%s}", it.Kind, fmtSynth(it.Sub))
		}
		ps = append(ps, s)
	}
	return strings.Join(ps, ",")
}

// randItems: fields at arbitrary (overlapping, unordered) absolute ranges, nested FieldFormatLen
func randItems(r *hlib.Rand, total int64, depth int) []synthItem {
	n := r.Range(0, 6)
	var items []synthItem
	for i := 0; i < n; i++ {
		s := int64(r.Intn(int(total) + 1))
		l := int64(r.Intn(int(total-s) + 1))
		switch r.Intn(4) {
		case 0:
			l = 0
		case 1:
			l = min(l, int64(r.Range(0, 9)))
		}
		if len(items) > 0 && r.Intn(3) == 0 { // adjacency / one-bit distance to an earlier item
			p := items[r.Intn(len(items))]
			s2 := p.Start + p.Len + int64(r.Range(-1, 2))
			if s2 >= 0 && s2 <= total {
				s = s2
				l = min(l, total-s)
			}
		}
		it := synthItem{Kind: 'r', Start: s, Len: l}
		if depth < 2 && l > 0 && r.Intn(4) == 0 {
			it.Kind, it.Sub = 'L', randItems(r, l, depth+1)
		}
		items = append(items, it)
	}
	return items
}

// randScript: a decoder that works front to back the way real ones do — fields one after the
// other, seeks over bits nothing references, zero-length values (also right after a seek), and
// sub-formats WITHOUT own gap filling (FieldFormat/TryFieldFormat) directly after a field, whose
// decoders skip bits themselves, at several nesting depths, mixed with plain structs/arrays and
// length-delimited sub-decodes. Returns the items, the position after them and the largest stop.
func randScript(r *hlib.Rand, depth int, pos0 int64) (items []synthItem, pos, maxStop int64) {
	pos, maxStop = pos0, pos0
	field := func(l int64) {
		items = append(items, synthItem{Kind: '+', Len: l})
		pos += l
		maxStop = max(maxStop, pos)
	}
	skipLens := []int64{1, 1, 2, 7, 8, 8, 9, 16, 32}
	n := r.Range(1, 6)
	for i := 0; i < n; i++ {
		if depth < 3 && r.Intn(7) == 0 {
			// nested buffer (at top level and inside F/T sub-formats alike) whose format leaves
			// holes and, mostly, an unread tail
			sub, _, subMax := randScript(r, depth+1, 0)
			nb := subMax
			if r.Intn(4) != 0 {
				nb += int64(r.Range(1, 24))
			}
			switch r.Intn(7) {
			case 0:
				items = append(items, synthItem{Kind: 'R', Len: nb})
			case 5:
				items = append(items, synthItem{Kind: 'N', Len: nb, Sub: sub})
			case 6:
				items = append(items, synthItem{Kind: 'M', Len: nb, Sub: sub})
			case 1, 2:
				items = append(items, synthItem{Kind: 'I', Len: nb, Sub: sub})
				pos += nb
				maxStop = max(maxStop, pos)
			default:
				items = append(items, synthItem{Kind: 'B', Len: nb, Sub: sub})
			}
			continue
		}
		switch k := r.Intn(12); {
		case k < 4:
			field(int64(r.Range(1, 24)))
		case k == 4:
			field(0)
		case k == 5:
			items = append(items, synthItem{Kind: 'z'})
		case k == 6 || k == 7:
			s := skipLens[r.Intn(len(skipLens))]
			items = append(items, synthItem{Kind: '>', Len: s})
			pos += s
			if r.Intn(2) == 0 { // seek -> zero-length value -> real field
				items = append(items, synthItem{Kind: 'z'})
			}
			if r.Intn(4) != 0 {
				field(int64(r.Range(1, 16)))
			}
		case k < 10 && depth < 3:
			// sub-format without own gap filling, adjacent to whatever came before
			if r.Intn(3) != 0 && (len(items) == 0 || items[len(items)-1].Kind != '+') {
				field(int64(r.Range(1, 16)))
			}
			sub, _, subMax := randScript(r, depth+1, 0)
			kind := byte('F')
			if r.Intn(3) == 0 {
				kind = 'T'
			}
			items = append(items, synthItem{Kind: kind, Sub: sub})
			pos += subMax
			maxStop = max(maxStop, pos)
		case k == 10 && depth < 3:
			sub, p2, m2 := randScript(r, depth+1, pos)
			kind := byte('S')
			if r.Intn(2) == 0 {
				kind = 'A'
			}
			items = append(items, synthItem{Kind: kind, Sub: sub})
			pos, maxStop = p2, max(maxStop, m2)
		case depth < 3:
			l := int64(r.Range(1, 40))
			sub, _, _ := randScript(r, depth+1, 0)
			items = append(items, synthItem{Kind: 'L', Start: pos, Len: l, Sub: sub})
			pos += l
			maxStop = max(maxStop, pos)
		default:
			field(int64(r.Range(1, 8)))
		}
	}
	return items, pos, maxStop
}

// countSlots / insertAt: every position of a tree program (before each step and at the end of
// each step list, at every nesting level) is a slot where a failing step can be put
func countSlots(items []synthItem) int {
	n := len(items) + 1
	for _, it := range items {
		if it.Sub != nil || strings.IndexByte("LFTBINMSA", it.Kind) >= 0 {
			n += countSlots(it.Sub)
		}
	}
	return n
}

func insertAt(items []synthItem, slot int, ins []synthItem) ([]synthItem, int) {
	var out []synthItem
	for i := 0; i <= len(items); i++ {
		if slot == 0 {
			out = append(out, ins...)
		}
		slot--
		if i == len(items) {
			break
		}
		it := items[i]
		if it.Sub != nil || strings.IndexByte("LFTBINMSA", it.Kind) >= 0 {
			it.Sub, slot = insertAt(it.Sub, slot, ins)
		}
		out = append(out, it)
	}
	return out, slot
}

// injectFailure puts a decode error (Fatalf, read past the end, duplicate struct field name)
// at a random slot of the program — also inside nested buffers and nested-root callbacks
func injectFailure(r *hlib.Rand, items []synthItem) []synthItem {
	var ins []synthItem
	switch r.Intn(4) {
	case 0:
		ins = []synthItem{{Kind: '+', Len: 1 << 20}}
	case 1:
		ins = []synthItem{{Kind: 'd', Len: 4}, {Kind: 'd', Len: 4}}
	default:
		ins = []synthItem{{Kind: '!'}}
	}
	out, _ := insertAt(items, r.Intn(countSlots(items)), ins)
	return out
}

func synthJobs(r *hlib.Rand, n int) []job {
	var jobs []job
	for _, c := range []string{
		"0;", "10;", "10;0:10", "10;1:1,8:1", "10;1:1,2:5,8:1", "10;0:3,4:0", "12;0:0,4:4,8:0", "16;0:8{0:3,5:2},9:7",
		"24;0:8,8:16{0:4,5:0,12:4}", "13;1:1,3:10{0:0,1:1}", "32;0:32{0:31}", "32;0:31{0:31}",
		// sub-format without own gap filling, directly after a field, with a hole inside
		"40;+8,F{+8,>8,+8},+8", "80;+8,F{+8,>8,+8},F{+8,>8,+8},+8", "56;+8,S{+8,F{+4,F{+4,>8,+4},+4}},+4",
		"48;+8,T{+8,>16,z,+8},+8", "40;+8,A{F{+8,>8,+8}},+8",
		// nested buffers whose format leaves a tail / holes: at top level, and inside sub-formats
		// that are themselves decoded without gap filling (F/T) — the nested buffer is its own root
		"16;+8,B24{+8},+8", "24;+8,F{+8,B24{+8,>8}},+8", "32;+8,T{+4,I12{+4,>4,+2},+4},+4", "32;+8,S{F{F{+8,B40{+8,>8,+8}}}},+8",
		"16;+8,F{R16,+8}", "24;F{B16{F{B16{+8}}}},+24",
		// a decode error INSIDE a nested buffer after >= 1 field: nested-root callbacks keep their
		// partial sub-tree as a buffer of its own; decode()-based nested buffers are dropped
		"40;+8,N32{+8,+8,!},+8", "40;+8,M32{+8,>8,+8,!},+8", "40;+8,N16{+8,+99},+8", "40;+8,N32{d8,d8},+8",
		"48;+8,F{+8,N64{+8,8:16{+4},!}},+8", "40;+8,N64{+40,+8,!},+8", "40;+8,B32{+8,!},+8", "40;+8,T{+8,I16{+8,!}},+8",
		"40;+8,S{+8,A{+8,!}},+8", "40;+8,S{d8,+4,d8},+8", "24;+8,M16{N16{+8,!}},+8",
		// hole, then a zero-length value where the next field starts, last field ends the buffer
		"40;+16,>8,z,+16", "64;+16,S{^24,z,z,+8},+32", "48;+8,F{+8,>8,z,+8},z,+16",
	} {
		jobs = append(jobs, job{path: "synth", format: "verif_c04", variant: c})
	}
	for i := 0; i < n; i++ {
		if i%2 == 0 {
			total := int64(r.Range(0, 96))
			if r.Intn(5) == 0 {
				total = int64(r.Range(0, 40000))
			}
			jobs = append(jobs, job{path: "synth", format: "verif_c04",
				variant: fmt.Sprintf("%d;%s", total, fmtSynth(randItems(r, total, 0)))})
			continue
		}
		items, _, maxStop := randScript(r, 0, 0)
		total := maxStop // the last field ends the buffer
		switch r.Intn(6) {
		case 0:
			total += int64(r.Range(1, 24)) // undecoded tail
		case 1:
			total = int64(r.Intn(int(maxStop) + 1)) // too short: failed decode, partial tree
		}
		format := "verif_c04"
		if r.Intn(2) == 0 {
			items = injectFailure(r, items)
			if r.Intn(8) == 0 {
				format = "verif_c04_probe" // group of two formats: the failed decode is discarded
			}
		}
		jobs = append(jobs, job{path: "synth", format: format,
			variant: fmt.Sprintf("%d;%s", total, fmtSynth(items))})
	}
	return jobs
}

// ---------------------------------------------------------------- main

func main() {
	worker := flag.String("worker", "", "internal: job file")
	wout := flag.String("wout", "", "internal: worker output")
	wfrom := flag.Int("wfrom", 0, "internal: first job index")
	cfg := hlib.ParseFlags()
	if *worker != "" {
		workerMain(*worker, *wout, *wfrom)
		return
	}
	o := hlib.NewOut(cfg.Out)
	defer o.Close()
	workDir := os.Getenv("VERIF_WORK")
	if workDir == "" {
		workDir, _ = os.MkdirTemp("", "c04tree")
	}

	if cfg.Replay != "" {
		// a replayed line names its job in the @ annotation: re-run the decode and emit all its cases
		seen := map[string]bool{}
		var jobs []job
		for _, l := range hlib.ReplayLines(cfg.Replay) {
			for _, w := range strings.Fields(l) {
				if !strings.HasPrefix(w, "@") {
					continue
				}
				spec := w[1:]
				if i := strings.LastIndexByte(spec, '#'); i >= 0 {
					spec = spec[:i]
				}
				if j, err := parseJob(spec); err == nil && !seen[spec] {
					seen[spec] = true
					jobs = append(jobs, j)
				}
			}
		}
		runJobs(o, jobs, workDir)
		return
	}

	r := hlib.NewRand(cfg.Seed)
	nSynth := 600
	if cfg.Thorough() {
		nSynth = 6000
	}
	jobs := synthJobs(r.Fork(), nSynth)
	jobs = append(jobs, genJobs(r.Fork(), cfg.Thorough())...)
	o.Stat("jobs", len(jobs))
	runJobs(o, jobs, workDir)
}
