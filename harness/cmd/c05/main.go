//go:build verif

// C05 harness: decodes real inputs (and a harness-registered synthetic format that places
// fields at every bit alignment) IN-PROCESS through the real interpreter (interp.Main with a
// virtual OS, exactly what `fq -d FORMAT 'PROGRAM' FILE > out` runs), and for every selected
// value evaluates tobits, tobytes, tobits($p), tobytes($p), tovalue({bits_format: F}) for the
// 7 formats, tobytesrange/tobitsrange | tovalue(...), and the raw stdout of `… | tobytes`.
//
// One case line per value (all operations on it = one history):
//
//	v src=<S> path=<P> L=<buffer bits> r=<start>:<len> fl=<flags> w=<byte off>:<hex window of the buffer> ops=<op,…> TAB <obs;…>
//
// The buffer window is read by the harness itself: from the input FILE for values of the top
// buffer, from dv.RootReader (bitio only) for nested buffers. Range, IsRoot and flags are read
// from the decode.Value (Go API), i.e. not through the code under test (ToBinary / InnerRange).
package main

import (
	"bytes"
	"context"
	"encoding/json"
	"hash/fnv"
	"fmt"
	"io"
	"io/fs"
	"os"
	"path/filepath"
	"sort"
	"strconv"
	"strings"
	"time"

	_ "github.com/wader/fq/format/all"
	"github.com/wader/fq/internal/bitiox"
	"github.com/wader/fq/internal/gojqx"
	"github.com/wader/fq/internal/verifharness/hlib"
	"github.com/wader/fq/pkg/bitio"
	"github.com/wader/fq/pkg/decode"
	"github.com/wader/fq/pkg/interp"
	"github.com/wader/fq/pkg/scalar"
)

// ---------------------------------------------------------------- virtual OS

type vfile struct {
	*bytes.Reader
	name string
	size int64
}

func (f *vfile) Stat() (fs.FileInfo, error) {
	return interp.FixedFileInfo{FName: f.name, FSize: f.size, FMode: 0o644}, nil
}
func (f *vfile) Close() error { return nil }

type vfs map[string][]byte

func (v vfs) Open(name string) (fs.File, error) {
	b, ok := v[name]
	if !ok {
		return nil, &fs.PathError{Op: "open", Path: name, Err: fs.ErrNotExist}
	}
	return &vfile{Reader: bytes.NewReader(b), name: name, size: int64(len(b))}, nil
}

type vout struct{ buf *bytes.Buffer }

func (o vout) Write(p []byte) (int, error) { return o.buf.Write(p) }
func (vout) Size() (int, int)              { return 120, 25 }
func (vout) IsTerminal() bool              { return false }

type vin struct{ interp.FileReader }

func (vin) Size() (int, int) { return 120, 25 }
func (vin) IsTerminal() bool { return false }

type vos struct {
	args   []string
	fsys   fs.FS
	stdout *bytes.Buffer
	stderr *bytes.Buffer
}

func (o *vos) Platform() interp.Platform { return interp.Platform{OS: "verif", Arch: "verif"} }
func (o *vos) Stdin() interp.Input {
	return vin{interp.FileReader{R: bytes.NewReader(nil)}}
}
func (o *vos) Stdout() interp.Output                          { return vout{o.stdout} }
func (o *vos) Stderr() interp.Output                          { return vout{o.stderr} }
func (o *vos) InterruptChan() chan struct{}                   { return nil }
func (o *vos) Args() []string                                 { return o.args }
func (o *vos) Environ() []string                              { return nil }
func (o *vos) ConfigDir() (string, error)                     { return "/config", nil }
func (o *vos) FS() fs.FS                                      { return o.fsys }
func (o *vos) Readline(interp.ReadlineOpts) (string, error)   { return "", io.EOF }
func (o *vos) History() ([]string, error)                     { return nil, nil }

// ---------------------------------------------------------------- the jq program

const program = `
def _c05r(f): try f catch {"__c05_err": (if type == "string" then . else tojson end)};
.. | select(_exttype == "decode_value")?
| . as $v
| _verif_c05("begin") as $plan
| select($plan != null)
| ( ( $plan.ops[] as $op
    | ( if $op.op == "tobits" then _c05r($v | tobits)
        elif $op.op == "tobytes" then _c05r($v | tobytes)
        elif $op.op == "tobitsp" then _c05r($v | tobits($op.p))
        elif $op.op == "tobytesp" then _c05r($v | tobytes($op.p))
        elif $op.op == "fmt" then _c05r($v | tovalue({bits_format: $op.f, sizebase: $op.sb}))
        elif $op.op == "ufmt" then _c05r($v | [(try length catch null), (try tostring catch null), (try test("a") catch null), (try ascii_downcase catch null)] as $_ | $v | tovalue({bits_format: $op.f, sizebase: $op.sb}))
        elif $op.op == "rfmt8" then _c05r($v | tobytesrange | tovalue({bits_format: $op.f, sizebase: $op.sb}))
        elif $op.op == "rfmt1" then _c05r($v | tobitsrange | tovalue({bits_format: $op.f, sizebase: $op.sb}))
        elif $op.op == "agg" then _c05r($v | tovalue({bits_format: $op.f, sizebase: $op.sb}))
        elif $op.op == "aggd" then _c05r($v | tovalue)
        elif $op.op == "twice" then _c05r([$v, $v] | tovalue({bits_format: $op.f, sizebase: $op.sb}))
        else error("c05: bad op " + ($op | tojson)) end
      | _verif_c05($op.id) )
    | empty )
  , ( select($plan.stdout)
    | (_verif_c05("mark0") | empty), (try ($v | tobytes) catch (_verif_c05("stdouterr") | empty)), (_verif_c05("mark1") | empty) )
  , ( select($plan.stdoutr)
    | (_verif_c05("mark0") | empty), (try ($v | tobytesrange) catch (_verif_c05("stdouterr") | empty)), (_verif_c05("mark1r") | empty) )
  , ( select($plan.aggv)
    | (_verif_c05("mark0") | empty), (try ($v | tovalue) catch (_verif_c05("stdouterr") | empty)), (_verif_c05("markv") | empty) )
  )
`

// ---------------------------------------------------------------- session / tap

type opDesc struct {
	// op text of the line: tobits | tobytes | tobits:P | tobytes:P | fmt:F:SB | rfmt8:F:SB | rfmt1:F:SB | stdout | stdoutr
	// aggregates (one `a` case line each): agg:F:SB = tovalue({bits_format:F}) of a COMPOUND, aggd:F = tovalue with
	// the options of the command line (`-o bits_format=F`), aggv:F = the JSON printed for `… | tovalue` under
	// `-o bits_format=F`, twice:F:SB = [$v,$v] | tovalue({bits_format:F})
	text string
}

func (d opDesc) isAgg() bool {
	return strings.HasPrefix(d.text, "agg") || strings.HasPrefix(d.text, "twice")
}

func (d opDesc) jq(id int) map[string]any {
	ps := strings.Split(d.text, ":")
	m := map[string]any{"id": strconv.Itoa(id), "t": d.text}
	switch ps[0] {
	case "tobits", "tobytes":
		if len(ps) == 2 {
			p, _ := strconv.Atoi(ps[1])
			m["op"] = ps[0] + "p"
			m["p"] = p
		} else {
			m["op"] = ps[0]
		}
	case "aggd":
		m["op"] = "aggd"
	case "fmt", "ufmt", "rfmt8", "rfmt1", "agg", "twice":
		sb, _ := strconv.Atoi(ps[2])
		m["op"] = ps[0]
		m["f"] = ps[1]
		m["sb"] = sb
	}
	return m
}

type rec struct {
	dv                      *decode.Value
	path                    string
	L, start, length        int64
	isRoot, synth, raw, top bool
	nested                  bool
	ownCoord                bool // root made by Field{Struct,Array}RootBitBufFn: its Range is in its OWN buffer's coordinates
	ops                     []opDesc
	obs                     []string
	wantStdout              bool
	wantStdoutR             bool // also the raw stdout of `tobytesrange` (keep_range: the pad is applied by Display)
	rawLeaves               int  // compound: number of raw-bits leaves below it (counted up to a cap)
	wantAgg                 bool // set by the selector: evaluate the aggregate renderings on this compound
	aggs                    map[int]*aggRes
	aggvID                  int
}

// aggRes is one aggregate rendering compared leaf by leaf
type aggRes struct {
	total  int
	leaves []*rec
	obs    []string
}

type missingT struct{}

const maxAggLeaves = 2500

func isRawDV(dv *decode.Value) bool {
	sc, ok := dv.V.(scalar.Scalarable)
	if !ok || sc.ScalarFlags().IsSynthetic() {
		return false
	}
	_, isBR := sc.ScalarValue().(bitio.ReaderAtSeeker)
	return isBR
}

// countRawLeaves counts raw leaves below dv, giving up after `nodes` visited values
func countRawLeaves(dv *decode.Value, nodes *int) int {
	*nodes--
	if *nodes < 0 {
		return maxAggLeaves + 1
	}
	switch vv := dv.V.(type) {
	case *decode.Compound:
		n := 0
		for _, c := range vv.Children {
			n += countRawLeaves(c, nodes)
			if n > maxAggLeaves {
				return n
			}
		}
		return n
	default:
		if isRawDV(dv) {
			return 1
		}
	}
	return 0
}

// walkAgg walks the decode tree and the converted value in parallel and records, for every raw
// leaf, what the conversion produced at its place
func (s *session) walkAgg(dv *decode.Value, res any, a *aggRes, bytesLeft *int64) {
	switch vv := dv.V.(type) {
	case *decode.Compound:
		if vv.IsArray {
			arr, ok := res.([]any)
			for i, c := range vv.Children {
				var r any = missingT{}
				if ok && i < len(arr) {
					r = arr[i]
				}
				s.walkAgg(c, r, a, bytesLeft)
			}
			return
		}
		m, ok := res.(map[string]any)
		for _, c := range vv.Children {
			var r any = missingT{}
			if ok {
				if x, has := m[c.Name]; has {
					r = x
				}
			}
			s.walkAgg(c, r, a, bytesLeft)
		}
	default:
		if !isRawDV(dv) {
			return
		}
		a.total++
		lr := s.recFromDV(dv)
		if len(a.leaves) >= maxAggLeaves || *bytesLeft < lr.windowBytes() || lr.length > 8*64*1024 {
			return
		}
		*bytesLeft -= lr.windowBytes()
		lr.raw = true
		a.leaves = append(a.leaves, lr)
		a.obs = append(a.obs, canon(res))
	}
}

func (s *session) aggregate(r *rec, id int, res any) {
	if r.aggs == nil {
		r.aggs = map[int]*aggRes{}
	}
	a := &aggRes{}
	r.aggs[id] = a
	if m, ok := res.(map[string]any); ok {
		if e, isErr := m["__c05_err"]; isErr && len(m) == 1 {
			es, _ := e.(string)
			if strings.HasPrefix(es, "err:") {
				a.obs = []string{es}
			} else {
				a.obs = []string{errKind(es)}
			}
			return
		}
	}
	left := int64(512 * 1024)
	if strings.HasPrefix(r.ops[id].text, "twice") {
		arr, _ := res.([]any)
		for i := 0; i < 2; i++ {
			var x any = missingT{}
			if i < len(arr) {
				x = arr[i]
			}
			s.walkAgg(r.dv, x, a, &left)
		}
		return
	}
	s.walkAgg(r.dv, res, a, &left)
}

type session struct {
	o         *hlib.Out
	src       string
	fileBytes []byte
	stdout    *bytes.Buffer
	top       *decode.Value
	cur       *rec
	mark0     int
	stdoutErr string
	timedOut  bool
	// planFn decides per value: operations, whether the raw stdout of `tobytes` is captured, and
	// whether the value is used at all
	planFn func(rc *rec) (ops []opDesc, stdout bool, ok bool)
	seen   int
	// onDisk: serve the input from a real temp file instead of the in-memory FS
	onDisk bool
	// emitOnly: evaluate everything (the history matters) but write only this path's case lines
	emitOnly map[string]bool
}

var sess *session

func init() {
	interp.DefaultRegistry.Func(func(env *interp.Interp) gojqx.Function {
		return gojqx.Function{Name: "_verif_c05", MinArity: 1, MaxArity: 1, FuncFn: func(c any, a []any) any {
			if sess == nil {
				return nil
			}
			return sess.tap(c, a[0])
		}}
	})
}

func valuePath(v *decode.Value) string {
	var parts []string
	for v != nil && v.Parent != nil {
		if pc, ok := v.Parent.V.(*decode.Compound); ok && pc.IsArray {
			parts = append(parts, fmt.Sprintf("[%d]", v.Index))
		} else {
			parts = append(parts, "."+strings.NewReplacer(" ", "\\s", "\t", "\\t", "=", "\\e").Replace(v.Name))
		}
		v = v.Parent
	}
	if len(parts) == 0 {
		return "."
	}
	for i, j := 0, len(parts)-1; i < j; i, j = i+1, j-1 {
		parts[i], parts[j] = parts[j], parts[i]
	}
	return strings.Join(parts, "")
}

func (s *session) newRec(c any) *rec {
	dvv, ok := c.(interp.DecodeValue)
	if !ok {
		return nil
	}
	dv := dvv.DecodeValue()
	if s.top == nil {
		s.top = dv
	}
	r := s.recFromDV(dv)
	r.raw = interp.VerifC05IsRaw(c)
	if r.raw != isRawDV(dv) && !r.synth {
		s.o.Stat("raw_flag_mismatch", 1)
	}
	if _, isCompound := dv.V.(*decode.Compound); isCompound {
		nodes := 20000
		r.rawLeaves = countRawLeaves(dv, &nodes)
	}
	return r
}

func (s *session) recFromDV(dv *decode.Value) *rec {
	r := &rec{dv: dv, path: valuePath(dv), start: dv.Range.Start, length: dv.Range.Len, isRoot: dv.IsRoot}
	if sc, ok := dv.V.(scalar.Scalarable); ok && sc.ScalarFlags().IsSynthetic() {
		r.synth = true
	}
	if _, isCompound := dv.V.(*decode.Compound); isCompound && dv.IsRoot && dv.Format == nil {
		r.ownCoord = true
	}
	r.top = dv == s.top
	r.nested = dv.BufferRoot() != s.top
	l, err := bitiox.Len(dv.RootReader)
	if err != nil {
		l = -1
	}
	r.L = l
	return r
}

func (s *session) tap(c any, tag any) any {
	switch t := tag.(type) {
	case string:
		switch t {
		case "begin":
			s.finish()
			r := s.newRec(c)
			if r == nil {
				return nil
			}
			s.seen++
			ops, wantStdout, ok := s.planFn(r)
			if !ok {
				return nil
			}
			r.ops = ops
			r.wantStdout = wantStdout
			r.wantStdoutR = r.length <= 32768 && (r.start+r.length)%2 == 0
			s.cur = r
			var jops []any
			for i, o := range ops {
				jops = append(jops, o.jq(i))
			}
			r.obs = make([]string, len(ops))
			for i := range r.obs {
				r.obs[i] = "missing"
			}
			aggv := false
			var jops2 []any
			for i, o := range ops {
				if strings.HasPrefix(o.text, "aggv") {
					aggv = true
					r.aggvID = i
					continue
				}
				jops2 = append(jops2, jops[i])
			}
			return map[string]any{"ops": jops2, "stdout": r.wantStdout, "stdoutr": r.wantStdout && r.wantStdoutR, "aggv": aggv}
		case "mark0":
			s.mark0 = s.stdout.Len()
			return nil
		case "stdouterr":
			s.stdoutErr = errKind(fmt.Sprint(c))
			return nil
		case "markv":
			if s.cur != nil {
				b := append([]byte(nil), s.stdout.Bytes()[s.mark0:]...)
				s.stdout.Reset()
				var res any = missingT{}
				if s.stdoutErr != "" {
					res = map[string]any{"__c05_err": s.stdoutErr}
				} else {
					var j any
					if err := json.Unmarshal(b, &j); err == nil {
						res = j
					}
				}
				s.stdoutErr = ""
				s.aggregate(s.cur, s.cur.aggvID, res)
				s.cur.obs[s.cur.aggvID] = "agg"
			}
			return nil
		case "mark1", "mark1r":
			if s.cur != nil {
				b := s.stdout.Bytes()[s.mark0:]
				if t == "mark1r" {
					s.cur.ops = append(s.cur.ops, opDesc{"stdoutr"})
				} else {
					s.cur.ops = append(s.cur.ops, opDesc{"stdout"})
				}
				if s.stdoutErr != "" {
					s.cur.obs = append(s.cur.obs, s.stdoutErr)
				} else {
					s.cur.obs = append(s.cur.obs, "o:"+hlib.Hex(b))
				}
				s.stdoutErr = ""
				s.stdout.Reset()
			}
			return nil
		default:
			if s.cur == nil {
				return nil
			}
			id, err := strconv.Atoi(t)
			if err != nil || id < 0 || id >= len(s.cur.obs) {
				return nil
			}
			if s.cur.ops[id].isAgg() {
				s.aggregate(s.cur, id, c)
				s.cur.obs[id] = "agg"
				return nil
			}
			s.cur.obs[id] = canon(c)
			return nil
		}
	}
	return nil
}

func errKind(msg string) string {
	switch {
	case strings.Contains(msg, "synthetic value"):
		return "err:synthetic"
	case strings.Contains(msg, "outside buffer"):
		return "err:outside"
	case strings.Contains(msg, "negative nBits"):
		return "err:negative"
	case strings.Contains(msg, "invalid bits format"):
		return "err:bits_format"
	}
	return "err:other"
}

// readBits reads bits [off, off+n) of br (bitio only); bytes, right zero padded.
func readBits(br bitio.ReaderAt, off, n int64) ([]byte, error) {
	out := make([]byte, bitio.BitsByteCount(n))
	const chunk = 1 << 16
	for done := int64(0); done < n; {
		nb := n - done
		if nb > chunk*8 {
			nb = chunk * 8
		}
		p := out[done/8 : done/8+bitio.BitsByteCount(nb)]
		if _, err := bitio.ReadAtFull(br, p, nb, off+done); err != nil {
			return nil, err
		}
		done += nb
	}
	if n%8 != 0 {
		out[len(out)-1] &= byte(0xff) << (8 - uint(n%8))
	}
	return out, nil
}

func canon(c any) string {
	switch v := c.(type) {
	case map[string]any:
		if e, ok := v["__c05_err"]; ok {
			es, _ := e.(string)
			return errKind(es)
		}
		return "other:object"
	case string:
		return "s:" + hlib.Hex([]byte(v))
	case []any:
		b := make([]byte, 0, len(v))
		for _, e := range v {
			n, ok := e.(int)
			if f, isF := e.(float64); isF && f == float64(int(f)) { // JSON path
				n, ok = int(f), true
			}
			if !ok || n < 0 || n > 255 {
				return "a:bad"
			}
			b = append(b, byte(n))
		}
		return "a:" + hlib.Hex(b)
	case nil:
		return "null"
	case missingT:
		return "missing"
	case error:
		return errKind(v.Error())
	}
	if br, start, length, unit, pad, ok := interp.VerifC05Binary(c); ok {
		if length < 0 || length > 1<<26 {
			return fmt.Sprintf("b:%d:%d:toolarge", unit, length)
		}
		bs, err := readBits(br, start, length)
		if err != nil {
			return "b:readerr"
		}
		_ = pad
		return fmt.Sprintf("b:%d:%d:%s", unit, length, hlib.Hex(bs))
	}
	return fmt.Sprintf("other:%T", c)
}

// the part of the buffer the window must show: the value's range; for a root value from bit 0
// (Range.Start of a root made by FieldRootBitBuf / FieldFormatBitBuf is a position in the PARENT
// buffer; for an own-coordinate root both readings are covered)
func (r *rec) expRange() (int64, int64) {
	if r.isRoot && r.ownCoord {
		return 0, r.start + r.length
	}
	if r.isRoot {
		return 0, r.length
	}
	return r.start, r.length
}

func (r *rec) windowBytes() int64 {
	_, l := r.expRange()
	return l/8 + 10
}

func (s *session) window(r *rec) (int64, []byte) {
	es, el := r.expRange()
	if es < 0 || el < 0 || r.L < 0 || es+el > r.L {
		return 0, nil
	}
	totalBytes := bitio.BitsByteCount(r.L)
	woff := es/8 - 4
	if woff < 0 {
		woff = 0
	}
	wend := bitio.BitsByteCount(es+el) + 4
	if wend > totalBytes {
		wend = totalBytes
	}
	if wend < woff {
		wend = woff
	}
	if !r.nested && s.fileBytes != nil {
		// top buffer: the INPUT FILE itself, not what fq read from it
		if wend > int64(len(s.fileBytes)) {
			return woff, nil
		}
		return woff, s.fileBytes[woff:wend]
	}
	n := (wend - woff) * 8
	if woff*8+n > r.L {
		n = r.L - woff*8
	}
	b, err := readBits(r.dv.RootReader, woff*8, n)
	if err != nil {
		return woff, nil
	}
	return woff, b
}

func (s *session) flags(r *rec) string {
	fl := ""
	if r.isRoot {
		fl += "R"
	}
	if r.top {
		fl += "T"
	}
	if r.synth {
		fl += "S"
	}
	if r.raw {
		fl += "W"
	}
	if r.nested {
		fl += "N"
	}
	if r.ownCoord {
		fl += "F"
	}
	if fl == "" {
		fl = "-"
	}
	return fl
}

func (s *session) finish() {
	r := s.cur
	s.cur = nil
	if r == nil {
		return
	}
	if s.emitOnly != nil && !s.emitOnly[r.path] {
		return
	}
	fl := s.flags(r)
	if r.ownCoord {
		s.o.Stat("values_owncoord_root", 1)
		if r.start != 0 {
			s.o.Stat("owncoord_root_start_ne_0", 1)
		}
	}
	// aggregate renderings: one `a` line each, every raw leaf with its own buffer window
	for id, o := range r.ops {
		if !o.isAgg() {
			continue
		}
		a := r.aggs[id]
		if a == nil {
			a = &aggRes{obs: []string{"missing"}}
		}
		var sb strings.Builder
		fmt.Fprintf(&sb, "a src=%s path=%s op=%s n=%d", s.src, r.path, o.text, a.total)
		for _, l := range a.leaves {
			woff, w := s.window(l)
			fmt.Fprintf(&sb, " lf=%s,%d,%d:%d,%s,%d:%s", strings.TrimPrefix(l.path, r.path), l.L, l.start, l.length, s.flags(l), woff, hlib.Hex(w))
		}
		obs := strings.Join(a.obs, ";")
		if len(a.obs) == 0 {
			obs = "none"
		}
		s.o.Case(sb.String(), obs)
		s.o.Stat("agg_cases", 1)
		s.o.Stat("agg_leaves", len(a.leaves))
		s.o.Stat("op_"+strings.SplitN(o.text, ":", 2)[0], 1)
		if len(a.leaves) >= 2 {
			s.o.Class(fmt.Sprintf("agg %s %d", o.text, min(len(a.leaves), 9)))
		}
	}
	var ops []opDesc
	var obss []string
	for i, o := range r.ops {
		if !o.isAgg() {
			ops = append(ops, o)
			obss = append(obss, r.obs[i])
		}
	}
	r.ops, r.obs = ops, obss
	if len(r.ops) == 0 {
		return
	}
	woff, w := s.window(r)
	opTexts := make([]string, len(r.ops))
	for i, o := range r.ops {
		opTexts[i] = o.text
	}
	op := fmt.Sprintf("v src=%s path=%s L=%d r=%d:%d fl=%s w=%d:%s ops=%s",
		s.src, r.path, r.L, r.start, r.length, fl, woff, hlib.Hex(w), strings.Join(opTexts, ","))
	s.o.Case(op, strings.Join(r.obs, ";"))
	if len(op) < 260 && (r.start%8 != 0 || r.nested) && len(r.ops) > 3 {
		s.o.Sample(op + " => " + strings.Join(r.obs, ";"))
	}
	s.o.Stat("ops", len(r.ops))
	for _, o := range r.ops {
		s.o.Stat("op_"+strings.SplitN(o.text, ":", 2)[0], 1)
	}
	unaligned := r.start%8 != 0 || r.length%8 != 0
	if unaligned {
		s.o.Stat("values_unaligned", 1)
	}
	if r.nested {
		s.o.Stat("values_in_nested_buffer", 1)
	}
	if r.isRoot && !r.top {
		s.o.Stat("values_nested_root", 1)
		if r.length != r.L {
			s.o.Stat("nested_root_len_ne_buffer", 1)
		}
	}
	if r.raw {
		s.o.Stat("values_raw", 1)
	}
	if unaligned || r.nested || r.isRoot {
		lb := r.length
		if lb > 71 {
			lb = 71 + (lb%8+8)%8
		}
		kind := strings.SplitN(s.src, ":", 4)
		k := kind[0]
		if len(kind) == 4 && kind[0] == "file" {
			k = kind[2]
		}
		s.o.Class(fmt.Sprintf("%s a%d l%d %s", k, r.start%8, lb, fl))
	}
}

// runMain runs `fq [-d fmt] PROGRAM file` in-process
func (s *session) runMain(format, fname string, data []byte) (err error) {
	return s.runMainOpts(format, "-", fname, data)
}

// the bits_format given on the command line of every Main run (`-o bits_format=F`), a function of
// the source so that a case line replays; only formats whose rendering survives JSON printing
var cliFormats = []string{"md5", "hex", "base64", "snippet", "byte_array", "md5"}

func cliFmtFor(src string) string {
	h := fnv.New32a()
	h.Write([]byte(src))
	return cliFormats[h.Sum32()%uint32(len(cliFormats))]
}

func (s *session) runMainOpts(format, opts, fname string, data []byte) (err error) {
	s.stdout = &bytes.Buffer{}
	s.top = nil
	s.cur = nil
	args := []string{"fq"}
	if format != "" && format != "probe" {
		args = append(args, "-d", format)
	}
	if opts != "-" && opts != "" {
		for _, kv := range strings.Split(opts, ",") {
			args = append(args, "-o", kv)
		}
	}
	args = append(args, "-o", "bits_format="+cliFmtFor(s.src))
	args = append(args, program, fname)
	var fsys fs.FS = vfs{fname: data}
	if s.onDisk {
		// a real file in a temp dir: `open` gets an *os.File (regular, seekable), i.e. the
		// ctxreadseeker -> progressreadseeker -> aheadreadseeker (512 KiB window) chain of the CLI
		dir, derr := os.MkdirTemp(os.Getenv("VERIF_WORK"), "c05in")
		if derr != nil {
			return derr
		}
		defer os.RemoveAll(dir)
		if werr := os.WriteFile(filepath.Join(dir, fname), data, 0o644); werr != nil {
			return werr
		}
		fsys = os.DirFS(dir)
	}
	vo := &vos{args: args, fsys: fsys, stdout: s.stdout, stderr: &bytes.Buffer{}}
	sess = s
	defer func() {
		if r := recover(); r != nil {
			err = fmt.Errorf("panic: %v", r)
		}
		s.finish()
		sess = nil
	}()
	i, err := interp.New(vo, interp.DefaultRegistry)
	if err != nil {
		return err
	}
	ctx, cancel := context.WithTimeout(context.Background(), mainTimeout)
	defer cancel()
	err = i.Main(ctx, vo.Stdout(), "verif")
	i.Stop()
	if ctx.Err() != nil {
		// timed out (machine load, or a decompression bomb): the value in progress is incomplete —
		// drop it instead of reporting half an observation
		s.cur = nil
		s.timedOut = true
		if err == nil {
			err = ctx.Err()
		}
	}
	if err != nil && vo.stderr.Len() > 0 {
		err = fmt.Errorf("%w: %s", err, strings.TrimSpace(vo.stderr.String()))
	}
	return err
}

var mainTimeout = 10 * time.Second

var allFormats = []string{"string", "hex", "base64", "byte_array", "md5", "truncate", "snippet"}

func pickSizebase(r *hlib.Rand) int {
	switch r.Intn(6) {
	case 0:
		return 16
	case 1:
		return 2
	case 2:
		return 8
	case 3:
		return r.Range(2, 36)
	}
	return 10
}

// planFor decides the operations evaluated on one value.
// level 2: everything (synthetic trees, thorough); level 1: tobits, tobytes and a random half of
// the rest (synthetic trees, quick — every (alignment, length) occurs in >= 9 places, so each
// combination still meets every operation with high probability); level 0: sampled (real files).
func planFor(rc *rec, r *hlib.Rand, level int, cli string) ([]opDesc, bool) {
	if rc.synth {
		return []opDesc{{"tobits"}, {"tobytes"}}, false
	}
	ops, stdout := planBase(rc, r, level)
	// aggregates: ONE conversion that renders several raw values (one Options value, one
	// BitsFormatFn closure): a compound with >= 2 raw leaves, or the same raw value twice
	if rc.wantAgg && rc.rawLeaves >= 2 && rc.rawLeaves <= maxAggLeaves {
		for _, f := range allFormats {
			if f == "md5" || level == 2 || r.Intn(3) == 0 {
				sb := 10
				if f == "snippet" {
					sb = pickSizebase(r)
				}
				ops = append(ops, opDesc{fmt.Sprintf("agg:%s:%d", f, sb)})
			}
		}
		ops = append(ops, opDesc{"aggd:" + cli}, opDesc{"aggv:" + cli})
	}
	if rc.raw && rc.length <= 32768 && (level == 2 || r.Intn(6) == 0) {
		f := "md5"
		if r.Intn(2) == 0 {
			f = allFormats[r.Intn(len(allFormats))]
		}
		ops = append(ops, opDesc{fmt.Sprintf("twice:%s:10", f)})
	}
	return ops, stdout
}

func planBase(rc *rec, r *hlib.Rand, level int) ([]opDesc, bool) {
	if rc.length > 8*256*1024 {
		// very large (the root of an input larger than the read-ahead window): digest only
		return []opDesc{{"rfmt8:md5:10"}}, false
	}
	full := level == 2
	big := rc.length > 32768
	var ops []opDesc
	if !big || rc.top {
		ops = append(ops, opDesc{"tobits"})
	}
	ops = append(ops, opDesc{"tobytes"})
	if !big {
		if full || r.Intn(2) == 0 {
			ops = append(ops, opDesc{fmt.Sprintf("tobits:%d", r.Range(0, 9))})
		}
		if full || r.Intn(2) == 0 {
			ops = append(ops, opDesc{fmt.Sprintf("tobytes:%d", r.Range(0, 4))})
		}
	}
	if rc.raw {
		if !big {
			for _, f := range allFormats {
				if level == 1 && r.Intn(3) != 0 {
					continue
				}
				sb := 10
				if f == "snippet" {
					sb = pickSizebase(r)
				}
				ops = append(ops, opDesc{fmt.Sprintf("fmt:%s:%d", f, sb)})
			}
		} else {
			ops = append(ops, opDesc{"fmt:md5:10"}, opDesc{"fmt:truncate:10"}, opDesc{fmt.Sprintf("fmt:snippet:%d", pickSizebase(r))})
			ops = append(ops, opDesc{fmt.Sprintf("fmt:%s:10", allFormats[r.Intn(4)])})
		}
		// the same value instance used as a STRING first (length, tostring, test, ascii_downcase), then rendered:
		// rendering is a function of (buffer, range, options), not of what the value was used for before
		ops = append(ops, opDesc{"ufmt:string:10"})
		if !big {
			ops = append(ops, opDesc{fmt.Sprintf("ufmt:%s:10", allFormats[r.Intn(len(allFormats))])})
		}
	}
	if !big {
		if full || r.Intn(3) == 0 {
			ops = append(ops, opDesc{fmt.Sprintf("rfmt8:%s:%d", allFormats[r.Intn(len(allFormats))], pickSizebase(r))})
		}
		if full || r.Intn(3) == 0 {
			ops = append(ops, opDesc{fmt.Sprintf("rfmt1:%s:%d", allFormats[r.Intn(len(allFormats))], pickSizebase(r))})
		}
	}
	stdout := rc.top || (!big && (full || r.Intn(4) == 0))
	return ops, stdout
}

// ---------------------------------------------------------------- real files

type inputFile struct {
	rel    string // relative to the repo root
	format string
	opts   string // the `-o k=v` options of the fqtest line, comma separated ("-" = none)
	big    bool   // larger than the 512 KiB read-ahead window of `open` (thorough tier; served from a real file)
}

// collectInputs finds (format, file) pairs from the `$ fq … -d FORMAT … FILE` lines of the
// .fqtest files next to each testdata file; files mentioned without -d are probed.
func collectInputs(repo string, withBig bool) []inputFile {
	seen := map[string]bool{}
	var res []inputFile
	_ = filepath.Walk(filepath.Join(repo, "format"), func(p string, info os.FileInfo, err error) error {
		if err != nil || info.IsDir() || !strings.HasSuffix(p, ".fqtest") || !strings.Contains(p, "/testdata/") {
			return nil
		}
		b, err := os.ReadFile(p)
		if err != nil {
			return nil
		}
		for _, line := range strings.Split(string(b), "\n") {
			if !strings.HasPrefix(line, "$ fq ") {
				continue
			}
			ws := strings.Fields(line)
			if len(ws) < 3 {
				continue
			}
			fn := strings.TrimPrefix(ws[len(ws)-1], "/")
			fp := filepath.Join(filepath.Dir(p), fn)
			st, err := os.Stat(fp)
			if err != nil || st.IsDir() || st.Size() == 0 || strings.HasSuffix(fp, ".fqtest") {
				continue
			}
			big := st.Size() > 512*1024 && st.Size() <= 4*1024*1024 && withBig
			if st.Size() > 64*1024 && !big {
				continue
			}
			format := "probe"
			var opts []string
			for i, w := range ws {
				if w == "-d" && i+1 < len(ws)-1 {
					format = ws[i+1]
				}
				if w == "-o" && i+1 < len(ws)-1 {
					opts = append(opts, ws[i+1])
				}
			}
			optS := strings.Join(opts, ",")
			if optS == "" {
				optS = "-"
			}
			if strings.ContainsAny(format+optS, "'\"$@:") {
				continue
			}
			rel, _ := filepath.Rel(repo, fp)
			key := format + " " + optS + " " + rel
			if seen[key] {
				continue
			}
			seen[key] = true
			res = append(res, inputFile{rel: rel, format: format, opts: optS, big: big})
		}
		return nil
	})
	sort.Slice(res, func(i, j int) bool {
		if res[i].rel != res[j].rel {
			return res[i].rel < res[j].rel
		}
		return res[i].format < res[j].format
	})
	return res
}

type fileBudget struct {
	maxAgg      int
	maxValues   int
	maxBytes    int64
	capPerClass int
}

func runFile(o *hlib.Out, r *hlib.Rand, repo string, in inputFile, bud fileBudget, only map[string][]opDesc) {
	data, err := os.ReadFile(filepath.Join(repo, in.rel))
	if err != nil {
		o.Stat("file_read_error", 1)
		return
	}
	if in.opts == "" {
		in.opts = "-"
	}
	src := fmt.Sprintf("file:%s:%s:%s", in.rel, in.format, in.opts)
	fname := filepath.Base(in.rel)
	// pass 1: collect all values
	var all []*rec
	s1 := &session{o: o, src: src, fileBytes: data, onDisk: len(data) > 512*1024, planFn: func(rc *rec) ([]opDesc, bool, bool) {
		all = append(all, rc)
		return nil, false, false
	}}
	if err := s1.runMainOpts(in.format, in.opts, fname, data); err != nil || len(all) == 0 {
		o.Stat("file_decode_failed", 1)
		return
	}
	o.Stat("files", 1)
	o.Stat("values_seen", len(all))
	sel := map[string][]opDesc{}
	so := map[string]bool{}
	if only != nil {
		for p, ops := range only {
			var o2 []opDesc
			for _, x := range ops {
				if x.text == "stdout" || x.text == "stdoutr" {
					so[p] = true
				} else {
					o2 = append(o2, x)
				}
			}
			sel[p] = o2
		}
	} else {
		// categories; every category is shuffled and capped, the top root always goes first
		perm := make([]int, len(all))
		for i := range perm {
			perm[i] = i
		}
		for i := len(perm) - 1; i > 0; i-- {
			j := r.Intn(i + 1)
			perm[i], perm[j] = perm[j], perm[i]
		}
		counts := map[string]int{}
		var bytesUsed int64
		take := func(rc *rec) {
			if _, ok := sel[rc.path]; ok {
				return
			}
			ops, stdout := planFor(rc, r, 0, cliFmtFor(src))
			sel[rc.path] = ops
			so[rc.path] = stdout
			bytesUsed += rc.windowBytes()
		}
		if all[0].rawLeaves <= 400 {
			all[0].wantAgg = true // the whole tree in one conversion
		}
		take(all[0])
		nAgg := 0
		for _, ix := range perm {
			rc := all[ix]
			if nAgg >= bud.maxAgg {
				break
			}
			if rc.rawLeaves >= 2 && rc.rawLeaves <= 64 {
				rc.wantAgg = true
				nAgg++
				take(rc)
			}
		}
		for _, ix := range perm {
			rc := all[ix]
			if len(sel) >= bud.maxValues || bytesUsed > bud.maxBytes {
				break
			}
			if rc.length > 8*64*1024*4 {
				o.Stat("skipped_huge_value", 1)
				continue
			}
			cat := "plain"
			switch {
			case rc.isRoot:
				cat = "root"
			case rc.nested && rc.raw:
				cat = "nested_raw"
			case rc.nested:
				cat = "nested"
			case rc.start%8 != 0 || rc.length%8 != 0:
				cat = "unaligned"
			case rc.raw:
				cat = "raw"
			case rc.synth:
				cat = "synthetic"
			}
			lim := bud.capPerClass
			if cat == "plain" || cat == "synthetic" {
				lim = bud.capPerClass / 4
			}
			if counts[cat] >= lim {
				continue
			}
			counts[cat]++
			take(rc)
		}
	}
	s2 := &session{o: o, src: src, fileBytes: data, onDisk: len(data) > 512*1024, planFn: func(rc *rec) ([]opDesc, bool, bool) {
		ops, ok := sel[rc.path]
		if !ok {
			return nil, false, false
		}
		delete(sel, rc.path) // paths are unique; never emit a value twice
		return ops, so[rc.path], true
	}}
	if err := s2.runMainOpts(in.format, in.opts, fname, data); err != nil {
		o.Stat("file_pass2_error", 1)
	}
	if s2.timedOut {
		o.Stat("file_pass2_timeout", 1)
	}
	if len(sel) != 0 && only == nil && !s2.timedOut {
		// a selected path that pass 2 did not reach: decoding is not deterministic? report as a case the driver rejects
		for p := range sel {
			o.Case(fmt.Sprintf("v src=%s path=%s L=0 r=0:0 fl=- w=0:- ops=unreached", src, p), "missing")
			break
		}
	}
}

// ---------------------------------------------------------------- main

func parseOpLine(l string) (src, path string, ops []opDesc, ok bool) {
	ws := strings.Fields(l)
	if len(ws) < 2 || (ws[0] != "v" && ws[0] != "a") {
		return
	}
	for _, w := range ws[1:] {
		switch {
		case strings.HasPrefix(w, "src="):
			src = w[4:]
		case strings.HasPrefix(w, "path="):
			path = w[5:]
		case strings.HasPrefix(w, "op="):
			ops = append(ops, opDesc{w[3:]})
		case strings.HasPrefix(w, "ops="):
			for _, t := range strings.Split(w[4:], ",") {
				if t != "" {
					ops = append(ops, opDesc{t})
				}
			}
		}
	}
	return src, path, ops, src != "" && path != ""
}

func main() {
	cfg := hlib.ParseFlags()
	o := hlib.NewOut(cfg.Out)
	defer o.Close()
	r := hlib.NewRand(cfg.Seed)
	repo := os.Getenv("VERIF_REPO")
	if repo == "" {
		repo = "/repo"
	}
	mode := "all"
	if len(cfg.Args) > 0 {
		mode = cfg.Args[0]
	}

	if cfg.Thorough() {
		mainTimeout = 40 * time.Second
	}
	if cfg.Replay != "" {
		for _, l := range hlib.ReplayLines(cfg.Replay) {
			if strings.HasPrefix(strings.TrimPrefix(l, "PROPFAIL "), "lv ") {
				if mode == "all" || mode == "syn" {
					replayLarge(o, strings.TrimPrefix(l, "PROPFAIL "))
				}
				continue
			}
			src, path, ops, ok := parseOpLine(l)
			if !ok {
				continue
			}
			ps := strings.SplitN(src, ":", 4)
			switch {
			case ps[0] == "file" && len(ps) == 4 && (mode == "all" || mode == "files"):
				runFile(o, r, repo, inputFile{rel: ps[1], format: ps[2], opts: ps[3]}, fileBudget{}, map[string][]opDesc{path: ops})
			case ps[0] == "syn" && len(ps) == 3 && (mode == "all" || mode == "syn"):
				replaySyn(o, r, ps[1], ps[2], path, ops)
			}
		}
		flushHugeReplays(o)
		return
	}

	if mode == "all" || mode == "syn" {
		runSynthetic(o, r, cfg.Thorough())
	}
	if mode == "all" || mode == "files" {
		inputs := collectInputs(repo, cfg.Thorough())
		o.Stat("inputs_available", len(inputs))
		// per-format cap so that wasm/tzif (≈ 1900 tiny files) do not crowd out the rest
		perFormat, bud := 2, fileBudget{maxAgg: 3, maxValues: 80, maxBytes: 128 * 1024, capPerClass: 28}
		if cfg.Thorough() {
			perFormat, bud = 12, fileBudget{maxAgg: 12, maxValues: 500, maxBytes: 1024 * 1024, capPerClass: 150}
		}
		for i := len(inputs) - 1; i > 0; i-- {
			j := r.Intn(i + 1)
			inputs[i], inputs[j] = inputs[j], inputs[i]
		}
		used := map[string]int{}
		for _, in := range inputs {
			dir := strings.Split(in.rel, "/")
			key := in.format
			if len(dir) > 1 {
				key = dir[1] + "/" + in.format
			}
			if used[key] >= perFormat && !in.big {
				continue
			}
			if in.big {
				o.Stat("files_larger_than_readahead_window", 1)
			}
			used[key]++
			t0 := time.Now()
			runFile(o, r.Fork(), repo, in, bud, nil)
			if os.Getenv("VERIF_C05_DEBUG") != "" {
				fmt.Fprintf(os.Stderr, "%8.3fs %s %s\n", time.Since(t0).Seconds(), in.format, in.rel)
			}
		}
		o.Stat("formats_used", len(used))
	}
}
