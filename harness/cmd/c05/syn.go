//go:build verif

// Synthetic format `verif_c05`, registered by the harness only: a decoder that places raw fields,
// unsigned fields and structs at EVERY bit alignment 0..7 with EVERY length 0..70, in the top
// buffer and in three kinds of nested buffers that are themselves unaligned sub-ranges of the
// parent (FieldRootBitBuf, FieldStructRootBitBufFn, FieldFormatBitBuf + a nested-in-nested one).
// The layout is a deterministic function of the variant number k, so a case line
// `src=syn:<root hex>:v<k>` replays exactly.
package main

import (
	"fmt"
	"hash/fnv"
	"os"
	"strconv"
	"strings"
	"time"

	"github.com/wader/fq/internal/verifharness/hlib"
	"github.com/wader/fq/pkg/decode"
	"github.com/wader/fq/pkg/interp"
)

const synRootBytes = 40

var synVariant int64

var uLens = []int64{1, 3, 7, 8, 9, 13, 31, 32, 33, 63, 64}
var sLens = []int64{0, 1, 7, 8, 9, 13}

func synRawFields(d *decode.D, k int64, mod int64) {
	for a := int64(0); a < 8; a++ {
		for l := int64(0); l <= 70; l++ {
			d.SeekAbs(8*(1+(l+k)%mod) + a)
			d.FieldRawLen(fmt.Sprintf("f%d_%d", a, l), l)
		}
	}
}

var bigLens = []int64{2040, 2047, 2048, 2049, 2056, 8184, 8191, 8192, 8193, 8200, 8208}

// variant >= 100: few long raw fields around the snippet (256 bytes) and truncate (1024 bytes)
// limits, aligned and unaligned, in the top buffer and in a nested one
func synDecodeBig(d *decode.D) any {
	fields := func(d *decode.D) {
		for _, a := range []int64{0, 3} {
			for _, l := range bigLens {
				d.SeekAbs(8*2 + a)
				d.FieldRawLen(fmt.Sprintf("f%d_%d", a, l), l)
			}
		}
	}
	d.FieldStruct("top", fields)
	d.SeekAbs(8 * 7)
	d.FieldFormatBitBuf("nf", d.BitBufRange(5, 8*1040+3), decode.FormatFn(func(d *decode.D) any {
		d.FieldStruct("in", fields)
		return nil
	}), nil)
	return nil
}

// ---- variant >= 200: a FILE-BACKED input larger than the 512 KiB read-ahead window of `open`
// (binary.go cacheReadAheadSize, internal/aheadreadseeker).  Values are read in an order that makes
// the reader seek away and back: an `anchor` value (reading it opens a window at its byte offset),
// directly followed by a `cross` value that starts inside that window and ends behind its end;
// starts at all bit alignments, around multiples of 524288 and 32768 bytes; plus values larger
// than the window and a value up to the very end of the file.

const aheadWindow = 524288

// variant 200 (quick and thorough): one window + 70000 bytes; variants > 200 (thorough): two windows + …
func hugeSizeFor(k int64) int64 {
	if k <= 200 {
		return aheadWindow + 70000 + 13
	}
	return 2*aheadWindow + 70000 + 13
}

type hugePair struct{ s1, a, deltaBits, extraBits int64 }

func hugePairs(k int64) []hugePair {
	hugeSize := hugeSizeFor(k + 200)
	var ps []hugePair
	bases := []int64{0, 44, 32768 - 1, 32768 + 5, 65536, 100000 + k, 262144 - 3, 400000, 524288 - 7, 524288, 524288 + 3, 540000 + 7*k}
	deltas := []int64{8, 8*44 + 3, 8 * 4096, 8*32767 + 1, 8 * 32768, 8*32769 + 5, 8*65536 + 3}
	extras := []int64{1, 8, 8*100 + 5, 8*33000 + 2}
	i := k
	for bi, b := range bases {
		for di, dl := range deltas {
			// every base meets 3 of the 7 distances (all of them over the bases and variants)
			if (int64(bi)+int64(di)+k)%7 >= 3 {
				continue
			}
			ex := extras[i%int64(len(extras))]
			a := i % 8
			i++
			if (b+aheadWindow)*8+a-dl+dl+ex > hugeSize*8 {
				continue
			}
			ps = append(ps, hugePair{s1: b, a: a, deltaBits: dl, extraBits: ex})
		}
	}
	return ps
}

func synDecodeHuge(d *decode.D) any {
	k := synVariant - 200
	d.FieldU("magic", 32) // like every real decoder: a header read at decode time opens the window at 0
	d.FieldArray("pairs", func(d *decode.D) {
		for _, p := range hugePairs(k) {
			d.FieldStruct("p", func(d *decode.D) {
				d.SeekAbs(p.s1*8 + p.a)
				d.FieldRawLen("anchor", 13+p.a)
				d.SeekAbs((p.s1+aheadWindow)*8 + p.a - p.deltaBits)
				d.FieldRawLen("cross", p.deltaBits+p.extraBits)
			})
		}
	})
	d.SeekAbs(44 * 8)
	hugeSize := hugeSizeFor(synVariant)
	d.FieldRawLen("big", 540000*8) // the shape of a wav/tar/mp4 payload: larger than the window
	d.SeekAbs(44*8 + 3 + k%5)
	d.FieldRawLen("bigu", 530000*8+5)
	d.SeekAbs(hugeSize*8 - (8*5000 + 3))
	d.FieldRawLen("tail", 8*5000+3)
	return nil
}

// hugeRoot: position dependent pseudo random content from a seed (too long to put into a case line)
func hugeRoot(seed uint64, k int64) []byte { return hlib.NewRand(seed).Bytes(int(hugeSizeFor(k))) }

func planHuge(rc *rec, r *hlib.Rand) ([]opDesc, bool, bool) {
	name := rc.path[strings.LastIndexAny(rc.path, ".]")+1:]
	switch {
	case rc.top:
		// the whole input through the pad-applying path, observed as md5 (small observation)
		return []opDesc{{"rfmt8:md5:10"}}, false, true
	case name == "anchor" || name == "magic":
		return []opDesc{{"tobits"}, {"tobytes"}}, false, true
	case name == "cross" || name == "tail":
		if rc.length <= 8*5000+8 {
			return []opDesc{{"tobits"}, {"tobytes"}, {"fmt:md5:10"}, {"fmt:string:10"}, {"fmt:hex:10"}, {"fmt:base64:10"},
				{"rfmt8:byte_array:10"}}, r.Intn(2) == 0, true
		}
		// long: one full observation (which one varies) and two digests
		full := []string{"tobytes", "tobits", "fmt:string:10", "fmt:byte_array:10"}[r.Intn(4)]
		return []opDesc{{full}, {"fmt:md5:10"}, {"fmt:truncate:10"}}, false, true
	case name == "big":
		return []opDesc{{"fmt:md5:10"}, {"fmt:truncate:10"}, {"fmt:snippet:16"}}, true, true
	case name == "bigu":
		return []opDesc{{"tobytes"}, {"fmt:md5:10"}}, false, true
	}
	return nil, false, false
}

func runHugeTree(o *hlib.Out, seed uint64, k int64, emitOnly map[string]bool) {
	synVariant = k
	saved := mainTimeout
	mainTimeout = 15 * time.Minute
	defer func() { mainTimeout = saved }()
	root := hugeRoot(seed, k)
	src := fmt.Sprintf("syn:g%d:v%d", seed, k)
	h := fnv.New64a()
	h.Write([]byte(src))
	pr := hlib.NewRand(h.Sum64()) // the plan is a function of the source: a replay re-creates the same history
	s := &session{o: o, src: src, fileBytes: root, onDisk: true, emitOnly: emitOnly,
		planFn: func(rc *rec) ([]opDesc, bool, bool) { return planHuge(rc, pr) }}
	if err := s.runMain("verif_c05", "syn.bin", root); err != nil {
		fmt.Fprintf(os.Stderr, "huge tree v%d: %v\n", k, err)
		o.Case(fmt.Sprintf("v src=%s path=. L=0 r=0:0 fl=- w=0:- ops=synfailed", s.src), "missing")
	}
	o.Stat("huge_trees", 1)
	o.Stat("huge_file_bytes", int(hugeSizeFor(k)))
	o.Stat("huge_values", s.seen)
}

func synDecode(d *decode.D) any {
	k := synVariant
	if k >= 300 {
		return synDecodeLarge(d)
	}
	if k >= 200 {
		return synDecodeHuge(d)
	}
	if k >= 100 {
		return synDecodeBig(d)
	}
	d.FieldStruct("top", func(d *decode.D) {
		synRawFields(d, k, 3)
	})
	d.FieldStruct("uns", func(d *decode.D) {
		for a := int64(0); a < 8; a++ {
			for _, l := range uLens {
				d.SeekAbs(8*(2+(l+k)%4) + a)
				d.FieldU(fmt.Sprintf("u%d_%d", a, l), int(l))
			}
		}
	})
	d.FieldArray("structs", func(d *decode.D) {
		for a := int64(0); a < 8; a++ {
			for _, l := range sLens {
				d.SeekAbs(8*(1+(l+k)%5) + a)
				d.FieldStruct("s", func(d *decode.D) {
					d.FieldRawLen("x", l)
					d.FieldRawLen("y", 5)
				})
			}
		}
	})
	// nested buffers: unaligned sub-ranges of this buffer, lengths not multiples of 8
	// the nested roots are added at non-zero positions of the parent: Range.Start of such a root
	// is that position (parent coordinates), its bits are [0, len) of its own buffer
	d.SeekAbs(8*k + 13)
	d.FieldRootBitBuf("nb", d.BitBufRange(3+k%8, 8*20+5))
	d.SeekAbs(8*k + 21)
	d.FieldStructRootBitBufFn("ns", d.BitBufRange(5+k, 8*25+3), func(d *decode.D) {
		// like every shipped user of this API the first field starts at bit 0 (see lib/props/C05.json:
		// a root of this kind whose fields start later is the latent InnerRange quirk)
		d.FieldRawLen("first", 3)
		synRawFields(d, k, 2)
	})
	d.SeekAbs(8*k + 34)
	d.FieldFormatBitBuf("nf", d.BitBufRange(2+k, 8*25+1), decode.FormatFn(func(d *decode.D) any {
		d.FieldStruct("in", func(d *decode.D) {
			synRawFields(d, k+1, 2)
		})
		d.SeekAbs(17)
		d.FieldRootBitBuf("deep", d.BitBufRange(1+k%4, 77))
		d.SeekAbs(29)
		d.FieldFormatBitBuf("deepf", d.BitBufRange(9, 8*12), decode.FormatFn(func(d *decode.D) any {
			d.FieldU("a", 3)
			d.FieldRawLen("b", 11)
			d.FieldRawLen("c", 8*8)
			return nil
		}), nil)
		return nil
	}), nil)
	return nil
}

func init() {
	interp.RegisterFormat(
		&decode.Group{Name: "verif_c05"},
		&decode.Format{
			Description:        "verification harness: fields at every bit alignment",
			DecodeFn:           synDecode,
			SkipDecodeFunction: true,
		})
}

func runSynTree(o *hlib.Out, root []byte, k int64, planFn func(rc *rec) ([]opDesc, bool, bool)) {
	synVariant = k
	// a synthetic tree has no reason to be slow: a generous limit, so that machine load does not
	// cut a tree short (a tree cut short is reported as a case the driver rejects)
	saved := mainTimeout
	mainTimeout = 15 * time.Minute
	defer func() { mainTimeout = saved }()
	s := &session{o: o, src: fmt.Sprintf("syn:%s:v%d", hlib.Hex(root), k), fileBytes: root, planFn: planFn}
	if err := s.runMain("verif_c05", "syn.bin", root); err != nil {
		fmt.Fprintf(os.Stderr, "syn tree v%d: %v\n", k, err)
		o.Case(fmt.Sprintf("v src=%s path=. L=0 r=0:0 fl=- w=0:- ops=synfailed", s.src), "missing")
	}
	o.Stat("syn_trees", 1)
	o.Stat("syn_values", s.seen)
}

func runSynthetic(o *hlib.Out, r *hlib.Rand, thorough bool) {
	variants, level := int64(3), 1
	if thorough {
		variants, level = 16, 2
	}
	for k := int64(0); k < variants; k++ {
		root := r.Bytes(synRootBytes)
		switch k % 4 {
		case 1: // all ones: a wrong pad bit or a bit taken from a neighbour shows
			for i := range root {
				root[i] = 0xff
			}
		}
		pr := r.Fork()
		runSynTree(o, root, k, func(rc *rec) ([]opDesc, bool, bool) {
			rc.wantAgg = true
			ops, so := planFor(rc, pr, level, cliFmtFor(fmt.Sprintf("syn:%s:v%d", hlib.Hex(root), k)))
			return ops, so, true
		})
	}
	// long fields around the snippet / truncate limits
	bigRoot := r.Bytes(1100)
	pr := r.Fork()
	runSynTree(o, bigRoot, 100, func(rc *rec) ([]opDesc, bool, bool) {
		rc.wantAgg = true
		ops, so := planFor(rc, pr, 2, cliFmtFor(fmt.Sprintf("syn:%s:v%d", hlib.Hex(bigRoot), 100)))
		return ops, so, true
	})
	// file-backed inputs larger than the read-ahead window of `open`
	nHuge := int64(1)
	if thorough {
		nHuge = 3
	}
	for k := int64(0); k < nHuge; k++ {
		runHugeTree(o, r.U64()%1000000, 200+k, nil)
	}
	// values larger than 64 KiB at every alignment through every tobytes-based renderer (large.go)
	runLarge(o, r.Fork(), thorough)
	o.Stat("exhaustive_small_domain", 1)
	o.Stat("syn_alignments", 8)
	o.Stat("syn_max_len", 70)
}

// replay lines of the file-backed trees are grouped: one evaluation of the tree per (seed, variant)
var hugeReplays = map[string]map[string]bool{}
var hugeReplayOrder [][2]uint64

func flushHugeReplays(o *hlib.Out) {
	for _, sk := range hugeReplayOrder {
		runHugeTree(o, sk[0], int64(sk[1]), hugeReplays[fmt.Sprintf("%d %d", sk[0], sk[1])])
	}
}

func replaySyn(o *hlib.Out, r *hlib.Rand, rootHex, variant, path string, ops []opDesc) {
	k, err := strconv.ParseInt(strings.TrimPrefix(variant, "v"), 10, 64)
	if err != nil {
		return
	}
	if strings.HasPrefix(rootHex, "g") {
		// generated content: the whole tree is re-evaluated with the same plan (the failure may need
		// the reads of the values before it), only the requested value is written
		seed, err := strconv.ParseUint(rootHex[1:], 10, 64)
		if err != nil || k < 200 {
			return
		}
		key := fmt.Sprintf("%d %d", seed, k)
		if hugeReplays[key] == nil {
			hugeReplays[key] = map[string]bool{}
			hugeReplayOrder = append(hugeReplayOrder, [2]uint64{seed, uint64(k)})
		}
		hugeReplays[key][path] = true
		return
	}
	root := hlib.UnHex(rootHex)
	runSynTree(o, root, k, func(rc *rec) ([]opDesc, bool, bool) {
		if rc.path != path {
			return nil, false, false
		}
		var o2 []opDesc
		so := false
		for _, x := range ops {
			if x.text == "stdout" || x.text == "stdoutr" {
				so = true
			} else {
				o2 = append(o2, x)
			}
		}
		return o2, so, true
	})
}
