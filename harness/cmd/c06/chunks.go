//go:build verif

// C06 harness — the READ-CHUNK dimension: stream-transforming io.Readers inside decoders.
//
// avc_nalu / hevc_nalu (and everything that nests them: avc_au, hevc_au, avc_annexb, hevc_annexb, …) read the NAL
// payload through nalUnescapeReader, id3v2 reads unsynchronised frames through unsyncReader; both are copied by
// d.NewBitBufFromReader = bytes.Buffer.ReadFrom, which calls Read with destinations of 512, 512+e, 1024+e', … bytes.
// The adapter's per-byte loop therefore runs once per CHUNK, and code that looks at a neighbour of the current byte
// (or forgets its state between calls) misbehaves only when its trigger pattern sits exactly ON a chunk boundary —
// a place no corpus sample and no byte/bit/window mutation of one puts it.  Three things are done about it:
//
//  1. mutation family `chunk-boundary` (jobs `chunk …`, run in the workers like every other decode case and judged by
//     outcome class): for every carrier (a decoder + a way to wrap a payload so that it goes through the reader) inputs
//     are GENERATED — `cb:` descriptors, applyMut builds them from nothing — with each of the reader's trigger patterns at
//     every payload offset 2^k+δ (k = 8..16, δ = -3..+2; thorough and directed: -8..+8), with and without earlier
//     escapes (which shift the later boundaries), at the end of the payload or followed by more, over two filler
//     bytes and several unit types, plus random placements;
//  2. correspondence `rd`: the adapter's Read driven call by call with explicit destination sizes (0..40) and inner
//     deliveries — every split position of every short string over the reader's alphabet, full and short reads, stale
//     bytes behind the data — compared call by call (count, bytes, fault) with nalRead / unsyncRead of
//     lean/FqModel/ReadChunks.lean;
//  3. correspondence `rdall`: the adapter between the real bitio.IOReader and the real bytes.Buffer.ReadFrom on
//     generated payloads with patterns around the 512 … 8192 boundaries: the observed call schedule and the FNV-1a-64 of
//     the output are checked against the model on that schedule and (nal) against the rewrite `unescape`.
//
// Directed: when the regenerated site table (extract/c06sites, field `readers`) shows that the sites INSIDE an
// io.Reader's Read method of a carrier's package differ from corpus/C06/sites_baseline.json (key `<pkg>#readers`), the
// family of that package's carriers is run at level d (δ = -8..+8, all fillers and unit types, patterns extended by
// every string of length <= 3 over the byte constants of that Read method, 1/2 sampled).
package main

import (
	"archive/zip"
	"bytes"
	"compress/flate"
	"compress/gzip"
	"compress/zlib"
	"encoding/base64"
	"encoding/binary"
	"encoding/hex"
	"fmt"
	"hash/crc32"
	"io"
	"sort"
	"strconv"
	"strings"

	"github.com/wader/fq/format/bzip2"
	"github.com/wader/fq/format/id3"
	"github.com/wader/fq/format/mpeg"
	"github.com/wader/fq/internal/verifharness/hlib"
	"github.com/wader/fq/pkg/bitio"
)

// ---------------------------------------------------------------- generated inputs (`cb:` descriptors)

type cbPlace struct {
	off int
	pat []byte
}

// cb:<carrier>:<header hex>:<fill hex>:<payload length>:<off>.<hex>[,<off>.<hex>…]
type cbSpec struct {
	carrier string
	hdr     []byte
	fill    byte
	n       int
	places  []cbPlace
}

func parsePlaces(s string, n int) ([]cbPlace, error) {
	var ps []cbPlace
	if s == "-" || s == "" {
		return nil, nil
	}
	for _, t := range strings.Split(s, ",") {
		a, h, ok := strings.Cut(t, ".")
		off, e1 := strconv.Atoi(a)
		pat, e2 := hex.DecodeString(h)
		if !ok || e1 != nil || e2 != nil || off < 0 || off+len(pat) > n {
			return nil, fmt.Errorf("bad placement %q", t)
		}
		ps = append(ps, cbPlace{off, pat})
	}
	return ps, nil
}

func genPayload(fill byte, n int, places []cbPlace) []byte {
	p := bytes.Repeat([]byte{fill}, n)
	for _, pl := range places {
		copy(p[pl.off:], pl.pat)
	}
	return p
}

func parseCB(m string) (cbSpec, error) {
	ps := strings.Split(m, ":")
	bad := fmt.Errorf("bad cb descriptor %q", m)
	if len(ps) != 6 || ps[0] != "cb" {
		return cbSpec{}, bad
	}
	hdr, e1 := hex.DecodeString(ps[2])
	fill, e2 := hex.DecodeString(ps[3])
	n, e3 := strconv.Atoi(ps[4])
	if e1 != nil || e2 != nil || e3 != nil || len(fill) != 1 || n < 0 || n > maxWhole-64 || carrierByName(ps[1]) == nil {
		return cbSpec{}, bad
	}
	places, err := parsePlaces(ps[5], n)
	if err != nil {
		return cbSpec{}, bad
	}
	return cbSpec{carrier: ps[1], hdr: hdr, fill: fill[0], n: n, places: places}, nil
}

func buildCB(m string) ([]byte, error) {
	s, err := parseCB(m)
	if err != nil {
		return nil, err
	}
	return carrierByName(s.carrier).wrap(s.hdr, genPayload(s.fill, s.n, s.places)), nil
}

// ---------------------------------------------------------------- carriers

type carrier struct {
	name     string
	formats  []string // decoded with each of them
	pkg      string   // package of the reader (key of the site table)
	kind     string   // nal | unsync: the reader, its patterns and its model
	hdrs     []string // unit headers (hex): the first `hdrQuick` in the quick tier
	hdrQuick int
	wrap     func(hdr, payload []byte) []byte
}

func be32(n int) []byte { return []byte{byte(n >> 24), byte(n >> 16), byte(n >> 8), byte(n)} }
func syncsafe(n int) []byte {
	return []byte{byte(n>>21) & 0x7f, byte(n>>14) & 0x7f, byte(n>>7) & 0x7f, byte(n) & 0x7f}
}
func cat(bs ...[]byte) []byte { return bytes.Join(bs, nil) }

// avc headers: forbidden_zero(1) nal_ref_idc(2) nal_unit_type(5): 12 filler (raw data), 7 SPS, 6 SEI, 8 PPS, 5 IDR slice, 1 slice
var avcHdrs = []string{"0c", "67", "06", "68", "65", "41"}

// hevc headers: forbidden_zero(1) nal_unit_type(6) layer(6) tid(3): 1 slice (raw data), 33 SPS, 32 VPS, 34 PPS
var hevcHdrs = []string{"0201", "4201", "4001", "4401"}

// id3v2.4 frame ids: XXXX (raw data), PRIV, TIT2 (text), COMM
var id3Hdrs = []string{"58585858", "50524956", "54495432", "434f4d4d"}

var carriers = []*carrier{
	{name: "avcnalu", formats: []string{"avc_nalu"}, pkg: "format/mpeg", kind: "nal", hdrs: avcHdrs, hdrQuick: 3,
		wrap: func(h, p []byte) []byte { return cat(h, p) }},
	{name: "hevcnalu", formats: []string{"hevc_nalu"}, pkg: "format/mpeg", kind: "nal", hdrs: hevcHdrs, hdrQuick: 2,
		wrap: func(h, p []byte) []byte { return cat(h, p) }},
	// annex B byte stream (avc_au's default LengthSize 0 is annex B too): start code, one NAL unit
	{name: "avcannexb", formats: []string{"avc_annexb", "avc_au"}, pkg: "format/mpeg", kind: "nal", hdrs: avcHdrs, hdrQuick: 2,
		wrap: func(h, p []byte) []byte { return cat([]byte{0, 0, 0, 1}, h, p) }},
	{name: "hevcannexb", formats: []string{"hevc_annexb"}, pkg: "format/mpeg", kind: "nal", hdrs: hevcHdrs, hdrQuick: 1,
		wrap: func(h, p []byte) []byte { return cat([]byte{0, 0, 0, 1}, h, p) }},
	// hevc_au's default: 4-byte length prefix
	{name: "hevcau", formats: []string{"hevc_au"}, pkg: "format/mpeg", kind: "nal", hdrs: hevcHdrs, hdrQuick: 1,
		wrap: func(h, p []byte) []byte { return cat(be32(len(h)+len(p)), h, p) }},
	// ID3v2.4 tag with one frame whose format flags say `unsync` (%0h00kmnp, n = 0x02)
	{name: "id3v2", formats: []string{"id3v2"}, pkg: "format/id3", kind: "unsync", hdrs: id3Hdrs, hdrQuick: 2,
		wrap: func(h, p []byte) []byte {
			frame := cat(h, syncsafe(len(p)), []byte{0x00, 0x02}, p)
			return cat([]byte("ID3\x04\x00\x00"), syncsafe(len(frame)), frame)
		}},
}

// ---- carriers of kind `size`: the payload reaches the decoder through a standard-library decompressor / decoder that
// reads from fq's bitio.IOReader / IOReadSeeker in chunks of ITS choosing and is drained by io.ReadAll in chunks of
// append's choosing. There is no trigger pattern on fq's side: the family puts the payload LENGTH at every boundary
// (2^k and the capacities io.ReadAll grows through) ± δ. Header byte 0 = compression level, byte 1 = 1: the payload is
// scrambled (does not compress, so the compressed stream crosses the boundaries too).

func scramble(h, p []byte) []byte {
	if len(h) < 2 || h[1] != 1 {
		return p
	}
	q := make([]byte, len(p))
	x := uint64(len(p))*0x9e3779b97f4a7c15 + 1
	for i := range p {
		x ^= x << 13
		x ^= x >> 7
		x ^= x << 17
		q[i] = p[i] ^ byte(x>>32)
	}
	return q
}

func levelOfHdr(h []byte) int {
	if len(h) > 0 && int(h[0]) <= 9 {
		return int(h[0])
	}
	return flate.DefaultCompression
}

func zlibBytes(level int, p []byte) []byte {
	var b bytes.Buffer
	w, _ := zlib.NewWriterLevel(&b, level)
	_, _ = w.Write(p)
	_ = w.Close()
	return b.Bytes()
}

func pngChunk(typ string, data []byte) []byte {
	c := crc32.NewIEEE()
	_, _ = c.Write([]byte(typ))
	_, _ = c.Write(data)
	return cat(be32(len(data)), []byte(typ), data, be32(int(c.Sum32())))
}

func pngWith(chunk []byte) []byte {
	ihdr := cat(be32(1), be32(1), []byte{8, 0, 0, 0, 0})
	return cat([]byte("\x89PNG\r\n\x1a\n"), pngChunk("IHDR", ihdr), chunk, pngChunk("IDAT", zlibBytes(6, []byte{0, 0})), pngChunk("IEND", nil))
}

var sizeHdrs = []string{"0000", "0601", "0600", "0001", "0901"}

var sizeCarriers = []*carrier{
	{name: "gzip", formats: []string{"gzip"}, pkg: "format/gzip", kind: "size", hdrs: sizeHdrs, hdrQuick: 2,
		wrap: func(h, p []byte) []byte {
			var b bytes.Buffer
			w, _ := gzip.NewWriterLevel(&b, levelOfHdr(h))
			_, _ = w.Write(scramble(h, p))
			_ = w.Close()
			return b.Bytes()
		}},
	{name: "zip", formats: []string{"zip"}, pkg: "format/zip", kind: "size", hdrs: sizeHdrs, hdrQuick: 2,
		wrap: func(h, p []byte) []byte {
			var b bytes.Buffer
			w := zip.NewWriter(&b)
			w.RegisterCompressor(zip.Deflate, func(out io.Writer) (io.WriteCloser, error) { return flate.NewWriter(out, levelOfHdr(h)) })
			f, _ := w.CreateHeader(&zip.FileHeader{Name: "a", Method: zip.Deflate})
			_, _ = f.Write(scramble(h, p))
			_ = w.Close()
			return b.Bytes()
		}},
	{name: "pngztxt", formats: []string{"png"}, pkg: "format/png", kind: "size", hdrs: sizeHdrs, hdrQuick: 2,
		wrap: func(h, p []byte) []byte {
			return pngWith(pngChunk("zTXt", cat([]byte("k\x00\x00"), zlibBytes(levelOfHdr(h), scramble(h, p)))))
		}},
	{name: "pngiccp", formats: []string{"png"}, pkg: "format/png", kind: "size", hdrs: sizeHdrs, hdrQuick: 1,
		wrap: func(h, p []byte) []byte {
			return pngWith(pngChunk("iCCP", cat([]byte("k\x00\x00"), zlibBytes(levelOfHdr(h), scramble(h, p)))))
		}},
	// METADATA_BLOCK_PICTURE=<base64>: base64.NewDecoder over bitio.IOReadSeeker
	{name: "vorbiscomment", formats: []string{"vorbis_comment"}, pkg: "format/vorbis", kind: "size", hdrs: []string{"0000", "0001"}, hdrQuick: 2,
		wrap: func(h, p []byte) []byte {
			c := "METADATA_BLOCK_PICTURE=" + base64.StdEncoding.EncodeToString(scramble(h, p))
			le := func(n int) []byte { return binary.LittleEndian.AppendUint32(nil, uint32(n)) }
			return cat(le(1), []byte("v"), le(1), le(len(c)), []byte(c))
		}},
}

func init() { carriers = append(carriers, sizeCarriers...) }

// readAllCaps: the capacities io.ReadAll's buffer grows through (`append(b, 0)[:len(b)]` from 512) — the places where one
// of its Reads ends because the destination is full
func readAllCaps(limit int) []int {
	var caps []int
	b := make([]byte, 0, 512)
	for cap(b) <= limit {
		caps = append(caps, cap(b))
		b = append(b[:cap(b)], 0)
	}
	return caps
}

func carrierByName(n string) *carrier {
	for _, c := range carriers {
		if c.name == n {
			return c
		}
	}
	return nil
}

// trigger patterns of a reader kind; `early` makes the decoder take the reader path at all (avc_nalu only wraps the
// payload when findNALUEmulationCode sees 00 00 03) and shifts every later chunk boundary by one byte per copy
type kindInfo struct {
	patterns []string // hex
	more     []string // thorough / directed
	early    string
	trigger  string // what must be the LAST bytes of a filled destination (`rd` family b)
	alphabet []byte // `rd` inputs: every short string over it
}

var kinds = map[string]kindInfo{
	"nal": {
		patterns: []string{"00000301", "00000300", "00000305", "000003", "000000", "0000030000", "00000300000301", "0003", "000003ff"},
		more:     []string{"00000303", "00000304", "0000", "03", "000001", "00000000000003", "0300000300"},
		early:    "00000301",
		trigger:  "000003",
		alphabet: []byte{0x00, 0x03, 0x01},
	},
	"unsync": {
		patterns: []string{"ff00", "ff0001", "ff00ff00", "ffff00", "ff", "ff0000", "00ff00", "ffe0"},
		more:     []string{"ffff", "ff00ff", "00", "ffffff0000"},
		early:    "ff00",
		trigger:  "ff", // the 00 of `ff 00` then starts the next Read
		alphabet: []byte{0xff, 0x00, 0x01},
	},
}

func init() {
	kinds["size"] = kindInfo{patterns: []string{""}, alphabet: nil}
	// bzip2's bitFlipReader: no carrier (the standard library cannot compress bzip2), `rd` correspondence only
	kinds["bitflip"] = kindInfo{trigger: "01", alphabet: []byte{0x01, 0x80, 0xa5}}
}

type cbLevel struct {
	lo, hi   int // δ range
	fills    []string
	allHdrs  bool
	more     bool
	tails    []int
	earlies  []int
	nRandom  int
	extraPat []string
}

func levelOf(l string) cbLevel {
	switch l {
	case "t":
		return cbLevel{lo: -8, hi: 8, fills: []string{"11", "ff", "00", "03"}, allHdrs: true, more: true, tails: []int{0, 1, 300},
			earlies: []int{0, 1, 2, 3}, nRandom: 1500}
	case "d":
		return cbLevel{lo: -8, hi: 8, fills: []string{"11", "ff"}, more: true, tails: []int{0, 300}, earlies: []int{0, 1, 2}, nRandom: 600}
	}
	return cbLevel{lo: -3, hi: 2, fills: []string{"11", "ff"}, tails: []int{0, 300}, earlies: []int{0, 1}, nRandom: 40}
}

// kScale: a decode costs in proportion to the payload, so the big boundaries are sampled more thinly
func kScale(k int) int {
	switch {
	case k <= 10:
		return 1
	case k <= 12:
		return 2
	case k <= 14:
		return 5
	}
	return 12
}

const cbKMin, cbKMax = 8, 16

// chunkFamily: the descriptors of one carrier at one k (k = 0: the random placements), in a fixed order
func chunkFamily(c *carrier, level string, k int, seed uint64, extra []string) []string {
	lv := levelOf(level)
	ki := kinds[c.kind]
	pats := append([]string{}, ki.patterns...)
	if lv.more {
		pats = append(pats, ki.more...)
	}
	for _, e := range extra {
		dup := false
		for _, p := range pats {
			dup = dup || p == e
		}
		if !dup {
			pats = append(pats, e)
		}
	}
	hdrs := c.hdrs
	if !lv.allHdrs {
		hdrs = hdrs[:c.hdrQuick]
	}
	earlyLen := len(ki.early) / 2
	var ms []string
	if k == 0 {
		r := hlib.NewRand(seed ^ 0xc4b0 ^ uint64(len(c.name))<<32 ^ uint64(c.name[0])<<40 ^ uint64(c.name[len(c.name)-1])<<48)
		for i := 0; i < lv.nRandom; i++ {
			kk := r.Range(cbKMin+1, cbKMax)
			n := (1 << kk) + r.Range(-40, 600)
			var pl []string
			used := [][2]int{}
			place := func(off int, pat string) {
				l := len(pat) / 2
				if off < 0 || off+l > n {
					return
				}
				for _, u := range used {
					if off < u[1] && u[0] < off+l {
						return
					}
				}
				used = append(used, [2]int{off, off + l})
				pl = append(pl, fmt.Sprintf("%d.%s", off, pat))
			}
			place(r.Range(0, 64), ki.early)
			// one pattern near a power of two below n, the others anywhere
			k2 := r.Range(cbKMin+1, kk)
			place((1<<k2)+r.Range(-8, 8), pats[r.Intn(len(pats))])
			for j := r.Range(0, 6); j > 0; j-- {
				place(r.Intn(n), pats[r.Intn(len(pats))])
			}
			sort.Strings(pl)
			ms = append(ms, fmt.Sprintf("cb:%s:%s:%s:%d:%s", c.name, hdrs[r.Intn(len(hdrs))], lv.fills[r.Intn(len(lv.fills))], n, strings.Join(pl, ",")))
		}
		return ms
	}
	bounds := []int{1 << k}
	tails, earlies := lv.tails, lv.earlies
	if c.kind == "size" {
		for _, cp := range readAllCaps(maxWhole - 4096) {
			if cp > 1<<(k-1) && cp < 1<<k {
				bounds = append(bounds, cp)
			}
		}
		tails, earlies = []int{0}, []int{0}
	}
	for _, h := range hdrs {
		for _, f := range lv.fills {
			for _, p := range pats {
				for d := lv.lo; d <= lv.hi; d++ {
					for _, bound := range bounds {
						off := bound + d
						for _, tail := range tails {
							for _, e := range earlies {
								if e*8+earlyLen > off || off < 0 {
									continue
								}
								var pl []string
								for j := 0; j < e; j++ {
									pl = append(pl, fmt.Sprintf("%d.%s", 8+j*8, ki.early))
								}
								pl = append(pl, fmt.Sprintf("%d.%s", off, p))
								ms = append(ms, fmt.Sprintf("cb:%s:%s:%s:%d:%s", c.name, h, f, off+len(p)/2+tail, strings.Join(pl, ",")))
							}
						}
					}
				}
			}
		}
	}
	return ms
}

// chunk <carrier> <format> <f|n> <seed> <mod> <level q|t|d> <k> [<extra patterns hex,…>]
func chunkJobs(seed uint64, thorough bool, directedPkgs map[string][]string) []*job {
	var jobs []*job
	level, mod := "q", 3
	if thorough {
		level, mod = "t", 12
	}
	add := func(c *carrier, level string, mod int, extra string, directed bool) {
		for _, f := range c.formats {
			for _, force := range []string{"n", "f"} {
				for k := cbKMin; k <= cbKMax; k++ {
					jobs = append(jobs, &job{text: fmt.Sprintf("chunk %s %s %s %d %d %s %d %s", c.name, f, force, seed, mod*kScale(k), level, k, extra),
						size: 1 << k, format: f, directed: directed})
				}
				jobs = append(jobs, &job{text: fmt.Sprintf("chunk %s %s %s %d 1 %s 0 %s", c.name, f, force, seed, level, extra), size: 1 << 14, format: f, directed: directed})
			}
		}
	}
	for _, c := range carriers {
		add(c, level, mod, "-", false)
		if alpha, ok := directedPkgs[c.pkg]; ok {
			add(c, "d", 4, alphabetPatterns(alpha), true)
		}
	}
	return jobs
}

// alphabetPatterns: every string of length 1..3 over the byte constants of the changed Read method(s) (at most 5 of them)
func alphabetPatterns(alpha []string) string {
	var bs []string
	for _, a := range alpha {
		if len(a) == 2 && len(bs) < 5 {
			bs = append(bs, a)
		}
	}
	if len(bs) == 0 {
		return "-"
	}
	var out []string
	var rec func(prefix string, n int)
	rec = func(prefix string, n int) {
		if prefix != "" {
			out = append(out, prefix)
		}
		if n == 0 {
			return
		}
		for _, b := range bs {
			rec(prefix+b, n-1)
		}
	}
	rec("", 3)
	return strings.Join(out, ",")
}

func runChunk(st *wstate, jobID string, from int, single bool, text string) {
	ws := strings.Fields(text)
	fail := func(why string) {
		st.mu.Lock()
		fmt.Fprintf(st.w, "C\t%s\tbadcase:%s\n", text, why)
		st.mu.Unlock()
	}
	if len(ws) != 9 || (ws[3] != "f" && ws[3] != "n") || (ws[6] != "q" && ws[6] != "t" && ws[6] != "d") {
		fail("parse")
		return
	}
	c := carrierByName(ws[1])
	seed, e1 := strconv.ParseUint(ws[4], 10, 64)
	mod, e2 := strconv.Atoi(ws[5])
	k, e3 := strconv.Atoi(ws[7])
	if c == nil || e1 != nil || e2 != nil || e3 != nil || mod < 1 || (k != 0 && (k < cbKMin || k > cbKMax)) {
		fail("parse")
		return
	}
	var extra []string
	if ws[8] != "-" {
		for _, e := range strings.Split(ws[8], ",") {
			if _, err := hex.DecodeString(e); err != nil || e == "" {
				fail("parse")
				return
			}
			extra = append(extra, e)
		}
	}
	g, err := groupFor(ws[2])
	if err != nil {
		fail("format")
		return
	}
	force := ws[3] == "f"
	idx := 0
	for _, m := range chunkFamily(c, ws[6], k, seed, extra) {
		if !selected(seed^0xcb, mod, "gen:cb", ws[2], force, m) {
			continue
		}
		if idx >= from {
			runOneOfMany(st, jobID, idx, single, []byte{}, "gen:cb", m, ws[2], g, force, seed)
		}
		idx++
	}
}

// ---------------------------------------------------------------- `rd`: one Read after the other

func newAdapter(kind string, inner io.Reader) io.Reader {
	switch kind {
	case "nal":
		return mpeg.VerifC06NalUnescapeReader(inner)
	case "unsync":
		return id3.VerifC06UnsyncReader(inner)
	case "bitflip":
		return bzip2.VerifC06BitFlipReader(inner)
	}
	return nil
}

// scriptReader: the inner reader of an `rd` case — delivers min(next, len(p), remaining) bytes per call
type scriptReader struct {
	data []byte
	next int
}

func (s *scriptReader) Read(p []byte) (int, error) {
	if len(s.data) == 0 {
		return 0, io.EOF
	}
	k := min(s.next, len(p), len(s.data))
	copy(p, s.data[:k])
	s.data = s.data[k:]
	return k, nil
}

func hexOrDash(b []byte) string {
	if len(b) == 0 {
		return "-"
	}
	return hex.EncodeToString(b)
}

// rd <nal|unsync> <stale hex> <input hex|-> <plen/c,…>
func runRdOp(op string) (string, bool) {
	ws := strings.Fields(op)
	if len(ws) != 5 || ws[0] != "rd" || kinds[ws[1]].trigger == "" {
		return "", false
	}
	stale, e1 := hex.DecodeString(ws[2])
	var in []byte
	var e2 error
	if ws[3] != "-" {
		in, e2 = hex.DecodeString(ws[3])
	}
	if e1 != nil || e2 != nil || len(stale) != 1 {
		return "", false
	}
	var sched [][2]int
	if ws[4] != "-" {
		for _, t := range strings.Split(ws[4], ",") {
			a, b, ok := strings.Cut(t, "/")
			x, e3 := strconv.Atoi(a)
			y, e4 := strconv.Atoi(b)
			if !ok || e3 != nil || e4 != nil || x < 0 || y < 0 || x > 1<<20 {
				return "", false
			}
			sched = append(sched, [2]int{x, y})
		}
	}
	inner := &scriptReader{data: append([]byte{}, in...)}
	r := newAdapter(ws[1], inner)
	var parts []string
	for _, pc := range sched {
		p := bytes.Repeat(stale, pc[0])
		inner.next = pc[1]
		part, _ := hlib.Catch(func() (s string) {
			defer func() {
				if rec := recover(); rec != nil {
					s = classifyRecovered(rec, ws[1])
				}
			}()
			n, _ := r.Read(p)
			if n < 0 || n > len(p) {
				return fmt.Sprintf("badn%d:-", n)
			}
			return fmt.Sprintf("%d:%s", n, hexOrDash(p[:n]))
		})
		parts = append(parts, part)
		if strings.HasPrefix(part, "panic:") {
			break
		}
	}
	if len(parts) == 0 {
		return "", true
	}
	return strings.Join(parts, ","), true
}

// logReader: between the adapter and bitio.IOReader — records (len(p), n) of every inner Read
type logReader struct {
	r   io.Reader
	log []string
}

func (l *logReader) Read(p []byte) (int, error) {
	n, err := l.r.Read(p)
	l.log = append(l.log, fmt.Sprintf("%d/%d", len(p), n))
	return n, err
}

func fnv64(b []byte) uint64 {
	h := uint64(0xcbf29ce484222325)
	for _, c := range b {
		h ^= uint64(c)
		h *= 0x100000001b3
	}
	return h
}

// rdall <nal|unsync> <fill hex> <len> <off.hex,…|->: exactly what d.NewBitBufFromReader does (decode.go:294-298, 272-276)
func runRdallOp(op string) (string, bool) {
	ws := strings.Fields(op)
	if len(ws) != 5 || ws[0] != "rdall" || kinds[ws[1]].early == "" {
		return "", false
	}
	fill, e1 := hex.DecodeString(ws[2])
	n, e2 := strconv.Atoi(ws[3])
	if e1 != nil || e2 != nil || len(fill) != 1 || n < 0 || n > 1<<20 {
		return "", false
	}
	places, err := parsePlaces(ws[4], n)
	if err != nil {
		return "", false
	}
	payload := genPayload(fill[0], n, places)
	obs, _ := hlib.Catch(func() (s string) {
		defer func() {
			if rec := recover(); rec != nil {
				s = classifyRecovered(rec, ws[1])
			}
		}()
		lr := &logReader{r: bitio.NewIOReader(bitio.NewBitReader(payload, -1))}
		b := &bytes.Buffer{}
		if _, err := io.CopyBuffer(b, newAdapter(ws[1], lr), make([]byte, 32*1024)); err != nil {
			return "badcase:copy-error"
		}
		return fmt.Sprintf("%s %d:%d", strings.Join(lr.log, ","), b.Len(), fnv64(b.Bytes()))
	})
	return obs, true
}

func emitRd(o *hlib.Out, op, obs string) {
	kind := strings.Fields(op)[0]
	o.Stat(kind+"_cases", 1)
	if strings.Contains(obs, "panic:") {
		o.Stat(kind+"_class_panic", 1)
		o.Sample(op + " => " + obs)
	}
	o.Class(op)
	o.Case(op, obs)
}

// allStrings: every string of length 1..n over the alphabet
func allStrings(alpha []byte, n int) [][]byte {
	var out [][]byte
	var rec func(p []byte)
	rec = func(p []byte) {
		if len(p) > 0 {
			out = append(out, append([]byte{}, p...))
		}
		if len(p) == n {
			return
		}
		for _, a := range alpha {
			rec(append(p, a))
		}
	}
	rec(nil)
	return out
}

func schedStr(s [][2]int) string {
	if len(s) == 0 {
		return "-"
	}
	var ps []string
	for _, pc := range s {
		ps = append(ps, fmt.Sprintf("%d/%d", pc[0], pc[1]))
	}
	return strings.Join(ps, ",")
}

func uniformSched(n, plen, c int) [][2]int {
	var s [][2]int
	for left := n; left > 0 && len(s) < 200; left -= min(plen, c) {
		if min(plen, c) == 0 {
			break
		}
		s = append(s, [2]int{plen, c})
	}
	return append(s, [2]int{plen, c}) // one more call: at EOF
}

func chunkCorrRun(o *hlib.Out, seed uint64, thorough bool) {
	maxLen, nRandom := 5, 600
	if thorough {
		maxLen, nRandom = 7, 6000
	}
	kindNames := []string{"nal", "unsync", "bitflip"}
	for _, kind := range kindNames {
		ki := kinds[kind]
		seen := map[string]bool{}
		emit := func(stale byte, in []byte, sched [][2]int) {
			op := fmt.Sprintf("rd %s %02x %s %s", kind, stale, hexOrDash(in), schedStr(sched))
			if seen[op] {
				return
			}
			seen[op] = true
			obs, ok := runRdOp(op)
			if !ok {
				obs = "badcase:parse"
			}
			emitRd(o, op, obs)
		}
		// (a) every short string over the alphabet: one full read, every split into two full reads, destinations of 1..3
		// bytes, a destination with room behind the data (stale 00 and ff)
		for _, in := range allStrings(ki.alphabet, maxLen) {
			n := len(in)
			emit(0xee, in, [][2]int{{n, n}})
			for s := 1; s < n; s++ {
				emit(0xee, in, [][2]int{{s, s}, {n - s, n - s}})
			}
			for d := 1; d <= 3 && d < n; d++ {
				emit(0xee, in, uniformSched(n, d, d))
			}
			emit(0x00, in, [][2]int{{n + 1, n}})
			emit(0xff, in, [][2]int{{n + 2, n}})
		}
		// (b) every destination size 1..40 filled exactly up to a trigger pattern, with and without more behind it
		trig, _ := hex.DecodeString(ki.trigger)
		for d := 1; d <= 40; d++ {
			for _, fill := range []byte{0x11, 0x00, ki.alphabet[0]} {
				for _, tail := range [][]byte{nil, {0x01}, {0x05}, {0x00}, append(append([]byte{}, trig...), 0x00, 0x01)} {
					var in []byte
					if d >= len(trig) {
						in = append(bytes.Repeat([]byte{fill}, d-len(trig)), trig...)
					} else {
						in = append([]byte{}, trig...)
					}
					in = append(in, tail...)
					emit(0xee, in, uniformSched(len(in), d, d))
					emit(0x00, in, uniformSched(len(in), d, max(1, d-1)))
					emit(0xff, in, uniformSched(len(in), d+1, d))
				}
			}
		}
		// (c) random inputs and schedules
		r := hlib.NewRand(seed ^ 0x7264 ^ uint64(len(kind)))
		vals := append(append([]byte{}, ki.alphabet...), 0x02, 0x04, 0xfe)
		for i := 0; i < nRandom; i++ {
			n := r.Range(1, 60)
			in := make([]byte, n)
			for j := range in {
				if r.Intn(4) == 0 {
					in[j] = vals[r.Intn(len(vals))]
				} else {
					in[j] = ki.alphabet[r.Intn(len(ki.alphabet))]
				}
			}
			var sched [][2]int
			for left := n; left > 0 && len(sched) < 80; {
				plen := r.Range(0, 40)
				c := r.Range(0, plen+2)
				sched = append(sched, [2]int{plen, c})
				left -= min(plen, c)
			}
			sched = append(sched, [2]int{r.Range(0, 8), 4})
			emit([]byte{0x00, 0xff, 0xee, 0x03}[r.Intn(4)], in, sched)
		}
		if ki.early == "" {
			continue
		}
		// (d) through bitio.IOReader and bytes.Buffer.ReadFrom: patterns around the 512 … 8192 boundaries
		kHi := 13
		pats := ki.patterns
		if thorough {
			pats = append(append([]string{}, pats...), ki.more...)
		}
		for k := 9; k <= kHi; k++ {
			for d := -3; d <= 2; d++ {
				for _, p := range pats {
					for e := 0; e <= 3; e++ {
						if e > 1 && !thorough && (k+d+e)%2 == 0 {
							continue
						}
						for _, tail := range []int{0, 300} {
							off := (1 << k) + d
							var pl []string
							for j := 0; j < e; j++ {
								pl = append(pl, fmt.Sprintf("%d.%s", 8+j*8, ki.early))
							}
							pl = append(pl, fmt.Sprintf("%d.%s", off, p))
							op := fmt.Sprintf("rdall %s 11 %d %s", kind, off+len(p)/2+tail, strings.Join(pl, ","))
							obs, ok := runRdallOp(op)
							if !ok {
								obs = "badcase:parse"
							}
							emitRd(o, op, obs)
						}
					}
				}
			}
		}
	}
}
