//go:build verif

// C06 harness — "core" run: the error-raising and reading primitives of pkg/decode called with
// boundary arguments (negative, zero, beyond the buffer, near 2^63) from a tiny decoder that is
// registered only inside this harness. The Lean model (FqModel/Recover.lean, `corePrim`) predicts
// the outcome class of every such call; `core_only_recoverable` is the theorem about the model.
//
//	core <prim> <arg> <buffer bytes> <start position bits> <f|n>  TAB  ok | err:io | err:decoder | panic:<fmt>:<fn>:<kind> | resource:<why>
package main

import (
	"context"
	"errors"
	"io"
	"strconv"

	"github.com/wader/fq/pkg/bitio"
	"github.com/wader/fq/pkg/decode"
)

const coreFormatName = "verif_c06"

type coreIn struct {
	Prim string
	Arg  int64
	Pos  int64
}

var coreGroup *decode.Group

func init() {
	f := &decode.Format{Name: coreFormatName, RootName: "core", DefaultInArg: coreIn{}}
	coreGroup = &decode.Group{Name: coreFormatName, Formats: []*decode.Format{f}}
	f.DecodeFn = func(d *decode.D) any {
		var in coreIn
		d.ArgAs(&in)
		d.SeekAbs(in.Pos)
		a := in.Arg
		switch in.Prim {
		case "ok":
		case "bits":
			d.Bits(int(a))
		case "ubits":
			d.UintBits(int(a))
		case "u":
			d.U(int(a))
		case "fieldu":
			d.FieldU("x", int(a))
		case "rawlen":
			d.FieldRawLen("x", a)
		case "tryrawlen":
			// what format/leveldb/leveldb_table.go does: call, then look at err
			if _, err := d.TryFieldRawLen("x", a); err != nil {
				d.IOPanic(err, "x", "tryrawlen")
			}
		case "seekabs":
			d.SeekAbs(a)
		case "seekrel":
			d.SeekRel(a)
		case "framed":
			d.FramedFn(a, func(d *decode.D) {})
		case "limited":
			d.LimitedFn(a, func(d *decode.D) {})
		case "rangefn":
			d.RangeFn(d.Pos(), a, func(d *decode.D) {})
		case "byteslen":
			d.BytesLen(int(a))
		case "bytesrange":
			d.BytesRange(d.Pos(), int(a))
		case "peekbytes":
			d.PeekBytes(int(a))
		case "utf8":
			d.FieldUTF8("x", int(a))
		case "bitbufrange":
			d.BitBufRange(d.Pos(), a)
		case "alignbits":
			d.AlignBits(int(a))
		case "structn":
			d.FieldStructNArray("x", "e", a, func(d *decode.D) { d.FieldU8("b") })
		case "iszero":
			// the is-zero mapper of padding / reserved fields (pkg/decode/scalar.go bitBufIsZero: 32 KiB scratch buffer)
			d.FieldRawLen("x", a, d.BitBufIsZero())
		case "errorf":
			d.Errorf("verif %d", a)
		case "fatalf":
			d.Fatalf("verif %d", a)
		case "iopanic":
			d.IOPanic(io.ErrUnexpectedEOF, "x", "verif")
		case "leastbytes":
			d.AssertLeastBytesLeft(a)
		case "leastbits":
			d.AssertAtLeastBitsLeft(a)
		default:
			panic("verif: unknown primitive " + in.Prim)
		}
		return nil
	}
}

func coreObs(ws []string) string {
	if len(ws) != 5 {
		return "badcase:parse"
	}
	arg, e1 := strconv.ParseInt(ws[1], 10, 64)
	nbytes, e2 := strconv.Atoi(ws[2])
	pos, e3 := strconv.ParseInt(ws[3], 10, 64)
	if e1 != nil || e2 != nil || e3 != nil || nbytes < 0 || nbytes > 1<<16 || pos < 0 || pos > int64(nbytes)*8 {
		return "badcase:parse"
	}
	buf := make([]byte, nbytes)
	for i := range buf {
		if ws[0] != "iszero" { // iszero: an all-zero buffer (a non-zero byte ends the scan)
			buf[i] = byte(0xa5 + i)
		}
	}
	return coreDecode(buf, coreIn{Prim: ws[0], Arg: arg, Pos: pos}, ws[4] == "f")
}

func coreDecode(buf []byte, in coreIn, force bool) (obs string) {
	defer func() {
		if r := recover(); r != nil {
			obs = classifyRecovered(r, coreFormatName)
		}
	}()
	dv, err := decodeValueErr(buf, in, force)
	if err == nil {
		if dv == nil {
			return "bad:no-value"
		}
		return "ok"
	}
	var fe decode.FormatsError
	if !errors.As(err, &fe) || len(fe.Errs) != 1 || dv == nil || dv.Err == nil {
		return "bad:shape"
	}
	var ioe decode.IOError
	var de decode.DecoderError
	switch {
	case errors.As(fe.Errs[0].Err, &ioe):
		return "err:io"
	case errors.As(fe.Errs[0].Err, &de):
		return "err:decoder"
	}
	return "err:other"
}

// all (prim, arg, buffer, pos, force) combinations of the core run
func coreCases() []string {
	prims := []string{"ok", "bits", "ubits", "u", "fieldu", "rawlen", "tryrawlen", "seekabs", "seekrel", "framed", "limited",
		"rangefn", "byteslen", "bytesrange", "peekbytes", "utf8", "bitbufrange", "alignbits", "structn", "errorf", "fatalf",
		"iopanic", "leastbytes", "leastbits"}
	args := []int64{-1 << 63, -1 << 62, -1 << 31, -65, -9, -8, -1, 0, 1, 2, 3, 4, 5, 7, 8, 9, 16, 24, 29, 31, 32, 33, 63, 64, 65,
		1 << 16, 1 << 31, 1 << 32, 1 << 40, 1 << 48, 1<<48 + 1, 1 << 60, 1 << 62, 1<<63 - 8, 1<<63 - 1}
	var out []string
	for _, p := range prims {
		for _, a := range args {
			for _, bp := range [][2]int{{0, 0}, {4, 0}, {4, 3}, {4, 8}, {4, 32}} {
				for _, f := range []string{"n", "f"} {
					if f == "f" && p != "errorf" && p != "fatalf" && p != "leastbytes" && p != "leastbits" && bp != [2]int{4, 3} {
						continue // Force only matters for these; one buffer shape for the others
					}
					out = append(out, "core "+p+" "+strconv.FormatInt(a, 10)+" "+strconv.Itoa(bp[0])+" "+strconv.Itoa(bp[1])+" "+f)
				}
			}
		}
	}
	// the is-zero scan around its 32 KiB scratch buffer
	for _, bufBytes := range []int{4096, 32768, 65536} {
		for _, bits := range []int64{0, 8, 12, 4096 * 8, 32767 * 8, 32768*8 - 4, 32768 * 8, 32768*8 + 4, 32769 * 8, 65535 * 8, 65536 * 8, 65536*8 + 8} {
			out = append(out, "core iszero "+strconv.FormatInt(bits, 10)+" "+strconv.Itoa(bufBytes)+" 0 n")
		}
	}
	return out
}

func decodeValueErr(buf []byte, in coreIn, force bool) (*decode.Value, error) {
	dv, _, err := decode.Decode(context.Background(), bitio.NewBitReader(buf, -1), coreGroup, decode.Options{
		IsRoot: true, FillGaps: true, Force: force, InArg: in,
	})
	return dv, err
}
