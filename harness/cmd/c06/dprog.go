//go:build verif

// C06 harness — DProg correspondence: ties the three hand-transliterated decoders of
// lean/FqModel/Recover2.lean (vbriProg, vp9Prog, proresProg) to the real DecodeFns.
//
//	dprog <format> <f|n> <hex of the input>  TAB  <class> <leaves>
//
// class  = ok | err:io | err:decoder | err:formats | err:other | panic:<key>
// leaves = `-` or path:start:len,…  of every non-compound value of the (maybe partial) tree, sorted by
// (start, len, path); path = jq-like (`.name` below a struct, `[i]` below an array, root = "").
// Inputs: the property's length-determined mutation family (family.go) of a few small base inputs per format —
// the whole family in both tiers — force on and off. Every line replays alone.
package main

import (
	"context"
	"crypto/sha1"
	"encoding/hex"
	"errors"
	"fmt"
	"os"
	"path/filepath"
	"sort"
	"strings"

	"github.com/wader/fq/internal/verifharness/hlib"
	"github.com/wader/fq/pkg/bitio"
	"github.com/wader/fq/pkg/decode"
	"github.com/wader/fq/pkg/interp"
)

var dprogFormats = []string{"mp3_frame_vbri", "vp9_cfm", "prores_frame"}

func mustHex(s string) []byte {
	b, err := hex.DecodeString(strings.ReplaceAll(s, " ", ""))
	if err != nil {
		panic(err)
	}
	return b
}

// dprogBases: small inputs that reach every branch of the three decoders
func dprogBases(format string) [][]byte {
	var bs [][]byte
	add := func(b []byte) {
		if len(b) > 0 && len(b) <= 4096 {
			bs = append(bs, b)
		}
	}
	// generated seeds of /verif/corpus/C06/seeds/<format>__*
	if ents, err := os.ReadDir(filepath.Join(verifDir(), "corpus", "C06", "seeds")); err == nil {
		for _, e := range ents {
			if strings.HasPrefix(e.Name(), format+"__") {
				if b, err := os.ReadFile(filepath.Join(verifDir(), "corpus", "C06", "seeds", e.Name())); err == nil {
					add(b)
				}
			}
		}
	}
	switch format {
	case "mp3_frame_vbri":
		if b, err := os.ReadFile(filepath.Join(repoDir(), "format/mp3/testdata/mp3_frame_vbri")); err == nil {
			add(b)
		}
		// header, 3 toc entries of 2 bytes, then trailing bytes
		add(mustHex("56425249 0001 0002 0003 00000400 00000010 0003 0001 0002 0001 0011 0022 0033 ffff"))
		// entry size 4, more entries than bytes
		add(mustHex("56425249 0001 0002 0003 00000400 00000010 0009 0001 0004 0001 00000011 00000022 000000"))
	case "vp9_cfm":
		add(mustHex("010100 02010a 030108 040101"))
		add(mustHex("0102 00ff 0900 0500 0401"))
	case "prores_frame":
		// size = 8: an empty frame body
		add(mustHex("00000008 69637066 0102"))
	}
	return bs
}

type dleaf struct {
	path       string
	start, len int64
}

func walkLeaves(v *decode.Value, path string, out *[]dleaf) {
	if c, ok := v.V.(*decode.Compound); ok {
		for i, ch := range c.Children {
			p := path + "." + ch.Name
			if c.IsArray {
				p = fmt.Sprintf("%s[%d]", path, i)
			}
			walkLeaves(ch, p, out)
		}
		return
	}
	*out = append(*out, dleaf{path, v.Range.Start, v.Range.Len})
}

func dprogObs(format string, force bool, input []byte) (obs string) {
	defer func() {
		if r := recover(); r != nil {
			obs = classifyRecovered(r, format)
		}
	}()
	g, err := interp.DefaultRegistry.Group(format)
	if err != nil || len(g.Formats) != 1 {
		return "badcase:format"
	}
	dv, _, derr := decode.Decode(context.Background(), bitio.NewBitReader(input, -1), g, decode.Options{
		IsRoot: true, FillGaps: false, Force: force,
	})
	cls := "ok"
	if derr != nil {
		cls = "err:other"
		var fe decode.FormatsError
		if errors.As(derr, &fe) && len(fe.Errs) == 1 {
			var ioe decode.IOError
			var de decode.DecoderError
			var fse decode.FormatsError
			switch {
			case errors.As(fe.Errs[0].Err, &ioe):
				cls = "err:io"
			case errors.As(fe.Errs[0].Err, &de):
				cls = "err:decoder"
			case errors.As(fe.Errs[0].Err, &fse):
				cls = "err:formats"
			}
		}
	}
	if dv == nil {
		return cls + " nil-tree"
	}
	var ls []dleaf
	walkLeaves(dv, "", &ls)
	sort.SliceStable(ls, func(i, j int) bool {
		a, b := ls[i], ls[j]
		if a.start != b.start {
			return a.start < b.start
		}
		if a.len != b.len {
			return a.len < b.len
		}
		return a.path < b.path
	})
	var sb strings.Builder
	for i, l := range ls {
		if i > 0 {
			sb.WriteByte(',')
		}
		fmt.Fprintf(&sb, "%s:%d:%d", l.path, l.start, l.len)
	}
	if len(ls) == 0 {
		sb.WriteByte('-')
	}
	return cls + " " + sb.String()
}

// runDprogOp runs one `dprog` op text; ok=false if it does not parse
func runDprogOp(op string) (string, bool) {
	ws := strings.Fields(op)
	if len(ws) != 4 || ws[0] != "dprog" || (ws[2] != "f" && ws[2] != "n") {
		return "", false
	}
	var in []byte
	if ws[3] != "-" {
		b, err := hex.DecodeString(ws[3])
		if err != nil {
			return "", false
		}
		in = b
	}
	return dprogObs(ws[1], ws[2] == "f", in), true
}

func emitDprog(o *hlib.Out, op, obs string, mutated bool) {
	o.Stat("dprog_cases", 1)
	cls, _, _ := strings.Cut(obs, " ")
	if i := strings.IndexByte(cls, ':'); i >= 0 && strings.HasPrefix(cls, "panic") {
		cls = "panic"
	}
	o.Stat("dprog_class_"+cls, 1)
	if mutated {
		h := sha1.Sum([]byte(op))
		o.Class("dprog:" + hex.EncodeToString(h[:8]))
	}
	o.Case(op, obs)
}

func dprogRun(o *hlib.Out, seed uint64, thorough bool) {
	mod := 1 // the whole family of these small inputs costs about a second
	_ = thorough
	for _, format := range dprogFormats {
		if _, err := interp.DefaultRegistry.Group(format); err != nil {
			continue
		}
		seen := map[string]bool{}
		for bi, base := range dprogBases(format) {
			o.Stat("dprog_bases", 1)
			for _, m := range enumFamily(len(base)) {
				for _, force := range []bool{false, true} {
					if !selected(seed, mod, fmt.Sprintf("dprog-base-%d", bi), format, force, m) {
						continue
					}
					in, err := applyMut(base, m)
					if err != nil || len(in) > 8192 {
						continue
					}
					hx := hex.EncodeToString(in)
					if hx == "" {
						hx = "-"
					}
					op := "dprog " + format + " " + forceStr(force) + " " + hx
					if seen[op] {
						continue
					}
					seen[op] = true
					obs, _ := runDprogOp(op)
					emitDprog(o, op, obs, m != "id")
					if m == "id" && len(op)+len(obs) < 400 {
						o.Sample(op + " => " + obs)
					}
				}
			}
		}
	}
}
