//go:build verif

// C06 harness — the finite mutation family of the property.
//
// For a base input of n bytes (a corpus file, or its first 64 KiB) the family is the ORDERED list
// produced by enumFamily(n); a member is named by a descriptor that is applied by applyMut:
//
//	id                    the unchanged input
//	t<k>                  truncation to k bytes: every k in [0, min(n-1,512)], then every 61st, then the last 8 lengths
//	o<off>:<hh>           one byte overwritten with hh in {00,01,7f,80,ff}: every off < 256, then every 61st
//	                      (a value equal to the original byte is still a member: it is the identity on that file)
//	b<bit>                one bit flipped, every bit of the first 64 bytes
//	s<w>:<off>:<p>        an aligned w-byte window (w in {2,4,8}, off%w==0) saturated with pattern p:
//	                      ff = ff..ff, 7f = 7fff..ff (max signed, big endian), l7 = ff..ff7f (max signed, little
//	                      endian), 00 = 00..00; every aligned window of the first 1 KiB, then every 488 bytes
//	dup<bs>:<blk>         block blk of bs bytes (bs in {16,512}) duplicated in place
//	del<bs>:<blk>         block blk removed; 512: every block; 16: every block of the first 4 KiB, then every 61st
//	rep<w>:<off>:300      the w bytes (w in 1..4) at off (< 8) repeated 300 times in place: block duplication taken
//	                      far enough to nest a self-recursive decoder several hundred levels deep
//
// Not part of the length-determined list (they need the decode tree of the unchanged file, see the `fields`
// job in worker.go) but applied by applyMut as well:
//
//	runz:<off>:<len>      a long run: len bytes 00 inserted at byte offset off (runo: bytes ff) — lengths at and
//	                      just beyond internal buffer sizes (512, 4096, 32768, 65536, 524288), `runs` job
//	v<bit>:<nbits>:<value>:<be|le|ss>   a 16/24/32-bit field set to a value (big endian, little endian, or
//	                      ID3-style syncsafe 7 bits per byte): a length field made to cover an appended long run
//	<m1>+<m2>             m1 then m2 (used as `runz:<end>:<len+16>+v…`: append zeros, then point a length field at them)
//	y<off>:<8 hex>        the 4 bytes at off replaced by a 4-character type string (box / chunk / atom type
//	                      substitution: every 4-character string literal of the format's Go source, `types` job)
//	f<bit>:<nbits>:<p>    the nbits (<= 64) of one decoded leaf field replaced: z = 0..0 (zero size/count),
//	                      o = 1..1, 1 = 0..01, m = 10..0 (EBML zero size / sign bit), s = 01..1 (max signed)
//
//	cb:<carrier>:<hdr>:<fill>:<len>:<off>.<hex>,…   a GENERATED input (base `gen:cb`, not used): a payload of len filler
//	                      bytes with patterns written at the offsets, wrapped so that the carrier's decoder reads it
//	                      through its stream-transforming io.Reader — the `chunk` jobs of chunks.go
//
// The list depends only on n, so that `(path, index range, seed, modulus)` names a reproducible batch.
package main

import (
	"encoding/hex"
	"fmt"
	"strconv"
	"strings"
)

const (
	maxWhole    = 100 << 10 // files up to this size are used whole
	prefixLarge = 64 << 10  // larger ones by their first 64 KiB
)

var overwriteVals = []byte{0x00, 0x01, 0x7f, 0x80, 0xff}
var satPatterns = []string{"ff", "7f", "l7", "00"}

func enumFamily(n int) []string {
	var ms []string
	ms = append(ms, "id")
	// truncations
	lastFull := n - 1
	if lastFull > 512 {
		lastFull = 512
	}
	for k := 0; k <= lastFull; k++ {
		ms = append(ms, "t"+strconv.Itoa(k))
	}
	for k := 512 + 61; k < n-8; k += 61 {
		ms = append(ms, "t"+strconv.Itoa(k))
	}
	for k := n - 8; k < n; k++ {
		if k > 512 {
			ms = append(ms, "t"+strconv.Itoa(k))
		}
	}
	// byte overwrites
	for off := 0; off < n; {
		for _, v := range overwriteVals {
			ms = append(ms, fmt.Sprintf("o%d:%02x", off, v))
		}
		if off < 255 {
			off++
		} else {
			off += 61
		}
	}
	// bit flips
	nb := n
	if nb > 64 {
		nb = 64
	}
	for b := 0; b < nb*8; b++ {
		ms = append(ms, "b"+strconv.Itoa(b))
	}
	// saturation of aligned windows
	for _, w := range []int{2, 4, 8} {
		for off := 0; off+w <= n; {
			for _, p := range satPatterns {
				ms = append(ms, fmt.Sprintf("s%d:%d:%s", w, off, p))
			}
			if off+w < 1024 {
				off += w
			} else {
				off += 488
			}
		}
	}
	// block duplication / removal
	for _, bs := range []int{16, 512} {
		nblk := (n + bs - 1) / bs
		for blk := 0; blk < nblk; {
			ms = append(ms, fmt.Sprintf("dup%d:%d", bs, blk), fmt.Sprintf("del%d:%d", bs, blk))
			if bs == 512 || blk < 255 {
				blk++
			} else {
				blk += 61
			}
		}
	}
	for w := 1; w <= 4; w++ {
		for off := 0; off < 8 && off+w <= n; off++ {
			ms = append(ms, fmt.Sprintf("rep%d:%d:300", w, off))
		}
	}
	return ms
}

// mutKind is the family branch of a descriptor (statistics and class keys)
func mutKind(m string) string {
	switch {
	case strings.HasPrefix(m, "cb:"):
		return "chunk"
	case strings.Contains(m, "+"):
		return "runlen"
	case strings.HasPrefix(m, "run"):
		return "run"
	case m[0] == 'v':
		return "value"
	case m == "id":
		return "id"
	case strings.HasPrefix(m, "dup"):
		return "dup"
	case strings.HasPrefix(m, "del"):
		return "del"
	case strings.HasPrefix(m, "rep"):
		return "rep"
	case m[0] == 'f':
		return "field"
	case m[0] == 'y':
		return "type"
	case m[0] == 't':
		return "trunc"
	case m[0] == 'o':
		return "byte"
	case m[0] == 'b':
		return "bit"
	case m[0] == 's':
		return "sat"
	case m[0] == 'x':
		return "hex"
	}
	return "?"
}

// applyMut returns the mutated input (always a fresh slice). Descriptors outside the family
// (`x<hex>`: replace the whole input, used by minimised corpus cases) are accepted too.
func applyMut(base []byte, m string) ([]byte, error) {
	bad := func() ([]byte, error) { return nil, fmt.Errorf("bad mutation %q for %d bytes", m, len(base)) }
	n := len(base)
	if strings.HasPrefix(m, "cb:") { // a generated chunk-boundary input (chunks.go): the base is not used
		return buildCB(m)
	}
	if i := strings.IndexByte(m, '+'); i > 0 {
		b1, err := applyMut(base, m[:i])
		if err != nil {
			return nil, err
		}
		return applyMut(b1, m[i+1:])
	}
	switch {
	case m == "id":
		return append([]byte{}, base...), nil
	case strings.HasPrefix(m, "dup") || strings.HasPrefix(m, "del"):
		ps := strings.Split(m[3:], ":")
		if len(ps) != 2 {
			return bad()
		}
		bs, e1 := strconv.Atoi(ps[0])
		blk, e2 := strconv.Atoi(ps[1])
		if e1 != nil || e2 != nil || bs <= 0 || blk < 0 || blk*bs >= n {
			return bad()
		}
		lo, hi := blk*bs, blk*bs+bs
		if hi > n {
			hi = n
		}
		out := make([]byte, 0, n+bs)
		if m[1] == 'u' {
			out = append(out, base[:hi]...)
			out = append(out, base[lo:hi]...)
			out = append(out, base[hi:]...)
		} else {
			out = append(out, base[:lo]...)
			out = append(out, base[hi:]...)
		}
		return out, nil
	case strings.HasPrefix(m, "runz:") || strings.HasPrefix(m, "runo:"):
		ps := strings.Split(m[5:], ":")
		if len(ps) != 2 {
			return bad()
		}
		off, e1 := strconv.Atoi(ps[0])
		ln, e2 := strconv.Atoi(ps[1])
		if e1 != nil || e2 != nil || off < 0 || off > n || ln < 1 || ln > 1<<20 {
			return bad()
		}
		out := make([]byte, n+ln)
		copy(out, base[:off])
		if m[3] == 'o' {
			for i := off; i < off+ln; i++ {
				out[i] = 0xff
			}
		}
		copy(out[off+ln:], base[off:])
		return out, nil
	case m[0] == 'v':
		ps := strings.Split(m[1:], ":")
		if len(ps) != 4 {
			return bad()
		}
		bit, e1 := strconv.Atoi(ps[0])
		nb, e2 := strconv.Atoi(ps[1])
		val, e3 := strconv.ParseUint(ps[2], 10, 64)
		if e1 != nil || e2 != nil || e3 != nil || bit < 0 || bit%8 != 0 || (nb != 16 && nb != 24 && nb != 32) || bit+nb > n*8 {
			return bad()
		}
		out := append([]byte{}, base...)
		nBytes := nb / 8
		for i := 0; i < nBytes; i++ {
			var bv byte
			switch ps[3] {
			case "be":
				bv = byte(val >> (8 * (nBytes - 1 - i)))
			case "le":
				bv = byte(val >> (8 * i))
			case "ss":
				bv = byte(val>>(7*(nBytes-1-i))) & 0x7f
			default:
				return bad()
			}
			out[bit/8+i] = bv
		}
		return out, nil
	case strings.HasPrefix(m, "rep"):
		ps := strings.Split(m[3:], ":")
		if len(ps) != 3 {
			return bad()
		}
		w, e1 := strconv.Atoi(ps[0])
		off, e2 := strconv.Atoi(ps[1])
		cnt, e3 := strconv.Atoi(ps[2])
		if e1 != nil || e2 != nil || e3 != nil || w <= 0 || off < 0 || off+w > n || cnt < 1 || cnt > 100000 {
			return bad()
		}
		out := make([]byte, 0, n+w*cnt)
		out = append(out, base[:off]...)
		for i := 0; i < cnt; i++ {
			out = append(out, base[off:off+w]...)
		}
		out = append(out, base[off+w:]...)
		return out, nil
	case m[0] == 'y':
		ps := strings.Split(m[1:], ":")
		if len(ps) != 2 {
			return bad()
		}
		off, e1 := strconv.Atoi(ps[0])
		tb, e2 := hex.DecodeString(ps[1])
		if e1 != nil || e2 != nil || len(tb) != 4 || off < 0 || off+4 > n {
			return bad()
		}
		out := append([]byte{}, base...)
		copy(out[off:], tb)
		return out, nil
	case m[0] == 'f':
		ps := strings.Split(m[1:], ":")
		if len(ps) != 3 {
			return bad()
		}
		bit, e1 := strconv.Atoi(ps[0])
		nb, e2 := strconv.Atoi(ps[1])
		if e1 != nil || e2 != nil || bit < 0 || nb < 1 || nb > 64 || bit+nb > n*8 {
			return bad()
		}
		out := append([]byte{}, base...)
		for i := 0; i < nb; i++ {
			var v bool
			switch ps[2] {
			case "z":
				v = false
			case "o":
				v = true
			case "1":
				v = i == nb-1
			case "m":
				v = i == 0
			case "s":
				v = i != 0
			default:
				return bad()
			}
			b := bit + i
			if v {
				out[b/8] |= 0x80 >> (b % 8)
			} else {
				out[b/8] &^= 0x80 >> (b % 8)
			}
		}
		return out, nil
	case m[0] == 't':
		k, err := strconv.Atoi(m[1:])
		if err != nil || k < 0 || k > n {
			return bad()
		}
		return append([]byte{}, base[:k]...), nil
	case m[0] == 'o':
		ps := strings.Split(m[1:], ":")
		if len(ps) != 2 {
			return bad()
		}
		off, e1 := strconv.Atoi(ps[0])
		hb, e2 := hex.DecodeString(ps[1])
		if e1 != nil || e2 != nil || len(hb) != 1 || off < 0 || off >= n {
			return bad()
		}
		out := append([]byte{}, base...)
		out[off] = hb[0]
		return out, nil
	case m[0] == 'b':
		b, err := strconv.Atoi(m[1:])
		if err != nil || b < 0 || b/8 >= n {
			return bad()
		}
		out := append([]byte{}, base...)
		out[b/8] ^= 0x80 >> (b % 8)
		return out, nil
	case m[0] == 's':
		ps := strings.Split(m[1:], ":")
		if len(ps) != 3 {
			return bad()
		}
		w, e1 := strconv.Atoi(ps[0])
		off, e2 := strconv.Atoi(ps[1])
		if e1 != nil || e2 != nil || w <= 0 || off < 0 || off+w > n {
			return bad()
		}
		out := append([]byte{}, base...)
		for i := 0; i < w; i++ {
			switch ps[2] {
			case "ff":
				out[off+i] = 0xff
			case "00":
				out[off+i] = 0
			case "7f":
				out[off+i] = 0xff
				if i == 0 {
					out[off+i] = 0x7f
				}
			case "l7":
				out[off+i] = 0xff
				if i == w-1 {
					out[off+i] = 0x7f
				}
			default:
				return bad()
			}
		}
		return out, nil
	case m[0] == 'x':
		if m == "x-" {
			return []byte{}, nil
		}
		b, err := hex.DecodeString(m[1:])
		if err != nil {
			return bad()
		}
		return b, nil
	}
	return bad()
}

// selected: the seeded 1/mod sample of the family (mod <= 1: everything).
func selected(seed uint64, mod int, path, format string, force bool, m string) bool {
	if mod <= 1 || m == "id" {
		return true
	}
	h := seed*0x9e3779b97f4a7c15 + 0x1234567
	mix := func(s string) {
		for i := 0; i < len(s); i++ {
			h ^= uint64(s[i])
			h *= 0x100000001b3
		}
		h ^= 0xff
		h *= 0x100000001b3
	}
	mix(path)
	mix(format)
	if force {
		mix("f")
	} else {
		mix("n")
	}
	mix(m)
	h ^= h >> 29
	h *= 0xbf58476d1ce4e5b9
	h ^= h >> 32
	return h%uint64(mod) == 0
}
