//go:build verif

// C06 harness — "no input makes a decoder crash fq".
//
// Parent process: lists the corpus (format/**/testdata), maps every file to its own formats,
// cuts the mutation family (family.go) into batch jobs and runs them in worker sub-processes
// (worker.go: this executable re-executed with -worker; memory limit, per-case watchdog). A
// worker that dies has its job re-run one case at a time so that the culprit is named.
//
// Lines written for the Lean driver (Drv/C06.lean):
//
//	batch <path> <format> <f|n> <seed> <mod> <lo> <hi>  TAB  cases=<n> <obs>@<kind>*<count> ...
//	allfmt <path> <mut> <f|n>                           TAB  cases=<n> …    (one input with every format and probe)
//	types <path> <format> <f|n> <seed> <mod> <dir> <max> TAB  cases=<n> …    (type-string substitution, see worker.go)
//	runs <path> <format> <f|n> <seed> <mod> <lens> <max>  TAB  cases=<n> …    (long runs, see worker.go)
//	fields <path> <format> <f|n> <seed> <mod> <max> <pats> TAB  cases=<n> …    (field-aware saturation, see worker.go)
//	near <path> <format> <f|n> <seed> <mod> <max>        TAB  cases=<n> …    (directed search: bytes the decoder read, see sites.go)
//	chunk <carrier> <format> <f|n> <seed> <mod> <level> <k> <extra> TAB cases=<n> … (chunk-boundary family, see chunks.go)
//	rd <nal|unsync> <stale> <hex> <plen/c,…>             TAB  <n>:<hex>,…      (the reader's Read driven call by call, chunks.go)
//	rdall <nal|unsync> <fill> <len> <off.hex,…>          TAB  <plen/n,…> <len>:<fnv>  (… between IOReader and bytes.Buffer.ReadFrom)
//	dprog <format> <f|n> <hex>                           TAB  <class> <leaves>  (DProg correspondence, see dprog.go)
//	d|i <path> <mut> <format> <f|n>                     TAB  <obs>          (every panic / resource case, every `i` case, replays)
//	core <prim> <arg> <buf bytes> <pos bits> <f|n>      TAB  ok | err:io | err:decoder | panic:… | resource:…
//
// <obs> of a decode: tree/<n>/<k>/<i>/<v> | error/<n>/<k>/<i>/<v> | panic:<fmt pkg>:<function>:<kind> | resource:<why>
package main

import (
	"bufio"
	"flag"
	"fmt"
	"os"
	"path/filepath"
	"reflect"
	"runtime"
	"sort"
	"strconv"
	"strings"
	"time"

	_ "github.com/wader/fq/format/all"
	"github.com/wader/fq/internal/verifharness/hlib"
	"github.com/wader/fq/pkg/decode"
	"github.com/wader/fq/pkg/interp"
)

type corpusFile struct {
	path string // relative to the repository
	dir  string // format/<dir>/…
	size int    // bytes used (after the 64 KiB cut)
	own  []string
	seed bool // a generated seed of /verif/corpus/C06/seeds: always used
}

func allFormatNames() []string {
	var names []string
	for _, f := range interp.DefaultRegistry.MustAll().Formats {
		names = append(names, f.Name)
	}
	sort.Strings(names)
	return names
}

// formatPkgDir: the directory below format/ of the package that defines a format's DecodeFn
func formatPkgDir(f *decode.Format) string {
	if f.DecodeFn == nil {
		return ""
	}
	fn := runtime.FuncForPC(reflect.ValueOf(f.DecodeFn).Pointer())
	if fn == nil {
		return ""
	}
	n := strings.TrimPrefix(fn.Name(), fqMod+"format/")
	if i := strings.IndexByte(n, '.'); i >= 0 {
		n = n[:i]
	}
	return n
}

// listCorpus: every regular file below a testdata directory of /repo/format that is not a test
// script; own formats = formats the suite itself decodes the file with (`$ fq -d F … file` lines
// of the .fqtest files next to it) + formats named like the directory + (added by the caller) what probe says.
func listCorpus() []corpusFile {
	root := filepath.Join(repoDir(), "format")
	names := allFormatNames()
	isFormat := map[string]bool{}
	for _, n := range names {
		isFormat[n] = true
	}
	fromTests := map[string]map[string]bool{}
	var files []corpusFile
	_ = filepath.Walk(root, func(p string, info os.FileInfo, err error) error {
		if err != nil || info.IsDir() {
			return nil
		}
		rel, _ := filepath.Rel(repoDir(), p)
		if !strings.Contains(rel, "/testdata/") {
			return nil
		}
		if strings.HasSuffix(rel, ".fqtest") {
			dir := filepath.Dir(p)
			f, err := os.Open(p)
			if err != nil {
				return nil
			}
			sc := bufio.NewScanner(f)
			sc.Buffer(make([]byte, 1<<20), 1<<26)
			for sc.Scan() {
				l := sc.Text()
				if !strings.HasPrefix(l, "$ fq ") {
					continue
				}
				ws := strings.Fields(l)
				format := ""
				for i, w := range ws {
					if w == "-d" && i+1 < len(ws) && isFormat[ws[i+1]] {
						format = ws[i+1]
					}
				}
				if format == "" {
					continue
				}
				for _, w := range ws[2:] {
					w = strings.Trim(w, `"'`)
					if w == "" || strings.HasPrefix(w, "-") {
						continue
					}
					cand := filepath.Join(dir, w)
					if st, err := os.Stat(cand); err == nil && !st.IsDir() {
						r, _ := filepath.Rel(repoDir(), cand)
						if fromTests[r] == nil {
							fromTests[r] = map[string]bool{}
						}
						fromTests[r][format] = true
					}
				}
			}
			f.Close()
			return nil
		}
		if strings.HasSuffix(rel, ".md") || strings.ContainsAny(rel, " \t|@#") || info.Size() == 0 || !info.Mode().IsRegular() {
			return nil
		}
		size := int(info.Size())
		if size > maxWhole {
			size = prefixLarge
		}
		files = append(files, corpusFile{path: rel, dir: strings.Split(rel, "/")[1], size: size})
		return nil
	})
	// generated seed inputs kept in /verif/corpus/C06/seeds/<format>__<name>: structures that no sample of
	// the repository has (e.g. a JPEG with extended XMP chunks); always used, own format = <format>
	seedDir := filepath.Join(verifDir(), "corpus", "C06", "seeds")
	if ents, err := os.ReadDir(seedDir); err == nil {
		for _, e := range ents {
			name := e.Name()
			i := strings.Index(name, "__")
			info, err := e.Info()
			if e.IsDir() || i <= 0 || !isFormat[name[:i]] || err != nil || info.Size() == 0 || strings.ContainsAny(name, " \t|@#") {
				continue
			}
			size := int(info.Size())
			if size > maxWhole {
				size = prefixLarge
			}
			fmtName := name[:i]
			dir := fmtName
			for _, f := range interp.DefaultRegistry.MustAll().Formats {
				if f.Name == fmtName {
					if d := formatPkgDir(f); d != "" {
						dir = strings.Split(d, "/")[0]
					}
				}
			}
			fromTests["@corpus/C06/seeds/"+name] = map[string]bool{fmtName: true}
			files = append(files, corpusFile{path: "@corpus/C06/seeds/" + name, dir: dir, size: size, seed: true})
		}
	}
	for i := range files {
		f := &files[i]
		set := map[string]bool{}
		for n := range fromTests[f.path] {
			set[n] = true
		}
		if isFormat[f.dir] {
			set[f.dir] = true
		}
		for n := range set {
			f.own = append(f.own, n)
		}
		sort.Strings(f.own)
	}
	sort.Slice(files, func(i, j int) bool { return files[i].path < files[j].path })
	return files
}

type job struct {
	id   int
	text string
	size int // base size, for scheduling
	cross  bool   // a cross-format job (a foreign format on one of the 40 small files)
	directed bool // a job of the directed search (sites.go)
	format string
	// results
	lines    [][2]string // op, obs
	hist     map[string]int
	herr     string
	restarts int
	wall     time.Duration
	aborts   int
	memFatal int
}

type tierParams struct {
	perDir      int // corpus files per format directory (seeded choice), 0 = all
	modOwn      int // 1/mod sample of the family for own formats and probe
	modCross    int // … for the cross-format runs of the 40 smallest files
	fullBelow   int // thorough: files up to this size get the whole family (mod 1) for own formats and probe
	chunk       int // selected cases per batch job (expected)
	interpEvery int
	modFields   int  // 1/mod sample of the field-aware saturation (fields jobs) of own formats
	maxFields   int  // leaf fields considered per (file, format)
	pairSeeds   bool // deep-nesting seeds also from two-byte patterns
	fieldPats   string
	modTypes    int // 1/mod sample of the type-string substitution
	typesUnit   int
	maxTypes    int // cases per types job
	modRuns     int
	runsUnit    int
	runLens     string // lengths of the long runs
	runFields   int    // header fields tried as size fields per (file, format)
	fieldsUnit  int // bytes of file size per unit of the fields sampling modulus
	thorough    bool
}

func genJobs(r *hlib.Rand, seed uint64, tp tierParams, o *hlib.Out, workDir string, sitesCh chan sitesResult) []*job {
	files := listCorpus()
	o.Stat("corpus_files_total", len(files))
	byDir := map[string][]int{}
	for i, f := range files {
		byDir[f.dir] = append(byDir[f.dir], i)
	}
	dirs := make([]string, 0, len(byDir))
	for d := range byDir {
		dirs = append(dirs, d)
	}
	sort.Strings(dirs)
	var chosen []int
	for _, d := range dirs {
		ix := append([]int(nil), byDir[d]...)
		for i := len(ix) - 1; i > 0; i-- {
			k := r.Intn(i + 1)
			ix[i], ix[k] = ix[k], ix[i]
		}
		if tp.perDir > 0 && len(ix) > tp.perDir {
			keep := ix[:tp.perDir:tp.perDir]
			for _, i := range ix[tp.perDir:] {
				if files[i].seed {
					keep = append(keep, i)
				}
			}
			ix = keep
		}
		sort.Ints(ix)
		chosen = append(chosen, ix...)
	}
	o.Stat("corpus_files_used", len(chosen))
	// what probe says about the unchanged file is one of its own formats too (asked in a worker:
	// some corpus files, e.g. zip/testdata/bigzero-zip.zip, take half a minute to decode)
	var pj []*job
	for k, i := range chosen {
		pj = append(pj, &job{id: k, text: "probe " + files[i].path})
	}
	runPool(pj, workDir)
	for k, i := range chosen {
		f := &files[i]
		for _, l := range pj[k].lines {
			name := l[1]
			if !strings.HasPrefix(l[0], "probe ") || name == "-" || strings.Contains(name, ":") {
				if strings.HasPrefix(name, "resource:") {
					o.Stat("corpus_files_probe_resource", 1)
				}
				continue
			}
			has := false
			for _, n := range f.own {
				has = has || n == name
			}
			if !has {
				f.own = append(f.own, name)
				sort.Strings(f.own)
			}
		}
	}

	var jobs []*job
	add := func(f corpusFile, format string, mod int, cross bool) {
		// decode cost grows with the input: sample the (also larger) family of a big file more thinly
		if mod > 1 && f.size > 8192 {
			mod = mod * f.size / 8192
		}
		famN := len(enumFamilyCached(f.size))
		for _, force := range []bool{false, true} {
			mod := mod
			if force && format == "probe" && mod > 1 {
				// every format of the probe group in force mode on foreign bytes: format/caff then allocates
				// tens of GB from a 32-bit count and the worker has to be restarted; sampled four times thinner
				mod *= 4
			}
			chunk := tp.chunk * mod
			for lo := 0; lo < famN; lo += chunk {
				hi := lo + chunk
				if hi > famN {
					hi = famN
				}
				b := batchSpec{path: f.path, format: format, force: force, seed: seed, mod: mod, lo: lo, hi: hi}
				jobs = append(jobs, &job{text: b.String(), size: f.size, cross: cross, format: format})
			}
		}
	}
	for _, i := range chosen {
		f := files[i]
		mod := tp.modOwn
		if tp.fullBelow > 0 && f.size <= tp.fullBelow {
			mod = 1
		}
		for _, n := range f.own {
			add(f, n, mod, false)
		}
		add(f, "probe", mod, false)
	}
	// field-aware length saturation: every decoded leaf field of the unchanged file set to 0 / 1 / all ones /
	// sign bit only / max signed, for the file's own formats
	for _, i := range chosen {
		f := files[i]
		for _, n := range f.own {
			// like the batches: a big file costs more per decode and has more fields, sample it thinner
			mod := tp.modFields * max(1, f.size/tp.fieldsUnit)
			for _, force := range []string{"n", "f"} {
				jobs = append(jobs, &job{text: fmt.Sprintf("fields %s %s %s %d %d %d %s", f.path, n, force, seed, mod, tp.maxFields, tp.fieldPats),
					size: f.size, format: n})
			}
		}
	}
	// long runs (see worker.go runRuns): runs of 00 / ff of buffer-size lengths at padding-like places, and size
	// fields pointed at an appended run of zeros
	for _, i := range chosen {
		f := files[i]
		for _, n := range f.own {
			mod := tp.modRuns * max(1, f.size/tp.runsUnit)
			for _, force := range []string{"n", "f"} {
				jobs = append(jobs, &job{text: fmt.Sprintf("runs %s %s %s %d %d %s %d", f.path, n, force, seed, mod, tp.runLens, tp.runFields), size: f.size, format: n})
			}
		}
	}
	// type-string substitution: every place of the unchanged file that holds a 4-character string literal of
	// the format's Go source (box / chunk / atom types …) gets every other such literal
	fmtDir := map[string]string{}
	for _, f := range interp.DefaultRegistry.MustAll().Formats {
		fmtDir[f.Name] = formatPkgDir(f)
	}
	for _, i := range chosen {
		f := files[i]
		for _, n := range f.own {
			dir := fmtDir[n]
			if dir == "" {
				continue
			}
			mod := tp.modTypes * max(1, f.size/tp.typesUnit)
			for _, force := range []string{"n", "f"} {
				jobs = append(jobs, &job{text: fmt.Sprintf("types %s %s %s %d %d %s %d", f.path, n, force, seed, mod, dir, tp.maxTypes), size: f.size, format: n})
			}
		}
	}
	// deep nesting seeds: one byte (thorough: also byte pairs with a boundary value) repeated 300 times, with
	// every format and probe, force on and off; a case whose error is raised deeper than the 256 captured
	// stack frames is repeated through the interpreter path (error rendering: `._error`, dv)
	var pats []string
	for a := 0; a < 256; a++ {
		pats = append(pats, fmt.Sprintf("%02x", a))
	}
	if tp.pairSeeds {
		for a := 0; a < 256; a++ {
			for _, b := range overwriteVals {
				pats = append(pats, fmt.Sprintf("%02x%02x", a, b), fmt.Sprintf("%02x%02x", b, a))
			}
		}
	}
	for _, p := range pats {
		for _, force := range []string{"n", "f"} {
			jobs = append(jobs, &job{text: "allfmt gen:rep:" + p + ":300 id " + force, size: 300})
		}
	}
	o.Stat("nesting_seed_patterns", len(pats))
	// every other format for the 40 smallest files (>= 32 bytes, at most 3 per directory so that they differ)
	small := append([]int(nil), chosen...)
	sort.SliceStable(small, func(a, b int) bool { return files[small[a]].size < files[small[b]].size })
	perDir := map[string]int{}
	nSmall := 0
	names := allFormatNames()
	for _, i := range small {
		f := files[i]
		if f.size < 32 || perDir[f.dir] >= 3 {
			continue
		}
		perDir[f.dir]++
		nSmall++
		own := map[string]bool{}
		for _, n := range f.own {
			own[n] = true
		}
		for _, n := range names {
			if !own[n] {
				add(f, n, tp.modCross, true)
			}
		}
		if nSmall == 40 {
			break
		}
	}
	o.Stat("cross_format_files", nSmall)
	o.Stat("formats_registered", len(names))
	// regenerated fault-site table against the committed baseline: directed search for the formats of changed packages
	readersChanged := map[string][]string{} // package -> byte constants of its changed Read methods
	if sitesCh != nil {
		res := <-sitesCh
		if res.err != nil {
			fmt.Fprintf(os.Stderr, "c06: site extractor failed: %v\n", res.err)
			o.Case("sites extractor", "badcase:site-extractor-failed")
		} else {
			nsites, free := 0, 0
			for _, r := range res.rows {
				nsites += r.Own
				if r.Total == 0 {
					free += len(r.Formats)
				}
			}
			o.Stat("sites_packages", len(res.rows))
			o.Stat("sites_total", nsites)
			o.Stat("sites_free_formats", free)
			changed, err := changedSitePackages(res.rows)
			if err != nil {
				fmt.Fprintf(os.Stderr, "c06: site baseline: %v\n", err)
				o.Case("sites baseline", "badcase:site-baseline-unreadable")
			}
			rc, err2 := changedReaderPackages(res.rows)
			if err2 != nil {
				fmt.Fprintf(os.Stderr, "c06: site baseline: %v\n", err2)
			}
			nreaders := 0
			for _, r := range res.rows {
				nreaders += len(r.Readers)
			}
			o.Stat("sites_reader_methods", nreaders)
			for _, r := range rc {
				readersChanged[r.Pkg] = r.ReaderBytes
				o.Stat("readers_changed:"+r.Pkg, 1)
				o.Sample("reader sites changed: " + r.Pkg + " " + strings.Join(r.Readers, ",") + " => directed chunk-boundary search")
				fmt.Fprintf(os.Stderr, "c06: sites inside the Read methods of %s changed (%v): directed chunk-boundary search\n", r.Pkg, r.Readers)
				known := false
				for _, c := range carriers {
					known = known || c.pkg == r.Pkg
				}
				if !known {
					// an io.Reader the harness has no carrier for: said loudly; the package's formats still get the
					// ordinary directed search below (its closure hash changed too)
					o.Stat("readers_changed_without_carrier:"+r.Pkg, 1)
					fmt.Fprintf(os.Stderr, "c06: NOTE no chunk-boundary carrier is defined for the readers of %s (harness/cmd/c06/chunks.go `carriers`)\n", r.Pkg)
				}
			}
			var fmts, pk []string
			for _, c := range changed {
				fmts = append(fmts, c.Formats...)
				pk = append(pk, c.Pkg)
				o.Stat("sites_changed:"+c.Pkg, 1)
			}
			o.Stat("sites_changed_packages", len(changed))
			o.Stat("directed_formats", len(fmts))
			if len(changed) > 0 {
				fmt.Fprintf(os.Stderr, "c06: site table changed for %v: directed search on %v\n", pk, fmts)
				o.Sample("sites_changed: " + strings.Join(pk, ",") + " => directed search on " + strings.Join(fmts, ","))
				dj := directedJobs(files, fmts, seed, tp, o)
				o.Stat("directed_jobs", len(dj))
				jobs = append(jobs, dj...)
			}
		}
	}
	// chunk-boundary family (chunks.go): always; denser for the packages whose Read methods changed
	cj := chunkJobs(seed, tp.thorough, readersChanged)
	o.Stat("chunk_jobs", len(cj))
	jobs = append(jobs, cj...)
	sort.SliceStable(jobs, func(a, b int) bool { return jobs[a].size > jobs[b].size })
	return jobs
}

var famCache = map[int][]string{}

func enumFamilyCached(n int) []string {
	if f, ok := famCache[n]; ok {
		return f
	}
	f := enumFamily(n)
	famCache[n] = f
	return f
}

func classOf(obs string) string {
	switch {
	case strings.HasPrefix(obs, "tree"), obs == "ok":
		return "tree"
	case strings.HasPrefix(obs, "partial"):
		return "partial"
	case strings.HasPrefix(obs, "error"), strings.HasPrefix(obs, "err:"):
		return "error"
	case strings.HasPrefix(obs, "panic:"):
		return "panic"
	case strings.HasPrefix(obs, "resource:"):
		return "resource"
	}
	return "bad"
}

func emit(o *hlib.Out, jobs []*job) {
	panics := map[string]int{}
	for _, j := range jobs {
		if j.herr != "" {
			o.Stat("harness_job_errors", 1)
			fmt.Fprintf(os.Stderr, "c06: job %q: %s\n", j.text, j.herr)
			o.Case(j.text, "badcase:"+strings.ReplaceAll(j.herr, " ", "-"))
		}
		if j.restarts > 0 {
			o.Stat("worker_restarts", j.restarts)
		}
		if isMulti(j.text) {
			keys := make([]string, 0, len(j.hist))
			n, mutated := 0, 0
			for k, c := range j.hist {
				keys = append(keys, k)
				n += c
			}
			sort.Strings(keys)
			var sb strings.Builder
			fmt.Fprintf(&sb, "cases=%d", n)
			for _, k := range keys {
				fmt.Fprintf(&sb, " %s*%d", k, j.hist[k])
				obs, kind, _ := strings.Cut(k, "@")
				c := classOf(obs)
				o.Stat("decodes", j.hist[k])
				if j.directed {
					o.Stat("directed_decodes", j.hist[k])
				}
				o.Stat("class_"+c, j.hist[k])
				o.Stat("kind_"+kind, j.hist[k])
				if kind != "id" {
					mutated += j.hist[k]
				}
			}
			if mutated > 0 {
				o.Class(j.text) // a batch line with at least one mutated input is one distinct non-trivial case
			}
			o.Case(j.text, sb.String())
			if n > 0 && j.id%97 == 0 {
				o.Sample(j.text + " => " + sb.String())
			}
		}
		for _, l := range j.lines {
			op, obs := l[0], l[1]
			c := classOf(obs)
			switch {
			case strings.HasPrefix(op, "core "):
				o.Stat("core_cases", 1)
				o.Stat("core_class_"+c, 1)
				if !strings.HasPrefix(op, "core ok ") {
					o.Class(op)
				}
			case strings.HasPrefix(op, "skip "):
				o.Stat("batch_jobs_abandoned_resource", 1)
			case strings.HasPrefix(op, "i "):
				o.Stat("interp_runs", 1)
				o.Stat("interp_class_"+c, 1)
			default:
				o.Stat("decodes", 1)
				if j.directed {
					o.Stat("directed_decodes", 1)
				}
				o.Stat("class_"+c, 1)
			}
			if ws := strings.Fields(op); len(ws) == 5 && (ws[0] == "d" || ws[0] == "i") && ws[2] != "id" {
				o.Class(op)
			}
			if c == "panic" {
				key := strings.TrimPrefix(obs, "panic:")
				if panics[key] == 0 {
					o.Sample(op + " => " + obs)
				}
				panics[key]++
			}
			if c == "resource" {
				fmt.Fprintf(os.Stderr, "c06: resource: %s => %s\n", op, obs)
			}
			o.Case(op, obs)
		}
	}
	keys := make([]string, 0, len(panics))
	for k := range panics {
		keys = append(keys, k)
	}
	sort.Strings(keys)
	for _, k := range keys {
		fmt.Fprintf(os.Stderr, "c06: panic key %s: %d cases\n", k, panics[k])
	}
	o.Stat("distinct_panic_keys", len(keys))
}

func main() {
	worker := flag.Bool("worker", false, "internal: worker process")
	count := flag.Bool("count", false, "print the size of the family per tier and exit")
	only := flag.String("only", "", "developer: restrict bulk jobs to paths containing this")
	updBase := flag.Bool("update-sites-baseline", false, "write corpus/C06/sites_baseline.json from the repository's current site table and exit")
	dprogOnly := flag.Bool("dprog-only", false, "developer: only the DProg correspondence run")
	emitOp := flag.String("emit", "", "write the input bytes of a `d <path> <mut> <format> <f|n>` op to -emit-to and exit")
	emitTo := flag.String("emit-to", "", "output file of -emit")
	cfg := hlib.ParseFlags()
	if *worker {
		workerMain()
		return
	}
	if *emitOp != "" {
		c, err := parseCase(*emitOp)
		if err != nil || c.kind == "core" {
			fmt.Fprintln(os.Stderr, "bad op")
			os.Exit(2)
		}
		base, err := readBase(c.path)
		if err != nil {
			fmt.Fprintln(os.Stderr, err)
			os.Exit(2)
		}
		b, err := applyMut(base, c.mut)
		if err != nil {
			fmt.Fprintln(os.Stderr, err)
			os.Exit(2)
		}
		if err := os.WriteFile(*emitTo, b, 0o644); err != nil {
			fmt.Fprintln(os.Stderr, err)
			os.Exit(2)
		}
		return
	}
	if *updBase {
		res := <-startSitesExtractor()
		if res.err == nil {
			res.err = writeSitesBaseline(res.rows)
		}
		if res.err != nil {
			fmt.Fprintln(os.Stderr, res.err)
			os.Exit(2)
		}
		fmt.Println("wrote", baselinePath())
		return
	}
	o := hlib.NewOut(cfg.Out)
	defer o.Close()
	workDir := os.Getenv("VERIF_WORK")
	if workDir == "" {
		workDir, _ = os.MkdirTemp("", "c06")
	}

	var jobs []*job
	if cfg.Replay != "" {
		for _, l := range hlib.ReplayLines(cfg.Replay) {
			if strings.HasPrefix(l, "rd ") || strings.HasPrefix(l, "rdall ") { // read-chunk correspondence (chunks.go)
				obs, ok := "", false
				if strings.HasPrefix(l, "rd ") {
					obs, ok = runRdOp(l)
				} else {
					obs, ok = runRdallOp(l)
				}
				if !ok {
					obs = "badcase:parse"
				}
				emitRd(o, l, obs)
				continue
			}
			if strings.HasPrefix(l, "dprog ") { // DProg correspondence cases run in this process (dprog.go)
				obs, ok := runDprogOp(l)
				if !ok {
					obs = "badcase:parse"
				}
				emitDprog(o, l, obs, true)
				continue
			}
			jobs = append(jobs, &job{text: l})
		}
	} else {
		tp := tierParams{perDir: 12, modOwn: 50, modCross: 400, chunk: 300, modFields: 1, maxFields: 400, fieldPats: "zm", fieldsUnit: 1024, modTypes: 16, typesUnit: 4096, maxTypes: 400, modRuns: 1, runsUnit: 8192, runLens: "32768,65537", runFields: 12}
		if cfg.Thorough() {
			tp = tierParams{thorough: true, perDir: 60, modOwn: 6, modCross: 40, fullBelow: 400, chunk: 400, modFields: 1, maxFields: 2000, pairSeeds: true, fieldPats: "zo1ms", fieldsUnit: 1024, modTypes: 2, typesUnit: 8192, maxTypes: 3000, modRuns: 1, runsUnit: 16384, runLens: "4097,32768,32769,65537,524289", runFields: 12}
		}
		if v, err := strconv.Atoi(os.Getenv("VERIF_C06_MOD")); err == nil && v > 0 {
			tp.modOwn = v
		}
		if v, err := strconv.Atoi(os.Getenv("VERIF_C06_PERDIR")); err == nil && v >= 0 {
			tp.perDir = v
		}
		if v, err := strconv.Atoi(os.Getenv("VERIF_C06_FULLBELOW")); err == nil && v >= 0 {
			tp.fullBelow = v
		}
		if v, err := strconv.Atoi(os.Getenv("VERIF_C06_MODCROSS")); err == nil && v > 0 {
			tp.modCross = v
		}
		for _, c := range coreCases() {
			jobs = append(jobs, &job{text: c})
		}
		if !*count {
			dprogRun(o, cfg.Seed, cfg.Thorough())
			chunkCorrRun(o, cfg.Seed, cfg.Thorough())
		}
		if *dprogOnly {
			return
		}
		var sitesCh chan sitesResult
		if !*count && os.Getenv("VERIF_C06_NOSITES") == "" {
			sitesCh = startSitesExtractor()
		}
		bulk := genJobs(hlib.NewRand(cfg.Seed), cfg.Seed, tp, o, workDir, sitesCh)
		if *only != "" {
			var keep []*job
			for _, j := range bulk {
				if strings.Contains(j.text, *only) {
					keep = append(keep, j)
				}
			}
			bulk = keep
		}
		jobs = append(jobs, bulk...)
		if *count {
			total := 0
			for _, j := range bulk {
				if b, err := parseBatch(j.text); err == nil && b.mod > 0 {
					total += (b.hi - b.lo + b.mod - 1) / b.mod
				} else if strings.HasPrefix(j.text, "allfmt ") {
					total += len(allFormatGroups())
				}
			}
			fmt.Printf("jobs=%d expected_cases=%d\n", len(jobs), total)
			return
		}
	}
	for i, j := range jobs {
		j.id = i
	}
	o.Stat("jobs", len(jobs))
	t0 := time.Now()
	runPool(jobs, workDir)
	if os.Getenv("VERIF_C06_DEBUG") != "" {
		var sum time.Duration
		sl := append([]*job(nil), jobs...)
		for _, j := range sl {
			sum += j.wall
		}
		sort.Slice(sl, func(a, b int) bool { return sl[a].wall > sl[b].wall })
		fmt.Fprintf(os.Stderr, "c06: pool wall %v, sum of job walls %v\n", time.Since(t0), sum)
		for _, j := range sl[:min(40, len(sl))] {
			fmt.Fprintf(os.Stderr, "c06: slow job %v restarts=%d %s\n", j.wall, j.restarts, j.text)
		}
	}
	emit(o, jobs)
}
