//go:build verif

// C06 harness — worker pool of the parent process.
package main

import (
	"bufio"
	"fmt"
	"io"
	"os"
	"os/exec"
	"path/filepath"
	"strconv"
	"strings"
	"sync"
	"time"
)

type wproc struct {
	cmd     *exec.Cmd
	in      io.WriteCloser
	out     *bufio.Reader
	errPath string
}

func spawn(slot int, workDir string) (*wproc, error) {
	exe, err := os.Executable()
	if err != nil {
		return nil, err
	}
	errPath := filepath.Join(workDir, fmt.Sprintf("worker_%d.stderr", slot))
	ef, err := os.Create(errPath)
	if err != nil {
		return nil, err
	}
	cmd := exec.Command(exe, "-worker")
	cmd.Stderr = ef
	cmd.Env = append(os.Environ(), "GOTRACEBACK=single")
	in, err := cmd.StdinPipe()
	if err != nil {
		return nil, err
	}
	out, err := cmd.StdoutPipe()
	if err != nil {
		return nil, err
	}
	if err := cmd.Start(); err != nil {
		return nil, err
	}
	ef.Close()
	return &wproc{cmd: cmd, in: in, out: bufio.NewReaderSize(out, 1<<20), errPath: errPath}, nil
}

func (w *wproc) stop() (string, error) {
	w.in.Close()
	_, _ = io.Copy(io.Discard, w.out)
	err := w.cmd.Wait()
	b, _ := os.ReadFile(w.errPath)
	if len(b) > 1<<20 {
		b = append(b[:1<<19:1<<19], b[len(b)-(1<<19):]...)
	}
	return string(b), err
}

const maxAbortsPerJob = 2
const maxMemFatalPerJob = 6

func numWorkers() int {
	n := 12
	if v, err := strconv.Atoi(os.Getenv("VERIF_C06_WORKERS")); err == nil && v > 0 {
		n = v
	}
	return n
}

func mergeHist(j *job, s string) {
	if j.hist == nil {
		j.hist = map[string]int{}
	}
	for _, tok := range strings.Fields(s) {
		i := strings.LastIndexByte(tok, '*')
		if i < 0 {
			continue
		}
		c, err := strconv.Atoi(tok[i+1:])
		if err != nil {
			continue
		}
		j.hist[tok[:i]] += c
	}
}

// isMulti: a job with many cases, reported as a histogram line
func isMulti(text string) bool {
	return strings.HasPrefix(text, "batch ") || strings.HasPrefix(text, "allfmt ") || strings.HasPrefix(text, "fields ") ||
		strings.HasPrefix(text, "types ") || strings.HasPrefix(text, "runs ") || strings.HasPrefix(text, "near ") ||
		strings.HasPrefix(text, "chunk ")
}

func reqFormatOf(text string) string {
	ws := strings.Fields(text)
	switch {
	case len(ws) >= 3 && (ws[0] == "batch" || ws[0] == "fields" || ws[0] == "types" || ws[0] == "runs" || ws[0] == "near" || ws[0] == "chunk"):
		return ws[2]
	case len(ws) >= 4 && (ws[0] == "d" || ws[0] == "i"):
		return ws[3]
	}
	return coreFormatName
}

// A format that hangs on foreign input (protobuf_widevine does, see known resource findings) would
// cost caseTimeout for each of its cross-format jobs: after maxFormatTimeouts of them the remaining
// cross-format jobs of that format are recorded as abandoned instead of being run.
const maxFormatTimeouts = 6

var fmtTimeouts = struct {
	sync.Mutex
	n map[string]int
}{n: map[string]int{}}

func noteTimeout(format string) {
	fmtTimeouts.Lock()
	fmtTimeouts.n[format]++
	fmtTimeouts.Unlock()
}

func formatGivenUp(format string) bool {
	fmtTimeouts.Lock()
	defer fmtTimeouts.Unlock()
	return fmtTimeouts.n[format] >= maxFormatTimeouts
}

// runOne runs a job to completion, restarting the worker as often as it dies.
func runOne(slot int, wp **wproc, j *job, workDir string) {
	from, single := 0, false
	if j.cross && formatGivenUp(j.format) {
		j.lines = append(j.lines, [2]string{"skip " + j.text + " from 0", "resource:format-abandoned"})
		return
	}
	for attempt := 0; ; attempt++ {
		if attempt > 200 {
			j.herr = "too many worker restarts"
			return
		}
		if *wp == nil {
			w, err := spawn(slot, workDir)
			if err != nil {
				j.herr = "cannot start worker: " + err.Error()
				return
			}
			*wp = w
		}
		w := *wp
		s := "0"
		if single {
			s = "1"
		}
		if _, err := fmt.Fprintf(w.in, "%d\t%d\t%s\t%s\n", j.id, from, s, j.text); err != nil {
			_, _ = w.stop()
			*wp = nil
			j.restarts++
			continue
		}
		var pendLines [][2]string
		var pendHist []string
		commit := func() {
			j.lines = append(j.lines, pendLines...)
			for _, h := range pendHist {
				mergeHist(j, h)
			}
			pendLines, pendHist = nil, nil
		}
		cur, curOp := -2, "" // -2: not inside a case, -1: the scan decode of a fields job
		done, aborted, scanAborted := false, false, false
		for !done {
			line, err := w.out.ReadString('\n')
			if err != nil {
				break
			}
			ps := strings.Split(strings.TrimRight(line, "\n"), "\t")
			switch {
			case ps[0] == "C" && len(ps) == 3:
				pendLines = append(pendLines, [2]string{ps[1], ps[2]})
			case ps[0] == "H" && len(ps) == 4:
				pendHist = append(pendHist, ps[3])
			case ps[0] == "B" && len(ps) == 4:
				commit()
				cur, _ = strconv.Atoi(ps[2])
				curOp = ps[3]
			case ps[0] == "F" && len(ps) == 3:
				commit()
				cur = -2
			case ps[0] == "X" && len(ps) == 5:
				commit()
				idx, _ := strconv.Atoi(ps[2])
				if idx < 0 { // the scan decode of a fields job ran out of time/memory: nothing to mutate
					j.lines = append(j.lines, [2]string{"skip " + j.text + " from 0", ps[4]})
					j.aborts = maxAbortsPerJob
					scanAborted = true
				} else {
					j.lines = append(j.lines, [2]string{ps[3], ps[4]})
				}
				from = idx + 1
				aborted = true
				j.aborts++
				if j.cross && strings.HasSuffix(ps[4], "timeout") {
					noteTimeout(j.format)
				}
			case ps[0] == "E" && len(ps) == 2:
				commit()
				done = true
			}
		}
		if done {
			return
		}
		// the worker is gone
		stderr, werr := w.stop()
		*wp = nil
		j.restarts++
		if scanAborted {
			return
		}
		if aborted {
			if j.aborts >= maxAbortsPerJob && isMulti(j.text) {
				// a base input that exhausts time/memory does so for most of its family: give the job up
				j.lines = append(j.lines, [2]string{"skip " + j.text + " from " + strconv.Itoa(from), "resource:job-abandoned"})
				return
			}
			continue // watchdog exit: the culprit is recorded, go on after it
		}
		if !single {
			single = true // hard crash: re-run what is left one case at a time
			continue
		}
		if cur == -2 {
			j.herr = "worker died outside a case: " + lastLines(stderr, 3)
			return
		}
		if cur == -1 {
			// the decode of the UNCHANGED file that lists the fields killed the worker: nothing to mutate
			ws := strings.Fields(j.text)
			cls := classifyCrash(stderr, werr, reqFormatOf(j.text))
			if len(ws) >= 4 {
				j.lines = append(j.lines, [2]string{"d " + ws[1] + " id " + ws[2] + " n", cls})
			}
			j.lines = append(j.lines, [2]string{"skip " + j.text + " from 0", "resource:job-abandoned"})
			return
		}
		cls := classifyCrash(stderr, werr, reqFormatOf(j.text))
		j.lines = append(j.lines, [2]string{curOp, cls})
		from = cur + 1
		if !isMulti(j.text) {
			return
		}
		if strings.HasPrefix(cls, "resource:") {
			// an allocation the worker's address-space limit refuses kills the worker each time (format/caff under
			// force allocates tens of GB from a 32-bit count at a fixed offset, so most of a file's family does it)
			j.memFatal++
			if j.memFatal >= maxMemFatalPerJob {
				j.lines = append(j.lines, [2]string{"skip " + j.text + " from " + strconv.Itoa(from), "resource:job-abandoned"})
				return
			}
		}
	}
}

func lastLines(s string, n int) string {
	ls := strings.Split(strings.TrimSpace(s), "\n")
	if len(ls) > n {
		ls = ls[len(ls)-n:]
	}
	return strings.Join(ls, " | ")
}

func runPool(jobs []*job, workDir string) {
	nw := numWorkers()
	if len(jobs) < nw {
		nw = len(jobs)
	}
	ch := make(chan *job, 64)
	var wg sync.WaitGroup
	for s := 0; s < nw; s++ {
		wg.Add(1)
		go func(slot int) {
			defer wg.Done()
			var wp *wproc
			for j := range ch {
				t0 := time.Now()
				runOne(slot, &wp, j, workDir)
				j.wall = time.Since(t0)
			}
			if wp != nil {
				_, _ = wp.stop()
			}
		}(s)
	}
	t0 := time.Now()
	for i, j := range jobs {
		ch <- j
		if (i+1)%2000 == 0 {
			fmt.Fprintf(os.Stderr, "c06: %d/%d jobs dispatched after %v\n", i+1, len(jobs), time.Since(t0).Round(time.Second))
		}
	}
	close(ch)
	wg.Wait()
}
