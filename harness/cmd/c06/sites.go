//go:build verif

// C06 harness — regenerated fault-site table and directed search.
//
// /verif/extract/c06sites lists, per decoder package, the fault-capable sites outside the decode API (index, slice,
// division, shift, type assertion, make, panicking calls, panic, map write, nil local) in the package and in the
// helper functions reachable from it, and a hash of that list. corpus/C06/sites_baseline.json holds the hashes of the
// tree the enumeration was last accepted on. A package whose hash differs (new or changed sites, also in a helper it
// reaches) is NOT a violation by itself: its formats get a DIRECTED SEARCH — every corpus file of those formats (not
// the seeded 12 per directory), the mutation family sampled `directedFactor` times denser, field saturation over more
// fields, and `near` jobs: every byte the unchanged decode READ a leaf field from (first 8 bytes of each field)
// overwritten with the boundary values and every one of its bits flipped. A fault found is a PROPFAIL like any other.
package main

import (
	"bytes"
	"encoding/json"
	"fmt"
	"os"
	"os/exec"
	"path/filepath"
	"sort"
	"strconv"
	"strings"

	"github.com/wader/fq/internal/verifharness/hlib"
	"github.com/wader/fq/pkg/decode"
)

const directedFactor = 20     // budget per changed format relative to the quick per-format budget
const directedMaxFormats = 12 // more changed formats than this (a widely used helper changed): the factor is scaled down

type siteRow struct {
	Pkg         string         `json:"pkg"`
	Formats     []string       `json:"formats"`
	Counts      map[string]int `json:"counts"`
	Own         int            `json:"own"`
	Total       int            `json:"total"`
	Hash        string         `json:"hash"`
	ClosureHash string         `json:"closure_hash"`
	Readers     []string       `json:"readers"`      // io.Reader implementations of the package: `T.Read` methods with signature ([]byte) (int, error)
	ReaderSites int            `json:"reader_sites"` // fault-capable sites inside them
	ReaderHash  string         `json:"reader_hash"`  // hash of those sites (and of the method list)
	ReaderBytes []string       `json:"reader_bytes"` // the byte constants (2 hex digits) the Read methods compare with / mention
}

type sitesResult struct {
	rows []siteRow
	err  error
}

// startSitesExtractor runs `go run ./c06sites <repo> -json` in /verif/extract (about 5 s, overlapped with the probe jobs)
func startSitesExtractor() chan sitesResult {
	ch := make(chan sitesResult, 1)
	go func() {
		var res sitesResult
		if p := os.Getenv("VERIF_C06_SITES_JSON"); p != "" { // developer: a table prepared beforehand
			b, err := os.ReadFile(p)
			if err == nil {
				err = json.Unmarshal(b, &res.rows)
			}
			res.err = err
			ch <- res
			return
		}
		cmd := exec.Command("go", "run", "./c06sites", repoDir(), "-json")
		cmd.Dir = filepath.Join(verifDir(), "extract")
		var out, errb bytes.Buffer
		cmd.Stdout, cmd.Stderr = &out, &errb
		if err := cmd.Run(); err != nil {
			res.err = fmt.Errorf("%v: %s", err, lastLines(errb.String(), 5))
		} else {
			res.err = json.Unmarshal(out.Bytes(), &res.rows)
		}
		ch <- res
	}()
	return ch
}

func baselinePath() string { return filepath.Join(verifDir(), "corpus", "C06", "sites_baseline.json") }

// changedSitePackages: decoder packages (those that register formats) whose closure hash is not the baseline's
func changedSitePackages(rows []siteRow) (changed []siteRow, err error) {
	b, err := os.ReadFile(baselinePath())
	if err != nil {
		return nil, err
	}
	var base map[string]string
	if err := json.Unmarshal(b, &base); err != nil {
		return nil, err
	}
	for _, r := range rows {
		if len(r.Formats) == 0 {
			continue
		}
		if base[r.Pkg] != r.ClosureHash {
			changed = append(changed, r)
		}
	}
	return changed, nil
}

// changedReaderPackages: packages below format/ whose Read methods (io.Reader implementations a decoder reads through)
// have another site list than the baseline's `<pkg>#readers` entry — also a package that has such methods for the first time
func changedReaderPackages(rows []siteRow) (changed []siteRow, err error) {
	b, err := os.ReadFile(baselinePath())
	if err != nil {
		return nil, err
	}
	var base map[string]string
	if err := json.Unmarshal(b, &base); err != nil {
		return nil, err
	}
	for _, r := range rows {
		if len(r.Readers) == 0 || !strings.HasPrefix(r.Pkg, "format/") {
			continue
		}
		if base[r.Pkg+"#readers"] != r.ReaderHash {
			changed = append(changed, r)
		}
	}
	return changed, nil
}

func writeSitesBaseline(rows []siteRow) error {
	m := map[string]string{}
	for _, r := range rows {
		if len(r.Formats) > 0 {
			m[r.Pkg] = r.ClosureHash
		}
		if len(r.Readers) > 0 && strings.HasPrefix(r.Pkg, "format/") {
			m[r.Pkg+"#readers"] = r.ReaderHash
		}
	}
	b, _ := json.MarshalIndent(m, "", " ")
	return os.WriteFile(baselinePath(), append(b, '\n'), 0o644)
}

// directedJobs: the denser enumeration for the formats of the changed packages
func directedJobs(files []corpusFile, formats []string, seed uint64, tp tierParams, o *hlib.Out) []*job {
	factor := directedFactor
	if len(formats) > directedMaxFormats {
		factor = max(2, directedFactor*directedMaxFormats/len(formats))
	}
	o.Stat("directed_factor", factor)
	isF := map[string]bool{}
	for _, f := range formats {
		isF[f] = true
	}
	var jobs []*job
	for _, f := range files {
		for _, n := range f.own {
			if !isF[n] {
				continue
			}
			o.Stat("directed_file_formats", 1)
			mod := max(1, tp.modOwn/factor)
			if mod > 1 && f.size > 8192 {
				mod = mod * f.size / 8192
			}
			famN := len(enumFamilyCached(f.size))
			for _, force := range []bool{false, true} {
				chunk := tp.chunk * mod
				for lo := 0; lo < famN; lo += chunk {
					b := batchSpec{path: f.path, format: n, force: force, seed: seed ^ 0xd1ec7ed, mod: mod, lo: lo, hi: min(famN, lo+chunk)}
					jobs = append(jobs, &job{text: b.String(), size: f.size, format: n, directed: true})
				}
			}
			nearMod := max(1, f.size/(4096*factor/4+1))
			for _, force := range []string{"n", "f"} {
				jobs = append(jobs, &job{text: fmt.Sprintf("near %s %s %s %d %d %d", f.path, n, force, seed, nearMod, 600*factor), size: f.size, format: n, directed: true})
				jobs = append(jobs, &job{text: fmt.Sprintf("fields %s %s %s %d %d %d %s", f.path, n, force, seed^0xd1ec7ed, max(1, f.size/(1024*factor)), tp.maxFields*5, "zo1ms"),
					size: f.size, format: n, directed: true})
			}
		}
	}
	return jobs
}

// near <path> <format> <f|n> <seed> <mod> <max cases>: mutation density increased where the decoder read. The unchanged
// file is decoded with <format>; for every leaf field (buffer order, at most 4000) each of the first 8 bytes it covers
// is overwritten with 00/01/7f/80/ff and has each of its bits flipped (descriptors o<off>:<val> and b<bit> of family.go,
// so every case replays like a family member); sampled 1/mod, thinner if that still exceeds <max cases>.
func runNear(st *wstate, jobID string, from int, single bool, text string) {
	ws := strings.Fields(text)
	fail := func(why string) {
		st.mu.Lock()
		fmt.Fprintf(st.w, "C\t%s\tbadcase:%s\n", text, why)
		st.mu.Unlock()
	}
	if len(ws) != 7 || (ws[3] != "f" && ws[3] != "n") {
		fail("parse")
		return
	}
	seed, e1 := strconv.ParseUint(ws[4], 10, 64)
	mod, e2 := strconv.Atoi(ws[5])
	maxCases, e3 := strconv.Atoi(ws[6])
	if e1 != nil || e2 != nil || e3 != nil || mod < 1 || maxCases < 1 {
		fail("parse")
		return
	}
	base, err := loadBase(ws[1])
	if err != nil {
		fail("read")
		return
	}
	g, err := groupFor(ws[2])
	if err != nil {
		fail("format")
		return
	}
	force := ws[3] == "f"
	st.begin(jobID, -1, "fields-scan "+text, single)
	fs := allLeafRanges(base, g, 4000)
	st.mu.Lock()
	st.active = false
	st.mu.Unlock()
	seenByte := map[int]bool{}
	var offs []int
	for _, f := range fs {
		first := int(f[0] / 8)
		last := int((f[0] + f[1] - 1) / 8)
		for b := first; b <= last && b < first+8 && b < len(base); b++ {
			if !seenByte[b] {
				seenByte[b] = true
				offs = append(offs, b)
			}
		}
	}
	sort.Ints(offs)
	var muts []string
	for _, off := range offs {
		for _, v := range overwriteVals {
			if base[off] != v {
				muts = append(muts, fmt.Sprintf("o%d:%02x", off, v))
			}
		}
		for bit := 0; bit < 8; bit++ {
			muts = append(muts, "b"+strconv.Itoa(off*8+bit))
		}
	}
	if len(muts)/mod > maxCases {
		mod = (len(muts) + maxCases - 1) / maxCases
	}
	idx := 0
	for _, m := range muts {
		if !selected(seed^0x6e656172, mod, ws[1], ws[2], force, m) {
			continue
		}
		if idx >= from {
			runOneOfMany(st, jobID, idx, single, base, ws[1], m, ws[2], g, force, seed)
		}
		idx++
	}
}

// allLeafRanges: like leafFields but every leaf (any length) inside the buffer
func allLeafRanges(base []byte, g *decode.Group, max int) (fs [][2]int64) {
	defer func() { _ = recover() }()
	return leafRanges(base, g, max, 1<<62)
}
