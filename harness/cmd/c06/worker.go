//go:build verif

// C06 harness — worker side: run one case against the real code and classify the outcome.
package main

import (
	"bufio"
	"bytes"
	"context"
	"encoding/hex"
	"errors"
	"fmt"
	"io"
	"io/fs"
	"os"
	"path/filepath"
	"regexp"
	"runtime"
	"runtime/debug"
	"sort"
	"strconv"
	"strings"
	"sync"
	"syscall"
	"time"

	"github.com/wader/fq/pkg/bitio"
	"github.com/wader/fq/pkg/decode"
	"github.com/wader/fq/pkg/interp"
)

const (
	caseTimeout  = 5 * time.Second
	heapLimit    = 1536 << 20 // watchdog: a case whose live heap grows beyond this is `resource`
	softMemLimit = 1 << 30    // GOMEMLIMIT of a worker
	asLimit      = 4 << 30    // RLIMIT_AS: an absurd single allocation fails at once, untouched (fatal, classified resource)
	maxStack     = 512 << 20  // goroutine stack limit of a worker (fq's own is Go's default 1 GB)
	interpMod    = 50         // 2 % of the decode cases are repeated through interp.Main
)

const fqMod = "github.com/wader/fq/"

func repoDir() string {
	if d := os.Getenv("VERIF_REPO"); d != "" {
		return d
	}
	return "/repo"
}

func verifDir() string {
	if d := os.Getenv("VERIF_DIR"); d != "" {
		return d
	}
	return "/verif"
}

// readBase reads a base input. `@<path>` is relative to /verif (minimised corpus inputs),
// anything else relative to the repository under test.
func readBase(path string) ([]byte, error) {
	if path == "gen:cb" { // the base of the generated chunk-boundary inputs (`cb:` descriptors build the whole input)
		return []byte{}, nil
	}
	// gen:rep:<hex pattern>:<n> — a synthetic base: the pattern repeated n times (deep nesting seeds)
	if strings.HasPrefix(path, "gen:rep:") {
		ps := strings.Split(path[8:], ":")
		if len(ps) != 2 {
			return nil, fmt.Errorf("bad synthetic base %q", path)
		}
		pat, err := hex.DecodeString(ps[0])
		n, err2 := strconv.Atoi(ps[1])
		if err != nil || err2 != nil || len(pat) == 0 || n < 1 || n*len(pat) > maxWhole {
			return nil, fmt.Errorf("bad synthetic base %q", path)
		}
		return bytes.Repeat(pat, n), nil
	}
	var p string
	if strings.HasPrefix(path, "@") {
		p = filepath.Join(verifDir(), path[1:])
	} else {
		p = filepath.Join(repoDir(), path)
	}
	b, err := os.ReadFile(p)
	if err != nil {
		return nil, err
	}
	if len(b) > maxWhole {
		b = b[:prefixLarge]
	}
	return b, nil
}

// ---------------------------------------------------------------- panic classification

var kindTable = []struct{ sub, kind string }{
	{"index out of range", "index-out-of-range"},
	{"slice bounds out of range", "slice-bounds-out-of-range"},
	{"nil pointer dereference", "nil-dereference"},
	{"makeslice", "makeslice-out-of-range"},
	{"makechan", "makechan-out-of-range"},
	{"integer divide by zero", "integer-divide-by-zero"},
	{"interface conversion", "failed-type-assertion"},
	{"negative shift amount", "negative-shift"},
	{"assignment to entry in nil map", "nil-map-write"},
	{"hash of unhashable", "unhashable-key"},
	{"strings: negative Repeat count", "negative-repeat"},
	{"bytes: negative Repeat count", "negative-repeat"},
	{"Repeat output length overflow", "repeat-overflow"},
	{"stack overflow", "stack-overflow"},
	{"goroutine stack exceeds", "stack-overflow"},
	{"concurrent map", "concurrent-map-access"},
	{"reflect", "reflect-panic"},
}

func panicKind(r any) string {
	var msg string
	switch v := r.(type) {
	case runtime.Error:
		msg = v.Error()
	case error:
		msg = v.Error()
		for _, k := range kindTable {
			if strings.Contains(msg, k.sub) {
				return k.kind
			}
		}
		return "explicit-panic-error"
	case string:
		for _, k := range kindTable {
			if strings.Contains(v, k.sub) {
				return k.kind
			}
		}
		return "explicit-panic"
	default:
		return "explicit-panic-" + strings.NewReplacer(" ", "", "*", "", "/", ".").Replace(fmt.Sprintf("%T", r))
	}
	for _, k := range kindTable {
		if strings.Contains(msg, k.sub) {
			return k.kind
		}
	}
	return "runtime-error"
}

func shortFn(fn string) string {
	fn = strings.TrimPrefix(fn, fqMod)
	if i := strings.LastIndexByte(fn, '/'); i >= 0 {
		fn = fn[i+1:]
	}
	return strings.NewReplacer(" ", "", "\t", "", ":", ".").Replace(fn)
}

// keyFromFrames: frames are innermost first, starting at the faulting frame. The key names the
// decoder package of the innermost format frame (the requested format if the fault is not below
// a format package), the innermost fq function, and the panic kind.
func keyFromFrames(fns []string, reqFormat, kind string) string {
	topFn, fmtPkg := "", ""
	for _, fn := range fns {
		if !strings.HasPrefix(fn, fqMod) || strings.HasPrefix(fn, fqMod+"internal/verifharness") ||
			strings.HasPrefix(fn, fqMod+"internal/recoverfn.Run") {
			continue
		}
		if topFn == "" {
			topFn = shortFn(fn)
		}
		if fmtPkg == "" && strings.HasPrefix(fn, fqMod+"format/") {
			rest := strings.TrimPrefix(fn, fqMod+"format/")
			if i := strings.IndexByte(rest, '.'); i >= 0 {
				rest = rest[:i]
			}
			if i := strings.LastIndexByte(rest, '/'); i >= 0 {
				rest = rest[i+1:]
			}
			fmtPkg = rest
		}
		if topFn != "" && fmtPkg != "" {
			break
		}
	}
	if topFn == "" {
		topFn = "unknown"
	}
	if fmtPkg == "" {
		fmtPkg = reqFormat
	}
	return fmtPkg + ":" + topFn + ":" + kind
}

// classifyRecovered is called inside the deferred function that recovered r.
// The stack still holds the faulting frames below the OLDEST runtime.gopanic
// (recoverfn.Run re-panics foreign values from its deferred function, adding newer ones on top).
func classifyRecovered(r any, reqFormat string) string {
	pcs := make([]uintptr, 2048)
	pcs = pcs[:runtime.Callers(0, pcs)]
	frames := runtime.CallersFrames(pcs)
	var fns []string
	for {
		f, more := frames.Next()
		fns = append(fns, f.Function)
		if !more {
			break
		}
	}
	last := -1
	for i, fn := range fns {
		if fn == "runtime.gopanic" {
			last = i
		}
	}
	return "panic:" + keyFromFrames(fns[last+1:], reqFormat, panicKind(r))
}

// classifyCrash reads what a dead worker wrote to stderr (Go fatal error / unrecovered panic trace).
func classifyCrash(stderr string, exitErr error, reqFormat string) string {
	// the header of a Go crash report: everything before the first goroutine trace
	head := stderr
	if i := strings.Index(head, "\ngoroutine "); i >= 0 {
		head = head[:i]
	}
	if i := strings.Index(head, "\nruntime stack:"); i >= 0 {
		head = head[:i]
	}
	for _, m := range []string{"out of memory", "cannot allocate", "errno=12", "failed to reserve", "cannot map pages",
		"failed to create new OS thread", "pthread_create failed", "arena", "Resource temporarily unavailable"} {
		if strings.Contains(head, m) {
			return "resource:memory-fatal"
		}
	}
	var fns []string
	for _, l := range strings.Split(stderr, "\n") {
		l = strings.TrimSpace(l)
		if strings.HasPrefix(l, fqMod) {
			if i := strings.LastIndexByte(l, '('); i > 0 {
				l = l[:i]
			}
			fns = append(fns, l)
		}
	}
	for _, k := range kindTable {
		if strings.Contains(head, k.sub) {
			return "panic:" + keyFromFrames(fns, reqFormat, k.kind)
		}
	}
	if strings.Contains(head, "panic: ") || strings.Contains(head, "fatal error: ") {
		return "panic:" + keyFromFrames(fns, reqFormat, "fatal-error")
	}
	if exitErr != nil && strings.Contains(exitErr.Error(), "signal: killed") {
		return "resource:killed"
	}
	fmt.Fprintf(os.Stderr, "c06: unclassified worker death (%v), stderr begins: %.600q\n", exitErr, stderr)
	return "panic:" + reqFormat + ":unknown:worker-died-" + strings.NewReplacer(" ", "-", ":", "").Replace(fmt.Sprint(exitErr))
}

// ---------------------------------------------------------------- one decode

func groupFor(format string) (*decode.Group, error) {
	if format == coreFormatName {
		return coreGroup, nil
	}
	return interp.DefaultRegistry.Group(format)
}

// decodeObs runs decode.Decode exactly as pkg/interp/decode.go does (IsRoot, FillGaps) and returns
//
//	tree/<n>/<k>/<i>/<v>   a tree and no error        n = formats in the group, k = format errors collected,
//	error/<n>/<k>/<i>/<v>  an error (maybe a tree)    i = index of the tree's format in the group or -, v = tree carries .Err
//	                       /ord0 appended if the collected errors are not the group's first k formats in order
//	error/other:<what>     an error that is not a FormatsError
//	panic:<fmt>:<fn>:<kind>
func decodeObs(input []byte, group *decode.Group, format string, force bool, inArg any) (obs string) {
	obs, _ = decodeObsDeep(input, group, format, force, inArg)
	return obs
}

// decodeObsDeep also reports whether a collected error was raised so deep that the captured stack
// (recoverfn stackSizeLimit = 256 PCs) is saturated. Every collected FormatError is rendered the way
// pkg/interp/decode.go reports it (FormatError.Value(): message and the stack trace frames, which is what
// `._error`, `dv` and the all-formats-failed error show) — a fault in reporting the error is a crash too.
func decodeObsDeep(input []byte, group *decode.Group, format string, force bool, inArg any) (obs string, deep bool) {
	defer func() {
		if r := recover(); r != nil {
			obs = classifyRecovered(r, format)
		}
	}()
	dv, _, err := decode.Decode(context.Background(), bitio.NewBitReader(input, -1), group, decode.Options{
		IsRoot: true, FillGaps: true, Force: force, InArg: inArg,
	})
	n := len(group.Formats)
	k := 0
	ord := true
	if err != nil {
		var fe decode.FormatsError
		if !errors.As(err, &fe) {
			what := "error"
			var ioe decode.IOError
			if errors.As(err, &ioe) {
				what = "ioerror"
			}
			return "error/other:" + what, false
		}
		k = len(fe.Errs)
		for i, e := range fe.Errs {
			if i >= n || e.Format != group.Formats[i] {
				ord = false
			}
			if e.Err == nil {
				ord = false
			}
			if len(e.Stacktrace.PCs) >= 256 {
				deep = true
			}
			_ = e.Error()
			if e.Format != nil {
				_ = e.Value()
			}
		}
	}
	i, v := "-", 0
	if dv != nil {
		i = "?"
		for j, f := range group.Formats {
			if f == dv.Format {
				i = strconv.Itoa(j)
			}
		}
		if dv.Err != nil {
			v = 1
		}
	}
	// tree: a decode tree (for a probing group the FormatsError then only lists the formats tried before);
	// partial: a tree with the decode error attached; error: no tree, a reported error
	cls := "tree"
	switch {
	case dv == nil:
		cls = "error"
	case v == 1:
		cls = "partial"
	}
	if dv == nil && err == nil {
		return "bad:nil-nil", deep
	}
	obs = fmt.Sprintf("%s/%d/%d/%s/%d", cls, n, k, i, v)
	if !ord {
		obs += "/ord0"
	}
	return obs, deep
}

// ---------------------------------------------------------------- the interpreter path (fq -d F [-o force=true] '., tovalue, (dv? // .), (._error? // .)')

type nullFS struct{}

func (nullFS) Open(name string) (fs.File, error) { return nil, fmt.Errorf("%s: file not found", name) }

type interpOS struct {
	b      []byte
	format string
	force  bool
}

type interpIn struct {
	interp.FileReader
	io.Writer
}

func (interpIn) IsTerminal() bool { return false }
func (interpIn) Size() (int, int) { return 120, 25 }

type interpOut struct{ io.Writer }

func (interpOut) Size() (int, int) { return 120, 25 }
func (interpOut) IsTerminal() bool { return false }

func (o *interpOS) Platform() interp.Platform { return interp.Platform{} }
func (o *interpOS) Stdin() interp.Input {
	return interpIn{FileReader: interp.FileReader{R: bytes.NewBuffer(o.b)}}
}
func (o *interpOS) Stdout() interp.Output        { return interpOut{io.Discard} }
func (o *interpOS) Stderr() interp.Output        { return interpOut{io.Discard} }
func (o *interpOS) InterruptChan() chan struct{} { return nil }
func (o *interpOS) Environ() []string            { return nil }
func (o *interpOS) Args() []string {
	a := []string{"fq", "-d", o.format}
	if o.force {
		a = append(a, "-o", "force=true")
	}
	return append(a, `., tovalue, (dv? // .), (._error? // .)`)
}
func (o *interpOS) ConfigDir() (string, error)   { return "/config", nil }
func (o *interpOS) FS() fs.FS                    { return nullFS{} }
func (o *interpOS) History() ([]string, error)   { return nil, nil }
func (o *interpOS) Readline(interp.ReadlineOpts) (string, error) { return "", io.EOF }

// interpObs: `tree` if Main returned nil (exit 0), `error` if it returned an error (documented non-zero exit).
func interpObs(input []byte, format string, force bool) (obs string) {
	defer func() {
		if r := recover(); r != nil {
			obs = classifyRecovered(r, format)
		}
	}()
	ios := &interpOS{b: input, format: format, force: force}
	q, err := interp.New(ios, interp.DefaultRegistry)
	if err != nil {
		return "error/interp-new"
	}
	if err := q.Main(context.Background(), ios.Stdout(), "verif"); err != nil {
		return "error"
	}
	return "tree"
}

// ---------------------------------------------------------------- cases and jobs
//
// single case op texts (each replays alone):
//   d <path> <mut> <format> <f|n>     decode.Decode on the registry group
//   i <path> <mut> <format> <f|n>     the interpreter path
//   core <prim> <arg> <buflen bytes> <pos bits> <f|n>    a reading primitive inside a harness-registered decoder (core.go)
// batch job (many `d` cases, reported as one histogram line + one line per panic/resource case):
//   batch <path> <format> <f|n> <seed> <mod> <lo> <hi>   members lo..hi-1 of enumFamily(len) selected by (seed, mod)

func forceStr(f bool) string {
	if f {
		return "f"
	}
	return "n"
}

type caseSpec struct {
	kind   string // d | i | core
	path   string
	mut    string
	format string
	force  bool
	core   []string
}

func (c caseSpec) op() string {
	if c.kind == "core" {
		return "core " + strings.Join(c.core, " ")
	}
	return c.kind + " " + c.path + " " + c.mut + " " + c.format + " " + forceStr(c.force)
}

func parseCase(op string) (caseSpec, error) {
	ws := strings.Fields(op)
	if len(ws) == 0 {
		return caseSpec{}, fmt.Errorf("empty op")
	}
	switch ws[0] {
	case "d", "i":
		if len(ws) != 5 || (ws[4] != "f" && ws[4] != "n") {
			return caseSpec{}, fmt.Errorf("bad op %q", op)
		}
		return caseSpec{kind: ws[0], path: ws[1], mut: ws[2], format: ws[3], force: ws[4] == "f"}, nil
	case "core":
		if len(ws) != 6 {
			return caseSpec{}, fmt.Errorf("bad op %q", op)
		}
		return caseSpec{kind: "core", core: ws[1:], format: coreFormatName, force: ws[5] == "f"}, nil
	}
	return caseSpec{}, fmt.Errorf("bad op %q", op)
}

var baseCache struct {
	path string
	b    []byte
	fam  []string
}

func loadBase(path string) ([]byte, error) {
	if baseCache.path == path && baseCache.b != nil {
		return baseCache.b, nil
	}
	b, err := readBase(path)
	if err != nil {
		return nil, err
	}
	baseCache.path, baseCache.b, baseCache.fam = path, b, nil
	return b, nil
}

func runCase(c caseSpec) string {
	if c.kind == "core" {
		return coreObs(c.core)
	}
	base, err := loadBase(c.path)
	if err != nil {
		return "badcase:read"
	}
	input, err := applyMut(base, c.mut)
	if err != nil {
		return "badcase:mut"
	}
	if c.kind == "i" {
		return interpObs(input, c.format, c.force)
	}
	g, err := groupFor(c.format)
	if err != nil {
		return "badcase:format"
	}
	return decodeObs(input, g, c.format, c.force, nil)
}

// ---------------------------------------------------------------- worker process

type wstate struct {
	mu      sync.Mutex
	w       *bufio.Writer
	started time.Time
	jobID   string
	idx     int    // case index within the job
	op      string // op text of the running case
	lo      int    // first case index covered by hist
	hist    map[string]int
	active  bool
}

func (s *wstate) flushHist() {
	if len(s.hist) == 0 {
		return
	}
	keys := make([]string, 0, len(s.hist))
	n := 0
	for k, c := range s.hist {
		keys = append(keys, k)
		n += c
	}
	sort.Strings(keys)
	var sb strings.Builder
	for i, k := range keys {
		if i > 0 {
			sb.WriteByte(' ')
		}
		fmt.Fprintf(&sb, "%s*%d", k, s.hist[k])
	}
	fmt.Fprintf(s.w, "H\t%s\t%d\t%s\n", s.jobID, n, sb.String())
	s.hist = map[string]int{}
}

func workerMain() {
	debug.SetMemoryLimit(softMemLimit)
	debug.SetMaxStack(maxStack)
	_ = syscall.Setrlimit(syscall.RLIMIT_AS, &syscall.Rlimit{Cur: asLimit, Max: asLimit})
	st := &wstate{w: bufio.NewWriterSize(os.Stdout, 1<<16), hist: map[string]int{}}
	go func() { // watchdog: time and memory per case
		var ms runtime.MemStats
		for {
			time.Sleep(100 * time.Millisecond)
			st.mu.Lock()
			if !st.active {
				st.mu.Unlock()
				continue
			}
			why := ""
			to := caseTimeout
			if strings.HasPrefix(st.op, "i ") {
				to = 2 * caseTimeout // the interpreter path prints the whole tree twice
			}
			if time.Since(st.started) > to {
				why = "resource:timeout"
			} else {
				runtime.ReadMemStats(&ms)
				if ms.HeapAlloc > heapLimit {
					why = "resource:memory"
				}
			}
			if why != "" {
				st.flushHist()
				fmt.Fprintf(st.w, "X\t%s\t%d\t%s\t%s\n", st.jobID, st.idx, st.op, why)
				st.w.Flush()
				os.Exit(3)
			}
			st.mu.Unlock()
		}
	}()

	in := bufio.NewScanner(os.Stdin)
	in.Buffer(make([]byte, 1<<20), 1<<26)
	for in.Scan() {
		// <jobid> TAB <from> TAB <single 0|1> TAB <job text>
		ps := strings.SplitN(in.Text(), "\t", 4)
		if len(ps) != 4 {
			continue
		}
		from, _ := strconv.Atoi(ps[1])
		runJob(st, ps[0], from, ps[2] == "1", ps[3])
		st.mu.Lock()
		st.flushHist()
		fmt.Fprintf(st.w, "E\t%s\n", ps[0])
		st.w.Flush()
		st.mu.Unlock()
	}
}

// begin/end bracket one case for the watchdog; in single mode every case is announced and
// flushed so that the parent can name the culprit of a hard crash.
func (s *wstate) begin(jobID string, idx int, op string, single bool) {
	s.mu.Lock()
	s.jobID, s.idx, s.op, s.started, s.active = jobID, idx, op, time.Now(), true
	if single {
		s.flushHist()
		fmt.Fprintf(s.w, "B\t%s\t%d\t%s\n", jobID, idx, op)
		s.w.Flush()
	}
	s.mu.Unlock()
}

func (s *wstate) end(op, obs string, inBatch bool, single bool) {
	s.mu.Lock()
	s.active = false
	if inBatch && !strings.HasPrefix(obs, "panic:") && !strings.HasPrefix(obs, "badcase") {
		kind := "?"
		if ws := strings.Fields(op); len(ws) == 5 {
			kind = mutKind(ws[2])
		}
		s.hist[obs+"@"+kind]++
	} else {
		fmt.Fprintf(s.w, "C\t%s\t%s\n", op, obs)
	}
	if single {
		s.flushHist()
		fmt.Fprintf(s.w, "F\t%s\t%d\n", s.jobID, s.idx)
		s.w.Flush()
	}
	s.mu.Unlock()
}

type batchSpec struct {
	path, format string
	force        bool
	seed         uint64
	mod, lo, hi  int
}

func (b batchSpec) String() string {
	return fmt.Sprintf("batch %s %s %s %d %d %d %d", b.path, b.format, forceStr(b.force), b.seed, b.mod, b.lo, b.hi)
}

func parseBatch(s string) (batchSpec, error) {
	ws := strings.Fields(s)
	if len(ws) != 8 || ws[0] != "batch" {
		return batchSpec{}, fmt.Errorf("bad batch %q", s)
	}
	seed, e1 := strconv.ParseUint(ws[4], 10, 64)
	mod, e2 := strconv.Atoi(ws[5])
	lo, e3 := strconv.Atoi(ws[6])
	hi, e4 := strconv.Atoi(ws[7])
	if e1 != nil || e2 != nil || e3 != nil || e4 != nil || (ws[3] != "f" && ws[3] != "n") {
		return batchSpec{}, fmt.Errorf("bad batch %q", s)
	}
	return batchSpec{path: ws[1], format: ws[2], force: ws[3] == "f", seed: seed, mod: mod, lo: lo, hi: hi}, nil
}

// batchMembers: the selected descriptors of a batch, in family order.
func batchMembers(b batchSpec, n int) []string {
	if baseCache.fam == nil || baseCache.path != b.path {
		baseCache.fam = enumFamily(n)
	}
	fam := baseCache.fam
	var ms []string
	for i := b.lo; i < b.hi && i < len(fam); i++ {
		if selected(b.seed, b.mod, b.path, b.format, b.force, fam[i]) {
			ms = append(ms, fam[i])
		}
	}
	return ms
}

func probeName(path string) (obs string) {
	defer func() {
		if r := recover(); r != nil {
			obs = classifyRecovered(r, "probe")
		}
	}()
	b, err := readBase(path)
	if err != nil {
		return "-"
	}
	dv, _, _ := decode.Decode(context.Background(), bitio.NewBitReader(b, -1), interp.DefaultRegistry.MustGroup("probe"), decode.Options{IsRoot: true})
	if dv == nil || dv.Format == nil {
		return "-"
	}
	return dv.Format.Name
}

// types <path> <format> <f|n> <seed> <mod> <dir> <max cases>: type-string substitution. The 4-character string literals
// of the Go sources below format/<dir> (box, chunk, atom, brand … names: `case "trun":`, map keys, …) are
// read from the repository under test at run time; at every offset of the unchanged file where one of them
// occurs (at most 300 places) the 4 bytes are replaced by every other one; sampled 1/mod, and thinner if
// places x literals / mod would exceed <max cases>.
var typeLitRE = regexp.MustCompile(`"([^"\\]{4})"`)

var typeTokCache = map[string][]string{}

func typeTokens(dir string) []string {
	if t, ok := typeTokCache[dir]; ok {
		return t
	}
	set := map[string]bool{}
	_ = filepath.Walk(filepath.Join(repoDir(), "format", dir), func(p string, info os.FileInfo, err error) error {
		if err != nil || info.IsDir() || !strings.HasSuffix(p, ".go") || strings.HasSuffix(p, "_test.go") {
			return nil
		}
		b, err := os.ReadFile(p)
		if err != nil {
			return nil
		}
		for _, m := range typeLitRE.FindAllSubmatch(b, -1) {
			if len(m[1]) == 4 { // 4 bytes, not 4 runes
				set[string(m[1])] = true
			}
		}
		return nil
	})
	var toks []string
	for t := range set {
		toks = append(toks, t)
	}
	sort.Strings(toks)
	typeTokCache[dir] = toks
	return toks
}

func runTypes(st *wstate, jobID string, from int, single bool, text string) {
	ws := strings.Fields(text)
	fail := func(why string) {
		st.mu.Lock()
		fmt.Fprintf(st.w, "C\t%s\tbadcase:%s\n", text, why)
		st.mu.Unlock()
	}
	if len(ws) != 8 || (ws[3] != "f" && ws[3] != "n") || strings.Contains(ws[6], "..") || strings.HasPrefix(ws[6], "/") {
		fail("parse")
		return
	}
	seed, e1 := strconv.ParseUint(ws[4], 10, 64)
	mod, e2 := strconv.Atoi(ws[5])
	maxCases, e3 := strconv.Atoi(ws[7])
	if e1 != nil || e2 != nil || e3 != nil || mod < 1 || maxCases < 1 {
		fail("parse")
		return
	}
	base, err := loadBase(ws[1])
	if err != nil {
		fail("read")
		return
	}
	g, err := groupFor(ws[2])
	if err != nil {
		fail("format")
		return
	}
	force := ws[3] == "f"
	toks := typeTokens(ws[6])
	isTok := map[string]bool{}
	for _, t := range toks {
		isTok[t] = true
	}
	var places []int
	for off := 0; off+4 <= len(base) && len(places) < 300; off++ {
		if isTok[string(base[off:off+4])] {
			places = append(places, off)
		}
	}
	if total := len(places) * len(toks); total/mod > maxCases {
		mod = (total + maxCases - 1) / maxCases
	}
	idx := 0
	for _, off := range places {
		for _, t := range toks {
			if t == string(base[off:off+4]) {
				continue
			}
			m := fmt.Sprintf("y%d:%s", off, hex.EncodeToString([]byte(t)))
			if !selected(seed, mod, ws[1], ws[2], force, m) {
				continue
			}
			if idx >= from {
				runOneOfMany(st, jobID, idx, single, base, ws[1], m, ws[2], g, force, seed)
			}
			idx++
		}
	}
}

// runs <path> <format> <f|n> <seed> <mod> <lengths,…> <max fields>: long runs. Lengths are at and just beyond
// internal buffer sizes (512, 4096, 32 KiB scratch buffers, 64 KiB, 512 KiB).
//   (A) a run of 00 / of ff of each length inserted at the padding-like places of the unchanged file: its end,
//       after its first and after its last run of >= 4 zero bytes;
//   (B) the file extended by length+16 zero bytes and each of the first <max fields> byte-aligned 16/24/32-bit
//       leaf fields of its decode tree set to the length (big endian, little endian, syncsafe): a size field
//       that now covers a long run of zeros (e.g. ID3v2 padding >= one 32 KiB scratch buffer).
func runRuns(st *wstate, jobID string, from int, single bool, text string) {
	ws := strings.Fields(text)
	fail := func(why string) {
		st.mu.Lock()
		fmt.Fprintf(st.w, "C\t%s\tbadcase:%s\n", text, why)
		st.mu.Unlock()
	}
	if len(ws) != 8 || (ws[3] != "f" && ws[3] != "n") {
		fail("parse")
		return
	}
	seed, e1 := strconv.ParseUint(ws[4], 10, 64)
	mod, e2 := strconv.Atoi(ws[5])
	maxF, e3 := strconv.Atoi(ws[7])
	var lens []int
	for _, l := range strings.Split(ws[6], ",") {
		v, err := strconv.Atoi(l)
		if err != nil || v < 1 || v > 1<<20-16 {
			e3 = fmt.Errorf("bad length")
		}
		lens = append(lens, v)
	}
	if e1 != nil || e2 != nil || e3 != nil || mod < 1 {
		fail("parse")
		return
	}
	base, err := loadBase(ws[1])
	if err != nil {
		fail("read")
		return
	}
	g, err := groupFor(ws[2])
	if err != nil {
		fail("format")
		return
	}
	force := ws[3] == "f"
	n := len(base)
	// padding-like places
	places := []int{n}
	first, last := -1, -1
	for i := 0; i+4 <= n; i++ {
		if base[i] == 0 && base[i+1] == 0 && base[i+2] == 0 && base[i+3] == 0 {
			j := i
			for j < n && base[j] == 0 {
				j++
			}
			if first < 0 {
				first = j
			}
			last = j
			i = j
		}
	}
	for _, p := range []int{first, last} {
		if p >= 0 && p != n && (len(places) < 2 || places[len(places)-1] != p) {
			places = append(places, p)
		}
	}
	var muts []string
	for _, k := range []string{"z", "o"} {
		for _, p := range places {
			for _, l := range lens {
				muts = append(muts, fmt.Sprintf("run%s:%d:%d", k, p, l))
			}
		}
	}
	st.begin(jobID, -1, "fields-scan "+text, single)
	fs := leafFields(base, g, 4000)
	st.mu.Lock()
	st.active = false
	st.mu.Unlock()
	nf := 0
	for _, f := range fs {
		if f[0]%8 != 0 || (f[1] != 16 && f[1] != 24 && f[1] != 32) {
			continue
		}
		if nf++; nf > maxF {
			break
		}
		for _, l := range lens {
			if f[1] < 32 && l >= 1<<uint(f[1]) {
				continue
			}
			encs := []string{"be", "le"}
			if f[1] == 32 {
				encs = append(encs, "ss")
			}
			for _, e := range encs {
				muts = append(muts, fmt.Sprintf("runz:%d:%d+v%d:%d:%d:%s", n, l+16, f[0], f[1], l, e))
			}
		}
	}
	idx := 0
	for _, m := range muts {
		if !selected(seed, mod, ws[1], ws[2], force, m) {
			continue
		}
		if idx >= from {
			runOneOfMany(st, jobID, idx, single, base, ws[1], m, ws[2], g, force, seed)
		}
		idx++
	}
}

func runJob(st *wstate, jobID string, from int, single bool, text string) {
	if strings.HasPrefix(text, "probe ") {
		if from > 0 {
			return
		}
		st.begin(jobID, 0, text, single)
		obs := probeName(strings.TrimPrefix(text, "probe "))
		st.end(text, obs, false, single)
		return
	}
	if strings.HasPrefix(text, "allfmt ") {
		runAllFmt(st, jobID, from, single, text)
		return
	}
	if strings.HasPrefix(text, "fields ") {
		runFields(st, jobID, from, single, text)
		return
	}
	if strings.HasPrefix(text, "types ") {
		runTypes(st, jobID, from, single, text)
		return
	}
	if strings.HasPrefix(text, "runs ") {
		runRuns(st, jobID, from, single, text)
		return
	}
	if strings.HasPrefix(text, "near ") {
		runNear(st, jobID, from, single, text)
		return
	}
	if strings.HasPrefix(text, "chunk ") {
		runChunk(st, jobID, from, single, text)
		return
	}
	if !strings.HasPrefix(text, "batch ") {
		c, err := parseCase(text)
		if err != nil {
			st.mu.Lock()
			fmt.Fprintf(st.w, "C\t%s\tbadcase:parse\n", text)
			st.mu.Unlock()
			return
		}
		if from > 0 {
			return
		}
		st.begin(jobID, 0, c.op(), single)
		obs := runCase(c)
		st.end(c.op(), obs, false, single)
		return
	}
	b, err := parseBatch(text)
	if err != nil {
		st.mu.Lock()
		fmt.Fprintf(st.w, "C\t%s\tbadcase:parse\n", text)
		st.mu.Unlock()
		return
	}
	base, err := loadBase(b.path)
	if err != nil {
		st.mu.Lock()
		fmt.Fprintf(st.w, "C\t%s\tbadcase:read\n", text)
		st.mu.Unlock()
		return
	}
	g, err := groupFor(b.format)
	if err != nil {
		st.mu.Lock()
		fmt.Fprintf(st.w, "C\t%s\tbadcase:format\n", text)
		st.mu.Unlock()
		return
	}
	ms := batchMembers(b, len(base))
	for idx := from; idx < len(ms); idx++ {
		runOneOfMany(st, jobID, idx, single, base, b.path, ms[idx], b.format, g, b.force, b.seed)
	}
}

// runOneOfMany: one decode case of a multi-case job (histogrammed unless it panics); the case is repeated
// through the interpreter path for the 1/interpMod sample and whenever its error was raised deep.
func runOneOfMany(st *wstate, jobID string, idx int, single bool, base []byte, path, mut, format string, g *decode.Group, force bool, seed uint64) {
	c := caseSpec{kind: "d", path: path, mut: mut, format: format, force: force}
	st.begin(jobID, idx, c.op(), single)
	var obs string
	deep := false
	input, err := applyMut(base, mut)
	if err != nil {
		obs = "badcase:mut"
	} else {
		obs, deep = decodeObsDeep(input, g, format, force, nil)
	}
	st.end(c.op(), obs, true, single)
	if err == nil && (deep || selected(seed^0x5bd1e995, interpMod, path, format, force, "i:"+mut)) {
		ci := c
		ci.kind = "i"
		st.begin(jobID, idx, ci.op(), single)
		st.end(ci.op(), interpObs(input, format, force), false, single)
	}
}

// allfmt <path> <mut> <f|n>: one input decoded with every registered format and the probe group
func allFormatGroups() []string {
	var names []string
	for _, f := range interp.DefaultRegistry.MustAll().Formats {
		names = append(names, f.Name)
	}
	sort.Strings(names)
	return append(names, "probe")
}

func runAllFmt(st *wstate, jobID string, from int, single bool, text string) {
	ws := strings.Fields(text)
	fail := func(why string) {
		st.mu.Lock()
		fmt.Fprintf(st.w, "C\t%s\tbadcase:%s\n", text, why)
		st.mu.Unlock()
	}
	if len(ws) != 4 || (ws[3] != "f" && ws[3] != "n") {
		fail("parse")
		return
	}
	base, err := loadBase(ws[1])
	if err != nil {
		fail("read")
		return
	}
	names := allFormatGroups()
	for idx := from; idx < len(names); idx++ {
		g, err := groupFor(names[idx])
		if err != nil {
			continue
		}
		runOneOfMany(st, jobID, idx, single, base, ws[1], ws[2], names[idx], g, ws[3] == "f", 1)
	}
}

// fields <path> <format> <f|n> <seed> <mod> <max fields> <patterns>: field-aware length saturation. The unchanged file
// is decoded with <format>; every leaf field of at most 64 bits of the root buffer (at most <max fields>,
// in buffer order) is overwritten with each of the given patterns (letters of z,o,1,m,s — family.go) and decoded again.

func leafFields(base []byte, g *decode.Group, max int) (fs [][2]int64) {
	defer func() { _ = recover() }()
	return leafRanges(base, g, max, 64)
}

func leafRanges(base []byte, g *decode.Group, max int, maxLen int64) (fs [][2]int64) {
	dv, _, _ := decode.Decode(context.Background(), bitio.NewBitReader(base, -1), g, decode.Options{IsRoot: true})
	if dv == nil {
		return nil
	}
	seen := map[[2]int64]bool{}
	_ = dv.WalkRootPreOrder(func(v *decode.Value, _ *decode.Value, _ int, _ int) error {
		if _, ok := v.V.(*decode.Compound); ok {
			return nil
		}
		r := [2]int64{v.Range.Start, v.Range.Len}
		if r[1] < 1 || r[1] > maxLen || r[0] < 0 || r[0]+r[1] > int64(len(base))*8 || seen[r] {
			return nil
		}
		seen[r] = true
		fs = append(fs, r)
		return nil
	})
	sort.Slice(fs, func(i, j int) bool {
		if fs[i][0] != fs[j][0] {
			return fs[i][0] < fs[j][0]
		}
		return fs[i][1] < fs[j][1]
	})
	if len(fs) > max {
		fs = fs[:max]
	}
	return fs
}

func runFields(st *wstate, jobID string, from int, single bool, text string) {
	ws := strings.Fields(text)
	fail := func(why string) {
		st.mu.Lock()
		fmt.Fprintf(st.w, "C\t%s\tbadcase:%s\n", text, why)
		st.mu.Unlock()
	}
	if len(ws) != 8 || (ws[3] != "f" && ws[3] != "n") || strings.Trim(ws[7], "zo1ms") != "" {
		fail("parse")
		return
	}
	fieldPatterns := strings.Split(ws[7], "")
	seed, e1 := strconv.ParseUint(ws[4], 10, 64)
	mod, e2 := strconv.Atoi(ws[5])
	max, e3 := strconv.Atoi(ws[6])
	if e1 != nil || e2 != nil || e3 != nil {
		fail("parse")
		return
	}
	base, err := loadBase(ws[1])
	if err != nil {
		fail("read")
		return
	}
	g, err := groupFor(ws[2])
	if err != nil {
		fail("format")
		return
	}
	force := ws[3] == "f"
	st.begin(jobID, -1, "fields-scan "+text, single)
	fs := leafFields(base, g, max)
	st.mu.Lock()
	st.active = false
	st.mu.Unlock()
	idx := 0
	for _, f := range fs {
		for _, p := range fieldPatterns {
			m := fmt.Sprintf("f%d:%d:%s", f[0], f[1], p)
			if !selected(seed, mod, ws[1], ws[2], force, m) {
				continue
			}
			if idx >= from {
				runOneOfMany(st, jobID, idx, single, base, ws[1], m, ws[2], g, force, seed)
			}
			idx++
		}
	}
}
