//go:build verif

package main

import (
	"bytes"
	"encoding/json"
	"fmt"
	"math"
	"math/big"
	"sort"
	"strconv"
	"strings"
	"unicode/utf8"

	"github.com/wader/gojq"
)

// canon renders a jq value as canonical JSON text; the SAME function is applied to the values
// produced by the reference engine and by fq, so no formatter of either side takes part in the
// comparison of the `direct` and `batch` modes:
//   - integers (int, *big.Int) exact, in decimal;
//   - float64: an integral value below 2^63 in magnitude prints as that integer (JSON does not
//     distinguish 3 from 3.0, and jq's own `==` does not either); NaN -> "nan", ±Inf -> "inf"/"-inf",
//     everything else shortest round-trip ('g', -1) — so two floats are equal iff their text is;
//   - strings: JSON with every byte outside printable ASCII escaped (invalid UTF-8 bytes as \xHH,
//     so a replacement character and a raw broken byte stay distinguishable);
//   - object keys sorted;
//   - a gojq.JQValue (fq decode value / binary, e.g. the result of fq's `fromjson`) is replaced by
//     its JQValueToGoJQ() — what fq's own output path (`-c`, tojson, tovalue) does with it.
func canon(v any) string {
	var sb strings.Builder
	canonTo(&sb, v, 0)
	return sb.String()
}

func canonTo(sb *strings.Builder, v any, depth int) {
	if depth > 200 {
		sb.WriteString("<deep>")
		return
	}
	switch v := v.(type) {
	case nil:
		sb.WriteString("null")
	case bool:
		if v {
			sb.WriteString("true")
		} else {
			sb.WriteString("false")
		}
	case int:
		sb.WriteString(strconv.Itoa(v))
	case *big.Int:
		sb.WriteString(v.String())
	case float64:
		sb.WriteString(canonFloat(v))
	case string:
		canonString(sb, v)
	case []any:
		sb.WriteByte('[')
		for i, e := range v {
			if i > 0 {
				sb.WriteByte(',')
			}
			canonTo(sb, e, depth+1)
		}
		sb.WriteByte(']')
	case map[string]any:
		ks := make([]string, 0, len(v))
		for k := range v {
			ks = append(ks, k)
		}
		sort.Strings(ks)
		sb.WriteByte('{')
		for i, k := range ks {
			if i > 0 {
				sb.WriteByte(',')
			}
			canonString(sb, k)
			sb.WriteByte(':')
			canonTo(sb, v[k], depth+1)
		}
		sb.WriteByte('}')
	case gojq.JQValue:
		canonTo(sb, v.JQValueToGoJQ(), depth+1)
	default:
		fmt.Fprintf(sb, "<go:%T>", v)
	}
}

func canonFloat(f float64) string {
	switch {
	case math.IsNaN(f):
		return "nan"
	case math.IsInf(f, 1):
		return "inf"
	case math.IsInf(f, -1):
		return "-inf"
	case f == math.Trunc(f) && math.Abs(f) < 9.2e18:
		if f == 0 && math.Signbit(f) {
			return "-0"
		}
		return strconv.FormatInt(int64(f), 10)
	}
	return strconv.FormatFloat(f, 'g', -1, 64)
}

func canonString(sb *strings.Builder, s string) {
	sb.WriteByte('"')
	for i := 0; i < len(s); {
		c := s[i]
		switch {
		case c == '"' || c == '\\':
			sb.WriteByte('\\')
			sb.WriteByte(c)
			i++
		case c >= 0x20 && c < 0x7f:
			sb.WriteByte(c)
			i++
		case c < 0x80:
			fmt.Fprintf(sb, "\\u%04x", c)
			i++
		default:
			r, n := decodeRune(s[i:])
			if r < 0 {
				fmt.Fprintf(sb, "\\x%02x", c)
				i++
			} else {
				if r > 0xffff {
					fmt.Fprintf(sb, "\\U%08x", r)
				} else {
					fmt.Fprintf(sb, "\\u%04x", r)
				}
				i += n
			}
		}
	}
	sb.WriteByte('"')
}

// decodeRune: strict UTF-8 (returns -1 for any invalid sequence incl. surrogates/overlong)
func decodeRune(s string) (rune, int) {
	r, n := utf8.DecodeRuneInString(s)
	if r == utf8.RuneError && n <= 1 {
		return -1, 1
	}
	return r, n
}

// parseJSONExact parses JSON text keeping integers of any size exact (UseNumber, then integers
// -> int / *big.Int as gojq's normalizeNumbers does, everything else float64).
func parseJSONExact(s string) (any, error) {
	d := json.NewDecoder(bytes.NewReader([]byte(s)))
	d.UseNumber()
	var v any
	if err := d.Decode(&v); err != nil {
		return nil, err
	}
	if d.More() {
		return nil, fmt.Errorf("trailing data")
	}
	return fixNumbers(v), nil
}

func fixNumbers(v any) any {
	switch v := v.(type) {
	case json.Number:
		s := string(v)
		if !strings.ContainsAny(s, ".eE") {
			if i, err := strconv.Atoi(s); err == nil {
				return i
			}
			if b, ok := new(big.Int).SetString(s, 10); ok {
				return b
			}
		}
		f, _ := strconv.ParseFloat(s, 64)
		return f
	case []any:
		for i := range v {
			v[i] = fixNumbers(v[i])
		}
		return v
	case map[string]any:
		for k := range v {
			v[k] = fixNumbers(v[k])
		}
		return v
	}
	return v
}

// jsonText renders a value as JSON source text that both `--argjson` and a jq program accept
// (used for the op text and for CLI arguments); big integers exact, floats with an explicit
// fraction or exponent so that they stay floats.
func jsonText(v any) string {
	var sb strings.Builder
	jsonTextTo(&sb, v)
	return sb.String()
}

func jsonTextTo(sb *strings.Builder, v any) {
	switch v := v.(type) {
	case nil:
		sb.WriteString("null")
	case bool:
		if v {
			sb.WriteString("true")
		} else {
			sb.WriteString("false")
		}
	case int:
		sb.WriteString(strconv.Itoa(v))
	case *big.Int:
		sb.WriteString(v.String())
	case float64:
		s := strconv.FormatFloat(v, 'g', -1, 64)
		if !strings.ContainsAny(s, ".e") {
			s += ".0"
		}
		sb.WriteString(s)
	case string:
		b, _ := json.Marshal(v)
		// encoding/json escapes <,>,& as \u00XX: valid JSON and valid jq string syntax
		sb.Write(b)
	case []any:
		sb.WriteByte('[')
		for i, e := range v {
			if i > 0 {
				sb.WriteByte(',')
			}
			jsonTextTo(sb, e)
		}
		sb.WriteByte(']')
	case map[string]any:
		ks := make([]string, 0, len(v))
		for k := range v {
			ks = append(ks, k)
		}
		sort.Strings(ks)
		sb.WriteByte('{')
		for i, k := range ks {
			if i > 0 {
				sb.WriteByte(',')
			}
			jsonTextTo(sb, k)
			sb.WriteByte(':')
			jsonTextTo(sb, v[k])
		}
		sb.WriteByte('}')
	default:
		fmt.Fprintf(sb, "\"<go:%T>\"", v)
	}
}
