//go:build verif

package main

import (
	"bytes"
	"context"
	stdjson "encoding/json"
	"fmt"
	"math"
	"math/big"
	"sort"
	"strconv"
	"strings"

	"github.com/wader/fq/internal/colorjson"
	"github.com/wader/fq/internal/verifharness/hlib"
	"github.com/wader/fq/pkg/bitio"
	"github.com/wader/fq/pkg/decode"
	"github.com/wader/fq/pkg/interp"
	"github.com/wader/fq/pkg/scalar"
	"github.com/wader/gojq"
	gojqcli "github.com/wader/fq/internal/verifharness/gojqcli"
)

// -enc: the JSON TEXT LAYER, real against real against the Lean transliterations (FqModel/C07Enc.lean).
//
//	enc c <wire>            TAB <fq hex> <gojq hex>
//	    fq   = colorjson.NewEncoder(Options{Indent: 0}).Marshal(v)           (what `fq -c`, tojson, @json print)
//	    gojq = gojq.Marshal(v)                                               (the reference engine's encoder)
//	enc i <t|s><n> <wire>   TAB <fq hex> <cli hex | -> <gojq hex>
//	    fq   = colorjson with Tab/Indent n; cli = what the REAL encoder of the reference COMMAND writes
//	    (gojq cli/encoder.go compiled from the module cache, see ../gojqcli: `gojq -M --indent n` / `--tab`;
//	    the command itself accepts n <= 7, the encoder any n); gojq = gojq.Marshal(v) (for the white-space law)
//	num <token>             TAB <fq> <gojq> <ovf>
//	    a number token the JSON grammar accepts, through fq's real json decoder (format/json/json.go via
//	    decode.Decode) and through the reference's `fromjson`; observation = Go type and value of the result
//	    (int:<dec> | big:<dec> | float:<bits>), ovf = strconv.ParseFloat fails (the shared parameter of the model)
//	nr <tok>,<tok>,…        TAB rej | <first token some side accepts>:fq=<0|1>,gojq=<0|1>
//	    strings over 0-9.eE+- that are NOT number tokens: both implementations must reject each
//	frame <text hex>        TAB <fq> <gojq> <decode results>
//	    framing: texts with several values / trailing garbage; <decode results> = what successive
//	    (*json.Decoder).Decode calls return (v|eof|err …) and whether Token() after the first returns io.EOF
//
// Wire format of a value (no blanks): n | t | f | i<dec>; (Go int) | b<dec>; (*big.Int) |
// d<bits hex>:<clamped bits hex>:<AppendFloat 'f' hex>:<AppendFloat 'e' hex>; | s<hex>; | [v…] | {<keyhex>;v…}
// (object entries in generation order; the Go map has none).

type node struct {
	kind byte // n t f i b d s a o
	i    *big.Int
	f    float64
	s    string
	xs   []*node
	ks   []string
}

func (n *node) goValue() any {
	switch n.kind {
	case 'n':
		return nil
	case 't':
		return true
	case 'f':
		return false
	case 'i':
		return int(n.i.Int64())
	case 'b':
		return new(big.Int).Set(n.i)
	case 'd':
		return n.f
	case 's':
		return n.s
	case 'a':
		vs := make([]any, len(n.xs))
		for i, x := range n.xs {
			vs[i] = x.goValue()
		}
		return vs
	default:
		m := map[string]any{}
		for i, x := range n.xs {
			m[n.ks[i]] = x.goValue()
		}
		return m
	}
}

func clampRef(f float64) float64 {
	if f > math.MaxFloat64 {
		return math.MaxFloat64
	}
	if f < -math.MaxFloat64 {
		return -math.MaxFloat64
	}
	return f
}

func (n *node) wire(sb *strings.Builder) {
	switch n.kind {
	case 'n', 't', 'f':
		sb.WriteByte(n.kind)
	case 'i', 'b':
		sb.WriteByte(n.kind)
		sb.WriteString(n.i.String())
		sb.WriteByte(';')
	case 'd':
		c := n.f
		if !math.IsNaN(c) {
			c = clampRef(c)
		}
		var b [64]byte
		fmt.Fprintf(sb, "d%016x:%016x:%s:%s;", math.Float64bits(n.f), math.Float64bits(c),
			hlib.Hex(strconv.AppendFloat(b[:0], c, 'f', -1, 64)), hlib.Hex(strconv.AppendFloat(b[:0], c, 'e', -1, 64)))
	case 's':
		sb.WriteByte('s')
		if n.s != "" {
			sb.WriteString(hlib.Hex([]byte(n.s)))
		}
		sb.WriteByte(';')
	case 'a':
		sb.WriteByte('[')
		for _, x := range n.xs {
			x.wire(sb)
		}
		sb.WriteByte(']')
	case 'o':
		sb.WriteByte('{')
		for i, x := range n.xs {
			if n.ks[i] != "" {
				sb.WriteString(hlib.Hex([]byte(n.ks[i])))
			}
			sb.WriteByte(';')
			x.wire(sb)
		}
		sb.WriteByte('}')
	}
}

func nInt(v int64) *node      { return &node{kind: 'i', i: big.NewInt(v)} }
func nBig(v *big.Int) *node   { return &node{kind: 'b', i: v} }
func nStr(s string) *node     { return &node{kind: 's', s: s} }
func nFloat(f float64) *node  { return &node{kind: 'd', f: f} }
func nArr(xs ...*node) *node  { return &node{kind: 'a', xs: xs} }
func nLit(k byte) *node       { return &node{kind: k} }
func nNum(v *big.Int) *node {
	if v.IsInt64() {
		return nInt(v.Int64())
	}
	return nBig(v)
}
func nObj(ks []string, xs []*node) *node {
	seen := map[string]bool{}
	o := &node{kind: 'o'}
	for i, k := range ks {
		if seen[k] {
			continue
		}
		seen[k] = true
		o.ks = append(o.ks, k)
		o.xs = append(o.xs, xs[i])
	}
	return o
}

func fqMarshal(v any, tab bool, indent int) string {
	var bb bytes.Buffer
	e := colorjson.NewEncoder(colorjson.Options{Tab: tab, Indent: indent, Colors: colorjson.Colors{}})
	msg, panicked := hlib.Catch(func() string {
		if err := e.Marshal(v, &bb); err != nil {
			return "err"
		}
		return ""
	})
	if panicked || msg != "" {
		return "!" + msg
	}
	return hexOrDash(bb.Bytes())
}

func gojqMarshal(v any) string {
	var out []byte
	msg, panicked := hlib.Catch(func() string {
		b, err := gojq.Marshal(v)
		if err != nil {
			return "err"
		}
		out = b
		return ""
	})
	if panicked || msg != "" {
		return "!" + msg
	}
	return hexOrDash(out)
}

func hexOrDash(b []byte) string {
	if len(b) == 0 {
		return "-"
	}
	return hlib.Hex(b)
}

type indentCfg struct {
	tab    bool
	indent int
}

func (c indentCfg) String() string {
	if c.tab {
		return fmt.Sprintf("t%d", c.indent)
	}
	return fmt.Sprintf("s%d", c.indent)
}

// the configurations the reference command can be asked for (cli.go:145-150: 0..7; --tab = 1 tab)
var cliCfgs = []indentCfg{{false, 1}, {false, 2}, {false, 3}, {false, 7}, {true, 1}}

// fq only (tojson($opts) accepts 0..1024): the indentation writer's copy loop beyond its 32-space / 16-tab constant
var fqOnlyCfgs = []indentCfg{{false, 9}, {false, 33}, {true, 17}, {false, 130}}

func cliMarshal(v any, tab bool, indent int) string {
	var out []byte
	msg, panicked := hlib.Catch(func() string {
		b, err := gojqcli.VerifC07Marshal(tab, indent, v)
		if err != nil {
			return "err"
		}
		out = b
		return ""
	})
	if panicked || msg != "" {
		return "!" + msg
	}
	return hexOrDash(out)
}

// ---------------------------------------------------------------- values

var boundaryRunes = []rune{0, 1, 0x1f, 0x20, 0x22, 0x26, 0x3c, 0x3e, 0x5c, 0x7e, 0x7f, 0x80, 0x85, 0x9f, 0xa0, 0xff, 0x7ff, 0x800,
	0x2027, 0x2028, 0x2029, 0x202a, 0xd7ff, 0xe000, 0xfeff, 0xfffc, 0xfffd, 0xfffe, 0xffff, 0x10000, 0x1f600, 0x10fffe, 0x10ffff}

var invalidSeqs = []string{
	"\x80", "\xbf", "\xc0\x80", "\xc1\xbf", "\xc2", "\xc2\x20", "\xdf", "\xe0\x80\x80", "\xe0\x9f\xbf", "\xe0\xa0", "\xe0\xa0\x20",
	"\xed\xa0\x80", "\xed\xbf\xbf", "\xed\x9f", "\xef\xbf", "\xf0\x80\x80\x80", "\xf0\x8f\xbf\xbf", "\xf0\x90\x80", "\xf0\x90",
	"\xf4\x90\x80\x80", "\xf4\x8f\xbf", "\xf5\x80\x80\x80", "\xf8\x88\x80\x80\x80", "\xfe", "\xff", "\xe2\x80", "\xe2\x80\x20\xa8",
	"\xf0\x9f\x98", "\xf0\x9f\x98\x20", "\xc2\xc2\x80", "\xe0\xe0\xa0\x80", "\x80\x80\x80\x80",
}

func boundaryStrings() []string {
	var ss []string
	for _, r := range boundaryRunes {
		s := string(r)
		ss = append(ss, s, "a"+s, s+"b", "\""+s+"\\", s+s)
	}
	for _, q := range invalidSeqs {
		ss = append(ss, q, "a"+q, q+"b", q+"\xe2\x80\xa8", "\xf0\x9f\x98\x80"+q, q+q)
	}
	return ss
}

func pow2(k uint) *big.Int { return new(big.Int).Lsh(big.NewInt(1), k) }

func boundaryInts() []*node {
	var ns []*node
	add := func(v *big.Int) {
		ns = append(ns, nNum(v))
		if v.IsInt64() && (v.BitLen() > 60 || v.BitLen() < 3) {
			ns = append(ns, nBig(new(big.Int).Set(v))) // a *big.Int that would fit an int: both encoders must cope
		}
	}
	for _, k := range []uint{0, 7, 8, 15, 16, 31, 32, 53, 62, 63, 64, 65, 100, 128, 200} {
		for d := int64(-2); d <= 2; d++ {
			p := new(big.Int).Add(pow2(k), big.NewInt(d))
			add(p)
			add(new(big.Int).Neg(p))
		}
	}
	for _, s := range []string{"9", "10", "99", "100", "999999999999999999", "1000000000000000000", "9999999999999999999",
		"10000000000000000000", "99999999999999999999", "100000000000000000000", "123456789012345678901234567890",
		"1000000000000000000000000000000000000000000000000000000000000000000000000000"} {
		v, _ := new(big.Int).SetString(s, 10)
		add(v)
		add(new(big.Int).Neg(v))
	}
	return ns
}

func boundaryFloats(r *hlib.Rand) []*node {
	var fs []float64
	nb := func(bits uint64) {
		for d := -2; d <= 2; d++ {
			fs = append(fs, math.Float64frombits(uint64(int64(bits)+int64(d))))
		}
	}
	for _, f := range []float64{0, 1e-6, 1e21, math.MaxFloat64, math.SmallestNonzeroFloat64, 1, 1e-7, 1e-9, 1e-10, 1e-100, 1e22, 1e100,
		0.1, 1.5, 123456789.125, 1e20, 1e-5, 9007199254740992, 5e-324, 2.2250738585072014e-308} {
		nb(math.Float64bits(f))
		nb(math.Float64bits(-f))
	}
	fs = append(fs, math.Inf(1), math.Inf(-1), math.NaN(), math.Float64frombits(0xfff8000000000001), math.Float64frombits(0x7ff0000000000001),
		math.Copysign(0, -1))
	for i := 0; i < 60; i++ {
		fs = append(fs, math.Float64frombits(r.U64()))
	}
	var ns []*node
	seen := map[uint64]bool{}
	for _, f := range fs {
		b := math.Float64bits(f)
		if seen[b] {
			continue
		}
		seen[b] = true
		ns = append(ns, nFloat(f))
	}
	return ns
}

func randKey(r *hlib.Rand) string {
	switch r.Intn(6) {
	case 0:
		return ""
	case 1:
		return string(rune('a' + r.Intn(3)))
	case 2:
		return string(r.Bytes(r.Range(1, 3)))
	case 3:
		return string(boundaryRunes[r.Intn(len(boundaryRunes))])
	case 4:
		return invalidSeqs[r.Intn(len(invalidSeqs))]
	default:
		return strings.Repeat("a", r.Intn(3)) + string(rune(r.Intn(0x300)))
	}
}

func randLeaf(r *hlib.Rand, ints, floats []*node, strs []string) *node {
	switch r.Intn(8) {
	case 0:
		return nLit('n')
	case 1:
		return nLit('t')
	case 2:
		return nLit('f')
	case 3:
		return ints[r.Intn(len(ints))]
	case 4:
		return floats[r.Intn(len(floats))]
	case 5:
		return nStr(strs[r.Intn(len(strs))])
	case 6:
		return nInt(int64(r.Intn(2000) - 1000))
	default:
		return nStr(string(r.Bytes(r.Intn(4))))
	}
}

func randTree(r *hlib.Rand, depth int, ints, floats []*node, strs []string) *node {
	if depth == 0 || r.Intn(4) == 0 {
		return randLeaf(r, ints, floats, strs)
	}
	n := r.Intn(4)
	xs := make([]*node, n)
	for i := range xs {
		xs[i] = randTree(r, depth-1, ints, floats, strs)
	}
	if r.Bool() {
		return nArr(xs...)
	}
	ks := make([]string, n)
	for i := range ks {
		ks[i] = randKey(r)
	}
	return nObj(ks, xs)
}

// chain: every container combination to depth 4, ending in an empty container, a scalar, or two members
func chains() []*node {
	var out []*node
	for depth := 1; depth <= 4; depth++ {
		for mask := 0; mask < 1<<depth; mask++ {
			for leaf := 0; leaf < 3; leaf++ {
				var cur *node
				switch leaf {
				case 0:
					cur = nil
				case 1:
					cur = nInt(1)
				default:
					cur = nStr("x y")
				}
				for d := depth - 1; d >= 0; d-- {
					var xs []*node
					if cur != nil {
						xs = []*node{cur}
						if leaf == 2 {
							xs = append(xs, nLit('n'))
						}
					}
					if mask>>d&1 == 0 {
						cur = nArr(xs...)
					} else {
						ks := []string{"k", "a b"}
						cur = nObj(ks[:len(xs)], xs)
					}
				}
				out = append(out, cur)
			}
		}
	}
	return out
}

type encCase struct {
	n     *node
	class string
	cfgs  []indentCfg // indented configurations besides compact
}

func encCases(cfg hlib.Config) []encCase {
	r := hlib.NewRand(cfg.Seed ^ 0xC07E)
	var cs []encCase
	two := []indentCfg{{false, 2}}
	all := append(append([]indentCfg{}, cliCfgs...), fqOnlyCfgs...)
	// every byte string of length <= 2: as a string, and as an object key
	cs = append(cs, encCase{nStr(""), "str0", two}, encCase{nObj([]string{""}, []*node{nLit('n')}), "key0", two})
	var l1, k1 []*node
	var k1s []string
	for b := 0; b < 256; b++ {
		s := string([]byte{byte(b)})
		l1 = append(l1, nStr(s))
		k1s = append(k1s, s)
		k1 = append(k1, nInt(int64(b)))
		cs = append(cs, encCase{nStr(s), "str1", nil}, encCase{nObj([]string{s}, []*node{nLit('t')}), "key1", nil})
	}
	cs = append(cs, encCase{nArr(l1...), "str1all", two}, encCase{nObj(k1s, k1), "key1all", two})
	for b0 := 0; b0 < 256; b0++ {
		xs := make([]*node, 256)
		ks := make([]string, 256)
		vs := make([]*node, 256)
		for b1 := 0; b1 < 256; b1++ {
			s := string([]byte{byte(b0), byte(b1)})
			xs[b1] = nStr(s)
			// keys in a scrambled generation order, so that the sort has work to do
			j := (b1*37 + b0) & 255
			ks[b1] = string([]byte{byte(b0), byte(j)})
			vs[b1] = nInt(int64(j))
		}
		var ic []indentCfg
		if b0%32 == int(cfg.Seed%32) {
			ic = two
		}
		cs = append(cs, encCase{nArr(xs...), "str2", ic}, encCase{nObj(ks, vs), "key2", ic})
	}
	strs := boundaryStrings()
	for _, s := range strs {
		cs = append(cs, encCase{nStr(s), "strb", two}, encCase{nObj([]string{s, "m", s + "\x00"}, []*node{nInt(1), nInt(2), nInt(3)}), "keyb", two})
	}
	ints := boundaryInts()
	for _, n := range ints {
		cs = append(cs, encCase{n, "int", nil})
	}
	cs = append(cs, encCase{nArr(ints...), "ints", two})
	floats := boundaryFloats(r.Fork())
	for _, n := range floats {
		cs = append(cs, encCase{n, "float", nil})
	}
	cs = append(cs, encCase{nArr(floats...), "floats", two})
	for _, k := range []byte{'n', 't', 'f'} {
		cs = append(cs, encCase{nLit(k), "lit", two})
	}
	for _, n := range chains() {
		cs = append(cs, encCase{n, "chain", all})
	}
	// key order: prefixes, bytes >= 0x80 against ASCII, the empty key, multi-byte against single bytes
	ordKeys := []string{"b", "a", "", "ab", "a\x00", "aa", "B", "\xff", "\x7f", "\x80", "é", "z", "\xc3", "\xc3\xa8", "a\xff", "a b", "10", "9", "1", "\U0001f600", "\uffff"}
	ordVals := make([]*node, len(ordKeys))
	for i := range ordVals {
		ordVals[i] = nInt(int64(i))
	}
	cs = append(cs, encCase{nObj(ordKeys, ordVals), "order", all})
	nt := 300
	if cfg.Thorough() {
		nt = 6000
	}
	for i := 0; i < nt; i++ {
		ic := []indentCfg{all[i%len(all)]}
		cs = append(cs, encCase{randTree(r.Fork(), 4, ints, floats, strs), "tree", ic})
	}
	return cs
}

func emitEncCases(o *hlib.Out, cs []encCase) {
	for _, c := range cs {
		var sb strings.Builder
		c.n.wire(&sb)
		w := sb.String()
		v := c.n.goValue()
		g := gojqMarshal(v)
		o.Case("enc c "+w, fqMarshal(v, false, 0)+" "+g)
		o.Class("enc:" + w)
		o.Stat("enc_"+c.class, 1)
		for _, ic := range c.cfgs {
			o.Case("enc i "+ic.String()+" "+w, fqMarshal(v, ic.tab, ic.indent)+" "+cliMarshal(v, ic.tab, ic.indent)+" "+g)
			o.Stat("enc_indent_"+ic.String(), 1)
		}
	}
}

// ---------------------------------------------------------------- fromjson: number tokens and framing

var refFromJSON *gojq.Code

func gojqFromJSON(text string) (any, bool) {
	if refFromJSON == nil {
		q, err := gojq.Parse("fromjson")
		if err != nil {
			panic(err)
		}
		refFromJSON, err = gojq.Compile(q)
		if err != nil {
			panic(err)
		}
	}
	it := refFromJSON.Run(text)
	v, ok := it.Next()
	if !ok {
		return nil, false
	}
	if _, isErr := v.(error); isErr {
		return nil, false
	}
	return v, true
}

var jsonGroup *decode.Group

// fqFromJSON: fq's json decoder (format/json/json.go decodeJSON) on the bytes of the text, as `fromjson` =
// `decode("json")` runs it; the value is the scalar's Actual
func fqFromJSON(text string) (any, bool) {
	if jsonGroup == nil {
		g, err := interp.DefaultRegistry.Group("json")
		if err != nil {
			panic(err)
		}
		jsonGroup = g
	}
	var res any
	ok := false
	_, panicked := hlib.Catch(func() string {
		br := bitio.NewBitReader([]byte(text), -1)
		dv, _, err := decode.Decode(context.Background(), br, jsonGroup, decode.Options{IsRoot: true, FillGaps: true})
		if err != nil || dv == nil {
			return ""
		}
		if dv.Err != nil {
			return ""
		}
		s, isAny := dv.V.(*scalar.Any)
		if !isAny {
			return ""
		}
		res, ok = s.Actual, true
		return ""
	})
	if panicked {
		return nil, false
	}
	return res, ok
}

func normText(v any, ok bool) string {
	if !ok {
		return "err"
	}
	switch v := v.(type) {
	case int:
		return "int:" + strconv.Itoa(v)
	case *big.Int:
		return "big:" + v.String()
	case float64:
		return fmt.Sprintf("float:%016x", math.Float64bits(v))
	default:
		return fmt.Sprintf("other:%T", v)
	}
}

const numAlphabet = "0123456789.eE+-"

func emitNumTokens(o *hlib.Out, cfg hlib.Config) {
	maxLen := 5
	var rej []string
	flush := func() {
		if len(rej) == 0 {
			return
		}
		oneNr(o, rej)
		rej = rej[:0]
	}
	one := func(t string) {
		fv, fok := fqFromJSON(t)
		gv, gok := gojqFromJSON(t)
		_, perr := strconv.ParseFloat(t, 64)
		o.Case("num "+t, normText(fv, fok)+" "+normText(gv, gok)+" "+strconv.Itoa(b2i(perr != nil)))
		o.Class("num:" + t)
		o.Stat("num_tokens", 1)
	}
	// every string over the alphabet up to maxLen: the ones encoding/json takes as ONE number go through both
	// implementations one by one; the others are rejected in batches
	buf := make([]byte, 0, maxLen)
	var rec func()
	nrej := 0
	rec = func() {
		if len(buf) > 0 {
			t := string(buf)
			if stdjson.Valid(buf) {
				one(t)
			} else {
				rej = append(rej, t)
				nrej++
				if len(rej) == 500 {
					flush()
				}
			}
		}
		if len(buf) == maxLen {
			return
		}
		for i := 0; i < len(numAlphabet); i++ {
			buf = append(buf, numAlphabet[i])
			rec()
			buf = buf[:len(buf)-1]
		}
	}
	rec()
	flush()
	o.Stat("num_rejected_strings", nrej)
	// longer tokens: the int64 / big / float / overflow boundaries
	for _, t := range []string{"-1e999", "1e-999", "-1e-999", "1E+999", "-1.5e+999", "0e999", "100000000000000000000", "-100000000000000000000",
		"9223372036854775806", "9223372036854775807", "9223372036854775808", "-9223372036854775807", "-9223372036854775808",
		"-9223372036854775809", "18446744073709551615", "18446744073709551616", "9007199254740993", "1.0", "1.00000", "-0.0", "0.0e0",
		"123456789012345678901234567890", "-123456789012345678901234567890", "1234567890.0123456789", "1e0000000000000000000001",
		"0.000000000000000000000000000000000001", "179769313486231570000000000000000000000000000000000000000000000000000000000000000000000000000000000000000000000000000000000000000000000000000000000000000000000000000000000000000000000000000000000000000000000000000000000000000000000000000000000000000000000000000000000000000000000000000000000000",
		"1.7976931348623157e308", "1.7976931348623159e308", "1.8e308", "-1.8e308", "4.9e-324", "2e-324", "1e400", "-1e400", "12345e-2", "100e-2", "1E2", "1e+2",
		"00", "01", "-01", "1.", ".1", "1e", "1e+", "+1", "--1", "0x10", "1_000", "1e1.5", "Infinity", "NaN", "-", ""} {
		if stdjson.Valid([]byte(t)) {
			one(t)
		} else {
			rej = append(rej, t)
		}
	}
	// the empty string cannot travel in a comma list
	var rej2 []string
	for _, t := range rej {
		if t != "" && !strings.Contains(t, ",") {
			rej2 = append(rej2, t)
		}
	}
	rej = rej2
	flush()
}

func oneNr(o *hlib.Out, rej []string) {
	obs := "rej"
	for _, t := range rej {
		_, a := fqFromJSON(t)
		_, b := gojqFromJSON(t)
		if a || b {
			obs = fmt.Sprintf("%s:fq=%d,gojq=%d", t, b2i(a), b2i(b))
			break
		}
	}
	o.Case("nr "+strings.Join(rej, ","), obs)
}

func b2i(b bool) int {
	if b {
		return 1
	}
	return 0
}

// framing: what successive Decode calls see, and what the two implementations conclude
func emitFraming(o *hlib.Out) {
	texts := []string{"", " ", "\n\t ", "1", " 1 ", "1 ", "1\n", "1 2", "1 2 3", "1,", "1]", "1}", "[1] [2]", "[1]]", "{} {}", "{}x", "\"a\" \"b\"", "\"a\"x",
		"null null", "nullx", "nul", "[1", "[1,", "{\"a\":1} ", "{\"a\":1}}", "1 x", "x", "x 1", "1-1", "1 -", "-", "- 1", "01", "1.5.5", "1e5e5", "true false",
		"truefalse", "[] ", " []", "[]\x00", "\xef\xbb\xbf1", "1\xef\xbb\xbf", "1 \x0c", "1\x0b", "1 //c", "1/**/", "[1,2] 3 [", "\"\\u00e9\" ", "1 2 x", "1 x 2"}
	for _, t := range texts {
		oneFrame(o, t)
	}
}

func oneFrame(o *hlib.Out, t string) {
	{
		fv, fok := fqFromJSON(t)
		gv, gok := gojqFromJSON(t)
		// the shared parameter: what encoding/json's Decoder returns call after call
		var ds []string
		dec := stdjson.NewDecoder(strings.NewReader(t))
		dec.UseNumber()
		for i := 0; i < 8; i++ {
			var v any
			err := dec.Decode(&v)
			if err == nil {
				ds = append(ds, "v")
				continue
			}
			if err.Error() == "EOF" {
				ds = append(ds, "eof")
			} else {
				ds = append(ds, "err")
			}
			break
		}
		tokEOF := 0
		dec2 := stdjson.NewDecoder(strings.NewReader(t))
		dec2.UseNumber()
		var v any
		if err := dec2.Decode(&v); err == nil {
			if _, err := dec2.Token(); err != nil && err.Error() == "EOF" {
				tokEOF = 1
			}
		}
		th := "-"
		if t != "" {
			th = hlib.Hex([]byte(t))
		}
		o.Case("frame "+th, frameObs(fv, fok)+" "+frameObs(gv, gok)+" "+strings.Join(ds, ",")+";tok="+strconv.Itoa(tokEOF))
		o.Class("frame:" + th)
		o.Stat("frame_texts", 1)
	}
}

func frameObs(v any, ok bool) string {
	if !ok {
		return "fail"
	}
	return "ok:" + gojqMarshal(v)
}

func emitEnc(o *hlib.Out, cfg hlib.Config) {
	cs := encCases(cfg)
	emitEncCases(o, cs)
	emitNumTokens(o, cfg)
	emitFraming(o)
}

func replayEnc(o *hlib.Out, lines []string) {
	// op texts are self-contained: rebuild the value from the wire
	var cs []encCase
	for _, l := range lines {
		ws := strings.Fields(l)
		switch {
		case len(ws) == 3 && ws[0] == "enc" && ws[1] == "c":
			if n, rest, ok := parseWire(ws[2]); ok && rest == "" {
				cs = append(cs, encCase{n, "replay", nil})
			}
		case len(ws) == 4 && ws[0] == "enc" && ws[1] == "i":
			if n, rest, ok := parseWire(ws[3]); ok && rest == "" && len(ws[2]) >= 2 {
				k, _ := strconv.Atoi(ws[2][1:])
				cs = append(cs, encCase{n, "replay", []indentCfg{{ws[2][0] == 't', k}}})
			}
		case len(ws) == 2 && ws[0] == "num":
			fv, fok := fqFromJSON(ws[1])
			gv, gok := gojqFromJSON(ws[1])
			_, perr := strconv.ParseFloat(ws[1], 64)
			o.Case(l, normText(fv, fok)+" "+normText(gv, gok)+" "+strconv.Itoa(b2i(perr != nil)))
		case len(ws) == 2 && ws[0] == "nr":
			oneNr(o, strings.Split(ws[1], ","))
		case len(ws) == 2 && ws[0] == "frame":
			if ws[1] == "-" {
				oneFrame(o, "")
			} else {
				oneFrame(o, string(hlib.UnHex(ws[1])))
			}
		}
	}
	emitEncCases(o, cs)
}

func parseWire(s string) (*node, string, bool) {
	if s == "" {
		return nil, s, false
	}
	untilSemi := func(t string) (string, string, bool) {
		i := strings.IndexByte(t, ';')
		if i < 0 {
			return "", t, false
		}
		return t[:i], t[i+1:], true
	}
	switch s[0] {
	case 'n', 't', 'f':
		return nLit(s[0]), s[1:], true
	case 'i', 'b':
		d, rest, ok := untilSemi(s[1:])
		v, ok2 := new(big.Int).SetString(d, 10)
		if !ok || !ok2 {
			return nil, s, false
		}
		return &node{kind: s[0], i: v}, rest, true
	case 'd':
		d, rest, ok := untilSemi(s[1:])
		if !ok || len(d) < 16 {
			return nil, s, false
		}
		bits, err := strconv.ParseUint(d[:16], 16, 64)
		if err != nil {
			return nil, s, false
		}
		return nFloat(math.Float64frombits(bits)), rest, true
	case 's':
		d, rest, ok := untilSemi(s[1:])
		if !ok {
			return nil, s, false
		}
		return nStr(string(hlib.UnHex(d))), rest, true
	case '[':
		rest := s[1:]
		var xs []*node
		for rest != "" && rest[0] != ']' {
			n, r, ok := parseWire(rest)
			if !ok {
				return nil, s, false
			}
			xs = append(xs, n)
			rest = r
		}
		if rest == "" {
			return nil, s, false
		}
		return nArr(xs...), rest[1:], true
	case '{':
		rest := s[1:]
		o := &node{kind: 'o'}
		for rest != "" && rest[0] != '}' {
			k, r, ok := untilSemi(rest)
			if !ok {
				return nil, s, false
			}
			n, r2, ok := parseWire(r)
			if !ok {
				return nil, s, false
			}
			o.ks = append(o.ks, string(hlib.UnHex(k)))
			o.xs = append(o.xs, n)
			rest = r2
		}
		if rest == "" {
			return nil, s, false
		}
		return o, rest[1:], true
	}
	return nil, s, false
}

var _ = sort.Strings
