//go:build verif

package main

import "github.com/wader/fq/internal/verifharness/hlib"

func emitFacts(o *hlib.Out) {}
