//go:build verif

package main

import (
	"bytes"
	"fmt"
	"io/fs"
	"path"
	"sort"
	"strings"

	"github.com/wader/fq/internal/colorjson"
	"github.com/wader/fq/internal/verifharness/hlib"
	"github.com/wader/fq/pkg/interp"
	"github.com/wader/gojq"
)

// -facts: the override table of lean/FqModel/Gen/Overrides.lean, derived a SECOND time by other means:
//   - the sources are the embedded file systems of the running binary (interp's builtinFS, Registry.FSs in
//     their real registration order), followed like interp.go:826-947 does: `include`s depth first, a file
//     once, a file with a root expression is a dynamic include whose OUTPUT (evaluated by fq) is the source;
//   - they are parsed with the gojq parser (FuncDefs of the module query);
//   - "is a builtin" = the reference engine compiles a call of that name/arity with nothing else defined
//     (plus debug/0, stderr/0, input_filename/0, which belong to gojq's CLI);
//   - shapes are compared on the AST (printed form of sub-queries).
// One case line per colliding definition: `ov <name>/<arity> <file>` TAB `<shape>`; then `count` TAB n and
// `gofn` TAB the Go-registered fq functions that collide with a builtin (expected none: gojq looks custom
// functions up last, compiler.go:1041, so such a function would be dead).
// Drv/C07.lean compares every line with Gen.Overrides (DIVERGE = the text scanner and the parser disagree).

type fdef struct {
	file string
	fd   *gojq.FuncDef
}

func isRefBuiltin(name string, arity int) bool {
	switch fmt.Sprintf("%s/%d", name, arity) {
	case "debug/0", "debug/1", "stderr/0", "input_filename/0":
		return true
	}
	call := name
	if arity > 0 {
		call += "(" + strings.TrimSuffix(strings.Repeat(".;", arity), ";") + ")"
	}
	q, err := gojq.Parse(call)
	if err != nil {
		return false // a keyword or otherwise not callable
	}
	_, err = gojq.Compile(q)
	if err == nil {
		return true
	}
	return !strings.Contains(err.Error(), "function not defined")
}

func printed(src string) string {
	q, err := gojq.Parse(src)
	if err != nil {
		return "<unparsable " + src + ">"
	}
	return q.String()
}

func callSrc(name string, params []string) string {
	if len(params) == 0 {
		return name
	}
	return name + "(" + strings.Join(params, "; ") + ")"
}

// topCall: q is exactly one function call `f(args…)` (no suffix, no operator, no local definitions)
func topCall(q *gojq.Query) (string, []*gojq.Query, bool) {
	if q == nil || len(q.FuncDefs) != 0 || q.Op != gojq.Operator(0) || q.Left != nil || q.Right != nil {
		return "", nil, false
	}
	if q.Func != "" {
		return q.Func, nil, true
	}
	t := q.Term
	if t == nil || t.Type != gojq.TermTypeFunc || t.Func == nil || len(t.SuffixList) != 0 {
		return "", nil, false
	}
	return t.Func.Name, t.Func.Args, true
}

func loadAll(f *fqInst) ([]fdef, []string, error) {
	bfs := interp.VerifC07BuiltinFS()
	var regFiles []struct{ name, data string }
	for _, rfs := range interp.DefaultRegistry.FSs {
		es, err := rfs.ReadDir(".")
		if err != nil {
			return nil, nil, err
		}
		for _, e := range es {
			if !strings.HasSuffix(e.Name(), ".jq") {
				continue
			}
			b, err := fs.ReadFile(rfs, e.Name())
			if err != nil {
				return nil, nil, err
			}
			regFiles = append(regFiles, struct{ name, data string }{e.Name(), string(b)})
		}
	}
	var all []fdef
	var dynamic []string
	seen := map[string]bool{}
	var load func(name string) error
	load = func(name string) error {
		if strings.HasPrefix(name, "@config/") {
			return nil
		}
		name = strings.TrimPrefix(name, "@builtin/")
		fn := name + ".jq"
		if seen[fn] {
			return nil
		}
		seen[fn] = true
		b, err := fs.ReadFile(bfs, fn)
		if err != nil {
			return fmt.Errorf("include %q: %w", name, err)
		}
		q, err := gojq.Parse(string(b))
		if err != nil {
			return fmt.Errorf("%s: %w", fn, err)
		}
		file := "pkg/interp/" + fn
		if q.Term != nil || q.Op != gojq.Operator(0) || q.Func != "" {
			// dynamic include: the output of the root expression is the source (interp.go:888-923)
			dynamic = append(dynamic, file)
			if name == "registry_include" {
				// its output is the registry's .jq files joined with "\n": parse them one by one, same order
				for _, rf := range regFiles {
					rq, err := gojq.Parse(rf.data)
					if err != nil {
						return fmt.Errorf("%s: %w", rf.name, err)
					}
					for _, fd := range rq.FuncDefs {
						all = append(all, fdef{"format/*/" + rf.name, fd})
					}
				}
				// and check that this is what fq's own evaluation of the include gives
				src, err := f.evalString(string(b))
				if err != nil {
					return fmt.Errorf("%s: %w", fn, err)
				}
				var want []string
				for _, rf := range regFiles {
					want = append(want, rf.data)
				}
				if src != strings.Join(want, "\n") {
					return fmt.Errorf("%s: output is not the registry files in FS order", fn)
				}
				return nil
			}
			src, err := f.evalString(string(b))
			if err != nil {
				return fmt.Errorf("%s: %w", fn, err)
			}
			q, err = gojq.Parse(src)
			if err != nil {
				return fmt.Errorf("%s (generated): %w", fn, err)
			}
		}
		for _, im := range q.Imports {
			p := im.IncludePath
			if p == "" {
				p = im.ImportPath
			}
			if !strings.HasPrefix(p, "@") && !path.IsAbs(p) {
				p = path.Join(path.Dir(name), p)
			}
			if err := load(p); err != nil {
				return err
			}
		}
		for _, fd := range q.FuncDefs {
			all = append(all, fdef{file, fd})
		}
		return nil
	}
	if err := load("init"); err != nil {
		return nil, nil, err
	}
	return all, dynamic, nil
}

func (f *fqInst) evalString(prog string) (string, error) {
	o := f.evalDirectRaw(prog)
	if len(o) != 1 {
		return "", fmt.Errorf("want one output, got %d", len(o))
	}
	s, ok := o[0].(string)
	if !ok {
		return "", fmt.Errorf("output is not a string")
	}
	return s, nil
}

func emitFacts(o *hlib.Out) {
	f := newFq()
	all, dynamic, err := loadAll(f)
	if err != nil {
		o.Verdict("BADOP", "cannot follow the include graph: "+err.Error())
		return
	}
	key := func(fd *gojq.FuncDef) string { return fmt.Sprintf("%s/%d", fd.Name, len(fd.Args)) }
	first := map[string]int{}
	for i, d := range all {
		if _, ok := first[key(d.fd)]; !ok {
			first[key(d.fd)] = i
		}
	}
	n := 0
	for i, d := range all {
		fd := d.fd
		if !isRefBuiltin(fd.Name, len(fd.Args)) {
			continue
		}
		n++
		shape := "other"
		name, args, ok := topCall(fd.Body)
		if ok && (name == "_binary_or_orig" || name == "_bytes_or_orig") && len(args) == 2 &&
			args[1].String() == printed(callSrc("_orig_"+fd.Name, fd.Args)) {
			cnt, capt := 0, -1
			for j := 0; j < i; j++ {
				c := all[j].fd
				if c.Name == "_orig_"+fd.Name && len(c.Args) == len(fd.Args) {
					cnt++
					if c.Body.String() == printed(callSrc(fd.Name, c.Args)) && first[key(fd)] > j {
						capt = j
					}
				}
			}
			if cnt == 1 && capt >= 0 && first[key(fd)] == i {
				shape = "guarded " + name
			}
		}
		file := d.file
		o.Case(fmt.Sprintf("ov %s %s", key(fd), file), shape)
		o.Class("ov " + key(fd))
	}
	o.Case("count", fmt.Sprint(n))
	// guard helpers, on the AST
	helper := func(name string) string {
		var found []*gojq.FuncDef
		for _, d := range all {
			if d.fd.Name == name && len(d.fd.Args) == 2 {
				found = append(found, d.fd)
			}
		}
		if len(found) != 1 {
			return fmt.Sprintf("defined %d times", len(found))
		}
		fd := found[0]
		switch name {
		case "_binary_or_orig":
			if fd.Body.String() == printed(`if _exttype == "binary" then `+fd.Args[0]+` else `+fd.Args[1]+` end`) && first["_exttype/0"] == 0 && !hasDef(all, "_exttype", 0) {
				return "ok"
			}
		case "_bytes_or_orig":
			n, args, ok := topCall(fd.Body)
			if ok && n == "_binary_or_orig" && len(args) == 2 && args[1].String() == printed(fd.Args[1]) && !strings.Contains(" "+strings.NewReplacer("(", " ", ")", " ", ";", " ", "|", " ").Replace(args[0].String())+" ", " "+fd.Args[1]+" ") {
				return "ok"
			}
		}
		return "other: " + fd.Body.String()
	}
	o.Case("helper _binary_or_orig", helper("_binary_or_orig"))
	o.Case("helper _bytes_or_orig", helper("_bytes_or_orig"))
	sort.Strings(dynamic)
	o.Case("dynamic", strings.Join(dynamic, ","))
	// Go-registered functions that collide with a builtin
	var coll []string
	for _, fn := range interp.DefaultRegistry.EnvFuncFns {
		g := fn(f.i)
		for a := g.MinArity; a <= g.MaxArity; a++ {
			if isRefBuiltin(g.Name, a) {
				coll = append(coll, fmt.Sprintf("%s/%d", g.Name, a))
			}
		}
	}
	sort.Strings(coll)
	o.Case("gofn", "["+strings.Join(coll, ",")+"]")
	emitEncoderFacts(o)
	emitWrapFacts(o, f)
	o.Stat("fq_definitions", len(all))
	o.Stat("go_functions", len(interp.DefaultRegistry.EnvFuncFns))
}

func hasDef(all []fdef, name string, arity int) bool {
	for _, d := range all {
		if d.fd.Name == name && len(d.fd.Args) == arity {
			return true
		}
	}
	return false
}

// ---------------------------------------------------------------- the two JSON encoders, code point by code point

func fqEncodeString(s string) string {
	var bb bytes.Buffer
	e := colorjson.NewEncoder(colorjson.Options{Colors: colorjson.Colors{}})
	if err := e.Marshal(s, &bb); err != nil {
		return "<error " + err.Error() + ">"
	}
	return bb.String()
}

func gojqEncodeString(s string) string {
	b, err := gojq.Marshal(s)
	if err != nil {
		return "<error " + err.Error() + ">"
	}
	return string(b)
}

func body(quoted string) string {
	if len(quoted) >= 2 && quoted[0] == '"' && quoted[len(quoted)-1] == '"' {
		return quoted[1 : len(quoted)-1]
	}
	return "<unquoted " + quoted + ">"
}

// escKinds: run-length encoded "what does the encoder write for the one-code-point string" over EVERY code
// point (surrogates excluded: they cannot occur in a valid Go string), then what it writes for invalid bytes.
func escKinds(enc func(string) string) string {
	var sb strings.Builder
	start, cur := 0, ""
	flush := func(end int) {
		if cur == "" {
			return
		}
		if sb.Len() > 0 {
			sb.WriteByte(',')
		}
		if start == end {
			fmt.Fprintf(&sb, "%x:%s", start, cur)
		} else {
			fmt.Fprintf(&sb, "%x-%x:%s", start, end, cur)
		}
	}
	prev := -1
	for c := 0; c <= 0x10ffff; c++ {
		if c >= 0xd800 && c <= 0xdfff {
			continue
		}
		s := string(rune(c))
		out := body(enc(s))
		var k string
		switch {
		case out == s:
			k = "raw"
		case out == fmt.Sprintf(`\u%04x`, c):
			k = "u4"
		case len(out) == 2 && out[0] == '\\':
			k = "s" + out[1:]
		default:
			k = "other(" + out + ")"
		}
		if k != cur || (prev >= 0 && c != prev+1) {
			flush(prev)
			start, cur = c, k
		}
		prev = c
	}
	flush(prev)
	// invalid UTF-8: every byte of an invalid sequence becomes the text \ufffd
	bad := "ufffd"
	var seqs []string
	for b := 0x80; b <= 0xff; b++ {
		seqs = append(seqs, string([]byte{byte(b)}))
	}
	seqs = append(seqs, "\xe2\x80", "\xc0\x80", "\xed\xa0\x80", "\xf4\x90\x80\x80", "\xf0\x9f\x98", "a\xffb")
	for _, q := range seqs {
		want := ""
		for i := 0; i < len(q); i++ {
			if q[i] < 0x80 {
				want += string(q[i])
			} else {
				want += `\ufffd`
			}
		}
		if got := body(enc(q)); got != want {
			bad = fmt.Sprintf("other(%x->%s)", q, got)
			break
		}
	}
	return sb.String() + ";bad:" + bad
}

func emitEncoderFacts(o *hlib.Out) {
	o.Case("esc fq", escKinds(fqEncodeString))
	o.Case("esc gojq", escKinds(gojqEncodeString))
	// context: all ordered pairs of a unit set — same text in both encoders, and compositional
	var units []string
	for b := 0; b < 128; b++ {
		units = append(units, string(rune(b)))
	}
	for _, c := range []rune{0x80, 0x85, 0xa0, 0xff, 0x2027, 0x2028, 0x2029, 0x202a, 0xfeff, 0xfffd, 0xfffe, 0xffff, 0xd7ff, 0xe000, 0x10000, 0x1f600, 0x10ffff} {
		units = append(units, string(c))
	}
	units = append(units, "\xff", "\xc3", "\xe2\x80", "\xed\xa0\x80")
	n := 0
	res := ""
	for _, a := range units {
		fa := body(fqEncodeString(a))
		for _, b := range units {
			n++
			f, g := fqEncodeString(a+b), gojqEncodeString(a+b)
			if res == "" && f != g {
				res = fmt.Sprintf("differs on %q: fq %s gojq %s", a+b, f, g)
			}
			if res == "" && body(f) != fa+body(fqEncodeString(b)) && !(a[len(a)-1] >= 0x80 && b[0] >= 0x80) {
				res = fmt.Sprintf("not compositional on %q + %q", a, b)
			}
		}
	}
	if res == "" {
		res = fmt.Sprintf("ok %d", n)
	}
	o.Case("escpairs", res)
	o.Stat("exhaustive_small_domain", 1)
}

// ---------------------------------------------------------------- the CLI's wrap `try (PROG) catch <reporter>`

// skeleton of a query in the grammar fragment of FqModel/TryWrap.lean: A (anything else), P(x) parentheses,
// T(x) try, T(x,y) try … catch
func skel(q *gojq.Query) string {
	if q == nil {
		return "A"
	}
	if len(q.FuncDefs) != 0 || q.Op != gojq.Operator(0) || q.Left != nil || q.Right != nil || q.Func != "" || q.Term == nil || len(q.Term.SuffixList) != 0 {
		return "A"
	}
	switch q.Term.Type {
	case gojq.TermTypeQuery:
		return "P(" + skel(q.Term.Query) + ")"
	case gojq.TermTypeTry:
		if q.Term.Try.Catch == nil {
			return "T(" + skel(q.Term.Try.Body) + ")"
		}
		return "T(" + skel(q.Term.Try.Body) + "," + skel(q.Term.Try.Catch) + ")"
	}
	return "A"
}

var wrapPrograms = []string{
	`.`, `.a`, `1`, `"s"`, `error("x")`, `empty`, `[1]`, `{a: 1}`, `.a.b`, `.[0]`, `$in`, `f`, `-1`, `..`, `.[]?`, `error("x")?`,
	`try error("x")`, `try tonumber`, `try map(tonumber)`, `try (.[] | tonumber)`, `try .a`, `try error`, `try 1`,
	`try error("x") catch .`, `try error("x") catch "c"`, `try try error("x")`, `try (try error("x"))`, `try try error("x") catch .`,
	`try error("x") catch try error("y")`, `(try error("x"))`, `[try error("x")]`, `try error("x") | 1`, `try error("x"), 2`, `1, try error("x")`,
	`try error("x") // 1`, `try error("x") + 1`, `. as $v | try error("x")`, `def f: 1; try error("x")`, `label $l | try error("x")`,
	`try error("x")?`, `(try error("x"))?`, `try error("x").a`, `try error("x")[0]`, `if . then try error("x") end`, `reduce .[] as $x (0; .)`,
	`foreach .[] as $x (0; .)`, `first(try error("x"))`, `try first(error("x"))`, `1 + 2`, `.a | .b`, `.a, .b`, `.a // .b`, `.a and .b`, `.a == .b`,
	`try (1, error("x"), 3)`, `try try try error("x")`, `try (try error("a") catch error("b"))`, `@base64 "\(try error("x"))"`, `"\(try error("x"))"`,
}

func emitWrapFacts(o *hlib.Out, f *fqInst) {
	for _, prog := range wrapPrograms {
		orig, err := gojq.Parse(prog)
		if err != nil {
			o.Verdict("BADOP", "wrap: the reference does not parse "+prog)
			continue
		}
		op := "wrap " + skel(orig) + " " + jsonText(prog)
		rw, err := f.evalString(jqStr(prog) + ` | _eval_query_rewrite({catch_query: _query_func("_c07_reporter")})`)
		if err != nil {
			o.Case(op, "rewrite-failed")
			continue
		}
		rq, err := gojq.Parse(rw)
		if err != nil {
			o.Case(op, "unparsable;"+rw)
			continue
		}
		// the user's program inside: the try body, parentheses removed
		inner, catch := "changed", "other"
		if rq.Term != nil && rq.Term.Type == gojq.TermTypeTry && len(rq.FuncDefs) == 0 && rq.Op == gojq.Operator(0) && len(rq.Term.SuffixList) == 0 {
			b := rq.Term.Try.Body
			for b != nil && b.Term != nil && b.Term.Type == gojq.TermTypeQuery && len(b.Term.SuffixList) == 0 && b.Op == gojq.Operator(0) && len(b.FuncDefs) == 0 && b.Func == "" {
				b = b.Term.Query
			}
			o2 := orig
			for o2 != nil && o2.Term != nil && o2.Term.Type == gojq.TermTypeQuery && len(o2.Term.SuffixList) == 0 && o2.Op == gojq.Operator(0) && len(o2.FuncDefs) == 0 && o2.Func == "" {
				o2 = o2.Term.Query
			}
			if b != nil && b.String() == o2.String() {
				inner = "same"
			}
			if c := rq.Term.Try.Catch; c != nil && c.String() == "_c07_reporter" {
				catch = "ok"
			}
		}
		o.Case(op, skel(rq)+";inner="+inner+";catch="+catch)
		o.Class("wrap " + prog)
	}
}
