//go:build verif

package main

import (
	"context"
	"encoding/json"
	"fmt"
	"math"
	"math/big"
	"regexp"
	"sort"
	"strconv"
	"strings"
	"time"

	"github.com/wader/fq/internal/verifharness/hlib"
	"github.com/wader/gojq"
)

// Program generator: a grammar of STANDARD jq, feedback-directed by the reference engine — while a
// program is built, the first output of each finished prefix / sub-expression on the program's
// target input is computed with gojq, and the next production is chosen to fit that value's type
// (so most programs do something with their input instead of failing at the first step).
// The reference engine is used for *choosing*, never for judging.

type vb struct {
	name string // without $
	val  any
	ok   bool
}

type Ctx struct {
	dot    any
	dotOK  bool
	vars   []vb
	labels []string
}

func (c *Ctx) withDot(v any, ok bool) *Ctx {
	n := *c
	n.dot, n.dotOK = v, ok
	return &n
}

func (c *Ctx) withVar(name string, v any, ok bool) *Ctx {
	n := *c
	n.vars = append(append([]vb{}, c.vars...), vb{name, v, ok})
	return &n
}

func (c *Ctx) withLabel(l string) *Ctx {
	n := *c
	n.labels = append(append([]string{}, c.labels...), l)
	return &n
}

type ufun struct {
	name   string
	call   func(g *G, c *Ctx, d int) string // renders a call
	result string                             // kind of the result or "any"
}

type G struct {
	r     *hlib.Rand
	in    any
	defs  []string
	funs  []ufun
	nid   int
	feats map[string]bool // grammar features used by the current program (for the stats)
}

func (g *G) feat(s string) { g.feats[s] = true }

func (g *G) id(prefix string) string {
	g.nid++
	return prefix + strconv.Itoa(g.nid)
}

func (g *G) pick(xs ...string) string { return xs[g.r.Intn(len(xs))] }
func (g *G) chance(n int) bool         { return g.r.Intn(n) == 0 }

// ---------------------------------------------------------------- sampling with the reference engine

func hasNonFinite(v any) bool {
	switch v := v.(type) {
	case float64:
		return math.IsNaN(v) || math.IsInf(v, 0)
	case []any:
		for _, e := range v {
			if hasNonFinite(e) {
				return true
			}
		}
	case map[string]any:
		for _, e := range v {
			if hasNonFinite(e) {
				return true
			}
		}
	}
	return false
}

// sample returns the first output of e evaluated in context c (nil,false if it fails, is empty,
// or takes too long).
func (g *G) sample(c *Ctx, e string) (res any, ok bool) {
	names := []string{"$in", "$__dot"}
	vals := []any{g.in, nil}
	if c.dotOK {
		vals[1] = c.dot
	}
	seen := map[string]bool{"in": true}
	for i := len(c.vars) - 1; i >= 0; i-- {
		v := c.vars[i]
		if seen[v.name] {
			continue
		}
		seen[v.name] = true
		names = append(names, "$"+v.name)
		if v.ok {
			vals = append(vals, v.val)
		} else {
			vals = append(vals, nil)
		}
	}
	var sb strings.Builder
	for _, d := range g.defs {
		sb.WriteString(d)
		sb.WriteByte(' ')
	}
	sb.WriteString("$__dot | ")
	for _, l := range c.labels {
		sb.WriteString("label $" + l + " | ")
	}
	sb.WriteString("(" + e + ")")
	defer func() {
		if r := recover(); r != nil {
			res, ok = nil, false
		}
	}()
	q, err := gojq.Parse(sb.String())
	if err != nil {
		return nil, false
	}
	opts := append([]gojq.CompilerOption{}, refOpts...)
	opts[0] = gojq.WithVariables(names)
	code, err := gojq.Compile(q, opts...)
	if err != nil {
		return nil, false
	}
	ctx, cancel := context.WithTimeout(context.Background(), 300*time.Millisecond)
	defer cancel()
	v, more := code.RunWithContext(ctx, nil, vals...).Next()
	if !more {
		return nil, false
	}
	if _, isErr := v.(error); isErr {
		return nil, false
	}
	return v, true
}

// ---------------------------------------------------------------- literals and paths

func jqStr(s string) string {
	b, _ := json.Marshal(s)
	return string(b)
}

func (g *G) litNumber() string {
	var v any
	switch g.r.Intn(6) {
	case 0:
		v = genFloat(g.r)
	case 1:
		v = genInt(g.r)
	default:
		v = g.r.Range(-2, 9)
	}
	s := jsonText(v)
	if strings.HasPrefix(s, "-") {
		return "(" + s + ")"
	}
	return s
}

func (g *G) litSmall() string { return strconv.Itoa(g.r.Intn(5)) }

func (g *G) literal(want string) string {
	switch want {
	case "number":
		return g.litNumber()
	case "small":
		return g.litSmall()
	case "string", "key":
		if want == "key" || g.chance(3) {
			return jqStr(keyPool[g.r.Intn(len(keyPool))])
		}
		return jqStr(genString(g.r))
	case "boolean":
		return g.pick("true", "false")
	case "null":
		return "null"
	case "array":
		n := g.r.Intn(4)
		ps := make([]string, n)
		for i := range ps {
			ps[i] = g.literal(g.pick("number", "string", "number", "boolean", "null"))
		}
		return "[" + strings.Join(ps, ", ") + "]"
	case "object":
		n := g.r.Intn(3)
		ps := make([]string, n)
		for i := range ps {
			ps[i] = jqStr(keyPool[g.r.Intn(len(keyPool))]) + ": " + g.literal(g.pick("number", "string", "boolean", "null"))
		}
		return "{" + strings.Join(ps, ", ") + "}"
	}
	return g.literal(g.pick("number", "string", "boolean", "null", "array", "object"))
}

var identRe = regexp.MustCompile(`^[a-zA-Z_][a-zA-Z_0-9]*$`)

var jqKeywords = map[string]bool{"and": true, "or": true, "not": true, "if": true, "then": true, "else": true, "elif": true, "end": true,
	"as": true, "def": true, "reduce": true, "foreach": true, "try": true, "catch": true, "label": true, "import": true, "include": true,
	"__loc__": true}

func (g *G) pathExpr(base string, path []any) string {
	var sb strings.Builder
	sb.WriteString(base)
	for i, seg := range path {
		switch s := seg.(type) {
		case string:
			if identRe.MatchString(s) && !jqKeywords[s] && !g.chance(6) {
				if base == "." && i == 0 {
					sb.WriteString(s)
				} else {
					sb.WriteString("." + s)
				}
			} else if g.chance(2) && !(base == "." && i == 0) {
				sb.WriteString("[" + jqStr(s) + "]")
			} else if base == "." && i == 0 {
				if g.chance(2) {
					sb.WriteString(jqStr(s))
				} else {
					sb.WriteString("[" + jqStr(s) + "]")
				}
			} else {
				sb.WriteString("." + jqStr(s))
			}
		case int:
			sb.WriteString("[" + strconv.Itoa(s) + "]")
		}
		if g.chance(12) {
			sb.WriteString("?")
		}
	}
	return sb.String()
}

type pv struct {
	path []any
	val  any
}

func subPaths(v any, prefix []any, depth int, out *[]pv) {
	*out = append(*out, pv{append([]any{}, prefix...), v})
	if depth <= 0 {
		return
	}
	switch v := v.(type) {
	case []any:
		for i, e := range v {
			if i >= 4 {
				break
			}
			subPaths(e, append(prefix, i), depth-1, out)
			if i == len(v)-1 && i > 0 {
				*out = append(*out, pv{append(append([]any{}, prefix...), -1), e})
			}
		}
	case map[string]any:
		ks := make([]string, 0, len(v))
		for k := range v {
			ks = append(ks, k)
		}
		sort.Strings(ks)
		for _, k := range ks {
			subPaths(v[k], append(prefix, k), depth-1, out)
		}
	}
}

func kindMatches(v any, want string) bool {
	k := kindOf(v)
	switch want {
	case "any":
		return true
	case "scalar":
		return k != "array" && k != "object"
	case "key":
		return k == "string"
	case "small":
		if i, ok := v.(int); ok {
			return i >= 0 && i <= 6
		}
		return false
	}
	return k == want
}

// leaf: a data-dependent atom of the wanted kind (a path into `.`, a variable or $in), else a literal.
func (g *G) leaf(c *Ctx, want string) string {
	if !g.chance(5) {
		type src struct {
			base string
			val  any
		}
		var srcs []src
		if c.dotOK {
			srcs = append(srcs, src{".", c.dot}, src{".", c.dot})
		}
		for i := len(c.vars) - 1; i >= 0; i-- {
			if c.vars[i].ok {
				srcs = append(srcs, src{"$" + c.vars[i].name, c.vars[i].val})
			}
		}
		srcs = append(srcs, src{"$in", g.in})
		// try a few sources
		for try := 0; try < 3; try++ {
			s := srcs[g.r.Intn(len(srcs))]
			var all []pv
			subPaths(s.val, nil, 3, &all)
			var ms []pv
			for _, p := range all {
				if kindMatches(p.val, want) {
					ms = append(ms, p)
				}
			}
			if len(ms) > 0 {
				p := ms[g.r.Intn(len(ms))]
				return g.pathExpr(s.base, p.path)
			}
		}
	}
	if want == "any" || want == "scalar" {
		return g.literal(g.pick("number", "string", "boolean", "null", "number", "string"))
	}
	return g.literal(want)
}

// small: an expression that is a small non-negative integer on EVERY input (used as repeat
// count, range bound, limit, depth), so that no program is expensive on a foreign input.
func (g *G) small(c *Ctx, d int) string {
	if d > 0 && g.chance(3) {
		return "((" + g.expr(c, g.pick("array", "string", "object", "any"), d-1) + " | length) % " + strconv.Itoa(g.r.Range(2, 5)) + ")"
	}
	return g.litSmall()
}

// ---------------------------------------------------------------- regular expressions

var flagPool = []string{`null`, `""`, `"g"`, `"i"`, `"x"`, `"gi"`, `"ig"`, `"n"`, `"s"`, `"l"`, `"gx"`, `"p"`, `"gn"`, `"is"`}

func (g *G) flags() string {
	if g.chance(40) {
		return g.pick(`"q"`, `1`, `"G"`)
	}
	return flagPool[g.r.Intn(len(flagPool))]
}

var regexMeta = `\.+*?()|[]{}^$`

// regexFor: a regex (jq string literal) likely to match something in subject s.
func (g *G) regexFor(s string) string {
	rs := []rune(s)
	sub := ""
	if len(rs) > 0 {
		a := g.r.Intn(len(rs))
		b := a + 1 + g.r.Intn(3)
		if b > len(rs) {
			b = len(rs)
		}
		sub = string(rs[a:b])
	}
	switch g.r.Intn(22) {
	case 0:
		return jqStr(regexp.QuoteMeta(sub))
	case 1:
		return jqStr(sub) // unquoted: metacharacters act as such, may be invalid
	case 2:
		return jqStr("[a-z]+")
	case 3:
		return jqStr(`\d+`)
	case 4:
		return jqStr(`(?<x>[a-zA-Z]+)`)
	case 5:
		return jqStr(`.`)
	case 6:
		return jqStr(`\s+`)
	case 7:
		return jqStr(`^.`)
	case 8:
		return jqStr(`.$`)
	case 9:
		return jqStr(``)
	case 10:
		return jqStr(`[^a-z ]`)
	case 11:
		return jqStr(`\p{L}+`)
	case 12:
		return jqStr(`(?i)` + regexp.QuoteMeta(strings.ToUpper(sub)))
	case 13:
		return jqStr(`x*`)
	case 14:
		return jqStr(`(?<first>\w)(?<rest>\w*)`)
	case 15:
		return jqStr(`(a|b|c)(\d)?`)
	case 16:
		return jqStr(`[` + regexp.QuoteMeta(sub) + `.,;]`)
	case 17:
		return jqStr(`\b\w`)
	case 18:
		return jqStr(`(?<n>\d+)|(?<w>[a-z]+)`)
	case 19:
		return jqStr(`  # comment` + "\n" + ` [a-z] +`)
	case 20:
		return g.pick(jqStr(`(`), jqStr(`[`), jqStr(`a{2,1}`), jqStr(`\`), jqStr(`(?<a>.)(?<a>.)`), jqStr(`*`))
	default:
		return jqStr(regexp.QuoteMeta(strings.ToLower(sub)))
	}
}

// literalSepFor: a separator for split/1, ltrimstr … taken from the subject, biased to metacharacters.
func (g *G) literalSepFor(s string) string {
	rs := []rune(s)
	var metas []string
	for _, r := range rs {
		if strings.ContainsRune(regexMeta+" ,;=&", r) {
			metas = append(metas, string(r))
		}
	}
	switch {
	case len(metas) > 0 && !g.chance(3):
		return jqStr(metas[g.r.Intn(len(metas))])
	case len(rs) > 0 && !g.chance(4):
		a := g.r.Intn(len(rs))
		b := a + 1 + g.r.Intn(2)
		if b > len(rs) {
			b = len(rs)
		}
		return jqStr(string(rs[a:b]))
	}
	return jqStr(g.pick(".", "", " ", ",", "a", "+", "*", "?", "(", ")", "|", "[", "]", "{", "}", "^", "$", "\\", "..", ".*", "a.c", "[a-z]", "\\d"))
}

// regexArgs renders `RE`, `RE; FLAGS` or `[RE, FLAGS]` for test/match/capture/scan/split/splits
func (g *G) regexArgs(s string, allowArray bool) string {
	re := g.regexFor(s)
	switch g.r.Intn(7) {
	case 0, 1, 2:
		return re
	case 3:
		if allowArray {
			return "[" + re + ", " + g.pick(`"g"`, `"i"`, `"gi"`, `null`, `"x"`) + "]"
		}
		return re
	}
	return re + "; " + g.flags()
}

// ---------------------------------------------------------------- operations on a subject (`.` = sv)

// op returns an expression to be applied to a value of the kind of sv (i.e. `.` is sv); result kinds
// are not tracked here — the caller samples.
func (g *G) op(c *Ctx, sv any, d int) string {
	cd := c.withDot(sv, true)
	switch v := sv.(type) {
	case string:
		return balance(g.strOp(cd, v, d))
	case []any:
		return balance(g.arrOp(cd, v, d))
	case map[string]any:
		return balance(g.objOp(cd, v, d))
	case int, float64, *big.Int:
		return balance(g.numOp(cd, d))
	}
	return balance(g.anyOp(cd, d))
}

func (g *G) strOp(c *Ctx, s string, d int) string {
	switch g.r.Intn(46) {
	case 0, 1:
		g.feat("re:test")
		return "test(" + g.regexArgs(s, true) + ")"
	case 2, 3:
		g.feat("re:match")
		return g.pick("match(", "[match(") + g.regexArgs(s, true) + g.pick(")", ") | .string", ") | [.offset, .length]", ") | .captures | map(.name)", ")")
	case 4, 5:
		g.feat("re:capture")
		return "capture(" + g.regexArgs(s, true) + ")"
	case 6, 7:
		g.feat("re:scan")
		return "[scan(" + g.regexArgs(s, true) + ")]"
	case 8, 9, 10:
		g.feat("split/1")
		return "split(" + g.literalSepFor(s) + ")"
	case 11, 12:
		g.feat("split/2")
		return "split(" + g.regexFor(s) + "; " + g.flags() + ")"
	case 13, 14:
		g.feat("re:splits")
		return "[splits(" + g.regexArgs(s, false) + ")]"
	case 15:
		g.feat("re:sub")
		return "sub(" + g.regexFor(s) + "; " + g.replacement(c, d) + g.pick("", "", "; "+g.flags()) + ")"
	case 16:
		g.feat("re:gsub")
		return "gsub(" + g.regexFor(s) + "; " + g.replacement(c, d) + g.pick("", "", "; "+g.flags()) + ")"
	case 17:
		g.feat("ascii_case")
		return g.pick("ascii_downcase", "ascii_upcase")
	case 18, 19:
		g.feat("explode")
		return g.pick("explode", "explode | implode", "explode | map(. + 1) | implode", "explode | reverse | implode", "[explode[] | [.] | implode]", "explode | length")
	case 20:
		g.feat("fromjson")
		return g.pick("fromjson", "fromjson?", "try fromjson catch \"bad\"", "[fromjson?]")
	case 21, 43, 44:
		g.feat("tojson")
		return g.pick("tojson", "tojson | fromjson", "@json", "[.] | tojson", "{a: .} | tojson", "tojson | length", "tojson | explode", "tojson | utf8bytelength", "tojson == tostring", "[.] | tojson == tostring", "tojson | test(\"\\\\\\\\u\")", "tojson | [scan(\"\\\\\\\\.\")]", "@json | length", "@json == tojson", "@text | length", "\"<\\(tojson)>\" | length", "tojson | tojson | length", "tojson | ascii_downcase == tojson", "[tojson, @json, tostring] | map(length)", "{(.): 1} | tojson | length", "tojson | .[1:-1] == .", "tojson | fromjson == .", "@json \"\\(.)\" | explode", "tojson | @base64")
	case 22:
		return g.pick("length", "utf8bytelength")
	case 23:
		return g.pick("ltrimstr(", "rtrimstr(", "startswith(", "endswith(") + g.literalSepFor(s) + ")"
	case 24:
		return g.pick("trim", "ltrim", "rtrim", "tostring", "type", "tonumber", "tonumber?", "@text")
	case 25:
		g.feat("format")
		return g.pick("@base64", "@base64d", "@uri", "@html", "@sh", "@json", "@text", "@base32", "@base32d", "@csv", "[.] | @csv", "[., 1] | @tsv", "[.] | @sh",
			`@base64 "x\(.)y"`, `@uri "q=\(.)"`, `@html "<b>\(.)</b>"`, `@sh "echo \(.)"`, `@json "v=\(.)"`, `@csv "\([., 1])"`, `format("text")`, `format("json")`, `format("base64")`)
	case 26:
		g.feat("slice")
		return g.pick(".[1:]", ".[:-1]", ".[1:3]", ".[-2:]", ".[:1]", ".[2:1]", ".[0:0]", ".["+g.small(c, d-1)+":]")
	case 27:
		return g.pick("index(", "rindex(", "indices(") + g.literalSepFor(s) + ")"
	case 28:
		g.feat("interp")
		return `"<\(.)> \(` + g.expr(c, "any", d-1) + `)"`
	case 29:
		return ". + " + g.expr(c, "string", d-1)
	case 30:
		return ". * " + g.small(c, d-1)
	case 31:
		return ". / " + g.literalSepFor(s)
	case 32:
		return g.pick("contains(", "inside(") + g.expr(c, "string", d-1) + ")"
	case 33:
		return g.cmp(c, d)
	case 34:
		g.feat("debug")
		return g.pick("debug", "stderr", `debug("msg")`, `debug("v=\(.)")`, "debug(length)", "debug | length", "debug(empty)", "debug(1, 2)")
	case 35:
		return g.pick("strptime(\"%Y-%m-%dT%H:%M:%SZ\")", "fromdate", "fromdateiso8601", "strptime(\"%Y-%m-%dT%H:%M:%SZ\") | mktime")
	case 36:
		return "[" + g.pick("splits", "scan") + "(" + g.regexFor(s) + ")] | length"
	case 37:
		return "[match(" + g.regexFor(s) + "; \"g\") | .string] | join(\"-\")"
	case 38:
		return "ascii_downcase | test(" + g.regexFor(strings.ToLower(s)) + ")"
	case 39:
		return "{(.): " + g.expr(c, "any", d-1) + "}"
	case 40:
		g.feat("re:flags")
		re := jqStr(g.pick("A", "[A-Z]+", "(?<w>[a-z]+) (?<v>[a-z]+)", "É", "ß", "İ", "a b", "^b", "a.c"))
		fl := g.pick(`"i"`, `"gi"`, `"ix"`, `"x"`, `"s"`, `"n"`, `"l"`, `"g"`)
		return g.pick("test("+re+"; "+fl+")", "[match("+re+"; "+fl+") | .string]", "capture("+re+"; "+fl+")", "[scan("+re+"; "+fl+")]", "split("+re+"; "+fl+")", "[splits("+re+"; "+fl+")]", "sub("+re+"; \"_\"; "+fl+")", "gsub("+re+"; \"_\"; "+fl+")")
	case 41:
		return "split(" + g.expr(c, "string", d-1) + ")"
	case 42:
		return "[.[" + g.small(c, d-1) + ":] | " + g.op(c, s, d-1) + "]"
	}
	return g.anyOp(c, d)
}

// fix unbalanced picks above (case 40 builds e.g. `[match(…; "i")` ) — done by a final balancing pass.

func (g *G) replacement(c *Ctx, d int) string {
	switch g.r.Intn(7) {
	case 0:
		return jqStr(g.pick("", "_", "X", "<>", "$1", "\\0"))
	case 1:
		return `"<\(.x)>"`
	case 2:
		return `"\(.first // "-")"`
	case 3:
		return `(.x // "?" | ascii_upcase)`
	case 4:
		return `("a", "b")`
	case 5:
		return `"[\(.)]"` // the capture object itself
	}
	return `"\(keys | length)"`
}

func (g *G) numOp(c *Ctx, d int) string {
	switch g.r.Intn(26) {
	case 0, 1, 2:
		g.feat("arith")
		return ". " + g.pick("+", "-", "*", "/", "%") + " " + g.expr(c, "number", d-1)
	case 3:
		g.feat("arith")
		return g.expr(c, "number", d-1) + " " + g.pick("+", "-", "*", "/", "%") + " ."
	case 4:
		return g.pick("floor", "ceil", "round", "sqrt", "fabs", "abs", "trunc", "-(.)", "significand", "logb", "exp2", "log2", "tostring", "tojson", "@text", "@json", "isnan", "isinfinite", "isnormal", "type", "length", "not", "frexp", "modf", "cbrt", "exp10", "floor | tostring")
	case 5:
		return g.cmp(c, d)
	case 6:
		g.feat("tojson")
		return g.pick("tojson", "tojson | fromjson", "tostring | tonumber", "[.] | tojson | fromjson | .[0]", "tojson | fromjson | . + 1", "{a: .} | tojson", "tostring | fromjson", "@json | fromjson")
	case 7:
		return "pow(.; " + g.pick("2", "0.5", "3", "-1", "0", "64", "100") + ")"
	case 8:
		g.feat("range")
		return "[range(" + g.small(c, d-1) + g.pick("", "; "+g.litSmall()+" + 3", "; 8; 3", "; -3; -1") + ")]"
	case 9:
		return "[., " + g.expr(c, "number", d-1) + "] | " + g.pick("min", "max", "add", "sort", "unique", "join(\",\")", "@csv", "implode?", "tojson")
	case 10:
		g.feat("interp")
		return `"n=\(.) \(. + 1)"`
	case 11:
		g.feat("debug")
		return g.pick("debug", "stderr", `debug("n")`, "debug(. + 1)")
	case 12:
		return g.pick("todate", "gmtime", "gmtime | mktime", "strftime(\"%Y-%m-%dT%H:%M:%SZ\")", "strftime(\"%A, %B %d, %Y\")", "gmtime | todate?", "todate | fromdate")
	case 13:
		g.feat("until")
		return g.pick("[., 0] | until(.[1] >= 3; [.[0], .[1] + 1]) | .[0]", "[limit(4; repeat(. * 2))]", "[limit(5; while(length < 3; . * 2))]?", "[limit(3; while(true; . + 1))]", "[., 1] | until(.[1] > 5; .[1] += 2)")
	case 14:
		return ". as $n | " + g.expr(c.withVar("n", c.dot, c.dotOK), "any", d-1)
	case 15:
		return "[.] | implode"
	case 16:
		return g.pick(". == (. | tojson | fromjson)", ". == (tostring | tonumber)", ". < (. + 1)", ". - . == 0", "(. | tostring | length) > 10", "[., . + 1] | sort | .[0] == (.[1] - 1)")
	case 17:
		return "if . > " + g.litNumber() + " then " + g.expr(c, "any", d-1) + " elif . == 0 then \"zero\" else " + g.expr(c, "any", d-1) + " end"
	case 18:
		return g.pick("[., 1.5, \"a\", null, [], {}] | sort", "[., . + 0.5, . - 1] | sort", "[., -(.), . * 2] | unique", "[., .] | group_by(.)")
	case 19:
		return g.pick(". // 1", "(. , null) // 3", "[. , false] | map(. // \"d\")", "try error(.) catch .", "try error(.) catch (. + 1)", "try error({n: .}) catch .n", ".. ", "[..]", "[.[]?]", ".a?", "try .a catch \"e\"", "try .[0] catch \"e\"", ".[0]?")
	case 20:
		return "{(tostring): ., n: .}"
	case 21:
		return g.pick("ldexp(.; 2)", "scalb(.; 1)", "atan2(.; 1)", "fmin(.; 2)", "fmax(.; 2)", "fma(.; 2; 1)", "drem(.; 3)", "nearbyint", "rint", "log10", "exp", "log")
	}
	return g.anyOp(c, d)
}

func (g *G) cmp(c *Ctx, d int) string {
	g.feat("compare")
	op := g.pick("==", "!=", "<", "<=", ">", ">=")
	return ". " + op + " " + g.expr(c, g.pick("any", "number", "string", "any"), d-1)
}

func elemSample(a []any) (any, bool) {
	if len(a) == 0 {
		return nil, false
	}
	return a[0], true
}

func (g *G) arrOp(c *Ctx, a []any, d int) string {
	ev, eok := elemSample(a)
	ce := c.withDot(ev, eok)
	elemIsObj := eok && kindOf(ev) == "object"
	elemIsArr := eok && kindOf(ev) == "array"
	byExpr := func() string {
		// key expression for *_by on the elements
		if elemIsObj {
			m := ev.(map[string]any)
			for k := range m {
				if identRe.MatchString(k) && g.chance(2) {
					return "." + k
				}
			}
		}
		if elemIsArr && g.chance(2) {
			return g.pick(".[0]", ".[1]", "length", ".[-1]")
		}
		if g.chance(3) && d > 1 {
			return g.expr(ce, "any", d-1)
		}
		return g.pick(".", "type", "length?", "tostring", "tojson", ". % 2?", "-(.)?", "[type, .]", ".k?", ".v?", ".[0]?", "(.k? // .)", "ascii_downcase?")
	}
	switch g.r.Intn(46) {
	case 0, 1:
		g.feat("map")
		return "map(" + g.expr(ce, "any", d-1) + ")"
	case 2:
		g.feat("select")
		return "map(select(" + g.expr(ce, "boolean", d-1) + "))"
	case 3, 4:
		g.feat("group_by")
		return "group_by(" + byExpr() + ")"
	case 5:
		g.feat("unique_by")
		return "unique_by(" + byExpr() + ")"
	case 6:
		g.feat("min_by")
		return g.pick("min_by(", "max_by(") + byExpr() + ")"
	case 7:
		g.feat("sort_by")
		return "sort_by(" + byExpr() + ")"
	case 8:
		return g.pick("sort", "unique", "reverse", "min", "max", "add", "length", "flatten", "flatten(1)", "flatten(0)", "transpose?", "first", "last", "to_entries", "keys", "tojson", "@json", "tostring", "any", "all", "add(.[]?)", "[.[] | tojson]", "map(type)", "join(\",\")?", "implode?", "@csv?", "@tsv?", "@sh?", "from_entries?", "combinations?", "[.[] | numbers]", "[.[] | strings]", "[.[] | scalars]", "[.[] | iterables]", "map(values)", "[.[] | nulls, booleans]", "index(1)", "[limit(2; .[])]", "nth(1)", "[.[1:][]]", "tojson | fromjson")
	case 9:
		g.feat("reduce")
		init := g.pick("0", "[]", "{}", "\"\"", "null")
		ci := map[string]any{"0": 0, "[]": []any{}, "{}": map[string]any{}, "\"\"": "", "null": nil}[init]
		cu := c.withDot(ci, true).withVar("x", ev, eok)
		var upd string
		switch init {
		case "0":
			upd = g.pick(". + ($x | length?) // .", ". + 1", ". + ($x | numbers) // .", "if ($x | type) == \"number\" then . + $x else . end")
		case "[]":
			upd = g.pick(". + [$x]", "[$x] + .", ". + [$x | type]", "if length < 2 then . + [$x] else . end")
		case "{}":
			upd = g.pick(".[$x | tostring] = $x", ".[$x | type] += 1", ". + {($x | tojson): ($x | type)}", ".[$x | type] |= (. // []) + [$x]")
		case "\"\"":
			upd = g.pick(". + ($x | tostring)", ". + ($x | tojson) + \";\"", "\"\\(.)\\($x)\"")
		default:
			upd = g.pick("$x", ". // $x", "[., $x]", g.expr(cu, "any", d-1))
		}
		return "reduce .[] as $x (" + init + "; " + upd + ")"
	case 10, 11:
		g.feat("foreach")
		switch g.r.Intn(5) {
		case 0:
			return "[foreach .[] as $x (0; . + 1; [., $x])]"
		case 1:
			return "[foreach .[] as $x ([]; . + [$x]; length)]"
		case 2:
			return "[foreach .[] as $x (null; $x; " + g.expr(c.withDot(ev, eok).withVar("x", ev, eok), "any", d-1) + ")]"
		case 3:
			return "[foreach .[] as [$a, $b] ({}; .[$a | tostring] = $b; keys)]?"
		}
		return "[foreach .[] as $x (0; . + 1)]"
	case 12:
		g.feat("label")
		l := g.id("l")
		return "[label $" + l + " | .[] | if " + g.expr(ce.withLabel(l), "boolean", d-1) + " then break $" + l + " else . end]"
	case 13:
		g.feat("limit")
		gen := g.pick(".[]", ".[] | select(. != null)", "range(10)", ".[], 1, 2", "repeat(1)", ".[]?", "..", "empty", ".[] | tostring", "(.[] | numbers), \"s\"")
		n := g.small(c, d-1)
		return g.pick("[limit("+n+"; "+gen+")]", "[limit("+n+"; "+gen+")] | length", "first("+gen+")", "[first("+gen+")]", "isempty("+gen+")", "[nth("+n+"; "+gen+")]", "[skip("+n+"; limit(5; "+gen+"))]", "[limit(3; "+gen+")]", "nth("+n+")", "last("+"limit(4; "+gen+"))")
	case 14:
		g.feat("destructure")
		return g.pick(
			"[.[] as [$a, $b] | {a: $a, b: $b}]",
			"[.[] as [$a] | $a]?",
			"[.[] as {k: $k, v: $v} | [$k, $v]]?",
			"[.[] as {$k, $v} | \"\\($k)=\\($v)\"]?",
			"[.[] as {k: $k, $v, t: $t} | {($k): $v, t: $t}]?",
			". as [$h, $t] | {h: $h, t: $t}",
			". as [[$a], {b: $b}] | [$a, $b]",
			"[.[] as [$a, [$b]] | [$a, $b]]?",
			"[.[] as {(\"k\", \"v\"): $x} | $x]?",
			"[.[] as {\"k\": $x} | $x]?",
			"[.[] as {$k, v: [$v0]} | [$k, $v0]]?",
		)
	case 15:
		g.feat("destructure-alt")
		return g.pick(
			"[.[] as [$a, $b] ?// {k: $a, v: $b} ?// $a | [$a, $b]]",
			"[.[] as {k: $a} ?// [$a] | $a]",
			"[.[] as [$a] ?// $a | $a | tostring]",
			"[.[] as {v: $a, t: $b} ?// [$a, $b] ?// $a | {a: $a, b: $b}]", // every variable occurs in the FIRST alternative: gojq leaves later ones uninitialised
			". as [$a] ?// {a: $a} ?// $a | [$a]",
			"[.[] as [$a] ?// $a | if ($a | type) == \"array\" then error(\"arr\") else $a end]",
		)
	case 16:
		g.feat("slice")
		return g.pick(".[1:]", ".[:-1]", ".[1:3]", ".[-2:]", ".[:1]", ".[2:1]", ".[0]", ".[-1]", ".[100]", ".[1:][0]", ".[null:2]", ".[1:null]", ".["+g.small(c, d-1)+"]", ".["+g.small(c, d-1)+":]", ".[1.5]", ".[:1.2]")
	case 17:
		g.feat("paths")
		return g.pick("[paths]", "[paths(type == \"number\")]", "[paths(..)]?", "[path(..)]", "[path(.[]?)]", "[path(.[0]?, .[1]?)]", "[paths] | length", "[paths(scalars)]", "[path(.. | select(type == \"string\"))]", "[tostream]", "fromstream(tostream)", "[tostream] | fromstream(.[])", "[. as $d | paths | . as $p | $d | getpath($p)] | length", "[. as $d | 1 | truncate_stream($d | tostream)]?", "[getpath([0], [1], [0, 0]?)]?")
	case 18:
		g.feat("assign")
		return g.pick(".[0] = ", ".[1] |= ", ".[] |= ", ".[0] += ", ".[-1] //= ", ".[2] = ", ".[1:] = ", ".[]? |= ") + g.assignRHS(ce, d)
	case 19:
		g.feat("del")
		return g.pick("del(.[0])", "del(.[0, 1])", "del(.[1:])", "del(.[] | select(. == null))", "delpaths([[0], [1]])", "del(.[-1])", "del(..)?", "del(.[]?.k?)", "to_entries | map(select(.key > 0)) | map(.value)", "setpath([0]; 9)", "setpath([1, \"a\"]; 1)?", "getpath([0])", "getpath([0, 0])?", "delpaths([])", "delpaths([[]])", "pick(.[0])?", "pick(.[1])?", "pick(first)?")
	case 20:
		return ". " + g.pick("+", "-") + " " + g.expr(c, "array", d-1)
	case 21:
		return g.pick("contains(", "inside(", "index(", "indices(", "bsearch(", "IN(", "has(", "any(. == ", "all(. != ") + g.expr(c, "any", d-1) + ")" + g.pick("", "?")
	case 22:
		g.feat("recurse")
		return g.pick("[..]", "[.. | scalars]", "[recurse | numbers]", "[recurse(.[]?; . != null)]", "[recurse(if type == \"array\" then .[] else empty end)]", "[.. | strings | length]", "walk(if type == \"number\" then . + 1 else . end)", "walk(if type == \"array\" then sort else . end)", "walk(if type == \"object\" then del(.k) else . end)", "[.. | numbers] | add", "[.. | select(type == \"object\") | keys[]] | unique", "walk(if type == \"string\" then ascii_downcase else . end)", "walk(tojson? // .)")
	case 23:
		g.feat("iter")
		return "[.[] | " + g.op(c, ev, d-1) + "]" + g.pick("", "", "?")
	case 24:
		g.feat("try")
		return "[.[] | try " + g.op(c, ev, d-1) + " catch " + g.pick("\"E\"", "type", "null", "[\"caught\"]") + "]"
	case 25:
		g.feat("alt")
		return "[.[] | (" + g.op(c, ev, d-1) + ")? // " + g.expr(ce, "any", d-1) + "]"
	case 26:
		g.feat("interp")
		return `"\(.[0]) and \(.[1:] | length) more: \(map(type) | join("/"))"`
	case 27:
		return "[.[] | " + g.pick("tojson", "tostring", "@json", "@text", "type", "length?", "tojson | fromjson", "ascii_downcase?", "explode?", "[splits(\"a\")]?", "test(\"a\")?", "tonumber?", "keys?", "not", "@base64?", "@sh?", "@html?", "@uri?") + "]"
	case 28:
		g.feat("INDEX")
		return g.pick("INDEX(.k?)", "INDEX(.[0]?)", "INDEX(type)", "[JOIN({x: 1, y: 2}; .k?)]?", "[.[] | IN(1, \"x\", null)]", "IN([1], [2])", "[JOIN(INDEX(.k?); .k?)]?", "[.[] | in({x: 1})?]", "[.[] | inside([1, 2, \"x\"])?]", "INDEX(tojson)")
	case 29:
		g.feat("if")
		return "map(if " + g.expr(ce, "boolean", d-1) + " then " + g.expr(ce, "any", d-1) + g.pick("", " else "+g.expr(ce, "any", d-1), " elif type == \"string\" then length else . ") + " end)"
	case 30:
		g.feat("andor")
		return "map(" + g.expr(ce, "boolean", d-1) + g.pick(" and ", " or ") + g.expr(ce, "any", d-1) + g.pick("", " | not") + ")"
	case 31:
		return g.pick("to_entries | map(.value) == .", "map(tojson) | map(fromjson) == .", "sort == (sort | sort)", "(unique | length) <= length", "group_by(.) | map(length) | add == (. | length)?", "[.[] | tojson] | join(\",\") | \"[\" + . + \"]\" | fromjson == .")
	case 32:
		g.feat("format")
		return "[.[] | " + g.pick("@csv", "@tsv", "@sh", "@html", "@uri", "@base64", "@json", "@text") + "?]"
	case 33:
		g.feat("vars")
		return ".[0] as $h | .[1:] as $t | " + g.expr(c.withVar("h", ev, eok).withVar("t", nil, false), "any", d-1)
	case 34:
		g.feat("debug")
		return g.pick("debug", "map(debug)", "stderr", "[.[] | debug(type)]", "debug(length) | length", "map(stderr)", "first | debug")
	case 35:
		g.feat("closure")
		return "def f(g): [.[] | g]; f(" + g.expr(ce, "any", d-1) + ")"
	case 36:
		g.feat("recfn")
		return g.pick(
			"def r: if length > 1 then .[1:] | r else . end; r",
			"def sum: if length == 0 then 0 else (.[0] | length?) // 0 + (.[1:] | sum) end; sum",
			"def rev: if length == 0 then [] else (.[1:] | rev) + [.[0]] end; rev",
			"def depth: if type == \"array\" or type == \"object\" then 1 + ([.[] | depth] | max // 0) else 0 end; depth",
			"def take($n): if $n <= 0 or length == 0 then [] else [.[0]] + (.[1:] | take($n - 1)) end; take(2)",
			"def zip(f; g): [f, g] | transpose; zip(.; map(type))",
		)
	case 37:
		return "[.[] | tojson] | " + g.pick("sort", "unique", "join(\" \")", "map(fromjson)", "map(length)", "group_by(length)", "max_by(length)", "min_by(length)?")
	case 38:
		return "(map(" + byExpr() + ") | " + g.pick("sort", "unique", "min", "max", "add?") + ")"
	case 39:
		g.feat("group_by")
		return "group_by(" + byExpr() + ") | map({key: (.[0] | " + byExpr() + " | tostring), value: length}) | from_entries"
	case 40:
		g.feat("comma")
		return "(.[0], .[-1], length)"
	case 41:
		return "to_entries | map(\"\\(.key):\\(.value | type)\") | join(\" \")"
	}
	return g.anyOp(c, d)
}

func (g *G) assignRHS(c *Ctx, d int) string {
	switch g.r.Intn(4) {
	case 0:
		return g.literal("any")
	case 1:
		return g.pick("(. // 0)", "tojson", "type", "[.]", "length?", "(tostring | length)", "empty", "(1, 2)", "null")
	}
	return g.expr(c, "any", d-1)
}

func (g *G) objOp(c *Ctx, m map[string]any, d int) string {
	ks := make([]string, 0, len(m))
	for k := range m {
		ks = append(ks, k)
	}
	sort.Strings(ks)
	key := "a"
	var kv any
	kok := false
	if len(ks) > 0 {
		key = ks[g.r.Intn(len(ks))]
		kv, kok = m[key], true
	}
	fld := g.pathExpr(".", []any{key})
	switch g.r.Intn(34) {
	case 0, 1, 2, 3, 4:
		g.feat("path")
		if kok && d > 0 && g.chance(2) {
			return fld + " | " + g.op(c, kv, d-1)
		}
		return fld
	case 5:
		return g.pick("keys", "to_entries", "length", "[.[]]", "map_values(type)", "map(type)", "tojson", "@json", "tostring", "add?", "[paths]", "[.. | scalars]", "to_entries | from_entries == .", "with_entries(.value |= type)", "tojson | fromjson", "[to_entries[] | .key]", "any", "all", "[.[] | length?]", "map_values(length?)", "map_values(tojson)", "del(.[])?", "[keys[] as $k | .[$k] | type]", "with_entries(select(.key | test(\"^[a-m]\")))", "with_entries(.key |= ascii_upcase)", "tojson | length", "[tostream] | length", "fromstream(tostream)", "to_entries | map(.key) == keys", "[splits(\"a\")]?", "test(\"a\")?", "explode?", "ascii_downcase?")
	case 6:
		g.feat("has")
		return g.pick("has(", "has(") + jqStr(key) + ")" + g.pick("", " and (."+jqStr(key)+" != null)", " | not")
	case 7:
		g.feat("objcons")
		return "{" + g.pick("a: 1, ", "", "$in, ", "\"x y\": "+g.expr(c, "any", d-1)+", ", "(\"k\", \"l\"): 1, ", "@base64 \"k\": 2, ", "\"\\(length)\": 3, ", ) + jqStr(key) + ": " + fld + ", n: " + g.expr(c, "any", d-1) + "}"
	case 8:
		g.feat("objcons")
		if identRe.MatchString(key) && !jqKeywords[key] {
			return "{" + key + ", b: (" + g.expr(c, "any", d-1) + ")}"
		}
		return "{" + jqStr(key) + "}"
	case 9:
		g.feat("assign")
		return fld + " " + g.pick("=", "|=", "+=", "//=", "-=", "*=", "/=", "%=") + " " + g.assignRHS(c.withDot(kv, kok), d)
	case 10:
		g.feat("del")
		return g.pick("del("+fld+")", "del(.[])", "delpaths([["+jqStr(key)+"]])", "del(.. | select(. == null))?", "delpaths([paths(type == \"number\")])", "to_entries | map(select(.value != null)) | from_entries", "del("+fld+", .zz)", "pick("+fld+")", "pick(.zz)", "setpath(["+jqStr(key)+"]; 1)", "setpath([\"new\", 0]; 1)", "getpath(["+jqStr(key)+"])", "getpath([\"zz\", \"y\"])", "[getpath(["+jqStr(key)+"], [\"zz\"])]", "delpaths([[\"zz\"]])", "del(.a, .b, .c)")
	case 11:
		return ". " + g.pick("+", "*") + " " + g.expr(c, "object", d-1)
	case 12:
		g.feat("with_entries")
		return "with_entries(" + g.pick(".value |= ("+g.expr(c.withDot(kv, kok), "any", d-1)+")", "select(.value | type == \"string\")", ".key |= \"k_\" + .", "{key: (.value | tostring), value: .key}", "select(.key != "+jqStr(key)+")", ".value = (.key | length)") + ")"
	case 13:
		g.feat("map_values")
		return "map_values(" + g.pick(g.expr(c.withDot(kv, kok), "any", d-1), "tojson", "type", "length?", "select(. != null)", "empty", ". // 0", "(., .)", "tostring | ascii_upcase") + ")"
	case 14:
		g.feat("paths")
		return g.pick("[paths]", "[paths(type == \"number\")]", "[path(..)]", "[path(.[]?)]", "[path("+fld+")]", "[paths(scalars)] | length", "[tostream]", "[. as $d | paths(scalars) | . as $p | [$p, ($d | getpath($p))]] | length", "[paths | join(\".\")?]", "[paths | map(tostring) | join(\"/\")]", "path("+fld+" | .x?)?", "[path(.. | select(type == \"boolean\"))]", "[paths(type == \"array\")] | map(length)", "[getpath(paths)] | length", "reduce paths(scalars) as $p (.; setpath($p; 0))", "reduce (paths(type == \"string\")) as $p (.; setpath($p; getpath($p) | ascii_upcase))")
	case 15:
		g.feat("recurse")
		return g.pick("[..]", "[.. | numbers]", "[.. | strings]", "walk(if type == \"number\" then . * 2 else . end)", "walk(if type == \"object\" then with_entries(.key |= ascii_upcase) else . end)", "[recurse | objects | keys] | add", "[.. | arrays | length]", "walk(if type == \"string\" then test(\"a\") else . end)", "[.. | select(type == \"string\") | explode | length]", "walk(if type == \"string\" then [splits(\", *\")] else . end)", "[.. | strings | ascii_downcase]", "walk(if type == \"array\" then group_by(type) else . end)")
	case 16:
		g.feat("vars")
		v := g.id("v")
		return fld + " as $" + v + " | " + g.expr(c.withVar(v, kv, kok), "any", d-1)
	case 17:
		g.feat("destructure")
		v := g.id("v")
		return ". as {" + jqStr(key) + ": $" + v + g.pick("", ", $zz", ", zz: [$q]") + "} | " + g.expr(c.withVar(v, kv, kok), "any", d-1)
	case 18:
		g.feat("interp")
		return `"keys: \(keys | join(",")) \(` + fld + ` | tojson)"`
	case 19:
		g.feat("if")
		return "if " + g.expr(c, "boolean", d-1) + " then " + g.expr(c, "any", d-1) + " else " + g.expr(c, "any", d-1) + " end"
	case 20:
		g.feat("try")
		return "try (" + g.expr(c, "any", d-1) + " | " + g.pick("error", "error(\"x\")", ".a.b.c", ".[0]", "ascii_downcase", "implode", "fromjson", "test(\"a\")", "error(null)", "error({a: 1})") + ") catch " + g.pick("\"caught\"", "type", "{e: (. | type)}", "null")
	case 21:
		g.feat("alt")
		return "(" + g.pick(".zz", ".zz.y", fld, "empty", "null", "false", "(null, 1)", "(false, null)", "error(\"x\")?", ".zz[]?") + " // " + g.expr(c, "any", d-1) + ")"
	case 22:
		g.feat("debug")
		return g.pick("debug", "stderr", "debug(keys)", "debug(\"o\") | length", "map_values(debug)")
	case 23:
		g.feat("comma")
		return "(" + fld + ", " + g.expr(c, "any", d-1) + ")"
	case 24:
		g.feat("reduce")
		return "reduce to_entries[] as {key: $k, value: $v} (" + g.pick("{}", "[]", "0", "\"\"") + "; " + g.pick(". + ({($k): ($v | type)}? // [$k])", ". + [$k]?", ". + ($v | length?) // .", ". + $k?") + ")?"
	case 25:
		g.feat("foreach")
		return "[foreach keys[] as $k (0; . + 1; \"\\(.):\\($k)\")]"
	case 26:
		g.feat("optional")
		return g.pick(".zz?", ".zz.yy?", fld+"[]?", fld+".x?", "try "+fld+".x", ".[\"zz\"]?", ".[0]?", "[.[]?]", "(.[] | .a?)", fld+"?[0]?", "[..?]", ".a?.b?", "[.[] | .[]?]", "[.[]?.k?]", "try error catch .", "[.[] | tonumber?]", "[.[] | fromjson?]")
	case 27:
		g.feat("tojson")
		return g.pick("tojson", "tojson | fromjson", "tojson | fromjson == .", "tojson | fromjson | keys", "[.[] | tojson]", "tojson | explode | length", "map_values(tojson | fromjson)", "@json | fromjson", "tojson | [scan(\"[0-9]+\")]", "tojson | test(\"null\")", "tojson | split(\",\") | length", "tojson | [match(\"\\\\d+\"; \"g\").string] | map(tonumber)", "tojson | ascii_upcase | ascii_downcase | fromjson?")
	}
	return g.anyOp(c, d)
}

// extKeyProg: programs around JSON documents whose KEYS are fq's ext-key names (%K is replaced by one of them)
func (g *G) extKeyProg() string {
	g.feat("extkey")
	k := extKeys[g.r.Intn(len(extKeys))]
	v := g.pick("1", "null", "true", "\"s\"", "{\"error\":\"x\"}", "[]", "{}", "[1,{\"%K\":2}]", "1.5", "12345678901234567890", "{\"%K\":{\"%K\":null}}")
	doc := "{\"%K\":" + v + g.pick("", ",\"a\":1", ",\"_error\":{\"error\":\"y\"}", ",\"_format\":\"json\"") + "}"
	lit := jqStr(strings.ReplaceAll(doc, "%K", k)) // the JSON text as a jq string literal
	t := g.pick(
		"LIT | fromjson", "LIT | fromjson | tojson", "LIT | fromjson | keys", "LIT | fromjson | to_entries", "LIT | fromjson | has(\"%K\")", "LIT | fromjson | .[\"%K\"]",
		"LIT | fromjson | .%K", "LIT | fromjson | [paths]", "LIT | fromjson | [.. | scalars]", "LIT | fromjson | length", "LIT | fromjson | type", "LIT | fromjson | del(.%K)",
		"LIT | fromjson | .%K = 7", "LIT | fromjson | map_values(type)", "LIT | fromjson | with_entries(.key |= ascii_upcase)", "LIT | fromjson | tojson | fromjson | . == (LIT | fromjson)",
		"LIT | fromjson | @json", "LIT | fromjson | tostring", "LIT | fromjson | [.[]]", "LIT | try fromjson catch \"ERR\"", "[LIT, LIT] | map(fromjson)", "LIT | fromjson | . + {b: 2} | keys",
		"LIT | fromjson | getpath([\"%K\"])", "LIT | fromjson | [path(..)]", "LIT | fromjson | tojson | length", "\"[\" + LIT + \"]\" | fromjson | .[0].%K", "LIT | fromjson | .%K?", "LIT | fromjson | [.%K, .a, .zz]",
		"{%K: 1} | tojson", "{%K: {error: \"x\"}} | tojson | fromjson", "{\"%K\": .} | keys", "{%K: 1, a: {%K: [2]}} | [paths]", "{%K: 1} | has(\"%K\"), .%K, to_entries", "{%K: null} | .%K //= 3 | tojson | fromjson | .%K",
		"[{%K: 1}, {%K: 2}] | group_by(.%K) | tojson | fromjson | map(map(.%K))", "{%K: \"v\"} | @json | fromjson | .%K | ascii_upcase", "{a: {%K: 1}} | tojson | fromjson | .a | has(\"%K\")",
		"$in | [.. | objects | keys[] | select(startswith(\"_\"))] | unique", "$in | tojson | fromjson | [.. | objects | to_entries[] | select(.key | startswith(\"_\")) | .key]", "$in | [paths | map(tostring) | join(\"/\") | select(test(\"_\"))]",
		"$in | tojson | fromjson | .x?", "$in | tojson | fromjson | .x? | keys?", "$in | .js? | fromjson? | keys?", "$in | .js? | fromjson? | [.[]?]", "$in | .js? | fromjson? | tojson", "$in | .js? | fromjson? | to_entries?",
		"$in | tojson | fromjson | ._error?", "$in | tojson | fromjson | has(\"_error\")?", "$in | tojson | fromjson == $in", "$in | .x? | tojson | fromjson | [.. | scalars]",
	)
	return strings.ReplaceAll(strings.ReplaceAll(t, "LIT", lit), "%K", k)
}

func (g *G) anyOp(c *Ctx, d int) string {
	switch g.r.Intn(26) {
	case 24, 25:
		return g.extKeyProg()
	case 0:
		return g.pick("type", "tojson", "tostring", "@json", "@text", "length?", "[.]", "{a: .}", "not", "tojson | fromjson", "[.] | tojson", "\"\\(.)\"", "[.[]?]", "[..]", ". // \"alt\"", "values", "nulls", "scalars", "iterables", "booleans", "ascii_downcase?", "explode?", "test(\"a\")?", "[splits(\"a\")]?", "fromjson?", "tonumber?", "keys?", "input_filename", "[paths]", "tojson | length", "getpath([\"a\"])?", "[limit(2; .[]?)]", "first(.[]?)", "isempty(.[]?)", "try error catch .", "error?", "[splits(\"a\"; \"g\")]?", "ltrimstr(\"a\")", "rtrimstr(\"a\")", "startswith(\"a\")?", "implode?", "@base64?", "@base64d?", "tojson | @base64 | @base64d | fromjson", "abs?", "getpath([])", "splits(\"a\")?", "ltrimstr(1)", "trim?", "[.] | flatten", "[[.]] | flatten(1)", "[., .] | unique", "[., null] | sort", "{a: .} | .a", "[.] | .[0]", ". as $x | [$x, $x] | .[1]", ". as [$a] ?// $a | $a", "@sh?", "@csv?", "@html", "@uri")
	case 1:
		return g.cmp(c, d)
	case 2:
		g.feat("if")
		return "if " + g.pick(".", "type == \"string\"", "type == \"number\"", ". == null", "length? > 2", "type == \"array\" or type == \"object\"", "(type == \"number\") and . > 0", "not", "isempty(.[]?)") + " then " + g.expr(c, "any", d-1) + g.pick("", " else "+g.expr(c, "any", d-1), " elif . == null then \"null!\" else . ") + " end"
	case 3:
		g.feat("try")
		return "try (" + g.pick("error", "error(.)", ".[0]", ".a", "ascii_downcase", "keys", "tonumber", "fromjson", "implode", "test(\"a\")", "split(\"a\")", "explode", ". + 1", ". - 1", "-(.)", ".[\"a\"]", "has(\"a\")", "has(0)", "tojson | error", "[.] | implode", "{} | .[\"a\"] = error", "[splits(\"(\")]", "match(\"[\")", "ltrimstr(1) | error", "range(.)", "limit(-1; 1)", "first(error)", "@csv", "@sh", "input_filename | error", "splits(1)", "sub(1; 2)", "test(null)", "split(null)", "split(\"a\"; 1)", "split(1; null)", "capture([])", "scan([\"a\", \"b\", \"c\"])", "test([\"a\"])", "test([1])") + ") catch " + g.pick("\"E\"", "type", "(. | type)", "[\"E\"]")
	case 4:
		g.feat("alt")
		return "(" + g.pick(".", ".a?", ".[0]?", "empty", "null", "false", "(null, .)", "(false, null)") + " // " + g.expr(c, "any", d-1) + ")"
	case 5:
		g.feat("vars")
		v := g.id("v")
		return ". as $" + v + " | " + g.expr(c.withVar(v, c.dot, c.dotOK), "any", d-1)
	case 6:
		g.feat("closure")
		return g.pick(
			"def f: [., .]; f | f",
			"def f(x): x | x; f(tojson)",
			"def f($a; $b): [$a, $b, .]; f(1, 2; 3)",
			"def f(g): def h: g | tojson; h; f(type)",
			". as $c | def f: [., $c]; 1 | f",
			"def f: def f: 1; f + 1; f",
			"def f(f): f | f; f(tojson)",
			"def f($x): $x + 1; def g: f(1); def f($x): \"shadow\"; [g, f(0)]",
			"def apply(f; $n): if $n <= 0 then . else f | apply(f; $n - 1) end; apply([.]; 3)",
			"def f(g; h): [g, h]; f(type; tojson, 1)",
			"[1, 2] | def f(x): map(x); f(. + 1)",
			"def f: reduce .[]? as $x (0; . + 1); f",
			"def f(x): x as $v | [$v, x]; [f(1, 2)]",
			"def fac: if . <= 1 then 1 else . * (. - 1 | fac) end; [5, 20, 25] | map(fac)",
			"def fib: if . < 2 then . else (. - 1 | fib) + (. - 2 | fib) end; [range(10)] | map(fib)",
			"def gen: 1, 2, 3; [gen, gen] | length",
			"def e: empty; [e, 1, e]",
			"def f(a; b): a + b; f(1, 10; 100, 200)",
			"def f: label $l | (1, 2, break $l, 3); [f]",
			"def tailrec($n; $acc): if $n == 0 then $acc else tailrec($n - 1; $acc + $n) end; tailrec(2000; 0)",
		)
	case 7:
		g.feat("label")
		return g.pick("[label $out | (1, 2, 3) | if . == 2 then break $out else . end]", "label $a | label $b | (1, break $b, 2)", "[label $f | range(10) | ., (select(. == 3) | break $f)]", "label $out | foreach (1, 2, 3) as $i (0; . + $i; if . > 2 then ., break $out else . end)", "[label $x | 1, (label $y | 2, break $x, 3), 4]", "[range(3) as $i | label $l | (1, 2) | if . > $i then break $l else [$i, .] end]")
	case 8:
		g.feat("limit")
		return g.pick("[limit(3; repeat(.))] | length", "first(range(5; 10))", "[limit(0; 1, 2)]", "[first(empty)]", "[limit(2; range(5))]", "[range(0; 10; 3)]", "[range(5; 0; -2)]", "[range(0; 1; 0.3)]", "until(type == \"array\"; [.])", "[limit(5; recurse([.]))] | length", "[range(2; 4) as $i | range($i)]", "[range(1, 2; 3, 4)]", "[limit(3; range(1; infinite))]", "nth(2; range(10))", "[range(0)]", "[range(-1)]", "[skip(2; range(5))]?", "last(range(4))", "[while(. != null and (tostring | length) < 4; tostring + \"x\")]", "isempty(empty)", "isempty(1, error(\"x\"))", "[range(3)] | combinations(2)?")
	case 9:
		g.feat("andor")
		return g.pick("(. and true)", "(. or false)", "(null and error)", "(true or error)", "(. | not | not)", "[true, false, null, 1] | map(. and .)", "(1, null) and (true, false)", "[(true, false) or (true, false)]", "(. == null or . == false) | not")
	case 10:
		g.feat("interp")
		return g.pick(`"v: \(.)"`, `"\(type): \(tojson)"`, `"a\(1 + 2)b\("c" + "d")e"`, `"nested \("inner \(type)")"`, `@json "j: \(.)"`, `@base64 "\(tojson)"`, `@html "<\(tojson)>"`, `@uri "\(tojson)"`, `@sh "\(tojson)"`, `@text "\(.)"`, `"\(1, 2) \(3, 4)"`, `"é\(tojson)😀"`, `"\u00e9\ud83d\ude00\t\n"`, `@csv "\([tojson, 1])"`, `@tsv "\([tojson, "a\tb"])"`)
	case 11:
		g.feat("debug")
		return g.pick("debug", "stderr", "debug(\"x\")", "debug(type)", "debug | type", "[debug, stderr]", "debug(error)?", "input_filename")
	case 12:
		g.feat("comma")
		return "(" + g.expr(c, "any", d-1) + ", " + g.expr(c, "any", d-1) + ")"
	case 13:
		g.feat("reduce")
		return g.pick("reduce (1, 2, 3) as $x (.; [., $x])", "reduce range(5) as $i (0; . + $i)", "reduce empty as $x (.; error)", "reduce (.[]?) as [$a, $b] ({}; .[$a | tostring] = $b)?", "reduce range(3) as $i ([]; . + [$i * 2])", "reduce (\"a\", \"b\") as $s (\"\"; . + $s)", "reduce .[]? as $x (null; . + 1)", "reduce range(100) as $i (1; . * 2)", "reduce range(30) as $i (1; . * 10) | tojson")
	case 14:
		g.feat("foreach")
		return g.pick("[foreach range(5) as $i (0; . + $i)]", "[foreach range(5) as $i (0; . + $i; [$i, .])]", "[foreach (1, 2, 3) as $x (.; [., $x] | tojson; length)]", "[foreach .[]? as $x (0; . + 1; select(. % 2 == 0))]", "[foreach range(4) as $i (null; $i; empty)]", "[foreach (\"a\", \"b\") as $s (\"\"; . + $s; ascii_upcase)]", "[foreach range(3) as $i ({}; .[\"k\\($i)\"] = $i; keys | length)]")
	case 15:
		g.feat("bigint")
		return g.pick("12345678901234567890 + 1", "9223372036854775807 + 1", "[9007199254740993, 9007199254740992] | .[0] - .[1]", "123456789012345678901234567890 | tojson", "100000000000000000000 | tostring", "18446744073709551616 % 1000", "99999999999999999999 * 99999999999999999999", "-(9223372036854775808)", "12345678901234567890123 / 1", "1e1000", "-1e1000 | tojson", "[1e1000, -1e1000] | tojson", "3.0 | tojson", "1.0e2", "0.1 + 0.2", "1e-7 | tojson", "1e17 | tostring", "1e19 | tojson", "12345678901234567890 == 12345678901234567891", "12345678901234567890 < 12345678901234567891", "[12345678901234567891, 12345678901234567890] | sort", "100000000000000000000 | . / 3", "100000000000000000001 | floor", "{(100000000000000000000 | tostring): 1}", "[nan] | tojson", "nan | tostring", "[nan, 1] | sort | tojson", "nan < nan", "infinite | tojson", "[infinite, -infinite] | map(tostring)", "1.7976931348623157e308 * 10 | tojson", "5e-324 / 2", "9007199254740993 | tojson | fromjson", "\"9007199254740993\" | tonumber", "\"123456789012345678901234567890\" | fromjson + 1", "\"1e1000\" | fromjson | tojson", "\"-0\" | fromjson | tojson", "-0 | tojson", "[-0.0] | tojson", "1.5e300 * 1.5e300 | isinfinite", "4611686018427387904 * 2", "4611686018427387904 * 4 | tojson", "-9223372036854775808 - 1", "9223372036854775807 * 9223372036854775807 | tostring", "123456789012345678901234567890 % 97", "(1 / 3) | tojson", "1.1 * 1.1 | tostring", "3.14159 | @text", "[1.0, 1] | unique | tojson", "100 / 7 | floor", "pow(2; 64) | tojson", "pow(2; 64) | tostring", "pow(10; 20)", "1e3 | tojson", "1000000000000000000000 | tojson", "1e21 | tojson", "123456789.123456789 | tojson")
	case 16:
		g.feat("unicode")
		return g.pick("\"😀\" | length", "\"😀\" | utf8bytelength", "\"😀\" | explode", "[128512] | implode", "\"a😀b\" | .[1:2]", "\"a😀b\" | split(\"😀\")", "\"a😀b\" | [match(\".\"; \"g\") | .offset]", "\"é́\" | explode | length", "\"ǅ\" | ascii_downcase", "\"ÀÉ\" | ascii_downcase", "\"ÀÉ\" | test(\"àé\"; \"i\")", "\"日本語\" | [scan(\".\")]", "\"日本語\" | sub(\"本\"; \"x\")", "\"a\\u0000b\" | length", "\"a\\u0000b\" | tojson", "\"\\ud83d\\ude00\" | explode", "[55357, 56832] | implode?", "[1114112] | implode?", "[-1] | implode?", "\"𝄞\" | @uri", "\"é\" | @base64", "\"w6k=\" | @base64d", "\"/w==\" | @base64d | explode", "\"/w==\" | @base64d | tojson", "\"/w==\" | @base64d | length", "\"/w==\" | @base64d | utf8bytelength", "\"日本\" | @html", "\"😀\" | @sh", "\"😀\" | @json", "\"tab\\there\" | @tsv?", "[\"tab\\there\", \"q\\\"q\"] | @tsv", "[\"a,b\", \"q\\\"q\"] | @csv", "\"😀😀\" | indices(\"😀\")", "\"a😀😀\" | index(\"😀\")", "\"😀a\" | ltrimstr(\"😀\")", "\"İ\" | ascii_downcase | explode", "\"ß\" | ascii_upcase", "\"😀\" | test(\"^.$\")", "\"😀\" | [match(\"\"; \"g\") | .offset]", "\"éa\" | [match(\"a\").offset]", "\"😀\" * 3", "\"abc\" | .[1:] | explode")
	case 17:
		g.feat("shadow")
		// in parentheses: `def f: …; rest` would otherwise shadow the name for every LATER stage of the pipeline
		// (a recursive template whose base case tests `length` never terminates under `def length: 99;`)
		return "(" + g.pick(
			"def ascii_downcase: \"shadowed\"; \"ABC\" | ascii_downcase",
			"def split($x): [$x, .]; \"a.b\" | split(\".\")",
			"def tojson: \"tj\"; [1] | tojson",
			"def explode: 7; \"a\" | explode",
			"def debug: \"dbg\"; 1 | debug",
			"def map(f): \"map\"; [1] | map(. + 1)",
			"def test($re): \"mine\"; \"abc\" | test(\"b\"), test(\"b\"; null)",
			"def match($re; $f): \"mine\"; \"abc\" | [match(\"b\").offset]",
			"def splits($re): \"mine\"; \"a,b\" | split(\",\")",
			"def splits($re; $f): \"mine\"; \"a,b\" | [splits(\",\")], split(\",\"; null)",
			"def _re_quote_meta: \"q\"; \"a.b\" | split(\".\")",
			"def _binary_or_orig(a; b): \"hijack\"; \"a.b\" | test(\".\")",
			"def _bytes_or_orig(a; b): \"hijack\"; \"abc\" | [scan(\"b\")]",
			"def _orig_test($v): \"hijack\"; \"abc\" | test(\"b\")",
			"def _orig_explode: \"hijack\"; \"abc\" | explode",
			"def _exttype: \"binary\"; \"abc\" | explode, test(\"b\")",
			"def _to_json($o): \"hijack\"; [1] | tojson",
			"def decode($f): \"hijack\"; \"[1]\" | fromjson",
			"def _match_binary($r; $f): \"hijack\"; \"abc\" | [match(\"b\").offset]",
			"def tobytes: \"tb\"; 1 | tobytes",
			"def group: \"grp\"; [1] | group",
			"def d: \"d\"; 1 | d",
			"def tovalue: \"tv\"; {a: 1} | tovalue",
			"def display: \"disp\"; 1 | display",
			"def decode: \"dec\"; \"x\" | decode",
			"def format: \"fmt\"; 1 | format",
			"def printerrln: \"p\"; 1 | debug",
			"def _stderr: \"p\"; 1 | stderr",
			"def _input_filename: \"p\"; input_filename",
			"def tobytesrange: \"p\"; \"abc\" | test(\"b\")",
			"def from_entries: \"fe\"; \"[1]\" | fromjson",
			"def isempty(g): \"ie\"; \"abc\" | test(\"z\")",
			"def _is_string: false; \"abc\" | tojson",
			"def options: \"o\"; \"[1]\" | fromjson",
			"def input: \"my input\"; input",
			"def inputs: \"my inputs\"; inputs",
			"def error: \"no error\"; error",
			"def not: \"x\"; true | not",
			"def empty: \"x\"; [empty]",
			"def select(f): \"sel\"; 1 | select(true)",
			"def recurse: \"r\"; [1] | [..]",
			"def length: 99; \"abc\" | length, ([.[]?] | length)",
			"def match($re): \"m\"; \"abc\" | capture(\"(?<x>b)\"), [scan(\"b\")], sub(\"b\"; \"x\")",
			"def split($a; $b): \"s\"; \"a,b\" | [splits(\",\")]",
			"def _match($a; $b; $c): \"hijack\"; \"abc\" | test(\"b\")",
			"def _capture: \"hijack\"; \"abc\" | capture(\"(?<x>b)\")",
		) + ")"
	case 18:
		g.feat("dates")
		return g.pick("0 | todate", "1425599507 | todate", "\"2015-03-05T23:51:47Z\" | fromdate", "1425599507 | gmtime", "1425599507 | gmtime | mktime", "1425599507 | strftime(\"%Y %j %U %a %b %e %H:%M:%S\")", "\"10:20 05/03/2015\" | strptime(\"%H:%M %d/%m/%Y\")", "1425599507.678 | todate", "[2015, 2, 5, 23, 51, 47, 4, 63] | mktime", "[2015, 2, 5, 23, 51, 47, 4, 63] | todate")
	case 19:
		g.feat("math")
		return g.pick("[1, 2.5, -3] | map(floor, sqrt?)", "[4, 2] | pow(.[0]; .[1])", "10 | log10", "[1, 2] | atan2(.[0]; .[1]) | . * 1000 | floor", "1 | exp | . * 1000 | floor", "[3.7, -3.7] | map(trunc, round, ceil, fabs)", "5 % 3, -5 % 3, 5 % -3, 5.9 % 3.2", "1 / 3 * 3 == 1", "10 / 4", "7 / 7", "[limit(3; 1 | repeat(. * 3))]", "infinite | floor | tostring", "[1, 2, 3] | add / length", "0 / 1", "try (1 / 0) catch \"div0\"", "try (1 % 0) catch \"mod0\"", "[.1, .2] | add", "1e2 % 7", "8 | significand", "8 | logb", "[8 | frexp]", "3.5 | modf", "5 | gamma | floor", "5 | tgamma | round", "16 | cbrt | . * 100 | round")
	case 20:
		g.feat("misc")
		return g.pick("[splits(\"a\")?]", "$in | type", "$in | tojson | length", "[$in | paths] | length", "$in | [..] | length", "[$in | .. | numbers] | length", "$in | [.. | strings] | map(length) | add", "[$in | .. | select(type == \"number\")] | sort | .[0]", "$in | tojson | fromjson == $in", "$in | tojson | length", "$in | tojson | explode | add", "$in | tojson == tostring", "[$in | .. | strings | tojson | length]", "[$in | .. | strings | (tojson | explode) == ([34] + explode + [34])]", "[$in | .. | strings | @json | utf8bytelength]", "$in | [.. | strings] | tojson | [scan(\"\\\\\\\\u[0-9a-f]{4}\")]", "[$in | .. | numbers | tojson | fromjson] == [$in | .. | numbers]", "$in | [.. | strings | explode | implode] == [$in | .. | strings]", "$in | tojson | test(\"[0-9]{20}\")", "[$in | .. | strings | ascii_downcase | ascii_upcase] | length", "$in | [.. | strings | split(\"\") | length] | add", "[$in | .. | strings | [splits(\"\")] | length] | add", "[$in | .. | strings | split(\"a\") | join(\"a\")] == [$in | .. | strings]", "[$in | .. | strings | split(\".\") | join(\".\")] == [$in | .. | strings]", "[$in | .. | strings | [scan(\".\")] | join(\"\")] == [$in | .. | strings]", "[$in | .. | strings | test(\"^\")] | all", "$in | [.. | arrays | group_by(type) | map(length)]", "$in | [.. | arrays | unique_by(type) | length]", "$in | [.. | arrays | (min_by(tojson), max_by(tojson))]", "$in | [.. | objects | to_entries | sort_by(.value | tojson) | map(.key)]", "$in | [paths(type == \"number\")] as $ps | reduce $ps[] as $p (.; setpath($p; getpath($p) + 1)) | [.. | numbers]", "$in | [.. | numbers] | map(. * 2 / 2) == [$in | .. | numbers]", "$in | [.. | numbers | tostring | tonumber] == [$in | .. | numbers]")
	}
	return g.leaf(c, "any")
}

// ---------------------------------------------------------------- expressions of a wanted kind

func (g *G) expr(c *Ctx, want string, d int) string {
	if d <= 0 {
		return g.leaf(c, want)
	}
	switch want {
	case "small":
		return g.small(c, d)
	case "boolean":
		switch g.r.Intn(8) {
		case 0, 1:
			g.feat("compare")
			return "(" + g.expr(c, "any", d-1) + " " + g.pick("==", "!=", "<", "<=", ">", ">=") + " " + g.expr(c, "any", d-1) + ")"
		case 2:
			g.feat("andor")
			return "(" + g.expr(c, "boolean", d-1) + g.pick(" and ", " or ") + g.expr(c, "boolean", d-1) + ")"
		case 3:
			return "(" + g.expr(c, "any", d-1) + " | " + g.pick("type == \"string\"", "type == \"number\"", ". == null", "not", "length? > 1", "type == \"array\"", "isempty(.[]?)", "has(\"a\")?", "any?", "all?", "test(\"a\")?", "startswith(\"a\")?", "IN(1, \"abc\", null)", ". != null") + ")"
		case 4:
			s := g.leaf(c, "string")
			sv, ok := g.sample(c, s)
			str, _ := sv.(string)
			if ok {
				g.feat("re:test")
				return "(" + s + " | test(" + g.regexArgs(str, true) + "))"
			}
		}
		return g.leaf(c, "boolean")
	}
	// subject + operation: pick a subject of a kind whose operations tend to give `want`
	if !g.chance(4) {
		subjKind := want
		switch want {
		case "any", "scalar":
			subjKind = g.pick("string", "array", "object", "number", "any", "string", "array")
		case "number":
			subjKind = g.pick("number", "number", "array", "string")
		case "string", "key":
			subjKind = g.pick("string", "string", "number", "any")
		case "array":
			subjKind = g.pick("array", "array", "string", "object")
		case "object":
			subjKind = g.pick("object", "object", "array", "string")
		}
		subj := g.leaf(c, subjKind)
		sv, ok := g.sample(c, subj)
		if ok {
			// up to 3 attempts to hit the wanted kind
			for try := 0; try < 3; try++ {
				op := g.op(c, sv, d-1)
				e := "(" + subj + " | " + op + ")"
				if want == "any" {
					return e
				}
				if rv, rok := g.sample(c, e); rok && kindMatches(rv, want) {
					return e
				}
			}
		}
	}
	// constructors
	switch want {
	case "array":
		g.feat("arrcons")
		n := g.r.Intn(3)
		ps := []string{}
		for i := 0; i <= n; i++ {
			ps = append(ps, g.expr(c, "any", d-1))
		}
		return "[" + strings.Join(ps, ", ") + "]"
	case "object":
		g.feat("objcons")
		return "{" + g.pick("a", "\"k\"", "\"x y\"", "(\"dyn\")", "@text \"t\"", "\"i\\(1)\"") + ": " + g.expr(c, "any", d-1) + g.pick("", ", b: "+g.expr(c, "any", d-1)) + "}"
	case "string":
		g.feat("interp")
		return `"s\(` + g.expr(c, "any", d-1) + `)"`
	case "number":
		g.feat("arith")
		return "(" + g.expr(c, "number", d-1) + " " + g.pick("+", "-", "*", "/", "%") + " " + g.expr(c, "number", d-1) + ")"
	}
	return g.leaf(c, want)
}

// ---------------------------------------------------------------- whole programs

// balance closes brackets left open by productions that pick an opening form (`[limit(` …).
// Strings are skipped (incl. interpolation) so only structural brackets count.
func balance(s string) string {
	var stack []byte
	inStr := 0 // depth of string nesting via \( … )
	type frame struct{ paren int }
	var strStack []int // paren depth at which each string interpolation started
	i := 0
	str := false
	for i < len(s) {
		ch := s[i]
		if str {
			if ch == '\\' && i+1 < len(s) {
				if s[i+1] == '(' {
					strStack = append(strStack, len(stack))
					stack = append(stack, '(')
					str = false
					i += 2
					continue
				}
				i += 2
				continue
			}
			if ch == '"' {
				str = false
			}
			i++
			continue
		}
		switch ch {
		case '"':
			str = true
		case '(', '[', '{':
			stack = append(stack, ch)
		case ')', ']', '}':
			if len(stack) > 0 {
				stack = stack[:len(stack)-1]
				if ch == ')' && len(strStack) > 0 && strStack[len(strStack)-1] == len(stack) {
					strStack = strStack[:len(strStack)-1]
					str = true
				}
			}
		case '#':
			// no comments are generated outside strings
		}
		i++
	}
	_ = inStr
	var sb strings.Builder
	sb.WriteString(s)
	for j := len(stack) - 1; j >= 0; j-- {
		switch stack[j] {
		case '(':
			sb.WriteByte(')')
		case '[':
			sb.WriteByte(']')
		case '{':
			sb.WriteByte('}')
		}
	}
	return sb.String()
}

// genProgram builds one program against target input `in`. Returns the text and the feature set.
func genProgram(r *hlib.Rand, in any) (string, map[string]bool) {
	g := &G{r: r, in: in, feats: map[string]bool{}}
	c := &Ctx{vars: []vb{{"in", in, true}}}
	d := g.r.Range(2, 4)
	// start from $in or a path into it
	start := "$in"
	if g.chance(3) {
		start = g.leaf(c, g.pick("any", "array", "object", "string", "number"))
	}
	parts := []string{start}
	cur := c
	v, ok := g.sample(c, start)
	cur = cur.withDot(v, ok)
	n := g.r.Range(1, 4)
	for i := 0; i < n; i++ {
		var st string
		if cur.dotOK {
			st = g.op(cur, cur.dot, d)
		} else {
			st = g.anyOp(cur, d)
		}
		st = balance(st)
		nv, nok := g.sample(cur, st)
		if !nok && !g.chance(4) && i < n-1 {
			// keep some failing/empty steps (errors are part of the property), retry most
			st = balance(g.anyOp(cur, d))
			nv, nok = g.sample(cur, st)
		}
		parts = append(parts, st)
		cur = cur.withDot(nv, nok)
	}
	prog := strings.Join(parts, " | ")
	if g.chance(12) {
		prog = "[" + prog + "]"
	} else if g.chance(12) {
		prog = "try (" + prog + ") catch \"top\""
	} else if g.chance(15) {
		prog = "first(" + prog + ")"
	}
	return prog, g.feats
}

var _ = fmt.Sprintf
