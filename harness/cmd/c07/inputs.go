//go:build verif

package main

import (
	"math/big"
	"strings"

	"github.com/wader/fq/internal/verifharness/hlib"
	"github.com/wader/fq/pkg/interp"
)

// ---------------------------------------------------------------- JSON input values

var wordPool = []string{
	"abc", "Hello World", "a.b.c", "foo bar  baz", "x+y=z", "a|b", "(paren)", "[br]", "{cu}", "^start", "end$", "back\\slash",
	"tab\there", "line\nbreak", "quote\"d", "a,b,c", "a;b", "1,2;3", "", " ", "  lead", "trail  ", "MiXeD CaSe", "ABC", "abcabc",
	"aaa", "test123", "2015-03-05T23:51:47Z", "key=value&x=1 2", "<a href=\"x\">&amp;</a>", "it's", "$HOME `cmd`", "a*b?c", "x.y", "..",
	"é", "naïve café", "日本語テキスト", "ß→∞", "😀", "a😀b𝄞c", "\u0000nul", "é́", "Ǆ", "İstanbul", "ÀÉÎ", "αβγ ΑΒΓ",
	"null", "true", "12", "-3.5", "1e3", "[1,2,3]", "{\"a\":1}", "\"str\"", "123456789012345678901234567890", " 7 ", "[1,", "nan", "1 2",
	"YWJj", "aGVsbG8gd29ybGQ=", "/w==", "!!!", "MFRGG===",
	// code points an encoder may treat specially: JS line separators, NEL, NBSP, BOM, non-characters, the
	// surrogate-range boundaries, DEL, the HTML-unsafe set
	"a\u2028b", "x\u2029", "\u2028\u2029", "\u0085", "\u00a0", "\ufeffbom", "\ufffe\uffff", "\ud7ff\ue000", "\u007f", "<>&'\"", "</script>", "a\u200bb\u200d",
	"\U0001fffe\U0010ffff", "\ufffd", "\u0080\u009f",
}

// specialRunes: every C0 and C1 control, DEL and the code points above, one string each (also in pairs)
func specialString(r *hlib.Rand) string {
	pick := func() rune {
		switch r.Intn(6) {
		case 0:
			return rune(r.Intn(0x20))
		case 1:
			return rune(0x7f + r.Intn(0x21))
		case 2:
			return []rune{0x2028, 0x2029, 0x85, 0xa0, 0xfeff, 0xfffe, 0xffff, 0xd7ff, 0xe000, 0xfffd, 0x200b, 0x2027, 0x202a, 0x1fffe, 0x10ffff, 0x10000}[r.Intn(16)]
		case 3:
			return []rune{'<', '>', '&', '\'', '"', '\\', '/', 0x7f, 0x7e, 0x20}[r.Intn(10)]
		case 4:
			return rune(0x2000 + r.Intn(0x70))
		}
		return rune('a' + r.Intn(26))
	}
	n := r.Range(1, 4)
	var sb strings.Builder
	for i := 0; i < n; i++ {
		sb.WriteRune(pick())
	}
	return sb.String()
}

var keyPool = []string{"a", "b", "c", "k", "v", "id", "name", "x", "y", "n", "s", "key", "value", "a b", "ünï", "0", "", "$x", "a.b", "😀"}

// extKeys: the names fq's decode values reserve (pkg/interp/decode.go ExtKeys, taken from the running binary) plus a
// few look-alikes. A JSON document may use them as ordinary keys — fq's fromjson returns a decode value, so a field
// of that name shadows (or is shadowed by) the ext key: `"{\"_error\":1}" | fromjson` failed before 15b0cce6.
var extKeys = append(append([]string{}, interp.VerifC07ExtKeys()...), "_unknown", "_", "__loc__", "_error_", "error")

// extValue: a value of every JSON type for an ext key, incl. the shapes fq's own `_error` has
func extValue(r *hlib.Rand) any {
	switch r.Intn(12) {
	case 0:
		return nil
	case 1:
		return r.Bool()
	case 2:
		return genInt(r)
	case 3:
		return genFloat(r)
	case 4:
		return genString(r)
	case 5:
		return map[string]any{"error": "x"}
	case 6:
		return map[string]any{"error": genString(r), "stacktrace": []any{}}
	case 7:
		return []any{}
	case 8:
		return []any{genScalar(r), map[string]any{extKeys[r.Intn(len(extKeys))]: genScalar(r)}}
	case 9:
		return map[string]any{extKeys[r.Intn(len(extKeys))]: extValue(r)}
	case 10:
		return map[string]any{}
	}
	return "json"
}

// genExtDoc: a document whose keys are ext-key names, at top level and nested
func genExtDoc(r *hlib.Rand) any {
	m := map[string]any{}
	n := r.Range(1, 3)
	for i := 0; i < n; i++ {
		m[extKeys[r.Intn(len(extKeys))]] = extValue(r)
	}
	switch r.Intn(5) {
	case 0:
		m["a"] = genScalar(r)
	case 1:
		return []any{m, genScalar(r)}
	case 2:
		return map[string]any{"k": m, "_error": extValue(r)}
	}
	return m
}

func hasExtKey(v any) bool {
	switch v := v.(type) {
	case []any:
		for _, e := range v {
			if hasExtKey(e) {
				return true
			}
		}
	case map[string]any:
		for k, e := range v {
			if strings.HasPrefix(k, "_") || hasExtKey(e) {
				return true
			}
		}
	case string:
		// a JSON text with such a key (the `js` field, strings fed to fromjson)
		for _, k := range extKeys {
			if strings.HasPrefix(k, "_") && strings.Contains(v, `"`+k+`"`) {
				return true
			}
		}
	}
	return false
}

func bigFrom(s string) *big.Int {
	b, ok := new(big.Int).SetString(s, 10)
	if !ok {
		panic(s)
	}
	return b
}

func genInt(r *hlib.Rand) any {
	switch r.Intn(12) {
	case 0, 1, 2, 3:
		return r.Range(-3, 12)
	case 4:
		return r.Range(-1000, 1000)
	case 5:
		return []any{0, 1, -1, 255, 256, 65535, 9007199254740991, 9007199254740992, 9007199254740993, -9007199254740993}[r.Intn(10)]
	case 6:
		return []any{9223372036854775807, -9223372036854775808, 4294967296, 2147483647, -2147483648}[r.Intn(5)]
	case 7:
		return []any{bigFrom("9223372036854775808"), bigFrom("-9223372036854775809"), bigFrom("18446744073709551615"), bigFrom("18446744073709551616")}[r.Intn(4)]
	case 8, 9:
		// random big integer beyond 2^63
		n := r.Range(20, 45)
		var sb strings.Builder
		if r.Intn(3) == 0 {
			sb.WriteByte('-')
		}
		sb.WriteByte(byte('1' + r.Intn(9)))
		for i := 1; i < n; i++ {
			sb.WriteByte(byte('0' + r.Intn(10)))
		}
		return bigFrom(sb.String())
	case 10:
		return bigFrom("1" + strings.Repeat("0", r.Range(19, 40)))
	default:
		return r.Range(0, 5)
	}
}

func genFloat(r *hlib.Rand) any {
	fs := []float64{0.5, -0.5, 1.5, 2.25, 3.14159, 0.1, 0.2, 1e-7, 1.5e-10, 1e21, 1.7976931348623157e308, -1e300, 5e-324, 123456.789,
		1e17 + 2, 9007199254740994.0, 4.0, -2.0, 100.0, 1e19, 0.30000000000000004, 2.5, 99.99, -0.001}
	if r.Intn(4) == 0 {
		return float64(r.Range(-5000, 5000)) / float64([]int{2, 4, 8, 10, 100, 3}[r.Intn(6)])
	}
	return fs[r.Intn(len(fs))]
}

func genString(r *hlib.Rand) string {
	switch r.Intn(10) {
	case 0:
		// concatenation of two pool words
		return wordPool[r.Intn(len(wordPool))] + wordPool[r.Intn(len(wordPool))]
	case 1:
		// random unicode incl. astral code points
		n := r.Intn(6)
		var sb strings.Builder
		for i := 0; i < n; i++ {
			switch r.Intn(5) {
			case 0:
				sb.WriteRune(rune(r.Range(0x20, 0x7e)))
			case 1:
				sb.WriteRune(rune(r.Range(0xa0, 0x24f)))
			case 2:
				sb.WriteRune(rune(r.Range(0x3040, 0x30ff)))
			case 3:
				sb.WriteRune(rune(r.Range(0x1f600, 0x1f64f)))
			default:
				sb.WriteRune(rune(r.Range(0x10000, 0x10ffff)))
			}
		}
		return sb.String()
	case 2:
		w := wordPool[r.Intn(len(wordPool))]
		return strings.Repeat(w, r.Range(1, 3))
	case 3, 4:
		return specialString(r)
	}
	return wordPool[r.Intn(len(wordPool))]
}

func genScalar(r *hlib.Rand) any {
	switch r.Intn(10) {
	case 0:
		return nil
	case 1:
		return r.Bool()
	case 2, 3, 4:
		return genInt(r)
	case 5:
		return genFloat(r)
	default:
		return genString(r)
	}
}

func genValue(r *hlib.Rand, d int) any {
	if d <= 0 {
		return genScalar(r)
	}
	switch r.Intn(10) {
	case 0, 1, 2:
		n := r.Intn(5)
		if r.Intn(8) == 0 {
			n = 0
		}
		a := make([]any, n)
		for i := range a {
			a[i] = genValue(r, d-1)
		}
		return a
	case 3, 4, 5:
		n := r.Intn(5)
		if r.Intn(8) == 0 {
			n = 0
		}
		m := map[string]any{}
		for i := 0; i < n; i++ {
			if r.Intn(6) == 0 {
				m[extKeys[r.Intn(len(extKeys))]] = extValue(r)
			} else {
				m[keyPool[r.Intn(len(keyPool))]] = genValue(r, d-1)
			}
		}
		return m
	}
	return genScalar(r)
}

// genRich: an object with fields of every kind, so that programs generated against it have
// arrays to group, records to destructure, strings to match, JSON texts to parse, big integers.
func genRich(r *hlib.Rand) any {
	m := map[string]any{}
	nums := make([]any, r.Range(0, 6))
	for i := range nums {
		if r.Intn(4) == 0 {
			nums[i] = genFloat(r)
		} else {
			nums[i] = genInt(r)
		}
	}
	m["nums"] = nums
	strs := make([]any, r.Range(0, 5))
	for i := range strs {
		strs[i] = genString(r)
	}
	m["strs"] = strs
	recs := make([]any, r.Range(0, 5))
	for i := range recs {
		rec := map[string]any{"k": []any{"x", "y", "z", "X"}[r.Intn(4)], "v": genInt(r)}
		if r.Intn(3) == 0 {
			rec["t"] = genString(r)
		}
		if r.Intn(5) == 0 {
			delete(rec, "v")
		}
		recs[i] = rec
	}
	m["recs"] = recs
	pairs := make([]any, r.Range(0, 4))
	for i := range pairs {
		p := []any{genScalar(r), genScalar(r)}
		if r.Intn(5) == 0 {
			p = p[:1]
		}
		if r.Intn(5) == 0 {
			p = append(p, []any{genScalar(r)})
		}
		pairs[i] = p
	}
	m["pairs"] = pairs
	m["s"] = genString(r)
	m["t"] = genString(r)
	m["n"] = genInt(r)
	m["big"] = []any{bigFrom("12345678901234567890123"), bigFrom("-98765432109876543210"), bigFrom("18446744073709551616"), bigFrom("9223372036854775808")}[r.Intn(4)]
	m["f"] = genFloat(r)
	m["b"] = r.Bool()
	m["z"] = nil
	m["o"] = genValue(r, 2)
	m["e"] = []any{[]any{}, map[string]any{}, "", []any{[]any{}}, map[string]any{"a": map[string]any{}}}[r.Intn(5)]
	m["js"] = jsonText(genValue(r, 2))
	switch r.Intn(4) {
	case 0:
		m["js"] = jsonText(genExtDoc(r))
	case 1:
		m["x"] = genExtDoc(r)
	case 2:
		m["x"] = genExtDoc(r)
		m["js"] = jsonText(genExtDoc(r))
		m[extKeys[r.Intn(len(extKeys))]] = extValue(r)
	}
	if r.Intn(3) == 0 {
		delete(m, []string{"s", "n", "o", "recs", "f", "b"}[r.Intn(6)])
	}
	return m
}

func genInput(r *hlib.Rand) any {
	var v any
	switch r.Intn(11) {
	case 10:
		v = genExtDoc(r)
	case 0:
		v = genScalar(r)
	case 1, 2:
		v = genValue(r, 3)
	case 3:
		// array of rich-ish things
		n := r.Range(1, 3)
		a := make([]any, n)
		for i := range a {
			a[i] = genValue(r, 2)
		}
		v = a
	default:
		v = genRich(r)
	}
	// the op text is the identity of a case: always go through the text
	w, err := parseJSONExact(jsonText(v))
	if err != nil {
		panic("input does not round-trip: " + jsonText(v))
	}
	return w
}

// ---------------------------------------------------------------- helpers on sample values

func kindOf(v any) string {
	switch v.(type) {
	case nil:
		return "null"
	case bool:
		return "boolean"
	case int, float64, *big.Int:
		return "number"
	case string:
		return "string"
	case []any:
		return "array"
	case map[string]any:
		return "object"
	}
	return "other"
}
