//go:build verif

package main

import (
	"bytes"
	"context"
	"errors"
	"fmt"
	"io"
	"io/fs"
	"strconv"
	"strings"
	"sync"

	"github.com/wader/fq/internal/verifharness/hlib"
	"github.com/wader/fq/pkg/interp"
)

// -jsontext: fq's JSON READER against the reference's fromjson, systematically on MALFORMED text.
// (fq re-implements fromjson as `decode("json")`, format/json/json.go:37-83; `--argjson` and JSON input
// files go through the same decoder.) A case = (text T, channel):
//
//	f  `$in | fromjson` with $in = T (a string), evaluated like mode d
//	a  `fq -nc --argjson in T '$in'` through interp.Main: succeeds and prints the value iff the reference's
//	   fromjson(T) succeeds with that value (exit code != 0 otherwise)
//	i  `fq -c -d json . f.json` with file content T through interp.Main: prints the value (one compact line, exit 0)
//	   iff the reference accepts T; for a rejected T fq shows the failed decode tree with its error (several
//	   dump lines) or fails — it must NOT print one JSON line with exit 0. (Without -d, format probing would
//	   read `1 2` as jsonl and `[1 2]` as csv: not the JSON reader.)
//
// Texts (deterministic enumeration, every run): each COMPLETE value of a pool (all kinds, nested, numbers in
// every syntax, strings with every escape) followed by each suffix of {"", ], }, `,`, :, digit, letter, quote,
// /, whitespace, whitespace+those, a second value}; every strict PREFIX of the pool values; bracket/nesting
// mismatches and syntax errors; leading garbage/BOM; and values whose text length straddles the reader's
// buffer sizes (510..514, 1022..1026, 1534..1538, 3582..3586 bytes) followed by garbage.
// op text: `j <T as JSON string> ::: <channel>`.

type jfile struct{ data []byte }

type jvfs map[string][]byte

func (v jvfs) Open(name string) (fs.File, error) {
	b, ok := v[name]
	if !ok {
		return nil, &fs.PathError{Op: "open", Path: name, Err: errors.New("not found")}
	}
	return interp.FileReader{
		R:        io.NewSectionReader(bytes.NewReader(b), 0, int64(len(b))),
		FileInfo: interp.FixedFileInfo{FName: name, FSize: int64(len(b))},
	}, nil
}

type jvos struct {
	*vos
	files jvfs
}

func (o jvos) FS() fs.FS { return o.files }

func runMainFiles(args []string, files jvfs) (lines []string, exit int, panicMsg string) {
	o := jvos{newVOS(args...), files}
	msg, panicked := hlib.Catch(func() string {
		i, err := interp.New(o, interp.DefaultRegistry)
		if err != nil {
			exit = 1
			return ""
		}
		defer i.Stop()
		if err := i.Main(context.Background(), o.Stdout(), "verif"); err != nil {
			var ex interp.Exiter
			if errors.As(err, &ex) {
				exit = ex.ExitCode()
			} else {
				exit = 1
			}
		}
		return ""
	})
	if panicked {
		return nil, -1, msg
	}
	out := o.stdout.String()
	if out != "" {
		lines = strings.Split(strings.TrimSuffix(out, "\n"), "\n")
	}
	return lines, exit, ""
}

func jsonTexts() []string {
	values := []string{
		`null`, `true`, `false`, `0`, `-0`, `1`, `-1`, `12`, `1.5`, `-1.5e3`, `1E+2`, `1e-2`, `0.0`, `123456789012345678901234567890`, `1e1000`,
		`""`, `"a"`, `"a b"`, `"\""`, `"\\"`, `"\/"`, `"\b\f\n\r\t"`, `"A"`, `"😀"`, `"é😀"`, `"]"`, `"}"`, `"[1,"`,
		`[]`, `[1]`, `[1,2]`, `[[]]`, `[[1],[2]]`, `[null,true,"x",1.5,{}]`, `{}`, `{"a":1}`, `{"a":[1]}`, `{"a":{"b":null}}`, `{"a":1,"b":"x"}`, `{"":[]}`,
		`[{"a":[{"b":[1,2,{"c":"]}"}]}]}]`, ` 1`, "\n[1]", "\t{\"a\":1}",
	}
	suffixes := []string{``, `]`, `}`, `,`, `:`, `1`, `a`, `"`, `/`, ` `, "\n", "\t", "\r\n", ` ]`, ` }`, ` ,`, ` :`, ` 1`, ` a`, "\n]", "\n}", ` null`, `[]`, ` []`, `{}`, ` "x"`, `]]`, `}}`, `//c`, "\x00", ` true`, `e1`, `.5`}
	seen := map[string]bool{}
	var ts []string
	add := func(t string) {
		if !seen[t] {
			seen[t] = true
			ts = append(ts, t)
		}
	}
	for _, v := range values {
		for _, s := range suffixes {
			add(v + s)
		}
	}
	// documents whose keys are fq's ext-key names, values of every type, top level and nested
	nExt := 0
	for _, k := range extKeys {
		for _, v := range []string{`1`, `null`, `true`, `"s"`, `{"error":"x"}`, `[]`, `{}`, `1.5`, `{"` + k + `":[{"` + k + `":null}]}`} {
			add(`{"` + k + `":` + v + `}`)
			nExt++
		}
		add(`[{"` + k + `":1},{"a":{"` + k + `":"x"}}]`)
		add(`{"a":1,"` + k + `":{"error":"x"},"_format":"json"}`)
		add(`{"` + k + `":1}]`)
		nExt += 3
	}
	jsonTextExtDocs = nExt
	// every strict prefix
	for _, v := range values {
		for i := 0; i < len(v); i++ {
			add(v[:i])
		}
	}
	// mismatches and syntax errors
	for _, t := range []string{`[1}`, `{"a":1]`, `[[1]`, `[1]]`, `{"a":[1}`, `{"a":[1}]`, `[1,]`, `[,1]`, `[1 2]`, `[1,,2]`, `{,}`, `{"a"}`, `{"a":}`, `{"a":1,}`, `{1:2}`, `{a:1}`, `{'a':1}`, `['a']`,
		`{"a":1 "b":2}`, `{"a":1,"a":2}`, `]`, `}`, `,`, `:`, `][`, `}{`, `x`, `nul`, `nulll`, `NULL`, `True`, `tru`, `truefalse`, `NaN`, `nan`, `Infinity`, `-Infinity`, `-`, `+1`, `01`, `1.`, `.5`, `1e`, `1e+`, `1.e1`, `0x10`, `1_0`, `--1`, `1-`,
		`"`, `"a`, `"\`, `"\x"`, `"\u"`, `"\u12"`, `"\u123g"`, `"\ud800"`, `"\ud800A"`, `"\udc00"`, "\"a\nb\"", "\"a\tb\"", "\"\x01\"", "\"\x7f\"", `'a'`, `"a""b"`, `"a" "b"`, `1 2`, `1,2`, `[1] [2]`, `{} {}`, `null null`,
		"\ufeff1", "\ufeff[1]", "\ufeff", ` `, "\n", ``, "\x00", "1\x00", `/**/1`, `1/**/`, `#c` + "\n1", `[1] #c`, `[1]//c`, strings.Repeat("[", 200) + strings.Repeat("]", 200), strings.Repeat("[", 200) + strings.Repeat("]", 199), strings.Repeat("[", 200) + strings.Repeat("]", 201),
		strings.Repeat(`{"a":`, 50) + `1` + strings.Repeat(`}`, 50), strings.Repeat(`{"a":`, 50) + `1` + strings.Repeat(`}`, 51), strings.Repeat(`{"a":`, 50) + `1` + strings.Repeat(`}`, 49) + `]`} {
		add(t)
	}
	// values whose text ends around the reader's buffer boundaries, then garbage
	for _, base := range []int{512, 1024, 1536, 3584, 4096} {
		for d := -2; d <= 2; d++ {
			l := base + d
			str := `"` + strings.Repeat("a", l-2) + `"`
			arr := `[` + strings.Repeat("1,", (l-3)/2) + `1` + strings.Repeat(" ", (l-3)%2) + `]`
			obj := `{"k":"` + strings.Repeat("v", l-8) + `"}`
			num := strings.Repeat("7", l)
			for _, v := range []string{str, arr, obj, num} {
				if len(v) != l {
					panic(fmt.Sprintf("length %d != %d", len(v), l))
				}
				for _, s := range []string{``, `]`, `}`, `,`, ` `, ` ]`, "\n}", ` 1`, `x`, ` x`, strings.Repeat(" ", 600) + `]`, strings.Repeat(" ", 600)} {
					if v == num && (s == `x` || s == ``) && d != 0 {
						continue
					}
					add(v + s)
				}
			}
		}
	}
	return ts
}

var jsonTextExtDocs int

func emitJSONText(o *hlib.Out, cfg hlib.Config) {
	texts := jsonTexts()
	o.Stat("extkey_docs", jsonTextExtDocs)
	type job struct {
		text, ch string
	}
	var jobs []job
	for i, t := range texts {
		jobs = append(jobs, job{t, "f"})
		// the CLI channels cost ~40 ms each: every text in thorough, one in five (long ones: one in two) in quick, rotating with the seed
		if cfg.Thorough() || (i+int(cfg.Seed))%5 == 0 || (len(t) > 500 && (i+int(cfg.Seed))%2 == 0) {
			if !strings.ContainsRune(t, 0) { // a NUL cannot be passed in an argument vector
				jobs = append(jobs, job{t, "a"})
			}
			jobs = append(jobs, job{t, "i"})
		}
	}
	res := make([]string, len(jobs))
	ok := make([]bool, len(jobs))
	var wg sync.WaitGroup
	ch := make(chan int, len(jobs))
	for i := range jobs {
		ch <- i
	}
	close(ch)
	for w := 0; w < 4; w++ {
		wg.Add(1)
		go func() {
			defer wg.Done()
			f := newFq()
			for i := range ch {
				ok[i], res[i] = jsonTextCase(f, jobs[i].text, jobs[i].ch)
			}
		}()
	}
	wg.Wait()
	nerr := 0
	for i, j := range jobs {
		op := "j " + strconv.Quote(j.text) + sepInProg + j.ch
		if !isASCIIQuoted(j.text) {
			op = "j " + jsonText(j.text) + sepInProg + j.ch
		}
		o.N++
		if ok[i] {
			o.Verdict("OK", clipOp(op))
			if strings.HasPrefix(res[i], "error") {
				nerr++
			}
			o.Class(j.text)
		} else {
			o.Verdict("PROPFAIL", op+sepObs+res[i])
		}
		o.Stat("jsontext_"+j.ch, 1)
	}
	o.Stat("jsontext_texts", len(texts))
	o.Stat("jsontext_reference_rejects", nerr)
	o.Stat("exhaustive_small_domain", 1)
}

func isASCIIQuoted(string) bool { return false } // always the JSON form (parseOp reads it back with parseJSONExact)

func clipOp(s string) string {
	if len(s) > 300 {
		return s[:300] + "…"
	}
	return s
}

// jsonTextCase returns (agree, "ref-observation ;;fq: fq-observation")
func jsonTextCase(f *fqInst, text, ch string) (bool, string) {
	ref := runRef(`$in | fromjson`, text)
	refS := ref.String()
	switch ch {
	case "f":
		if err := f.setIn(text); err != nil {
			return false, refS + " ;;fq: cannot set $in: " + err.Error()
		}
		fq := f.evalDirect(`$in | fromjson`)
		if fq.End == "timeout" || ref.End == "timeout" {
			ref = runRefT(`$in | fromjson`, text, longTimeout)
			fq = f.evalDirectT(`$in | fromjson`, longTimeout)
			refS = ref.String()
		}
		return ref.Equal(fq), refS + " ;;fq: " + fq.String()
	case "a", "i":
		var lines []string
		var exit int
		var pm string
		if ch == "a" {
			lines, exit, pm = runMainFiles([]string{"-nc", "--argjson", "in", text, "$in"}, jvfs{})
		} else {
			lines, exit, pm = runMainFiles([]string{"-c", "-d", "json", ".", "f.json"}, jvfs{"f.json": []byte(text)})
		}
		fq := fmtLines(lines, "exit="+strconv.Itoa(exit)) + pm
		if ref.End == "" && len(ref.Outs) == 1 {
			// success: one printed line whose value is the reference's value, exit 0
			if exit == 0 && len(lines) == 1 {
				// the printed text is compared with what the reference's own output path prints for its value
				// (an infinite float prints as the largest finite one in both encoders)
				rl, _ := refCLI(`$in | fromjson`, text)
				if len(rl) == 1 {
					v, err := parseJSONExact(lines[0])
					w, err2 := parseJSONExact(rl[0])
					if err == nil && err2 == nil && canon(v) == canon(w) {
						return true, refS
					}
				}
			}
			return false, refS + " ;;fq: " + fq
		}
		// the reference rejects the text: fq must not print a value and must not exit 0
		if exit != 0 && len(lines) == 0 && pm == "" {
			return true, "error"
		}
		if ch == "i" && pm == "" && exit >= 0 {
			// forced format: the failed decode tree is displayed; that is not a JSON value line
			if len(lines) != 1 {
				return true, "error"
			}
			if _, err := parseJSONExact(lines[0]); err != nil {
				return true, "error"
			}
		}
		return false, refS + " ;;fq: " + fq
	}
	return false, "unknown channel"
}
