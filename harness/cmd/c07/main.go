//go:build verif

package main

import (
	"fmt"
	"os"
	"time"
)

func main() {
	if len(os.Args) > 1 && os.Args[1] == "-probe" {
		f := newFq()
		in, _ := parseJSONExact(`{"a":[1,2,{"b":"x"}],"n":123456789012345678901234567890}`)
		t := time.Now()
		fmt.Println(f.setIn(in))
		fmt.Println("setIn", time.Since(t))
		progs := []string{`$in.a[] | tojson`, `$in | .n + 1`, `"abc" | test("B";"i"), [splits("b")], (fromjson? // "x")`, `$in | tojson | fromjson | .n`, `error("x")`, `1,2,error`, `foo`, `(`}
		for _, p := range progs {
			t = time.Now()
			a := runRef(p, in)
			t1 := time.Since(t)
			t = time.Now()
			b := f.evalDirect(p)
			t2 := time.Since(t)
			t = time.Now()
			l, ex, se, pm := runCLI(p, jsonText(in))
			t3 := time.Since(t)
			rl, re := refCLI(p, in)
			fmt.Printf("%s\n  ref %v %s\n  fq  %v %s\n  cli %v %v exit=%d stderr=%q %s\n  refcli %s\n", p, t1, a, t2, b, t3, l, ex, se, pm, fmtLines(rl, re))
		}
		return
	}
}
