//go:build verif

// C07 harness: differential check "a standard jq program behaves in fq as in the gojq engine fq embeds".
//
// Programs are generated from a grammar of standard jq (gen.go) against generated JSON inputs
// (inputs.go). Every (program, input) pair is evaluated
//
//	(a) by the gojq library directly (gojq.Parse -> Compile -> Run, same module version, default builtins,
//	    `$in` bound to the input, null as `.`), and
//	(b) by fq in-process, as `fq -n --argjson in V 'P'` does: `$in` comes from the interpreter's slurps,
//	    the program is the query of interp.Eval with null input.
//
// Modes (first word of the op text):
//
//	d  direct: P is the whole query of one interp.Eval; observation = outputs until the first error.
//	b  batch: 16 programs of one input share one Eval, each as `try ((P) | ["o", .]) catch ["e"]`
//	   separated by ["s"]; the SAME batch text is given to the reference; a batch that fails as a
//	   whole (compile error, timeout) is re-run program by program in mode d.
//	c  CLI: `fq -nc --argjson in V P` through interp.Main (argument parsing, query rewrite, display with
//	   the colorjson encoder); compared as text with gojq.Marshal of the reference outputs, and the exit
//	   code with the reference's end (0 / 5 error / 3 does not compile).
//
// Verdicts are decided here (there is no Lean oracle for a jq engine): `!OK`, `!PROPFAIL`.
// op text: `<mode> <input JSON> ::: <program>`; OK lines abbreviate the input as `in#<idx>`, PROPFAIL lines
// carry it in full (followed by ` ;;ref: <obs> ;;fq: <obs>`) so that they replay alone.
//
// `-facts` emits the override table computed with the gojq PARSER from the .jq sources in their real
// load order as case lines for Drv/C07.lean (cross-check of the text scanner behind Gen/Overrides.lean).
package main

import (
	"context"
	"flag"
	"fmt"
	"hash/fnv"
	"os"
	"os/exec"
	"sort"
	"strconv"
	"strings"
	"sync"
	"sync/atomic"
	"time"

	"github.com/wader/fq/internal/verifharness/hlib"
	"github.com/wader/fq/pkg/interp"
	"github.com/wader/gojq"
)

const sepInProg = " ::: "
const sepObs = " ;;ref: "

type progInfo struct {
	text   string
	feats  map[string]bool
	target int
	inputs []int // indices of the inputs it runs on (target first)
}

type caseRes struct {
	mode    string
	prog    int
	input   int
	ok      bool
	ref, fq string // observations (strings) — kept for failures and for the non-constant statistic
	refEnd  string
	known   string // key of a recorded finding that explains the disagreement
}

func fnv64(s string) uint64 {
	h := fnv.New64a()
	h.Write([]byte(s))
	return h.Sum64()
}

// ---------------------------------------------------------------- batch mode

const batchSize = 16

func batchText(progs []string) string {
	var sb strings.Builder
	for i, p := range progs {
		if i > 0 {
			sb.WriteString(`, ["s"], `)
		}
		sb.WriteString(`(try (limit(` + strconv.Itoa(maxOutputs+1) + `; (` + p + `)) | ["o", .]) catch ["e"])`)
	}
	return sb.String()
}

// splitBatch cuts the outputs of a batch program into per-program observations.
func splitBatch(it gojq.Iter, ctx context.Context, n int) ([]Obs, bool) {
	res := make([]Obs, 1, n)
	for {
		v, ok := it.Next()
		if !ok {
			break
		}
		if _, isErr := v.(error); isErr {
			return nil, false
		}
		if ctx.Err() != nil {
			return nil, false
		}
		if jv, isJQ := v.(gojq.JQValue); isJQ {
			v = jv.JQValueToGoJQ()
		}
		a, isArr := v.([]any)
		if !isArr || len(a) == 0 {
			return nil, false
		}
		tag, _ := a[0].(string)
		cur := &res[len(res)-1]
		switch tag {
		case "o":
			if len(a) != 2 {
				return nil, false
			}
			if len(cur.Outs) >= maxOutputs {
				cur.End = "more"
			} else {
				cur.Outs = append(cur.Outs, canon(a[1]))
			}
		case "e":
			cur.End = "error"
		case "s":
			res = append(res, Obs{})
		default:
			return nil, false
		}
	}
	if len(res) != n {
		return nil, false
	}
	return res, true
}

func refBatch(text string, in any, n int) (res []Obs, ok bool) {
	_, panicked := hlib.Catch(func() string {
		q, err := gojq.Parse(text)
		if err != nil {
			return ""
		}
		code, err := gojq.Compile(q, refOpts...)
		if err != nil {
			return ""
		}
		ctx, cancel := context.WithTimeout(context.Background(), 4*evalTimeout)
		defer cancel()
		defer registerCancel(cancel)()
		res, ok = splitBatch(code.RunWithContext(ctx, nil, in), ctx, n)
		return ""
	})
	if panicked {
		return nil, false
	}
	return res, ok
}

func (f *fqInst) fqBatch(text string, n int) (res []Obs, ok bool) {
	_, panicked := hlib.Catch(func() string {
		ctx, cancel := context.WithTimeout(context.Background(), 4*evalTimeout)
		defer cancel()
		defer registerCancel(cancel)()
		it, err := f.i.Eval(ctx, nil, text, interp.EvalOpts{})
		if err != nil {
			return ""
		}
		res, ok = splitBatch(it, ctx, n)
		return ""
	})
	if panicked {
		return nil, false
	}
	return res, ok
}

// ---------------------------------------------------------------- one (mode, program, input) comparison

func compareDirect(f *fqInst, prog string, in any) (ok bool, ref, fq Obs) {
	ref = runRef(prog, in)
	fq = f.evalDirect(prog)
	if ref.End == "timeout" || fq.End == "timeout" {
		// a timeout is a resource limit of the harness (loaded machine), not an observation: both sides
		// again with a long limit; still both timing out = equal (counted apart), one side only = a hang
		ref = runRefT(prog, in, longTimeout)
		fq = f.evalDirectT(prog, longTimeout)
	}
	return ref.Equal(fq), ref, fq
}

func compareCLI(prog string, in any, inJSON string) (ok bool, ref, fq string) {
	rl, rend := refCLI(prog, in)
	lines, exit, _, pm := runCLI(prog, inJSON)
	ref = fmtLines(rl, rend)
	wantExit := 0
	switch rend {
	case "error":
		wantExit = 5
	case "parse", "compile":
		wantExit = 3
	}
	fq = fmtLines(lines, "exit="+strconv.Itoa(exit)) + pm
	ref = fmtLines(rl, "exit="+strconv.Itoa(wantExit))
	if rend == "more" || rend == "timeout" {
		return true, ref, fq // not comparable (never generated: see selection of CLI cases)
	}
	return ref == fq, ref, fq
}

// ---------------------------------------------------------------- main

type sizes struct {
	inputs, progs, extra, cli, workers int
	top                                  int // programs that are one top-level shape (all of them also go through the CLI)
	batchShare                           int // percent of (program,input) pairs evaluated in batch mode
}

func main() {
	facts, jsontext, enc, own := false, false, false, false
	for i, a := range os.Args {
		if a == "-facts" || a == "-jsontext" || a == "-enc" || a == "-own" {
			facts, jsontext, enc, own = a == "-facts", a == "-jsontext", a == "-enc", a == "-own"
			os.Args = append(os.Args[:i], os.Args[i+1:]...)
			break
		}
	}
	if len(os.Args) > 1 && os.Args[1] == "-probe" {
		probe()
		return
	}
	if len(os.Args) > 1 && os.Args[1] == "-child-unsupported" {
		childUnsupported()
		return
	}
	cfg := hlib.ParseFlags()
	_ = flag.CommandLine
	o := hlib.NewOut(cfg.Out)
	defer o.Close()
	if facts {
		emitFacts(o)
		return
	}
	if enc {
		if cfg.Replay != "" {
			replayEnc(o, hlib.ReplayLines(cfg.Replay))
		} else {
			emitEnc(o, cfg)
		}
		return
	}
	if cfg.Replay != "" {
		replay(o, cfg.Replay)
		return
	}
	if jsontext {
		emitJSONText(o, cfg)
		return
	}
	if own {
		emitOwn(o, cfg)
		return
	}
	sz := sizes{inputs: 24, progs: 1500, extra: 2, cli: 80, workers: 4, batchShare: 60, top: 170}
	if cfg.Thorough() {
		sz = sizes{inputs: 64, progs: 12000, extra: 2, cli: 400, workers: 4, batchShare: 60, top: 1200}
	}
	if s := os.Getenv("VERIF_C07_PROGS"); s != "" {
		sz.progs, _ = strconv.Atoi(s)
	}
	if s := os.Getenv("VERIF_C07_WORKERS"); s != "" {
		sz.workers, _ = strconv.Atoi(s)
	}
	generate(o, cfg, sz)
}

func generate(o *hlib.Out, cfg hlib.Config, sz sizes) {
	t0 := time.Now()
	r := hlib.NewRand(cfg.Seed)
	inputs := make([]any, sz.inputs)
	inJSON := make([]string, sz.inputs)
	for i := range inputs {
		inputs[i] = genInput(r.Fork())
		inJSON[i] = jsonText(inputs[i])
	}
	// programs
	var progs []progInfo
	nonCompiling, dropped := 0, 0
	seen := map[string]bool{}
	for len(progs) < sz.progs {
		pr := r.Fork()
		target := len(progs) % sz.inputs
		var text string
		var feats map[string]bool
		if len(progs) < sz.top {
			text, feats = genTopProgram(pr, inputs[target])
		} else {
			text, feats = genProgram(pr, inputs[target])
		}
		if len(text) > 900 || seen[text] || strings.ContainsAny(text, "\t\n\r") && false {
			dropped++
			continue
		}
		seen[text] = true
		if q, err := gojq.Parse(text); err != nil {
			nonCompiling++
			if feats["top"] {
				feats["noncompiling"] = true // a program the parser rejects is a top-level shape too (exit 3)
			} else if nonCompiling%25 != 0 {
				continue
			} else {
				feats = map[string]bool{"noncompiling": true}
			}
		} else if _, err := gojq.Compile(q, refOpts...); err != nil {
			nonCompiling++
			if nonCompiling <= 5 {
				o.Sample("does not compile in the reference: " + text + " :: " + err.Error())
			}
			if os.Getenv("VERIF_C07_DEBUG") != "" {
				fmt.Fprintln(os.Stderr, "noncompiling:", err.Error())
			}
			if feats["top"] {
				feats["noncompiling"] = true
			} else if nonCompiling%25 != 0 {
				continue
			} else {
				feats = map[string]bool{"noncompiling": true}
			}
		}
		p := progInfo{text: text, feats: feats, target: target, inputs: []int{target}}
		for len(p.inputs) < 1+sz.extra && len(p.inputs) < sz.inputs {
			j := pr.Intn(sz.inputs)
			dup := false
			for _, k := range p.inputs {
				dup = dup || k == j
			}
			if !dup {
				p.inputs = append(p.inputs, j)
			}
		}
		progs = append(progs, p)
	}
	tGen := time.Since(t0)

	// work lists per input
	type item struct {
		prog int
		mode string
	}
	work := make([][]item, sz.inputs)
	excludedFromjson := 0
	for pi, p := range progs {
		for k, ii := range p.inputs {
			if refAppliesFromjsonToNonString(p.text, inputs[ii]) {
				excludedFromjson++
				continue
			}
			mode := "d"
			if p.feats["noncompiling"] || p.feats["top"] {
				mode = "d"
			} else if int(fnv64(p.text+strconv.Itoa(k))%100) < sz.batchShare {
				mode = "b"
			}
			work[ii] = append(work[ii], item{pi, mode})
		}
	}
	results := make([][]caseRes, sz.inputs)
	var wg sync.WaitGroup
	jobs := make(chan int, sz.inputs)
	for i := 0; i < sz.inputs; i++ {
		jobs <- i
	}
	close(jobs)
	var fallbackBatches, batches int64
	var mu sync.Mutex
	for w := 0; w < sz.workers; w++ {
		wg.Add(1)
		w := w
		go func() {
			defer wg.Done()
			f := newFq()
			crumb := func(mode string, ii int, text string) {
				// a Go fatal error (stack overflow, out of memory) cannot be recovered: leave a note saying what
				// this worker was evaluating, so that the culprit of a dead shard is known
				if dir := os.Getenv("VERIF_WORK"); dir != "" {
					_ = os.WriteFile(dir+"/current_"+strconv.Itoa(w)+".txt", []byte(mode+" "+inJSON[ii]+sepInProg+text+"\n"), 0o644)
				}
			}
			for ii := range jobs {
				in := inputs[ii]
				if err := f.setIn(in); err != nil {
					panic(fmt.Sprintf("cannot set $in: %v", err))
				}
				var res []caseRes
				var batch []item
				flush := func() {
					if len(batch) == 0 {
						return
					}
					texts := make([]string, len(batch))
					for i, it := range batch {
						texts[i] = progs[it.prog].text
					}
					bt := batchText(texts)
					crumb("B", ii, strings.Join(texts, "  ;;;  "))
					ro, rok := refBatch(bt, in, len(batch))
					var fo []Obs
					fok := false
					if rok {
						fo, fok = f.fqBatch(bt, len(batch))
					}
					mu.Lock()
					batches++
					if !rok || !fok {
						fallbackBatches++
					}
					mu.Unlock()
					for i, it := range batch {
						if rok && fok {
							cr := caseRes{mode: "b", prog: it.prog, input: ii, ok: ro[i].Equal(fo[i]), ref: ro[i].String(), fq: fo[i].String(), refEnd: ro[i].End}
							res = append(res, cr)
						} else {
							crumb("d", ii, texts[i])
							ok, a, b := compareDirect(f, texts[i], in)
							cr := caseRes{mode: "d", prog: it.prog, input: ii, ok: ok, ref: a.String(), fq: b.String(), refEnd: a.End}
							res = append(res, cr)
						}
					}
					batch = batch[:0]
				}
				for _, it := range work[ii] {
					if it.mode == "b" {
						batch = append(batch, it)
						if len(batch) == batchSize {
							flush()
						}
						continue
					}
					crumb("d", ii, progs[it.prog].text)
					ok, a, b := compareDirect(f, progs[it.prog].text, in)
					cr := caseRes{mode: "d", prog: it.prog, input: ii, ok: ok, ref: a.String(), fq: b.String(), refEnd: a.End}
					res = append(res, cr)
				}
				flush()
				results[ii] = res
			}
		}()
	}
	wg.Wait()
	// Second look at every disagreement, one at a time, now that the workers are idle (on a loaded machine a
	// 5 s / 120 s limit can fire on a trivial program): a disagreement in which a `timeout` takes part is
	// re-evaluated and the new observations decide; every remaining disagreement is then attributed to a
	// recorded finding or not (repair preludes; a batch case by the same program alone).
	{
		f := newFq()
		cur := -1
		retried, recovered := 0, 0
		for ii := range results {
			for k := range results[ii] {
				c := &results[ii][k]
				if c.ok {
					continue
				}
				if cur != ii {
					if err := f.setIn(inputs[ii]); err != nil {
						panic(fmt.Sprintf("cannot set $in: %v", err))
					}
					cur = ii
				}
				text := progs[c.prog].text
				if strings.Contains(c.ref, "timeout") || strings.Contains(c.fq, "timeout") {
					retried++
					a := runRefT(text, inputs[ii], longTimeout)
					b := f.evalDirectT(text, longTimeout)
					c.mode, c.ok, c.ref, c.fq, c.refEnd = "d", a.Equal(b), a.String(), b.String(), a.End
					if c.ok {
						recovered++
						continue
					}
				}
				a := runRefT(text, inputs[ii], longTimeout)
				if c.mode == "b" {
					if b := f.evalDirectT(text, longTimeout); a.Equal(b) {
						continue // only the batch disagrees: stays a PROPFAIL of mode b
					}
				}
				c.known = classifyDirect(f, text, a)
			}
		}
		o.Stat("memory_watchdog_hits", int(atomic.LoadInt64(&memHits)))
		o.Stat("timeouts_second_look", retried)
		o.Stat("timeouts_second_look_agree", recovered)
	}
	tRun := time.Since(t0) - tGen

	// per program: observations over its inputs
	perProg := make([][]caseRes, len(progs))
	for _, rs := range results {
		for _, c := range rs {
			perProg[c.prog] = append(perProg[c.prog], c)
		}
	}
	// CLI cases: programs whose reference run ended normally or with an error (not cut, no timeout)
	var cliCases []caseRes
	{
		cr := r.Fork()
		var cand []int
		for pi, cs := range perProg {
			good := len(cs) > 0
			for _, c := range cs {
				if c.refEnd == "more" || c.refEnd == "timeout" || strings.HasPrefix(c.refEnd, "panic") {
					good = false
				}
			}
			if good {
				cand = append(cand, pi)
			}
		}
		n := sz.cli
		if n > len(cand) {
			n = len(cand)
		}
		type cj struct{ prog, input int }
		var cjs []cj
		for k := 0; k < n; k++ {
			pi := cand[cr.Intn(len(cand))]
			cjs = append(cjs, cj{pi, progs[pi].inputs[cr.Intn(len(progs[pi].inputs))]})
		}
		// every top-level-shape program on its first two inputs (compile errors included: exit 3)
		isCand := map[int]bool{}
		for _, pi := range cand {
			isCand[pi] = true
		}
		for pi, p := range progs {
			if !p.feats["top"] || (!isCand[pi] && len(perProg[pi]) > 0) {
				continue
			}
			for k, ii := range p.inputs {
				if k < 2 {
					cjs = append(cjs, cj{pi, ii})
				}
			}
		}
		out := make([]caseRes, len(cjs))
		var wg2 sync.WaitGroup
		ch := make(chan int, len(cjs))
		for i := range cjs {
			ch <- i
		}
		close(ch)
		for w := 0; w < sz.workers; w++ {
			wg2.Add(1)
			go func() {
				defer wg2.Done()
				for i := range ch {
					j := cjs[i]
					ok, a, b := compareCLI(progs[j.prog].text, inputs[j.input], inJSON[j.input])
					out[i] = caseRes{mode: "c", prog: j.prog, input: j.input, ok: ok, ref: a, fq: b}
					if !ok {
						out[i].known = classifyCLI(progs[j.prog].text, inJSON[j.input], a)
					}
				}
			}()
		}
		wg2.Wait()
		cliCases = out
	}
	tCLI := time.Since(t0) - tGen - tRun

	// ---- output
	emit := func(c caseRes) {
		p := progs[c.prog]
		if c.ok {
			o.N++
			o.Verdict("OK", c.mode+" in#"+strconv.Itoa(c.input)+sepInProg+p.text)
		} else if c.known != "" {
			o.N++
			o.Verdict("KNOWN", c.known+" "+c.mode+" "+inJSON[c.input]+sepInProg+p.text+sepObs+clip(c.ref)+" ;;fq: "+clip(c.fq))
			o.Stat("known_"+strings.ReplaceAll(c.known, "-", "_"), 1)
		} else {
			o.N++
			o.Verdict("PROPFAIL", c.mode+" "+inJSON[c.input]+sepInProg+p.text+sepObs+clip(c.ref)+" ;;fq: "+clip(c.fq))
		}
		o.Stat("mode_"+c.mode, 1)
	}
	nonConst, withOutput, errEnding, allErr := 0, 0, 0, 0
	featProgs := map[string]int{}
	for pi, cs := range perProg {
		sort.SliceStable(cs, func(a, b int) bool { return cs[a].input < cs[b].input })
		distinct := map[string]bool{}
		hasOut, hasErr, onlyErr := false, false, true
		for _, c := range cs {
			emit(c)
			distinct[c.ref] = true
			if strings.HasPrefix(c.ref, "ok ") {
				hasOut = true
			}
			if c.refEnd == "error" {
				hasErr = true
			}
			if c.refEnd != "error" || strings.HasPrefix(c.ref, "ok ") {
				onlyErr = false
			}
		}
		if len(distinct) > 1 {
			nonConst++
		}
		if hasOut {
			withOutput++
		}
		if hasErr {
			errEnding++
		}
		if onlyErr {
			allErr++
		}
		for f := range progs[pi].feats {
			featProgs[f]++
		}
		// non-trivial: depends on the input and produces at least one value on some input
		if len(distinct) > 1 && hasOut {
			o.Class(progs[pi].text)
		}
	}
	for _, c := range cliCases {
		emit(c)
	}
	checkUnsupported(o)
	o.Stat("programs", len(progs))
	o.Stat("programs_nonconstant", nonConst)
	o.Stat("programs_with_output", withOutput)
	o.Stat("programs_with_error_on_some_input", errEnding)
	o.Stat("programs_only_errors", allErr)
	o.Stat("generated_not_compiling_in_reference", nonCompiling)
	o.Stat("generated_dropped_long_or_duplicate", dropped)
	o.Stat("inputs", len(inputs))
	nExtIn, nExtProg, nExtPairs := 0, 0, 0
	extIn := make([]bool, len(inputs))
	for i, v := range inputs {
		if hasExtKey(v) || hasExtKey(inJSON[i]) {
			extIn[i] = true
			nExtIn++
		}
	}
	for _, p := range progs {
		if p.feats["extkey"] {
			nExtProg++
		}
		for _, ii := range p.inputs {
			if p.feats["extkey"] || (extIn[ii] && strings.Contains(p.text, "fromjson")) {
				nExtPairs++
			}
		}
	}
	// documents whose object keys are fq's ext-key names (_error, _format, …): generated inputs that contain one,
	// programs built around one, and (program, input) pairs that send one through fromjson
	o.Stat("extkey_docs", nExtIn+nExtProg)
	o.Stat("extkey_inputs", nExtIn)
	o.Stat("extkey_programs", nExtProg)
	o.Stat("extkey_fromjson_pairs", nExtPairs)
	o.Stat("pairs_not_generated_fromjson_of_nonstring", excludedFromjson)
	o.Stat("batches", int(batches))
	o.Stat("batches_rerun_one_by_one", int(fallbackBatches))
	o.Stat("ms_generate", int(tGen.Milliseconds()))
	o.Stat("ms_run", int(tRun.Milliseconds()))
	o.Stat("ms_cli", int(tCLI.Milliseconds()))
	var fs []string
	for f := range featProgs {
		fs = append(fs, f)
	}
	sort.Strings(fs)
	for _, f := range fs {
		o.Stat("feat_"+strings.NewReplacer(":", "_", "/", "_", "-", "_").Replace(f), featProgs[f])
	}
	if len(progs) > 0 {
		o.Stat("nonconstant_permille", nonConst*1000/len(progs))
	}
	for i := 0; i < 6 && i < len(progs); i++ {
		cs := perProg[i*7%len(progs)]
		if len(cs) > 0 {
			o.Sample(progs[cs[0].prog].text + "  =>  " + clip(cs[0].ref))
		}
	}
}

func clip(s string) string {
	if len(s) > 700 {
		return s[:700] + "…"
	}
	return s
}

// ---------------------------------------------------------------- replay / corpus

func parseOp(l string) (mode, inJSON, prog string, err error) {
	// strip a verdict word written by a previous run
	for _, v := range []string{"PROPFAIL ", "OK ", "KNOWN ", "DIVERGE ", "BADOP "} {
		l = strings.TrimPrefix(l, v)
	}
	for _, k := range knownKeys {
		l = strings.TrimPrefix(l, k+" ")
	}
	if j := strings.Index(l, sepObs); j >= 0 {
		l = l[:j]
	}
	i := strings.Index(l, sepInProg)
	if i < 0 || len(l) < 3 || l[1] != ' ' {
		return "", "", "", fmt.Errorf("want `<mode> <input json> ::: <program>`")
	}
	mode, inJSON, prog = l[:1], l[2:i], l[i+len(sepInProg):]
	unesc := strings.NewReplacer(`\t`, "\t", `\n`, "\n", `\r`, "\r")
	// hlib.San escaped TAB/NL of the program text (they occur inside jq strings only as \t, \n escapes
	// of the JSON encoder, i.e. already as two characters) — nothing to undo for generated programs.
	_ = unesc
	return mode, inJSON, prog, nil
}

func replay(o *hlib.Out, path string) {
	f := newFq()
	for _, l := range hlib.ReplayLines(path) {
		if strings.Contains(l, opUnsupported) {
			checkUnsupported(o)
			continue
		}
		mode, inJSON, prog, err := parseOp(l)
		if err != nil {
			o.Verdict("BADOP", l+" :: "+err.Error())
			continue
		}
		in, err := parseJSONExact(inJSON)
		if err != nil {
			o.Verdict("BADOP", l+" :: input: "+err.Error())
			continue
		}
		if mode == "j" {
			text, isStr := in.(string)
			if !isStr {
				o.Verdict("BADOP", l+" :: mode j wants a JSON string")
				continue
			}
			ok, obs := jsonTextCase(f, text, prog)
			o.N++
			if ok {
				o.Verdict("OK", "j "+inJSON+sepInProg+prog)
			} else {
				o.Verdict("PROPFAIL", "j "+inJSON+sepInProg+prog+sepObs+obs)
			}
			continue
		}
		if mode == "o" {
			replayOwn(o, f, in, prog)
			continue
		}
		if err := f.setIn(in); err != nil {
			o.Verdict("BADOP", l+" :: cannot set $in: "+err.Error())
			continue
		}
		if refAppliesFromjsonToNonString(prog, in) {
			o.N++
			o.Verdict("OK", mode+" "+inJSON+sepInProg+prog+" ;;outside the generated domain: the reference applies fromjson to a non-string")
			continue
		}
		var ok bool
		var a, b string
		switch mode {
		case "c":
			ok, a, b = compareCLI(prog, in, inJSON)
		case "d", "b":
			var x, y Obs
			ok, x, y = compareDirect(f, prog, in)
			a, b = x.String(), y.String()
			if ok && mode == "b" {
				bt := batchText([]string{prog})
				ro, rok := refBatch(bt, in, 1)
				fo, fok := f.fqBatch(bt, 1)
				if rok != fok || (rok && !ro[0].Equal(fo[0])) {
					ok = false
					a, b = fmt.Sprint(rok, ro), fmt.Sprint(fok, fo)
				}
			}
		default:
			o.Verdict("BADOP", l+" :: unknown mode")
			continue
		}
		o.N++
		known := ""
		if !ok {
			if mode == "c" {
				known = classifyCLI(prog, inJSON, a)
			} else {
				known = classifyDirect(f, prog, runRef(prog, in))
			}
		}
		switch {
		case ok:
			o.Verdict("OK", mode+" "+inJSON+sepInProg+prog)
		case known != "":
			o.Verdict("KNOWN", known+" "+mode+" "+inJSON+sepInProg+prog+sepObs+clip(a)+" ;;fq: "+clip(b))
		default:
			o.Verdict("PROPFAIL", mode+" "+inJSON+sepInProg+prog+sepObs+clip(a)+" ;;fq: "+clip(b))
		}
	}
}

func probe() {
	f := newFq()
	in, _ := parseJSONExact(os.Args[2])
	if err := f.setIn(in); err != nil {
		fmt.Println(err)
	}
	if os.Getenv("VERIF_C07_BATCH") != "" {
		bt := batchText(os.Args[3:])
		ro, rok := refBatch(bt, in, len(os.Args)-3)
		fmt.Println("ref", rok, ro)
		fo, fok := f.fqBatch(bt, len(os.Args)-3)
		fmt.Println("fq ", fok, fo)
		return
	}
	for _, p := range os.Args[3:] {
		ok, a, b := compareDirect(f, p, in)
		fmt.Printf("%s\n  equal=%v\n  ref %s\n  fq  %s\n", p, ok, a, b)
		ok2, c, d := compareCLI(p, in, jsonText(in))
		fmt.Printf("  cli equal=%v\n  ref %s\n  fq  %s\n", ok2, c, d)
	}
}

// ---------------------------------------------------------------- tojson of a value that is not JSON

// A value of a Go type that is neither JSON nor a gojq.JQValue can reach `tojson` from pure jq through gojq's
// uninitialised `?//` variables (see the assumptions). The reference's tojson fails recoverably (`invalid type`);
// fq's must fail too — before e7de24cc its encoder recursed until `fatal error: stack overflow` killed the
// process, which no recover() can catch: the check therefore runs in a child process.
const opUnsupported = "x tojson-of-unsupported-go-value"

func childUnsupported() {
	f := newFq()
	ctx, cancel := context.WithTimeout(context.Background(), longTimeout)
	defer cancel()
	it, err := f.i.Eval(ctx, [2]int{1, 2}, `tojson`, interp.EvalOpts{})
	if err != nil {
		fmt.Println("compile-error", err)
		return
	}
	fmt.Println(drain(it, ctx).String())
}

func checkUnsupported(o *hlib.Out) {
	// reference
	ref := "error"
	msg, panicked := hlib.Catch(func() string {
		q, _ := gojq.Parse(`tojson`)
		code, err := gojq.Compile(q)
		if err != nil {
			return "compile"
		}
		return drain(code.Run([2]int{1, 2}), context.Background()).String()
	})
	if !panicked {
		ref = msg
	}
	cmd := exec.Command(os.Args[0], "-child-unsupported")
	cmd.Env = append(os.Environ(), "GOMEMLIMIT=2GiB")
	done := make(chan struct{})
	var out []byte
	var err error
	go func() { out, err = cmd.CombinedOutput(); close(done) }()
	select {
	case <-done:
	case <-time.After(10 * time.Minute):
		_ = cmd.Process.Kill()
		<-done
	}
	fq := strings.TrimSpace(string(out))
	if len(fq) > 200 {
		fq = fq[:200] + "…"
	}
	o.N++
	if err == nil && fq == "error" && ref == "error" {
		o.Verdict("OK", opUnsupported)
	} else {
		o.Verdict("PROPFAIL", fmt.Sprintf("%s%sref: %s ;;fq: child %v: %s", opUnsupported, sepObs, ref, err, fq))
	}
}
