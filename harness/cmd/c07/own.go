//go:build verif

package main

// Run `own` (-own): standard jq operations applied to values of fq's OWN gojq.JQValue implementations.
//
// The top-level result of fq's `fromjson` (format/json/json.jq:6, decode("json")) is a decode value whose
// JQValue is one of internal/gojqx/types.go String / Array / Object / Number / Boolean / Null
// (pkg/interp/decode.go:372-425). gojq dispatches length, .[i], .[a:b], .k, .[], keys, has, type, tonumber,
// tostring to the JQValue* methods of such a value (gojq func.go:1062-1264 and friends) and converts with
// JQValueToGoJQ everywhere else. The property demands that a standard program cannot tell the difference.
//
// case = (route, plain JSON value V, operation OP). fq evaluates `$in | ROUTE | OP` (ROUTE makes V one of fq's
// own value types at TOP LEVEL), the reference engine evaluates `$in | OP` on the plain value.
//
//	fq == reference(plain V)                     OK
//	else fq == reference(specVal(V))             KNOWN c07-fromjson-decode-value-index
//	else                                         PROPFAIL
//
// specVal (below) is a JQValue written HERE, against the reference engine only: every method answers what the
// reference computes on the plain value, except the two documented lookup exceptions of decode values (C08,
// pkg/interp/decode.go valueOrFallbackKey; known finding c07-fromjson-decode-value-index): a string key on a
// non-object gives null, and index/slice of a decoded null is what gojqx.Null says. Nothing else is excused:
// in particular NOT "the difference vanishes after tovalue" (that excuse of run `diff` hides every defect of the
// value types themselves).

import (
	"context"
	"fmt"
	"os"
	"sort"
	"strconv"
	"strings"
	"sync"
	"sync/atomic"
	"time"

	"github.com/wader/fq/internal/verifharness/hlib"
	"github.com/wader/fq/pkg/interp"
	"github.com/wader/gojq"
)

// ---------------------------------------------------------------- specVal

type specVal struct {
	v     any
	quirk bool // gojqx.String.JQValueIndex answers "" (not null) outside the string: known finding c07-gojqx-string-index-outside
}

const knownStrIndex = "c07-gojqx-string-index-outside"

// gojqx.Array.JQValueSlice returns v[start:end] of TYPE gojqx.Array (a JQValue), not []any: the slice of a top-level
// fromjson'd array is again one of fq's value types, and gojq's setpath/update refuses it as the new value of a slice
// (`.[1:3] |= .`, `.[1:3] = .[0:1]` fail with "expected an array but got: array")
const knownArrSlice = "c07-gojqx-array-slice-type"

var _ gojq.JQValue = specVal{}

var specCodes sync.Map

func specQ(prog string, v any) any {
	var code *gojq.Code
	if c, ok := specCodes.Load(prog); ok {
		code = c.(*gojq.Code)
	} else {
		q, err := gojq.Parse(prog)
		if err != nil {
			panic(err)
		}
		code, err = gojq.Compile(q)
		if err != nil {
			panic(err)
		}
		specCodes.Store(prog, code)
	}
	r, ok := code.Run(v).Next()
	if !ok {
		return fmt.Errorf("spec: no output")
	}
	return r
}

func (s specVal) JQValueLength() any { return specQ("length", s.v) }
func (s specVal) JQValueSliceLen() any {
	switch v := s.v.(type) {
	case string:
		return len([]rune(v))
	case []any:
		return len(v)
	case nil:
		return nil // gojqx.Null.JQValueSliceLen: "index and slice of null is null"
	default:
		return fmt.Errorf("expected an array")
	}
}
func (s specVal) JQValueIndex(i int) any {
	if i < 0 { // gojq func.go:1094-1099: -2 before, -1 after
		if _, isStr := s.v.(string); isStr && s.quirk {
			return ""
		}
		return nil
	}
	return specQ(".["+strconv.Itoa(i)+"]", s.v)
}
func (s specVal) JQValueSlice(start, end int) any {
	if a, isArr := s.v.([]any); isArr && s.quirk {
		return specVal{v: a[start:end], quirk: true}
	}
	return specQ(".["+strconv.Itoa(start)+":"+strconv.Itoa(end)+"]", s.v)
}
func (s specVal) JQValueKey(name string) any {
	if m, ok := s.v.(map[string]any); ok {
		return m[name]
	}
	return nil // documented exception: string key on a non-object decode value gives null
}
func (s specVal) JQValueEach() any {
	switch v := s.v.(type) {
	case []any:
		vs := make([]gojq.PathValue, len(v))
		for i, e := range v {
			vs[i] = gojq.PathValue{Path: i, Value: e}
		}
		return vs
	case map[string]any:
		ks := make([]string, 0, len(v))
		for k := range v {
			ks = append(ks, k)
		}
		sort.Strings(ks)
		vs := make([]gojq.PathValue, len(ks))
		for i, k := range ks {
			vs[i] = gojq.PathValue{Path: k, Value: v[k]}
		}
		return vs
	default:
		return fmt.Errorf("cannot iterate")
	}
}
func (s specVal) JQValueKeys() any { return specQ("keys", s.v) }
func (s specVal) JQValueHas(key any) any {
	if k, ok := key.(gojq.JQValue); ok {
		key = k.JQValueToGoJQ()
	}
	return specQ(".[0] as $v | .[1] as $k | $v | has($k)", []any{s.v, key})
}
func (s specVal) JQValueType() string  { return gojq.TypeOf(s.v) }
func (s specVal) JQValueToNumber() any { return specQ("tonumber", s.v) }
func (s specVal) JQValueToString() any { return specQ("tostring", s.v) }
func (s specVal) JQValueToGoJQ() any   { return s.v }

// ---------------------------------------------------------------- routes

type route struct {
	text string // applied to the plain value inside fq
	own  bool   // result is one of fq's own value types at top level (specVal accepted as KNOWN)
}

var ownRoutes = []route{
	{"tojson | fromjson", true},
	{"tojson | fromjson | tovalue", false},
	{"tovalue", false},
	{"[.] | tojson | fromjson | .[0]", false},
	{"{a: .} | tojson | fromjson | .a", false},
	{"tojson | fromjson | (._actual // .)", true},
}

const ownSep = " ||| "

// ---------------------------------------------------------------- values

var ownAlphabet = []string{"a", "å", "€", "😀", "\x00", "\uFFFD"}

func ownStrings(thorough bool, r *hlib.Rand) []any {
	var vs []any
	var rec func(prefix string, n int, k int)
	rec = func(prefix string, n int, k int) {
		if n == 0 {
			vs = append(vs, prefix)
			return
		}
		for _, c := range ownAlphabet[:k] {
			rec(prefix+c, n-1, k)
		}
	}
	full := 3
	if thorough {
		full = 5
	}
	for n := 0; n <= full; n++ {
		rec("", n, 6)
	}
	// every width pattern (1,2,3,4 bytes) up to length 5
	for n := full + 1; n <= 5; n++ {
		rec("", n, 4)
	}
	cnt := 120
	if thorough {
		cnt = 1500
	}
	for i := 0; i < cnt; i++ {
		n := r.Range(6, 7)
		s := ""
		for j := 0; j < n; j++ {
			s += ownAlphabet[r.Intn(6)]
		}
		vs = append(vs, s)
	}
	vs = append(vs, "åbcdef", "12", "-1.5e3", "nan", "[1]", "\"å\"", " 1", "a\u0301b", "\U0010FFFFz")
	return vs
}

var ownElems = []any{1, "å", nil, []any{"€", 2}, map[string]any{"😀": 1}, "a", 1.5, true, "a€😀"}

func ownArrays(thorough bool, r *hlib.Rand) []any {
	var vs []any
	var rec func(p []any, n int, k int)
	rec = func(p []any, n int, k int) {
		if n == 0 {
			vs = append(vs, append([]any{}, p...))
			return
		}
		for _, e := range ownElems[:k] {
			rec(append(p, e), n-1, k)
		}
	}
	full := 2
	if thorough {
		full = 3
	}
	for n := 0; n <= full; n++ {
		rec(nil, n, len(ownElems))
	}
	cnt := 150
	if thorough {
		cnt = 1200
	}
	for i := 0; i < cnt; i++ {
		n := r.Range(full+1, 7)
		a := make([]any, n)
		for j := range a {
			a[j] = ownElems[r.Intn(len(ownElems))]
		}
		vs = append(vs, a)
	}
	return vs
}

func ownObjects(thorough bool, r *hlib.Rand) []any {
	keys := []string{"a", "å", "€", "😀", "", "a€", "åa", "b"}
	var vs []any
	cnt := 150
	if thorough {
		cnt = 1200
	}
	vs = append(vs, map[string]any{})
	for i := 0; i < cnt; i++ {
		n := r.Range(1, 5)
		m := map[string]any{}
		for j := 0; j < n; j++ {
			m[keys[r.Intn(len(keys))]] = ownElems[r.Intn(len(ownElems))]
		}
		vs = append(vs, m)
	}
	return vs
}

func ownScalars() []any {
	big1, _ := parseJSONExact("18446744073709551616")
	big2, _ := parseJSONExact("-9223372036854775809")
	return []any{nil, true, false, 0, 1, -1, 7, 1.5, -2.5, 1e300, 9007199254740993, big1, big2}
}

// ---------------------------------------------------------------- operations

func ownSliceOps() []string {
	var ops []string
	bs := []string{""}
	for i := -8; i <= 8; i++ {
		bs = append(bs, strconv.Itoa(i))
	}
	for _, a := range bs {
		for _, b := range bs {
			if a == "" && b == "" {
				continue
			}
			ops = append(ops, ".["+a+":"+b+"]")
		}
	}
	for i := -8; i <= 8; i++ {
		ops = append(ops, ".["+strconv.Itoa(i)+"]")
	}
	ops = append(ops, ".[1.7:2.2]", ".[null:2]", ".[1:null]", `.[{"start":1,"end":3}]`, `.[{"start":-2,"end":null}]`,
		".[1:3][0:1]", ".[1:][1:]", ".[:-1][:-1]", "path(.[1:3])", `getpath([{"start":1,"end":3}])`, "try (.[1:3] = .[0:1]) catch \"e\"",
		".[1:3]?", ".[2]?", "[.[1:3], .[0:1]]", ".[1:3] | length", "first(.[2:4], 1)", "del(.[1:3])", "del(.[0])", ".[1:3] |= .", ".[0] = 1",
		`.[100000000000000000000:]`, `.[:-100000000000000000000]`, ".[0:1e300]", ".[-1e300:2]")
	return ops
}

var ownCommonOps = []string{
	".", "[.] | tojson", "length", "type", "tostring", "tojson", "tojson | length", "@json", "@text", `"\(.)"`, "tonumber", "keys", "keys_unsorted",
	"has(0)", `has("a")`, `has("å")`, "to_entries", ".[]", ".[]?", "[.[]?]", "[paths]", "[paths(type == \"string\")]", "[leaf_paths]", "[..]", "tostream", "[tostream]",
	". == .", `. == "å"`, `. < "b"`, `. > "€"`, ". < [1]", ". > {}", ". < null", ". == 1", `[., "b", [1], null, 1, {}] | sort`, `[., .] | group_by(.)`, `[., "å"] | unique`,
	`[., "a"] | min`, `[., "a"] | max`, ". + .", `. + "å"`, `"€" + .`, ". + null", "null + .", ". + 1", ". + [1]", ". + {}", ". - .", ". * 2", ". * 0", ". * .", "2 * .", ". / .", `. / "å"`, ". % 2",
	"-(.)", "not", ". and true", ". // 1", "if . then 1 else 2 end", "add", "any", "all", "flatten", "reverse", "sort", "unique", "min", "max", "first", "last", "join(\",\")", "join(\"å\")",
	"ascii_downcase", "ascii_upcase", "explode", "explode | implode", "implode", "utf8bytelength", "ascii", "@base64", "@uri", "@html", "@sh", "@csv", "@tsv",
	`test("å")`, `test("^.{2}€")`, `[match(".";"g") | [.offset, .length, .string]]`, `[match("€|😀";"g") | .offset]`, `sub("(?<x>.)";"\(.x)!")`, `gsub("";"-")`, `gsub("å";"aa")`,
	`[scan(".")]`, `capture("(?<x>å.)")`, `ltrimstr("a")`, `ltrimstr("å")`, `ltrimstr("😀")`, `rtrimstr("€")`, `rtrimstr("a")`, `startswith("å")`, `endswith("😀")`, `startswith(.)`,
	`split("")`, `split("å")`, `split("a";"g")`, `[splits("€")]`, `indices("å")`, `indices("a")`, `index("€")`, `rindex("a")`, `indices(1)`, `indices([1])`, `index("å")`,
	`inside("xå€a😀")`, `contains("å")`, `contains(.)`, `inside(.)`, `contains([1])`, `contains({})`, `trim`, `ltrim`, `rtrim`, "tojson | fromjson | length", "[limit(3; repeat(.[1:]))]",
	".a", `.["å"]`, ".a?", `.["€"]?`, "try .a catch \"e\"", ".a.b", ".[0].a", `.a // "d"`, "[.[]?] | length", "map(.)", "map(type)", "map_values(.)", "map_values(empty)", "to_entries | from_entries",
	"with_entries(.)", "del(.a)", `del(.["å"])`, ".a = 1", `.["😀"] |= 2`, ". * {\"å\":{\"b\":1}}", "[.[]?] | add", "transpose", "tojson | explode | length", "ascii_downcase | explode",
	"getpath([\"a\"])", "getpath([0])", "getpath([0,\"😀\"])", "setpath([0]; 1)", "setpath([\"a\"]; 1)", "delpaths([[0]])", "delpaths([[\"a\"]])", "paths(..)", "[path(..)]", "path(.a)", "path(.[0])",
	"walk(.)", "walk(if type == \"string\" then .[1:] else . end)", "[recurse] | length", "splits(\"a\") | length", "isvalid(.[0])", "IN(\"a\", 1, null)",
	"ltrimstr(1)", "tojson | .[1:-1]", "[.[]?] | .[1:3]", "to_entries[1:2]", "keys[0:1]", "[.[1:3]?, .[0]?] | tojson", "abs", "floor", "sqrt", "tostring | .[1:]", "toarray", "@base64 | @base64d",
	"isnan", "infinite", "nan < .", "[.] | inside([.])", "[.] | index([.])", "significand", "ltrimstr(\"a\") | .[1:]", "limit(2; .[]?)", "first(.[]?)", "nth(1; .[]?)", "until(length < 2; .[1:])",
	"[while(length > 0; .[1:])]", "[foreach .[]? as $x (0; . + 1)]", "reduce .[]? as $x (null; $x)", ". as [$a, $b] | [$a, $b]", ". as {a: $x} | $x", ". as {\"å\": $x} | $x", ". as [$a] ?// $a | $a",
	"tojson | ascii_downcase", "splits(\"\") | explode", "@json \"x\\(.)\"", "@base64 \"\\(.)\"", "ascii(65)", "implode | .[0:1]", "group_by(.)", "unique_by(.)", "sort_by(.)", "min_by(.)", "max_by(.)",
	"to_entries | map(.key)", "[.[]?] == .", "tojson == ([.] | tojson | .[1:-1])", "length == ([.[]?] | length)", "combinations", "[combinations(2)] | length", "objects", "strings", "arrays", "scalars", "iterables", "nulls", "booleans", "numbers", "values",
	"ltrimstr(\"\")", "error", "try error catch .", "try error catch (.[1:]?)", "[.,.] | .[1] | .[1:]", "{a:.} | .a | .[1:3]", "[.[1:3]] | tojson", "{(tostring): 1}", "{a: .} | tojson", "tojson | fromjson", "tojson | fromjson | .[1:3]",
	"input_filename", "@text \"\\(.[1:3]?)\"", "getpath([]) | .[1:2]", "[getpath([0], [1], [5])?]", "pick(.[0])", "pick(.a)", "tojson | test(\"\\\\\\\\u\")", "splits(\"å\"; null)", "ascii_downcase == .", "ltrimstr(.[0:1]?)", "trimstr(\"a\")",
	"abs?", "toarray | .[0] | .[1:]", "getpath([\"å\"]) | .[1:]", "[.[]?] | map(.[1:]?)", "to_entries? | map(.value)", "[splits(\"\")] | length", "[match(\"\"; \"g\").offset]", "sub(\"^(?<a>.)(?<b>.)\"; \"\\(.b)\\(.a)\")", "test(\"\\\\p{L}\")", "[scan(\"\\\\X\")] | length",
}

// ---------------------------------------------------------------- evaluation

const ownErr = "\x01e"

func ownBatchProg(routeText string, ops []string) string {
	var sb strings.Builder
	sb.WriteString("$in[] | (")
	sb.WriteString(routeText)
	sb.WriteString(") as $v | [")
	for i, op := range ops {
		if i > 0 {
			sb.WriteString(", ")
		}
		sb.WriteString("[$v | try (" + op + ") catch [\"\\u0001e\"]]")
	}
	sb.WriteString("]")
	return sb.String()
}

// collectRows: one canonical string per (value, op); nil when the evaluation did not deliver len(vals) arrays
func collectRows(it gojq.Iter, nVals, nOps int) [][]string {
	var rows [][]string
	for {
		v, ok := it.Next()
		if !ok {
			break
		}
		if _, isErr := v.(error); isErr {
			return nil
		}
		if jv, isJ := v.(gojq.JQValue); isJ {
			v = jv.JQValueToGoJQ()
		}
		a, isArr := v.([]any)
		if !isArr || len(a) != nOps {
			return nil
		}
		row := make([]string, nOps)
		for i, e := range a {
			row[i] = canon(e)
		}
		rows = append(rows, row)
	}
	if len(rows) != nVals {
		return nil
	}
	return rows
}

var ownRefCodes sync.Map

func ownRefBatch(prog string, vals []any) (rows [][]string) {
	_, _ = hlib.Catch(func() string {
		var code *gojq.Code
		if c, ok := ownRefCodes.Load(prog); ok {
			code = c.(*gojq.Code)
		} else {
			q, err := gojq.Parse(prog)
			if err != nil {
				return ""
			}
			code, err = gojq.Compile(q, refOpts...)
			if err != nil {
				return ""
			}
			ownRefCodes.Store(prog, code)
		}
		ctx, cancel := context.WithTimeout(context.Background(), longTimeout)
		defer cancel()
		nOps := strings.Count(prog, "[$v | try (")
		rows = collectRows(code.RunWithContext(ctx, nil, ownCopy(vals)), len(vals), nOps)
		return ""
	})
	return rows
}

func (f *fqInst) ownFqBatch(prog string, vals []any) (rows [][]string) {
	if err := f.setIn(ownCopy(vals)); err != nil {
		return nil
	}
	_, _ = hlib.Catch(func() string {
		ctx, cancel := context.WithTimeout(context.Background(), longTimeout)
		defer cancel()
		it, err := f.i.Eval(ctx, nil, prog, interp.EvalOpts{})
		if err != nil {
			return ""
		}
		nOps := strings.Count(prog, "[$v | try (")
		rows = collectRows(it, len(vals), nOps)
		return ""
	})
	return rows
}

// ownSingle decides one (route, value, op) by three separate evaluations
func ownSingle(f *fqInst, rt route, in any, op string) (verdict, text string) {
	in = ownCopy(in)
	inJSON := jsonText(in)
	opText := "o " + inJSON + sepInProg + rt.text + ownSep + op
	if err := f.setIn(in); err != nil {
		return "BADOP", opText + " :: cannot set $in: " + err.Error()
	}
	fq := f.evalDirect("$in | " + rt.text + " | " + op)
	if fq.End == "timeout" {
		fq = f.evalDirectT("$in | "+rt.text+" | "+op, longTimeout)
	}
	ref := runRef("$in | "+op, ownCopy(in))
	if fq.Equal(ref) {
		return "OK", opText
	}
	if rt.own {
		spec := runRef("$in | "+op, specVal{v: ownCopy(in)})
		if fq.Equal(spec) {
			return "KNOWN", knownFromjson + " " + opText + sepObs + clip(ref.String()) + " ;;fq: " + clip(fq.String())
		}
		key := ""
		switch in.(type) {
		case string:
			key = knownStrIndex
		case []any:
			key = knownArrSlice
		}
		if key != "" {
			spec = runRef("$in | "+op, specVal{v: ownCopy(in), quirk: true})
			if fq.Equal(spec) {
				return "KNOWN", key + " " + opText + sepObs + clip(ref.String()) + " ;;fq: " + clip(fq.String())
			}
		}
	}
	return "PROPFAIL", opText + sepObs + clip(ref.String()) + " ;;fq: " + clip(fq.String())
}

// ownCopy: every evaluation gets its own copy (values are shared between jobs and goroutines otherwise)
func ownCopy(v any) any {
	switch v := v.(type) {
	case []any:
		r := make([]any, len(v))
		for i, e := range v {
			r[i] = ownCopy(e)
		}
		return r
	case map[string]any:
		r := make(map[string]any, len(v))
		for k, e := range v {
			r[k] = ownCopy(e)
		}
		return r
	case specVal:
		return specVal{v: ownCopy(v.v), quirk: v.quirk}
	default:
		return v
	}
}

func wrapSpec(vals []any, quirk bool) []any {
	r := make([]any, len(vals))
	for i, v := range vals {
		r[i] = specVal{v: v, quirk: quirk}
	}
	return r
}

type ownJob struct {
	rt   route
	vals []any
	ops  []string
	kind string
}

type ownRes struct {
	verdicts [][2]string
	cases    int
	known    int
	knownIdx int
	fails, unconfirmed int
	skipped  int
	classes  []string
}

// once 30 failing cells are confirmed and printed the remaining evaluations are skipped (counted): a broken tree must
// not cost hours; on the unchanged tree nothing is ever skipped
var ownFailTotal atomic.Int64

func ownDo(f *fqInst, j ownJob) (res ownRes) {
	if ownFailTotal.Load() >= 30 {
		res.skipped = len(j.vals) * len(j.ops)
		return res
	}
	res = ownDoOne(f, j)
	ownFailTotal.Add(int64(res.fails))
	return res
}

func ownDoOne(f *fqInst, j ownJob) (res ownRes) {
	if false && ownFailTotal.Load() >= 30 {
		res.skipped = len(j.vals) * len(j.ops)
		return res
	}
	prog := ownBatchProg(j.rt.text, j.ops)
	refProg := ownBatchProg(".", j.ops)
	ref := ownRefBatch(refProg, j.vals)
	fq := f.ownFqBatch(prog, j.vals)
	var spec, specQuirk [][]string
	if (fq == nil || ref == nil) && len(j.vals) > 1 {
		// the whole evaluation fell over (a panic inside one operation, a timeout): value by value
		for _, v := range j.vals {
			if res.fails >= 3 {
				res.unconfirmed += len(j.ops)
				continue
			}
			r1 := ownDoOne(f, ownJob{rt: j.rt, vals: []any{v}, ops: j.ops, kind: j.kind})
			res.fails += r1.fails
			res.verdicts = append(res.verdicts, r1.verdicts...)
			res.cases += r1.cases
			res.known += r1.known
			res.knownIdx += r1.knownIdx
			res.classes = append(res.classes, r1.classes...)
		}
		return res
	}
	if fq == nil || ref == nil {
		// one value: operation by operation until three failing operations are found
		bad := 0
		for _, op := range j.ops {
			res.cases++
			vd, text := ownSingle(f, j.rt, j.vals[0], op)
			if vd != "OK" {
				res.verdicts = append(res.verdicts, [2]string{vd, text})
			}
			if vd == "PROPFAIL" || vd == "BADOP" {
				res.fails++
				bad++
				if bad >= 3 {
					break
				}
			}
		}
		if bad == 0 {
			res.verdicts = append(res.verdicts, [2]string{"PROPFAIL", "o " + jsonText(j.vals[0]) + sepInProg + j.rt.text + ownSep + "(all operations in one evaluation)" + sepObs + fmt.Sprint(ref != nil) + " ;;fq: " + fmt.Sprint(fq != nil)})
		}
		return res
	}
	for vi, v := range j.vals {
		for oi, op := range j.ops {
			res.cases++
			if ref != nil && fq != nil && ref[vi][oi] == fq[vi][oi] {
				if fq[vi][oi] != canon([]any{[]any{ownErr}}) {
					res.classes = append(res.classes, j.kind+" "+op)
				}
				continue
			}
			if ref != nil && fq != nil && j.rt.own {
				if spec == nil {
					spec = ownRefBatch(refProg, wrapSpec(j.vals, false))
					specQuirk = ownRefBatch(refProg, wrapSpec(j.vals, true))
				}
				// the first of each class in a job is confirmed by three separate evaluations and printed, the rest counted
				if spec != nil && spec[vi][oi] == fq[vi][oi] {
					res.known++
					if res.known > 1 {
						continue
					}
				} else if specQuirk != nil && specQuirk[vi][oi] == fq[vi][oi] {
					res.knownIdx++
					if res.knownIdx > 1 {
						continue
					}
				}
			}
			if res.fails >= 3 {
				// three failing cells of this evaluation are confirmed and printed; the rest is counted, not re-evaluated
				res.unconfirmed++
				continue
			}
			vd, text := ownSingle(f, j.rt, v, op)
			if vd == "PROPFAIL" || vd == "BADOP" {
				res.fails++
			}
			if vd != "OK" {
				res.verdicts = append(res.verdicts, [2]string{vd, text})
			} else if ref != nil && fq != nil {
				// the batch disagrees but the single evaluation agrees: report, never hide
				res.verdicts = append(res.verdicts, [2]string{"PROPFAIL", "o " + jsonText(v) + sepInProg + j.rt.text + ownSep + op + sepObs + "batch ref " + clip(ref[vi][oi]) + " ;;fq: " + clip(fq[vi][oi])})
			}
		}
	}
	return res
}

func emitOwn(o *hlib.Out, cfg hlib.Config) {
	r := hlib.NewRand(cfg.Seed)
	th := cfg.Thorough()
	strs, arrs, objs, scs := ownStrings(th, r), ownArrays(th, r), ownObjects(th, r), ownScalars()
	// an operation the reference engine does not compile is not a standard program: dropped (counted)
	compiles := func(ops []string) []string {
		var r []string
		for _, op := range ops {
			q, err := gojq.Parse("$in | " + op)
			if err == nil {
				_, err = gojq.Compile(q, refOpts...)
			}
			if err != nil {
				o.Stat("own_ops_not_standard", 1)
				if os.Getenv("VERIF_C07_OWNMAX") != "" {
					fmt.Fprintln(os.Stderr, "dropped:", op, err)
				}
				continue
			}
			r = append(r, op)
		}
		return r
	}
	sliceOps := compiles(ownSliceOps())
	commonOps := compiles(ownCommonOps)
	var jobs []ownJob
	chunk := func(kind string, rt route, vals []any, ops []string, n int) {
		for i := 0; i < len(vals); i += n {
			e := i + n
			if e > len(vals) {
				e = len(vals)
			}
			jobs = append(jobs, ownJob{rt: rt, vals: vals[i:e], ops: ops, kind: kind})
		}
	}
	for ri, rt := range ownRoutes {
		sv, av, ov := strs, arrs, objs
		if ri > 0 && !th {
			// the other routes: a deterministic fifth of the values in the quick tier
			pick := func(vs []any) []any {
				var p []any
				for i, v := range vs {
					if i%5 == ri%5 {
						p = append(p, v)
					}
				}
				return p
			}
			sv, av, ov = pick(strs), pick(arrs), pick(objs)
		}
		chunk("string", rt, sv, sliceOps, 40)
		chunk("string", rt, sv, commonOps, 40)
		chunk("array", rt, av, sliceOps, 40)
		chunk("array", rt, av, commonOps, 40)
		chunk("object", rt, ov, commonOps, 40)
		chunk("object", rt, ov, sliceOps[:40], 40)
		chunk("scalar", rt, scs, commonOps, 40)
		chunk("scalar", rt, scs, sliceOps[:60], 40)
	}
	workers := 8
	if s := os.Getenv("VERIF_C07_WORKERS"); s != "" {
		workers, _ = strconv.Atoi(s)
	}
	if s := os.Getenv("VERIF_C07_OWNMAX"); s != "" {
		n, _ := strconv.Atoi(s)
		st, _ := strconv.Atoi(os.Getenv("VERIF_C07_OWNSTEP"))
		var js []ownJob
		for i := 0; i < len(jobs) && len(js) < n; i += st + 1 {
			js = append(js, jobs[i])
		}
		jobs = js
	}
	results := make([]ownRes, len(jobs))
	var wg sync.WaitGroup
	next := make(chan int)
	for w := 0; w < workers; w++ {
		wg.Add(1)
		go func() {
			defer wg.Done()
			f := newFq()
			for i := range next {
				t0 := time.Now()
				results[i] = ownDo(f, jobs[i])
				if os.Getenv("VERIF_C07_OWNMAX") != "" {
					fmt.Fprintf(os.Stderr, "job %d %s %q vals=%d ops=%d: %v verdicts=%d known=%d\n", i, jobs[i].kind, jobs[i].rt.text, len(jobs[i].vals), len(jobs[i].ops), time.Since(t0), len(results[i].verdicts), results[i].known)
				}
			}
		}()
	}
	for i := range jobs {
		next <- i
	}
	close(next)
	wg.Wait()
	fails := 0
	for i, res := range results {
		o.N += res.cases
		o.Stat("own_cases_"+jobs[i].kind, res.cases)
		o.Stat("own_known_lookup_exception", res.known)
		o.Stat("own_mismatches_beyond_three_per_evaluation", res.unconfirmed)
		o.Stat("own_cells_skipped_after_30_failures", res.skipped)
		o.Stat("own_known_gojqx_"+jobs[i].kind, res.knownIdx)
		for _, c := range res.classes {
			o.Class(c)
		}
		for _, v := range res.verdicts {
			if v[0] == "PROPFAIL" {
				fails++
				if fails > 40 {
					continue
				}
			}
			o.Verdict(v[0], v[1])
		}
	}
	o.Stat("own_strings", len(strs))
	o.Stat("own_arrays", len(arrs))
	o.Stat("own_objects", len(objs))
	o.Stat("own_ops", len(sliceOps)+len(commonOps))
	o.Stat("own_routes", len(ownRoutes))
	o.Stat("own_jobs", len(jobs))
	o.Sample("o " + jsonText("åbcdef") + sepInProg + ownRoutes[0].text + ownSep + ".[1:3]")
}

// replayOwn: `o <json> ::: ROUTE ||| OP`
func replayOwn(o *hlib.Out, f *fqInst, in any, prog string) {
	i := strings.Index(prog, ownSep)
	if i < 0 {
		o.Verdict("BADOP", "o … :: want ROUTE ||| OP")
		return
	}
	rtText, op := prog[:i], prog[i+len(ownSep):]
	rt := route{text: rtText}
	for _, r := range ownRoutes {
		if r.text == rtText {
			rt = r
		}
	}
	o.N++
	vd, text := ownSingle(f, rt, in, op)
	o.Verdict(vd, text)
}
