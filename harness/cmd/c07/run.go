//go:build verif

package main

import (
	"context"
	"runtime"
	"runtime/debug"
	"sync"
	"sync/atomic"
	"errors"
	"fmt"
	"strings"
	"time"

	"github.com/wader/fq/internal/verifharness/hlib"
	"github.com/wader/fq/pkg/interp"
	"github.com/wader/gojq"
)

// ---------------------------------------------------------------- observation

const maxOutputs = 48

// Obs = ordered outputs (canonical JSON) and how the stream ended.
// End: "" normal end | "error" (a jq error at this index; message NOT compared) | "parse" | "compile"
// (before any output) | "more" (cut after maxOutputs on both sides) | "timeout" | "panic: …"
type Obs struct {
	Outs []string
	End  string
}

func (o Obs) String() string {
	var ps []string
	for _, s := range o.Outs {
		ps = append(ps, "ok "+s)
	}
	if o.End != "" {
		ps = append(ps, o.End)
	}
	if len(ps) == 0 {
		return "(none)"
	}
	return strings.Join(ps, " | ")
}

func (o Obs) Equal(p Obs) bool { return o.String() == p.String() }

const evalTimeout = 5 * time.Second
const longTimeout = 120 * time.Second // retry limit when the first attempt timed out (loaded machine)

func drain(it gojq.Iter, ctx context.Context) Obs {
	var o Obs
	for {
		v, ok := it.Next()
		if !ok {
			return o
		}
		if err, isErr := v.(error); isErr {
			if ctx.Err() != nil || errors.Is(err, context.DeadlineExceeded) || errors.Is(err, context.Canceled) {
				o.End = "timeout"
			} else {
				o.End = "error"
			}
			return o
		}
		if len(o.Outs) >= maxOutputs {
			o.End = "more"
			return o
		}
		o.Outs = append(o.Outs, canon(v))
	}
}

// ---------------------------------------------------------------- memory watchdog

// A generated program may allocate without bound inside its time limit (a recursion whose base case was
// shadowed away ate 53 GB in one thorough run and the kernel killed the shard). Every evaluation registers
// its cancel function; when the heap passes memLimit the watchdog cancels all running evaluations (they end
// as `timeout`, which both sides must then share) and frees memory.
const memLimit = 6 << 30

var (
	cancelMu  sync.Mutex
	cancelFns = map[int]context.CancelFunc{}
	cancelSeq int
	memHits   int64
)

func registerCancel(c context.CancelFunc) func() {
	cancelMu.Lock()
	cancelSeq++
	id := cancelSeq
	cancelFns[id] = c
	cancelMu.Unlock()
	return func() {
		cancelMu.Lock()
		delete(cancelFns, id)
		cancelMu.Unlock()
	}
}

func init() {
	go func() {
		var ms runtime.MemStats
		for {
			time.Sleep(100 * time.Millisecond)
			runtime.ReadMemStats(&ms)
			if ms.HeapAlloc > memLimit {
				cancelMu.Lock()
				for _, c := range cancelFns {
					c()
				}
				cancelMu.Unlock()
				atomic.AddInt64(&memHits, 1)
				time.Sleep(300 * time.Millisecond)
				debug.FreeOSMemory()
			}
		}
	}()
}

// ---------------------------------------------------------------- (a) reference: the gojq library itself

// The library has no debug/0, stderr/0, input_filename/0 (they belong to gojq's CLI: cli/cli.go:245-259
// registers them with WithFunction). The reference uses the CLI's definitions: debug and stderr
// return their input unchanged, input_filename is null when there is no input file.
var refOpts = []gojq.CompilerOption{
	gojq.WithVariables([]string{"$in"}),
	gojq.WithFunction("debug", 0, 0, func(v any, _ []any) any { return v }),
	gojq.WithFunction("stderr", 0, 0, func(v any, _ []any) any { return v }),
	gojq.WithFunction("input_filename", 0, 0, func(any, []any) any { return nil }),
}

// refAppliesFromjsonToNonString: does the REFERENCE run of prog on in apply the builtin fromjson to a value
// that is not a string? (fq extends fromjson's domain: arrays of bytes/strings, binaries … are converted to a
// binary and decoded; standard jq fails.) Such (program, input) pairs are outside the generated domain —
// decided with the reference alone, before fq is run. The marker wrapper is used for this question only;
// the observation that is compared comes from the unmodified program.
func refAppliesFromjsonToNonString(prog string, in any) (hit bool) {
	if !strings.Contains(prog, "fromjson") {
		return false
	}
	_, _ = hlib.Catch(func() string {
		q, err := gojq.Parse(`def _c07_fj: fromjson; def fromjson: if type == "string" then _c07_fj else (_c07_mark | _c07_fj) end; ` + prog)
		if err != nil {
			return ""
		}
		opts := append([]gojq.CompilerOption{}, refOpts...)
		opts = append(opts, gojq.WithFunction("_c07_mark", 0, 0, func(v any, _ []any) any { hit = true; return v }))
		code, err := gojq.Compile(q, opts...)
		if err != nil {
			return ""
		}
		ctx, cancel := context.WithTimeout(context.Background(), evalTimeout)
		defer cancel()
		drain(code.RunWithContext(ctx, nil, in), ctx)
		return ""
	})
	return hit
}

func runRef(prog string, in any) Obs { return runRefT(prog, in, evalTimeout) }

func runRefT(prog string, in any, to time.Duration) (res Obs) {
	msg, panicked := hlib.Catch(func() string {
		q, err := gojq.Parse(prog)
		if err != nil {
			res = Obs{End: "parse"}
			return ""
		}
		code, err := gojq.Compile(q, refOpts...)
		if err != nil {
			res = Obs{End: "compile"}
			return ""
		}
		ctx, cancel := context.WithTimeout(context.Background(), to)
		defer cancel()
		defer registerCancel(cancel)()
		res = drain(code.RunWithContext(ctx, nil, in), ctx)
		return ""
	})
	if panicked {
		res = Obs{End: msg}
	}
	return res
}

// ---------------------------------------------------------------- (b) fq, in-process

type fqInst struct {
	os *vos
	i  *interp.Interp
}

func newFq() *fqInst {
	o := newVOS("-n", ".")
	i, err := interp.New(o, interp.DefaultRegistry)
	if err != nil {
		panic(err)
	}
	f := &fqInst{os: o, i: i}
	// what interp.jq:_main does before it evaluates the expression of `fq -nc …`: the options stack
	// (decode, tovalue, display read it); the slurps are set per input by setIn.
	if err := f.run(nil, `_options_stack([_opt_build_default_fixed + {null_input: true, compact: true, expr_given: true}]) | empty`); err != nil {
		panic(err)
	}
	return f
}

func (f *fqInst) run(c any, expr string) error {
	ctx, cancel := context.WithTimeout(context.Background(), 20*evalTimeout)
	defer cancel()
	it, err := f.i.Eval(ctx, c, expr, interp.EvalOpts{})
	if err != nil {
		return err
	}
	for {
		v, ok := it.Next()
		if !ok {
			return nil
		}
		if e, isErr := v.(error); isErr {
			return e
		}
	}
}

// setIn makes `$in` available to every later evaluation exactly as `--argjson in V` does
// (interp.jq:_main stores the parsed arguments with _slurps(...); Eval reads them back, interp.go:805).
func (f *fqInst) setIn(in any) error {
	return f.run(in, `. as $v | _slurps({in: $v}) | empty`)
}

// evalDirect: the user's program is the whole query of one interp.Eval with null input (`-n`).
func (f *fqInst) evalDirect(prog string) Obs { return f.evalDirectT(prog, evalTimeout) }

func (f *fqInst) evalDirectT(prog string, to time.Duration) (res Obs) {
	msg, panicked := hlib.Catch(func() string {
		f.os.stderr.Reset()
		ctx, cancel := context.WithTimeout(context.Background(), to)
		defer cancel()
		defer registerCancel(cancel)()
		it, err := f.i.Eval(ctx, nil, prog, interp.EvalOpts{})
		if err != nil {
			if ctx.Err() != nil {
				// the module loader checks the context (interp.go:831): a slow compile on a loaded machine
				res = Obs{End: "timeout"}
				return ""
			}
			// interp.go:784-794 / 950-958: compileError{what: "parse"|"compile"}
			what := "compile"
			if strings.Contains(err.Error(), ": parse: ") {
				what = "parse"
			}
			res = Obs{End: what}
			return ""
		}
		res = drain(it, ctx)
		return ""
	})
	if panicked {
		res = Obs{End: msg}
	}
	return res
}

// evalDirectRaw: the output values themselves (used by -facts to read generated sources)
func (f *fqInst) evalDirectRaw(prog string) (vs []any) {
	_, _ = hlib.Catch(func() string {
		ctx, cancel := context.WithTimeout(context.Background(), longTimeout)
		defer cancel()
		it, err := f.i.Eval(ctx, nil, prog, interp.EvalOpts{})
		if err != nil {
			return ""
		}
		for {
			v, ok := it.Next()
			if !ok {
				return ""
			}
			if _, isErr := v.(error); isErr {
				vs = nil
				return ""
			}
			vs = append(vs, v)
		}
	})
	return vs
}

// runCLI = `fq -nc --argjson in V P` through interp.Main (argument parsing, the query rewrite of
// eval.jq, display with the colorjson encoder). Returns the printed lines and the exit code.
func runCLI(prog string, inJSON string) (lines []string, exit int, stderr string, panicMsg string) {
	if strings.HasPrefix(prog, "-") {
		// an expression argument that starts with `-` is an option to fq's (and jq's) command line parser — C17's
		// subject; a leading blank keeps it an expression without changing the program
		prog = " " + prog
	}
	o := newVOS("-nc", "--argjson", "in", inJSON, prog)
	msg, panicked := hlib.Catch(func() string {
		i, err := interp.New(o, interp.DefaultRegistry)
		if err != nil {
			exit = 1
			return ""
		}
		defer i.Stop()
		if err := i.Main(context.Background(), o.Stdout(), "verif"); err != nil {
			var ex interp.Exiter
			if errors.As(err, &ex) {
				exit = ex.ExitCode()
			} else {
				exit = 1
			}
		}
		return ""
	})
	if panicked {
		return nil, -1, "", msg
	}
	out := o.stdout.String()
	if out != "" {
		lines = strings.Split(strings.TrimSuffix(out, "\n"), "\n")
	}
	return lines, exit, o.stderr.String(), ""
}

// refCLI: what gojq's own output path prints for the same program: one gojq.Marshal line per output.
func refCLI(prog string, in any) (lines []string, end string) {
	msg, panicked := hlib.Catch(func() string {
		q, err := gojq.Parse(prog)
		if err != nil {
			end = "parse"
			return ""
		}
		code, err := gojq.Compile(q, refOpts...)
		if err != nil {
			end = "compile"
			return ""
		}
		ctx, cancel := context.WithTimeout(context.Background(), evalTimeout)
		defer cancel()
		it := code.RunWithContext(ctx, nil, in)
		for {
			v, ok := it.Next()
			if !ok {
				return ""
			}
			if _, isErr := v.(error); isErr {
				if ctx.Err() != nil {
					end = "timeout"
				} else {
					end = "error"
				}
				return ""
			}
			if len(lines) >= maxOutputs {
				end = "more"
				return ""
			}
			b, err := gojq.Marshal(v)
			if err != nil {
				end = "marshal-error"
				return ""
			}
			lines = append(lines, string(b))
		}
	})
	if panicked {
		end = msg
	}
	return lines, end
}

func fmtLines(lines []string, end string) string {
	var ps []string
	for _, l := range lines {
		ps = append(ps, "ok "+l)
	}
	if end != "" {
		ps = append(ps, end)
	}
	if len(ps) == 0 {
		return "(none)"
	}
	return strings.Join(ps, " | ")
}

var _ = fmt.Sprintf

// ---------------------------------------------------------------- known-finding classification

// A disagreement is attributed to a recorded finding only if the program text contains `fromjson` and a
// prelude of definitions in front of the program (using fq's own functions) makes fq agree with the reference:
//
//	c07-fromjson-of-fromjson-root-string  vanishes when a string-typed decode-value ARGUMENT of fromjson is
//	      converted with `tovalue` first (fromjson of a root string decode value re-decodes its buffer);
//	c07-fromjson-decode-value-index       does not vanish with that, but vanishes when also the RESULT of fq's
//	      fromjson is passed through `tovalue`, i.e. the difference is caused by looking into the decode
//	      value that fromjson returns (string key on a non-object gives null, index on null fails, and
//	      `?` / `//` / try / path() probes that observe this).
const knownFromjsonArg = "c07-fromjson-of-fromjson-root-string"
const knownFromjson = "c07-fromjson-decode-value-index"
const preludeArg = `def _c07_fq_fromjson: fromjson; def fromjson: (if _exttype == "decode_value" and type == "string" then tovalue end) | _c07_fq_fromjson; `
const preludeRes = `def _c07_fq_fromjson: fromjson; def fromjson: (if _exttype == "decode_value" and type == "string" then tovalue end) | _c07_fq_fromjson | tovalue; `

var knownKeys = []string{knownFromjson, knownFromjsonArg, knownStrIndex, knownArrSlice}

func classify(prog string, agrees func(prelude string) bool) string {
	if !strings.Contains(prog, "fromjson") {
		return ""
	}
	if agrees(preludeArg) {
		return knownFromjsonArg
	}
	if agrees(preludeRes) {
		return knownFromjson
	}
	return ""
}

func classifyDirect(f *fqInst, prog string, ref Obs) string {
	return classify(prog, func(prelude string) bool {
		o := f.evalDirect(prelude + prog)
		if o.End == "timeout" { // loaded machine: once more, patiently
			o = f.evalDirectT(prelude+prog, longTimeout)
		}
		return o.Equal(ref)
	})
}

func classifyCLI(prog string, inJSON string, ref string) string {
	return classify(prog, func(prelude string) bool {
		lines, exit, _, pm := runCLI(prelude+prog, inJSON)
		return fmtLines(lines, fmt.Sprintf("exit=%d", exit))+pm == ref
	})
}
