//go:build verif

package main

import (
	"strings"

	"github.com/wader/fq/internal/verifharness/hlib"
)

// Top-level shapes: programs whose WHOLE text is one syntactic form — what fq's CLI wraps as
// `try (PROG) catch <reporter>` (eval.jq:41-52) and pipes into its display query. Every shape goes through the
// real CLI path (mode c: interp.Main with the expression as argument: stdout values, error or not and where,
// exit status) and through mode d. Sub-expressions come from the feedback-directed generator and refer to $in.

// errBody: terms that fail for some inputs (after zero or more outputs)
func (g *G) errBody(c *Ctx, d int) string {
	switch g.r.Intn(16) {
	case 0:
		return g.pick(`error("x")`, `error`, `error(null)`, `error({a: 1})`, `error("\($in | type)")`, `error($in)`)
	case 1:
		return g.pick(`($in | tonumber)`, `($in[] | tonumber)`, `($in | map(tonumber))`, `($in | .[] | tonumber)`, `($in | keys)`, `($in | ascii_downcase)`, `($in | implode)`, `($in | .[0])`, `($in | .a)`, `($in | has("a"))`, `($in | test("a"))`, `($in | tostring | fromjson)`)
	case 2:
		return g.pick(`$in.a.b.c`, `$in[0]`, `$in["a"]`, `$in[0][0]`, `$in.nums[0].x`, `$in.s.t`, `$in[1:]`, `$in.recs[0].k.z`)
	case 3:
		return "(1, 2, " + g.errBody(c, d-1) + ", 3)"
	case 4:
		return "[" + g.errBody(c, d-1) + "]"
	case 5:
		return "{a: " + g.errBody(c, d-1) + "}"
	case 6:
		return `"v=\(` + g.errBody(c, d-1) + `)"`
	case 7:
		return "first(" + g.errBody(c, d-1) + ")"
	case 8:
		return "(" + g.expr(c, "any", d) + " | " + g.pick("error", "tonumber", "keys", "ascii_downcase", ".[0]", ".a", "implode", "error(\"e\")", "-(.)", "length", "test(\"a\")") + ")"
	case 9:
		return "if " + g.expr(c, "boolean", d-1) + " then error(\"t\") else " + g.expr(c, "any", d-1) + " end"
	case 10:
		return "reduce $in[]? as $x (0; . + ($x | tonumber))"
	case 11:
		return "(" + g.expr(c, "any", d) + ")"
	case 12:
		return "-(" + g.expr(c, "any", d-1) + ")"
	case 13:
		return g.pick("try error(\"inner\")", "try error(\"inner\") catch error(\"rethrown\")", "(try error(\"inner\"))", "try (try error(\"a\") catch error(\"b\"))")
	case 14:
		return `@base64 "\(` + g.errBody(c, d-1) + `)"`
	}
	return "(" + g.expr(c, "number", d) + " / " + g.expr(c, "number", d) + ")"
}

func genTopProgram(r *hlib.Rand, in any) (string, map[string]bool) {
	g := &G{r: r, in: in, feats: map[string]bool{}}
	c := &Ctx{dot: nil, dotOK: true, vars: []vb{{"in", in, true}}}
	d := g.r.Range(1, 3)
	e := func() string { return g.errBody(c, d) }
	x := func() string { return g.expr(c, "any", d) }
	pipe := func() string {
		p, _ := genProgram(r.Fork(), in)
		return p
	}
	shape := g.pick("try", "try", "try", "trycatch", "opt", "label", "reduce", "foreach", "def", "as", "comma", "pipe", "alt", "andor", "arith", "cmp", "simple", "simple", "if", "cons", "ws", "trymix", "trymix")
	var p string
	switch shape {
	case "try":
		p = "try " + e()
	case "trycatch":
		p = "try " + e() + " catch " + g.pick(`"caught"`, "type", "error(\"again\")", "error", "empty", `("a", "b")`, `["c"]`, "try error(\"c\")") // never the message text: compared by class only
	case "opt":
		p = e() + g.pick("?", "?", "??", "?")
		if g.chance(3) {
			p = g.pick("$in.a?", "$in[]?", "$in.a.b?", "$in[0]?", "$in[]?.k?", "..?", "$in | .[]?")
		}
	case "label":
		p = g.pick("label $out | ("+e()+", break $out, 2)", "label $out | $in[]? | if . == null then break $out else . end", "label $f | try (1, break $f) catch \"c\"", "label $a | label $b | ("+x()+", break $b)", "label $out | try error(\"x\")", "label $out | try break $out catch \"c\"")
	case "reduce":
		p = g.pick("reduce $in[]? as $x (0; . + 1)", "reduce "+e()+" as $x (null; $x)", "reduce range(3) as $i ([]; . + ["+x()+"])", "reduce $in[]? as [$a, $b] ({}; .[$a | tostring] = $b)", "reduce (1, 2) as $x (0; error(\"r\"))", "reduce empty as $x (7; .)")
	case "foreach":
		p = g.pick("foreach $in[]? as $x (0; . + 1)", "foreach "+e()+" as $x (0; . + 1; [$x, .])", "foreach range(3) as $i (null; $i; "+x()+")", "foreach (1, 2, 3) as $x (0; . + $x; if . > 3 then error(\"f\") else . end)", "foreach $in[]? as {k: $k} ([]; . + [$k]; length)")
	case "def":
		p = g.pick("def f: "+e()+"; f", "def f: try "+e()+"; f", "def f: 1; try "+e(), "def f(g): try g; f("+e()+")", "def f: error(\"d\"); try f", "def f: "+x()+"; def g: f | tostring; g", "def f($a): $a + 1; try f("+x()+")", "def f: def h: try error(\"n\"); h; f", "def try_: 1; try_")
	case "as":
		p = g.pick("$in as $v | "+x(), "$in as $v | try "+e(), "$in as [$a, $b] | [$b, $a]", "$in as {a: $a} | $a", ". as $x | try error(\"x\")", "$in as $v | $v | try tonumber", "$in[]? as $x | try ($x | tonumber)", "$in as [$a] ?// $a | $a | type", "1 as $x | 2 as $y | try error($x + $y)")
	case "comma":
		p = g.pick("try "+e()+", 2", "1, try "+e(), x()+", "+x(), "try error(\"a\"), try error(\"b\")", e()+", 2", "1, "+e(), "(try "+e()+"), 3", "empty, 1", "1, empty")
	case "pipe":
		p = g.pick("try "+e()+" | type", x()+" | try "+e(), "$in | try tonumber", "$in | try error", "$in | .[]? | try tonumber", "try error(\"x\") | 1", pipe(), pipe()+" | try error(\"p\")", "try ("+pipe()+")")
	case "alt":
		p = g.pick("try "+e()+" // 2", x()+" // "+x(), e()+" // \"alt\"", "(try error(\"x\")) // 1", "try error(\"x\") // try error(\"y\")", "empty // 3", "(null, false) // try error(\"z\")", "$in.a? // \"d\"")
	case "andor":
		p = g.pick("try "+e()+" and true", x()+" and "+x(), "true or "+e(), "false and "+e(), "try error(\"x\") or 1", "(try "+e()+") | not", x()+" or try error(\"o\")")
	case "arith":
		p = g.pick("try "+e()+" + 1", x()+" + "+x(), "1 + try "+e(), x()+" * 2", "try error(\"x\") - 1", "-(try "+e()+")", "1 / 0", "try (1 / 0)", "$in + 1", "try ($in + 1)")
	case "cmp":
		p = g.pick("try "+e()+" == null", x()+" < "+x(), "1 == try "+e(), x()+" != "+x())
	case "simple":
		p = g.pick("empty", "error", `error("x")`, "error(null)", "error($in)", "error({a: 1})", "null", ".", "..", "$in", "1", `"str"`, "[]", "{}", "-1", ".a", ".[0]", ".[]?", ".[]", "input_filename", "not", "true", "$in | not", ".a.b.c", "[.]", "{a: .}", `"\(.)"`, "@base64", "@json", "try empty", "try .", "try error", "try error(null)", "try null", "(try error(\"x\"))", "[try error(\"x\")]", "{a: try error(\"x\")}", "try try error(\"x\")", "try (try error(\"x\"))", "try error(\"x\") catch .", "try try error(\"x\") catch .", "error(\"x\")?", "try error(\"x\")?", "(try error(\"x\"))?", "try (error(\"x\")?)", "first(try error(\"x\"))", "try first(error(\"x\"))", "try [error(\"x\")]", "try {a: error(\"x\")}", "try -error(\"x\")", "try \"\\(error(\"x\"))\"", "try @base64 \"\\(error(\"x\"))\"", "try $in.a", "try $in[0]", "try $in.a.b", "try ($in | keys)", "try reduce error(\"x\") as $x (0; .)", "try foreach error(\"x\") as $x (0; .)", "try if error(\"x\") then 1 else 2 end", "try error(\"x\").a", "try error(\"x\")[0]", "try .a.b", "try (1, error(\"x\"), 3)", "try limit(2; 1, error(\"x\"), 3)", "try $__prog_args?", "try input_filename", "try ltrimstr(1)", "try tojson", "try fromjson", "try (\"{\" | fromjson)", "try (\"[1]\" | fromjson | .a)", "try debug", "try debug(error(\"m\"))", "try stderr", "try splits(1)", "try (\"a\" | test(\"(\"))", "try (\"a\" | split(1))", "try (\"a\" | explode | implode | error)", "try ([1] | implode | error)")
	case "if":
		p = g.pick("if "+g.expr(c, "boolean", d)+" then "+e()+" else "+x()+" end", "if try "+e()+" then 1 else 2 end", "if $in then try "+e()+" end", "if error(\"c\") then 1 else 2 end", "if true then try error(\"x\") else 1 end")
	case "cons":
		p = g.pick("[try "+e()+"]", "{a: try "+e()+"}", "["+x()+", "+e()+"]", "{a: "+x()+", b: "+e()+"}", `"\(try `+e()+`)"`, "[.[]?]", "{(try "+e()+" | tostring): 1}", "[$in, try "+e()+"]")
	case "ws":
		p = g.pick(" try "+e()+" ", "try "+e()+" # comment", "try\t"+strings.ReplaceAll(e(), "\t", " "), "  "+x()+"  ", "try "+e()+"  catch  type", "try error(\"x\") # c", "try # c", "(", "try", "try catch", "catch", "try error(\"x\") catch")
	case "trymix":
		p = g.pick("try "+e()+" | try "+e(), "try try "+e(), "try (try "+e()+" catch error(\"second\"))", "try "+e()+" catch try error(\"h\")", "try try "+e()+" catch type", "try "+e()+"?", "(try "+e()+")?", "try ("+e()+"?)", "try "+e()+".a", "try "+e()+"[0]", "try "+e()+" as $x | $x", "try "+e()+" , try "+e(), "[try "+e()+", try "+e()+"]")
	}
	p = strings.NewReplacer("\t", " ", "\n", " ").Replace(balance(p))
	if shape == "ws" && strings.Contains(p, "# ") {
		// a comment runs to the end of the line: nothing may follow it
		p = p[:strings.Index(p, "# ")] + p[strings.Index(p, "# "):]
	}
	g.feats["top:"+shape] = true
	g.feats["top"] = true
	return p, g.feats
}
