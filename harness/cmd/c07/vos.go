//go:build verif

package main

import (
	"bytes"
	"fmt"
	"io"
	"io/fs"

	_ "github.com/wader/fq/format/all"
	"github.com/wader/fq/pkg/interp"
)

// Virtual OS for an in-process interpreter (no files, no terminal), after format/fuzz_test.go
// and internal/script. stdout/stderr are captured so that the CLI mode can read the printed
// JSON lines and `debug`/`stderr` pass-through text can be looked at.

type vfs struct{}

func (vfs) Open(name string) (fs.File, error) { return nil, fmt.Errorf("%s: file not found", name) }

type vin struct {
	interp.FileReader
}

func (vin) IsTerminal() bool { return false }
func (vin) Size() (int, int) { return 120, 25 }

type vout struct{ io.Writer }

func (vout) Size() (int, int)  { return 120, 25 }
func (vout) IsTerminal() bool { return false }

type vos struct {
	args   []string
	stdout *bytes.Buffer
	stderr *bytes.Buffer
}

func newVOS(args ...string) *vos {
	return &vos{args: append([]string{"fq"}, args...), stdout: &bytes.Buffer{}, stderr: &bytes.Buffer{}}
}

func (o *vos) Platform() interp.Platform { return interp.Platform{OS: "verifos", Arch: "verifarch", GoVersion: "verifgo"} }
func (o *vos) Stdin() interp.Input {
	return vin{FileReader: interp.FileReader{R: bytes.NewReader(nil), FileInfo: interp.FixedFileInfo{FName: "stdin", FMode: fs.ModeIrregular}}}
}
func (o *vos) Stdout() interp.Output        { return vout{o.stdout} }
func (o *vos) Stderr() interp.Output        { return vout{o.stderr} }
func (o *vos) InterruptChan() chan struct{} { return nil }
func (o *vos) Environ() []string {
	return []string{"NO_COLOR=1", "NO_DECODE_PROGRESS=1", "CONFIG_DIR=/config"}
}
func (o *vos) Args() []string                                   { return o.args }
func (o *vos) ConfigDir() (string, error)                       { return "/config", nil }
func (o *vos) FS() fs.FS                                        { return vfs{} }
func (o *vos) History() ([]string, error)                       { return nil, nil }
func (o *vos) Readline(opts interp.ReadlineOpts) (string, error) { return "", io.EOF }
