//go:build verif

package main

import (
	"context"
	"fmt"
	"sort"
	"strings"

	"github.com/wader/fq/internal/verifharness/hlib"
	"github.com/wader/fq/pkg/bitio"
	"github.com/wader/fq/pkg/decode"
	"github.com/wader/fq/pkg/interp"
	"github.com/wader/fq/pkg/scalar"
	"github.com/wader/gojq"
)

// B-lines: a history of D.AddChild / Value.Remove calls on ONE struct, made by the harness-registered
// format verif_c08b with the public decode API (FieldValueUint adds a field, FieldGet(name).Remove()
// removes it — what format/tls does), observed after every step through the real JQValue* methods:
//   `B add <hexname> ; rm <hexname> ; …`  TAB  `<snapshot> ; <snapshot> ; …`
//   snapshot = K<names of Children,>  H<has(k) for every name of the history, 0/1>  V<.k: the field's number or ->,…
//   or `fatal <snapshot>` when the decoder stopped (a name that "already exists", a Remove error): the struct as the
//   stopped decoder left it; the history ends there.
// JQValueKey/JQValueHas answer from Compound.ByName, JQValueKeys from Compound.Children.

type bop struct {
	rm   bool
	name string
}

var (
	builderGroup = &decode.Group{Name: "verif_c08b"}
	builderOps   []bop
	builderObs   []string
)

func init() {
	interp.RegisterFormat(builderGroup, &decode.Format{
		Description: "verification harness C08: AddChild/Remove history on one struct",
		DecodeFn: func(d *decode.D) any {
			runBuilder(d)
			return nil
		},
	})
}

func builderUniverse(ops []bop) []string {
	m := map[string]bool{}
	for _, o := range ops {
		m[o.name] = true
	}
	var u []string
	for k := range m {
		u = append(u, k)
	}
	sort.Strings(u)
	return u
}

func builderSnapshot(d *decode.D, universe []string) string {
	jv, ok := interp.VerifC08MakeDecodeValue(d.Value).(gojq.JQValue)
	if !ok {
		return "not-a-jqvalue"
	}
	var sb strings.Builder
	sb.WriteString("K")
	ks, _ := jv.JQValueKeys().([]any)
	for i, k := range ks {
		if i > 0 {
			sb.WriteByte(',')
		}
		sb.WriteString(hx([]byte(fmt.Sprint(k))))
	}
	if len(ks) == 0 {
		sb.WriteString("-")
	}
	sb.WriteString(" H")
	for _, k := range universe {
		if b, _ := jv.JQValueHas(k).(bool); b {
			sb.WriteByte('1')
		} else {
			sb.WriteByte('0')
		}
	}
	sb.WriteString(" V")
	for i, k := range universe {
		if i > 0 {
			sb.WriteByte(',')
		}
		v := jv.JQValueKey(k)
		if dv, ok := v.(interp.DecodeValue); ok {
			if u, ok := dv.DecodeValue().V.(*scalar.Uint); ok {
				fmt.Fprintf(&sb, "%d", u.Actual)
				continue
			}
			sb.WriteString("?")
			continue
		}
		sb.WriteString("-")
	}
	return sb.String()
}

func runBuilder(d *decode.D) {
	universe := builderUniverse(builderOps)
	for i, op := range builderOps {
		failed := false
		func() {
			defer func() {
				if r := recover(); r != nil {
					failed = true
				}
			}()
			if op.rm {
				v := d.FieldGet(op.name)
				if v == nil {
					failed = true
					return
				}
				if err := v.Remove(); err != nil {
					failed = true
				}
				return
			}
			d.FieldValueUint(op.name, uint64(i+1))
		}()
		if failed {
			// the decoder stopped: the struct must be as it was before the refused call
			builderObs = append(builderObs, "fatal "+builderSnapshot(d, universe))
			return
		}
		builderObs = append(builderObs, builderSnapshot(d, universe))
	}
}

func builderText(ops []bop) string {
	ss := make([]string, len(ops))
	for i, o := range ops {
		if o.rm {
			ss[i] = "rm " + hx([]byte(o.name))
		} else {
			ss[i] = "add " + hx([]byte(o.name))
		}
	}
	return strings.Join(ss, " ; ")
}

func parseBuilder(text string) ([]bop, error) {
	var ops []bop
	for _, part := range strings.Split(text, ";") {
		w := strings.Fields(part)
		if len(w) != 2 || (w[0] != "add" && w[0] != "rm") {
			return nil, fmt.Errorf("bad builder op %q", part)
		}
		b, err := unhx(w[1])
		if err != nil {
			return nil, err
		}
		ops = append(ops, bop{rm: w[0] == "rm", name: string(b)})
	}
	return ops, nil
}

func (c *ctxT) builderCase(ops []bop) {
	builderOps, builderObs = ops, nil
	_, _ = hlib.Catch(func() string {
		_, _, _ = decode.Decode(context.Background(), bitio.NewBitReader([]byte{0}, 8), builderGroup, decode.Options{IsRoot: true})
		return ""
	})
	c.o.Case("B "+builderText(ops), strings.Join(builderObs, " ; "))
	c.o.Class("B:" + builderText(ops))
	c.o.Stat("builder_histories", 1)
}

// all histories of length <= maxLen over the names (exhaustive), then random longer ones
func (c *ctxT) builderCases(thorough bool) {
	names := []string{"a", "b", "data"}
	maxLen := 4
	if thorough {
		maxLen = 5
	}
	var rec func(prefix []bop)
	rec = func(prefix []bop) {
		if len(prefix) > 0 {
			c.builderCase(append([]bop(nil), prefix...))
		}
		if len(prefix) == maxLen {
			return
		}
		for _, n := range names {
			for _, rm := range []bool{false, true} {
				rec(append(prefix, bop{rm: rm, name: n}))
			}
		}
	}
	rec(nil)
	c.o.Stat("exhaustive_builder_histories_max_len", maxLen)
	nRand := 200
	if thorough {
		nRand = 3000
	}
	pool := []string{"a", "b", "c", "data", "x y", "_x", "é"}
	for i := 0; i < nRand; i++ {
		n := c.r.Range(5, 14)
		ops := make([]bop, n)
		for j := range ops {
			ops[j] = bop{rm: c.r.Intn(3) == 0, name: pool[c.r.Intn(len(pool))]}
		}
		c.builderCase(ops)
	}
}
