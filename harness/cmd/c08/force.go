//go:build verif

package main

import (
	"context"
	"fmt"
	"sort"
	"strings"
	"time"

	"github.com/wader/fq/internal/verifharness/hlib"
	"github.com/wader/fq/pkg/bitio"
	"github.com/wader/fq/pkg/decode"
	"github.com/wader/fq/pkg/interp"
	"github.com/wader/fq/pkg/scalar"
)

// F-lines: a decoder DRIVEN BY ITS INPUT BYTES (harness-registered format verif_c08f), decoded with
// Options.Force = false and = true. The input is a little byte code; every instruction is one or more
// calls of the public decode.D API:
//
//	opcode (low 4 bits)   operands            call
//	0            end      -                   leaves the current FieldStruct/FieldArray body (at the root: the decoder returns)
//	1, 9         u8       name, data          d.FieldU8(name)                       (reads `data` from the input)
//	2, 10        val      name, v             d.FieldValueUint(name, v)             (synthetic)
//	3, 11        st       name … end          d.FieldStruct(name, body)
//	4            ar       name … end          d.FieldArray(name, body)
//	5, 14        errorf   -                   d.Errorf(…)                           (stops the decoder unless forced)
//	6            fatalf   -                   d.Fatalf(…)                           (stops the decoder)
//	7, 15        as       name, expect, data  d.FieldU8(name, d.UintAssert(expect)) (a mismatch stops the decoder unless forced)
//	8, 13        rm       name                d.Value.V.(*Compound).ByName[name].Remove() if there is such a member
//	12           in       … end               d.Format(group): the body runs as a sub-format (verif_c08g) with its own root;
//	                                          D.Format then hands every member of that root to AddChild of the current compound
//	(input ends inside an instruction)  eof   the read fails: IOPanic
//
// names: forceNames[operand % len] — duplicates are what a random program produces all the time; the
// table has names equal to `_` extra keys (_format, _error, _start, …), the empty name, a gap name.
//
//	`F @prog:<hex> force=<0|1> <op tokens>` TAB `<done|stop> <CT>`
//	CT := S<n> (<hexname> CT)*n B<m> (<hexkey> <index in Children of the value ByName[key] points to, -1 = not a child>)*m
//	    | A<n> CT*n | u<dec>(.|y)
//
// so the driver (FqModel/JQValueBuild.lean `runDecoder .fatalf force`) sees BOTH indexes of every struct.
// Every value of every such tree then gets the usual M / Q / ! / S cases (`@prog:… @force:…` notes).

var forceNames = []string{"a", "b", "c", "data", "_format", "_error", "_start", "_len", "_name", "_x", "",
	"x y", "é", "0", "_root", "_parent", "gap0", "_gap", "_actual", "_sym"}

type fop struct {
	kind    string // u8 val st ar in errorf fatalf as rm eof end
	bodyAt  int    // in: offset of the body in the input; endAt: offset after the instruction (with its body)
	endAt   int
	raw     []byte // the instruction's own bytes (opcode and operands, not the data byte a field reads)
	name    string
	v, e    byte
	body    []*fop
	closed  bool // st/ar: the body ended with an `end` instruction (else: the input ended)
	hasData bool
}

var opKinds = [16]string{"end", "u8", "val", "st", "ar", "errorf", "fatalf", "as", "rm", "u8", "val", "st", "in", "rm", "errorf", "as"}

// parseProg: pure parser of the byte code (the decoder below reads the same bytes through decode.D and
// checks that it sees what the parser saw)
func parseProg(b []byte) []*fop {
	pos := 0
	ops, _, _ := parseBody(b, &pos)
	return ops
}

// returns the body, whether it was closed by `end`, and whether the input ended inside an instruction
func parseBody(b []byte, pos *int) (ops []*fop, closed bool, dead bool) {
	for *pos < len(b) {
		start := *pos
		kind := opKinds[b[*pos]&0x0f]
		*pos++
		need := map[string]int{"end": 0, "u8": 1, "val": 2, "st": 1, "ar": 1, "in": 0, "errorf": 0, "fatalf": 0, "as": 2, "rm": 1}[kind]
		data := 0
		if kind == "u8" || kind == "as" {
			data = 1
		}
		if *pos+need+data > len(b) {
			*pos = start
			return append(ops, &fop{kind: "eof"}), false, true
		}
		op := &fop{kind: kind, raw: b[start : *pos+need]}
		args := b[*pos : *pos+need]
		*pos += need
		if need > 0 {
			op.name = forceNames[int(args[0])%len(forceNames)]
		}
		switch kind {
		case "end":
			return ops, true, false
		case "u8":
			op.v = b[*pos]
			*pos++
		case "val":
			op.v = args[1]
		case "as":
			op.e = args[1]
			op.v = b[*pos]
			*pos++
		case "st", "ar", "in":
			var d bool
			op.bodyAt = *pos
			op.body, op.closed, d = parseBody(b, pos)
			op.endAt = *pos
			ops = append(ops, op)
			if d {
				return ops, false, true
			}
			continue
		}
		ops = append(ops, op)
	}
	return ops, false, false
}

func progText(sb *strings.Builder, ops []*fop) {
	for _, op := range ops {
		switch op.kind {
		case "u8", "val":
			fmt.Fprintf(sb, " %s %s %d", op.kind, hx([]byte(op.name)), op.v)
		case "as":
			fmt.Fprintf(sb, " as %s %d %d", hx([]byte(op.name)), op.v, op.e)
		case "rm":
			fmt.Fprintf(sb, " rm %s", hx([]byte(op.name)))
		case "st", "ar":
			fmt.Fprintf(sb, " %s %s (", op.kind, hx([]byte(op.name)))
			progText(sb, op.body)
			sb.WriteString(" )")
		case "in":
			sb.WriteString(" in (")
			progText(sb, op.body)
			sb.WriteString(" )")
		default:
			sb.WriteString(" " + op.kind)
		}
	}
}

var (
	forceGroup  = &decode.Group{Name: "verif_c08f"}
	inlineGroup = &decode.Group{Name: "verif_c08g"}
	forceOps    []*fop
	inlineOp    *fop // the `in` instruction whose body the sub-format is to run
)

func init() {
	interp.RegisterFormat(forceGroup, &decode.Format{
		Description: "verification harness C08: decoder driven by its input bytes (duplicate names, errors, force)",
		DecodeFn: func(d *decode.D) any {
			runForce(d, forceOps, 0)
			return nil
		},
	})
	interp.RegisterFormat(inlineGroup, &decode.Format{
		Description: "verification harness C08: the body of an `in` instruction as a sub-format (for D.Format)",
		DecodeFn: func(d *decode.D) any {
			op := inlineOp
			// the sub-decoder's buffer starts at the body
			runForce(d, op.body, op.bodyAt)
			if op.closed {
				rdRaw(d, []byte{0})
			}
			return nil
		},
	})
}

type forceDesync struct{ why string }

func rdRaw(d *decode.D, raw []byte) {
	for _, want := range raw {
		if got := byte(d.U8()); got != want {
			panic(forceDesync{fmt.Sprintf("read %02x, the parser saw %02x", got, want)})
		}
	}
}

// base: offset in the input of the start of d's buffer (0, or the body of the enclosing `in`)
func runForce(d *decode.D, ops []*fop, base int) {
	for _, op := range ops {
		if op.kind == "eof" {
			for {
				d.U8() // the input ends inside this instruction: IOPanic
			}
		}
		rdRaw(d, op.raw)
		switch op.kind {
		case "u8":
			if got := d.FieldU8(op.name); byte(got) != op.v {
				panic(forceDesync{"FieldU8 value"})
			}
		case "val":
			d.FieldValueUint(op.name, uint64(op.v))
		case "st", "ar":
			fn := func(d *decode.D) {
				runForce(d, op.body, base)
				if op.closed {
					rdRaw(d, []byte{0})
				}
			}
			var cd *decode.D
			if op.kind == "st" {
				cd = d.FieldStruct(op.name, fn)
			} else {
				cd = d.FieldArray(op.name, fn)
			}
			// the body read through its own decode.D sharing the bit reader: nothing to re-synchronise
			_ = cd
		case "in":
			inlineOp = op
			d.Format(inlineGroup, nil)
			// D.Format moves on by the range of the sub-decoder's FIELDS; the instruction bytes it read besides
			// them (opcodes, the closing end) are skipped here
			d.SeekAbs(int64(op.endAt-base) * 8)
		case "errorf":
			d.Errorf("verif_c08f: recorded error")
		case "fatalf":
			d.Fatalf("verif_c08f: fatal error")
		case "as":
			d.FieldU8(op.name, d.UintAssert(uint64(op.e)))
		case "rm":
			if cp, ok := d.Value.V.(*decode.Compound); ok && !cp.IsArray {
				if v, ok := cp.ByName[op.name]; ok {
					if err := v.Remove(); err != nil {
						d.Fatalf("verif_c08f: remove: %v", err)
					}
				}
			}
		}
	}
}

// the `end` instruction that closes a body has opcode low nibble 0 but any high nibble: rdRaw(…, 0)
// above would desync on e.g. 0x10. The parser therefore records the closing byte.
// (kept simple: generated programs use 0x00; random bytes with low nibble 0 are rewritten to 0x00)
func normProg(b []byte) []byte {
	o := append([]byte(nil), b...)
	pos := 0
	var walk func()
	walk = func() {
		for pos < len(o) {
			kind := opKinds[o[pos]&0x0f]
			if kind == "end" {
				o[pos] = 0
				pos++
				return
			}
			need := map[string]int{"u8": 2, "val": 2, "st": 1, "ar": 1, "in": 0, "errorf": 0, "fatalf": 0, "as": 3, "rm": 1}[kind]
			pos += 1 + need
			if kind == "st" || kind == "ar" || kind == "in" {
				walk()
			}
		}
	}
	for pos < len(o) {
		walk() // an `end` at the root ends the program for the parser; keep normalising the rest anyway
	}
	return o
}

// decodeForce: decode the program bytes with the format, forced or not
func decodeForce(prog []byte, force bool) (dv *decode.Value, status string) {
	forceOps = parseProg(prog)
	var err error
	why, panicked := hlib.Catch(func() string {
		dv, _, err = decode.Decode(context.Background(), bitio.NewBitReader(prog, -1), forceGroup, decode.Options{IsRoot: true, Force: force})
		return ""
	})
	switch {
	case panicked:
		if strings.Contains(why, "forceDesync") || strings.Contains(why, "the parser saw") {
			return nil, "harness-desync"
		}
		return nil, "panic"
	case dv == nil:
		return nil, "no-value"
	case err != nil || dv.Err != nil:
		return dv, "stop"
	}
	return dv, "done"
}

func serCT(sb *strings.Builder, v *decode.Value) {
	switch vv := v.V.(type) {
	case *decode.Compound:
		if vv.IsArray {
			fmt.Fprintf(sb, "A%d", len(vv.Children))
			for _, c := range vv.Children {
				sb.WriteByte(' ')
				serCT(sb, c)
			}
			return
		}
		fmt.Fprintf(sb, "S%d", len(vv.Children))
		for _, c := range vv.Children {
			sb.WriteString(" " + hx([]byte(c.Name)) + " ")
			serCT(sb, c)
		}
		ks := make([]string, 0, len(vv.ByName))
		for k := range vv.ByName {
			ks = append(ks, k)
		}
		sort.Strings(ks)
		fmt.Fprintf(sb, " B%d", len(ks))
		for _, k := range ks {
			idx := -1
			for i, c := range vv.Children {
				if c == vv.ByName[k] {
					idx = i
				}
			}
			fmt.Fprintf(sb, " %s %d", hx([]byte(k)), idx)
		}
	case *scalar.Uint:
		fmt.Fprintf(sb, "u%d", vv.Actual)
		if vv.Flags.IsSynthetic() {
			sb.WriteByte('y')
		} else {
			sb.WriteByte('.')
		}
	default:
		fmt.Fprintf(sb, "?%T", v.V)
	}
}

func forceNotes(prog []byte, force bool) string {
	f := 0
	if force {
		f = 1
	}
	return fmt.Sprintf("@prog:%s @force:%d", hx(prog), f)
}

// allNodesIdx: like allNodes, but every step of a path is an index into Children (two members of a
// struct may have one name in a tree that breaks the invariant)
func allNodesIdx(root *decode.Value, limit int) []nodeRef {
	var out []nodeRef
	var rec func(v *decode.Value, path []any)
	rec = func(v *decode.Value, path []any) {
		if len(out) >= limit {
			return
		}
		out = append(out, nodeRef{v, append([]any(nil), path...)})
		if c, ok := v.V.(*decode.Compound); ok {
			for i, k := range c.Children {
				rec(k, append(path, i))
			}
		}
	}
	rec(root, nil)
	return out
}

// forceCase: the F line for (prog, force); returns the tree
func (c *ctxT) forceCase(prog []byte, force bool) *decode.Value {
	dv, status := decodeForce(prog, force)
	var op, obs strings.Builder
	f := 0
	if force {
		f = 1
	}
	fmt.Fprintf(&op, "F @prog:%s force=%d", hx(prog), f)
	progText(&op, forceOps)
	obs.WriteString(status)
	if dv != nil {
		obs.WriteByte(' ')
		serCT(&obs, dv)
	}
	c.o.Case(op.String(), obs.String())
	c.o.Class("F:" + op.String())
	c.o.Stat("force_decodes", 1)
	if status == "stop" {
		c.o.Stat("force_decodes_stopped", 1)
	}
	return dv
}

// forceValues: M / Q / ! / S cases for every value of the tree whose text was not seen before in this run
func (c *ctxT) forceValues(prog []byte, force bool, dv *decode.Value, seen map[string]bool) {
	tr := tree{root: dv, notes: forceNotes(prog, force)}
	c.structProbe(tr, dv, 1000)
	for _, nr := range allNodesIdx(dv, 200) {
		var sb strings.Builder
		if err := serDV(&sb, nr.v, nil, &serStats{}); err != nil {
			continue
		}
		if seen[sb.String()] {
			continue
		}
		seen[sb.String()] = true
		c.valueCases(tr, nr, true)
		c.o.Stat("force_values", 1)
	}
}

func bc(ops ...[]byte) []byte {
	var o []byte
	for _, x := range ops {
		o = append(o, x...)
	}
	return o
}

func nameIdx(n string) byte {
	for i, x := range forceNames {
		if x == n {
			return byte(i)
		}
	}
	panic("no such name " + n)
}

func bU8(n string, v byte) []byte      { return []byte{1, nameIdx(n), v} }
func bVal(n string, v byte) []byte     { return []byte{2, nameIdx(n), v} }
func bSt(n string, b ...[]byte) []byte { return bc([]byte{3, nameIdx(n)}, bc(b...), []byte{0}) }
func bAr(n string, b ...[]byte) []byte { return bc([]byte{4, nameIdx(n)}, bc(b...), []byte{0}) }
func bAs(n string, e, v byte) []byte   { return []byte{7, nameIdx(n), e, v} }
func bRm(n string) []byte              { return []byte{8, nameIdx(n)} }
func bIn(b ...[]byte) []byte           { return bc([]byte{12}, bc(b...), []byte{0}) }

var bErr, bFatal = []byte{5}, []byte{6}

// the fixed programs: each scenario by hand
func fixedForceProgs() [][]byte {
	return [][]byte{
		// the same name twice in one struct: root, nested, synthetic, struct vs scalar, after a Remove
		bc(bU8("a", 1), bU8("a", 2)),
		bc(bU8("a", 1), bU8("b", 2), bU8("a", 3), bU8("c", 4)),
		bc(bVal("a", 1), bVal("a", 2), bU8("b", 3)),
		bc(bU8("b", 9), bSt("data", bU8("a", 1), bU8("a", 2), bU8("c", 3)), bU8("c", 4)),
		bc(bSt("a", bU8("b", 1)), bU8("a", 2), bU8("c", 3)),
		bc(bU8("a", 1), bSt("a", bU8("b", 2)), bU8("c", 3)),
		bc(bSt("a", bU8("b", 1)), bSt("a", bU8("c", 2)), bAr("a", bU8("a", 3))),
		bc(bU8("a", 1), bRm("a"), bU8("a", 2), bU8("a", 3)),
		bc(bU8("a", 1), bU8("b", 2), bRm("a"), bRm("a"), bU8("a", 3), bRm("b"), bU8("b", 4), bU8("b", 5)),
		// arrays do not index by name
		bc(bAr("data", bU8("a", 1), bU8("a", 2), bSt("a", bU8("b", 3), bU8("b", 4)), bU8("a", 5)), bU8("c", 6)),
		// names equal to `_` extra keys, the empty name, a gap name — once and twice
		bc(bU8("_format", 1), bU8("_error", 2), bU8("_start", 3), bU8("_len", 4), bU8("_name", 5), bU8("", 6), bU8("gap0", 7)),
		bc(bU8("_format", 1), bU8("_format", 2)),
		bc(bU8("", 1), bU8("", 2), bU8("a", 3)),
		bc(bSt("_root", bU8("_parent", 1), bSt("", bU8("", 2)), bU8("_parent", 3)), bU8("_error", 4)),
		bc(bU8("_actual", 1), bU8("_sym", 2), bU8("_gap", 3), bU8("_x", 4), bU8("_x", 5)),
		// a recorded error, then more fields (forced only)
		bc(bU8("a", 1), bErr, bU8("b", 2), bU8("c", 3)),
		bc(bU8("a", 1), bErr, bU8("a", 2), bU8("c", 3)),
		bc(bSt("data", bU8("a", 1), bErr, bU8("b", 2)), bErr, bU8("c", 3), bSt("data", bU8("a", 4))),
		// failing assertion: the field is added only when forced
		bc(bAs("a", 5, 6), bU8("b", 1), bAs("a", 7, 7)),
		bc(bU8("a", 1), bAs("a", 5, 6), bU8("b", 2)),
		bc(bAs("b", 1, 1), bAs("b", 2, 2), bAs("c", 3, 4), bAs("c", 5, 5)),
		// Fatalf and a read beyond the end: partial structs
		bc(bU8("a", 1), bSt("data", bU8("b", 2), bFatal, bU8("c", 3)), bU8("c", 4)),
		bc(bSt("data", bSt("a", bU8("b", 1), []byte{1, 0})), nil),
		bc(bAr("b", bSt("a", bU8("a", 1), bU8("b", 2), []byte{7, 1, 2}))),
		// D.Format: the members of a sub-decoder are merged into the current struct, one AddChild each
		bc(bU8("a", 1), bIn(bU8("b", 2), bU8("c", 3)), bU8("data", 4)),
		bc(bU8("a", 1), bIn(bU8("b", 2), bU8("a", 3), bU8("c", 4)), bU8("data", 5)),
		bc(bIn(bU8("a", 1), bU8("a", 2)), bU8("b", 3)),
		bc(bU8("c", 1), bIn(bU8("a", 2), bErr, bU8("b", 3)), bIn(bU8("b", 4), bFatal), bU8("data", 5)),
		bc(bSt("data", bIn(bSt("a", bU8("b", 1)), bU8("_format", 2)), bIn(bVal("", 3), bU8("a", 4))), bAr("b", bIn(bU8("a", 5), bU8("a", 6)))),
		bc(bIn(bIn(bU8("a", 1), bRm("a"), bU8("a", 2)), bU8("b", 3)), bU8("a", 4)),
		[]byte{3, 3, 3, 0, 3, 1, 1, 1},
		{},
		{0},
	}
}

func randForceProg(r *hlib.Rand) []byte {
	// structured random program with a small name pool (duplicates are likely), then normalised
	names := []byte{0, 0, 1, 2, 3, byte(r.Intn(len(forceNames))), byte(r.Intn(len(forceNames)))}
	var gen func(depth int) []byte
	gen = func(depth int) []byte {
		var o []byte
		n := r.Range(1, 5)
		for i := 0; i < n; i++ {
			nm := names[r.Intn(len(names))]
			switch k := r.Intn(20); {
			case k < 6:
				o = append(o, 1, nm, byte(r.Intn(8)))
			case k < 8:
				o = append(o, 2, nm, byte(r.Intn(8)))
			case k < 11 && depth < 3:
				o = append(o, 3, nm)
				o = append(o, gen(depth+1)...)
				if r.Intn(8) != 0 {
					o = append(o, 0)
				}
			case k < 12 && depth < 3:
				if r.Intn(2) == 0 {
					o = append(o, 12)
				} else {
					o = append(o, 4, nm)
				}
				o = append(o, gen(depth+1)...)
				o = append(o, 0)
			case k < 14:
				o = append(o, 5)
			case k < 15:
				o = append(o, 6)
			case k < 17:
				e := byte(r.Intn(3))
				o = append(o, 7, nm, e, byte(r.Intn(3)))
			case k < 19:
				o = append(o, 8, nm)
			default:
				o = append(o, 1, nm, byte(r.Intn(8)))
			}
		}
		return o
	}
	p := gen(0)
	if r.Intn(6) == 0 && len(p) > 1 {
		p = p[:r.Intn(len(p))] // the input ends early
	}
	if r.Intn(5) == 0 {
		p = r.Bytes(r.Range(1, 24)) // raw bytes
	}
	return normProg(p)
}

func (c *ctxT) forceCases(thorough bool) {
	seen := map[string]bool{}
	c.nSys, c.nRand, c.nExt = 40, 4, 8
	nRandValues, nRandShape := 40, 4000
	if thorough {
		c.nSys, c.nRand, c.nExt = 0, 15, 30
		nRandValues, nRandShape = 400, 200000
	}
	both := func(p []byte, values bool) {
		var first string
		for _, force := range []bool{false, true} {
			dv := c.forceCase(p, force)
			if dv == nil || !values {
				continue
			}
			var sb strings.Builder
			serCT(&sb, dv)
			if force && sb.String() == first {
				continue // the forced decode built the same tree
			}
			first = sb.String()
			c.forceValues(p, force, dv, seen)
		}
	}
	for _, p := range fixedForceProgs() {
		both(normProg(p), true)
	}
	for i := 0; i < nRandValues; i++ {
		both(randForceProg(c.r), true)
	}
	// shapes only (F lines: both indexes of every struct against the model; no interpreter runs)
	for i := 0; i < nRandShape; i++ {
		both(randForceProg(c.r), false)
	}
	c.o.Stat("force_programs", len(fixedForceProgs())+nRandValues+nRandShape)
	c.o.Sample("F @prog:010001010002 force=1 u8 61 1 u8 61 2")
}


// ---------------------------------------------------------------- a real format whose member names come from the input

// avro_ocf decodes a record as d.FieldStruct with one field per schema field, named by the schema
// (format/avro/decoders/record.go:44-49): the input chooses the names. Generated object container
// files: record schemas whose field names repeat, equal `_` extra keys, are empty; nested records; each
// decoded unforced and forced (`decode("avro_ocf"; {force: true})`).
//
//	notes of the M / Q / ! / S cases: `@fmt:<format> @bytes:<hex of the input> @force:<0|1>`

type avroField struct {
	name   string
	typ    string       // "long" | "string" | "record"
	fields []*avroField // record
}

func zigzag(n int64) []byte {
	u := uint64((n << 1) ^ (n >> 63))
	var o []byte
	for u >= 0x80 {
		o = append(o, byte(u)|0x80)
		u >>= 7
	}
	return append(o, byte(u))
}

func avroBytes(s string) []byte { return append(zigzag(int64(len(s))), s...) }

func jsonStr(s string) string {
	var sb strings.Builder
	sb.WriteByte('"')
	for _, r := range s {
		switch {
		case r == '"' || r == '\\':
			sb.WriteByte('\\')
			sb.WriteRune(r)
		case r < 0x20:
			fmt.Fprintf(&sb, "\\u%04x", r)
		default:
			sb.WriteRune(r)
		}
	}
	sb.WriteByte('"')
	return sb.String()
}

func avroSchema(sb *strings.Builder, name string, fields []*avroField, n *int) {
	*n++
	fmt.Fprintf(sb, `{"type":"record","name":"r%d","fields":[`, *n)
	for i, f := range fields {
		if i > 0 {
			sb.WriteByte(',')
		}
		fmt.Fprintf(sb, `{"name":%s,"type":`, jsonStr(f.name))
		if f.typ == "record" {
			avroSchema(sb, f.name, f.fields, n)
		} else {
			sb.WriteString(jsonStr(f.typ))
		}
		sb.WriteByte('}')
	}
	sb.WriteString("]}")
}

func avroRecord(fields []*avroField, seq *int64) []byte {
	var o []byte
	for _, f := range fields {
		*seq++
		switch f.typ {
		case "long":
			o = append(o, zigzag(*seq)...)
		case "string":
			o = append(o, avroBytes(fmt.Sprintf("s%d", *seq))...)
		case "record":
			o = append(o, avroRecord(f.fields, seq)...)
		}
	}
	return o
}

func avroFile(fields []*avroField, records int) []byte {
	var sch strings.Builder
	n := 0
	avroSchema(&sch, "r", fields, &n)
	sync := []byte{0, 1, 2, 3, 4, 5, 6, 7, 8, 9, 10, 11, 12, 13, 14, 15}
	o := []byte{'O', 'b', 'j', 1}
	o = append(o, zigzag(2)...)
	o = append(o, avroBytes("avro.schema")...)
	o = append(o, avroBytes(sch.String())...)
	o = append(o, avroBytes("avro.codec")...)
	o = append(o, avroBytes("null")...)
	o = append(o, 0)
	o = append(o, sync...)
	var data []byte
	seq := int64(0)
	for i := 0; i < records; i++ {
		data = append(data, avroRecord(fields, &seq)...)
	}
	o = append(o, zigzag(int64(records))...)
	o = append(o, zigzag(int64(len(data)))...)
	o = append(o, data...)
	return append(o, sync...)
}

func decodeBytesFmt(format string, b []byte, force bool) *decode.Value {
	g, err := interp.DefaultRegistry.Group(format)
	if err != nil {
		return nil
	}
	var dv *decode.Value
	_, _ = hlib.Catch(func() string {
		ctx, cancel := context.WithTimeout(context.Background(), 10*time.Second)
		defer cancel()
		dv, _, _ = decode.Decode(ctx, bitio.NewBitReader(b, -1), g, decode.Options{IsRoot: true, FillGaps: true, Force: force})
		return ""
	})
	return dv
}

func bytesNotes(format string, b []byte, force bool) string {
	f := 0
	if force {
		f = 1
	}
	return fmt.Sprintf("@fmt:%s @bytes:%s @force:%d", format, hx(b), f)
}

// bytesCases: S for every struct, M / Q / ! for every small value of the tree not seen before
func (c *ctxT) bytesCases(format string, b []byte, force bool, seen map[string]bool, perTree int) {
	dv := decodeBytesFmt(format, b, force)
	c.o.Stat("format_decodes", 1)
	if force {
		c.o.Stat("format_decodes_forced", 1)
	}
	if dv == nil {
		c.o.Stat("format_decodes_no_value", 1)
		return
	}
	if dv.Err != nil {
		c.o.Stat("format_decodes_partial", 1)
	}
	tr := tree{root: dv, notes: bytesNotes(format, b, force)}
	c.structProbe(tr, dv, 5000)
	memo := map[*decode.Value]int{}
	n := 0
	nodes := allNodesIdx(dv, 5000)
	for i := len(nodes) - 1; i >= 0; i-- { // last first: what the format built from the payload, before its header
		nr := nodes[i]
		if n >= perTree {
			break
		}
		cp, isCompound := nr.v.V.(*decode.Compound)
		if !isCompound || subtreeSize(nr.v, memo) > 40 || len(cp.Children) == 0 {
			continue // leaves are covered by the gen/corpus runs; here: the compounds a format builds
		}
		var sb strings.Builder
		if err := serDV(&sb, nr.v, nil, &serStats{}); err != nil || seen[sb.String()] {
			continue
		}
		seen[sb.String()] = true
		n++
		c.valueCases(tr, nr, true)
		c.o.Stat("format_values", 1)
	}
}

var avroNames = []string{"a", "a", "b", "c", "_format", "_error", "_len", "", "x y", "data"}

func randAvroFields(r *hlib.Rand, depth int) []*avroField {
	n := r.Range(1, 4)
	fs := make([]*avroField, n)
	for i := range fs {
		f := &avroField{name: avroNames[r.Intn(len(avroNames))], typ: "long"}
		switch k := r.Intn(6); {
		case k == 0:
			f.typ = "string"
		case k == 1 && depth < 2:
			f.typ = "record"
			f.fields = randAvroFields(r, depth+1)
		}
		fs[i] = f
	}
	return fs
}

func (c *ctxT) avroCases(thorough bool) {
	seen := map[string]bool{}
	L := func(n string) *avroField { return &avroField{name: n, typ: "long"} }
	S := func(n string) *avroField { return &avroField{name: n, typ: "string"} }
	R := func(n string, fs ...*avroField) *avroField { return &avroField{name: n, typ: "record", fields: fs} }
	fixed := [][]*avroField{
		{L("a"), L("b")},
		{L("a"), L("a")},
		{L("a"), S("b"), L("a"), L("c")},
		{L("_format"), L("_error"), S("_len"), L("")},
		{L("_format"), L("_format")},
		{L(""), L("")},
		{L("b"), R("data", L("a"), L("a"), L("c")), L("c")},
		{R("a", L("b")), L("a")},
		{L("a"), R("a", L("b")), L("c")},
	}
	nRand := 10
	if thorough {
		nRand = 150
	}
	for i := 0; i < nRand; i++ {
		fixed = append(fixed, randAvroFields(c.r, 0))
	}
	for i, fs := range fixed {
		b := avroFile(fs, 1+i%2)
		for _, force := range []bool{false, true} {
			c.bytesCases("avro_ocf", b, force, seen, 5)
		}
	}
	c.o.Stat("avro_files", len(fixed))
}
