//go:build verif

package main

import (
	"encoding/hex"
	"fmt"
	"math"
	"math/big"
	"sort"
	"strconv"
	"strings"

	"github.com/wader/fq/internal/verifharness/hlib"
	"github.com/wader/fq/pkg/bitio"
	"github.com/wader/fq/pkg/decode"
	"github.com/wader/fq/pkg/interp"
	"github.com/wader/fq/pkg/scalar"
)

// Node is the specification of one generated decode tree node. The harness-registered formats
// verif_c08 (struct root) / verif_c08a (array root) build exactly this tree with the public
// decode.D API; scalars are either read from input bits or added as synthetic values.
type Node struct {
	Kind  byte // 's' struct, 'a' array, scalars: 'u' 'i' 'b' 'f' 't' 'B' 'j' 'r'
	Name  string
	Kids  []*Node
	U     uint64
	I     int64
	Big   *big.Int
	F     float64
	Str   string
	Bool  bool
	J     any
	Raw   []byte
	RawN  int64 // bits
	Sym   any
	Synth bool
	// compound only
	Nested   bool   // decoded from its own buffer with FieldFormatBitBuf (a nested root)
	TrailGap []byte // root only: bytes after the last field that no field reads (-> gap0)
	isRoot   bool
	bufBits  int64 // roots and nested roots: size of their buffer
	start    int64
}

func (n *Node) compound() bool { return n.Kind == 's' || n.Kind == 'a' }

// hasLeaf: some scalar below (within the same buffer)
func (n *Node) hasLeaf() bool {
	for _, k := range n.Kids {
		if !k.compound() {
			return true
		}
		if !k.Nested && k.hasLeaf() {
			return true
		}
	}
	return false
}

// ------------------------------------------------------------------ Go representation of integers

// goInt chooses the Go type an integer is given to fq in, as a function of the value only
// (so that a case line replays): int | int64 | uint64 | *big.Int.
func goInt(b *big.Int) any {
	if !b.IsInt64() {
		if b.IsUint64() {
			return b.Uint64()
		}
		return new(big.Int).Set(b)
	}
	i := b.Int64()
	a := i
	if a < 0 {
		a = -a
	}
	switch a % 4 {
	case 0:
		return int(i)
	case 1:
		return i
	case 2:
		if i >= 0 {
			return uint64(i)
		}
		return i
	}
	return new(big.Int).Set(b)
}

// goJSON turns a parsed JV (ints as *big.Int) into the Go value given to fq: the Go type of a
// top-level integer varies (makeDecodeValueOut accepts int, int64, uint64, *big.Int); inside
// containers only gojq's own value types are allowed (int if it fits, else *big.Int)
func goJSON(v any) any {
	switch v := v.(type) {
	case *big.Int:
		return goInt(v)
	case []any, map[string]any:
		return goJSONNorm(v)
	}
	return v
}

// ------------------------------------------------------------------ bit writer / input encoding

type bitw struct {
	b []byte
	n int64
}

func (w *bitw) bit(x bool) {
	if w.n%8 == 0 {
		w.b = append(w.b, 0)
	}
	if x {
		w.b[w.n/8] |= 0x80 >> uint(w.n%8)
	}
	w.n++
}
func (w *bitw) bits(b []byte, n int64) {
	for i := int64(0); i < n; i++ {
		w.bit(b[i/8]&(0x80>>uint(i%8)) != 0)
	}
}
func (w *bitw) u64(x uint64) {
	for i := 63; i >= 0; i-- {
		w.bit(x>>uint(i)&1 == 1)
	}
}

const bigBits = 136

func (n *Node) encode(w *bitw) {
	n.start = w.n
	switch n.Kind {
	case 's', 'a':
		if n.Nested {
			return // TryFieldFormatBitBuf: dv.Range.Start = d.Pos() of the parent
		}
		first := true
		pos := w.n
		for _, k := range n.Kids {
			k.encode(w)
			if k.compound() && k.Nested {
				continue
			}
			if !k.compound() && k.Synth {
				continue
			}
			if first {
				n.start = k.start
				first = false
			} else if k.start < n.start {
				n.start = k.start
			}
		}
		if first {
			n.start = pos
		}
	default:
		if n.Synth {
			return
		}
		switch n.Kind {
		case 'u':
			w.u64(n.U)
		case 'i':
			w.u64(uint64(n.I))
		case 'b':
			// two's complement, bigBits wide
			m := new(big.Int).Lsh(big.NewInt(1), bigBits)
			x := new(big.Int).Set(n.Big)
			if x.Sign() < 0 {
				x.Add(x, m)
			}
			bs := x.FillBytes(make([]byte, bigBits/8))
			w.bits(bs, bigBits)
		case 'f':
			w.u64(math.Float64bits(n.F))
		case 't':
			w.bits([]byte(n.Str), int64(len(n.Str))*8)
		case 'B':
			w.bit(n.Bool)
		case 'r':
			w.bits(n.Raw, n.RawN)
		default:
			panic("non-synthetic scalar of kind " + string(n.Kind))
		}
	}
}

// ------------------------------------------------------------------ the registered formats

var (
	genStruct = &decode.Group{Name: "verif_c08"}
	genArray  = &decode.Group{Name: "verif_c08a"}
	curSpec   *Node
)

func init() {
	interp.RegisterFormat(genStruct, &decode.Format{
		Description: "verification harness C08: tree given by a specification (struct root)",
		DecodeFn:    func(d *decode.D) any { decodeKids(d, curSpec); return nil },
	})
	interp.RegisterFormat(genArray, &decode.Format{
		Description: "verification harness C08: tree given by a specification (array root)",
		RootArray:   true,
		DecodeFn:    func(d *decode.D) any { decodeKids(d, curSpec); return nil },
	})
}

func decodeKids(d *decode.D, n *Node) {
	for i, k := range n.Kids {
		name := k.Name
		if n.Kind == 'a' {
			name = "e" + strconv.Itoa(i)
		}
		switch k.Kind {
		case 's', 'a':
			if k.Nested {
				w := &bitw{}
				sub := *k
				sub.Nested = false
				sub.encode(w)
				for j := range k.Kids {
					k.Kids[j].start = sub.Kids[j].start
				}
				w.bits(k.TrailGap, int64(len(k.TrailGap))*8)
				k.bufBits = w.n
				g := genStruct
				if k.Kind == 'a' {
					g = genArray
				}
				saved := curSpec
				curSpec = k
				d.FieldFormatBitBuf(name, bitio.NewBitReader(w.b, w.n), g, nil)
				curSpec = saved
			} else if k.Kind == 's' {
				d.FieldStruct(name, func(d *decode.D) { decodeKids(d, k) })
			} else {
				d.FieldArray(name, func(d *decode.D) { decodeKids(d, k) })
			}
		case 'u':
			var ms []scalar.UintMapper
			if k.Sym != nil {
				ms = append(ms, scalar.UintSym(k.Sym))
			}
			if k.Synth {
				d.FieldValueUint(name, k.U, ms...)
			} else {
				d.FieldU64(name, ms...)
			}
		case 'i':
			var ms []scalar.SintMapper
			if k.Sym != nil {
				ms = append(ms, scalar.SintSym(k.Sym))
			}
			if k.Synth {
				d.FieldValueSint(name, k.I, ms...)
			} else {
				d.FieldS64(name, ms...)
			}
		case 'b':
			var ms []scalar.BigIntMapper
			if k.Sym != nil {
				ms = append(ms, scalar.BigIntSym(k.Sym))
			}
			if k.Synth {
				d.FieldValueBigInt(name, new(big.Int).Set(k.Big), ms...)
			} else {
				d.FieldSBigInt(name, bigBits, ms...)
			}
		case 'f':
			var ms []scalar.FltMapper
			if k.Sym != nil {
				ms = append(ms, scalar.FltSym(k.Sym))
			}
			if k.Synth {
				d.FieldValueFlt(name, k.F, ms...)
			} else {
				d.FieldF64(name, ms...)
			}
		case 't':
			var ms []scalar.StrMapper
			if k.Sym != nil {
				ms = append(ms, scalar.StrSym(k.Sym))
			}
			if k.Synth {
				d.FieldValueStr(name, k.Str, ms...)
			} else {
				d.FieldUTF8(name, len(k.Str), ms...)
			}
		case 'B':
			var ms []scalar.BoolMapper
			if k.Sym != nil {
				ms = append(ms, scalar.BoolSym(k.Sym))
			}
			if k.Synth {
				d.FieldValueBool(name, k.Bool, ms...)
			} else {
				d.FieldBool(name, ms...)
			}
		case 'j':
			var ms []scalar.AnyMapper
			if k.Sym != nil {
				ms = append(ms, scalar.AnySym(k.Sym))
			}
			d.FieldValueAny(name, k.J, ms...)
		case 'r':
			var ms []scalar.BitBufMapper
			if k.Sym != nil {
				ms = append(ms, scalar.BitBufSym(k.Sym))
			}
			if k.Synth {
				d.FieldValueBitBuf(name, bitio.NewBitReader(k.Raw, k.RawN), ms...)
			} else {
				d.FieldRawLen(name, k.RawN, ms...)
			}
		}
	}
}

// ------------------------------------------------------------------ DV text of a specification

func symText(sb *strings.Builder, sym any) {
	if sym == nil {
		sb.WriteString(" -")
		return
	}
	sb.WriteString(" = ")
	if err := serJV(sb, sym, nil); err != nil {
		panic(err)
	}
}

func padBits(b []byte, n int64) []byte {
	o := make([]byte, (n+7)/8)
	copy(o, b)
	if n%8 != 0 {
		o[len(o)-1] &= byte(0xff << uint(8-n%8))
	}
	return o
}

// dvText: the expected serialisation of the decoded tree (struct children stably sorted by their
// range start, as decode.Value.postProcess does; the root's unread trailing bytes appear as gap0)
func (n *Node) dvText(sb *strings.Builder) {
	switch n.Kind {
	case 's', 'a':
		kids := append([]*Node(nil), n.Kids...)
		if n.Kind == 's' {
			sort.SliceStable(kids, func(i, j int) bool { return kids[i].start < kids[j].start })
		}
		cnt := len(kids)
		// FillGaps: a buffer in which no leaf has a non-empty range is one gap, also when the buffer is empty
		zeroGap := (n.isRoot || n.Nested) && n.bufBits == 0
		if len(n.TrailGap) > 0 || zeroGap {
			cnt++
		}
		fmt.Fprintf(sb, "%c%d", n.Kind, cnt)
		for _, k := range kids {
			if n.Kind == 's' {
				sb.WriteString(" " + hx([]byte(k.Name)))
			}
			sb.WriteByte(' ')
			k.dvText(sb)
		}
		if len(n.TrailGap) > 0 || zeroGap {
			if n.Kind == 's' {
				sb.WriteString(" " + hx([]byte("gap0")))
			}
			fmt.Fprintf(sb, " r%s/%d - .", hx(n.TrailGap), len(n.TrailGap)*8)
		}
		return
	case 'u':
		fmt.Fprintf(sb, "u%d", n.U)
	case 'i':
		fmt.Fprintf(sb, "i%d", n.I)
	case 'b':
		sb.WriteString("b" + n.Big.String())
	case 'f':
		sb.WriteString("f" + floatTok(n.F)[1:])
	case 't':
		sb.WriteString("t" + hx([]byte(n.Str)))
	case 'B':
		if n.Bool {
			sb.WriteString("B1")
		} else {
			sb.WriteString("B0")
		}
	case 'j':
		sb.WriteString("j ")
		if err := serJV(sb, n.J, nil); err != nil {
			panic(err)
		}
	case 'r':
		fmt.Fprintf(sb, "r%s/%d", hx(padBits(n.Raw, n.RawN)), n.RawN)
	}
	symText(sb, n.Sym)
	if n.Synth {
		sb.WriteString(" y")
	} else {
		sb.WriteString(" .")
	}
}

// ------------------------------------------------------------------ parsing DV text back (replay)

type toks struct {
	w []string
	i int
}

func (t *toks) next() (string, error) {
	if t.i >= len(t.w) {
		return "", fmt.Errorf("unexpected end of tokens")
	}
	t.i++
	return t.w[t.i-1], nil
}

func unhx(s string) ([]byte, error) {
	if s == "-" {
		return nil, nil
	}
	return hex.DecodeString(s)
}

// parseJV: ints as *big.Int
func parseJV(t *toks) (any, error) {
	w, err := t.next()
	if err != nil {
		return nil, err
	}
	switch {
	case w == "N":
		return nil, nil
	case w == "T":
		return true, nil
	case w == "F":
		return false, nil
	case w[0] == 'I':
		b, ok := new(big.Int).SetString(w[1:], 10)
		if !ok {
			return nil, fmt.Errorf("bad int %q", w)
		}
		return b, nil
	case w[0] == 'D':
		u, err := strconv.ParseUint(w[1:], 16, 64)
		if err != nil {
			return nil, err
		}
		return math.Float64frombits(u), nil
	case w[0] == 'S':
		b, err := unhx(w[1:])
		return string(b), err
	case w[0] == 'A':
		n, err := strconv.Atoi(w[1:])
		if err != nil {
			return nil, err
		}
		o := make([]any, n)
		for i := range o {
			if o[i], err = parseJV(t); err != nil {
				return nil, err
			}
		}
		return o, nil
	case w[0] == 'O':
		n, err := strconv.Atoi(w[1:])
		if err != nil {
			return nil, err
		}
		o := map[string]any{}
		for i := 0; i < n; i++ {
			kw, err := t.next()
			if err != nil {
				return nil, err
			}
			k, err := unhx(kw)
			if err != nil {
				return nil, err
			}
			if o[string(k)], err = parseJV(t); err != nil {
				return nil, err
			}
		}
		return o, nil
	}
	return nil, fmt.Errorf("bad JV token %q", w)
}

func parseDV(t *toks) (*Node, error) {
	w, err := t.next()
	if err != nil {
		return nil, err
	}
	n := &Node{Kind: w[0]}
	switch w[0] {
	case 's', 'a':
		cnt, err := strconv.Atoi(w[1:])
		if err != nil {
			return nil, err
		}
		for i := 0; i < cnt; i++ {
			name := ""
			if w[0] == 's' {
				nw, err := t.next()
				if err != nil {
					return nil, err
				}
				b, err := unhx(nw)
				if err != nil {
					return nil, err
				}
				name = string(b)
			}
			k, err := parseDV(t)
			if err != nil {
				return nil, err
			}
			k.Name = name
			n.Kids = append(n.Kids, k)
		}
		return n, nil
	case 'u':
		n.U, err = strconv.ParseUint(w[1:], 10, 64)
	case 'i':
		n.I, err = strconv.ParseInt(w[1:], 10, 64)
	case 'b':
		var ok bool
		n.Big, ok = new(big.Int).SetString(w[1:], 10)
		if !ok {
			err = fmt.Errorf("bad big %q", w)
		}
	case 'f':
		var u uint64
		u, err = strconv.ParseUint(w[1:], 16, 64)
		n.F = math.Float64frombits(u)
	case 't':
		var b []byte
		b, err = unhx(w[1:])
		n.Str = string(b)
	case 'B':
		n.Bool = w == "B1"
	case 'j':
		var j any
		j, err = parseJV(t)
		n.J = goJSON(j)
	case 'r':
		parts := strings.SplitN(w[1:], "/", 2)
		if len(parts) != 2 {
			return nil, fmt.Errorf("bad raw token %q", w)
		}
		n.Raw, err = unhx(parts[0])
		if err == nil {
			n.RawN, err = strconv.ParseInt(parts[1], 10, 64)
		}
	default:
		return nil, fmt.Errorf("bad DV token %q", w)
	}
	if err != nil {
		return nil, err
	}
	sw, err := t.next()
	if err != nil {
		return nil, err
	}
	if sw == "=" {
		j, err := parseJV(t)
		if err != nil {
			return nil, err
		}
		n.Sym = goJSON(j)
	} else if sw != "-" {
		return nil, fmt.Errorf("bad sym token %q", sw)
	}
	fw, err := t.next()
	if err != nil {
		return nil, err
	}
	n.Synth = fw == "y"
	// what cannot be read from bits is synthetic
	if n.Kind == 'j' {
		n.Synth = true
	}
	return n, nil
}

// ------------------------------------------------------------------ catalogue and random trees

func bigOf(s string) *big.Int {
	b, ok := new(big.Int).SetString(s, 10)
	if !ok {
		panic(s)
	}
	return b
}

// every scalar kind with boundary contents (no symbol)
func scalarCatalogue() []*Node {
	var ns []*Node
	for _, synth := range []bool{false, true} {
		for _, u := range []uint64{0, 1, 255, 1 << 63, math.MaxUint64} {
			ns = append(ns, &Node{Kind: 'u', U: u, Synth: synth})
		}
		for _, i := range []int64{0, -1, 7, math.MinInt64, math.MaxInt64} {
			ns = append(ns, &Node{Kind: 'i', I: i, Synth: synth})
		}
		for _, b := range []string{"0", "-1", "5", "18446744073709551617", "-18446744073709551617", "9223372036854775808"} {
			ns = append(ns, &Node{Kind: 'b', Big: bigOf(b), Synth: synth})
		}
		for _, f := range []float64{0, math.Copysign(0, -1), 1.5, -2.25, 3, 1e300, 5e-324, -1e21, math.Inf(1)} {
			ns = append(ns, &Node{Kind: 'f', F: f, Synth: synth})
		}
		for _, s := range []string{"", "a", "héllo", "12", "-5", "1.5", "abc\n\"\\", " €\U0001F600"} {
			ns = append(ns, &Node{Kind: 't', Str: s, Synth: synth})
		}
		for _, b := range []bool{false, true} {
			ns = append(ns, &Node{Kind: 'B', Bool: b, Synth: synth})
		}
		for _, r := range []struct {
			b []byte
			n int64
		}{{nil, 0}, {[]byte("abc"), 24}, {[]byte{0xff, 0x00, 0xfe}, 24}, {[]byte{0xa0}, 3}, {[]byte{0x41, 0xf0}, 12}, {[]byte{0xc3, 0xa9, 0xc3}, 24}, {[]byte("17"), 16}} {
			ns = append(ns, &Node{Kind: 'r', Raw: r.b, RawN: r.n, Synth: synth})
		}
	}
	// strings that are not valid UTF-8 can only be synthetic (FieldUTF8 converts)
	ns = append(ns, &Node{Kind: 't', Str: "\xff\xfea", Synth: true}, &Node{Kind: 't', Str: "a\xc3", Synth: true})
	// scalar.Any: null and JSON values
	for _, j := range []any{nil, true, 3, int64(-4), uint64(1 << 63), bigOf("18446744073709551617"), 2.5, "s", "",
		[]any{}, []any{1, "a", nil, []any{2.5}}, map[string]any{}, map[string]any{"k": 1},
		map[string]any{"k": []any{map[string]any{"z": nil}}},
		// several keys: Go map iteration order is random, jq lists and visits them sorted
		map[string]any{"e": 1, "d": 2, "c": 3, "b": 4, "a": 5, "f": 6},
		map[string]any{"k9": 1, "k8": "x", "k7": nil, "k6": []any{1}, "k5": 2.5, "k4": true, "k3": 3, "k2": 2, "k1": 1, "k0": map[string]any{"y": 1, "x": 2, "w": 3}}} {
		ns = append(ns, &Node{Kind: 'j', J: j, Synth: true})
	}
	return ns
}

// symbols of each JSON type (and the falsy ones: false, 0, "")
func symCatalogue() []any {
	return []any{true, false, 0, int64(-1), uint64(7), bigOf("18446744073709551617"), 1.5, math.Copysign(0, -1), "", "sym", "42",
		[]any{}, []any{1, "x"}, map[string]any{}, map[string]any{"a": 1}, map[string]any{"q": 1, "p": 2, "o": 3, "n": 4, "m": 5}}
}

// one representative of each scalar kind
func kindReps() []*Node {
	return []*Node{
		{Kind: 'u', U: 5}, {Kind: 'u', U: 0, Synth: true},
		{Kind: 'i', I: -3}, {Kind: 'i', I: 0},
		{Kind: 'b', Big: bigOf("-18446744073709551617")}, {Kind: 'b', Big: bigOf("0"), Synth: true},
		{Kind: 'f', F: -2.5}, {Kind: 'f', F: 0, Synth: true},
		{Kind: 't', Str: "act"}, {Kind: 't', Str: "", Synth: true},
		{Kind: 'B', Bool: true}, {Kind: 'B', Bool: false},
		{Kind: 'j', J: nil, Synth: true}, {Kind: 'j', J: []any{1}, Synth: true},
		{Kind: 'r', Raw: []byte{0xff, 0x41}, RawN: 16}, {Kind: 'r', Raw: nil, RawN: 0},
	}
}

func cloneNode(n *Node) *Node {
	c := *n
	c.Kids = nil
	for _, k := range n.Kids {
		c.Kids = append(c.Kids, cloneNode(k))
	}
	return &c
}

func sortedNames(n int) []string {
	ns := make([]string, n)
	for i := range ns {
		ns[i] = fmt.Sprintf("f%03d", i)
	}
	return ns
}

func structOf(kids []*Node, names []string) *Node {
	s := &Node{Kind: 's'}
	for i, k := range kids {
		c := cloneNode(k)
		c.Name = names[i]
		s.Kids = append(s.Kids, c)
	}
	return s
}

func arrayOf(kids []*Node) *Node {
	a := &Node{Kind: 'a'}
	for _, k := range kids {
		a.Kids = append(a.Kids, cloneNode(k))
	}
	return a
}

// the fixed trees: every scalar kind × boundary contents, every kind × every symbol, shapes
func fixedTrees() []*Node {
	var ts []*Node
	cat := scalarCatalogue()
	ts = append(ts, structOf(cat, sortedNames(len(cat))))
	ts = append(ts, arrayOf(cat))
	reps := kindReps()
	for _, sym := range symCatalogue() {
		var ks []*Node
		for _, r := range reps {
			c := cloneNode(r)
			c.Sym = sym
			ks = append(ks, c)
		}
		ts = append(ts, structOf(ks, sortedNames(len(ks))))
	}
	// shapes: empty roots, nesting, gaps, nested roots, unsorted and awkward names
	u := func(x uint64) *Node { return &Node{Kind: 'u', U: x} }
	named := func(n *Node, name string) *Node { c := cloneNode(n); c.Name = name; return c }
	ts = append(ts,
		&Node{Kind: 's'},
		&Node{Kind: 'a'},
		&Node{Kind: 's', TrailGap: []byte{0xde, 0xad}},
		&Node{Kind: 'a', TrailGap: []byte{0xff}},
		&Node{Kind: 's', Kids: []*Node{named(u(1), "a")}, TrailGap: []byte("xy")},
		&Node{Kind: 'a', Kids: []*Node{u(1), u(2), u(3), u(4), u(5)}},
		&Node{Kind: 's', Kids: []*Node{
			named(&Node{Kind: 's'}, "es"), named(&Node{Kind: 'a'}, "ea"),
			named(&Node{Kind: 'a', Kids: []*Node{{Kind: 'a', Kids: []*Node{u(1), {Kind: 'a'}}}, {Kind: 's', Kids: []*Node{named(u(2), "x")}}}}, "n"),
			named(u(9), "z")}},
		// unsorted names, names needing quoting, a non-extra `_` name and names equal to extra keys
		&Node{Kind: 's', Kids: []*Node{named(u(1), "b"), named(u(2), "a"), named(&Node{Kind: 't', Str: "v"}, "x y"),
			named(u(3), "é"), named(u(4), "0"), named(u(5), "_x"), named(u(6), "_len"), named(&Node{Kind: 's', Kids: []*Node{named(u(7), "_name")}}, "_root")}},
		// nested roots
		&Node{Kind: 's', Kids: []*Node{named(u(1), "a"),
			named(&Node{Kind: 's', Nested: true, Kids: []*Node{named(u(2), "p"), named(&Node{Kind: 'r', Raw: []byte{0xfe}, RawN: 8}, "q")}}, "sub"),
			named(&Node{Kind: 'a', Nested: true, Kids: []*Node{u(3), {Kind: 't', Str: "in"}}, TrailGap: []byte{1}}, "suba"),
			named(u(4), "z")}},
	)
	return ts
}

var namePool = []string{"a", "b", "c", "k", "name", "x y", "é", "0", "_x", "v1", "v2", "zz"}

func randScalar(r *hlib.Rand, cat []*Node, syms []any) *Node {
	c := cloneNode(cat[r.Intn(len(cat))])
	if r.Intn(3) == 0 {
		c.Sym = syms[r.Intn(len(syms))]
	}
	return c
}

func randTree(r *hlib.Rand, depth int, cat []*Node, syms []any, sorted bool) *Node {
	n := &Node{Kind: 's'}
	if r.Intn(2) == 0 {
		n.Kind = 'a'
	}
	cnt := r.Intn(6)
	names := append([]string(nil), namePool...)
	for i := len(names) - 1; i > 0; i-- {
		j := r.Intn(i + 1)
		names[i], names[j] = names[j], names[i]
	}
	names = names[:cnt]
	if sorted {
		sort.Strings(names)
	}
	for i := 0; i < cnt; i++ {
		var k *Node
		if depth > 0 && r.Intn(3) == 0 {
			k = randTree(r, depth-1, cat, syms, sorted)
			if r.Intn(8) == 0 {
				k.Nested = true
			}
		} else {
			k = randScalar(r, cat, syms)
		}
		k.Name = names[i]
		n.Kids = append(n.Kids, k)
	}
	return n
}
