//go:build verif

package main

import (
	"encoding/json"
	"fmt"
	"math"
	"math/big"
	"sort"
	"strconv"
	"strings"

	"github.com/wader/fq/internal/verifharness/hlib"
)

// Q is a query of the mini-jq the Lean model evaluates (lean/FqModel/JQValue.lean `Q`).
// Tok() is the prefix token form the driver parses, JQ() the program text for the interpreter.
type Q struct {
	Op   string // id f i sl it rec pipe comma lit arr obj keys length type paths toent tojson tostring tonumber sort has eq lt add sub if alt try
	K    string
	I    *big.Int
	A, B *int64
	J    any // literal (ints as int/int64/*big.Int, float64, string, nil, bool, []any, map)
	Kids []*Q
}

func q0(op string) *Q             { return &Q{Op: op} }
func qn(op string, kids ...*Q) *Q { return &Q{Op: op, Kids: kids} }
func qField(k string) *Q          { return &Q{Op: "f", K: k} }
func qIndex(i int64) *Q           { return &Q{Op: "i", I: big.NewInt(i)} }
func qLit(j any) *Q               { return &Q{Op: "lit", J: j} }
func qHas(j any) *Q               { return &Q{Op: "has", J: j} }
func qSlice(a, b *int64) *Q       { return &Q{Op: "sl", A: a, B: b} }
func ip(i int64) *int64           { return &i }

func (q *Q) Tok() string {
	var sb strings.Builder
	q.tok(&sb)
	return sb.String()
}

func optInt(p *int64) string {
	if p == nil {
		return "_"
	}
	return strconv.FormatInt(*p, 10)
}

func (q *Q) tok(sb *strings.Builder) {
	switch q.Op {
	case "f":
		sb.WriteString("f" + hx([]byte(q.K)))
	case "i":
		sb.WriteString("i" + q.I.String())
	case "sl":
		sb.WriteString("sl " + optInt(q.A) + " " + optInt(q.B))
	case "lit", "has":
		sb.WriteString(q.Op + " ")
		if err := serJV(sb, q.J, nil); err != nil {
			panic(err)
		}
	default:
		sb.WriteString(q.Op)
	}
	for _, k := range q.Kids {
		sb.WriteByte(' ')
		k.tok(sb)
	}
}

// jqLit writes a JSON literal that gojq parses back to the same value
func jqLit(v any) string {
	switch v := v.(type) {
	case nil:
		return "null"
	case bool:
		if v {
			return "true"
		}
		return "false"
	case int:
		return strconv.Itoa(v)
	case int64:
		return strconv.FormatInt(v, 10)
	case uint64:
		return strconv.FormatUint(v, 10)
	case *big.Int:
		return v.String()
	case float64:
		if v == math.Trunc(v) && math.Abs(v) < 1e15 {
			return strconv.FormatFloat(v, 'f', 1, 64) // keep it a float literal: 3.0
		}
		return strconv.FormatFloat(v, 'g', -1, 64)
	case string:
		b, _ := json.Marshal(v)
		return string(b)
	case []any:
		ss := make([]string, len(v))
		for i, e := range v {
			ss[i] = jqLit(e)
		}
		return "[" + strings.Join(ss, ",") + "]"
	case map[string]any:
		ks := make([]string, 0, len(v))
		for k := range v {
			ks = append(ks, k)
		}
		sort.Strings(ks)
		ss := make([]string, len(ks))
		for i, k := range ks {
			ss[i] = jqLit(k) + ":" + jqLit(v[k])
		}
		return "{" + strings.Join(ss, ",") + "}"
	}
	panic(fmt.Sprintf("jqLit %T", v))
}

func (q *Q) JQ() string {
	k := func(i int) string { return q.Kids[i].JQ() }
	switch q.Op {
	case "id":
		return "."
	case "f":
		return ".[" + jqLit(q.K) + "]"
	case "i":
		return ".[" + q.I.String() + "]"
	case "sl":
		a, b := "", ""
		if q.A != nil {
			a = strconv.FormatInt(*q.A, 10)
		}
		if q.B != nil {
			b = strconv.FormatInt(*q.B, 10)
		}
		return ".[" + a + ":" + b + "]"
	case "it":
		return ".[]"
	case "rec":
		return ".."
	case "pipe":
		return "(" + k(0) + " | " + k(1) + ")"
	case "comma":
		return "(" + k(0) + " , " + k(1) + ")"
	case "lit":
		return "(" + jqLit(q.J) + ")"
	case "arr":
		return "[" + k(0) + "]"
	case "obj":
		return "{(" + k(0) + "): (" + k(1) + ")}"
	case "keys", "length", "type", "paths", "tojson", "tostring", "tonumber", "sort":
		return q.Op
	case "toent":
		return "to_entries"
	case "has":
		return "has(" + jqLit(q.J) + ")"
	case "eq":
		return "(" + k(0) + " == " + k(1) + ")"
	case "lt":
		return "(" + k(0) + " < " + k(1) + ")"
	case "add":
		return "(" + k(0) + " + " + k(1) + ")"
	case "sub":
		return "(" + k(0) + " - " + k(1) + ")"
	case "if":
		return "(if " + k(0) + " then " + k(1) + " else " + k(2) + " end)"
	case "alt":
		return "(" + k(0) + " // " + k(1) + ")"
	case "try":
		return "(" + k(0) + ")?"
	}
	panic("JQ op " + q.Op)
}

func (q *Q) walk(f func(*Q)) {
	f(q)
	for _, k := range q.Kids {
		k.walk(f)
	}
}

func (q *Q) hasOp(ops ...string) bool {
	found := false
	q.walk(func(x *Q) {
		for _, o := range ops {
			if x.Op == o {
				found = true
			}
		}
	})
	return found
}

// byteSensitive: the result can depend on the exact bytes of a string (so a raw-bits field that is
// not valid UTF-8 legitimately differs from its decode value — the documented exception)
func (q *Q) byteSensitive() bool {
	return q.hasOp("eq", "lt", "sort", "tojson", "tostring", "tonumber", "add", "sub", "obj")
}

// orderSensitive: the result can depend on the order in which object members are visited
// (struct fields iterate in input order — the documented exception)
func (q *Q) orderVisiting() bool { return q.hasOp("it", "rec", "keys", "toent", "paths") }

// positional: picks elements by position out of something built by visiting
func (q *Q) positional() bool { return q.hasOp("i", "sl", "lt", "sort", "sub", "alt") }

// ---------------------------------------------------------------- per-value systematic queries

type valueInfo struct {
	kind      byte     // 's' 'a' or scalar
	length    int      // children / elements / runes (0 if unknown)
	names     []string // field names (struct) or keys of an Any object
	sliceable bool     // JQValueSliceLen is an int
}

var litPool = []any{nil, true, false, 0, 1, -1, 2.5, "", "a", "12", []any{}, []any{1}, map[string]any{}, map[string]any{"a": 1},
	new(big.Int).Lsh(big.NewInt(1), 64)}

// systematicQueries: every dispatch site of the mini-jq at least once per value, with the
// boundary arguments of the property (indices -3..len+2, slices over the same range, keys)
func systematicQueries(vi valueInfo, thorough bool) []*Q {
	var qs []*Q
	for _, op := range []string{"id", "type", "length", "keys", "toent", "tojson", "tostring", "tonumber", "sort", "paths", "rec", "it"} {
		qs = append(qs, q0(op))
	}
	qs = append(qs,
		qn("try", q0("it")),
		qn("arr", qn("try", q0("it"))),
		qn("arr", q0("rec")),
		qn("arr", q0("paths")),
		qn("arr", qn("pipe", q0("rec"), q0("type"))),
		qn("arr", qn("pipe", qn("try", q0("it")), qn("try", q0("length")))),
		qn("pipe", q0("toent"), q0("length")),
		qn("pipe", q0("keys"), q0("length")),
		qn("obj", q0("id"), qLit(1)),
		qn("obj", qLit("a"), q0("id")),
		qn("obj", qn("try", q0("it")), qLit(1)),
		qn("if", q0("id"), qLit(1), qLit(2)),
		qn("alt", q0("id"), qLit(5)),
		qn("alt", qn("try", q0("it")), qLit("none")),
		qn("arr", qn("comma", q0("id"), q0("id"))),
		qn("pipe", qn("arr", qn("comma", q0("id"), qLit(1))), q0("sort")),
		qn("eq", q0("id"), q0("id")),
		qn("lt", q0("id"), q0("id")),
		qn("add", q0("id"), q0("id")),
		qn("sub", q0("id"), q0("id")),
		qn("pipe", q0("tojson"), q0("length")),
		qn("pipe", q0("tostring"), q0("tonumber")),
	)
	// after a slice (the slice of a decoded JSON array is a bare gojqx.Array: every dispatch site again)
	for _, sl := range []*Q{qSlice(ip(0), ip(2)), qSlice(ip(1), nil), qSlice(nil, ip(-1))} {
		for _, op := range []string{"length", "keys", "it", "toent", "sort", "tojson", "type", "tostring", "paths", "rec"} {
			qs = append(qs, qn("pipe", sl, q0(op)))
		}
		qs = append(qs, qn("pipe", sl, qIndex(0)), qn("pipe", sl, qIndex(-1)), qn("pipe", sl, qSlice(ip(1), nil)),
			qn("pipe", sl, qHas(0)), qn("pipe", sl, qHas(1.0)), qn("pipe", sl, qHas("a")), qn("pipe", sl, qField("a")),
			qn("obj", sl, qLit(1)), qn("add", sl, sl), qn("sub", sl, qLit([]any{1})), qn("eq", sl, qLit([]any{})),
			qn("if", sl, qLit(1), qLit(2)), qn("alt", sl, qLit(0)))
	}
	// two steps down: (D3) on a child, (D1) through a construction
	for _, k := range vi.names {
		qs = append(qs, qn("pipe", qField(k), qField("nope")), qn("pipe", qField(k), qn("try", qField("a"))),
			qn("pipe", qField(k), q0("length")), qn("pipe", qField(k), q0("keys")))
	}
	qs = append(qs, qn("pipe", qn("arr", q0("it")), qIndex(0)), qn("pipe", qn("arr", q0("it")), q0("sort")),
		qn("pipe", q0("toent"), qIndex(0)), qn("pipe", q0("keys"), qIndex(-1)),
		qn("pipe", qn("arr", q0("paths")), qIndex(0)))
	for _, l := range litPool {
		qs = append(qs, qn("eq", q0("id"), qLit(l)), qn("lt", q0("id"), qLit(l)), qn("lt", qLit(l), q0("id")),
			qn("add", q0("id"), qLit(l)), qn("add", qLit(l), q0("id")), qn("sub", q0("id"), qLit(l)))
	}
	// keys: field names, `_`-prefixed names that are not extra keys, absent names
	keys := append([]string{"nope", "_x", "", "a"}, vi.names...)
	for _, k := range keys {
		qs = append(qs, qField(k), qHas(k), qn("try", qField(k)))
	}
	for _, l := range []any{nil, 0, -1, 1, vi.length - 1, vi.length, 1.0, 0.5, true, []any{}, new(big.Int).Lsh(big.NewInt(1), 64)} {
		qs = append(qs, qHas(l))
	}
	// indices and slices
	lo, hi := int64(-3), int64(vi.length+2)
	if hi > 9 {
		hi = 9
	}
	for i := lo; i <= hi; i++ {
		qs = append(qs, qIndex(i))
	}
	qs = append(qs, &Q{Op: "i", I: new(big.Int).Lsh(big.NewInt(1), 64)}, &Q{Op: "i", I: new(big.Int).Neg(new(big.Int).Lsh(big.NewInt(1), 64))})
	step := int64(1)
	if !thorough && hi-lo > 6 {
		step = 2
	}
	for a := lo; a <= hi; a += step {
		for b := lo; b <= hi; b += step {
			qs = append(qs, qSlice(ip(a), ip(b)))
		}
		qs = append(qs, qSlice(ip(a), nil), qSlice(nil, ip(a)))
	}
	return qs
}

// ---------------------------------------------------------------- random composed queries

func randLeaf(r *hlib.Rand, vi valueInfo) *Q {
	switch r.Intn(16) {
	case 0, 1:
		return q0("id")
	case 2, 3:
		keys := append([]string{"a", "nope"}, vi.names...)
		return qField(keys[r.Intn(len(keys))])
	case 4:
		return qIndex(int64(r.Range(-3, vi.length+2)))
	case 5:
		a, b := int64(r.Range(-3, vi.length+2)), int64(r.Range(-3, vi.length+2))
		switch r.Intn(4) {
		case 0:
			return qSlice(ip(a), nil)
		case 1:
			return qSlice(nil, ip(b))
		}
		return qSlice(ip(a), ip(b))
	case 6:
		return q0("it")
	case 7:
		return q0("rec")
	case 8:
		return qLit(litPool[r.Intn(len(litPool))])
	case 9:
		keys := append([]string{"a"}, vi.names...)
		if r.Intn(3) == 0 {
			return qHas(r.Range(-1, vi.length))
		}
		return qHas(keys[r.Intn(len(keys))])
	default:
		ops := []string{"keys", "length", "type", "paths", "toent", "tojson", "tostring", "tonumber", "sort"}
		return q0(ops[r.Intn(len(ops))])
	}
}

func randQ(r *hlib.Rand, depth int, vi valueInfo) *Q {
	if depth == 0 || r.Intn(4) == 0 {
		return randLeaf(r, vi)
	}
	sub := func() *Q { return randQ(r, depth-1, vi) }
	switch r.Intn(14) {
	case 0, 1, 2, 3:
		return qn("pipe", sub(), sub())
	case 4:
		return qn("comma", sub(), sub())
	case 5, 6:
		return qn("arr", sub())
	case 7:
		return qn("obj", sub(), sub())
	case 8:
		return qn([]string{"eq", "lt"}[r.Intn(2)], sub(), sub())
	case 9:
		return qn([]string{"add", "sub"}[r.Intn(2)], sub(), sub())
	case 10:
		return qn("if", sub(), sub(), sub())
	case 11:
		return qn("alt", sub(), sub())
	default:
		return qn("try", sub())
	}
}

// ---------------------------------------------------------------- the wider read-only family
// (decided by the harness alone: direct vs tovalue as JSON; no model)

// class: "" plain, "bytes" byte sensitive, "order" visits members and is order sensitive
type extQ struct {
	jq    string
	bytes bool
	order bool
}

var extQueries = []extQ{
	{"ascii_downcase", false, false}, {"ascii_upcase", false, false}, {"ltrimstr(\"a\")", true, false}, {"rtrimstr(\"c\")", true, false},
	{"startswith(\"a\")", true, false}, {"endswith(\"c\")", true, false}, {"explode", false, false}, {"explode|implode", false, false},
	{"utf8bytelength", true, false}, {"@base64", true, false}, {"@text", true, false}, {"@json", true, false}, {"@html", true, false},
	{"@uri", true, false}, {"@csv", true, true}, {"@tsv", true, true}, {"@sh", true, true},
	{"test(\"a\")", true, false}, {"[match(\"a\";\"g\").offset]", true, false}, {"split(\"\")", false, false}, {"split(\",\")", true, false},
	{"sub(\"a\";\"b\")", true, false}, {"ascii", false, false}, {"tojson|fromjson", true, false},
	{"join(\",\")", true, true}, {"min", true, true}, {"max", true, true}, {"unique", true, true}, {"group_by(.)", true, true},
	{"flatten", false, true}, {"add", true, true}, {"any", false, true}, {"all", false, true}, {"[tostream]", false, true},
	{"to_entries|from_entries", false, true}, {"with_entries(.)", false, true}, {"map(.)", false, true},
	{"[.[]?|select(.)]", false, true}, {"first(.[]?)", false, true}, {"[limit(2;.[]?)]", false, true}, {"last", false, true}, {"nth(1)", false, true},
	{"reverse", false, true}, {"floor", false, false}, {"sqrt", false, false},
	{". * 2", true, false}, {". / 2", true, false}, {". % 3", false, false}, {"abs", false, false}, {"0 - .", false, false}, {"tostring|length", true, false},
	{"isvalid(.[0])", false, false}, {"[leaf_paths]", false, true}, {"[paths(type == \"number\")]", false, true}, {"getpath([\"a\"])", false, false},
	{"getpath([0])", false, false}, {"[..|numbers]", false, true}, {"[..|strings]|length", false, true}, {"[..|scalars]|length", false, true},
	{"index(\"a\")", true, false}, {"indices(1)", true, false}, {"inside([1,2,3])", true, false}, {"contains(\"a\")", true, false},
	{"contains([1])", true, false}, {"type == \"object\"", false, false}, {"not", false, false}, {"isnan", false, false}, {"infinite < .", true, false},
	{"splits(\"a\")", true, false}, {"ltrimstr(1)", false, false}, {"tojson|test(\"1\")", true, false}, {"[.[]?] == [.[]?]", false, false},
	{"to_entries|map(.key)", false, true}, {"keys_unsorted", false, true}, {"[keys[]?|tostring]", false, true},
	{"(.[0]? // \"d\")", false, true}, {"[.[]?|tojson]|sort", true, false}, {"[splits(\", \")]", true, false},
	{"min_by(.)", true, true}, {"sort_by(.)", true, true}, {"unique_by(.)", true, true}, {"env|type", false, false}, {"input_line_number|type", false, false},
	{"ascii_downcase|ascii_upcase", false, false}, {"transpose", false, true}, {"combinations|length", false, true}, {"tojson|tojson", true, false},
	{"reduce .[]? as $x (0; . + 1)", false, false}, {"[foreach .[]? as $x (0; . + 1)]", false, false}, {"[.[]?] | length", false, false},
	{"if type == \"number\" then . + 1 else . end", false, false}, {"try error catch .", true, false}, {"[.[]?|numbers]|add", false, false},
	{"tonumber? // \"nan\"", true, false}, {"ltrimstr(\"\")|length", false, false}, {"@base64d", true, false}, {"todate?", false, false},
	{"tojson|length", true, false}, {"[.. | type] | unique", false, false}, {"[paths] | length", false, false},
	{"to_entries|length", false, false}, {"has(0)?", false, false}, {"in([1,2])?", false, false}, {"objects|keys|sort", false, false},
	{"arrays|length", false, false}, {"[.[]?|.. ]|length", false, false},
	{"pick(.a)?", false, true}, {"have_literal_numbers", false, false}, {"ascii(65)?", false, false}, {"@base32", true, false}, {"[limit(3;repeat(1))]", false, false},
	{"tojson|ascii_downcase", true, false}, {"significand?", false, false}, {"trim?", true, false}, {"ltrim?", true, false}, {"abs?", false, false},
	{"toarray?", false, true}, {"[.[]?]|map(type)", false, true}, {"tojson|explode|length", true, false}, {"getpath(paths)?", false, true},
}

// parseQ reads the prefix token form back (replay)
func parseQ(t *toks) (*Q, error) {
	w, err := t.next()
	if err != nil {
		return nil, err
	}
	kids := func(n int, op string) (*Q, error) {
		q := &Q{Op: op}
		for i := 0; i < n; i++ {
			k, err := parseQ(t)
			if err != nil {
				return nil, err
			}
			q.Kids = append(q.Kids, k)
		}
		return q, nil
	}
	switch w {
	case "id", "it", "rec", "keys", "length", "type", "paths", "toent", "tojson", "tostring", "tonumber", "sort":
		return q0(w), nil
	case "pipe", "comma", "obj", "eq", "lt", "add", "sub", "alt":
		return kids(2, w)
	case "arr", "try":
		return kids(1, w)
	case "if":
		return kids(3, w)
	case "lit", "has":
		j, err := parseJV(t)
		if err != nil {
			return nil, err
		}
		return &Q{Op: w, J: goJSONNorm(j)}, nil
	case "sl":
		q := &Q{Op: "sl"}
		for i := 0; i < 2; i++ {
			x, err := t.next()
			if err != nil {
				return nil, err
			}
			if x != "_" {
				v, err := strconv.ParseInt(x, 10, 64)
				if err != nil {
					return nil, err
				}
				if i == 0 {
					q.A = &v
				} else {
					q.B = &v
				}
			}
		}
		return q, nil
	}
	if len(w) > 1 && w[0] == 'f' {
		b, err := unhx(w[1:])
		if err != nil {
			return nil, err
		}
		return qField(string(b)), nil
	}
	if len(w) > 1 && w[0] == 'i' {
		b, ok := new(big.Int).SetString(w[1:], 10)
		if !ok {
			return nil, fmt.Errorf("bad index %q", w)
		}
		return &Q{Op: "i", I: b}, nil
	}
	return nil, fmt.Errorf("bad Q token %q", w)
}
