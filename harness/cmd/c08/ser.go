//go:build verif

package main

import (
	"bytes"
	"encoding/hex"
	"fmt"
	"math"
	"math/big"
	"reflect"
	"sort"
	"strings"

	"github.com/wader/fq/internal/bitiox"
	"github.com/wader/fq/internal/gojqx"
	"github.com/wader/fq/pkg/bitio"
	"github.com/wader/fq/pkg/decode"
	"github.com/wader/fq/pkg/interp"
	"github.com/wader/fq/pkg/scalar"
	"github.com/wader/gojq"
)

// ---------------------------------------------------------------------------------------------
// Token formats shared with lean/Drv/C08.lean (space separated tokens, every form self-delimiting)
//
//   JV  := N | T | F | I<dec> | D<16 hex: float64 bits> | S<hex|-> | A<n> JV*n | O<n> (<hex|-> JV)*n   (keys sorted)
//   Val := JV-forms with Val inside containers | @ JV (a decode value, shown by its tovalue) | X (extra-key value)
//   DV  := s<n> (<hex|-> DV)*n | a<n> DV*n | scalar
//   scalar := (u<dec> | i<dec> | b<dec> | f<16hex> | t<hex|-> | B0 | B1 | j JV | r<hex|->/<nbits>) SYM FLAGS
//   SYM := - | = JV          FLAGS := . | y (synthetic)
// ---------------------------------------------------------------------------------------------

func hx(b []byte) string {
	if len(b) == 0 {
		return "-"
	}
	return hex.EncodeToString(b)
}

type unsupported struct{ why string }

func (u unsupported) Error() string { return "unsupported: " + u.why }

// floats collects the float64 bit patterns met while serialising (for the float text table)
type floats map[uint64]struct{}

func (f floats) add(v float64) {
	if f != nil {
		if math.IsNaN(v) {
			// every NaN is written as the one token of floatTok (and prints as `null`)
			f[0x7ff8000000000001] = struct{}{}
			return
		}
		f[math.Float64bits(v)] = struct{}{}
	}
}

func floatTok(v float64) string {
	if math.IsNaN(v) {
		return "D7ff8000000000001"
	}
	return fmt.Sprintf("D%016x", math.Float64bits(v))
}

// serJV serialises a plain Go JSON-ish value (what scalar Sym/Actual hold, and what gojq emits).
func serJV(sb *strings.Builder, v any, fl floats) error {
	switch v := v.(type) {
	case nil:
		sb.WriteString("N")
	case bool:
		if v {
			sb.WriteString("T")
		} else {
			sb.WriteString("F")
		}
	case int:
		fmt.Fprintf(sb, "I%d", v)
	case int64:
		fmt.Fprintf(sb, "I%d", v)
	case uint64:
		fmt.Fprintf(sb, "I%d", v)
	case *big.Int:
		if v == nil {
			return unsupported{"nil *big.Int"}
		}
		sb.WriteString("I" + v.String())
	case float64:
		fl.add(v)
		sb.WriteString(floatTok(v))
	case string:
		sb.WriteString("S" + hx([]byte(v)))
	case []any:
		fmt.Fprintf(sb, "A%d", len(v))
		for _, e := range v {
			sb.WriteByte(' ')
			if err := serJV(sb, e, fl); err != nil {
				return err
			}
		}
	case map[string]any:
		ks := make([]string, 0, len(v))
		for k := range v {
			ks = append(ks, k)
		}
		sort.Strings(ks)
		fmt.Fprintf(sb, "O%d", len(v))
		for _, k := range ks {
			sb.WriteString(" " + hx([]byte(k)) + " ")
			if err := serJV(sb, v[k], fl); err != nil {
				return err
			}
		}
	default:
		return unsupported{fmt.Sprintf("value type %T", v)}
	}
	return nil
}

var tovalueOpts = map[string]any{"bits_format": "string", "skip_gaps": false}

// serVal serialises a value produced by the interpreter / by a JQValue method: decode values are
// marked `@` and shown by their tovalue; plain containers may hold decode values.
func serVal(sb *strings.Builder, v any, fl floats) error {
	switch vv := v.(type) {
	case interp.DecodeValue:
		tv, err := interp.VerifC08ToValue(vv, tovalueOpts)
		if err != nil {
			return unsupported{"tovalue failed: " + err.Error()}
		}
		sb.WriteString("@ ")
		return serJV(sb, tv, fl)
	case []any:
		fmt.Fprintf(sb, "A%d", len(vv))
		for _, e := range vv {
			sb.WriteByte(' ')
			if err := serVal(sb, e, fl); err != nil {
				return err
			}
		}
		return nil
	case map[string]any:
		ks := make([]string, 0, len(vv))
		for k := range vv {
			ks = append(ks, k)
		}
		sort.Strings(ks)
		fmt.Fprintf(sb, "O%d", len(vv))
		for _, k := range ks {
			sb.WriteString(" " + hx([]byte(k)) + " ")
			if err := serVal(sb, vv[k], fl); err != nil {
				return err
			}
		}
		return nil
	case gojq.JQValue:
		// a JQValue that is not a decode value (a gojqx.Array slice; the Binary of `_bits`): its plain value
		return serVal(sb, vv.JQValueToGoJQ(), fl)
	default:
		return serJV(sb, v, fl)
	}
}

// errClass maps an error value to a small stable enum (by Go type, never by message text,
// except for the two untyped fmt.Errorf errors of gojqx).
func errClass(err error) string {
	t := fmt.Sprintf("%T", err)
	field := func(name string) string {
		rv := reflect.ValueOf(err)
		for rv.Kind() == reflect.Ptr || rv.Kind() == reflect.Interface {
			rv = rv.Elem()
		}
		if rv.Kind() == reflect.Struct {
			if f := rv.FieldByName(name); f.IsValid() && f.Kind() == reflect.String {
				return f.String()
			}
		}
		return "?"
	}
	switch t {
	case "gojqx.ExpectedArrayError", "gojqx.ExpectedArrayWithIndexError", "*gojq.expectedArrayError":
		return "err:expected-array"
	case "gojqx.ExpectedObjectError", "gojqx.ExpectedObjectWithKeyError", "*gojq.expectedObjectError":
		return "err:expected-object"
	case "gojqx.IteratorError", "*gojq.iteratorError":
		return "err:iterator"
	case "gojqx.FuncTypeNameError":
		return "err:func:" + field("Name")
	case "*gojq.func0TypeError", "*gojq.func1TypeError", "*gojq.func2TypeError":
		return "err:func:" + field("name")
	case "*gojq.func0WrapError", "*gojq.func1WrapError":
		if field("name") == "tonumber" {
			return "err:invalid-number"
		}
		return "err:wrap:" + field("name")
	case "gojqx.HasKeyTypeError":
		return "err:has-key"
	case "*gojq.objectKeyNotStringError":
		return "err:object-key"
	case "*gojq.binopTypeError":
		return "err:binop:" + field("name")
	case "*gojq.arrayIndexNotNumberError", "*gojq.stringIndexNotNumberError":
		return "err:index-type"
	case "*fmt.wrapError", "*errors.errorString":
		if strings.HasPrefix(err.Error(), "invalid number") {
			return "err:invalid-number"
		}
	}
	return "err:other:" + strings.ReplaceAll(t, " ", "_")
}

// serResult: the observation of one method call / one output
func serResult(v any, fl floats) string {
	if e, ok := v.(error); ok {
		return errClass(e)
	}
	var sb strings.Builder
	if err := serVal(&sb, v, fl); err != nil {
		return "unsupported:" + strings.ReplaceAll(err.Error(), " ", "_")
	}
	return "ok " + sb.String()
}

// ---------------------------------------------------------------------------------------------
// decode.Value -> DV text. Reads the Actual/Sym FIELDS of the scalar structs (not ScalarValue()),
// so the model's `sym ?? actual` is independent of the code under test.

func readBits(br bitio.ReaderAtSeeker) ([]byte, int64, error) {
	c, err := bitio.CloneReaderAtSeeker(br)
	if err != nil {
		return nil, 0, err
	}
	n, err := bitiox.Len(c)
	if err != nil {
		return nil, 0, err
	}
	if n > 1<<16 {
		return nil, 0, unsupported{"raw field larger than 8 KiB"}
	}
	buf := &bytes.Buffer{}
	if _, err := bitiox.CopyBits(buf, c); err != nil {
		return nil, 0, err
	}
	return buf.Bytes(), n, nil
}

type serStats struct {
	nodes        int
	rawInvalid   bool // a non-synthetic raw value (no sym) whose bytes are not valid UTF-8
	unsortedKeys bool // a struct whose field names are not in strictly increasing byte order
	multiObj     bool // a scalar.Any (or sym) holding an object with >= 2 keys (Go map order is random)
	hasFloat     bool
	extNamed     bool // a struct field whose name is one of the `_` extra keys
}

func jvHasMultiObj(v any) bool {
	switch v := v.(type) {
	case map[string]any:
		if len(v) >= 2 {
			return true
		}
		for _, e := range v {
			if jvHasMultiObj(e) {
				return true
			}
		}
	case []any:
		for _, e := range v {
			if jvHasMultiObj(e) {
				return true
			}
		}
	}
	return false
}

func serSym(sb *strings.Builder, sym any, fl floats, st *serStats) error {
	if sym == nil {
		sb.WriteString(" -")
		return nil
	}
	if rv := reflect.ValueOf(sym); rv.Kind() == reflect.Ptr && rv.IsNil() {
		return unsupported{"typed nil sym"}
	}
	sb.WriteString(" = ")
	if jvHasMultiObj(sym) {
		st.multiObj = true
	}
	return serJV(sb, sym, fl)
}

func flagsTok(f scalar.Flags) string {
	if f.IsSynthetic() {
		return " y"
	}
	return " ."
}

var extKeySet = func() map[string]bool {
	m := map[string]bool{}
	for _, k := range interp.VerifC08ExtKeys() {
		m[k] = true
	}
	return m
}()

func serDV(sb *strings.Builder, v *decode.Value, fl floats, st *serStats) error {
	st.nodes++
	if st.nodes > 4000 {
		return unsupported{"tree too large"}
	}
	switch vv := v.V.(type) {
	case *decode.Compound:
		if vv.IsArray {
			fmt.Fprintf(sb, "a%d", len(vv.Children))
			for _, c := range vv.Children {
				sb.WriteByte(' ')
				if err := serDV(sb, c, fl, st); err != nil {
					return err
				}
			}
			return nil
		}
		fmt.Fprintf(sb, "s%d", len(vv.Children))
		prev := ""
		for i, c := range vv.Children {
			if i > 0 && !(prev < c.Name) {
				st.unsortedKeys = true
			}
			prev = c.Name
			if extKeySet[c.Name] {
				st.extNamed = true
			}
			sb.WriteString(" " + hx([]byte(c.Name)) + " ")
			if err := serDV(sb, c, fl, st); err != nil {
				return err
			}
		}
		return nil
	case *scalar.Uint:
		fmt.Fprintf(sb, "u%d", vv.Actual)
		if err := serSym(sb, vv.Sym, fl, st); err != nil {
			return err
		}
		sb.WriteString(flagsTok(vv.Flags))
	case *scalar.Sint:
		fmt.Fprintf(sb, "i%d", vv.Actual)
		if err := serSym(sb, vv.Sym, fl, st); err != nil {
			return err
		}
		sb.WriteString(flagsTok(vv.Flags))
	case *scalar.BigInt:
		if vv.Actual == nil {
			return unsupported{"nil big actual"}
		}
		sb.WriteString("b" + vv.Actual.String())
		if err := serSym(sb, vv.Sym, fl, st); err != nil {
			return err
		}
		sb.WriteString(flagsTok(vv.Flags))
	case *scalar.Flt:
		fl.add(vv.Actual)
		st.hasFloat = true
		sb.WriteString("f" + floatTok(vv.Actual)[1:])
		if err := serSym(sb, vv.Sym, fl, st); err != nil {
			return err
		}
		sb.WriteString(flagsTok(vv.Flags))
	case *scalar.Str:
		sb.WriteString("t" + hx([]byte(vv.Actual)))
		if err := serSym(sb, vv.Sym, fl, st); err != nil {
			return err
		}
		sb.WriteString(flagsTok(vv.Flags))
	case *scalar.Bool:
		if vv.Actual {
			sb.WriteString("B1")
		} else {
			sb.WriteString("B0")
		}
		if err := serSym(sb, vv.Sym, fl, st); err != nil {
			return err
		}
		sb.WriteString(flagsTok(vv.Flags))
	case *scalar.Any:
		sb.WriteString("j ")
		if jvHasMultiObj(vv.Actual) {
			st.multiObj = true
		}
		if err := serJV(sb, vv.Actual, fl); err != nil {
			return err
		}
		if err := serSym(sb, vv.Sym, fl, st); err != nil {
			return err
		}
		sb.WriteString(flagsTok(vv.Flags))
	case *scalar.BitBuf:
		if vv.Actual == nil {
			return unsupported{"nil bitbuf"}
		}
		b, n, err := readBits(vv.Actual)
		if err != nil {
			return unsupported{"bitbuf: " + err.Error()}
		}
		if vv.Sym == nil && !vv.Flags.IsSynthetic() && string([]rune(string(b))) != string(b) {
			st.rawInvalid = true
		}
		fmt.Fprintf(sb, "r%s/%d", hx(b), n)
		if err := serSym(sb, vv.Sym, fl, st); err != nil {
			return err
		}
		sb.WriteString(flagsTok(vv.Flags))
	default:
		return unsupported{fmt.Sprintf("value kind %T", v.V)}
	}
	return nil
}

// floatTable: `ft<n> (<16hex> <hex text>)*n`, the text gojq's encoder writes for each float
func floatTable(fl floats) string {
	ks := make([]uint64, 0, len(fl))
	for k := range fl {
		ks = append(ks, k)
	}
	sort.Slice(ks, func(i, j int) bool { return ks[i] < ks[j] })
	var sb strings.Builder
	fmt.Fprintf(&sb, "ft%d", len(ks))
	for _, k := range ks {
		b, _ := gojq.Marshal(math.Float64frombits(k))
		fmt.Fprintf(&sb, " %016x %s", k, hx(b))
	}
	return sb.String()
}

// normalise an observation text for the differential: drop the decode-value marks and replace
// invalid UTF-8 in strings (documented: raw bits keep their bytes under tovalue)
func normObs(s string) string {
	ws := strings.Fields(s)
	out := ws[:0]
	for _, w := range ws {
		if w == "@" {
			continue
		}
		if len(w) > 1 && w[0] == 'S' && w != "S-" {
			if b, err := hex.DecodeString(w[1:]); err == nil {
				w = "S" + hx([]byte(string([]rune(string(b)))))
			}
		}
		out = append(out, w)
	}
	return strings.Join(out, " ")
}

var _ = gojqx.Cast[int]
