//go:build verif

package main

import (
	"fmt"
	"math/big"
	"strconv"
	"strings"

	"github.com/wader/fq/internal/verifharness/hlib"
)

// File-backed binaries: `("c09file" | open | tobytes)` over an in-memory regular file of a few MB whose
// content is hlib.NewRand(seed).Bytes(len) (the Lean driver regenerates it). The slices sit around multiples of
// the 512 KiB read-ahead window of internal/aheadreadseeker; an optional earlier read (whole binary, or the
// second slice) puts the reader stack into a used state first.
//
//   fcat <seed> <len> <pre> <a1> <b1> <a2> <b2>   [$b[a1:b1], $b[a2:b2]] | tobytes   -> .size ; fnv1a64 of tostring
//   fsl  <seed> <len> <pre> <a> <b> <c> <d>       $b[a:b][c:d]                        -> .size ; fnv1a64 of tostring

const fileName = "c09file"
const window = 524288

type FileCase struct {
	Kind string
	Seed uint64
	Len  int
	Pre  int
	B    [4]string
}

func (fc *FileCase) OpText() string {
	return fmt.Sprintf("%s %d %d %d %s", fc.Kind, fc.Seed, fc.Len, fc.Pre, strings.Join(fc.B[:], " "))
}

func parseFileCase(line string) (*FileCase, error) {
	ws := strings.Fields(line)
	if len(ws) != 8 || (ws[0] != "fcat" && ws[0] != "fsl") {
		return nil, fmt.Errorf("file case: want 8 fields")
	}
	seed, err := strconv.ParseUint(ws[1], 10, 64)
	if err != nil {
		return nil, err
	}
	n, err := strconv.Atoi(ws[2])
	if err != nil || n < 0 || n > 64000000 {
		return nil, fmt.Errorf("file case: bad length")
	}
	pre, err := strconv.Atoi(ws[3])
	if err != nil || pre < 0 || pre > 2 {
		return nil, fmt.Errorf("file case: bad pre")
	}
	fc := &FileCase{Kind: ws[0], Seed: seed, Len: n, Pre: pre}
	for i := 0; i < 4; i++ {
		if ws[4+i] != "_" && !isInt(ws[4+i]) {
			return nil, fmt.Errorf("file case: bad bound")
		}
		fc.B[i] = ws[4+i]
	}
	if (fc.B[0] == "_" && fc.B[1] == "_") || (fc.B[2] == "_" && fc.B[3] == "_") {
		return nil, fmt.Errorf("file case: both bounds absent")
	}
	return fc, nil
}

func jqSlice(a, b string) string {
	if a == "_" {
		a = ""
	}
	if b == "_" {
		b = ""
	}
	return "[" + a + ":" + b + "]"
}

var curFile struct {
	seed uint64
	n    int
	ok   bool
}

func setFile(seed uint64, n int) {
	if curFile.ok && curFile.seed == seed && curFile.n == n {
		return
	}
	memFiles[fileName] = hlib.NewRand(seed).Bytes(n)
	curFile.seed, curFile.n, curFile.ok = seed, n, true
}

func fnv1a64(s string) uint64 {
	h := uint64(0xcbf29ce484222325)
	for i := 0; i < len(s); i++ {
		h = (h ^ uint64(s[i])) * 0x100000001b3
	}
	return h
}

func runFileCase(o *hlib.Out, fc *FileCase) {
	setFile(fc.Seed, fc.Len)
	pre := "0"
	switch fc.Pre {
	case 1:
		pre = "($b | tostring | length)"
	case 2:
		pre = "($b" + jqSlice(fc.B[2], fc.B[3]) + " | tostring | length)"
	}
	body := ""
	if fc.Kind == "fcat" {
		body = "[$b" + jqSlice(fc.B[0], fc.B[1]) + ", $b" + jqSlice(fc.B[2], fc.B[3]) + "] | tobytes"
	} else {
		body = "$b" + jqSlice(fc.B[0], fc.B[1]) + jqSlice(fc.B[2], fc.B[3])
	}
	prog := `("` + fileName + `" | open | tobytes) as $b | ` + pre + ` as $n | ` + body + ` | [.size, tostring]`
	var vs []any
	var err error
	_, panicked := hlib.Catch(func() string { vs, err = evalAll(prog); return "" })
	obs := ""
	switch {
	case panicked:
		obs = "panic"
	case err != nil:
		obs = errClass(err.Error())
	case len(vs) != 1:
		obs = fmt.Sprintf("harness-error:outputs=%d", len(vs))
	default:
		a, _ := vs[0].([]any)
		if len(a) != 2 {
			obs = "harness-error:shape"
			break
		}
		size := "?"
		switch n := a[0].(type) {
		case int:
			size = strconv.Itoa(n)
		case *big.Int:
			size = n.String()
		}
		str, _ := a[1].(string)
		obs = fmt.Sprintf("n:%s ; h:%d:%016x", size, len(str), fnv1a64(str))
	}
	op := fc.OpText()
	o.Case(op, obs)
	o.Stat("kind_"+fc.Kind, 1)
	o.Stat(fmt.Sprintf("file_pre_%d", fc.Pre), 1)
	if !strings.HasPrefix(obs, "n:0 ") {
		o.Class(op)
	}
}

// bound near a multiple of the read-ahead window (or relative to the end)
func fileBound(r *hlib.Rand, n int) int {
	k := r.Intn(n/window + 1)
	var d int
	switch r.Intn(6) {
	case 0:
		d = 0
	case 1:
		d = r.Range(-2, 2)
	case 2:
		d = r.Range(-100, 100)
	case 3:
		d = r.Range(-4096, 4096)
	case 4:
		d = r.Range(-40000, 40000)
	default:
		d = r.Range(0, window-1)
	}
	v := k*window + d
	if v < 0 {
		v = 0
	}
	return v
}

func fileSpan(r *hlib.Rand) int {
	switch r.Intn(8) {
	case 0:
		return r.Range(1, 16)
	case 1:
		return r.Range(1000, 5000)
	case 2:
		return r.Range(100000, 300000)
	case 3:
		return window + r.Range(-2, 2)
	case 4:
		return r.Range(window+1, 2*window)
	case 5:
		return 2*window + r.Range(-100, 100)
	default:
		return r.Range(300000, 800000)
	}
}

func genFileCases(o *hlib.Out, r *hlib.Rand, thorough bool) {
	// the demo of the seeded change: whole read first, then a concat straddling a window end
	for _, l := range []string{
		"fcat 7 3000000 0 100 300000 1000000 1700000",
		"fcat 7 3000000 1 100 300000 1000000 1700000",
		"fsl 7 3000000 1 1000000 1700000 10 -10",
	} {
		fc, err := parseFileCase(l)
		if err != nil {
			panic(err)
		}
		runFileCase(o, fc)
	}
	nFiles, perFile := 3, 30
	if thorough {
		nFiles, perFile = 6, 60
	}
	for f := 0; f < nFiles; f++ {
		seed := r.U64() >> 1
		n := r.Range(1700000, 3400000)
		for i := 0; i < perFile; i++ {
			fc := &FileCase{Seed: seed, Len: n, Pre: []int{0, 1, 1, 1, 2}[r.Intn(5)]}
			bound := func(v int) string {
				if r.Intn(12) == 0 {
					return strconv.Itoa(v - n) // the same position counted from the end
				}
				return strconv.Itoa(v)
			}
			a1 := fileBound(r, n)
			b1 := a1 + fileSpan(r)
			a2 := fileBound(r, n)
			b2 := a2 + fileSpan(r)
			if r.Intn(3) == 0 {
				fc.Kind = "fsl"
				// second pair relative to the first slice
				c := r.Range(0, 70000)
				d := c + fileSpan(r)
				fc.B = [4]string{bound(a1), bound(a1 + fileSpan(r) + fileSpan(r)), strconv.Itoa(c), strconv.Itoa(d)}
			} else {
				fc.Kind = "fcat"
				fc.B = [4]string{bound(a1), bound(b1), bound(a2), bound(b2)}
			}
			if r.Intn(15) == 0 {
				fc.B[1] = "_"
			}
			if r.Intn(15) == 0 {
				fc.B[3] = "_"
			}
			runFileCase(o, fc)
			if f == 0 && i < 2 {
				o.Sample(fc.OpText())
			}
		}
	}
	o.Stat("file_backed_binaries", nFiles)
}
