//go:build verif

package main

import (
	"bytes"
	"context"
	"fmt"
	"io"
	"io/fs"

	_ "github.com/wader/fq/format/all"
	"github.com/wader/fq/pkg/interp"
)

// virtual OS for an in-process interpreter (no files, no terminal), after format/fuzz_test.go
// vfs serves in-memory regular files (memFiles) to fq's `open`: the reader stack is the one of a real
// file (ctxreadseeker -> progressreadseeker -> aheadreadseeker -> IOBitReadSeeker, binary.go:249-289)
type vfs struct{}

var memFiles = map[string][]byte{}

type memFile struct {
	*bytes.Reader
	name string
	size int64
}

func (m memFile) Stat() (fs.FileInfo, error) {
	return interp.FixedFileInfo{FName: m.name, FSize: m.size}, nil
}
func (memFile) Close() error { return nil }

func (vfs) Open(name string) (fs.File, error) {
	if b, ok := memFiles[name]; ok {
		return memFile{Reader: bytes.NewReader(b), name: name, size: int64(len(b))}, nil
	}
	return nil, fmt.Errorf("%s: file not found", name)
}

type vin struct {
	interp.FileReader
	io.Writer
}

func (vin) IsTerminal() bool { return false }
func (vin) Size() (int, int) { return 120, 25 }

type vout struct{ io.Writer }

func (vout) Size() (int, int)  { return 120, 25 }
func (vout) IsTerminal() bool { return false }

type vos struct{}

func (vos) Platform() interp.Platform { return interp.Platform{} }
func (vos) Stdin() interp.Input {
	return vin{FileReader: interp.FileReader{R: bytes.NewBuffer(nil)}}
}
func (vos) Stdout() interp.Output                            { return vout{io.Discard} }
func (vos) Stderr() interp.Output                            { return vout{io.Discard} }
func (vos) InterruptChan() chan struct{}                     { return nil }
func (vos) Environ() []string                                { return nil }
func (vos) Args() []string                                   { return []string{"fq", "-n", "."} }
func (vos) ConfigDir() (string, error)                       { return "/config", nil }
func (vos) FS() fs.FS                                        { return vfs{} }
func (vos) History() ([]string, error)                       { return nil, nil }
func (vos) Readline(opts interp.ReadlineOpts) (string, error) { return "", io.EOF }

var theInterp *interp.Interp

func getInterp() *interp.Interp {
	if theInterp == nil {
		i, err := interp.New(vos{}, interp.DefaultRegistry)
		if err != nil {
			panic(err)
		}
		theInterp = i
	}
	return theInterp
}

// evalAll evaluates one jq program with the real interpreter and returns all outputs
// (an error output ends the stream, as in jq).
func evalAll(prog string) ([]any, error) {
	it, err := getInterp().Eval(context.Background(), nil, prog, interp.EvalOpts{})
	if err != nil {
		return nil, err
	}
	var vs []any
	for {
		v, ok := it.Next()
		if !ok {
			break
		}
		if e, ok := v.(error); ok {
			return vs, e
		}
		vs = append(vs, v)
	}
	return vs, nil
}
