//go:build verif

// C09 harness: random expression trees over fq's binary-value alphabet, evaluated in-process by the
// real interpreter (interp.Eval, many expressions per program) and written for the Lean driver
// (lean/Drv/C09.lean) as `<kind> <params> <s-expression> TAB obs ; obs ; …`.
package main

import (
	"flag"
	"fmt"
	"math/big"
	"os"
	"path/filepath"
	"strconv"
	"strings"
	"time"

	"github.com/wader/fq/internal/verifharness/hlib"
)

// ---------------------------------------------------------------- cases

type Case struct {
	Kind   string
	Params []string
	Tree   *N // nil for kind num
	Comps  []*N
}

func (c *Case) OpText() string {
	ps := append([]string{c.Kind}, c.Params...)
	if c.Tree != nil {
		ps = append(ps, c.Tree.Sexpr())
	}
	return strings.Join(ps, " ")
}

func u(op string, k *N) *N                 { return nd(op, nil, k) }
func sl(a, b string, k *N) *N              { return nd("sl", []string{a, b}, k) }
func arr(ks ...*N) *N                      { return nd("a", nil, ks...) }
func lit(n string) *N                      { return nd("i", []string{n}) }
func padOp(unit string, n string, k *N) *N { return nd("to"+unitName(unit)+"n", []string{n}, k) }
func unitName(unit string) string {
	if unit == "1" {
		return "bits"
	}
	return "bytes"
}

// mkCase builds the component expressions of a case exactly as the driver does (Drv/C09.lean).
func mkCase(kind string, params []string, t *N) (*Case, error) {
	c := &Case{Kind: kind, Params: params, Tree: t}
	need := func(k int) error {
		if len(params) != k {
			return fmt.Errorf("%s: want %d parameters", kind, k)
		}
		return nil
	}
	needTree := func() error {
		if t == nil {
			return fmt.Errorf("%s: missing expression", kind)
		}
		return nil
	}
	switch kind {
	case "ev":
		if err := need(0); err != nil {
			return nil, err
		}
		if err := needTree(); err != nil {
			return nil, err
		}
		c.Comps = []*N{t}
	case "split":
		if err := need(1); err != nil {
			return nil, err
		}
		if err := needTree(); err != nil {
			return nil, err
		}
		k := params[0]
		c.Comps = []*N{t, u("tobits", arr(sl("_", k, t), sl(k, "_", t))), u("tobits", t)}
	case "slsl":
		if err := need(4); err != nil {
			return nil, err
		}
		if err := needTree(); err != nil {
			return nil, err
		}
		c.Comps = []*N{t, sl(params[0], params[1], t), sl(params[2], params[3], sl(params[0], params[1], t))}
	case "pad":
		if err := need(2); err != nil {
			return nil, err
		}
		if err := needTree(); err != nil {
			return nil, err
		}
		if params[0] != "1" && params[0] != "8" {
			return nil, fmt.Errorf("pad: unit")
		}
		p := padOp(params[0], params[1], t)
		c.Comps = []*N{u("tobits", t), p, u("num", t), u("num", p), u("tobits", u("tobytes", t))}
	case "idx":
		if err := need(1); err != nil {
			return nil, err
		}
		if err := needTree(); err != nil {
			return nil, err
		}
		c.Comps = []*N{t, nd("idx", []string{params[0]}, t), u("num", sl("_", "1", sl(params[0], "_", t)))}
	case "keys":
		if err := need(0); err != nil {
			return nil, err
		}
		if err := needTree(); err != nil {
			return nil, err
		}
		c.Comps = []*N{t, u("size", t), u("start", t), u("stop", t), u("len", t), u("unit", t), u("bits", t), u("bytes", t)}
	case "expl":
		if err := need(0); err != nil {
			return nil, err
		}
		if err := needTree(); err != nil {
			return nil, err
		}
		c.Comps = []*N{t, u("expl", t)}
	case "num":
		if err := need(1); err != nil || t != nil {
			return nil, fmt.Errorf("num: want one integer")
		}
		n := lit(params[0])
		c.Comps = []*N{u("tobits", n), u("num", u("tobits", n)), u("tobytes", arr(n)), u("tobytes", n)}
	case "cat":
		if err := need(0); err != nil {
			return nil, err
		}
		if err := needTree(); err != nil {
			return nil, err
		}
		if t.Op != "a" {
			return nil, fmt.Errorf("cat: want an array")
		}
		c.Comps = []*N{u("tobits", t), u("tobytes", t)}
		// depth first: every member that is not a literal is also observed on its own (Drv/C09.lean walkMembers)
		var walk func(ms []*N)
		walk = func(ms []*N) {
			for _, m := range ms {
				switch m.Op {
				case "i", "fh", "s", "z", "t", "f", "o", "dvs":
				case "a":
					walk(m.Kids)
				case "dv":
					c.Comps = append(c.Comps, u("tobits", m))
				default:
					c.Comps = append(c.Comps, m)
				}
			}
		}
		walk(t.Kids)
	case "memb":
		if err := need(0); err != nil {
			return nil, err
		}
		if err := needTree(); err != nil {
			return nil, err
		}
		a61 := nd("s", []string{"61"})
		c.Comps = []*N{t, u("tobytes", arr(t)), u("tobytes", arr(lit("1"), a61, t)),
			u("tobytes", arr(t, u("tobits", a61))), u("tobits", arr(arr(t)))}
	case "bad":
		if err := need(0); err != nil {
			return nil, err
		}
		if err := needTree(); err != nil {
			return nil, err
		}
		c.Comps = []*N{u("tobits", t), u("tobytes", t), u("tobytes", arr(t)), u("hex", t), u("tobytesr", t)}
	default:
		return nil, fmt.Errorf("unknown case kind %q", kind)
	}
	return c, nil
}

func parseCase(line string) (*Case, error) {
	i := strings.IndexByte(line, '(')
	head := line
	var t *N
	if i >= 0 {
		head = line[:i]
		var err error
		t, err = ParseSexpr(line[i:])
		if err != nil {
			return nil, err
		}
	}
	ws := strings.Fields(head)
	if len(ws) == 0 {
		return nil, fmt.Errorf("empty")
	}
	return mkCase(ws[0], ws[1:], t)
}

// ---------------------------------------------------------------- evaluation by the real interpreter

const obsDef = `def _c09o:
  if _exttype == "binary" then ["b", .unit, .bits.start, .bits.size, (tobits | to_hex)]
  elif type == "string" then ["s", to_hex]
  elif type == "array" then ["a", map(_c09o)]
  elif type == "number" then ["n", .]
  elif type == "null" then ["z"]
  elif type == "boolean" then [if . then "t" else "f" end]
  else ["o"] end;
`

// errClass names the error for statistics and diagnostics only: the driver treats every `err:*` as "rejected with an
// error" and never requires a particular class (wording and error types are not part of the property).
func errClass(msg string) string {
	switch {
	case strings.Contains(msg, "byte in binary list must be bytes"):
		return "err:byterange"
	case strings.Contains(msg, "synthetic"):
		return "err:synthetic"
	case strings.Contains(msg, "can't be") && strings.Contains(msg, "binary"):
		return "err:notbinary"
	case strings.Contains(msg, "outside buffer"):
		return "err:outside"
	case strings.Contains(msg, "invalid seek offset"):
		return "err:offset"
	case strings.Contains(msg, "cannot subtract"):
		return "err:type"
	case strings.Contains(msg, "negative nBits"):
		return "err:negbits"
	}
	return "err:other"
}

var otherErrs = map[string]int{}

func fmtObs(v any) string {
	a, ok := v.([]any)
	if !ok || len(a) == 0 {
		return fmt.Sprintf("?%T", v)
	}
	tag, _ := a[0].(string)
	num := func(x any) string {
		switch n := x.(type) {
		case int:
			return strconv.Itoa(n)
		case *big.Int:
			return n.String()
		case float64:
			return fmt.Sprintf("float%016x", n)
		}
		return fmt.Sprintf("?%T", x)
	}
	hx := func(x any) string {
		s, _ := x.(string)
		if s == "" {
			return "-"
		}
		return s
	}
	switch {
	case tag == "b" && len(a) == 5:
		return "b:" + num(a[1]) + ":" + num(a[2]) + ":" + num(a[3]) + ":" + hx(a[4])
	case tag == "s" && len(a) == 2:
		return "s:" + hx(a[1])
	case tag == "n" && len(a) == 2:
		return "n:" + num(a[1])
	case tag == "a" && len(a) == 2:
		es, _ := a[1].([]any)
		ps := make([]string, len(es))
		for i, e := range es {
			ps[i] = fmtObs(e)
		}
		return "a:[" + strings.Join(ps, ",") + "]"
	case tag == "e" && len(a) == 2:
		msg, _ := a[1].(string)
		c := errClass(msg)
		if c == "err:other" {
			otherErrs[msg]++
		}
		return c
	case tag == "z" || tag == "t" || tag == "f" || tag == "o":
		return tag
	}
	return "?" + tag
}

// evalComps evaluates the jq texts in ONE program; on a failure of the whole program
// (a Go panic, or an error escaping the per-expression try) it falls back to one by one.
func evalComps(jqs []string) []string {
	out := make([]string, len(jqs))
	var sb strings.Builder
	sb.WriteString(obsDef)
	sb.WriteString("[\n")
	for i, q := range jqs {
		if i > 0 {
			sb.WriteString(",\n")
		}
		sb.WriteString("(try (" + q + " | _c09o) catch [\"e\", tostring])")
	}
	sb.WriteString("\n]")
	var vs []any
	var err error
	_, panicked := hlib.Catch(func() string {
		vs, err = evalAll(sb.String())
		return ""
	})
	if !panicked && err == nil && len(vs) == 1 {
		if a, ok := vs[0].([]any); ok && len(a) == len(jqs) {
			for i, v := range a {
				out[i] = fmtObs(v)
			}
			return out
		}
	}
	if len(jqs) == 1 {
		switch {
		case panicked:
			out[0] = "panic"
		case err != nil:
			out[0] = "harness-error:" + hlib.San(err.Error())
		default:
			out[0] = fmt.Sprintf("harness-error:outputs=%d", len(vs))
		}
		return out
	}
	for i, q := range jqs {
		out[i] = evalComps([]string{q})[0]
	}
	return out
}

type runner struct {
	o       *hlib.Out
	pending []*Case
	batch   int
}

func (rn *runner) add(c *Case) {
	rn.pending = append(rn.pending, c)
	if len(rn.pending) >= rn.batch {
		rn.flush()
	}
}

func (rn *runner) flush() {
	if len(rn.pending) == 0 {
		return
	}
	var jqs []string
	for _, c := range rn.pending {
		for _, k := range c.Comps {
			q, err := k.JQ()
			if err != nil {
				q = `error("harness: unrenderable")`
			}
			jqs = append(jqs, q)
		}
	}
	res := evalComps(jqs)
	p := 0
	for _, c := range rn.pending {
		obs := res[p : p+len(c.Comps)]
		p += len(c.Comps)
		op := c.OpText()
		rn.o.Case(op, strings.Join(obs, " ; "))
		rn.account(c, op, obs)
	}
	rn.pending = rn.pending[:0]
}

// statistics and the non-triviality rule of lib/props/C09.json
func (rn *runner) account(c *Case, op string, obs []string) {
	o := rn.o
	o.Stat("kind_"+c.Kind, 1)
	depth := 0
	if c.Tree != nil {
		depth = c.Tree.Depth()
		c.Tree.Walk(func(n *N) { o.Stat("op_"+n.Op, 1) })
	}
	o.Stat(fmt.Sprintf("depth_%d", depth), 1)
	isErr := strings.HasPrefix(obs[0], "err:")
	for _, ob := range obs {
		if strings.HasPrefix(ob, "err:") {
			o.Stat("obs_"+strings.ReplaceAll(ob, ":", "_"), 1)
		}
		if strings.HasPrefix(ob, "b:") {
			f := strings.Split(ob, ":")
			st, _ := strconv.Atoi(f[2])
			ln, _ := strconv.Atoi(f[3])
			if st%8 != 0 || ln%8 != 0 {
				o.Stat("obs_binary_unaligned", 1)
			} else {
				o.Stat("obs_binary_aligned", 1)
			}
		}
	}
	if c.Kind == "ev" {
		if depth >= 2 && !isErr {
			o.Class(op)
		}
	} else if !(isErr && c.Kind != "num" && c.Kind != "bad") {
		o.Class(op)
	}
}

// ---------------------------------------------------------------- decode-value leaves

type field struct {
	path       string
	start, len int64
}

type root struct {
	hex    string
	format string
	fields []field
	synth  []string // paths of synthetic decode values (no input bits)
}

// fieldsOf lists the decode values of a root that can be binaries, with the range the
// implementation itself reports through ._start/._len (a code path different from ToBinary).
func fieldsOf(hexs, format string) []field {
	// ._bits is null exactly for synthetic values (decode.go, JQValueKey "_bits"): a code path independent of ToBinary
	prog := `"` + hexs + `" | from_hex | ` + format +
		` | [.. | select(._bits != null) | select(try (tobytesrange | true) catch false) | [(topath | path_to_expr), ._start, ._len]]`
	var vs []any
	var err error
	if _, p := hlib.Catch(func() string { vs, err = evalAll(prog); return "" }); p || err != nil || len(vs) != 1 {
		return nil
	}
	var fs []field
	a, _ := vs[0].([]any)
	for _, e := range a {
		t, _ := e.([]any)
		if len(t) != 3 {
			continue
		}
		p, _ := t[0].(string)
		toI := func(x any) int64 {
			switch n := x.(type) {
			case int:
				return int64(n)
			case *big.Int:
				return n.Int64()
			}
			return -1
		}
		if okPath(p) {
			fs = append(fs, field{p, toI(t[1]), toI(t[2])})
		}
	}
	return fs
}

// synthOf lists the synthetic decode values of a root: scalars calculated by the decoder, `._bits == null`
func synthOf(hexs, format string) []string {
	prog := `"` + hexs + `" | from_hex | ` + format + ` | [.. | select(._bits == null) | (topath | path_to_expr)]`
	var vs []any
	var err error
	if _, p := hlib.Catch(func() string { vs, err = evalAll(prog); return "" }); p || err != nil || len(vs) != 1 {
		return nil
	}
	var ps []string
	a, _ := vs[0].([]any)
	for _, e := range a {
		if p, ok := e.(string); ok && okPath(p) {
			ps = append(ps, p)
		}
	}
	return ps
}

func (rt root) synthLeaf(p string) *N { return nd("dvs", []string{rt.hex, rt.format, p}) }

func (rt root) leaf(f field) *N {
	return nd("dv", []string{rt.hex, strconv.FormatInt(f.start, 10), strconv.FormatInt(f.len, 10), rt.format, f.path})
}

// refreshDV re-derives START/LEN of the dv leaves of a replayed tree from the implementation
func refreshDV(t *N) {
	cache := map[string][]field{}
	t.Walk(func(n *N) {
		if n.Op != "dv" || len(n.Args) != 5 {
			return
		}
		key := n.Args[0] + " " + n.Args[3]
		fs, ok := cache[key]
		if !ok {
			if okIdent(n.Args[3]) {
				fs = fieldsOf(n.Args[0], n.Args[3])
			}
			cache[key] = fs
		}
		for _, f := range fs {
			if f.path == n.Args[4] {
				n.Args[1] = strconv.FormatInt(f.start, 10)
				n.Args[2] = strconv.FormatInt(f.len, 10)
			}
		}
	})
}

// ---------------------------------------------------------------- generator

type gen struct {
	r     *hlib.Rand
	roots []root
}

func (g *gen) pick(ws ...int) int {
	t := 0
	for _, w := range ws {
		t += w
	}
	x := g.r.Intn(t)
	for i, w := range ws {
		if x < w {
			return i
		}
		x -= w
	}
	return 0
}

var strAlphabet = []string{"a", "b", "z", "0", " ", "\x00", "\x7f", "é", "ß", "€", "語", "😀", "\"", "\\", "(", "\n", "\t"}

func (g *gen) str() *N {
	r := g.r
	if r.Intn(12) == 0 {
		// raw bytes, not valid UTF-8 in general
		return nd("s", []string{hexArg(r.Bytes(r.Range(1, 5)))})
	}
	n := r.Range(0, 6)
	if r.Intn(4) == 0 {
		n = r.Range(0, 2)
	}
	s := ""
	for i := 0; i < n; i++ {
		s += strAlphabet[r.Intn(len(strAlphabet))]
	}
	return nd("s", []string{hexArg([]byte(s))})
}

func (g *gen) intStr(inArr bool) string {
	r := g.r
	if inArr && r.Intn(100) < 82 {
		return strconv.Itoa(r.Intn(256))
	}
	switch g.pick(10, 25, 10, 15, 10, 8, 10, 12) {
	case 0:
		return []string{"0", "1", "255", "256", "-1", "128", "127", "65535", "65536", "257", "300", "-256"}[r.Intn(12)]
	case 1:
		return strconv.Itoa(r.Intn(256))
	case 2:
		return strconv.Itoa(r.Range(256, 70000))
	case 3:
		// random bit length 1..63
		return strconv.FormatUint(r.U64()>>uint(r.Range(1, 63)), 10)
	case 4:
		return "-" + strconv.FormatUint(r.U64()>>uint(r.Range(1, 63)), 10)
	case 5:
		return []string{"9223372036854775807", "9223372036854775808", "18446744073709551615", "18446744073709551616", "-9223372036854775808", "-9223372036854775809", "4294967295", "4294967296"}[r.Intn(8)]
	case 6:
		// big integer of 65..200 bits
		b := new(big.Int).SetBytes(r.Bytes(r.Range(9, 25)))
		b.Rsh(b, uint(r.Intn(8)))
		return b.String()
	default:
		// powers of two and neighbours: bit-length boundaries for padBefore
		k := uint(r.Range(0, 130))
		b := new(big.Int).Lsh(big.NewInt(1), k)
		b.Add(b, big.NewInt(int64(r.Range(-1, 1))))
		return b.String()
	}
}

// target value for a computed array member: around the 0..255 boundaries, both signs
func (g *gen) target() *big.Int {
	r := g.r
	if r.Intn(3) == 0 {
		return big.NewInt(int64(r.Range(-300, 300)))
	}
	return big.NewInt(int64([]int{-1, -2, -127, -128, -129, -255, -256, -257, 0, 1, 127, 128, 254, 255, 256, 257, -65535, 65536}[r.Intn(18)]))
}

// computedNum: a number that is NOT a literal: fq's own results (.[i], .size, tonumber: *big.Int) and
// arithmetic on them or on literals (int - int stays int, anything with a *big.Int operand is *big.Int)
func (g *gen) computedNum() *N {
	r := g.r
	t := g.target()
	subTo := func(v *big.Int, e *N) *N {
		k := new(big.Int).Sub(v, t)
		return nd("sub", []string{k.String()}, e)
	}
	switch g.pick(30, 12, 14, 16, 10, 18) {
	case 0:
		v := r.Intn(256)
		return subTo(big.NewInt(int64(v)), nd("idx", []string{"0"}, u("tobytes", lit(strconv.Itoa(v)))))
	case 1:
		n := r.Range(0, 6)
		return subTo(big.NewInt(int64(n)), u("size", u("tobytes", nd("s", []string{hexArg(r.Bytes(n))}))))
	case 2:
		v := new(big.Int).SetUint64(r.U64() >> uint(r.Range(1, 63)))
		return subTo(v, u("num", u("tobits", lit(v.String()))))
	case 3:
		// big literal minus big literal
		v := new(big.Int).SetBytes(r.Bytes(r.Range(9, 12)))
		v.Add(v, new(big.Int).Lsh(big.NewInt(1), 64))
		return subTo(v, lit(v.String()))
	case 4:
		// no arithmetic: 0..255 as *big.Int
		return nd("idx", []string{strconv.Itoa(r.Range(0, 1))}, u("tobytes", lit(strconv.Itoa(r.Range(256, 65535)))))
	default:
		// int - int (stays int)
		v := big.NewInt(int64(r.Range(-500, 500)))
		return subTo(v, lit(v.String()))
	}
}

func (g *gen) bad() *N {
	return nd([]string{"z", "t", "f", "o"}[g.r.Intn(4)], nil)
}

func (g *gen) dv() *N {
	rt := g.roots[g.r.Intn(len(g.roots))]
	if len(rt.synth) > 0 && g.r.Intn(9) == 0 {
		return rt.synthLeaf(rt.synth[g.r.Intn(len(rt.synth))])
	}
	return rt.leaf(rt.fields[g.r.Intn(len(rt.fields))])
}

// a synthetic decode value (nil when no root has one)
func (g *gen) dvs() *N {
	for try := 0; try < 8; try++ {
		rt := g.roots[g.r.Intn(len(g.roots))]
		if len(rt.synth) > 0 {
			return rt.synthLeaf(rt.synth[g.r.Intn(len(rt.synth))])
		}
	}
	return nil
}

func (g *gen) float() *N {
	r := g.r
	k := []int{1, -1, 1, 3, -3, 511, 513, 255, 0, 2, 512}[r.Intn(11)]
	if r.Intn(4) == 0 {
		k = r.Range(-20, 530)
	}
	return nd("fh", []string{strconv.Itoa(k)})
}

// catArr: an array for the `cat` law: zero (and truncating-to-zero) members at random positions, next to
// members that keep toBitReaderEx off its flat fast path (nested array, binary, decode value)
func (g *gen) catArr(d int) *N {
	r := g.r
	n := r.Range(2, 5)
	ks := make([]*N, n)
	zero := func() *N {
		switch r.Intn(6) {
		case 0:
			return nd("fh", []string{[]string{"1", "-1", "0"}[r.Intn(3)]})
		case 1:
			v := r.Intn(256)
			return nd("sub", []string{strconv.Itoa(v)}, nd("idx", []string{"0"}, u("tobytes", lit(strconv.Itoa(v)))))
		default:
			return lit("0")
		}
	}
	slow := func() *N {
		switch r.Intn(5) {
		case 0:
			return arr(lit(strconv.Itoa(r.Intn(256))))
		case 1:
			if d >= 2 {
				return g.catArr(d - 1)
			}
			return arr()
		case 2:
			if len(g.roots) > 0 {
				return g.dv()
			}
			return u("tobits", lit(g.intStr(false)))
		case 3:
			return u("tobytes", g.str())
		default:
			return u("tobits", lit(g.intStr(false)))
		}
	}
	for i := range ks {
		switch g.pick(30, 25, 25, 10, 10) {
		case 0:
			ks[i] = zero()
		case 1:
			ks[i] = slow()
		case 2:
			ks[i] = lit(g.intStr(true))
		case 3:
			ks[i] = g.str()
		default:
			ks[i] = g.V(min(d-1, 2), true)
		}
	}
	if r.Intn(7) != 0 {
		ks[r.Intn(n)] = slow()
		ks[(r.Intn(n-1)+1+r.Intn(n))%n] = zero() // may overwrite the slow member: flat lists stay in the mix
	}
	return arr(ks...)
}

func (g *gen) leaf(inArr bool) *N {
	if inArr && g.r.Intn(30) == 0 {
		return g.float()
	}
	dvw := 14
	if len(g.roots) == 0 {
		dvw = 0
	}
	switch g.pick(32, 45, dvw, 3) {
	case 0:
		return g.str()
	case 1:
		return lit(g.intStr(inArr))
	case 2:
		return g.dv()
	default:
		return g.bad()
	}
}

// V: any value that may be given to tobits/tobytes/to_hex or be an array member
func (g *gen) V(d int, inArr bool) *N {
	if d <= 0 {
		return g.leaf(inArr)
	}
	if inArr && d >= 3 && g.r.Intn(8) == 0 {
		return g.computedNum()
	}
	nw, aw := 0, 0
	if d >= 2 {
		nw, aw = 8, 4
	}
	switch g.pick(22, 26, 32, nw, 6, aw) {
	case 0:
		return g.leaf(inArr)
	case 1:
		n := g.r.Range(0, 4)
		if g.r.Intn(5) == 0 {
			n = g.r.Range(0, 9)
		}
		ks := make([]*N, n)
		for i := range ks {
			ks[i] = g.V(d-1, true)
		}
		return arr(ks...)
	case 2:
		return g.B(d)
	case 3:
		return g.Num(d)
	case 4:
		return g.S(d)
	default:
		return g.A(d)
	}
}

func (g *gen) padCount() string {
	if g.r.Intn(25) == 0 {
		return strconv.Itoa(-g.r.Range(1, 3))
	}
	return []string{"0", "1", "2", "3", "4", "5", "8", "16"}[g.r.Intn(8)]
}

func (g *gen) bound() string {
	r := g.r
	switch g.pick(55, 25, 12, 8) {
	case 0:
		return strconv.Itoa(r.Range(-10, 10))
	case 1:
		return strconv.Itoa(r.Range(-3, 3))
	case 2:
		return strconv.Itoa(r.Range(-90, 90))
	default:
		return []string{"9223372036854775807", "-9223372036854775808", "18446744073709551616", "-18446744073709551616", "4294967296", "1000000"}[r.Intn(6)]
	}
}

func (g *gen) bounds() (string, string) {
	r := g.r
	var a, b string
	switch g.pick(20, 42, 16, 10, 12) {
	case 0:
		a = "_"
	case 1:
		a = strconv.Itoa(r.Range(0, 3))
	case 2:
		a = strconv.Itoa(-r.Range(1, 6))
	case 3:
		a = strconv.Itoa(r.Range(4, 12))
	default:
		a = g.bound()
	}
	av, aerr := strconv.Atoi(a)
	switch g.pick(20, 30, 14, 10, 8, 18) {
	case 0:
		b = "_"
	case 1:
		if aerr == nil && av >= 0 {
			b = strconv.Itoa(av + r.Range(1, 8))
		} else {
			b = strconv.Itoa(r.Range(1, 12))
		}
	case 2:
		b = strconv.Itoa(-r.Range(1, 3))
	case 3:
		b = strconv.Itoa(r.Range(1, 12))
	case 4:
		b = a
	default:
		b = g.bound()
	}
	if a == "_" && b == "_" {
		b = strconv.Itoa(r.Range(0, 5))
	}
	return a, b
}

// B: an expression that is a binary (or an error)
func (g *gen) B(d int) *N {
	if d < 1 {
		d = 1
	}
	sw, kw := 0, 0
	if d >= 2 {
		sw, kw = 32, 14
	}
	switch g.pick(54, sw, kw) {
	case 0:
		v := g.V(d-1, false)
		switch g.pick(22, 22, 12, 12, 16, 16) {
		case 0:
			return u("tobits", v)
		case 1:
			return u("tobytes", v)
		case 2:
			return nd("tobitsn", []string{g.padCount()}, v)
		case 3:
			return nd("tobytesn", []string{g.padCount()}, v)
		case 4:
			return u("tobitsr", v)
		default:
			return u("tobytesr", v)
		}
	case 1:
		a, b := g.bounds()
		return sl(a, b, g.B(d-1))
	default:
		return u([]string{"bits", "bytes"}[g.r.Intn(2)], g.B(d-1))
	}
}

// Num: an expression that is a number or null
func (g *gen) Num(d int) *N {
	if d >= 3 && g.r.Intn(5) == 0 {
		if g.r.Intn(2) == 0 {
			return g.computedNum()
		}
		return nd("sub", []string{strconv.Itoa(g.r.Range(-300, 300))}, g.Num(d-1))
	}
	b := g.B(d - 1)
	switch g.pick(40, 10, 10, 10, 5, 8, 17) {
	case 0:
		return nd("idx", []string{g.bound()}, b)
	case 1:
		return u("size", b)
	case 2:
		return u("start", b)
	case 3:
		return u("stop", b)
	case 4:
		return u("unit", b)
	case 5:
		return u("len", b)
	default:
		return u("num", b)
	}
}

func (g *gen) S(d int) *N {
	if d >= 2 && g.r.Intn(2) == 0 {
		return u("str", g.B(d-1))
	}
	return u("hex", g.V(d-1, false))
}

func (g *gen) A(d int) *N { return u("expl", g.B(d-1)) }

func (g *gen) Top(d int) *N {
	// (a bare V is not observed at top level: a decode value is in the alphabet only as a source of bits)
	switch g.pick(48, 27, 13, 12) {
	case 0:
		return g.B(d)
	case 1:
		return g.Num(d)
	case 2:
		return g.S(d)
	default:
		return g.A(d)
	}
}

func (g *gen) depth() int {
	// depth bound of the property: 5
	return []int{2, 3, 3, 4, 4, 4, 5, 5, 5, 5}[g.r.Intn(10)]
}

// ---------------------------------------------------------------- main

func must(c *Case, err error) *Case {
	if err != nil {
		panic(err)
	}
	return c
}

func main() {
	var expr string
	flag.StringVar(&expr, "expr", "", "debug: evaluate one jq program and print the outputs")
	var mode string
	flag.StringVar(&mode, "mode", "ev", "ev: expression trees and laws; file: file-backed binaries")
	cfg := hlib.ParseFlags()
	if expr != "" {
		t := time.Now()
		vs, err := evalAll(expr)
		for _, v := range vs {
			fmt.Printf("%T %v\n", v, v)
		}
		fmt.Println("err:", err, time.Since(t))
		return
	}
	o := hlib.NewOut(cfg.Out)
	defer o.Close()
	rn := &runner{o: o, batch: 150}
	defer func() {
		for m, n := range otherErrs {
			fmt.Fprintf(os.Stderr, "unclassified error (%d times): %s\n", n, m)
		}
	}()
	defer rn.flush()

	if cfg.Replay != "" {
		for _, l := range hlib.ReplayLines(cfg.Replay) {
			if strings.HasPrefix(l, "fcat ") || strings.HasPrefix(l, "fsl ") {
				rn.flush()
				if fc, err := parseFileCase(l); err == nil {
					runFileCase(o, fc)
				} else {
					o.Case(l, "harness-parse-error")
				}
				continue
			}
			c, err := parseCase(l)
			if err != nil {
				// keep the line: the driver answers BADOP, nothing is silently dropped
				o.Case(l, "harness-parse-error")
				continue
			}
			if c.Tree != nil {
				refreshDV(c.Tree)
				c, _ = mkCase(c.Kind, c.Params, c.Tree)
			}
			rn.add(c)
		}
		return
	}

	r := hlib.NewRand(cfg.Seed)
	if mode == "file" {
		genFileCases(o, r, cfg.Thorough())
		return
	}
	g := &gen{r: r}

	// roots for decode-value leaves: a real format with unaligned flag fields, and a synthetic
	// data-driven format (synth.go) over random bytes
	repo := os.Getenv("VERIF_REPO")
	if repo == "" {
		repo = "/repo"
	}
	if b, err := os.ReadFile(filepath.Join(repo, "format/mp3/testdata/mp3_frame_xing")); err == nil {
		hx := hexArg(b)
		if fs := fieldsOf(hx, "mp3_frame_xing"); len(fs) > 0 {
			// keep the root, the flag struct and its one-bit members, a few byte fields
			var keep []field
			for _, f := range fs {
				if !strings.HasPrefix(f.path, ".toc[") || strings.HasSuffix(f.path, "[7]") {
					keep = append(keep, f)
				}
			}
			g.roots = append(g.roots, root{hx, "mp3_frame_xing", keep, synthOf(hx, "mp3_frame_xing")})
			o.Stat("dv_fields_mp3_frame_xing", len(keep))
		}
	}
	if b, err := os.ReadFile(filepath.Join(repo, "format/mp3/testdata/header-zeros-frames.mp3")); err == nil {
		// a real decoder with calculated (synthetic) fields: crc_calculated, sample_count, …
		hx := hexArg(b)
		if sy := synthOf(hx, "mp3"); len(sy) > 0 {
			if len(sy) > 6 {
				sy = sy[:6]
			}
			var keep []field
			for _, f := range fieldsOf(hx, "mp3") {
				if strings.Contains(f.path, ".header") && len(keep) < 12 {
					keep = append(keep, f)
				}
			}
			if len(keep) > 0 {
				g.roots = append(g.roots, root{hx, "mp3", keep, sy})
				o.Stat("dv_synthetic_values_mp3", len(sy))
			}
		}
	}
	nSynth := 6
	for i := 0; i < nSynth; i++ {
		hx := hexArg(r.Bytes(r.Range(6, 40)))
		if fs := fieldsOf(hx, "verif_c09"); len(fs) > 0 {
			sy := synthOf(hx, "verif_c09")
			g.roots = append(g.roots, root{hx, "verif_c09", fs, sy})
			o.Stat("dv_fields_synthetic", len(fs))
			o.Stat("dv_synthetic_values", len(sy))
		}
	}
	// the mp3 root is long (312 hex digits per leaf): give the synthetic roots more weight
	if len(g.roots) > 1 {
		g.roots = append(g.roots, g.roots[1:]...)
	}

	thorough := cfg.Thorough()
	scale := 1
	if thorough {
		scale = 8
	}

	// 1. pinned cases (examples of binary.jq / doc, boundary numbers)
	for _, l := range []string{
		"ev (tobytes (a (i 1) (i 2) (i 3)))",
		"ev (tobits (i 0))",
		"ev (tobytes (i 15))",
		"ev (tobytesr (i 15))",
		"ev (sl 1 _ (tobytes (a (s 6162) (a (i 1) (a (i 2))))))",
		"ev (tobytes (a (i 256)))",
		"ev (tobytes (a (i -1)))",
		"ev (tobits (z))",
		"ev (num (tobits (i 18446744073709551616)))",
		"ev (stop (bytes (sl 3 12 (tobits (s 616263)))))",
		"split 3 (tobits (s 6162))",
		"split 1 (tobytesr (i 3855))",
		"pad 8 2 (tobits (i 5))",
		"keys (bytes (sl 3 14 (tobits (s 616263))))",
		"cat (a (i 1) (i 0) (a (i 2)))",
		"cat (a (s 61) (i 0) (tobytes (s 62)))",
		"cat (a (a (i 255)) (i 0) (i 0) (a (i 255)))",
		"cat (a (fh 1) (a))",
		"memb (sub 98 (idx 0 (tobytes (s 61))))",
		"memb (sub 18446744073709551617 (i 18446744073709551616))",
		"memb (sub 3 (i 2))",
		"memb (size (tobytes (s 616263)))",
		"ev (tobytes (a (i 1) (s 61) (sub 98 (idx 0 (tobytes (s 61))))))",
	} {
		rn.add(must(parseCase(l)))
	}

	// 2. exhaustive small domains
	//  (a) every integer -4..300 as a lone number and as an array member
	for n := -4; n <= 300; n++ {
		rn.add(must(mkCase("num", []string{strconv.Itoa(n)}, nil)))
	}
	//  (b) every alignment: ranges [s, s+l) of a 4-byte string in both units, all laws
	exh := true
	for s := 0; s <= 9; s++ {
		for l := 0; l <= 18; l++ {
			for _, unit := range []string{"bits", "bytes"} {
				if !thorough && (s*19+l)%3 != int(cfg.Seed%3) {
					exh = false
					continue
				}
				base := func() *N {
					return u(unit, sl(strconv.Itoa(s), strconv.Itoa(s+l), u("tobits", nd("s", []string{hexArg(r.Bytes(4))}))))
				}
				rn.add(must(mkCase("keys", nil, base())))
				rn.add(must(mkCase("expl", nil, base())))
				rn.add(must(mkCase("pad", []string{"8", "0"}, base())))
				rn.add(must(mkCase("pad", []string{"1", strconv.Itoa(r.Range(0, 5))}, base())))
				for _, k := range []string{"0", "1", "2", "-1", strconv.Itoa(r.Range(-20, 20))} {
					rn.add(must(mkCase("split", []string{k}, base())))
					rn.add(must(mkCase("idx", []string{k}, base())))
				}
				a, b := g.bounds()
				c, d := g.bounds()
				rn.add(must(mkCase("slsl", []string{a, b, c, d}, base())))
			}
		}
	}
	if exh {
		o.Stat("exhaustive_small_domain", 1)
	}

	// 3. random expression trees, depth <= 5
	nEv := 12000 * scale
	for i := 0; i < nEv; i++ {
		t := g.Top(g.depth())
		c := must(mkCase("ev", nil, t))
		if (t.Op == "tobits" || t.Op == "tobytes") && t.Kids[0].Op == "a" {
			// a conversion of an array literal: also evaluate the concatenation statement on it
			c = must(mkCase("cat", nil, t.Kids[0]))
		}
		rn.add(c)
		if i < 4 {
			q, _ := t.JQ()
			o.Sample(c.OpText() + "   # jq: " + q)
		}
	}

	// 4. the algebraic laws instantiated on random binaries (depth <= 4 so that the law's own
	//    operators stay within depth 5+1)
	nLaw := 900 * scale
	for i := 0; i < nLaw; i++ {
		d := []int{1, 2, 2, 3, 3, 3, 4, 4}[r.Intn(8)]
		rn.add(must(mkCase("split", []string{g.bound()}, g.B(d))))
		a, b := g.bounds()
		c, e := g.bounds()
		rn.add(must(mkCase("slsl", []string{a, b, c, e}, g.B(d))))
		rn.add(must(mkCase("pad", []string{[]string{"1", "8"}[r.Intn(2)], g.padCount()}, g.B(d))))
		rn.add(must(mkCase("idx", []string{g.bound()}, g.B(d))))
		rn.add(must(mkCase("keys", nil, g.B(d))))
		rn.add(must(mkCase("expl", nil, g.B(d))))
		rn.add(must(mkCase("num", []string{g.intStr(false)}, nil)))
		rn.add(must(mkCase("memb", nil, g.computedNum())))
		rn.add(must(mkCase("cat", nil, g.catArr(3))))
		rn.add(must(mkCase("cat", nil, g.catArr(1))))
		if sv := g.dvs(); sv != nil && i%3 == 0 {
			// the non-convertible class among decode values: standalone, as array member, nested, next to binaries
			switch r.Intn(4) {
			case 0:
				rn.add(must(mkCase("bad", nil, sv)))
			case 1:
				rn.add(must(mkCase("bad", nil, arr(lit("1"), arr(sv)))))
			case 2:
				a := g.catArr(2)
				a.Kids[r.Intn(len(a.Kids))] = sv
				rn.add(must(mkCase("cat", nil, a)))
			default:
				rn.add(must(mkCase("ev", nil, nd("tobytesn", []string{g.padCount()}, arr(u("tobits", g.str()), sv)))))
			}
		}
		if i%6 == 0 {
			bads := []string{"(z)", "(t)", "(f)", "(o)", "(a (z))", "(a (i 1) (t))", "(a (a (o)))", "(a (s 61) (a (f)))"}
			t, _ := ParseSexpr(bads[r.Intn(len(bads))])
			rn.add(must(mkCase("bad", nil, t)))
		}
	}
}
