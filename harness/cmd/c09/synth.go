//go:build verif

package main

import (
	"fmt"

	"github.com/wader/fq/pkg/decode"
	"github.com/wader/fq/pkg/interp"
)

// A synthetic, data-driven format whose fields are NOT byte aligned:
//   n:u3, then n times { w:u5, v:u(w+1) } inside a struct array, then the rest as raw bits.
// Registered only in the harness binary (the overlay adds this package, nothing in /repo changes).
var synthGroup = &decode.Group{Name: "verif_c09"}

func init() {
	interp.RegisterFormat(synthGroup, &decode.Format{
		Description: "verification harness: unaligned fields",
		DecodeFn: func(d *decode.D) any {
			n := d.FieldU("n", 3)
			d.FieldArray("items", func(d *decode.D) {
				for i := uint64(0); i < n; i++ {
					d.FieldStruct("item", func(d *decode.D) {
						w := d.FieldU("w", 5)
						v := d.FieldU("v", int(w)+1)
						d.FieldValueUint("v_plus_w", v+w) // synthetic: calculated, no input bits
					})
				}
			})
			d.FieldValueUint("count", n) // synthetic
			d.FieldRawLen("rest", d.BitsLeft())
			return nil
		},
	})
	_ = fmt.Sprint
}
