//go:build verif

package main

import (
	"encoding/hex"
	"encoding/json"
	"fmt"
	"strconv"
	"strings"
	"unicode/utf8"
)

// N is a node of an expression tree over the property's alphabet. The s-expression text
// (Sexpr) is what the Lean driver parses; JQ is the program text given to the real interpreter.
type N struct {
	Op   string
	Args []string
	Kids []*N
}

func nd(op string, args []string, kids ...*N) *N { return &N{Op: op, Args: args, Kids: kids} }

func (n *N) Sexpr() string {
	var sb strings.Builder
	n.sexpr(&sb)
	return sb.String()
}

func (n *N) sexpr(sb *strings.Builder) {
	sb.WriteByte('(')
	sb.WriteString(n.Op)
	for _, a := range n.Args {
		sb.WriteByte(' ')
		sb.WriteString(a)
	}
	for _, k := range n.Kids {
		sb.WriteByte(' ')
		k.sexpr(sb)
	}
	sb.WriteByte(')')
}

func (n *N) Depth() int {
	d := 0
	for _, k := range n.Kids {
		if kd := k.Depth() + 1; kd > d {
			d = kd
		}
	}
	return d
}

func (n *N) Walk(f func(*N)) {
	f(n)
	for _, k := range n.Kids {
		k.Walk(f)
	}
}

var unaryJQ = map[string]string{
	"tobits": "tobits", "tobytes": "tobytes", "tobitsr": "tobitsrange", "tobytesr": "tobytesrange",
	"bits": ".bits", "bytes": ".bytes", "size": ".size", "start": ".start", "stop": ".stop", "unit": ".unit",
	"len": "length", "num": "tonumber", "str": "tostring", "expl": "explode", "hex": "to_hex",
}

func unhexArg(s string) ([]byte, error) {
	if s == "-" {
		return nil, nil
	}
	return hex.DecodeString(s)
}

func hexArg(b []byte) string {
	if len(b) == 0 {
		return "-"
	}
	return hex.EncodeToString(b)
}

func jqInt(s string) string {
	if strings.HasPrefix(s, "-") {
		return "(" + s + ")"
	}
	return s
}

func isInt(s string) bool {
	if strings.HasPrefix(s, "-") {
		s = s[1:]
	}
	if s == "" {
		return false
	}
	for _, c := range s {
		if c < '0' || c > '9' {
			return false
		}
	}
	return true
}

// JQ renders the tree as a jq program (a closed term).
func (n *N) JQ() (string, error) {
	argn := func(k int) error {
		if len(n.Args) != k {
			return fmt.Errorf("%s: want %d atoms", n.Op, k)
		}
		return nil
	}
	kid := func() (string, error) {
		if len(n.Kids) != 1 {
			return "", fmt.Errorf("%s: want one sub-expression", n.Op)
		}
		return n.Kids[0].JQ()
	}
	if fn, ok := unaryJQ[n.Op]; ok {
		if err := argn(0); err != nil {
			return "", err
		}
		k, err := kid()
		if err != nil {
			return "", err
		}
		return "(" + k + " | " + fn + ")", nil
	}
	switch n.Op {
	case "s":
		if err := argn(1); err != nil || len(n.Kids) != 0 {
			return "", fmt.Errorf("s: bad")
		}
		b, err := unhexArg(n.Args[0])
		if err != nil {
			return "", err
		}
		if utf8.Valid(b) {
			q, _ := json.Marshal(string(b))
			// encoding/json escapes <,>,& as \u00XX which jq reads back as the same characters
			return string(q), nil
		}
		// a Go string that is not valid UTF-8 cannot be written as a literal: obtain it from a binary
		return `("` + hex.EncodeToString(b) + `" | from_hex | tostring)`, nil
	case "i":
		if err := argn(1); err != nil || !isInt(n.Args[0]) || len(n.Kids) != 0 {
			return "", fmt.Errorf("i: bad")
		}
		return jqInt(n.Args[0]), nil
	case "fh":
		// (fh K): the float literal K/2
		if err := argn(1); err != nil || !isInt(n.Args[0]) || len(n.Kids) != 0 {
			return "", fmt.Errorf("fh: bad")
		}
		k, err := strconv.ParseInt(n.Args[0], 10, 62)
		if err != nil {
			return "", err
		}
		neg := k < 0
		if neg {
			k = -k
		}
		lit := strconv.FormatInt(k/2, 10) + []string{".0", ".5"}[k%2]
		if neg {
			return "(-" + lit + ")", nil
		}
		return lit, nil
	case "z":
		return "null", nil
	case "t":
		return "true", nil
	case "f":
		return "false", nil
	case "o":
		return `{"a":1}`, nil
	case "a":
		if len(n.Args) != 0 {
			return "", fmt.Errorf("a: atoms")
		}
		ps := make([]string, len(n.Kids))
		for i, k := range n.Kids {
			s, err := k.JQ()
			if err != nil {
				return "", err
			}
			ps[i] = s
		}
		return "[" + strings.Join(ps, ", ") + "]", nil
	case "dv":
		// (dv ROOTHEX START LEN FORMAT PATH)
		if err := argn(5); err != nil || len(n.Kids) != 0 {
			return "", fmt.Errorf("dv: bad")
		}
		if _, err := hex.DecodeString(n.Args[0]); err != nil {
			return "", err
		}
		if !okIdent(n.Args[3]) || !okPath(n.Args[4]) {
			return "", fmt.Errorf("dv: bad format/path")
		}
		return `("` + n.Args[0] + `" | from_hex | ` + n.Args[3] + ` | ` + n.Args[4] + `)`, nil
	case "dvs":
		// (dvs ROOTHEX FORMAT PATH): a synthetic decode value
		if err := argn(3); err != nil || len(n.Kids) != 0 {
			return "", fmt.Errorf("dvs: bad")
		}
		if _, err := hex.DecodeString(n.Args[0]); err != nil {
			return "", err
		}
		if !okIdent(n.Args[1]) || !okPath(n.Args[2]) {
			return "", fmt.Errorf("dvs: bad format/path")
		}
		return `("` + n.Args[0] + `" | from_hex | ` + n.Args[1] + ` | ` + n.Args[2] + `)`, nil
	case "tobitsn", "tobytesn":
		if err := argn(1); err != nil || !isInt(n.Args[0]) {
			return "", fmt.Errorf("%s: bad", n.Op)
		}
		k, err := kid()
		if err != nil {
			return "", err
		}
		return "(" + k + " | " + strings.TrimSuffix(n.Op, "n") + "(" + n.Args[0] + "))", nil
	case "idx":
		if err := argn(1); err != nil || !isInt(n.Args[0]) {
			return "", fmt.Errorf("idx: bad")
		}
		k, err := kid()
		if err != nil {
			return "", err
		}
		return "(" + k + " | .[" + n.Args[0] + "])", nil
	case "sub":
		// (sub K E): `E - K` with K an integer literal
		if err := argn(1); err != nil || !isInt(n.Args[0]) {
			return "", fmt.Errorf("sub: bad")
		}
		k, err := kid()
		if err != nil {
			return "", err
		}
		return "(" + k + " - " + jqInt(n.Args[0]) + ")", nil
	case "sl":
		if err := argn(2); err != nil {
			return "", err
		}
		a, b := n.Args[0], n.Args[1]
		if (a != "_" && !isInt(a)) || (b != "_" && !isInt(b)) || (a == "_" && b == "_") {
			return "", fmt.Errorf("sl: bad bounds")
		}
		k, err := kid()
		if err != nil {
			return "", err
		}
		if a == "_" {
			a = ""
		}
		if b == "_" {
			b = ""
		}
		return "(" + k + " | .[" + a + ":" + b + "])", nil
	}
	return "", fmt.Errorf("unknown op %q", n.Op)
}

func okIdent(s string) bool {
	if s == "" {
		return false
	}
	for _, c := range s {
		if !(c == '_' || c >= 'a' && c <= 'z' || c >= '0' && c <= '9') {
			return false
		}
	}
	return true
}

func okPath(s string) bool {
	if !strings.HasPrefix(s, ".") {
		return false
	}
	for _, c := range s {
		if !(c == '_' || c == '.' || c == '[' || c == ']' || c >= 'a' && c <= 'z' || c >= 'A' && c <= 'Z' || c >= '0' && c <= '9') {
			return false
		}
	}
	return true
}

// ParseSexpr parses one s-expression (atoms first, then sub-lists).
func ParseSexpr(s string) (*N, error) {
	toks := []string{}
	cur := ""
	flush := func() {
		if cur != "" {
			toks = append(toks, cur)
			cur = ""
		}
	}
	for _, c := range s {
		switch c {
		case '(', ')':
			flush()
			toks = append(toks, string(c))
		case ' ':
			flush()
		default:
			cur += string(c)
		}
	}
	flush()
	pos := 0
	var rec func() (*N, error)
	rec = func() (*N, error) {
		if pos >= len(toks) || toks[pos] != "(" {
			return nil, fmt.Errorf("expected (")
		}
		pos++
		if pos >= len(toks) || toks[pos] == "(" || toks[pos] == ")" {
			return nil, fmt.Errorf("expected operator")
		}
		n := &N{Op: toks[pos]}
		pos++
		for pos < len(toks) && toks[pos] != ")" {
			if toks[pos] == "(" {
				k, err := rec()
				if err != nil {
					return nil, err
				}
				n.Kids = append(n.Kids, k)
			} else {
				if len(n.Kids) > 0 {
					return nil, fmt.Errorf("atom after list")
				}
				n.Args = append(n.Args, toks[pos])
				pos++
			}
		}
		if pos >= len(toks) {
			return nil, fmt.Errorf("missing )")
		}
		pos++
		return n, nil
	}
	n, err := rec()
	if err != nil {
		return nil, err
	}
	if pos != len(toks) {
		return nil, fmt.Errorf("trailing tokens")
	}
	return n, nil
}
