//go:build verif

package main

import (
	"fmt"
	"io/fs"
	"os"
	"path/filepath"
	"strconv"
	"strings"

	"github.com/wader/fq/internal/verifharness/hlib"
)

// ---- file-backed input larger than the read-ahead cache (binary.go _open: bitio.IOBitReadSeeker over
// aheadreadseeker (512 KiB) over progressreadseeker over ctxreadseeker over the file), opened ONCE
// and used several times: state is carried between the uses (cache window, underlying position).
// One session is one case line; the ground truth is the harness's own file content (nothing is read
// back through fq's readers, which would also disturb their state).

const aheadWindow = 512 * 1024
const copyBuf = 32 * 1024

// fileBytes: position dependent content, so that bytes taken from a wrong offset are visible
func fileBytes(seed uint64, size int) []byte {
	r := hlib.NewRand(seed)
	b := make([]byte, size)
	for i := 0; i+8 <= size; i += 8 {
		v := r.U64()
		for k := 0; k < 8; k++ {
			b[i+k] = byte(v >> (8 * uint(k)))
		}
	}
	for i := size - size%8; i < size; i++ {
		b[i] = byte(r.U64())
	}
	return b
}

type realFS struct{ mem memFS }

func (f realFS) Open(name string) (fs.File, error) {
	if strings.HasPrefix(name, "/") {
		return os.Open(name)
	}
	return f.mem.Open(name)
}

type fileUse struct {
	touch bool // read without dumping: tobytes[a:b] | tohex | length
	bits  bool // tobits[a:b] instead of tobytes[a:b]
	a, b  int64
	p     dumpOpts
}

func (u fileUse) text() string {
	t, bi := 0, 0
	if u.touch {
		t = 1
	}
	if u.bits {
		bi = 1
	}
	c := 0
	if u.p.color {
		c = 1
	}
	return fmt.Sprintf("%d:%d:%d:%d:%s:%d:%d:%d:%d:%d", t, bi, u.a, u.b, u.p.kind, u.p.lb, u.p.ab, u.p.sb, u.p.db, c)
}

func parseUse(s string) (fileUse, bool) {
	f := strings.Split(s, ":")
	if len(f) != 10 {
		return fileUse{}, false
	}
	n := func(i int) int64 { v, _ := strconv.ParseInt(f[i], 10, 64); return v }
	return fileUse{touch: f[0] == "1", bits: f[1] == "1", a: n(2), b: n(3),
		p: dumpOpts{kind: f[4], lb: int(n(5)), ab: int(n(6)), sb: int(n(7)), db: int(n(8)), color: f[9] == "1"}}, true
}

// interesting byte positions: window ends relative to earlier reads, multiples of the window and
// of the 32 KiB copy buffer, file start and end
func pickPos(r *hlib.Rand, size int64, prev []int64) int64 {
	var base int64
	switch []int{0, 1, 2, 2, 2, 2, 3, 4, 5, 6}[r.Intn(10)] {
	case 0:
		base = int64(r.Intn(300))
	case 1:
		base = aheadWindow * int64(1+r.Intn(int(size/aheadWindow)+1))
	case 2: // the end of the cache window filled by an earlier use
		if len(prev) > 0 {
			base = prev[r.Intn(len(prev))] + aheadWindow
		} else {
			base = aheadWindow
		}
	case 3:
		base = copyBuf * int64(r.Intn(int(size/copyBuf)+1))
	case 4:
		base = size
	case 5:
		if len(prev) > 0 {
			base = prev[r.Intn(len(prev))]
		}
	default:
		base = int64(r.Intn(int(size)))
	}
	base += int64(r.Range(-40, 40))
	if base < 0 {
		base = 0
	}
	if base > size {
		base = size
	}
	return base
}

func randSession(r *hlib.Rand) (size int, uses []fileUse) {
	size = aheadWindow + r.Range(1, 700*1024)
	if r.Intn(5) == 0 {
		size = r.Range(1000, aheadWindow+10) // also files around and below the window size
	}
	n := r.Range(2, 8)
	var prev []int64
	for i := 0; i < n; i++ {
		u := fileUse{p: randOpts(r)}
		a := pickPos(r, int64(size), prev)
		l := int64(r.Range(1, 80))
		if size > aheadWindow+200 && r.Intn(3) == 0 {
			// a use early in the file: its read fills a cache window that ends inside the file
			a = int64(r.Intn(size - aheadWindow - 100))
		}
		if len(prev) > 0 && r.Intn(2) == 0 {
			// a range straddling the end of the window filled by the previous use
			if e := prev[len(prev)-1] + aheadWindow; e+2 < int64(size) {
				l = int64(r.Range(2, 80))
				a = e - int64(r.Range(1, int(l)-1))
			}
		}
		switch r.Intn(40) {
		case 0, 1, 2, 3, 4:
			l = int64(r.Range(1, 6) * u.p.lb)
		case 5, 6, 7:
			l = copyBuf + int64(r.Range(-50, 50)) // crosses a copy-buffer boundary (costly for the driver: rare)
			u.p.lb = 64
			u.p.db = 0
		}
		b := a + l
		if b > int64(size) {
			b = int64(size)
		}
		u.a, u.b = a, b
		prev = append(prev, a)
		if r.Intn(5) == 0 {
			u.touch = true
		} else if r.Intn(4) == 0 {
			u.bits = true
			u.a = a*8 + int64(r.Intn(8))
			u.b = b*8 - int64(r.Intn(8))
			if u.a > int64(size)*8 {
				u.a = int64(size) * 8
			}
			if u.b < u.a {
				u.b = u.a
			}
		}
		uses = append(uses, u)
	}
	return size, uses
}

const usep = "\x1d"

func runFileSession(o *hlib.Out, seed uint64, size int, real bool, uses []fileUse) {
	data := fileBytes(seed, size)
	name := "big.bin"
	var fsys fs.FS = memFS{name: data}
	if real {
		dir := os.Getenv("VERIF_WORK")
		if dir == "" {
			dir = os.TempDir()
		}
		name = filepath.Join(dir, fmt.Sprintf("c10_big_%d_%d.bin", os.Getpid(), seed))
		if err := os.WriteFile(name, data, 0o600); err != nil {
			o.Verdict("BADOP", "cannot write temp file: "+err.Error())
			return
		}
		defer os.Remove(name)
		fsys = realFS{}
	}
	var sb strings.Builder
	sb.WriteString("$f | open as $o | (")
	for i, u := range uses {
		if i > 0 {
			sb.WriteString(",\n")
		}
		sel := fmt.Sprintf("tobytes[%d:%d]", u.a, u.b)
		if u.bits {
			sel = fmt.Sprintf("tobits[%d:%d]", u.a, u.b)
		}
		if u.touch {
			fmt.Fprintf(&sb, `(("@@u%d"|println), ($o|%s|tohex|length|tostring|println))`, i, sel)
		} else {
			fmt.Fprintf(&sb, `(("@@u%d"|println), (try ($o|%s|%s) catch ("@@!u%d \(.)"|println)))`, i, sel, u.p.call(), i)
		}
	}
	sb.WriteString(")")
	out, stderr, err := runFqFS(fsys, "-n", "--arg", "f", name, sb.String())
	if err != nil {
		o.Verdict("BADOP", fmt.Sprintf("fq failed on a file session: %v %s", err, firstLine(stderr)))
		return
	}
	secs := sections(out)
	ut := make([]string, len(uses))
	var specs, obs []string
	for i, u := range uses {
		ut[i] = u.text()
		if u.touch {
			continue
		}
		id := fmt.Sprintf("u%d", i)
		text, ok := secs[id]
		if _, bad := secs["!"+id]; bad || !ok {
			text = "err:" + firstLine(secs["!"+id+"#msg"])
		}
		// ground truth from the harness's own bytes
		start, length := u.a*8, (u.b-u.a)*8
		if u.bits {
			start, length = u.a, u.b-u.a
		}
		startByte := start / 8
		lastByte := startByte
		if length > 0 {
			lastByte = (start + length - 1) / 8
		}
		if u.p.db > 0 {
			if lim := startByte + int64(u.p.db) + 2*int64(u.p.lb) + 4; lim < lastByte {
				lastByte = lim
			}
		}
		if lastByte >= int64(size) {
			lastByte = int64(size) - 1
		}
		win := []byte{}
		if lastByte >= startByte && startByte < int64(size) {
			win = data[startByte : lastByte+1]
		}
		c := 0
		if u.p.color {
			c = 1
		}
		specs = append(specs, fmt.Sprintf("k=%s,lb=%d,ab=%d,sb=%d,db=%d,c=%d,vr=1,L=%d,s=%d,n=%d,wo=%d,root=%s",
			u.p.kind, u.p.lb, u.p.ab, u.p.sb, u.p.db, c, int64(size)*8, start, length, startByte, hlib.Hex(win)))
		obs = append(obs, obsLines(stripANSI(text)))
	}
	if len(specs) == 0 {
		return
	}
	rl := 0
	if real {
		rl = 1
	}
	op := fmt.Sprintf("fsess size=%d fseed=%d real=%d uses=%s dumps=%s", size, seed, rl, strings.Join(ut, ";"), strings.Join(specs, ";"))
	o.Case(op, strings.Join(obs, usep))
	o.Class(fmt.Sprintf("fsess %d %d %s", size, seed, strings.Join(ut, ";")))
	o.Stat("file_sessions", 1)
	o.Stat("file_session_dumps", len(specs))
	if size > aheadWindow {
		o.Stat("file_sessions_over_cache_window", 1)
	}
	if real {
		o.Stat("file_sessions_real_file", 1)
	}
}

func genFileSessions(o *hlib.Out, r *hlib.Rand, n int) {
	for i := 0; i < n; i++ {
		size, uses := randSession(r)
		runFileSession(o, r.U64()>>1, size, r.Intn(3) == 0, uses)
	}
}

func replayFileSession(o *hlib.Out, ws []string) {
	size, _ := strconv.Atoi(kvOf(ws, "size"))
	seed, _ := strconv.ParseUint(kvOf(ws, "fseed"), 10, 64)
	var uses []fileUse
	for _, s := range strings.Split(kvOf(ws, "uses"), ";") {
		u, ok := parseUse(s)
		if !ok {
			o.Verdict("BADOP", "cannot replay file session")
			return
		}
		uses = append(uses, u)
	}
	runFileSession(o, seed, size, kvOf(ws, "real") == "1", uses)
}
