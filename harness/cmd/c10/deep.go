//go:build verif

package main

import (
	"encoding/binary"
	"fmt"
	"math"
	"math/big"
	"strconv"
	"strings"

	"github.com/wader/fq/internal/verifharness/hlib"
	"github.com/wader/fq/pkg/decode"
	"github.com/wader/fq/pkg/interp"
)

// ---- deeply nested JSON with many indent widths (colorjson.writeIndentInternal's doubling copy)

func deepJSON(kind string, depth int, leaf string, width int) string {
	v := leaf
	for i := 0; i < depth; i++ {
		k := kind
		if kind == "mixed" {
			k = []string{"arr", "obj"}[i%2]
		}
		switch k {
		case "arr":
			es := make([]string, width)
			for j := range es {
				es[j] = leaf
			}
			es[width/2] = v
			v = "[" + strings.Join(es, ",") + "]"
		default:
			es := make([]string, width)
			for j := range es {
				es[j] = fmt.Sprintf("%q:%s", fmt.Sprintf("k%d", j), leaf)
			}
			es[width/2] = fmt.Sprintf("%q:%s", fmt.Sprintf("k%d", width/2), v)
			v = "{" + strings.Join(es, ",") + "}"
		}
	}
	return v
}

type deepCase struct {
	val    string
	indent int    // tojson({indent:N}); -1: the display paths (indent 2)
	call   string // jq applied to the value
	mode   string
}

func runDeepBatch(o *hlib.Out, cs []deepCase) {
	var sb strings.Builder
	for i, c := range cs {
		if i > 0 {
			sb.WriteString(",\n")
		}
		fmt.Fprintf(&sb, `(try (%s|(("@@z%d"|println),(%s))) catch ("@@!z%d \(.)"|println))`, c.val, i, c.call, i)
	}
	out, stderr, err := runFq(nil, "-n", sb.String())
	if err != nil && len(cs) > 1 {
		// a crash takes the whole batch down: one by one, so that only the failing values are reported
		for _, c := range cs {
			runDeepBatch(o, []deepCase{c})
		}
		return
	}
	if err != nil && !strings.HasPrefix(err.Error(), "panic") {
		o.Verdict("BADOP", fmt.Sprintf("fq failed on deep JSON values: %v %s", err, firstLine(stderr)))
		return
	}
	secs := sections(out)
	for i, c := range cs {
		id := fmt.Sprintf("z%d", i)
		text, ok := secs[id]
		op := fmt.Sprintf("json %s %s", c.mode, c.val)
		if _, bad := secs["!"+id]; bad || !ok {
			// the encoder failed (error or panic): the value was not printed
			o.Case(op, "err:"+firstLine(secs["!"+id+"#msg"]))
			continue
		}
		o.Case(op, strings.ReplaceAll(stripANSI(text), "\n", rsep))
		o.Stat("json_deep", 1)
		if len(text) > 8192 {
			o.Stat("json_deep_over_8k", 1)
		}
		o.Class(fmt.Sprintf("deep %s %d", c.mode, len(c.val)))
	}
}

func genDeepJSON(o *hlib.Out, r *hlib.Rand, thorough bool) {
	indents := []int{0, 1, 2, 3, 7, 8, 16, 33, 64, 65, 100}
	depths := []int{0, 1, 2, 5, 16, 31, 32, 33, 34, 40, 64, 65, 80}
	if thorough {
		depths = nil
		for d := 0; d <= 80; d++ {
			depths = append(depths, d)
		}
	}
	var cs []deepCase
	flush := func(force bool) {
		if len(cs) >= 40 || (force && len(cs) > 0) {
			runDeepBatch(o, cs)
			cs = nil
		}
	}
	for _, kind := range []string{"arr", "obj", "mixed"} {
		for _, d := range depths {
			for _, n := range indents {
				// keep the text size bounded: skip the largest products except a sample
				if d*n > 2600 && !(d == 80 && n == 100 && kind == "mixed") && !(thorough && r.Intn(6) == 0) {
					continue
				}
				width := 1
				if r.Intn(4) == 0 {
					width = r.Range(2, 4)
				}
				leaf := []string{"1", "-18446744073709551615", `"s"`, "null", "[]", "{}"}[r.Intn(6)]
				v := deepJSON(kind, d, leaf, width)
				cs = append(cs, deepCase{val: v, indent: n, call: fmt.Sprintf("tojson({indent:%d})|println", n), mode: fmt.Sprintf("n%d", n)})
				flush(false)
			}
			// the display paths: indent 2 (65 blanks from nesting depth 33 on)
			v := deepJSON(kind, d, "7", 1)
			cs = append(cs, deepCase{val: v, call: "d({compact:false,color:false})", mode: "i"},
				deepCase{val: v, call: "d({compact:false,color:true})", mode: "i"},
				deepCase{val: v, call: "d({compact:true})", mode: "c"})
			flush(false)
		}
	}
	// wide and deep: outputs well over the encoder's 8 KiB flush threshold, indentation >= 65 after a flush
	for _, n := range []int{2, 33, 65, 100} {
		inner := deepJSON("arr", 40, "123456789", 3)
		es := make([]string, 30)
		for j := range es {
			es[j] = inner
		}
		v := "[" + strings.Join(es, ",") + "]"
		cs = append(cs, deepCase{val: v, indent: n, call: fmt.Sprintf("tojson({indent:%d})|println", n), mode: fmt.Sprintf("n%d", n)})
		if n == 2 {
			cs = append(cs, deepCase{val: v, call: "d({compact:false,color:false})", mode: "i"})
		}
	}
	flush(true)
}

// ---- decoded scalars of every kind at numeric boundaries through every JSON path

var numGroup = &decode.Group{Name: "verif_c10_num"}

func init() {
	interp.RegisterFormat(numGroup, &decode.Format{
		Description: "verification harness C10: scalars at numeric boundaries",
		DecodeFn: func(d *decode.D) any {
			d.FieldArray("items", func(d *decode.D) {
				for d.BitsLeft() >= 16 {
					d.FieldStruct("item", func(d *decode.D) {
						kind := d.FieldU("kind", 8)
						w := int(d.FieldU("w", 8)) + 1
						switch kind {
						case 0:
							d.FieldU("v", w)
						case 1:
							d.FieldS("v", w)
						case 2:
							d.FieldUBigInt("v", w)
						case 3:
							d.FieldSBigInt("v", w)
						case 4:
							d.FieldF64("v")
						default:
							d.FieldF32("v")
						}
					})
				}
			})
			return nil
		},
	})
}

type numItem struct {
	kind  int
	w     int
	bits  *big.Int // the w bits, as an unsigned number
	f     float64
	isFlt bool
}

func (it numItem) value() *big.Int {
	v := new(big.Int).Set(it.bits)
	if (it.kind == 1 || it.kind == 3) && it.bits.Bit(it.w-1) == 1 {
		v.Sub(v, new(big.Int).Lsh(big.NewInt(1), uint(it.w)))
	}
	return v
}

func encodeNumItems(items []numItem) []byte {
	var bs []byte // one bit per byte
	push := func(v *big.Int, w int) {
		for k := w - 1; k >= 0; k-- {
			bs = append(bs, byte(v.Bit(k)))
		}
	}
	for _, it := range items {
		push(big.NewInt(int64(it.kind)), 8)
		push(big.NewInt(int64(it.w-1)), 8)
		push(it.bits, it.w)
	}
	for len(bs)%8 != 0 {
		bs = append(bs, 0)
	}
	data := make([]byte, len(bs)/8)
	for k, b := range bs {
		data[k/8] |= b << (7 - uint(k%8))
	}
	return data
}

func pow2(k int) *big.Int { return new(big.Int).Lsh(big.NewInt(1), uint(k)) }

func boundaryInts(r *hlib.Rand) []numItem {
	var its []numItem
	addU := func(kind, w int, v *big.Int) {
		if v.Sign() >= 0 && v.BitLen() <= w {
			its = append(its, numItem{kind: kind, w: w, bits: v})
		}
	}
	addS := func(kind, w int, v *big.Int) { // two's complement
		lo := new(big.Int).Neg(pow2(w - 1))
		hi := new(big.Int).Sub(pow2(w-1), big.NewInt(1))
		if v.Cmp(lo) < 0 || v.Cmp(hi) > 0 {
			return
		}
		b := new(big.Int).Set(v)
		if b.Sign() < 0 {
			b.Add(b, pow2(w))
		}
		its = append(its, numItem{kind: kind, w: w, bits: b})
	}
	for _, w := range []int{1, 8, 31, 32, 33, 53, 54, 62, 63, 64} {
		for _, d := range []int64{-2, -1, 0, 1} {
			addU(0, w, new(big.Int).Add(pow2(w), big.NewInt(d)))   // 2^w-2, 2^w-1 fit
			addU(0, w, new(big.Int).Add(pow2(w-1), big.NewInt(d))) // around 2^(w-1): for w=64 this is 2^63-1, 2^63, 2^63+1
			addS(1, w, new(big.Int).Add(pow2(w-1), big.NewInt(d)))
			addS(1, w, new(big.Int).Add(new(big.Int).Neg(pow2(w-1)), big.NewInt(d+2)))
		}
		addU(0, w, big.NewInt(0))
		addS(1, w, big.NewInt(-1))
	}
	for _, w := range []int{64, 65, 66, 128, 200} {
		for _, d := range []int64{-1, 0, 1} {
			addU(2, w, new(big.Int).Add(pow2(64), big.NewInt(d)))
			addU(2, w, new(big.Int).Add(pow2(63), big.NewInt(d)))
			addU(2, w, new(big.Int).Sub(pow2(w), big.NewInt(1)))
			addS(3, w, new(big.Int).Add(new(big.Int).Neg(pow2(64)), big.NewInt(d)))
			addS(3, w, new(big.Int).Add(new(big.Int).Neg(pow2(63)), big.NewInt(d)))
			addS(3, w, new(big.Int).Add(pow2(64), big.NewInt(d)))
			addS(3, w, new(big.Int).Neg(pow2(w-1)))
		}
	}
	for i := 0; i < 12; i++ {
		w := r.Range(1, 64)
		its = append(its, numItem{kind: r.Intn(2), w: w, bits: new(big.Int).Rsh(new(big.Int).SetUint64(r.U64()), uint(64-w))})
	}
	return its
}

type numPath struct {
	mode string
	args []string
}

var numPaths = []numPath{
	{"c", []string{"-V", "-c", "[.items[].v]"}},
	{"i", []string{"-V", "[.items[].v]"}},
	{"c", []string{"-r", "[.items[].v]|tovalue|tojson"}},
	{"c", []string{"-r", "[.items[].v|tovalue]|tojson"}},
	{"c", []string{"-r", "[.items[].v]|tojson"}},
	{"c", []string{"[.items[].v]|d({compact:true,color:false})"}},
	{"c", []string{"[.items[].v|tovalue]|d({compact:true,color:true})"}},
	{"c", []string{"-r", "[.items[].v|tovalue|.+0]|tojson"}},
}

var cborPaths = []numPath{
	{"c", []string{"-r", "torepr|tojson"}},
	{"c", []string{"-r", "torepr|d({compact:true})"}},
	{"c", []string{"-r", ".value|tovalue|tojson"}},
}

// runNumPath: one JSON path over the decoded file; path 99 = the numbers shown in the dump tree.
// op `jsonv <mode> <format> <data hex> <path> <expected JSON>` replays on its own.
func runNumPath(o *hlib.Out, format string, data []byte, pi int, want string) {
	name := "synthnum/x"
	if pi == 99 {
		out, _, err := runFq(memFS{name: data}, "-d", format, `.items[].v | d({color:false})`, name)
		if err != nil {
			return
		}
		var shown []string
		for _, l := range strings.Split(out, "\n") {
			if i := strings.LastIndex(l, "|"); i >= 0 && strings.Contains(l[i:], ".v: ") {
				t := l[i+1:]
				t = t[strings.Index(t, ".v: ")+4:]
				shown = append(shown, strings.Fields(t)[0])
			}
		}
		o.Case(fmt.Sprintf("jsonv c %s %s 99 %s", format, hlib.Hex(data), want), "["+strings.Join(shown, ",")+"]")
		o.Stat("dump_tree_numbers", len(shown))
		return
	}
	tbl := numPaths
	if format == "cbor" {
		tbl = cborPaths
	}
	p := tbl[pi]
	args := append([]string{"-d", format}, p.args...)
	args = append(args, name)
	out, stderr, err := runFq(memFS{name: data}, args...)
	if err != nil {
		o.Verdict("BADOP", "fq failed on boundary scalars: "+firstLine(stderr)+" "+strings.Join(p.args, " "))
		return
	}
	o.Case(fmt.Sprintf("jsonv %s %s %s %d %s", p.mode, format, hlib.Hex(data), pi, want), strings.ReplaceAll(stripANSI(out), "\n", rsep))
	o.Stat("json_decoded_scalar_paths", 1)
}

func genNumBoundaries(o *hlib.Out, r *hlib.Rand) {
	its := boundaryInts(r)
	// shuffle, then files of up to 24 items
	for i := len(its) - 1; i > 0; i-- {
		j := r.Intn(i + 1)
		its[i], its[j] = its[j], its[i]
	}
	for len(its) > 0 {
		k := min(len(its), 8)
		part := its[:k]
		its = its[k:]
		data := encodeNumItems(part)
		want := make([]string, len(part))
		for i, it := range part {
			want[i] = it.value().String()
		}
		wantArr := "[" + strings.Join(want, ",") + "]"
		for pi := range numPaths {
			runNumPath(o, "verif_c10_num", data, pi, wantArr)
		}
		runNumPath(o, "verif_c10_num", data, 99, wantArr)
	}
	// a real format's representation path: cbor unsigned 64-bit integers through torepr
	for _, v := range []uint64{1<<63 - 1, 1 << 63, 1<<63 + 1, 1<<64 - 1, 1 << 32, 0} {
		data := make([]byte, 9)
		data[0] = 0x1b
		binary.BigEndian.PutUint64(data[1:], v)
		for pi := range cborPaths {
			runNumPath(o, "cbor", data, pi, fmt.Sprint(v))
		}
	}
	// floats: compared here by bit pattern (the Lean model has no floats)
	fl := []float64{0, 1.5, -0.25, 1e100, -1e-7, 123456789.125, math.MaxFloat64, math.SmallestNonzeroFloat64, 9007199254740993, 1e21, 1e-6, 3.4028234663852886e38}
	for i := 0; i < 8; i++ {
		fl = append(fl, math.Float64frombits(r.U64()))
	}
	var fits []numItem
	for _, f := range fl {
		if math.IsNaN(f) || math.IsInf(f, 0) {
			continue
		}
		var b [8]byte
		binary.BigEndian.PutUint64(b[:], math.Float64bits(f))
		fits = append(fits, numItem{kind: 4, w: 64, bits: new(big.Int).SetBytes(b[:]), f: f, isFlt: true})
		f32 := float32(f)
		if !math.IsInf(float64(f32), 0) {
			var c [4]byte
			binary.BigEndian.PutUint32(c[:], math.Float32bits(f32))
			fits = append(fits, numItem{kind: 5, w: 32, bits: new(big.Int).SetBytes(c[:]), f: float64(f32), isFlt: true})
		}
	}
	data := encodeNumItems(fits)
	for _, args := range [][]string{{"-V", "-c", ".items[].v"}, {"-r", ".items[].v|tovalue|tojson"}, {".items[].v|tovalue|d({compact:true})"}} {
		full := append([]string{"-d", "verif_c10_num"}, args...)
		full = append(full, "synthnum/f")
		out, stderr, err := runFq(memFS{"synthnum/f": data}, full...)
		if err != nil {
			o.Verdict("BADOP", "fq failed on boundary floats: "+firstLine(stderr))
			continue
		}
		lines := strings.Fields(stripANSI(out))
		if len(lines) != len(fits) {
			o.Verdict("PROPFAIL", fmt.Sprintf("floats: %d values printed, %d decoded (%s)", len(lines), len(fits), strings.Join(args, " ")))
			continue
		}
		bad := ""
		for i, l := range lines {
			g, perr := strconv.ParseFloat(l, 64)
			if perr != nil || math.Float64bits(g) != math.Float64bits(fits[i].f) && !(g == 0 && fits[i].f == 0) {
				bad = fmt.Sprintf("float %x printed as %s", math.Float64bits(fits[i].f), l)
				break
			}
		}
		if bad != "" {
			o.Verdict("PROPFAIL", bad+" ("+strings.Join(args, " ")+")")
		} else {
			o.Verdict("OK", fmt.Sprintf("floats exact through %s", strings.Join(args, " ")))
		}
		o.Stat("json_float_values", len(fits))
	}
}
