//go:build verif

package main

import (
	"fmt"
	"io"
	"os"
	"path/filepath"
	"sort"
	"strconv"
	"strings"

	"github.com/wader/fq/internal/bitiox"
	"github.com/wader/fq/internal/verifharness/hlib"
	"github.com/wader/fq/pkg/bitio"
	"github.com/wader/fq/pkg/decode"
	"github.com/wader/fq/pkg/interp"
	"github.com/wader/fq/pkg/scalar"
)

// ---- capture: the jq function _c10_cap(tag) records the ground truth of the value it is applied to
// (root buffer bits and the value's bit range, read through pkg/bitio — not through dump.go) and
// returns the marker line "@@tag".

type truth struct {
	rootBits int64
	start    int64
	length   int64
	root     bitio.ReaderAtSeeker
	synth    bool // scalar flagged synthetic: verbose prints no range
	isDecode bool
	compound bool
	err      string
	wo       int64  // window: bytes of the root buffer from byte wo on (read when captured: file readers die with the interpreter's context)
	win      []byte
}

var captured = map[string]*truth{}

// the plan function decides per decode value which dumps to request (Go side, seeded)
var planRand *hlib.Rand
var planBudget int
var planThorough bool

type dumpOpts struct {
	kind  string // hd | dv | d
	lb    int
	ab    int
	sb    int
	db    int
	color bool
}

func (p dumpOpts) jq() string {
	return fmt.Sprintf("{line_bytes:%d,addrbase:%d,sizebase:%d,display_bytes:%d,color:%v,unicode:false}",
		p.lb, p.ab, p.sb, p.db, p.color)
}

func (p dumpOpts) call() string { return p.kind + "(" + p.jq() + ")" }

func (p dumpOpts) text() string {
	c := 0
	if p.color {
		c = 1
	}
	return fmt.Sprintf("k=%s lb=%d ab=%d sb=%d db=%d c=%d", p.kind, p.lb, p.ab, p.sb, p.db, c)
}

func randOpts(r *hlib.Rand) dumpOpts {
	p := dumpOpts{kind: []string{"hd", "dv", "d"}[r.Intn(3)]}
	p.lb = r.Range(1, 64)
	if r.Intn(3) == 0 {
		p.lb = []int{1, 2, 3, 4, 8, 16, 32, 64}[r.Intn(8)]
	}
	p.ab = bases[r.Intn(len(bases))]
	p.sb = bases[r.Intn(len(bases))]
	switch r.Intn(6) {
	case 0:
		p.db = 0
	case 1:
		p.db = []int{1, 7, 16}[r.Intn(3)]
	case 2:
		p.db = p.lb * r.Range(1, 3)
	case 3:
		p.db = r.Range(1, 40)
	default:
		p.db = r.Range(0, 3*p.lb+1)
	}
	p.color = r.Intn(4) == 0
	return p
}

func init() {
	interp.RegisterFunc1("_c10_cap", func(_ *interp.Interp, c any, tag string) any {
		t := &truth{}
		captured[tag] = t
		switch v := c.(type) {
		case interp.DecodeValue:
			dv := v.DecodeValue()
			rootV := dv.BufferRoot()
			ir := dv.InnerRange()
			t.root, t.start, t.length, t.isDecode = rootV.RootReader, ir.Start, ir.Len, true
			switch vv := dv.V.(type) {
			case *decode.Compound:
				t.compound = true
			case scalar.Scalarable:
				t.synth = vv.ScalarFlags().IsSynthetic()
			}
		default:
			br, s, l, ok := interp.VerifC10Binary(c)
			if !ok {
				t.err = fmt.Sprintf("not a binary or decode value: %T", c)
				return "@@" + tag
			}
			t.root, t.start, t.length = br, s, l
		}
		n, err := bitiox.Len(t.root)
		if err != nil {
			t.err = err.Error()
			return "@@" + tag
		}
		t.rootBits = n
		if p, ok := planned[tag]; ok && t.start >= 0 && t.length >= 0 && t.start+t.length <= n {
			startByte := t.start / 8
			lastByte := startByte
			if t.length > 0 {
				lastByte = (t.start + t.length - 1) / 8
			}
			if p.db > 0 {
				if lim := startByte + int64(p.db) + 2*int64(p.lb) + 4; lim < lastByte {
					lastByte = lim
				}
			}
			t.wo = startByte
			t.win, err = readWindow(t.root, n, startByte, lastByte)
			if err != nil {
				t.err = "window read failed: " + err.Error()
			}
		}
		return "@@" + tag
	})
	// _c10_plan: applied to every value of `..`; returns [{id, call}] for the dumps wanted
	interp.RegisterFunc1("_c10_plan", func(_ *interp.Interp, c any, prefix string) any {
		dvv, ok := c.(interp.DecodeValue)
		if !ok || planBudget <= 0 {
			return []any{}
		}
		dv := dvv.DecodeValue()
		if _, isC := dv.V.(*decode.Compound); isC {
			return []any{}
		}
		// leaves: bias to the ones with data, keep some empty ones
		if dv.InnerRange().Len == 0 && planRand.Intn(4) != 0 {
			return []any{}
		}
		if planRand.Intn(3) == 0 {
			return []any{}
		}
		var plans []any
		n := 1 + planRand.Intn(2)
		for i := 0; i < n && planBudget > 0; i++ {
			planBudget--
			p := randOpts(planRand)
			if sc, ok := dv.V.(scalar.Scalarable); ok && sc.ScalarFlags().IsSynthetic() && p.kind == "hd" {
				p.kind = "dv" // "synthetic value can't be a binary"
			}
			// large values: always limit what is displayed
			if dv.InnerRange().Len > 8*2048 && p.db == 0 {
				p.db = 1 + planRand.Intn(64)
			}
			id := fmt.Sprintf("%s%d", prefix, len(planned))
			planned[id] = p
			plans = append(plans, map[string]any{"id": id, "k": p.kind, "o": map[string]any{
				"line_bytes": p.lb, "addrbase": p.ab, "sizebase": p.sb, "display_bytes": p.db, "color": p.color, "unicode": false}})
		}
		return plans
	})
}

var planned = map[string]dumpOpts{}

// readWindow reads bytes [fromByte, toByte] of a root buffer (a trailing partial byte zero padded)
func readWindow(root bitio.ReaderAtSeeker, rootBits int64, fromByte, toByte int64) ([]byte, error) {
	if rootBits == 0 {
		return nil, nil
	}
	lastByte := (rootBits - 1) / 8
	if toByte > lastByte {
		toByte = lastByte
	}
	if fromByte > toByte {
		return nil, nil
	}
	nBits := (toByte+1)*8 - fromByte*8
	if fromByte*8+nBits > rootBits {
		nBits = rootBits - fromByte*8
	}
	br, err := bitiox.Range(root, fromByte*8, nBits)
	if err != nil {
		return nil, err
	}
	return io.ReadAll(bitio.NewIOReader(br))
}

// emitDump writes one `dump` case for the section printed after marker id.
func emitDump(o *hlib.Out, p dumpOpts, t *truth, text string, src string) {
	if t.err != "" {
		o.Verdict("BADOP", "capture failed: "+t.err+" "+src)
		return
	}
	if t.start < 0 || t.length < 0 || t.start+t.length > t.rootBits {
		// a value outside its root buffer is C03's business
		o.Stat("skipped_outside_root", 1)
		return
	}
	startByte, win := t.wo, t.win
	verbose := p.kind != "d" || !t.isDecode // hexdump() forces Verbose (dump.go:420)
	vr := 0
	if verbose && !t.synth {
		vr = 1
	}
	op := fmt.Sprintf("dump %s vr=%d L=%d s=%d n=%d wo=%d root=%s %s", p.text(), vr, t.rootBits, t.start, t.length, startByte, hlib.Hex(win), src)
	o.Case(op, obsLines(stripANSI(text)))
	if t.length > 0 {
		trunc := 0
		if p.db > 0 && t.length > int64(p.db)*8 {
			trunc = 1
		}
		o.Class(fmt.Sprintf("lb=%d ab=%d db=%d so=%d bo=%d n=%d t=%d", p.lb, p.ab, p.db, startByte%int64(p.lb), t.start%8, t.length, trunc))
		o.Stat("dump_truncated", trunc)
		if p.color {
			o.Stat("dump_colour", 1)
		}
	}
	o.Stat("dump_"+p.kind, 1)
}

// ---- binaries

type binCase struct {
	root     []byte // bytes of the root buffer (last byte zero padded)
	rootBits int64
	start    int64
	length   int64
	p        dumpOpts
}

func bitsOf(b []byte, nBits int64) []byte {
	bs := make([]byte, nBits)
	for i := int64(0); i < nBits; i++ {
		bs[i] = (b[i/8] >> (7 - uint(i%8))) & 1
	}
	return bs
}

// jqBin builds a binary whose root buffer is exactly the case's root bits
func (c binCase) jqExpr() string {
	var sb strings.Builder
	sb.WriteString("[")
	for i, b := range c.root {
		if i > 0 {
			sb.WriteByte(',')
		}
		sb.WriteString(strconv.Itoa(int(b)))
	}
	sb.WriteString("]|tobytes")
	if c.rootBits%8 != 0 || len(c.root) == 0 {
		// a fresh buffer of rootBits bits: concatenation of a bit slice (binary.go toBitReaderEx)
		sb.WriteString(fmt.Sprintf("|[tobits[0:%d]]|tobits", c.rootBits))
	} else {
		sb.WriteString("|tobits")
	}
	sb.WriteString(fmt.Sprintf("|.[%d:%d]", c.start, c.start+c.length))
	return sb.String()
}

func (c binCase) src() string { return "src=bin" }

func randBinCase(r *hlib.Rand) binCase {
	var c binCase
	c.p = randOpts(r)
	n := r.Intn(200)
	switch r.Intn(10) {
	case 0:
		n = r.Intn(6)
	case 1: // around powers of the address base: the address column width
		pw := []int{256, 512, 1000, 1296, 4096, 100, 64, 36, 1024}[r.Intn(9)]
		n = pw + r.Range(-2, 2)
	case 2:
		n = r.Intn(3*c.p.lb + 2)
	}
	c.root = r.Bytes(n)
	c.rootBits = int64(n) * 8
	if n > 0 && r.Intn(3) == 0 {
		c.rootBits -= int64(r.Intn(8))
		// zero the padding bits
		if rem := c.rootBits % 8; rem != 0 {
			c.root = c.root[:(c.rootBits+7)/8]
			c.root[len(c.root)-1] &= byte(0xff << (8 - uint(rem)))
		} else {
			c.root = c.root[:c.rootBits/8]
		}
	}
	L := c.rootBits
	pick := func() int64 {
		if L == 0 {
			return 0
		}
		switch r.Intn(4) {
		case 0:
			return int64(r.Intn(int(L) + 1))
		case 1:
			return int64(r.Intn(int(L)/8+1)) * 8
		case 2: // line aligned
			v := int64(r.Intn(int(L)/(8*c.p.lb)+1)) * 8 * int64(c.p.lb)
			return v + int64(r.Range(-1, 1))
		default:
			return int64(r.Intn(int(L) + 1))
		}
	}
	a, b := pick(), pick()
	switch r.Intn(6) {
	case 0:
		a = 0
	case 1:
		b = L
	case 2:
		a, b = 0, L
	}
	if a < 0 {
		a = 0
	}
	if b < 0 {
		b = 0
	}
	if a > L {
		a = L
	}
	if b > L {
		b = L
	}
	if a > b {
		a, b = b, a
	}
	c.start, c.length = a, b-a
	return c
}

func runBinBatch(o *hlib.Out, cases []binCase) {
	var sb strings.Builder
	for i, c := range cases {
		if i > 0 {
			sb.WriteString(",\n")
		}
		id := fmt.Sprintf("b%d", i)
		fmt.Fprintf(&sb, "(try (%s|((_c10_cap(%q)|println),%s)) catch (\"@@!%s \\(.)\"|println))", c.jqExpr(), id, c.p.call(), id)
	}
	captured = map[string]*truth{}
	planned = map[string]dumpOpts{}
	for i, c := range cases {
		planned[fmt.Sprintf("b%d", i)] = c.p
	}
	out, stderr, err := runFq(nil, "-n", sb.String())
	if err != nil {
		o.Verdict("BADOP", fmt.Sprintf("fq failed on a batch of binaries: %v %s", err, firstLine(stderr)))
		return
	}
	secs := sections(out)
	for i, c := range cases {
		id := fmt.Sprintf("b%d", i)
		t, ok := captured[id]
		text, ok2 := secs[id]
		if _, bad := secs["!"+id]; bad || !ok || !ok2 {
			o.Verdict("BADOP", fmt.Sprintf("dump of binary failed: %s %s", firstLine(secs["!"+id+"#msg"]), c.jqExpr()))
			continue
		}
		// the harness's own idea of the root buffer must be what fq built
		if t.rootBits != c.rootBits || t.start != c.start || t.length != c.length {
			o.Verdict("BADOP", fmt.Sprintf("binary is not what the harness asked for: L=%d s=%d n=%d want L=%d s=%d n=%d", t.rootBits, t.start, t.length, c.rootBits, c.start, c.length))
			continue
		}
		// ground truth window from the harness's own bytes (not read back through fq)
		t2 := *t
		emitDumpBytes(o, c.p, &t2, c.root, text, c.src())
	}
}

// emitDumpBytes is emitDump with the root bytes known to the harness (binaries it built itself)
func emitDumpBytes(o *hlib.Out, p dumpOpts, t *truth, root []byte, text string, src string) {
	hi := int(t.wo) + len(t.win)
	if t.err == "" && (hi > len(root) || string(t.win) != string(root[t.wo:hi])) {
		o.Verdict("BADOP", "root buffer read back through bitio differs from the bytes given "+src)
		return
	}
	emitDump(o, p, t, text, src)
}

func firstLine(s string) string {
	if i := strings.IndexByte(s, '\n'); i >= 0 {
		s = s[:i]
	}
	if len(s) > 300 {
		s = s[:300]
	}
	return s
}

func genBinaries(o *hlib.Out, r *hlib.Rand, n int) {
	const batch = 150
	for n > 0 {
		k := min(n, batch)
		cs := make([]binCase, k)
		for i := range cs {
			cs[i] = randBinCase(r)
		}
		runBinBatch(o, cs)
		n -= k
	}
}

// ---- decode trees: every planned leaf of a file decoded by the interpreter

func runTreeFile(o *hlib.Out, r *hlib.Rand, name string, data []byte, format string, budget int, wp *dumpOpts) {
	planRand = r.Fork()
	planBudget = budget
	planned = map[string]dumpOpts{}
	captured = map[string]*truth{}
	prog := `.. | . as $v | _c10_plan("t")[] as $p | $v
| try ((_c10_cap($p.id)|println), (if $p.k == "hd" then hd($p.o) elif $p.k == "dv" then dv($p.o) else d($p.o) end))
  catch ("@@!\($p.id) \(.)"|println)`
	if wp != nil {
		prog = `(("@@S"|println), (_c10_single|println)), (("@@W"|println), ` + wp.call() + `), (` + prog + `)`
	}
	out, stderr, err := runFq(memFS{name: data}, "-d", format, prog, name)
	if err != nil {
		o.Stat("tree_file_failed", 1)
		_ = stderr
		return
	}
	secs := sections(out)
	ids := make([]string, 0, len(planned))
	for id := range planned {
		ids = append(ids, id)
	}
	sort.Slice(ids, func(i, j int) bool { a, _ := strconv.Atoi(ids[i][1:]); b, _ := strconv.Atoi(ids[j][1:]); return a < b })
	for _, id := range ids {
		t, ok := captured[id]
		text, ok2 := secs[id]
		if _, bad := secs["!"+id]; bad || !ok || !ok2 {
			o.Verdict("BADOP", fmt.Sprintf("dump of a leaf failed: %s file=%s fmt=%s", firstLine(secs["!"+id+"#msg"]), name, format))
			continue
		}
		emitDump(o, planned[id], t, text, fmt.Sprintf("src=file file=%s fmt=%s", name, format))
	}
	o.Stat("tree_files", 1)
	// whole-tree dump over a single root buffer: every cell that has an address is true
	if w, ok := secs["W"]; ok && wp != nil && strings.TrimSpace(secs["S"]) == "1" && len(data) <= 1<<15 {
		o.Case(fmt.Sprintf("tree %s L=%d root=%s file=%s fmt=%s", wp.text(), len(data)*8, hlib.Hex(data), name, format),
			obsLines(stripANSI(w)))
		o.Stat("tree_whole", 1)
	}
}

func init() {
	// "1" when every value of the tree lives in the top root buffer (no nested roots)
	interp.RegisterFunc0("_c10_single", func(_ *interp.Interp, c any) any {
		dvv, ok := c.(interp.DecodeValue)
		if !ok {
			return "0"
		}
		top := dvv.DecodeValue()
		single := top.Parent == nil
		_ = top.WalkPreOrder(func(v *decode.Value, rootV *decode.Value, _ int, _ int) error {
			if rootV != top || (v.IsRoot && v != top) {
				single = false
			}
			return nil
		})
		if single {
			return "1"
		}
		return "0"
	})
}

func randWholeOpts(r *hlib.Rand) *dumpOpts {
	return &dumpOpts{kind: "dv", lb: r.Range(1, 64), ab: bases[r.Intn(len(bases))], sb: 10, db: r.Range(1, 40), color: r.Intn(4) == 0}
}

type treeFile struct {
	path   string
	format string
}

// testdata files of the repository, small ones, with the format named by their directory
func listTestdata(repo string, maxSize int64) []treeFile {
	var fs []treeFile
	formats := []string{"tzif", "gzip", "png", "gif", "wav", "mp3", "elf", "tar", "zip", "bson", "msgpack", "cbor", "avi", "flac", "ogg", "jpeg", "bzip2", "pcap", "tiff", "wasm", "macho", "sqlite3", "protobuf", "asn1_ber", "bplist", "caff", "fit", "icc_profile", "id3v2", "matroska", "mp4", "webp", "ar", "vorbis_packet", "opus_packet"}
	for _, f := range formats {
		dirs, _ := filepath.Glob(filepath.Join(repo, "format", "*", "testdata"))
		for _, d := range dirs {
			base := filepath.Base(filepath.Dir(d))
			if base != f && !(f == "asn1_ber" && base == "asn1") {
				continue
			}
			_ = filepath.Walk(d, func(p string, info os.FileInfo, err error) error {
				if err != nil || info.IsDir() || info.Size() > maxSize || info.Size() == 0 {
					return nil
				}
				ext := filepath.Ext(p)
				if ext == ".fqtest" || ext == ".md" || ext == ".jq" || ext == ".sh" || ext == ".json" || ext == ".go" || ext == ".txt" {
					return nil
				}
				fs = append(fs, treeFile{path: p, format: f})
				return nil
			})
		}
	}
	sort.Slice(fs, func(i, j int) bool { return fs[i].path < fs[j].path })
	return fs
}

func genTrees(o *hlib.Out, r *hlib.Rand, repo string, nFiles int, budget int) {
	fs := listTestdata(repo, 40000)
	if len(fs) == 0 {
		o.Verdict("BADOP", "no testdata files found under "+repo)
		return
	}
	// one file per format first, then random ones
	seen := map[string]bool{}
	var pick []treeFile
	perm := make([]int, len(fs))
	for i := range perm {
		perm[i] = i
	}
	for i := len(perm) - 1; i > 0; i-- {
		j := r.Intn(i + 1)
		perm[i], perm[j] = perm[j], perm[i]
	}
	for _, i := range perm {
		if !seen[fs[i].format] {
			seen[fs[i].format] = true
			pick = append(pick, fs[i])
		}
	}
	for _, i := range perm {
		if len(pick) >= nFiles {
			break
		}
		pick = append(pick, fs[i])
	}
	if len(pick) > nFiles {
		pick = pick[:nFiles]
	}
	for _, f := range pick {
		data, err := os.ReadFile(f.path)
		if err != nil {
			continue
		}
		rel, _ := filepath.Rel(repo, f.path)
		runTreeFile(o, r, rel, data, f.format, budget, randWholeOpts(r))
	}
}

// ---- synthetic format: fields at arbitrary bit positions and sizes, driven by the input bytes

var synthGroup = &decode.Group{Name: "verif_c10"}

func init() {
	interp.RegisterFormat(synthGroup, &decode.Format{
		Description: "verification harness C10: unaligned fields of many sizes",
		DecodeFn: func(d *decode.D) any {
			n := d.FieldU("n", 4)
			d.FieldArray("items", func(d *decode.D) {
				for i := uint64(0); i < n && d.BitsLeft() > 16; i++ {
					d.FieldStruct("item", func(d *decode.D) {
						switch d.FieldU("kind", 2) {
						case 0:
							w := d.FieldU("w", 5)
							if int64(w)+1 <= d.BitsLeft() {
								d.FieldU("v", int(w)+1)
							}
						case 1:
							l := d.FieldU("len", 7)
							if int64(l) <= d.BitsLeft() {
								d.FieldRawLen("raw", int64(l))
							}
						case 2:
							l := d.FieldU("len", 3)
							if int64(l)*8 <= d.BitsLeft() {
								d.FieldUTF8("s", int(l))
							}
						default:
							w := d.FieldU("w", 8)
							if int64(w)+1 <= d.BitsLeft() {
								d.FieldUBigInt("big", int(w)+1)
							}
						}
					})
				}
			})
			d.FieldRawLen("rest", d.BitsLeft())
			return nil
		},
	})
}

func genSynth(o *hlib.Out, r *hlib.Rand, nFiles int, budget int) {
	for i := 0; i < nFiles; i++ {
		n := r.Range(1, 120)
		if r.Intn(5) == 0 {
			n = r.Range(120, 1500)
		}
		data := r.Bytes(n)
		var wp *dumpOpts
		if r.Intn(3) == 0 {
			wp = randWholeOpts(r)
		}
		runTreeFile(o, r, fmt.Sprintf("synth/%d", i), data, "verif_c10", budget, wp)
	}
}

// ---- replay of one `dump`/`tree` op line

func kvOf(ws []string, k string) string {
	for _, w := range ws {
		if strings.HasPrefix(w, k+"=") {
			return w[len(k)+1:]
		}
	}
	return ""
}

func replayDump(o *hlib.Out, r *hlib.Rand, repo string, ws []string) {
	atoi := func(k string) int { n, _ := strconv.Atoi(kvOf(ws, k)); return n }
	atoi64 := func(k string) int64 { n, _ := strconv.ParseInt(kvOf(ws, k), 10, 64); return n }
	p := dumpOpts{kind: kvOf(ws, "k"), lb: atoi("lb"), ab: atoi("ab"), sb: atoi("sb"), db: atoi("db"), color: atoi("c") == 1}
	win := hlib.UnHex(kvOf(ws, "root"))
	L, wo := atoi64("L"), atoi64("wo")
	// rebuild a root buffer of L bits that agrees with the original inside the window (zero elsewhere):
	// a single-value dump depends on nothing else
	root := make([]byte, (L+7)/8)
	copy(root[wo:], win)
	if ws[0] == "tree" {
		// a whole-tree dump needs the file
		// the op carries the whole file
		runTreeFile(o, r, kvOf(ws, "file"), win, kvOf(ws, "fmt"), 0, &p)
		return
	}
	runBinBatch(o, []binCase{{root: root, rootBits: L, start: atoi64("s"), length: atoi64("n"), p: p}})
}
