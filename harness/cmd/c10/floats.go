//go:build verif

package main

import (
	"encoding/binary"
	"fmt"
	"math"
	"strconv"
	"strings"

	"github.com/wader/fq/internal/verifharness/hlib"
	"github.com/wader/fq/pkg/decode"
	"github.com/wader/fq/pkg/interp"
)

// ---- FLOAT-valued JSON numbers: the printed text must read back to the float.
//
// One case line per (float, path): op `jsonf <src> <bits> <path>`, observation = the number
// token(s) fq printed for that float (joined by ','). <bits> = math.Float64bits of the value the
// harness put in (hex); <src> says how it was put in:
//   f64:<16 hex> f32:<8 hex> f16:<4 hex>   a field of the synthetic format verif_c10_flt
//   lit                                    a jq literal (17 significant digits, nan, infinite)
//   pow:<k> / pow:-<k>                     pow(2;k) / -pow(2;k)
// The Lean driver evaluates floatShownTrue(bits, token); nothing about strconv's digit choice is
// predicted.

var fltGroup = &decode.Group{Name: "verif_c10_flt"}

func init() {
	interp.RegisterFormat(fltGroup, &decode.Format{
		Description: "verification harness C10: float fields",
		DecodeFn: func(d *decode.D) any {
			d.FieldArray("items", func(d *decode.D) {
				for d.BitsLeft() >= 24 {
					d.FieldStruct("item", func(d *decode.D) {
						switch d.FieldU8("kind") {
						case 0:
							d.FieldF64("v")
						case 1:
							d.FieldF32("v")
						default:
							d.FieldF16("v")
						}
					})
				}
			})
			return nil
		},
	})
}

type fltItem struct {
	src  string // op word
	bits uint64 // bit pattern of the float64 value
	kind int    // 0 f64, 1 f32, 2 f16, 3 literal, 4 pow
	raw  uint64 // field bits (kinds 0..2), k (kind 4)
	neg  bool
}

func f16ToF64(h uint16) float64 {
	s, e, m := h>>15, int(h>>10)&31, float64(h&1023)
	var v float64
	switch {
	case e == 31 && m == 0:
		v = math.Inf(1)
	case e == 31:
		return math.NaN()
	case e == 0:
		v = math.Ldexp(m, -24)
	default:
		v = math.Ldexp(1024+m, e-25)
	}
	if s == 1 {
		v = -v
	}
	return v
}

func itemF64(b uint64) fltItem {
	return fltItem{src: fmt.Sprintf("f64:%016x", b), bits: b, kind: 0, raw: b}
}
func itemF32(b uint32) fltItem {
	return fltItem{src: fmt.Sprintf("f32:%08x", b), bits: math.Float64bits(float64(math.Float32frombits(b))), kind: 1, raw: uint64(b)}
}
func itemF16(b uint16) fltItem {
	return fltItem{src: fmt.Sprintf("f16:%04x", b), bits: math.Float64bits(f16ToF64(b)), kind: 2, raw: uint64(b)}
}
func itemLit(b uint64) fltItem { return fltItem{src: "lit", bits: b, kind: 3} }
func itemPow(k int, neg bool) fltItem {
	f := math.Ldexp(1, k)
	s := fmt.Sprintf("pow:%d", k)
	if neg {
		f = -f
		s = fmt.Sprintf("pow:-%d", k)
	}
	return fltItem{src: s, bits: math.Float64bits(f), kind: 4, raw: uint64(k), neg: neg}
}

// jq source text of a plain float
func (it fltItem) jq() string {
	if it.kind == 4 {
		if it.neg {
			return fmt.Sprintf("(-pow(2;%d))", it.raw)
		}
		return fmt.Sprintf("pow(2;%d)", it.raw)
	}
	f := math.Float64frombits(it.bits)
	switch {
	case math.IsNaN(f):
		return "nan"
	case math.IsInf(f, 1):
		return "infinite"
	case math.IsInf(f, -1):
		return "(-infinite)"
	case math.Signbit(f):
		return "(-" + strconv.FormatFloat(-f, 'e', 17, 64) + ")"
	}
	return strconv.FormatFloat(f, 'e', 17, 64)
}

func encodeFltItems(items []fltItem) []byte {
	var data []byte
	for _, it := range items {
		data = append(data, byte(it.kind))
		switch it.kind {
		case 0:
			data = binary.BigEndian.AppendUint64(data, it.raw)
		case 1:
			data = binary.BigEndian.AppendUint32(data, uint32(it.raw))
		default:
			data = binary.BigEndian.AppendUint16(data, uint16(it.raw))
		}
	}
	return data
}

type fltPath struct {
	args []string // decoded: over the file; plain: $X is the comma separated stream of sources
	reps int      // number tokens per float
}

var fltDecodedPaths = []fltPath{
	{[]string{"-V", "-c", ".items[].v"}, 1},
	{[]string{"-V", "[.items[].v]"}, 1},
	{[]string{"-r", ".items[].v|tovalue|tojson"}, 1},
	{[]string{"-r", "[.items[].v]|tojson"}, 1},
	{[]string{"-r", ".items[].v|tojson"}, 1},
	{[]string{".items[].v|tovalue"}, 1},
	{[]string{".items[].v|tovalue|d({compact:true})"}, 1},
	{[]string{"[.items[].v|tovalue]|d({compact:false,color:true})"}, 1},
	{[]string{"-c", ".items[].v|{a:.,b:{c:[tovalue]}}"}, 2},
	{[]string{".items[].v|tovalue|{a:.,b:[.]}"}, 2},
	{[]string{"-r", ".items[].v|tovalue|{a:.}|tojson({indent:3})"}, 1},
}

var fltPlainPaths = []fltPath{
	{[]string{"-n", "-c", "$X"}, 1},
	{[]string{"-n", "[$X]"}, 1},
	{[]string{"-n", "-r", "[$X]|tojson"}, 1},
	{[]string{"-n", "-c", "($X)|{a:.,b:[.]}"}, 2},
	{[]string{"-n", "($X)|d({compact:true,color:true})"}, 1},
	{[]string{"-n", "-r", "{a:[$X]}|tojson({indent:2})"}, 1},
}

// numberTokens: the scalar tokens of a JSON text outside strings, in order
func numberTokens(text string) []string {
	var toks []string
	cur := ""
	inStr := false
	flush := func() {
		if cur != "" {
			toks = append(toks, cur)
			cur = ""
		}
	}
	for i := 0; i < len(text); i++ {
		c := text[i]
		if inStr {
			if c == '\\' {
				i++
			} else if c == '"' {
				inStr = false
			}
			continue
		}
		switch c {
		case '"':
			flush()
			inStr = true
		case '[', ']', '{', '}', ',', ':', ' ', '\t', '\n', '\r':
			flush()
		default:
			cur += string(c)
		}
	}
	flush()
	return toks
}

// runFltPath: all items through one path in one fq run; one case line per item
func runFltPath(o *hlib.Out, items []fltItem, decoded bool, pi int) {
	var p fltPath
	var out, stderr string
	var err error
	tag := ""
	if decoded {
		p = fltDecodedPaths[pi]
		tag = fmt.Sprintf("d%d", pi)
		name := "synthflt/x"
		args := append([]string{"-d", "verif_c10_flt"}, p.args...)
		args = append(args, name)
		out, stderr, err = runFq(memFS{name: encodeFltItems(items)}, args...)
	} else {
		p = fltPlainPaths[pi]
		tag = fmt.Sprintf("p%d", pi)
		srcs := make([]string, len(items))
		for i, it := range items {
			srcs[i] = it.jq()
		}
		args := make([]string, len(p.args))
		for i, a := range p.args {
			args[i] = strings.ReplaceAll(a, "$X", strings.Join(srcs, ","))
		}
		out, stderr, err = runFq(nil, args...)
	}
	if err != nil {
		if len(items) > 1 {
			for _, it := range items {
				runFltPath(o, []fltItem{it}, decoded, pi)
			}
			return
		}
		o.Case(fmt.Sprintf("jsonf %s %016x %s", items[0].src, items[0].bits, tag), "err:"+firstLine(stderr))
		return
	}
	toks := numberTokens(stripANSI(out))
	if len(toks) != len(items)*p.reps {
		if len(items) > 1 {
			for _, it := range items {
				runFltPath(o, []fltItem{it}, decoded, pi)
			}
			return
		}
		o.Case(fmt.Sprintf("jsonf %s %016x %s", items[0].src, items[0].bits, tag), fmt.Sprintf("err:count %d", len(toks)))
		return
	}
	for i, it := range items {
		o.Case(fmt.Sprintf("jsonf %s %016x %s", it.src, it.bits, tag), strings.Join(toks[i*p.reps:(i+1)*p.reps], ","))
		o.Stat("json_float_cases", 1)
		o.Class(fmt.Sprintf("flt %d %s %d", it.kind, tag, (it.bits>>52)&0x7ff/32))
	}
}

func rf64(r *hlib.Rand) float64 { return float64(r.U64()>>11) / (1 << 53) }

func boundaryFloatBits(r *hlib.Rand, nRandom int) []uint64 {
	var bs []uint64
	add := func(b uint64) { bs = append(bs, b) }
	addF := func(f float64) { add(math.Float64bits(f)) }
	around := func(f float64) {
		b := math.Float64bits(f)
		add(b - 1)
		add(b)
		add(b + 1)
	}
	for _, k := range []int{31, 32, 52, 53, 62, 63, 64, 1023} {
		around(math.Ldexp(1, k))
		around(-math.Ldexp(1, k))
	}
	// integer-valued floats where strconv / encodeFloat64 switch to exponent form, and digit-count steps
	for e := 15; e <= 22; e++ {
		f, _ := strconv.ParseFloat(fmt.Sprintf("1e%d", e), 64)
		around(f)
		around(-f)
		addF(math.Floor(f * (1 + rf64(r)*8)))
	}
	around(1e-6)
	around(1e-7)
	around(1e-5)
	for _, f := range []float64{0, math.Copysign(0, -1), 0.1, -0.1, 1.0 / 3, 0.5, 1, -1, 1.5, 123456789.125,
		math.SmallestNonzeroFloat64, -math.SmallestNonzeroFloat64, math.MaxFloat64, -math.MaxFloat64,
		2.2250738585072014e-308, 2.225073858507201e-308, 9007199254740993, 9007199254740994, 4503599627370495.5,
		9223372036854774784, -9223372036854774784, 18446744073709549568, 1e100, -1e-100, 3.4028234663852886e38, 65504} {
		addF(f)
	}
	// NaN / Inf
	for _, b := range []uint64{0x7ff0000000000000, 0xfff0000000000000, 0x7ff8000000000001, 0x7ff0000000000001, 0xfff8000000000000, 0x7fffffffffffffff} {
		add(b)
	}
	for i := 0; i < nRandom; i++ {
		switch r.Intn(4) {
		case 0: // integer valued, up to 2^70
			addF(math.Floor(math.Ldexp(1+rf64(r), r.Range(0, 70))) * float64(1-2*r.Intn(2)))
		case 1:
			addF(float64(int64(r.U64())))
		default:
			add(r.U64())
		}
	}
	return bs
}

func fltItems(r *hlib.Rand, nRandom int) (decoded, plain []fltItem) {
	for _, b := range boundaryFloatBits(r, nRandom) {
		decoded = append(decoded, itemF64(b))
		f := math.Float64frombits(b)
		f32 := float32(f)
		if float64(f32) == f || r.Intn(4) == 0 {
			decoded = append(decoded, itemF32(math.Float32bits(f32)))
		}
		if !(f == 0 && math.Signbit(f)) { // a jq literal cannot say -0 reliably
			plain = append(plain, itemLit(b))
		}
	}
	for _, b := range []uint32{0x5f000000, 0xdf000000, 0x5effffff, 0x5f000001, 0x4f000000, 0x4f800000, 0x7f7fffff, 0x7f800000, 0xff800000, 0x7fc00000, 0x00000001, 0x80000000, 0x3dcccccd} {
		decoded = append(decoded, itemF32(b))
	}
	for i := 0; i < nRandom/2; i++ {
		decoded = append(decoded, itemF32(uint32(r.U64())))
	}
	for _, b := range []uint16{0x7c00, 0xfc00, 0x7e00, 0x7bff, 0xfbff, 0x0001, 0x8001, 0x3c00, 0x8000, 0x0000, 0x2e66, 0x0400, 0x03ff} {
		decoded = append(decoded, itemF16(b))
	}
	for i := 0; i < nRandom/2; i++ {
		decoded = append(decoded, itemF16(uint16(r.U64())))
	}
	for _, k := range []int{31, 32, 52, 53, 62, 63, 64, 1023} {
		plain = append(plain, itemPow(k, false), itemPow(k, true))
	}
	// each source once
	seen := map[string]bool{}
	var dd []fltItem
	for _, it := range decoded {
		if !seen[it.src] {
			seen[it.src] = true
			dd = append(dd, it)
		}
	}
	return dd, plain
}

func genFloats(o *hlib.Out, r *hlib.Rand, thorough bool) {
	n := 60
	if thorough {
		n = 1500
	}
	decoded, plain := fltItems(r, n)
	const batch = 64
	for s := 0; s < len(decoded); s += batch {
		part := decoded[s:min(s+batch, len(decoded))]
		for pi := range fltDecodedPaths {
			runFltPath(o, part, true, pi)
		}
	}
	for s := 0; s < len(plain); s += batch {
		part := plain[s:min(s+batch, len(plain))]
		for pi := range fltPlainPaths {
			runFltPath(o, part, false, pi)
		}
	}
}

// replayFloat: `jsonf <src> <bits> <path>`
func replayFloat(o *hlib.Out, ws []string) bool {
	if len(ws) < 4 || len(ws[3]) < 2 {
		return false
	}
	bits, err := strconv.ParseUint(ws[2], 16, 64)
	pi, err2 := strconv.Atoi(ws[3][1:])
	if err != nil || err2 != nil {
		return false
	}
	var it fltItem
	kind, arg, _ := strings.Cut(ws[1], ":")
	raw, _ := strconv.ParseUint(arg, 16, 64)
	switch kind {
	case "f64":
		it = itemF64(raw)
	case "f32":
		it = itemF32(uint32(raw))
	case "f16":
		it = itemF16(uint16(raw))
	case "lit":
		it = itemLit(bits)
	case "pow":
		k, _ := strconv.Atoi(strings.TrimPrefix(arg, "-"))
		it = itemPow(k, strings.HasPrefix(arg, "-"))
	default:
		return false
	}
	decoded := ws[3][0] == 'd'
	if decoded && (it.kind > 2 || pi >= len(fltDecodedPaths)) || !decoded && (it.kind < 3 || pi >= len(fltPlainPaths)) {
		return false
	}
	runFltPath(o, []fltItem{it}, decoded, pi)
	return true
}
