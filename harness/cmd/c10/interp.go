//go:build verif

package main

import (
	"bytes"
	"context"
	"fmt"
	"io"
	"io/fs"
	"regexp"
	"strings"
	"time"

	_ "github.com/wader/fq/format/all"
	"github.com/wader/fq/pkg/interp"
)

// virtual OS for an in-process fq (after format/fuzz_test.go): files come from a map,
// stdout is captured, no terminal.
type memFile struct {
	*bytes.Reader
	name string
	size int64
}

func (f *memFile) Stat() (fs.FileInfo, error) {
	return interp.FixedFileInfo{FName: f.name, FSize: f.size, FMode: 0o444, FModTime: time.Unix(0, 0)}, nil
}
func (f *memFile) Close() error { return nil }

type memFS map[string][]byte

func (m memFS) Open(name string) (fs.File, error) {
	b, ok := m[name]
	if !ok {
		return nil, &fs.PathError{Op: "open", Path: name, Err: fs.ErrNotExist}
	}
	return &memFile{Reader: bytes.NewReader(b), name: name, size: int64(len(b))}, nil
}

type vin struct {
	interp.FileReader
	io.Writer
}

func (vin) IsTerminal() bool { return false }
func (vin) Size() (int, int) { return 120, 25 }

type vout struct{ io.Writer }

func (vout) Size() (int, int) { return 120, 25 }
func (vout) IsTerminal() bool { return false }

type vos struct {
	args   []string
	files  fs.FS
	stdout *bytes.Buffer
	stderr *bytes.Buffer
}

func (o *vos) Platform() interp.Platform { return interp.Platform{} }
func (o *vos) Stdin() interp.Input {
	return vin{FileReader: interp.FileReader{R: bytes.NewBuffer(nil)}}
}
func (o *vos) Stdout() interp.Output                            { return vout{o.stdout} }
func (o *vos) Stderr() interp.Output                            { return vout{o.stderr} }
func (o *vos) InterruptChan() chan struct{}                     { return nil }
func (o *vos) Environ() []string                                { return nil }
func (o *vos) Args() []string                                   { return o.args }
func (o *vos) ConfigDir() (string, error)                       { return "/config", nil }
func (o *vos) FS() fs.FS                                        { return o.files }
func (o *vos) History() ([]string, error)                       { return nil, nil }
func (o *vos) Readline(opts interp.ReadlineOpts) (string, error) { return "", io.EOF }

// runFq runs the real interpreter's Main with the given command line and returns stdout, stderr.
func runFq(files memFS, args ...string) (stdout string, stderr string, err error) {
	return runFqFS(files, args...)
}

// runFqFS: the same with any file system (real files for the file-backed sessions)
func runFqFS(files fs.FS, args ...string) (stdout string, stderr string, err error) {
	o := &vos{args: append([]string{"fq"}, args...), files: files, stdout: &bytes.Buffer{}, stderr: &bytes.Buffer{}}
	defer func() {
		if r := recover(); r != nil {
			err = fmt.Errorf("panic: %v", r)
			stdout, stderr = o.stdout.String(), o.stderr.String()
		}
	}()
	q, nerr := interp.New(o, interp.DefaultRegistry)
	if nerr != nil {
		return "", "", nerr
	}
	err = q.Main(context.Background(), o.Stdout(), "verif")
	return o.stdout.String(), o.stderr.String(), err
}

// independent of fq's ansi package: CSI ... m
var ansiRe = regexp.MustCompile("\x1b\\[[0-9;]*m")

func stripANSI(s string) string { return ansiRe.ReplaceAllString(s, "") }

// sections splits captured stdout at marker lines "@@<id>"; text of a section keeps its line feeds.
func sections(out string) map[string]string {
	res := map[string]string{}
	cur := ""
	var sb strings.Builder
	flush := func() {
		if cur != "" {
			res[cur] = sb.String()
		}
		sb.Reset()
	}
	for _, l := range strings.SplitAfter(out, "\n") {
		if strings.HasPrefix(l, "@@") {
			flush()
			cur = strings.TrimRight(l[2:], "\n")
			if i := strings.IndexByte(cur, ' '); i >= 0 {
				// "@@!id message": an error caught by the jq program
				res[cur[:i]+"#msg"] = cur[i+1:]
				cur = cur[:i]
			}
			continue
		}
		sb.WriteString(l)
	}
	flush()
	return res
}

const rsep = "\x1e"

// obsLines encodes a printed text as one observation: characters outside printable ASCII become
// '?', line feeds become U+001E.
func obsLines(s string) string {
	var sb strings.Builder
	for _, r := range s {
		switch {
		case r == '\n':
			sb.WriteString(rsep)
		case r < 32 || r > 126:
			sb.WriteByte('?')
		default:
			sb.WriteRune(r)
		}
	}
	return sb.String()
}
