//go:build verif

package main

import (
	"fmt"
	"math/big"
	"sort"
	"strings"

	"github.com/wader/fq/internal/verifharness/hlib"
)

// JSON values are generated as text by the harness itself (integers through big.Int.String,
// strings escaped here), given to fq as jq literals, and printed by fq in several ways.

func jsonString(s string) string {
	var sb strings.Builder
	sb.WriteByte('"')
	for _, r := range s {
		switch {
		case r == '"':
			sb.WriteString(`\"`)
		case r == '\\':
			sb.WriteString(`\\`)
		case r < 0x20 || r == 0x7f:
			fmt.Fprintf(&sb, `\u%04x`, r)
		default:
			sb.WriteRune(r)
		}
	}
	sb.WriteByte('"')
	return sb.String()
}

func randString(r *hlib.Rand) string {
	var sb strings.Builder
	n := r.Intn(12)
	for i := 0; i < n; i++ {
		switch r.Intn(9) {
		case 0:
			sb.WriteByte(byte(r.Intn(0x20))) // control characters incl. \b \f \n \r \t
		case 1:
			sb.WriteString([]string{`"`, `\`, "/", "\x7f", "<", ">", "&", "'", " "}[r.Intn(9)])
		case 2:
			sb.WriteRune(rune(0x80 + r.Intn(0x780))) // 2-byte UTF-8
		case 3:
			c := rune(0x800 + r.Intn(0xf800))
			if c >= 0xd800 && c < 0xe000 {
				c = 0x2028 + rune(r.Intn(2))
			}
			sb.WriteRune(c)
		case 4:
			sb.WriteRune(rune(0x10000 + r.Intn(0x100000))) // astral
		default:
			sb.WriteByte(byte(0x20 + r.Intn(0x5f)))
		}
	}
	return sb.String()
}

func randBig(r *hlib.Rand) *big.Int {
	bits := r.Range(1, 400)
	b := new(big.Int).SetBytes(r.Bytes((bits + 7) / 8))
	b.Rsh(b, uint(8*((bits+7)/8)-bits))
	if r.Bool() {
		b.Neg(b)
	}
	return b
}

func randJSON(r *hlib.Rand, depth int) string {
	k := r.Intn(8)
	if depth <= 0 && k >= 6 {
		k = r.Intn(6)
	}
	switch k {
	case 0:
		return []string{"null", "true", "false"}[r.Intn(3)]
	case 1:
		return fmt.Sprint(int64(r.U64()) >> uint(r.Intn(64)))
	case 2, 3:
		return randBig(r).String()
	case 4, 5:
		return jsonString(randString(r))
	case 6:
		n := r.Intn(4)
		es := make([]string, n)
		for i := range es {
			es[i] = randJSON(r, depth-1)
		}
		return "[" + strings.Join(es, ",") + "]"
	default:
		n := r.Intn(4)
		keys := map[string]bool{}
		var ks []string
		for len(ks) < n {
			key := randString(r)
			if !keys[key] {
				keys[key] = true
				ks = append(ks, key)
			}
		}
		// given in random (generation) order: fq must print them sorted
		if r.Bool() {
			sort.Strings(ks)
		}
		es := make([]string, n)
		for i, key := range ks {
			es[i] = jsonString(key) + ":" + randJSON(r, depth-1)
		}
		return "{" + strings.Join(es, ",") + "}"
	}
}

var jsonModes = []struct{ mode, call string }{
	{"c", `d({compact:true,color:false})`},
	{"i", `d({compact:false,color:false})`},
	{"cC", `d({compact:true,color:true})`},
	{"iC", `d({compact:false,color:true})`},
	{"t", `tojson|println`},
}

func runJSONBatch(o *hlib.Out, vals []string) {
	var sb strings.Builder
	for i, v := range vals {
		if i > 0 {
			sb.WriteString(",\n")
		}
		fmt.Fprintf(&sb, "(%s|(", v)
		for j, m := range jsonModes {
			if j > 0 {
				sb.WriteString(",")
			}
			fmt.Fprintf(&sb, `("@@j%d%s"|println),(%s)`, i, m.mode, m.call)
		}
		sb.WriteString("))")
	}
	out, stderr, err := runFq(nil, "-n", sb.String())
	if err != nil {
		o.Verdict("BADOP", fmt.Sprintf("fq failed on a batch of JSON values: %v %s", err, firstLine(stderr)))
		return
	}
	secs := sections(out)
	for i, v := range vals {
		for _, m := range jsonModes {
			text, ok := secs[fmt.Sprintf("j%d%s", i, m.mode)]
			if !ok {
				o.Verdict("BADOP", "no output for JSON value "+v)
				continue
			}
			mode := m.mode[:1]
			o.Case(fmt.Sprintf("json %s %s", mode, v), strings.ReplaceAll(stripANSI(text), "\n", rsep))
			o.Stat("json_"+m.mode, 1)
		}
		if len(v) > 12 {
			o.Class("json " + v)
		}
	}
}

func genJSON(o *hlib.Out, r *hlib.Rand, thorough bool) {
	var vals []string
	// ±(2^k ± 1) and ±2^k for k ≤ 300
	step := 7
	if thorough {
		step = 1
	}
	for k := 0; k <= 300; k += step {
		p := new(big.Int).Lsh(big.NewInt(1), uint(k))
		for _, d := range []int64{-1, 0, 1} {
			v := new(big.Int).Add(p, big.NewInt(d))
			vals = append(vals, v.String(), new(big.Int).Neg(v).String())
		}
	}
	for _, k := range []int{31, 32, 52, 53, 54, 62, 63, 64, 65, 127, 128, 300} {
		p := new(big.Int).Lsh(big.NewInt(1), uint(k))
		for _, d := range []int64{-2, -1, 0, 1, 2} {
			v := new(big.Int).Add(p, big.NewInt(d))
			vals = append(vals, v.String(), new(big.Int).Neg(v).String())
		}
	}
	// negative big integers of 64-bit magnitude: [-(2^64-1), -2^63] and neighbours
	lo := new(big.Int).Lsh(big.NewInt(1), 63)
	for i := 0; i < 24; i++ {
		v := new(big.Int).SetUint64(r.U64() | 1<<63)
		if i%4 == 0 {
			v = new(big.Int).SetUint64(r.U64() >> uint(1+r.Intn(40)))
			v.Add(v, lo)
		}
		vals = append(vals, new(big.Int).Neg(v).String(), v.String())
	}
	// every escape class of encodeString
	var all strings.Builder
	for c := 0; c < 0x80; c++ {
		all.WriteByte(byte(c))
	}
	vals = append(vals, jsonString(all.String()), jsonString(""), jsonString("\u0080߿ࠀ￿\U00010000\U0010ffff  "),
		`[]`, `{}`, `[[]]`, `[{}]`, `{"":[]}`, `{"b":1,"a":2,"B":3,"":4,"aa":5,"é":6,"z":7}`, `[1,[2,[3,[4,[5,[6]]]]]]`)
	n := 250
	if thorough {
		n = 6000
	}
	for i := 0; i < n; i++ {
		vals = append(vals, randJSON(r, 3))
	}
	o.Sample("json c " + vals[len(vals)-1])
	const batch = 120
	for len(vals) > 0 {
		k := min(len(vals), batch)
		runJSONBatch(o, vals[:k])
		vals = vals[k:]
	}
}
